(* DataPersist2.v -- property C02 "the byte image always reopens to the same
   state" for the data-moving operations DataPersist.v left open.

   The invariant.  [CohData' s] = [Coherent s] (every table on disk equals its
   cache, the image passes strict validation) + StoreAlloc's [SWf] (every
   stream entry has a chain that covers its length; all chains, the free stack
   and the FAT sectors pairwise disjoint; the mini level well-formed, root
   length = 64 x MiniFAT length) + the MiniFAT chain disjoint from the
   directory chain + [FreeClean] + [Aux] (nothing points to a FREE cell of the
   FAT or the MiniFAT, nor to the first (mini) sector of a stream).
   [CohTree s] adds the tree part of PersistProofs.PInv (per-entry conditions,
   root conditions, the table represents a tree), which the namespace calls
   need.  [CohData' s] implies DataPersist's [CohData s].

   Sections (in file order):
     0   small facts; the invariant; SWf gives AllStreamsWf
     1   a large stream is resized to a large length: [BigReady] (the state in
         which the entry can be written back), the master lemma
         [big_finish_cohdata'], and the four cases of Chain::set_len:
           same count            resize_big_same_cohdata'
           growth, free stack    resize_big_reuse_cohdata'      (item 1)
           growth, end of file   resize_big_append_cohdata'     (item 1)
           release of sectors    resize_big_release_cohdata'    (item 2)
         (StoreAlloc's FAT-frame lemmas are generalised to a growing file in
         Module FrameG)
     2   releasing FAT sectors: FR_free_sector, free_chain_go_FR,
         free_chain_after_FR
     3   api_remove_stream on a stream with data (item 3):
           remove_big_stream_cohtree, remove_small_stream_cohtree
           (and remove_empty_stream_cohtree, placed before section 8)
         with the mini level: [CoreNM] / [frameM] / [CohM], set_minifat_cohm,
         truncate_coherent, root_len_coherent, free_mini_sector_coh,
         free_mini_chain_go_coh
     4   small-stream growth with mini-sector allocation (item 4):
           alloc_mini_coh (free list / append within capacity),
           mini_extend_coh, mchain_grow_coh,
           resize_small_alloc_cohdata', resize_empty_small_cohdata'
     5   the reopened state satisfies the invariant again (item 5):
           coherent_reopened, swf_reopened, cohdata'_reopened, cohtree_reopened
     7   covered writes keep the invariant: write_big_cohdata',
         write_small_cohdata', covered_write_cohtree
     4c  the rest of item 4: MiniChain::write with extension
         (mchain_write_go_coh) and Chain::write / Chain::set_len starting in the
         free stack (begin_chain_reuse_coherent, grow_ready_from,
         write_step_ready, write_all_ready); [CohX s .. id] = the invariant
         except for stream [id], whose old storage was released
         (free_whole_cohX, free_small_ready); big_finish_X, small_finish_X:
           write_small_alloc_cohdata', write_empty_small_cohdata'
           resize_empty_big_cohdata',  write_empty_big_cohdata'
           resize_small_to_big_cohdata', write_small_to_big_cohdata'   (2b)
           resize_big_to_small_cohdata'                                (3b)
           write_big_alloc_cohdata' (a write that pops sectors for a large stream)
           resize_big_to_zero_cohdata', resize_small_to_zero_cohdata'
     8   histories (item 5): [ResizeCase] (eleven cases), [WriteCase] (six cases),
         resize_case_cohtree, write_case_cohtree, hop_run_cohtree,
         step_cohtree (handle operations, ORemoveStream, OReopen, queries),
         persist_data_history2
     6   non-vacuity (item 6): boolean checkers cohdata'_b / treepart_check,
         Example1 .. Example6 on states built by running the model
   Stdlib only; no axioms; every proof is complete. *)
From Coq Require Import List NArith ZArith Lia Bool ZifyN ZifyBool Permutation.
From Cfb.model Require Import Base Names Time DirEnt State Alloc Dir Mini Store Handle Open Cfb.
From Cfb.gen Require Import Consts.
From Cfb.proofs Require Import DirProofs ChainProofs.
From Cfb.proofs Require CodecProofs WalkProofs ReuseProofs CoherenceProofs DirCoherence
                        ReopenProofs MutRefine PersistProofs StoreProofs StoreMiniProofs
                        MiniChainProofs HandleFrame TimeProofs QueryRefine StoreAlloc DataPersist TreeProofs WalkSafe.
From Cfb.spec Require Tree.
Import ListNotations.
Open Scope N_scope.

Ltac Zify.zify_post_hook ::= Z.div_mod_to_equations.

Import ReopenProofs PersistProofs.
Import ReuseProofs StoreProofs MiniChainProofs StoreMiniProofs HandleFrame.
Import DataPersist.

Module SA := StoreAlloc.

Notation regs := WalkProofs.regs.
Notation regular := WalkProofs.regular.
Notation path := WalkProofs.path.

(* ================================================================== *)
(* 0. small facts                                                      *)
(* ================================================================== *)

Lemma regs_updN_drop : forall l i c v,
  nthN l i = Some c -> regular c = true -> regular v = false ->
  Permutation (c :: regs (updN l i v)) (regs l).
Proof.
  induction l as [|a t IH]; intros i c v Hn Hc Hv; [discriminate Hn|].
  cbn [updN nthN] in *. destruct (i =? 0).
  - injection Hn as ->. unfold WalkProofs.regs. cbn [filter]. rewrite Hc, Hv. reflexivity.
  - unfold WalkProofs.regs. cbn [filter]. fold (regs (updN t (N.pred i) v)). fold (regs t).
    destruct (regular a).
    + etransitivity; [apply perm_swap|]. apply perm_skip. eapply IH; eassumption.
    + eapply IH; eassumption.
Qed.

(* overwriting a cell by END_OF_CHAIN or FREE_SECTOR keeps the FAT valid and
   only removes a pointee *)
Lemma pointees_unlink : forall fat i v,
  check_pointees false fat (lenN fat) [] = Ok tt ->
  i < lenN fat -> (v = END_OF_CHAIN \/ v = FREE_SECTOR) ->
  check_pointees false (updN fat i v) (lenN (updN fat i v)) [] = Ok tt /\
  (forall y, In y (regs (updN fat i v)) -> In y (regs fat)) /\
  (forall c, nthN fat i = Some c -> regular c = true -> ~ In c (regs (updN fat i v))).
Proof.
  intros fat i v H Hi Hv.
  apply WalkProofs.check_pointees_spec in H. destruct H as (P1 & P2 & _ & P4).
  destruct irregular_marks as [IE IF].
  assert (Hvr : regular v = false) by (destruct Hv as [-> | ->]; assumption).
  destruct (WalkProofs.nthN_lt_Some fat i Hi) as [c Hc].
  destruct (regular c) eqn:Rc.
  - pose proof (regs_updN_drop fat i c v Hc Rc Hvr) as HP.
    assert (Hsub : forall y, In y (regs (updN fat i v)) -> In y (regs fat)).
    { intros y Hy. eapply Permutation_in; [exact HP|]. right. exact Hy. }
    assert (Hnd : NoDup (c :: regs (updN fat i v))).
    { eapply Permutation_NoDup; [apply Permutation_sym; exact HP|exact P2]. }
    split; [|split; [exact Hsub|]].
    + apply WalkProofs.check_pointees_spec. rewrite lenN_updN.
      split; [|split; [|split]].
      * rewrite Forall_forall in *. intros y Hy. apply P1. apply Hsub. exact Hy.
      * inversion Hnd; assumption.
      * intros y _ [].
      * intros _ Hin. pose proof INVALID_val as HI. markers.
        apply In_updN in Hin. destruct Hin as [E|Hin]; [destruct Hv; lia|]. exact (P4 eq_refl Hin).
    + intros c' Hc' _. assert (c' = c) by congruence. subst c'. inversion Hnd; assumption.
  - pose proof (regs_updN_irr fat i c v Hc Rc Hvr) as HE.
    split; [|split].
    + apply WalkProofs.check_pointees_spec. rewrite lenN_updN, HE.
      split; [exact P1|]. split; [exact P2|]. split; [intros y _ []|].
      intros _ Hin. pose proof INVALID_val as HI. markers.
      apply In_updN in Hin. destruct Hin as [E|Hin]; [destruct Hv; lia|]. exact (P4 eq_refl Hin).
    + intros y Hy. rewrite HE in Hy. exact Hy.
    + intros c' Hc' Hr. assert (c' = c) by congruence. subst c'. congruence.
Qed.

Lemma ceil_le : forall sl t n, 0 < sl -> t <= sl * n -> (t + sl - 1) / sl <= n.
Proof.
  intros sl t n Hs Ht.
  assert ((t + sl - 1) / sl < n + 1) by (apply N.div_lt_upper_bound; nia). lia.
Qed.

Lemma path_hd_start : forall fat c l, path fat c l -> c = hd END_OF_CHAIN l.
Proof. exact SA.path_hd. Qed.

(* ================================================================== *)
(* 0b. the strengthened invariant                                      *)
(* ================================================================== *)

(* the structural part: StoreAlloc's SWf (with its four witnesses) and the one
   disjointness it does not state *)
Definition SD (s : cstate) (r : dirent) (rids mfids dids : list N) : Prop :=
  SA.SWfX_at s r rids mfids dids SA.noX /\ disjoint mfids dids.

(* "no cell of the table holds y": nothing points to y *)
Definition unref (tbl : list N) (y : N) : Prop := forall i, nthN tbl i <> Some y.

Lemma In_nthN' : forall A (l : list A) x, In x l -> exists i, nthN l i = Some x.
Proof.
  induction l as [|a t IH]; intros x H; [destruct H|].
  destruct H as [<-|H]; [exists 0; reflexivity|].
  destruct (IH x H) as [i Hi]. exists (i + 1). rewrite nthN_cons_pos by lia.
  replace (N.pred (i + 1)) with i by lia. exact Hi.
Qed.

Lemma unref_regs : forall tbl y, y <= MAX_REGULAR_SECTOR -> (unref tbl y <-> ~ In y (regs tbl)).
Proof.
  intros tbl y Hy. unfold WalkProofs.regs. split.
  - intros H Hin. apply filter_In in Hin. destruct Hin as [Hin _].
    destruct (In_nthN' _ _ _ Hin) as [i Hi]. exact (H i Hi).
  - intros H i Hi. apply H. apply filter_In. split; [eapply nthN_In; exact Hi|].
    apply regular_spec. exact Hy.
Qed.

(* the auxiliary facts that keep the free lists clean when whole chains are
   released, and the free lists rebuilt at the next open: nothing points to a
   FREE cell of the FAT or of the MiniFAT, to the first sector of a large
   stream, or to the first mini sector of a small stream *)
Record Aux (s : cstate) : Prop := mkAux {
  ax_free : forall x, nthN (fat s) x = Some FREE_SECTOR -> unref (fat s) x;
  ax_heads : forall id e, nthN (dirs s) id = Some e -> SA.big_entry e -> unref (fat s) (d_start e);
  ax_mfree : forall x, nthN (minifat s) x = Some FREE_SECTOR -> unref (minifat s) x;
  ax_mheads : forall id e, nthN (dirs s) id = Some e -> SA.small_entry e -> unref (minifat s) (d_start e)
}.

Record CohData' (s : cstate) : Prop := mkCD' {
  cd_coh : Coherent s;
  cd_wf : exists r rids mfids dids, SD s r rids mfids dids;
  cd_free : FreeClean s;
  cd_aux : Aux s
}.

Lemma big_ids_entry : forall s id ids, big_ids s id ids ->
  exists e, nthN (dirs s) id = Some e /\ SA.big_entry e /\ chain_ids_of (fat s) (d_start e) = Ok ids.
Proof. intros s id ids (e & He & Ht & Hc & Hch). exists e. repeat split; assumption. Qed.

Lemma small_ids_entry : forall s id m, small_ids s id m ->
  exists e, nthN (dirs s) id = Some e /\ SA.small_entry e /\ chain_ids_of (minifat s) (d_start e) = Ok m.
Proof. intros s id m (e & He & Ht & H0 & Hc & Hch). exists e. repeat split; assumption. Qed.

(* SWf gives HandleFrame's AllStreamsWf *)
Theorem SD_allwf : forall s r rids mfids dids, SD s r rids mfids dids -> AllStreamsWf s.
Proof.
  intros s r rids mfids dids [SW Hmd].
  pose proof (SA.sw_m _ _ _ _ _ _ SW) as W.
  assert (Hdir : forall l, StoreProofs.dir_ids s l -> l = dids).
  { intros l Hl. unfold StoreProofs.dir_ids in Hl. rewrite (SA.mw_dch _ _ _ _ _ W) in Hl. congruence. }
  assert (Hroot : forall l, root_ids s l -> l = rids).
  { intros l Hl. exact (root_ids_fun s l rids Hl (SA.root_ids_of_wf _ _ _ _ _ W)). }
  assert (Hmf : forall l, mfat_ids s l -> l = mfids).
  { intros l Hl. unfold mfat_ids in Hl. rewrite (SA.mw_mch _ _ _ _ _ W) in Hl. congruence. }
  assert (Hbig : forall id ids x, big_ids s id ids -> In x ids ->
            ~ In x rids /\ ~ In x mfids /\ ~ In x dids /\ ~ In x (free s) /\ ~ In x (difat s)).
  { intros id ids x Hb Hx. destruct (big_ids_entry _ _ _ Hb) as (e & He & Hbe & Hc).
    exact (SA.sw_big _ _ _ _ _ _ SW id e ids (SA.noX_not _) He Hbe Hc x Hx). }
  constructor.
  - constructor.
    + apply SW.
    + apply SW.
    + exists dids. split; [exact (SA.mw_dch _ _ _ _ _ W)|]. split; [apply W|apply W].
    + apply W.
    + intros id ids l Hb Hl x Hx. rewrite (Hdir l Hl). apply (Hbig id ids x Hb Hx).
    + apply SW.
    + intros x Hx. split; [|split].
      * intros id ids Hb Hin. destruct (Hbig id ids x Hb Hin) as (_ & _ & _ & H & _). contradiction.
      * intros l Hl Hin. rewrite (Hdir l Hl) in Hin.
        destruct (SA.sw_sys _ _ _ _ _ _ SW x (or_intror (or_intror Hin))) as [H _]. contradiction.
      * exact (SA.sw_fdifat _ _ _ _ _ _ SW x Hx).
    + intros f Hf. split.
      * intros id ids Hb Hin. destruct (Hbig id ids f Hb Hin) as (_ & _ & _ & _ & H). contradiction.
      * intros l Hl Hin. rewrite (Hdir l Hl) in Hin.
        destruct (SA.sw_sys _ _ _ _ _ _ SW f (or_intror (or_intror Hin))) as [_ H]. contradiction.
  - intros i j li lj Hij Hi Hj x Hx Hxj.
    destruct (big_ids_entry _ _ _ Hi) as (ei & Hei & Hbi & Hci).
    destruct (big_ids_entry _ _ _ Hj) as (ej & Hej & Hbj & Hcj).
    exact (SA.sw_bigdisj _ _ _ _ _ _ SW i j ei ej li lj (SA.noX_not _) (SA.noX_not _) Hij
             Hei Hbi Hci Hej Hbj Hcj x Hx Hxj).
  - intros l d Hl Hd. rewrite (Hroot l Hl), (Hdir d Hd). intros x Hx. exact (SA.mw_rd _ _ _ _ _ W x Hx).
  - intros l id ids Hl Hb. rewrite (Hroot l Hl). intros x Hx. apply (Hbig id ids x Hb Hx).
  - intros l d Hl Hd. rewrite (Hmf l Hl), (Hdir d Hd). exact Hmd.
  - intros l rr Hl Hr. rewrite (Hmf l Hl), (Hroot rr Hr). intros x Hx Hin.
    exact (SA.mw_rm _ _ _ _ _ W x Hin Hx).
  - intros l id ids Hl Hb. rewrite (Hmf l Hl). intros x Hx. apply (Hbig id ids x Hb Hx).
  - intros i j mi mj Hij Hi Hj x Hx Hxj.
    destruct (small_ids_entry _ _ _ Hi) as (ei & Hei & Hsi & Hci).
    destruct (small_ids_entry _ _ _ Hj) as (ej & Hej & Hsj & Hcj).
    exact (SA.sw_disj _ _ _ _ _ _ SW i j ei ej mi mj (SA.noX_not _) (SA.noX_not _) Hij
             Hei Hsi Hci Hej Hsj Hcj x Hx Hxj).
Qed.

Theorem CohData'_CohData : forall s, CohData' s -> CohData s.
Proof.
  intros s [HC (r & rids & mfids & dids & HSD) _ _]. split; [exact HC|]. eapply SD_allwf. exact HSD.
Qed.

Theorem cohdata'_reopens : forall s, CohData' s -> forall strict,
  open_model strict (concat_img (img s)) = Ok (reopened s).
Proof. intros s H strict. apply reopen_both_modes. apply H. Qed.


(* ================================================================== *)
(* 1. SWf through a resize of a large stream to a large length         *)
(* ================================================================== *)

Lemma SWf_X : forall s r rids mfids dids id,
  SA.SWfX_at s r rids mfids dids SA.noX -> SA.SWfX_at s r rids mfids dids (SA.Xid id).
Proof. intros. eapply SA.SWfX_weaken; [eassumption|intros j []]. Qed.

(* the chain of a large stream belongs to it *)
Lemma big_owned : forall s r rids mfids dids id e ids,
  SA.SWfX_at s r rids mfids dids SA.noX ->
  nthN (dirs s) id = Some e -> SA.big_entry e -> chain_ids_of (fat s) (d_start e) = Ok ids ->
  SA.owned s rids mfids dids id ids /\ d_len e <= slen s * lenN ids.
Proof.
  intros s r rids mfids dids id e ids SW He Hb Hc.
  destruct (SA.sw_bigchain _ _ _ _ _ _ SW id e (SA.noX_not _) He Hb) as (ids0 & Hc0 & Hcov & HF).
  assert (ids0 = ids) by congruence. subst ids0.
  split; [|exact Hcov].
  intros x Hx.
  destruct (SA.sw_big _ _ _ _ _ _ SW id e ids (SA.noX_not _) He Hb Hc x Hx) as (S1 & S2 & S3 & S4 & S5).
  rewrite Forall_forall in HF.
  split; [|split; [exact S4|exact (HF x Hx)]].
  unfold SA.foreign. repeat split; try assumption.
  intros j ej l Hxj Hej Hbj Hcl Hin.
  exact (SA.sw_bigdisj _ _ _ _ _ _ SW id j e ej ids l (SA.noX_not _) (SA.noX_not _)
           ltac:(intro E; apply Hxj; symmetry; exact E) He Hb Hc Hej Hbj Hcl x Hx Hin).
Qed.

(* zero_fill_chain inside a chain that belongs to the stream under work *)
Lemma zero_fill_owned : forall s r rids mfids dids id ids from to,
  SA.SWfX_at s r rids mfids dids (SA.Xid id) ->
  path (fat s) (hd END_OF_CHAIN ids) ids -> SA.owned s rids mfids dids id ids ->
  to <= slen s * lenN ids ->
  exists s',
    zero_fill_chain (mkChain IZero ids 0) from to s = (s', Ok (mkChain IZero ids (if from <? to then to else 0))) /\
    SA.SWfX_at s' r rids mfids dids (SA.Xid id) /\
    path (fat s') (hd END_OF_CHAIN ids) ids /\ SA.owned s' rids mfids dids id ids /\
    SA.Q s' = SA.Q s /\ free s' = free s /\ nsect s' = nsect s /\ SA.others_kept s s' id.
Proof.
  intros s r rids mfids dids id ids from to SW Hp Hown Hto.
  pose proof (slen_pos s) as Hsp.
  unfold zero_fill_chain. destruct (from <? to) eqn:E.
  - destruct (chain_seek_spec s (mkChain IZero ids 0) from) as [Hseek _].
    rewrite (bind_exec _ _ _ _ _ (Hseek ltac:(unfold chain_len; cbn [c_ids]; lia))).
    cbn [c_init c_ids].
    destruct (SA.chain_write_all_alloc s r rids mfids dids id ids from (repeatN 0 (to - from)) SW Hp Hown)
      as (s' & nw & Ew & SW' & P' & O' & Ln & _ & F' & HQ & En & _ & Hoth).
    { lia. }
    { rewrite lenN_repeatN. replace (from + (to - from)) with to by lia.
      pose proof (ceil_le (slen s) to (lenN ids) Hsp Hto). lia. }
    rewrite lenN_repeatN in Ln, Ew. replace (from + (to - from)) with to in Ln, Ew by lia.
    assert (nw = []).
    { apply SA.lenN_nil_iff. rewrite Ln.
      pose proof (ceil_le (slen s) to (lenN ids) Hsp Hto). lia. }
    subst nw. cbn [rev] in F'. rewrite app_nil_r in F', Ew, P', O'.
    exists s'. split; [exact Ew|]. split; [exact SW'|]. split; [exact P'|]. split; [exact O'|].
    split; [exact HQ|]. split; [symmetry; exact F'|]. split; [exact En|exact Hoth].
  - exists s. unfold ret. split; [reflexivity|]. split; [exact SW|]. split; [exact Hp|].
    split; [exact Hown|]. split; [reflexivity|]. split; [reflexivity|].
    split; [reflexivity|apply SA.others_kept_refl].
Qed.

Lemma two64_room : forall s n, n <= MAX_REGULAR_SECTOR * slen s -> slen s + n < two64.
Proof.
  intros s n H. destruct (slen_cases s) as [Es|Es]; rewrite Es in *; rewrite MAXREG_val in H;
    rewrite two64_val; lia.
Qed.

(* ------------------------------------------------------------------ *)
(* the state in which a large stream is ready for its entry to be      *)
(* written back: the chain [ids1] belongs to it; [news] are the        *)
(* sectors it gained                                                   *)
(* ------------------------------------------------------------------ *)
Definition BigReady (s s2 : cstate) (r : dirent) (rids mfids dids : list N) (id : N)
           (ids1 news : list N) : Prop :=
  Coherent s2 /\ FreeClean s2 /\ SA.SWfX_at s2 r rids mfids dids (SA.Xid id) /\
  path (fat s2) (hd END_OF_CHAIN ids1) ids1 /\ SA.owned s2 rids mfids dids id ids1 /\
  SA.Q s2 = SA.Q s /\ SA.others_kept s s2 id /\
  (forall y, y <= MAX_REGULAR_SECTOR -> unref (fat s) y -> ~ In y news -> unref (fat s2) y) /\
  (forall x, In x news -> In x ids1) /\
  (forall x, nthN (fat s2) x = Some FREE_SECTOR -> unref (fat s2) x).

Lemma swfx_dir_ids : forall s r rids mfids dids X l,
  SA.SWfX_at s r rids mfids dids X -> DirCoherence.dir_ids s l -> l = dids.
Proof.
  intros s r rids mfids dids X l SW Hl. unfold DirCoherence.dir_ids in Hl.
  rewrite (SA.mw_dch _ _ _ _ _ (SA.sw_m _ _ _ _ _ _ SW)) in Hl. congruence.
Qed.

Lemma swfx_mini_ids : forall s r rids mfids dids X l,
  SA.SWfX_at s r rids mfids dids X -> DirCoherence.minifat_ids s l -> l = mfids.
Proof.
  intros s r rids mfids dids X l SW Hl. unfold DirCoherence.minifat_ids in Hl.
  rewrite (SA.mw_mch _ _ _ _ _ (SA.sw_m _ _ _ _ _ _ SW)) in Hl. congruence.
Qed.

Lemma owned_avoids : forall s rids mfids dids id ids,
  SA.owned s rids mfids dids id ids -> avoids ids dids /\ avoids ids mfids /\ avoids ids rids.
Proof.
  intros s rids mfids dids id ids H. split; [|split]; intros x Hx;
    destruct (H x Hx) as ((A & B & C & _) & _); assumption.
Qed.

Lemma zero_fill_ready : forall s s1 r rids mfids dids id ids1 news from to,
  BigReady s s1 r rids mfids dids id ids1 news -> to <= slen s * lenN ids1 ->
  exists s2,
    zero_fill_chain (mkChain IZero ids1 0) from to s1
      = (s2, Ok (mkChain IZero ids1 (if from <? to then to else 0))) /\
    BigReady s s2 r rids mfids dids id ids1 news /\
    free s2 = free s1 /\ nsect s2 = nsect s1 /\ fat s2 = fat s1.
Proof.
  intros s s1 r rids mfids dids id ids1 news from to (HC1 & HF1 & SW1 & P1 & O1 & HQ1 & Ho1 & Hun1 & Hnews & Hfu1) Hto.
  destruct (SA.Q_fields s s1 HQ1) as (_ & _ & _ & _ & _ & _ & Hsl1).
  destruct (zero_fill_owned s1 r rids mfids dids id ids1 from to SW1 P1 O1 ltac:(rewrite Hsl1; exact Hto))
    as (s2 & Hz & SW2 & P2 & O2 & HQ2 & F2 & N2 & Ho2).
  pose proof (SA.good_chain_owned s1 r rids mfids dids id ids1 SW1 P1 O1) as Hg1.
  destruct (zero_fill_chain_dframe s1 (mkChain IZero ids1 0) from to Hg1) as (s2' & c1 & Hz' & _ & F & Hd).
  { unfold chain_len. cbn [c_ids]. rewrite Hsl1. exact Hto. }
  cbn [c_ids] in F. rewrite Hz in Hz'. injection Hz' as <- _.
  pose proof F as (G1 & G2 & G3 & G4 & G5 & G6 & _).
  destruct (owned_avoids _ _ _ _ _ _ O1) as (Ad & Am & _).
  assert (HC2 : Coherent s2).
  { apply Coherent_split. apply Coherent_split in HC1. destruct HC1 as [C1 DP1]. split.
    - eapply (core_dframe ids1); [exact C1|exact F| |].
      + eapply chain_avoids_difat; [exact C1|]. apply SA.chain_of_path. exact P1.
      + intros m Hm. rewrite (swfx_mini_ids _ _ _ _ _ _ _ SW1 Hm). exact Am.
    - eapply DirPart_dframe; [exact DP1|exact F|exact Hd|].
      intros d Hd'. rewrite (swfx_dir_ids _ _ _ _ _ _ _ SW1 Hd'). exact Ad. }
  exists s2. split; [exact Hz|]. split; [|split; [exact F2|split; [exact N2|exact G5]]].
  unfold BigReady. split; [exact HC2|]. split; [apply (FreeClean_transfer s1); assumption|].
  split; [exact SW2|]. split; [exact P2|]. split; [exact O2|]. split; [congruence|].
  split; [exact (SA.others_kept_trans _ _ _ _ Ho1 Ho2)|]. split; [|split; [exact Hnews|]].
  - intros y Hr Hy Hn. rewrite G5. exact (Hun1 y Hr Hy Hn).
  - rewrite G5. exact Hfu1.
Qed.

(* the part of PersistProofs.PInv that speaks about the directory tree: what
   the namespace calls need in order to keep Directory::validate satisfied *)
Record TreePart (s : cstate) : Prop := mkTP {
  tp_ents : Forall (ent_ok (ver s)) (dirs s);
  tp_root : RootOK s;
  tp_tree : TreeInv (dirs s)
}.

Definition CohTree (s : cstate) : Prop := CohData' s /\ TreePart s.


(* ================================================================== *)
(* 3b. the tree part does not see the start / length of a stream       *)
(* ================================================================== *)
Section StartLen.
Import QueryRefine MutRefine. Import Cfb.spec.Tree. Import TreeProofs.
Variables (ds : list dirent) (id : N) (e : dirent) (st ln : N).
Hypothesis He : nthN ds id = Some e.
Hypothesis Ht : d_type e = TStream.
Let e' := set_start_len e st ln.
Let ds' := updN ds id e'.

Lemma sl_id : nthN ds' id = Some e'.
Proof. apply nthN_updN_same. eapply nthN_Some_lt. exact He. Qed.
Lemma sl_other : forall j, j <> id -> nthN ds' j = nthN ds j.
Proof. intros j Hj. apply nthN_updN_other. congruence. Qed.

Lemma sl_keeps : forall j, keeps ds ds' j.
Proof.
  intros j x Hx. destruct (N.eq_dec j id) as [->|Hj].
  - assert (x = e) by congruence. subst x. exists e'. split; [exact sl_id|split; reflexivity].
  - exists x. rewrite (sl_other j Hj). auto.
Qed.

Lemma sl_nm : forall j, nm_of ds' j = nm_of ds j.
Proof.
  intros j. unfold nm_of. destruct (N.eq_dec j id) as [->|Hj].
  - rewrite sl_id, He. reflexivity.
  - rewrite (sl_other j Hj). reflexivity.
Qed.

Lemma NRU_startlen : forall n r i nm U,
  NRU ds ctrue r i nm n U -> exists n', NRU ds' ctrue r i nm n' U.
Proof.
  induction n as [s0 bs|m ks IH] using node_ind'; intros r i nm U H.
  - apply NRU_leaf in H.
    destruct H as (Hid & e0 & He0 & Hn & Hr & Hty & Hc & Hs & Hl & Hco & H1 & H2 & H3 & HU).
    destruct (N.eq_dec i id) as [->|Hi].
    + assert (e0 = e) by congruence. subst e0.
      exists (Leaf s0 (repeatN 0 ln)). apply NRU_leaf. split; [exact Hid|].
      exists e'. split; [exact sl_id|].
      unfold e'. cbn [set_start_len d_name d_type d_child d_state d_len d_clsid d_ctime d_mtime].
      rewrite lenN_repeatN. repeat (split; [first [assumption|reflexivity|exact I]|]). exact HU.
    + exists (Leaf s0 bs). apply NRU_leaf. split; [exact Hid|]. exists e0.
      rewrite (sl_other i Hi). repeat (split; [assumption|]). exact HU.
  - apply NRU_dir in H.
    destruct H as (Hid & e0 & He0 & Hn & Hty & Hm & Hl & t & Us & HR & HB & ND & HK & HU).
    assert (Hi : i <> id).
    { intros ->. assert (e0 = e) by congruence. subst e0. rewrite Ht in Hty. destruct r; discriminate Hty. }
    assert (HK' : exists ks', Forall3 (KidU ds' ctrue) (ids t) ks' Us).
    { clear - IH HK. revert IH. induction HK as [|j kc u l ks Us Hk _ IHK]; intro IH.
      - exists []. constructor.
      - inversion IH as [|a b Ha Hb]; subst.
        destruct (IHK Hb) as (ks' & HF). destruct kc as [k c]. cbn [snd] in Ha.
        destruct (Ha false j k u Hk) as (c' & Hc'). exists ((k, c') :: ks'). constructor; [exact Hc'|exact HF]. }
    destruct HK' as (ks' & HK').
    exists (Dir m ks'). apply NRU_dir. split; [exact Hid|]. exists e0.
    rewrite (sl_other i Hi). repeat (split; [assumption|]).
    exists t, Us. split; [eapply rep_frame_links; [exact HR|intros j _; apply sl_keeps]|].
    split; [eapply bst_frame; [|exact HB]; intros j _; apply sl_nm|].
    split; [exact ND|]. split; [exact HK'|exact HU].
Qed.

Lemma TreeInv_startlen : TreeInv ds -> TreeInv ds'.
Proof.
  intros (t & HT & HU). destruct (tree_NRU _ _ _ HT HU) as (U & HN & ND).
  destruct (NRU_startlen _ _ _ _ _ HN) as (t' & HN').
  exists t'. exact (NRU_tree _ _ _ U HN' ND).
Qed.
End StartLen.

Lemma TreePart_startlen : forall s s' id e st ln,
  TreePart s -> Coherent s ->
  nthN (dirs s) id = Some e -> d_type e = TStream ->
  st <= u32_max -> ln <= stream_len_mask (ver s) ->
  dirs s' = updN (dirs s) id (set_start_len e st ln) -> ver s' = ver s -> minifat s' = minifat s ->
  TreePart s'.
Proof.
  intros s s' id e st ln [Hents Hroot Htree] HC He Ht Hst Hln Hd Hv Hm.
  assert (Hid : id <> ROOT_STREAM_ID).
  { intros ->. pose proof (valid_root_type _ _ _ (ch_dir_valid s HC) He) as Hr. congruence. }
  constructor.
  - rewrite Hd, Hv. apply Forall_updN; [exact Hents|].
    rewrite Forall_forall in Hents. destruct (Hents e (nthN_In _ _ _ _ He)) as (W & B & L).
    split; [apply dirent_wf_set_start_len; assumption|]. split; [exact B|exact L].
  - destruct Hroot as (root & Hr & R). exists root. rewrite Hd, Hm.
    rewrite nthN_updN_other by congruence. auto.
  - rewrite Hd. apply TreeInv_startlen; assumption.
Qed.

Lemma coh_member_regular : forall s c l x,
  Coherent s -> path (fat s) c l -> In x l -> x <= MAX_REGULAR_SECTOR.
Proof.
  intros s c l x HC Hp Hx. pose proof (WalkProofs.path_lt _ _ _ Hp) as HF.
  rewrite Forall_forall in HF. specialize (HF x Hx).
  destruct (ch_fat s HC) as [_ Hl _ _]. pose proof (ch_nsect s HC). lia.
Qed.

Lemma big_head_in : forall s e l,
  SA.big_entry e -> chain_ids_of (fat s) (d_start e) = Ok l -> d_len e <= slen s * lenN l ->
  In (d_start e) l.
Proof.
  intros s e l [_ Hb] Hc Hcov. pose proof (ids_nonempty s l _ Hb Hcov) as Hne.
  destruct (chain_ids_head _ _ _ Hc Hne) as (_ & t & ->). left. reflexivity.
Qed.

(* the entry is written back: the whole invariant holds again *)
Theorem big_finish_cohdata' : forall s s2 r rids mfids dids id e ids1 news new_len,
  CohData' s -> SD s r rids mfids dids ->
  nthN (dirs s) id = Some e -> SA.big_entry e ->
  BigReady s s2 r rids mfids dids id ids1 news ->
  hd END_OF_CHAIN ids1 = d_start e -> ~ In (d_start e) news ->
  MINI_STREAM_CUTOFF <= new_len -> new_len <= slen s * lenN ids1 -> LenFits s new_len ->
  exists s',
    update_entry id (d_start e) new_len s2 = (s', Ok tt) /\ CohData' s' /\
    SD s' r rids mfids dids /\
    big_content s' id (takeN new_len (chain_content s2 ids1)) /\
    SA.others_kept s s' id /\ free s' = free s2 /\ nsect s' = nsect s2 /\ fat s' = fat s2 /\
    (TreePart s -> TreePart s').
Proof.
  intros s s2 r rids mfids dids id e ids1 news new_len HCD [SW Hmd] He Hb
         (HC2 & HF2 & SW2 & P2 & O2 & HQ2 & Ho2 & Hun2 & Hnews & Hfu2) Hhd Hhn Hcut Hfit Hlen.
  pose proof HCD as [HC _ HF [Afr Ah Amf Amh]].
  pose proof Hb as [Ht Hbig].
  destruct (SA.Q_fields s s2 HQ2) as (Hmf2 & Hmfr2 & _ & Hd2 & _ & Hv2 & Hsl2).
  destruct (SA.finish_big s2 r rids mfids dids id e ids1 new_len SW2
              ltac:(rewrite Hd2; exact He) Ht P2 O2 Hcut ltac:(rewrite Hsl2; exact Hfit))
    as (s' & Eu & HB' & SW' & Ho3 & En' & Ef').
  rewrite Hhd in Eu.
  destruct (update_entry_coherent s2 s' id e (d_start e) new_len HC2) as (HC' & Ed' & (dd & Hdd & Fu)).
  { intros d m Hd Hm. rewrite (swfx_dir_ids _ _ _ _ _ _ _ SW2 Hd), (swfx_mini_ids _ _ _ _ _ _ _ SW2 Hm).
    apply avoids_sym. exact Hmd. }
  { rewrite Hd2. exact He. }
  { exact Ht. }
  { apply (CodecProofs.wf_start (ver s) e). apply (ch_dir_wf s HC). eapply nthN_In. exact He. }
  { unfold LenFits in Hlen. rewrite Hv2. exact Hlen. }
  { exact Eu. }
  pose proof Fu as (U1 & U2 & _ & _ & U5 & U6 & _ & U8 & _ & U10 & _).
  assert (Hoth : forall j, j <> id -> nthN (dirs s') j = nthN (dirs s) j).
  { intros j Hj. rewrite Ed', Hd2. apply nthN_updN_other. congruence. }
  assert (Hid' : nthN (dirs s') id = Some (set_start_len e (d_start e) new_len)).
  { rewrite Ed', Hd2. apply nthN_updN_same. eapply nthN_Some_lt. exact He. }
  exists s'. split; [exact Eu|]. split; [|split; [split; assumption|]].
  - constructor.
    + exact HC'.
    + exists r, rids, mfids, dids. split; assumption.
    + apply (FreeClean_transfer s2); assumption.
    + constructor.
      * rewrite U5. exact Hfu2.
      * intros j ej Hej Hbj. rewrite U5.
        destruct (N.eq_dec j id) as [->|Hj].
        -- rewrite Hid' in Hej. injection Hej as <-. cbn [set_start_len d_start].
           apply Hun2; [|exact (Ah id e He Hb)|exact Hhn].
           apply (coh_member_regular s2 _ ids1 _ HC2 P2). rewrite <- Hhd.
           assert (Hne1 : ids1 <> []) by (apply (ids_nonempty s ids1 new_len Hcut Hfit)).
           destruct ids1; [contradiction|left; reflexivity].
        -- rewrite (Hoth j Hj) in Hej.
           destruct (SA.sw_bigchain _ _ _ _ _ _ SW2 j ej ltac:(intro E; exact (Hj E))
                       ltac:(rewrite Hd2; exact Hej) Hbj) as (l & Hcl & Hcov & _).
           pose proof (big_head_in s2 ej l Hbj Hcl Hcov) as Hin2.
           apply Hun2; [|exact (Ah j ej Hej Hbj)|].
           { exact (coh_member_regular s2 _ l _ HC2 (WalkProofs.chain_ids_path _ _ _ Hcl) Hin2). }
           intro Hin.
           destruct (O2 _ (Hnews _ Hin)) as ((_ & _ & _ & _ & Hfo) & _).
           exact (Hfo j ej l ltac:(intro E; exact (Hj E)) ltac:(rewrite Hd2; exact Hej) Hbj Hcl Hin2).
      * rewrite U8, Hmf2. exact Amf.
      * intros j ej Hej Hsj. rewrite U8, Hmf2.
        destruct (N.eq_dec j id) as [->|Hj].
        -- rewrite Hid' in Hej. injection Hej as <-. destruct Hsj as (_ & _ & Hl).
           cbn [set_start_len d_len] in Hl. lia.
        -- rewrite (Hoth j Hj) in Hej. exact (Amh j ej Hej Hsj).
  - split; [exact HB'|]. split; [exact (SA.others_kept_trans _ _ _ _ Ho2 Ho3)|].
    split; [exact Ef'|]. split; [exact En'|]. split; [exact U5|].
    intro HTP. apply (TreePart_startlen s s' id e (d_start e) new_len HTP HC He Ht).
    + apply (CodecProofs.wf_start (ver s) e). apply (ch_dir_wf s HC). eapply nthN_In. exact He.
    + exact Hlen.
    + rewrite Ed', Hd2. reflexivity.
    + rewrite U1. exact Hv2.
    + rewrite U8. exact Hmf2.
Qed.

(* ------------------------------------------------------------------ *)
(* cells along a path                                                  *)
(* ------------------------------------------------------------------ *)
Lemma path_cell : forall fat c l, path fat c l -> forall i v, In i l -> nthN fat i = Some v ->
  v = END_OF_CHAIN \/ In v (tl l).
Proof.
  intros fat c l Hp. induction Hp as [|cur nx l Hc Hn Hp IH]; intros i v Hi Hv; [destruct Hi|].
  cbn [tl]. destruct Hi as [<-|Hi].
  - apply WalkProofs.next_of_Ok in Hn. destruct Hn as [Hn _]. assert (v = nx) by congruence. subst v.
    inversion Hp; subst; [left; reflexivity|right; left; reflexivity].
  - destruct (IH i v Hi Hv) as [E|Hin]; [left; exact E|].
    right. destruct l as [|a t]; [destruct Hin|]. right. exact Hin.
Qed.

Lemma path_tl_ref : forall fat c l, path fat c l -> forall y, In y (tl l) ->
  exists i, In i l /\ nthN fat i = Some y.
Proof.
  intros fat c l Hp. induction Hp as [|cur nx l Hc Hn Hp IH]; intros y Hy; [destruct Hy|].
  cbn [tl] in Hy. inversion Hp as [|c2 nx2 l2 Hc2 Hn2 Hp2]; subst; [destruct Hy|].
  destruct Hy as [<-|Hy].
  - exists cur. split; [left; reflexivity|]. apply WalkProofs.next_of_Ok in Hn. apply Hn.
  - destruct (IH y Hy) as (i & Hi & Hv). exists i. split; [right; exact Hi|exact Hv].
Qed.

Lemma path_last_cell : forall fat c l, path fat c l -> l <> [] ->
  exists i, In i l /\ nthN fat i = Some END_OF_CHAIN.
Proof.
  intros fat c l Hp. induction Hp as [|cur nx l Hc Hn Hp IH]; intro Hne; [contradiction|].
  inversion Hp as [|c2 nx2 l2 Hc2 Hn2 Hp2]; subst.
  - exists cur. split; [left; reflexivity|]. apply WalkProofs.next_of_Ok in Hn. apply Hn.
  - destruct IH as (i & Hi & Hv); [discriminate|]. exists i. split; [right; exact Hi|exact Hv].
Qed.

Lemma tl_app_ne : forall A (a b : list A), a <> [] -> tl (a ++ b) = tl a ++ b.
Proof. intros A [|x a] b H; [contradiction|reflexivity]. Qed.

(* ------------------------------------------------------------------ *)
(* executing resize, large to large                                    *)
(* ------------------------------------------------------------------ *)
Lemma resize_big_run : forall s s1 s2 id e ids idsc c2 new_len s',
  nthN (dirs s) id = Some e -> SA.big_entry e -> chain_ids_of (fat s) (d_start e) = Ok ids ->
  d_len e <= slen s * lenN ids ->
  chain_set_len (mkChain IZero ids 0) new_len s = (s1, Ok (mkChain IZero idsc 0)) ->
  zero_fill_chain (mkChain IZero idsc 0) (d_len e) (N.min new_len (slen s * lenN ids)) s1 = (s2, Ok c2) ->
  chain_start c2 = d_start e ->
  update_entry id (d_start e) new_len s2 = (s', Ok tt) ->
  MINI_STREAM_CUTOFF <= new_len -> new_len <= MAX_REGULAR_SECTOR * slen s ->
  new_len <= stream_len_mask (ver s) ->
  resize id new_len s = (s', Ok tt).
Proof.
  intros s s1 s2 id e ids idsc c2 new_len s' He [Ht Hbig] Hc Hcov Hset Hz Hcs Hu Hcut Hmax Hmask.
  pose proof (ids_nonempty s ids _ Hbig Hcov) as Hne.
  destruct (chain_ids_head _ _ _ Hc Hne) as (Hst & t & Eids).
  unfold resize.
  rewrite (bind_exec _ _ _ _ _ (stream_entry_exec s id e He Ht)).
  cbv beta iota zeta.
  rewrite (bind_exec _ _ _ _ _ (eq_refl : get s = (s, Ok s))). cbv beta iota zeta.
  replace (MAX_REGULAR_SECTOR * slen s <? new_len) with false by (symmetry; apply N.ltb_ge; exact Hmax).
  rewrite (bind_exec _ _ _ _ _ (eq_refl : ret tt s = (s, Ok tt))).
  rewrite (mask_check_false s new_len Hmask).
  rewrite (bind_exec _ _ _ _ _ (eq_refl : ret tt s = (s, Ok tt))).
  match goal with |- bind ?m _ s = _ => assert (E : m s = (s2, Ok (d_start e))) end.
  { destruct (d_start e =? END_OF_CHAIN) eqn:E2; [apply N.eqb_eq in E2; contradiction|].
    destruct (d_len e <? MINI_STREAM_CUTOFF) eqn:E3; [lia|].
    destruct (new_len =? 0) eqn:E4; [rewrite CUTOFF_val in Hcut; lia|].
    destruct (new_len <? MINI_STREAM_CUTOFF) eqn:E5; [lia|].
    rewrite (bind_exec _ _ _ _ _ (chain_new_exec s (d_start e) IZero ids Hc)).
    rewrite bind_get.
    rewrite (bind_exec _ _ _ _ _ Hset).
    unfold chain_len at 1. cbn [c_ids].
    rewrite (bind_exec _ _ _ _ _ Hz).
    rewrite Hcs, N.eqb_refl. reflexivity. }
  rewrite (bind_exec _ _ _ _ _ E). exact Hu.
Qed.

(* nothing has been done yet *)
Lemma big_ready_refl : forall s r rids mfids dids id e ids,
  CohData' s -> SD s r rids mfids dids ->
  nthN (dirs s) id = Some e -> SA.big_entry e -> chain_ids_of (fat s) (d_start e) = Ok ids ->
  BigReady s s r rids mfids dids id ids [].
Proof.
  intros s r rids mfids dids id e ids HCD [SW _] He Hb Hc.
  destruct (big_owned s r rids mfids dids id e ids SW He Hb Hc) as [Hown _].
  pose proof (WalkProofs.chain_ids_path _ _ _ Hc) as Hp.
  unfold BigReady. split; [apply HCD|]. split; [apply HCD|]. split; [apply SWf_X; exact SW|].
  split; [rewrite <- (path_hd_start _ _ _ Hp); exact Hp|]. split; [exact Hown|].
  split; [reflexivity|]. split; [apply SA.others_kept_refl|]. split; [intros y _ Hy _; exact Hy|].
  split; [intros x []|]. apply (ax_free s (cd_aux s HCD)).
Qed.

(* FREE cells stay unreferenced when only the cells of a chain were rewritten *)
Lemma free_unref_after : forall fat0 fat1 l news,
  (forall x, nthN fat0 x = Some FREE_SECTOR -> unref fat0 x) ->
  lenN fat1 <= MAX_REGULAR_SECTOR + 1 ->
  path fat1 (hd END_OF_CHAIN l) l ->
  (forall x, ~ In x l -> nthN fat1 x = Some FREE_SECTOR -> nthN fat0 x = Some FREE_SECTOR) ->
  (forall y, y <= MAX_REGULAR_SECTOR -> unref fat0 y -> ~ In y news -> unref fat1 y) ->
  (forall x, In x news -> In x l) ->
  forall x, nthN fat1 x = Some FREE_SECTOR -> unref fat1 x.
Proof.
  intros fat0 fat1 l news Hfr Hlen Hp Hsame Hun Hnews x Hx.
  pose proof (nthN_Some_lt _ _ _ _ Hx) as Hlt.
  assert (Hxl : ~ In x l).
  { intro Hin. destruct (path_cell _ _ _ Hp x _ Hin Hx) as [E|Htl]; [markers; lia|].
    pose proof (WalkProofs.path_lt _ _ _ Hp) as HF. rewrite Forall_forall in HF.
    assert (Hin2 : In FREE_SECTOR l) by (destruct l; [destruct Htl|right; exact Htl]).
    specialize (HF _ Hin2). markers. lia. }
  apply Hun; [lia|apply Hfr; apply Hsame; assumption|].
  intro Hin. exact (Hxl (Hnews x Hin)).
Qed.

(* growth from the free stack *)
Lemma grow_reuse_ready : forall s r rids mfids dids id e ids base nw,
  CohData' s -> SD s r rids mfids dids ->
  nthN (dirs s) id = Some e -> SA.big_entry e -> chain_ids_of (fat s) (d_start e) = Ok ids ->
  free s = base ++ rev nw ->
  exists s1,
    chain_grow (length nw) (mkChain IZero ids 0) s = (s1, Ok (mkChain IZero (ids ++ nw) 0)) /\
    BigReady s s1 r rids mfids dids id (ids ++ nw) nw /\ free s1 = base /\ nsect s1 = nsect s.
Proof.
  intros s r rids mfids dids id e ids base nw HCD [SW Hmd] He Hb Hc Hfree.
  pose proof HCD as [HC _ HF _].
  pose proof (SA.sw_m _ _ _ _ _ _ SW) as W.
  destruct (big_owned s r rids mfids dids id e ids SW He Hb Hc) as [Hown Hcov].
  pose proof Hb as [Ht Hbig].
  pose proof (ids_nonempty s ids _ Hbig Hcov) as Hne.
  pose proof (WalkProofs.chain_ids_path _ _ _ Hc) as Hp.
  pose proof (path_hd_start _ _ _ Hp) as Hhd.
  destruct (owned_avoids _ _ _ _ _ _ Hown) as (Had & Ham & _).
  assert (Hdids : DirCoherence.dir_ids s dids) by exact (SA.mw_dch _ _ _ _ _ W).
  assert (Hmids : DirCoherence.minifat_ids s mfids) by exact (SA.mw_mch _ _ _ _ _ W).
  destruct (chain_grow_reuse_coherent nw s (d_start e) ids base 0 dids mfids HC HF Hdids Hmids Hne Hp
              Had Ham Hfree)
    as (s1 & Hgrow & HC1 & HFc1 & _ & _ & P1 & _ & _ & Fr1 & _ & _ & N1).
  destruct (SA.chain_grow_alloc (length nw) s r rids mfids dids id ids 0 (SWf_X _ _ _ _ _ id SW)
              ltac:(rewrite <- Hhd; exact Hp) Hown)
    as (s1' & nw' & Eg & SW1 & P1' & O1 & _ & _ & HQ1 & _ & _ & Ho1).
  { rewrite Hfree, lenN_app, WalkProofs.lenN_rev, <- (WalkProofs.lenN_length nw). lia. }
  rewrite Hgrow in Eg. injection Eg as <- Enw. apply app_inv_head in Enw. subst nw'.
  assert (Hnwfree : forall x, In x nw -> In x (free s)).
  { intros x Hx. rewrite Hfree. apply in_or_app. right. apply in_rev in Hx. exact Hx. }
  destruct HF as [Hnd HFx].
  destruct (chain_grow_reuse nw s (d_start e) ids base 0 (SA.sw_alloc _ _ _ _ _ _ SW)
              (SA.sw_nsect _ _ _ _ _ _ SW) Hne Hp Hfree Hnd)
    as (s1'' & E'' & _ & _ & _ & _ & T' & _).
  { intros x Hx. destruct (HFx x (Hnwfree x Hx)) as (_ & Hxf & _). split.
    - exact (free_not_in_chain s _ ids x Hc Hxf).
    - intro Hd. rewrite (ch_marks s HC x Hd) in Hxf. vm_compute in Hxf. discriminate Hxf. }
  rewrite Hgrow in E''. injection E'' as <-.
  exists s1. split; [exact Hgrow|]. split; [|split; [exact Fr1|exact N1]].
  unfold BigReady. split; [exact HC1|]. split; [exact HFc1|]. split; [exact SW1|].
  split; [exact P1'|]. split; [exact O1|]. split; [exact HQ1|]. split; [exact Ho1|].
  assert (Hun : forall y, y <= MAX_REGULAR_SECTOR -> unref (fat s) y -> ~ In y nw -> unref (fat s1) y).
  { intros y _ Hy Hyn i Hi.
    destruct (in_dec N.eq_dec i (ids ++ nw)) as [Hin|Hout].
    - destruct (path_cell _ _ _ P1 i y Hin Hi) as [E|Htl].
      + subst y. destruct (path_last_cell _ _ _ Hp Hne) as (j & _ & Hj). exact (Hy j Hj).
      + rewrite (tl_app_ne _ ids nw Hne) in Htl. apply in_app_or in Htl. destruct Htl as [Htl|Htl]; [|contradiction].
        destruct (path_tl_ref _ _ _ Hp y Htl) as (j & _ & Hj). exact (Hy j Hj).
    - rewrite T' in Hi.
      + exact (Hy i Hi).
      + intro H. apply Hout. apply in_or_app. left. exact H.
      + intro H. apply Hout. apply in_or_app. right. exact H. }
  split; [exact Hun|]. split; [intros x Hx; apply in_or_app; right; exact Hx|].
  apply (free_unref_after (fat s) (fat s1) (ids ++ nw) nw (ax_free s (cd_aux s HCD))).
  - destruct (ch_fat s1 HC1) as [_ Cl1 _ _]. pose proof (ch_nsect s1 HC1). lia.
  - exact P1'.
  - intros x Hx Hf. rewrite T' in Hf; [exact Hf| |];
      intro H; apply Hx; apply in_or_app; [left|right]; exact H.
  - exact Hun.
  - intros x Hx. apply in_or_app. right. exact Hx.
Qed.

Lemma big_entry_of_content : forall s id V ids,
  big_content s id V -> stream_ids s id ids ->
  exists e, nthN (dirs s) id = Some e /\ SA.big_entry e /\ chain_ids_of (fat s) (d_start e) = Ok ids.
Proof.
  intros s id V ids HB Hsi. destruct (big_content_ids s id V ids HB Hsi) as (e & He & Hbig).
  destruct (big_ids_entry _ _ _ Hbig) as (e0 & He0 & Hbe & Hc). assert (e0 = e) by congruence. subst e0.
  exists e. auto.
Qed.

(* ---- item 1 (reuse): a large stream grows into sectors of the free stack;
        the whole invariant holds again, so histories can go on ---- *)
Theorem resize_big_reuse_cohdata' : forall s id V ids new_len base nw,
  CohData' s ->
  big_content s id V -> stream_ids s id ids ->
  slen s * lenN ids < new_len ->
  free s = base ++ rev nw ->
  lenN ids + lenN nw = (slen s + new_len - 1) / slen s ->
  new_len <= MAX_REGULAR_SECTOR * slen s -> LenFits s new_len ->
  exists s',
    resize id new_len s = (s', Ok tt) /\ CohData' s' /\
    (forall strict, open_model strict (concat_img (img s')) = Ok (reopened s')) /\
    big_content (reopened s') id (V ++ repeatN 0 (new_len - lenN V)) /\
    big_content s' id (V ++ repeatN 0 (new_len - lenN V)) /\
    stream_ids s' id (ids ++ nw) /\ free s' = base /\ nsect s' = nsect s /\
    SA.others_kept s s' id /\ (TreePart s -> TreePart s').
Proof.
  intros s id V ids new_len base nw HCD HB Hsi Hgt Hfree Hcount Hmax Hlen.
  pose proof (slen_pos s) as Hsp.
  pose proof HCD as [HC (r & rids & mfids & dids & HSD) HF _].
  destruct (big_entry_of_content s id V ids HB Hsi) as (e & He & Hbe & Hc).
  destruct (big_owned s r rids mfids dids id e ids (proj1 HSD) He Hbe Hc) as [_ Hcov].
  pose proof Hbe as [Ht Hbig].
  pose proof (ids_nonempty s ids _ Hbig Hcov) as Hne.
  pose proof (path_hd_start _ _ _ (WalkProofs.chain_ids_path _ _ _ Hc)) as Hhd.
  assert (Hnl0 : 0 < new_len) by lia.
  destruct (ceil_props (slen s) new_len Hsp Hnl0) as [Hc1 Hc2]. rewrite <- Hcount in Hc1, Hc2.
  destruct (grow_reuse_ready s r rids mfids dids id e ids base nw HCD HSD He Hbe Hc Hfree)
    as (s1 & Hgrow & BR1 & Fr1 & N1).
  destruct (zero_fill_ready s s1 r rids mfids dids id (ids ++ nw) nw (d_len e)
              (N.min new_len (slen s * lenN ids)) BR1)
    as (s2 & Hz & BR2 & F2 & N2 & _).
  { rewrite lenN_app. nia. }
  destruct (big_finish_cohdata' s s2 r rids mfids dids id e (ids ++ nw) nw new_len HCD HSD He Hbe BR2)
    as (s' & Eu & HCD' & _ & _ & Ho & F' & N' & _ & HTP').
  { rewrite (SA.hd_app_ne ids nw END_OF_CHAIN Hne). symmetry. exact Hhd. }
  { intro Hin. destruct HF as [_ HFx].
    assert (Hinf : In (d_start e) (free s)).
    { rewrite Hfree. apply in_or_app. right. apply in_rev in Hin. exact Hin. }
    destruct (HFx _ Hinf) as (_ & Hxf & _).
    apply (free_not_in_chain s _ ids (d_start e) Hc Hxf). rewrite Hhd.
    destruct ids; [contradiction|left; reflexivity]. }
  { lia. }
  { rewrite lenN_app. exact Hc1. }
  { exact Hlen. }
  assert (R : resize id new_len s = (s', Ok tt)).
  { eapply (resize_big_run s s1 s2 id e ids (ids ++ nw));
      [exact He|exact Hbe|exact Hc|exact Hcov| |exact Hz| |exact Eu| |exact Hmax|exact Hlen].
    - rewrite chain_set_len_grow; [|apply two64_room; exact Hmax|exact Hnl0|cbn [c_ids]; nia].
      cbn [c_ids]. rewrite <- Hcount.
      replace (N.to_nat (lenN ids + lenN nw - lenN ids)) with (length nw)
        by (rewrite (WalkProofs.lenN_length nw); lia).
      exact Hgrow.
    - rewrite SA.chain_start_hd, (SA.hd_app_ne ids nw END_OF_CHAIN Hne). symmetry. exact Hhd.
    - lia. }
  destruct (resize_big_grow_zero_new_sectors s id V ids new_len base nw HB Hsi
              (aw_store s (SD_allwf _ _ _ _ _ HSD)) Hgt Hfree Hcount Hmax Hlen)
    as (s'' & R'' & HB'' & Hsi'' & _).
  assert (s'' = s') by congruence. subst s''.
  exists s'. split; [exact R|]. split; [exact HCD'|].
  split; [exact (cohdata'_reopens s' HCD')|].
  split; [exact (big_content_same_store s' (reopened s') (same_store_reopened s') _ _ HB'')|].
  split; [exact HB''|]. split; [exact Hsi''|]. split; [congruence|]. split; [congruence|]. split; [exact Ho|exact HTP'].
Qed.

(* ================================================================== *)
(* 2. releasing sectors: FAT cells become FREE on disk and in the cache *)
(* ================================================================== *)

Lemma FR_free_sector : forall s a v s' u,
  G s -> CoherenceProofs.FatCoherent s ->
  nthN (fat s) a = Some v -> v <> FREE_SECTOR ->
  free_sector a s = (s', Ok u) ->
  FR [a] [] s s' /\ fat s' = updN (fat s) a FREE_SECTOR /\ free s' = free s ++ [a].
Proof.
  intros s a v s' u HG HC Hv Hne H.
  unfold free_sector in H. rewrite bind_get, Hv in H.
  destruct (v =? FREE_SECTOR) eqn:E; [apply N.eqb_eq in E; contradiction|].
  binv H u1 s1 H1 H. unfold modify in H. injection H as <- _.
  destruct (FR_set_fat s a FREE_SECTOR s1 u1 HG HC ltac:(vm_compute; reflexivity)
              ltac:(eapply nthN_Some_lt; exact Hv) H1) as (F1 & Ef & Efr).
  pose proof (FR_w_free s1 (free s1 ++ [a]) (fr_G _ _ _ _ F1) (fr_coh _ _ _ _ F1)) as F2.
  split; [exact (FR_trans _ _ _ _ _ _ _ F1 F2)|]. split; [exact Ef|]. cbn [free w_free]. rewrite Efr. reflexivity.
Qed.

Lemma unref_updN : forall tbl i v y, unref tbl y -> v <> y -> unref (updN tbl i v) y.
Proof.
  intros tbl i v y Hy Hv j Hj. destruct (N.eq_dec j i) as [->|Hne].
  - destruct (N.lt_ge_cases i (lenN tbl)) as [Hlt|Hge].
    + rewrite nthN_updN_same in Hj by exact Hlt. congruence.
    + apply nthN_Some_lt in Hj. rewrite lenN_updN in Hj. lia.
  - rewrite nthN_updN_other in Hj by congruence. exact (Hy j Hj).
Qed.

(* the walk of free_chain: every sector of the path is released; nothing
   points to a released sector afterwards (the head was not pointed to) *)
Lemma free_chain_go_FR : forall l fuel start s s1 u,
  G s -> CoherenceProofs.FatCoherent s ->
  check_pointees false (fat s) (lenN (fat s)) [] = Ok tt ->
  lenN (fat s) <= MAX_REGULAR_SECTOR + 1 ->
  path (fat s) start l -> (l <> [] -> unref (fat s) start) ->
  free_chain_go fuel start s = (s1, Ok u) ->
  FR l [] s s1 /\ free s1 = free s ++ l /\
  check_pointees false (fat s1) (lenN (fat s1)) [] = Ok tt /\
  (forall x, In x l -> nthN (fat s1) x = Some FREE_SECTOR /\ unref (fat s1) x) /\
  (forall y, y <= MAX_REGULAR_SECTOR -> unref (fat s) y -> unref (fat s1) y).
Proof.
  induction l as [|a l IH]; intros fuel start s s1 u HG HC Hval Hlen Hp Hhead H.
  - inversion Hp; subst. destruct fuel as [|fuel]; [discriminate H|].
    cbn [free_chain_go] in H. rewrite N.eqb_refl in H. apply ret_inv in H. destruct H as [-> _].
    rewrite app_nil_r. split.
    { constructor; try reflexivity; try assumption.  }
    split; [reflexivity|]. split; [exact Hval|]. split; [intros x []|auto].
  - inversion Hp as [|cur nx l' Hc Hn Hp']; subst.
    destruct fuel as [|fuel]; [discriminate H|]. cbn [free_chain_go] in H.
    destruct (a =? END_OF_CHAIN) eqn:Ea; [apply N.eqb_eq in Ea; contradiction|].
    assert (Hnext : next a s = (s, Ok nx)) by (unfold next; rewrite bind_get, Hn; reflexivity).
    rewrite (bind_exec _ _ _ _ _ Hnext) in H.
    binv H u1 sa H1 H.
    pose proof (proj1 (WalkProofs.next_of_Ok _ _ _) Hn) as [Hnth Hrange].
    pose proof (nthN_Some_lt _ _ _ _ Hnth) as Halt.
    assert (Hvne : nx <> FREE_SECTOR) by (markers; lia).
    destruct (FR_free_sector s a nx sa u1 HG HC Hnth Hvne H1) as (F1 & Ef & Efr).
    destruct (pointees_unlink (fat s) a FREE_SECTOR Hval Halt (or_intror eq_refl)) as (Hval1 & _ & _).
    rewrite <- Ef in Hval1.
    pose proof (path_nodup _ _ _ Hp) as Hnd. inversion Hnd as [|? ? Hni Hnd']; subst.
    assert (Ha_reg : a <= MAX_REGULAR_SECTOR) by lia.
    pose proof (Hhead ltac:(discriminate)) as Ha_un.
    destruct (IH fuel nx sa s1 u (fr_G _ _ _ _ F1) (fr_coh _ _ _ _ F1) Hval1) as (F2 & Efr2 & Hval2 & Hfreed & Hmono).
    + rewrite (fr_len _ _ _ _ F1). exact Hlen.
    + rewrite Ef. apply path_updN; assumption.
    + intros Hne i Hi. rewrite Ef in Hi.
      assert (Hnx_reg : nx <= MAX_REGULAR_SECTOR).
      { destruct Hrange as [->|[Hr _]]; [|exact Hr]. inversion Hp'; subst; [contradiction|]. congruence. }
      destruct (N.eq_dec i a) as [->|Hia].
      * rewrite nthN_updN_same in Hi by exact Halt. markers. injection Hi as Hi. lia.
      * rewrite nthN_updN_other in Hi by congruence.
        apply Hia. apply WalkProofs.check_pointees_spec in Hval. destruct Hval as (_ & Hndr & _).
        eapply WalkProofs.nodup_regs_index; [exact Hndr|exact Hi|exact Hnth|].
        apply regular_spec. exact Hnx_reg.
    + exact H.
    + assert (Ha_un1 : unref (fat sa) a).
      { rewrite Ef. apply unref_updN; [exact Ha_un|]. markers. lia. }
      split; [exact (FR_trans _ _ _ _ _ _ _ F1 F2)|].
      split; [rewrite Efr2, Efr, <- app_assoc; reflexivity|].
      split; [exact Hval2|]. split.
      * intros x [<-|Hx]; [|exact (Hfreed x Hx)].
        split; [|exact (Hmono a Ha_reg Ha_un1)].
        rewrite (fr_cells _ _ _ _ F2) by exact Hni. rewrite Ef. apply nthN_updN_same. exact Halt.
      * intros y Hr Hy. apply (Hmono y Hr). rewrite Ef. apply unref_updN; [exact Hy|]. markers. lia.
Qed.

(* free_chain_after: the cell of [sid] becomes END_OF_CHAIN, the rest of its
   chain is released *)
Lemma free_chain_after_FR : forall s sid nx l s1 u,
  G s -> CoherenceProofs.FatCoherent s ->
  check_pointees false (fat s) (lenN (fat s)) [] = Ok tt ->
  lenN (fat s) <= MAX_REGULAR_SECTOR + 1 ->
  next_of (fat s) sid = Ok nx -> path (fat s) nx l -> ~ In sid l ->
  free_chain_after sid s = (s1, Ok u) ->
  FR (sid :: l) [] s s1 /\ free s1 = free s ++ l /\
  check_pointees false (fat s1) (lenN (fat s1)) [] = Ok tt /\
  nthN (fat s1) sid = Some END_OF_CHAIN /\
  (forall x, In x l -> nthN (fat s1) x = Some FREE_SECTOR /\ unref (fat s1) x) /\
  (forall y, y <= MAX_REGULAR_SECTOR -> unref (fat s) y -> unref (fat s1) y).
Proof.
  intros s sid nx l s1 u HG HC Hval Hlen Hn Hp Hni H.
  unfold free_chain_after in H.
  assert (Hnext : next sid s = (s, Ok nx)) by (unfold next; rewrite bind_get, Hn; reflexivity).
  rewrite (bind_exec _ _ _ _ _ Hnext) in H.
  binv H u1 sa H1 H. unfold free_chain in H. rewrite bind_get in H.
  pose proof (proj1 (WalkProofs.next_of_Ok _ _ _) Hn) as [Hnth Hrange].
  pose proof (nthN_Some_lt _ _ _ _ Hnth) as Hslt.
  destruct (FR_set_fat s sid END_OF_CHAIN sa u1 HG HC ltac:(vm_compute; reflexivity) Hslt H1)
    as (F1 & Ef & Efr).
  destruct (pointees_unlink (fat s) sid END_OF_CHAIN Hval Hslt (or_introl eq_refl)) as (Hval1 & _ & _).
  rewrite <- Ef in Hval1.
  destruct (free_chain_go_FR l (S (S (length (fat sa)))) nx sa s1 u (fr_G _ _ _ _ F1) (fr_coh _ _ _ _ F1) Hval1)
    as (F2 & Efr2 & Hval2 & Hfreed & Hmono).
  - rewrite (fr_len _ _ _ _ F1). exact Hlen.
  - rewrite Ef. apply path_updN; assumption.
  - intros Hne i Hi. rewrite Ef in Hi.
    assert (Hnx_reg : nx <= MAX_REGULAR_SECTOR).
    { destruct Hrange as [->|[Hr _]]; [|exact Hr]. inversion Hp; subst; [contradiction|]. congruence. }
    destruct (N.eq_dec i sid) as [->|Hia].
    + rewrite nthN_updN_same in Hi by exact Hslt. markers. injection Hi as Hi. lia.
    + rewrite nthN_updN_other in Hi by congruence.
      apply Hia. apply WalkProofs.check_pointees_spec in Hval. destruct Hval as (_ & Hndr & _).
      eapply WalkProofs.nodup_regs_index; [exact Hndr|exact Hi|exact Hnth|].
      apply regular_spec. exact Hnx_reg.
  - exact H.
  - split; [exact (FR_trans _ _ _ _ _ _ _ F1 F2)|].
    split; [rewrite Efr2, Efr; reflexivity|]. split; [exact Hval2|]. split.
    { rewrite (fr_cells _ _ _ _ F2) by exact Hni. rewrite Ef. apply nthN_updN_same. exact Hslt. }
    split; [exact Hfreed|].
    intros y Hr Hy. apply (Hmono y Hr). rewrite Ef. apply unref_updN; [exact Hy|]. markers. lia.
Qed.

Lemma NoDup_app_parts : forall (a b : list N), NoDup (a ++ b) ->
  NoDup a /\ NoDup b /\ (forall x, In x a -> ~ In x b).
Proof.
  intros a b H. split; [|split].
  - induction a as [|x a IH]; [constructor|]. cbn [app] in H. inversion H as [|? ? Hx H']; subst.
    constructor; [intro Hin; apply Hx; apply in_or_app; left; exact Hin|exact (IH H')].
  - exact (NoDup_app_r _ _ H).
  - exact (NoDup_app_disj _ _ H).
Qed.

(* Chain::set_len to fewer sectors *)
Lemma release_ready : forall s r rids mfids dids id e ids new_len,
  CohData' s -> SD s r rids mfids dids ->
  nthN (dirs s) id = Some e -> SA.big_entry e -> chain_ids_of (fat s) (d_start e) = Ok ids ->
  0 < new_len -> new_len <= MAX_REGULAR_SECTOR * slen s ->
  (slen s + new_len - 1) / slen s < lenN ids ->
  exists s1,
    chain_set_len (mkChain IZero ids 0) new_len s = (s1, Ok (mkChain IZero ids 0)) /\
    BigReady s s1 r rids mfids dids id (takeN ((slen s + new_len - 1) / slen s) ids) [] /\
    free s1 = free s ++ dropN ((slen s + new_len - 1) / slen s) ids /\ nsect s1 = nsect s /\
    (forall x, In x ids -> sector_bytes s1 x = sector_bytes s x).
Proof.
  intros s r rids mfids dids id e ids new_len HCD [SW Hmd] He Hb Hc Hpos Hmax Hlt.
  pose proof (slen_pos s) as Hsp.
  pose proof HCD as [HC _ HF _].
  set (n' := (slen s + new_len - 1) / slen s) in *.
  pose proof (SA.sw_m _ _ _ _ _ _ SW) as W.
  pose proof (SA.sw_alloc _ _ _ _ _ _ SW) as Wa.
  destruct (big_owned s r rids mfids dids id e ids SW He Hb Hc) as [Hown Hcov].
  pose proof (WalkProofs.chain_ids_path _ _ _ Hc) as Hp.
  pose proof (path_nodup _ _ _ Hp) as Hnd.
  assert (HFn : Forall (fun x => x < nsect s) ids).
  { rewrite Forall_forall. intros x Hx. exact (proj2 (proj2 (Hown x Hx))). }
  destruct (chain_set_len_shrink s (d_start e) IZero ids 0 new_len n' Wa Hp HFn Hpos
              (two64_room s new_len Hmax) eq_refl Hlt)
    as (s1 & Hset & W1 & M1 & F1 & P1 & T1 & B1).
  pose proof M1 as (Mv & Mn & Mdifat & Mdirs & Mds & Mimg & Mfl).
  (* the run, opened *)
  assert (Hn1 : 1 <= n').
  { unfold n'. assert (0 < (slen s + new_len - 1) / slen s) by (apply N.div_str_pos; lia). lia. }
  destruct (nthN_lt_Some _ ids (n' - 1) ltac:(lia)) as [sid Hsid].
  pose proof (takeN_snoc_nth _ _ _ _ Hsid) as Etake.
  pose proof (dropN_nth _ _ _ _ Hsid) as Edrop.
  replace (n' - 1 + 1) with n' in * by lia.
  set (kept := takeN n' ids) in *. set (freed := dropN n' ids) in *.
  assert (Eids : ids = takeN (n' - 1) ids ++ sid :: freed).
  { rewrite <- Edrop. symmetry. apply takeN_dropN_id. }
  assert (Eids2 : ids = kept ++ freed) by (symmetry; apply takeN_dropN_id).
  pose proof Hnd as Hnd2. rewrite Eids2 in Hnd2.
  destruct (NoDup_app_parts _ _ Hnd2) as (Hndk & Hndf & Hkf).
  assert (Hsid_kept : In sid kept) by (rewrite Etake; apply in_or_app; right; left; reflexivity).
  assert (Hsid_f : ~ In sid freed) by (apply Hkf; exact Hsid_kept).
  pose proof Hp as Hp0. rewrite Eids in Hp0.
  pose proof (path_mid _ _ _ _ _ Hp0) as Hpm.
  inversion Hpm as [|cur nx l' Hcs Hn Hpf]; subst cur l'.
  assert (Hfca : exists u, free_chain_after sid s = (s1, Ok u)).
  { unfold chain_set_len in Hset. rewrite bind_get in Hset. cbv zeta in Hset. cbn [c_ids] in Hset.
    pose proof (two64_room s new_len Hmax).
    destruct (two64 <=? slen s + new_len - 1 + 1) eqn:Q1; [lia|].
    fold n' in Hset.
    destruct (n' =? 0) eqn:Q2; [lia|].
    destruct (n' <=? lenN ids) eqn:Q3; [|lia].
    destruct (n' <? lenN ids) eqn:Q4; [|lia].
    rewrite Hsid in Hset. unfold bind at 1 in Hset.
    destruct (free_chain_after sid s) as [sx [ux|k|k|]] eqn:E; try discriminate Hset.
    unfold ret in Hset. injection Hset as <-. exists ux. reflexivity. }
  destruct Hfca as [u0 Hfca].
  destruct (coherent_G s HC) as [HG HFc].
  destruct (ch_fat s HC) as [_ Clen _ _].
  destruct (free_chain_after_FR s sid nx freed s1 u0 HG HFc (ch_fat_valid s HC)
              ltac:(rewrite Clen; pose proof (ch_nsect s HC); lia) Hn Hpf Hsid_f Hfca)
    as (F & Efr & Hval1 & Hsid1 & Hfreed & Hmono).
  destruct (owned_avoids _ _ _ _ _ _ Hown) as (Ad & Am & _).
  assert (HCin : forall x, In x (sid :: freed) -> In x ids).
  { intros x [<-|Hx]; [rewrite Eids2; apply in_or_app; left; exact Hsid_kept|].
    rewrite Eids2. apply in_or_app. right. exact Hx. }
  assert (HC1 : Coherent s1).
  { eapply (FR_coherent (sid :: freed) []); [exact HC|exact F| | | |exact Hval1].
    - intros x Hx. exact (chain_avoids_difat s _ ids (proj1 (proj1 (Coherent_split s) HC)) Hc x (HCin x Hx)).
    - intros d Hd. rewrite (swfx_dir_ids _ _ _ _ _ _ _ SW Hd).
      split; [intros x Hx; exact (Ad x (HCin x Hx))|intros x []].
    - intros m Hm. rewrite (swfx_mini_ids _ _ _ _ _ _ _ SW Hm).
      split; [intros x Hx; exact (Am x (HCin x Hx))|intros x []]. }
  assert (Hfree_ids : forall x, In x (free s) -> ~ In x ids).
  { intros x Hx Hin. destruct (Hown x Hin) as (_ & Hnf & _). contradiction. }
  assert (HF1 : FreeClean s1).
  { destruct HF as [Hfnd HFx]. split.
    - rewrite Efr. apply NoDup_app_intro; [exact Hfnd|exact Hndf|].
      intros x Hx Hin. apply (Hfree_ids x Hx). rewrite Eids2. apply in_or_app. right. exact Hin.
    - intros x Hx. rewrite Efr in Hx. rewrite Mn. apply in_app_or in Hx. destruct Hx as [Hx|Hx].
      + destruct (HFx x Hx) as (A & B & Cc). split; [exact A|]. split.
        * rewrite (fr_cells _ _ _ _ F); [exact B|]. intro Hin. exact (Hfree_ids x Hx (HCin x Hin)).
        * pose proof (ch_nsect s HC). apply unref_regs; [lia|]. apply Hmono; [lia|].
          apply unref_regs; [lia|exact Cc].
      + destruct (Hfreed x Hx) as [A B].
        assert (Hxn : x < nsect s).
        { rewrite Forall_forall in HFn. apply HFn. rewrite Eids2. apply in_or_app. right. exact Hx. }
        split; [exact Hxn|]. split; [exact A|]. pose proof (ch_nsect s HC). apply unref_regs; [lia|exact B]. }
  (* the structural part *)
  assert (HQ : SA.Q s1 = SA.Q s).
  { unfold SA.Q. rewrite (fr_mf _ _ _ _ F), (fr_mfree _ _ _ _ F), (fr_mstart _ _ _ _ F),
      (fr_dirs _ _ _ _ F), (fr_dstart _ _ _ _ F), (fr_ver _ _ _ _ F). reflexivity. }
  assert (HT : forall x, In x ids -> SA.foreign s rids mfids dids (SA.Xid id) x).
  { intros x Hx. exact (proj1 (Hown x Hx)). }
  destruct (SA.fat_frame_wf s s1 r rids mfids dids (SA.Xid id) ids (SWf_X _ _ _ _ _ id SW) HQ W1 Mn Mdifat
              ltac:(lia) T1 HT) as [SW1 Hkeep].
  { rewrite Efr. destruct HF as [Hfnd _]. apply NoDup_app_intro; [exact Hfnd|exact Hndf|].
    intros x Hx Hin. apply (Hfree_ids x Hx). rewrite Eids2. apply in_or_app. right. exact Hin. }
  { intros x Hx. rewrite Efr in Hx. apply in_app_or in Hx. destruct Hx as [Hx|Hx]; [left; exact Hx|].
    right. rewrite Eids2. apply in_or_app. right. exact Hx. }
  assert (Ho1 : SA.others_kept s s1 id).
  { apply (SA.fat_frame_others s s1 r rids mfids dids (SA.Xid id) ids id (SWf_X _ _ _ _ _ id SW) SW1
             ltac:(intros j E; exact E) HQ Mn Hkeep HT).
    intros x _ Hx. apply B1. exact Hx. }
  assert (Hkept_ne : kept <> []).
  { intro E. rewrite E in Hsid_kept. destruct Hsid_kept. }
  exists s1. split; [exact Hset|]. split; [|split; [exact Efr|split; [exact Mn|]]].
  2:{ intros x Hx. apply B1. destruct (Hown x Hx) as ((_ & _ & _ & Hd & _) & _). exact Hd. }
  unfold BigReady. split; [exact HC1|]. split; [exact HF1|]. split; [exact SW1|].
  split; [rewrite <- (path_hd_start _ _ _ P1); exact P1|]. split.
  - intros x Hx. assert (Hxi : In x ids) by (rewrite Eids2; apply in_or_app; left; exact Hx).
    destruct (Hown x Hxi) as (Hfo & Hnf & Hxn). split; [|split; [|rewrite Mn; exact Hxn]].
    + apply (SA.foreign_ext s s1); [exact Hfo|exact Mdifat|exact Mdirs|].
      intros j ej l Hxj Hej Hbj Hcl.
      destruct (SA.sw_bigchain _ _ _ _ _ _ SW j ej ltac:(intros []) Hej Hbj) as (l0 & Hc0 & _).
      pose proof (Hkeep j ej l0 Hxj Hej Hbj Hc0) as Hc0'. rewrite Hcl in Hc0'.
      injection Hc0' as ->. exact Hc0.
    + rewrite Efr. intro Hin. apply in_app_or in Hin. destruct Hin as [Hin|Hin]; [contradiction|].
      exact (Hkf x Hx Hin).
  - split; [exact HQ|]. split; [exact Ho1|]. split; [intros y Hr Hy _; exact (Hmono y Hr Hy)|].
    split; [intros x []|].
    intros x Hx. destruct (in_dec N.eq_dec x freed) as [Hin|Hout]; [exact (proj2 (Hfreed x Hin))|].
    assert (Hxs : x <> sid) by (intros ->; rewrite Hsid1 in Hx; vm_compute in Hx; discriminate Hx).
    pose proof (nthN_Some_lt _ _ _ _ Hx) as Hxl. rewrite (fr_len _ _ _ _ F), Clen in Hxl.
    pose proof (ch_nsect s HC).
    apply Hmono; [lia|]. apply (ax_free s (cd_aux s HCD)).
    rewrite <- (fr_cells _ _ _ _ F); [exact Hx|]. intros [E|Hin]; [exact (Hxs (eq_sym E))|exact (Hout Hin)].
Qed.

(* ---- item 2: a large stream shrinks to a large length that needs fewer
        sectors; the tail of its chain goes to the free stack (FAT cells FREE on
        disk and in the cache) ---- *)
Theorem resize_big_release_cohdata' : forall s id V ids new_len,
  CohData' s ->
  big_content s id V -> stream_ids s id ids ->
  MINI_STREAM_CUTOFF <= new_len -> new_len <= lenN V ->
  (slen s + new_len - 1) / slen s < lenN ids ->
  exists s',
    resize id new_len s = (s', Ok tt) /\ CohData' s' /\
    (forall strict, open_model strict (concat_img (img s')) = Ok (reopened s')) /\
    big_content (reopened s') id (takeN new_len V) /\
    big_content s' id (takeN new_len V) /\
    stream_ids s' id (takeN ((slen s + new_len - 1) / slen s) ids) /\
    free s' = free s ++ dropN ((slen s + new_len - 1) / slen s) ids /\ nsect s' = nsect s /\
    SA.others_kept s s' id /\ (TreePart s -> TreePart s').
Proof.
  intros s id V ids new_len HCD HB Hsi Hcut Hle Hlt.
  pose proof (slen_pos s) as Hsp.
  pose proof HCD as [HC (r & rids & mfids & dids & HSD) HF _].
  destruct (big_entry_of_content s id V ids HB Hsi) as (e & He & Hbe & Hc).
  destruct (big_owned s r rids mfids dids id e ids (proj1 HSD) He Hbe Hc) as [_ Hcov].
  pose proof Hbe as [Ht Hbig].
  pose proof (big_content_len _ _ _ _ HB He) as HlV.
  pose proof (path_hd_start _ _ _ (WalkProofs.chain_ids_path _ _ _ Hc)) as Hhd.
  assert (Hnl0 : 0 < new_len) by (rewrite CUTOFF_val in Hcut; lia).
  destruct (ceil_props (slen s) new_len Hsp Hnl0) as [Hc1 Hc2].
  set (n' := (slen s + new_len - 1) / slen s) in *.
  assert (Hmask : LenFits s new_len).
  { pose proof (old_len_fits s id e HC He). unfold LenFits in *. lia. }
  assert (Hmax : new_len <= MAX_REGULAR_SECTOR * slen s).
  { destruct HB as (e1 & ids1 & He1 & _ & _ & Hc1' & Hg & _).
    assert (ids1 = ids) by congruence. subst ids1.
    pose proof (good_chain_count _ _ Hg). pose proof (ch_nsect s HC). nia. }
  destruct (release_ready s r rids mfids dids id e ids new_len HCD HSD He Hbe Hc Hnl0 Hmax Hlt)
    as (s1 & Hset & BR1 & Fr1 & N1 & _).
  fold n' in BR1, Fr1.
  assert (Hne : ids <> []) by (eapply ids_nonempty; eassumption).
  assert (Hn1 : 1 <= n').
  { unfold n'. assert (0 < (slen s + new_len - 1) / slen s) by (apply N.div_str_pos; lia). lia. }
  assert (Hhdk : hd END_OF_CHAIN (takeN n' ids) = d_start e).
  { rewrite Hhd. destruct ids as [|a t]; [contradiction|].
    rewrite takeN_cons by lia. reflexivity. }
  destruct (big_finish_cohdata' s s1 r rids mfids dids id e (takeN n' ids) [] new_len HCD HSD He Hbe BR1 Hhdk)
    as (s' & Eu & HCD' & _ & _ & Ho & F' & N' & _ & HTP').
  { intros []. }
  { exact Hcut. }
  { rewrite lenN_takeN. replace (N.min n' (lenN ids)) with n' by lia. exact Hc1. }
  { exact Hmask. }
  assert (R : resize id new_len s = (s', Ok tt)).
  { eapply (resize_big_run s s1 s1 id e ids ids);
      [exact He|exact Hbe|exact Hc|exact Hcov|exact Hset| | |exact Eu|exact Hcut|exact Hmax|exact Hmask].
    - unfold zero_fill_chain.
      destruct (d_len e <? N.min new_len (slen s * lenN ids)) eqn:E; [lia|]. reflexivity.
    - rewrite SA.chain_start_hd. symmetry. exact Hhd. }
  destruct (resize_big_no_alloc s id V ids new_len HB Hsi (aw_store s (SD_allwf _ _ _ _ _ HSD)) Hcut
              ltac:(lia) Hmax Hmask)
    as (s'' & R'' & HB'' & Hsi'' & _).
  assert (s'' = s') by congruence. subst s''.
  replace (new_len - lenN V) with 0 in HB'' by lia.
  change (repeatN 0 0) with (@nil N) in HB''. rewrite app_nil_r in HB''.
  exists s'. split; [exact R|]. split; [exact HCD'|].
  split; [exact (cohdata'_reopens s' HCD')|].
  split; [exact (big_content_same_store s' (reopened s') (same_store_reopened s') _ _ HB'')|].
  split; [exact HB''|]. split; [exact Hsi''|]. split; [congruence|]. split; [congruence|]. split; [exact Ho|exact HTP'].
Qed.

(* ---- covered resize of a large stream (same number of sectors): the
        strengthened invariant is kept as well ---- *)
Theorem resize_big_same_cohdata' : forall s id V ids new_len,
  CohData' s ->
  big_content s id V -> stream_ids s id ids ->
  MINI_STREAM_CUTOFF <= new_len -> new_len <= slen s * lenN ids ->
  slen s * lenN ids < new_len + slen s -> LenFits s new_len ->
  exists s',
    resize id new_len s = (s', Ok tt) /\ CohData' s' /\
    big_content s' id (resized V new_len) /\ stream_ids s' id ids /\
    free s' = free s /\ nsect s' = nsect s /\ SA.others_kept s s' id /\ (TreePart s -> TreePart s').
Proof.
  intros s id V ids new_len HCD HB Hsi Hcut Hfit Htight Hmask.
  pose proof (slen_pos s) as Hsp.
  pose proof HCD as [HC (r & rids & mfids & dids & HSD) HF _].
  destruct (big_entry_of_content s id V ids HB Hsi) as (e & He & Hbe & Hc).
  destruct (big_owned s r rids mfids dids id e ids (proj1 HSD) He Hbe Hc) as [_ Hcov].
  pose proof (path_hd_start _ _ _ (WalkProofs.chain_ids_path _ _ _ Hc)) as Hhd.
  assert (Hnl0 : 0 < new_len) by (rewrite CUTOFF_val in Hcut; lia).
  assert (Hmax : new_len <= MAX_REGULAR_SECTOR * slen s).
  { destruct HB as (e1 & ids1 & He1 & _ & _ & Hc1' & Hg & _).
    assert (ids1 = ids) by congruence. subst ids1.
    pose proof (good_chain_count _ _ Hg). pose proof (ch_nsect s HC). nia. }
  pose proof (big_ready_refl s r rids mfids dids id e ids HCD HSD He Hbe Hc) as BR0.
  destruct (zero_fill_ready s s r rids mfids dids id ids [] (d_len e)
              (N.min new_len (slen s * lenN ids)) BR0 ltac:(lia))
    as (s2 & Hz & BR2 & F2 & N2 & _).
  destruct (big_finish_cohdata' s s2 r rids mfids dids id e ids [] new_len HCD HSD He Hbe BR2
              ltac:(symmetry; exact Hhd) ltac:(intros []) Hcut Hfit Hmask)
    as (s' & Eu & HCD' & _ & _ & Ho & F' & N' & _ & HTP').
  assert (R : resize id new_len s = (s', Ok tt)).
  { eapply (resize_big_run s s s2 id e ids ids);
      [exact He|exact Hbe|exact Hc|exact Hcov| |exact Hz| |exact Eu|exact Hcut|exact Hmax|exact Hmask].
    - apply chain_set_len_same; [exact Hnl0|apply two64_room; exact Hmax|].
      cbn [c_ids]. symmetry. apply (N.div_unique _ _ _ (slen s + new_len - 1 - slen s * lenN ids)); lia.
    - rewrite SA.chain_start_hd. symmetry. exact Hhd. }
  destruct (resize_big_same_count s id V ids new_len HB Hsi (aw_store s (SD_allwf _ _ _ _ _ HSD)) Hcut
              Hfit Htight Hmax Hmask)
    as (s'' & R'' & HB'' & Hsi'' & _).
  assert (s'' = s') by congruence. subst s''.
  exists s'. split; [exact R|]. split; [exact HCD'|]. split; [exact HB''|]. split; [exact Hsi''|].
  split; [congruence|]. split; [congruence|]. split; [exact Ho|exact HTP'].
Qed.

(* ================================================================== *)
(* 1b. growth at the end of the file: StoreAlloc's FAT-frame lemmas,    *)
(*     generalised to a file that grows (the number of sectors and the  *)
(*     length of the FAT increase; cells and sectors below the old end  *)
(*     keep their values)                                               *)
(* ================================================================== *)
Module FrameG.
Import StoreAlloc.

Lemma MWf_fat_transfer_g : forall s s' r rids mfids dids,
  MWf_at s r rids mfids dids -> Q s' = Q s -> AllocWf s' ->
  nsect s <= nsect s' -> lenN (fat s) <= lenN (fat s') ->
  (forall x, In x rids \/ In x mfids \/ In x dids -> nthN (fat s') x = nthN (fat s) x) ->
  MWf_at s' r rids mfids dids.
Proof.
  intros s s' r rids mfids dids W HQ Wa Hns Hfl Hcells.
  destruct (Q_fields s s' HQ) as (Hmf & Hmfr & Hms & Hd & Hds & Hv & Hsl).
  assert (Hgc : forall c l, chain_ids_of (fat s) c = Ok l -> good_chain s l ->
            (forall x, In x l -> nthN (fat s') x = nthN (fat s) x) ->
            chain_ids_of (fat s') c = Ok l /\ good_chain s' l).
  { intros c l Hc (Hnd & HF & _) Hx. split.
    - apply chain_of_path. apply (path_ext_le_out _ _ _ _ (WalkProofs.chain_ids_path _ _ _ Hc) Hfl Hx).
    - apply StoreProofs.good_chain_of_wf; [exact Wa | exact Hnd |].
      eapply Forall_impl; [|exact HF]. cbv beta. intros a [Ha _]. lia. }
  destruct (Hgc _ _ (mw_rch _ _ _ _ _ W) (mw_rgood _ _ _ _ _ W)) as [R1 R2];
    [intros x Hx; apply Hcells; left; exact Hx|].
  destruct (Hgc _ _ (mw_mch _ _ _ _ _ W) (mw_mgood _ _ _ _ _ W)) as [M1 M2];
    [intros x Hx; apply Hcells; right; left; exact Hx|].
  destruct (Hgc _ _ (mw_dch _ _ _ _ _ W) (mw_dgood _ _ _ _ _ W)) as [D1 D2];
    [intros x Hx; apply Hcells; right; right; exact Hx|].
  constructor.
  - rewrite Hd. apply W.
  - apply W.
  - exact R1.
  - exact R2.
  - rewrite Hmf. apply W.
  - rewrite Hmf, Hsl. apply W.
  - rewrite Hms. exact M1.
  - exact M2.
  - rewrite Hmf, Hsl. apply W.
  - rewrite Hmf. apply W.
  - rewrite Hds. exact D1.
  - exact D2.
  - rewrite Hd, Hsl. apply W.
  - rewrite Hd. apply W.
  - apply W.
  - apply W.
  - rewrite Hmfr. apply W.
  - rewrite Hmf, Hmfr. apply W.
Qed.

Lemma fat_frame_wf_g : forall s s' r rids mfids dids X T,
  SWfX_at s r rids mfids dids X ->
  Q s' = Q s -> AllocWf s' -> nsect s <= nsect s' -> nsect s' <= MAX_REGULAR_SECTOR + 1 ->
  difat s' = difat s ->
  lenN (fat s) <= lenN (fat s') ->
  (forall x, ~ In x T -> x < lenN (fat s) -> nthN (fat s') x = nthN (fat s) x) ->
  (forall x, In x T -> foreign s rids mfids dids X x) ->
  NoDup (free s') -> (forall x, In x (free s') -> In x (free s) \/ In x T) ->
  SWfX_at s' r rids mfids dids X /\
  (forall j ej l, ~ X j -> nthN (dirs s) j = Some ej -> big_entry ej ->
     chain_ids_of (fat s) (d_start ej) = Ok l -> chain_ids_of (fat s') (d_start ej) = Ok l).
Proof.
  intros s s' r rids mfids dids X T SW HQ W1 Hns Hns' Hdifat Hfl T1 HT Hfnd Hfsub.
  pose proof (sw_m _ _ _ _ _ _ SW) as W.
  destruct (Q_fields s s' HQ) as (Hmf & Hmfr & Hms & Hd & Hds & Hv & Hsl).
  assert (Hsys_cells : forall x, In x rids \/ In x mfids \/ In x dids ->
            nthN (fat s') x = nthN (fat s) x).
  { intros x Hx. apply T1.
    - intro Hin. destruct (HT x Hin) as (S1 & S2 & S3 & _).
      destruct Hx as [Hx|[Hx|Hx]]; contradiction.
    - destruct Hx as [Hx|[Hx|Hx]].
      + exact (path_In_lt _ _ _ _ (WalkProofs.chain_ids_path _ _ _ (mw_rch _ _ _ _ _ W)) Hx).
      + exact (path_In_lt _ _ _ _ (WalkProofs.chain_ids_path _ _ _ (mw_mch _ _ _ _ _ W)) Hx).
      + exact (path_In_lt _ _ _ _ (WalkProofs.chain_ids_path _ _ _ (mw_dch _ _ _ _ _ W)) Hx). }
  assert (W1m : MWf_at s' r rids mfids dids).
  { apply (MWf_fat_transfer_g s s' r rids mfids dids W HQ W1 Hns Hfl Hsys_cells). }
  assert (Hkeep : forall j ej l, ~ X j -> nthN (dirs s) j = Some ej -> big_entry ej ->
            chain_ids_of (fat s) (d_start ej) = Ok l ->
            chain_ids_of (fat s') (d_start ej) = Ok l).
  { intros j ej l Hxj Hej Hbj Hcl. apply chain_of_path.
    apply (path_ext_le_out _ _ _ _ (WalkProofs.chain_ids_path _ _ _ Hcl) Hfl).
    intros x Hx. apply T1.
    - intro Hin. destruct (HT x Hin) as (_ & _ & _ & _ & S5).
      exact (S5 j ej l Hxj Hej Hbj Hcl Hx).
    - exact (path_In_lt _ _ _ _ (WalkProofs.chain_ids_path _ _ _ Hcl) Hx). }
  assert (Hbk : forall j ej, ~ X j -> nthN (dirs s) j = Some ej -> big_entry ej ->
            exists l, chain_ids_of (fat s) (d_start ej) = Ok l /\
                      chain_ids_of (fat s') (d_start ej) = Ok l /\
                      d_len ej <= slen s * lenN l /\ Forall (fun x => x < nsect s) l /\
                      (forall x, In x l -> ~ In x T)).
  { intros j ej Hxj Hej Hbj.
    destruct (sw_bigchain _ _ _ _ _ _ SW j ej Hxj Hej Hbj) as (l & Hcl & Hcovl & HFl).
    exists l. split; [exact Hcl|]. split; [exact (Hkeep j ej l Hxj Hej Hbj Hcl)|].
    split; [exact Hcovl|]. split; [exact HFl|].
    intros x Hx Hin. destruct (HT x Hin) as (_ & _ & _ & _ & S5).
    exact (S5 j ej l Hxj Hej Hbj Hcl Hx). }
  split; [|exact Hkeep].
  constructor.
  - exact W1m.
  - exact W1.
  - exact Hns'.
  - exact Hfnd.
  - intros x Hx. rewrite Hdifat. destruct (sw_sys _ _ _ _ _ _ SW x Hx) as [S1 S2].
    split; [|exact S2]. intro Hin. destruct (Hfsub x Hin) as [Hin'|Hin']; [contradiction|].
    destruct (HT x Hin') as (T1' & T2' & T3' & _).
    destruct Hx as [Hx|[Hx|Hx]]; contradiction.
  - intros x Hx. rewrite Hdifat. destruct (Hfsub x Hx) as [Hx'|Hx'].
    + exact (sw_fdifat _ _ _ _ _ _ SW x Hx').
    + destruct (HT x Hx') as (_ & _ & _ & S4 & _). exact S4.
  - intros j ej Hxj Hej Hsj. rewrite Hd in Hej. rewrite Hmf.
    exact (sw_small _ _ _ _ _ _ SW j ej Hxj Hej Hsj).
  - intros j1 j2 e1 e2 m1 m2 Hx1 Hx2 Hne He1 Hs1 Hc1 He2 Hs2 Hc2.
    rewrite Hd in He1, He2. rewrite Hmf in Hc1, Hc2.
    exact (sw_disj _ _ _ _ _ _ SW j1 j2 e1 e2 m1 m2 Hx1 Hx2 Hne He1 Hs1 Hc1 He2 Hs2 Hc2).
  - intros j ej Hxj Hej Hbj. rewrite Hd in Hej.
    destruct (Hbk j ej Hxj Hej Hbj) as (l & _ & Hcl1 & Hcovl & HFl & _).
    exists l. rewrite Hsl. split; [exact Hcl1|]. split; [exact Hcovl|].
    eapply Forall_impl; [|exact HFl]. cbv beta. intros a Ha. lia.
  - intros j ej l Hxj Hej Hbj Hcl x Hx. rewrite Hd in Hej.
    destruct (Hbk j ej Hxj Hej Hbj) as (l0 & Hcl0 & Hcl1 & _ & _ & Hdj).
    rewrite Hcl in Hcl1. injection Hcl1 as <-.
    destruct (sw_big _ _ _ _ _ _ SW j ej l Hxj Hej Hbj Hcl0 x Hx) as (S1 & S2 & S3 & S4 & S5).
    rewrite Hdifat. repeat split; try assumption.
    intro Hin. destruct (Hfsub x Hin) as [Hin'|Hin']; [contradiction|].
    exact (Hdj x Hx Hin').
  - intros j1 j2 e1 e2 l1 l2 Hx1 Hx2 Hne He1 Hb1 Hc1 He2 Hb2 Hc2. rewrite Hd in He1, He2.
    destruct (Hbk j1 e1 Hx1 He1 Hb1) as (la & Hca & Hca1 & _).
    destruct (Hbk j2 e2 Hx2 He2 Hb2) as (lb & Hcb & Hcb1 & _).
    rewrite Hc1 in Hca1. injection Hca1 as <-. rewrite Hc2 in Hcb1. injection Hcb1 as <-.
    exact (sw_bigdisj _ _ _ _ _ _ SW j1 j2 e1 e2 l1 l2 Hx1 Hx2 Hne He1 Hb1 Hca He2 Hb2 Hcb).
Qed.

Lemma fat_frame_others_g : forall s s' r rids mfids dids X T id,
  SWfX_at s r rids mfids dids X -> SWfX_at s' r rids mfids dids X ->
  (forall j, X j -> j = id) ->
  Q s' = Q s -> nsect s <= nsect s' ->
  (forall j ej l, ~ X j -> nthN (dirs s) j = Some ej -> big_entry ej ->
     chain_ids_of (fat s) (d_start ej) = Ok l -> chain_ids_of (fat s') (d_start ej) = Ok l) ->
  (forall x, In x T -> foreign s rids mfids dids X x) ->
  (forall x, ~ In x T -> ~ In x (difat s) -> x < nsect s -> sector_bytes s' x = sector_bytes s x) ->
  others_kept s s' id.
Proof.
  intros s s' r rids mfids dids X T id SW SW' HX HQ Hns Hkeep HT B1.
  pose proof (sw_m _ _ _ _ _ _ SW) as W. pose proof (sw_m _ _ _ _ _ _ SW') as W1m.
  destruct (Q_fields s s' HQ) as (Hmf & Hmfr & Hms & Hd & Hds & Hv & Hsl).
  assert (Hrbytes : forall x, In x rids -> sector_bytes s' x = sector_bytes s x).
  { intros x Hx. apply B1.
    - intro Hin. destruct (HT x Hin) as (S1 & _). contradiction.
    - apply (sw_sys _ _ _ _ _ _ SW x). left. exact Hx.
    - destruct (mw_rgood _ _ _ _ _ W) as (_ & HF & _). rewrite Forall_forall in HF. apply HF. exact Hx. }
  split; [|split].
  - intros id' V' Hne Hsc.
    destruct (small_content_at _ _ _ _ _ _ _ W Hsc) as (e1 & m1 & Hs1).
    destruct Hs1 as (Hn1 & Ht1 & Hcut1 & Hpos1 & Hch1 & Hgm1 & Hle1 & HV1).
    exists e1, rids, m1. unfold small_at. splits; try assumption.
    + rewrite Hd. exact Hn1.
    + rewrite Hmf. exact Hch1.
    + apply (good_mchain_of_path s' r rids mfids dids (d_start e1) m1 W1m).
      rewrite Hmf. apply WalkProofs.chain_ids_path. exact Hch1.
    + rewrite HV1. f_equal. symmetry. apply mchain_content_ext. intros ms _.
      apply mini_bytes_ext. exact Hrbytes.
  - intros id' V' Hne (e2 & l2 & He2 & Ht2 & Hcut2 & Hc2 & Hg2 & Hle2 & HV2).
    assert (Hx2 : ~ X id') by (intro Hx'; exact (Hne (HX id' Hx'))).
    destruct (sw_bigchain _ _ _ _ _ _ SW id' e2 Hx2 He2 (conj Ht2 Hcut2)) as (l & Hcl & _ & HFl).
    rewrite Hc2 in Hcl. injection Hcl as <-.
    exists e2, l2. splits; try assumption.
    + rewrite Hd. exact He2.
    + exact (Hkeep id' e2 l2 Hx2 He2 (conj Ht2 Hcut2) Hc2).
    + apply StoreProofs.good_chain_of_wf; [apply SW' | apply Hg2 |].
      eapply Forall_impl; [|exact HFl]. cbv beta. intros a Ha. lia.
    + rewrite Hsl. exact Hle2.
    + rewrite HV2. f_equal. symmetry. apply StoreProofs.chain_content_ext. intros x Hx.
      destruct (sw_big _ _ _ _ _ _ SW id' e2 l2 Hx2 He2 (conj Ht2 Hcut2) Hc2 x Hx)
        as (_ & _ & _ & _ & S5).
      rewrite Forall_forall in HFl.
      apply B1; [|exact S5|exact (HFl x Hx)]. intro Hin. destruct (HT x Hin) as (_ & _ & _ & _ & S6).
      exact (S6 id' e2 l2 Hx2 He2 (conj Ht2 Hcut2) Hc2 Hx).
  - intros id' Hne (e3 & Hn3 & Ht3 & Hst3 & Hl3). exists e3. unfold empty_at.
    rewrite Hd. splits; assumption.
Qed.

Lemma keeps_chain_grow : forall n c, keeps (chain_grow n c).
Proof.
  induction n as [|n IH]; intro c; cbn [chain_grow].
  - apply keeps_const.
  - apply keeps_bind.
    + destruct (lastN (c_ids c)); [apply keeps_extend_chain|apply keeps_allocate_sector].
    + intro sid. apply IH.
Qed.
End FrameG.

Lemma seqN_In : forall k a x, a <= x < a + N.of_nat k -> In x (seqN a k).
Proof.
  induction k as [|k IH]; intros a x H; [lia|]. cbn [seqN].
  destruct (N.eq_dec x a) as [->|Hne]; [left; reflexivity|]. right. apply IH. lia.
Qed.

(* growth at the end of the file (free stack empty, no new FAT sector on the way) *)
Lemma grow_append_ready : forall s r rids mfids dids id e ids k,
  CohData' s -> SD s r rids mfids dids ->
  nthN (dirs s) id = Some e -> SA.big_entry e -> chain_ids_of (fat s) (d_start e) = Ok ids ->
  free s = [] -> lenN (difat s) < NUM_DIFAT_HDR ->
  nsect s + N.of_nat k + 3 <= MAX_REGULAR_SECTOR ->
  (forall j, j < N.of_nat k -> (nsect s + j) mod fat_per_sector s <> 0) ->
  exists s1,
    chain_grow k (mkChain IZero ids 0) s = (s1, Ok (mkChain IZero (ids ++ seqN (nsect s) k) 0)) /\
    BigReady s s1 r rids mfids dids id (ids ++ seqN (nsect s) k) (seqN (nsect s) k) /\
    free s1 = [] /\ nsect s1 = nsect s + N.of_nat k.
Proof.
  intros s r rids mfids dids id e ids k HCD [SW Hmd] He Hb Hc Hfree Hreg Hsize Hmod.
  pose proof HCD as [HC _ HF _].
  pose proof (SA.sw_m _ _ _ _ _ _ SW) as W.
  pose proof (SA.sw_alloc _ _ _ _ _ _ SW) as Wa.
  destruct (big_owned s r rids mfids dids id e ids SW He Hb Hc) as [Hown Hcov].
  pose proof Hb as [Ht Hbig].
  pose proof (ids_nonempty s ids _ Hbig Hcov) as Hne.
  pose proof (WalkProofs.chain_ids_path _ _ _ Hc) as Hp.
  pose proof (path_hd_start _ _ _ Hp) as Hhd.
  destruct (owned_avoids _ _ _ _ _ _ Hown) as (Had & Ham & _).
  assert (Hdids : DirCoherence.dir_ids s dids) by exact (SA.mw_dch _ _ _ _ _ W).
  assert (Hmids : DirCoherence.minifat_ids s mfids) by exact (SA.mw_mch _ _ _ _ _ W).
  destruct (ch_fat s HC) as [[_ _ _ _ Clt] Clen _ _].
  set (nw := seqN (nsect s) k) in *.
  destruct (chain_grow_append_coherent k s (d_start e) ids 0 dids mfids HC Hfree Hreg Hsize Hmod
              Hdids Hmids (chain_members_lt s dids (SA.mw_dgood _ _ _ _ _ W))
              (chain_members_lt s mfids (SA.mw_mgood _ _ _ _ _ W)) Hne Hp Had Ham)
    as (s1 & Hgrow & HC1 & Hfr1 & _ & _ & P1 & _ & _ & _ & _ & N1).
  fold nw in Hgrow, P1.
  destruct (chain_grow_append k s (d_start e) ids 0 Wa Hfree Clen Hne Clt ltac:(lia) Hmod Hp)
    as (s1' & E' & W1 & _ & Hlen1 & _ & _ & Ddif & _ & _ & _ & T1 & B1 & _).
  fold nw in E'. rewrite Hgrow in E'. injection E' as <-.
  pose proof (FrameG.keeps_chain_grow _ _ _ _ _ Hgrow) as HQ.
  assert (HT : forall x, In x ids -> SA.foreign s rids mfids dids (SA.Xid id) x).
  { intros x Hx. exact (proj1 (Hown x Hx)). }
  destruct (FrameG.fat_frame_wf_g s s1 r rids mfids dids (SA.Xid id) ids (SWf_X _ _ _ _ _ id SW) HQ W1
              ltac:(lia) ltac:(lia) Ddif ltac:(lia)) as [SW1 Hkeep].
  { intros x Hx Hlt. apply T1; [exact Hx|lia]. }
  { exact HT. }
  { rewrite Hfr1. constructor. }
  { intros x Hx. rewrite Hfr1 in Hx. destruct Hx. }
  assert (Ho1 : SA.others_kept s s1 id).
  { apply (FrameG.fat_frame_others_g s s1 r rids mfids dids (SA.Xid id) ids id (SWf_X _ _ _ _ _ id SW) SW1
             ltac:(intros j E; exact E) HQ ltac:(lia) Hkeep HT).
    intros x _ Hx Hlt. apply B1; assumption. }
  assert (Hnew_ge : forall x, In x nw -> nsect s <= x /\ x < nsect s1).
  { intros x Hx. apply In_seqN in Hx. lia. }
  assert (Hback : forall j ej l, ~ SA.Xid id j -> nthN (dirs s) j = Some ej -> SA.big_entry ej ->
            chain_ids_of (fat s1) (d_start ej) = Ok l -> chain_ids_of (fat s) (d_start ej) = Ok l).
  { intros j ej l Hxj Hej Hbj Hcl.
    destruct (SA.sw_bigchain _ _ _ _ _ _ SW j ej ltac:(intros []) Hej Hbj) as (l0 & Hc0 & _).
    pose proof (Hkeep j ej l0 Hxj Hej Hbj Hc0) as Hc0'. rewrite Hcl in Hc0'.
    injection Hc0' as ->. exact Hc0. }
  destruct (SA.Q_fields s s1 HQ) as (_ & _ & _ & Hd1 & _ & _ & _).
  exists s1. split; [exact Hgrow|]. split; [|split; [exact Hfr1|exact N1]].
  unfold BigReady. split; [exact HC1|]. split; [apply FreeClean_nil; exact Hfr1|]. split; [exact SW1|].
  split; [rewrite (SA.hd_app_ne ids nw END_OF_CHAIN Hne), <- Hhd; exact P1|]. split.
  - intros x Hx. apply in_app_or in Hx. destruct Hx as [Hx|Hx].
    + destruct (Hown x Hx) as (Hfo & _ & Hxn). split; [|split; [rewrite Hfr1; intros []|lia]].
      apply (SA.foreign_ext s s1); [exact Hfo|exact Ddif|exact Hd1|exact Hback].
    + destruct (Hnew_ge x Hx) as [Hge Hlt1].
      split; [|split; [rewrite Hfr1; intros []|exact Hlt1]].
      unfold SA.foreign. rewrite Ddif, Hd1.
      split; [intro Hin; pose proof (chain_members_lt s rids (SA.mw_rgood _ _ _ _ _ W) x Hin); lia|].
      split; [intro Hin; pose proof (chain_members_lt s mfids (SA.mw_mgood _ _ _ _ _ W) x Hin); lia|].
      split; [intro Hin; pose proof (chain_members_lt s dids (SA.mw_dgood _ _ _ _ _ W) x Hin); lia|].
      split; [intro Hin; pose proof (Clt x Hin); lia|].
      intros j ej l Hxj Hej Hbj Hcl Hin.
      pose proof (Hback j ej l Hxj Hej Hbj Hcl) as Hcl0.
      pose proof (SA.path_In_lt _ _ _ _ (WalkProofs.chain_ids_path _ _ _ Hcl0) Hin). lia.
  - split; [exact HQ|]. split; [exact Ho1|].
    assert (Hun : forall y, y <= MAX_REGULAR_SECTOR -> unref (fat s) y -> ~ In y nw -> unref (fat s1) y).
    { intros y Hr Hy Hyn i Hi.
      destruct (in_dec N.eq_dec i (ids ++ nw)) as [Hin|Hout].
      + destruct (path_cell _ _ _ P1 i y Hin Hi) as [E|Htl]; [markers; lia|].
        rewrite (tl_app_ne _ ids nw Hne) in Htl. apply in_app_or in Htl. destruct Htl as [Htl|Htl]; [|contradiction].
        destruct (path_tl_ref _ _ _ Hp y Htl) as (j & _ & Hj). exact (Hy j Hj).
      + destruct (N.lt_ge_cases i (nsect s)) as [Hlt|Hge].
        * rewrite T1 in Hi; [exact (Hy i Hi)| |exact Hlt].
          intro H. apply Hout. apply in_or_app. left. exact H.
        * apply Hout. apply in_or_app. right. apply seqN_In.
          pose proof (nthN_Some_lt _ _ _ _ Hi). lia. }
    split; [exact Hun|]. split; [intros x Hx; apply in_or_app; right; exact Hx|].
    apply (free_unref_after (fat s) (fat s1) (ids ++ nw) nw (ax_free s (cd_aux s HCD))).
    + lia.
    + rewrite (SA.hd_app_ne ids nw END_OF_CHAIN Hne), <- Hhd. exact P1.
    + intros x Hx Hf. destruct (N.lt_ge_cases x (nsect s)) as [Hlt|Hge].
      * rewrite T1 in Hf; [exact Hf| |exact Hlt]. intro H. apply Hx. apply in_or_app. left. exact H.
      * exfalso. apply Hx. apply in_or_app. right. apply seqN_In.
        pose proof (nthN_Some_lt _ _ _ _ Hf). lia.
    + exact Hun.
    + intros x Hx. apply in_or_app. right. exact Hx.
Qed.

(* ---- item 1 (append): a large stream grows by sectors appended to the file ---- *)
Theorem resize_big_append_cohdata' : forall s id V ids new_len k,
  CohData' s -> free s = [] ->
  lenN (difat s) < NUM_DIFAT_HDR -> nsect s + N.of_nat k + 3 <= MAX_REGULAR_SECTOR ->
  big_content s id V -> stream_ids s id ids ->
  slen s * lenN ids < new_len ->
  lenN ids + N.of_nat k = (slen s + new_len - 1) / slen s ->
  (forall j, j < N.of_nat k -> (nsect s + j) mod fat_per_sector s <> 0) ->
  new_len <= MAX_REGULAR_SECTOR * slen s -> LenFits s new_len ->
  exists s',
    resize id new_len s = (s', Ok tt) /\ CohData' s' /\
    (forall strict, open_model strict (concat_img (img s')) = Ok (reopened s')) /\
    big_content (reopened s') id (V ++ repeatN 0 (new_len - lenN V)) /\
    big_content s' id (V ++ repeatN 0 (new_len - lenN V)) /\
    stream_ids s' id (ids ++ seqN (nsect s) k) /\ free s' = [] /\
    nsect s' = nsect s + N.of_nat k /\ SA.others_kept s s' id /\ (TreePart s -> TreePart s').
Proof.
  intros s id V ids new_len k HCD Hfree Hreg Hsize HB Hsi Hgt Hcount Hmod Hmax Hlen.
  pose proof (slen_pos s) as Hsp.
  pose proof HCD as [HC (r & rids & mfids & dids & HSD) HF _].
  destruct (big_entry_of_content s id V ids HB Hsi) as (e & He & Hbe & Hc).
  destruct (big_owned s r rids mfids dids id e ids (proj1 HSD) He Hbe Hc) as [Hown Hcov].
  pose proof Hbe as [Ht Hbig].
  pose proof (ids_nonempty s ids _ Hbig Hcov) as Hne.
  pose proof (path_hd_start _ _ _ (WalkProofs.chain_ids_path _ _ _ Hc)) as Hhd.
  assert (Hnl0 : 0 < new_len) by lia.
  destruct (ceil_props (slen s) new_len Hsp Hnl0) as [Hc1 Hc2]. rewrite <- Hcount in Hc1, Hc2.
  set (nw := seqN (nsect s) k) in *.
  assert (Hlnw : lenN nw = N.of_nat k) by (unfold nw; apply lenN_seqN).
  destruct (grow_append_ready s r rids mfids dids id e ids k HCD HSD He Hbe Hc Hfree Hreg Hsize Hmod)
    as (s1 & Hgrow & BR1 & Fr1 & N1).
  fold nw in Hgrow, BR1.
  destruct (zero_fill_ready s s1 r rids mfids dids id (ids ++ nw) nw (d_len e)
              (N.min new_len (slen s * lenN ids)) BR1)
    as (s2 & Hz & BR2 & F2 & N2 & _).
  { rewrite lenN_app. nia. }
  destruct (big_finish_cohdata' s s2 r rids mfids dids id e (ids ++ nw) nw new_len HCD HSD He Hbe BR2)
    as (s' & Eu & HCD' & _ & _ & Ho & F' & N' & _ & HTP').
  { rewrite (SA.hd_app_ne ids nw END_OF_CHAIN Hne). symmetry. exact Hhd. }
  { intro Hin. apply In_seqN in Hin.
    assert (Hs : In (d_start e) ids) by (rewrite Hhd; destruct ids; [contradiction|left; reflexivity]).
    pose proof (proj2 (proj2 (Hown _ Hs))). lia. }
  { lia. }
  { rewrite lenN_app, Hlnw. exact Hc1. }
  { exact Hlen. }
  assert (R : resize id new_len s = (s', Ok tt)).
  { eapply (resize_big_run s s1 s2 id e ids (ids ++ nw));
      [exact He|exact Hbe|exact Hc|exact Hcov| |exact Hz| |exact Eu| |exact Hmax|exact Hlen].
    - rewrite chain_set_len_grow; [|apply two64_room; exact Hmax|exact Hnl0|cbn [c_ids]; nia].
      cbn [c_ids]. rewrite <- Hcount.
      replace (N.to_nat (lenN ids + N.of_nat k - lenN ids)) with k by lia.
      exact Hgrow.
    - rewrite SA.chain_start_hd, (SA.hd_app_ne ids nw END_OF_CHAIN Hne). symmetry. exact Hhd.
    - lia. }
  destruct (ch_fat s HC) as [[_ _ _ _ Clt] Clen _ _].
  destruct (resize_big_grow_zero_append s id V ids new_len k HB Hsi
              (aw_store s (SD_allwf _ _ _ _ _ HSD)) Hfree Clen Clt Hgt Hcount ltac:(lia) Hmod Hmax Hlen)
    as (s'' & R'' & HB'' & Hsi'' & _).
  assert (s'' = s') by congruence. subst s''.
  exists s'. split; [exact R|]. split; [exact HCD'|].
  split; [exact (cohdata'_reopens s' HCD')|].
  split; [exact (big_content_same_store s' (reopened s') (same_store_reopened s') _ _ HB'')|].
  split; [exact HB''|]. split; [exact Hsi''|]. split; [congruence|]. split; [congruence|]. split; [exact Ho|exact HTP'].
Qed.


(* ================================================================== *)
(* 3. removing a stream that has data                                  *)
(* ================================================================== *)

(* remove_dir_entry on a file that holds data (PersistProofs.remove_entry_pinv
   without the hypothesis that the free stack is empty) *)
Lemma remove_entry_coh : forall s s' names id0 e0 nm pid,
  Coherent s ->
  (forall dids mids, DirCoherence.dir_ids s dids -> DirCoherence.minifat_ids s mids -> avoids dids mids) ->
  TreePart s ->
  lookup_chain (dirs s) names ROOT_STREAM_ID = Ok (Some id0) ->
  nthN (dirs s) id0 = Some e0 -> d_type e0 <> TUnalloc ->
  lastN names = Some nm ->
  lookup_chain (dirs s) (pop_last names) ROOT_STREAM_ID = Ok (Some pid) ->
  remove_dir_entry pid nm s = (s', Ok tt) ->
  TreeInv (dirs s') ->
  Coherent s' /\ TreePart s' /\
  nthN (dirs s') id0 = Some dirent_unallocated /\ id0 <> ROOT_STREAM_ID /\
  (forall i e, i <> id0 -> nthN (dirs s) i = Some e ->
     exists e', nthN (dirs s') i = Some e' /\ same_payload e e') /\
  exists dids, DirCoherence.dir_ids s dids /\ dframe dids s s'.
Proof.
  intros s s' names id0 e0 nm pid HC Hdm [Hents Hroot Htree] Hlk He0 Ht0 Hlast Hlkp H Htree'.
  destruct (coherent_DH s HC) as (dids & HD).
  destruct (dstep_remove_dir_entry dids pid nm s s' tt HD H) as [HD' F].
  pose proof F as (F1 & _ & _ & _ & _ & _ & _ & F8 & _).
  pose proof HD as (Hdids & _).
  (* the table *)
  destruct (remove_proj _ _ _ _ _ H)
    as (p & path & x & e & pp & pred & Hp & Hrf & Hlastp & He & Hc & Hx0 & Hfp & Hds).
  assert (Hfind : find_in_siblings (S (length (dirs s))) (dirs s) nm (d_child p) = Ok (Some id0)).
  { rewrite (TreeProofs.lastN_some _ _ _ Hlast), MutRefine.lookup_chain_app, Hlkp in Hlk.
    cbn [rbind lookup_chain] in Hlk. unfold dir_entry_of in Hlk. rewrite Hp in Hlk. cbn [rbind] in Hlk.
    destruct (find_in_siblings (S (length (dirs s))) (dirs s) nm (d_child p)) as [r| | |];
      try discriminate Hlk. cbn [rbind] in Hlk.
    destruct r as [cid|]; [|discriminate Hlk]. injection Hlk as ->. reflexivity. }
  pose proof (find_remove_same _ _ _ _ _ _ _ Hfind Hrf) as Hx.
  assert (x = id0) by congruence. subst x. assert (e = e0) by congruence. subst e.
  destruct (remove_find_sib _ _ _ _ _ _ Hrf) as (x' & Hl' & HxN & HcN & Hsib).
  assert (x' = id0) by congruence. subst x'.
  destruct (RootT_of_OK s Hroot) as (L & HRT & HL).
  assert (Hp_ok : ent_ok (ver s) p).
  { rewrite Forall_forall in Hents. apply Hents. eapply nthN_In. exact Hp. }
  assert (He_ok : ent_ok (ver s) e0).
  { rewrite Forall_forall in Hents. apply Hents. eapply nthN_In. exact He0. }
  assert (HT' : TOK (ver s) L (dirs s')).
  { rewrite Hds. apply (remove_tbl_ok _ _ _ _ _ _ _ _ _ p); try assumption.
    - split; assumption.
    - destruct He_ok as (_ & Hb & _). apply Hb. exact Ht0.
    - intros Hs. destruct Hp_ok as (W & _). destruct (CodecProofs.wf_stream _ _ W Hs) as (Hch & _).
      contradiction.
    - intros sib Hs. rewrite Hs in Hsib. destruct Hsib as [[Hn _]|(sib' & se & Hs' & Hse & Hl)].
      + discriminate Hn.
      + injection Hs' as <-. exists se. auto. }
  assert (Hents' : Forall (ent_ok (ver s')) (dirs s')) by (rewrite F1; apply HT').
  assert (Hroot' : RootOK s') by (eapply RootOK_of_T; [exact Hroot|exact HL|apply HT'|exact F8]).
  split; [|split; [constructor; assumption|]].
  - apply Coherent_split. apply Coherent_split in HC. destruct HC as [C [D1 D2 D3 D4]]. split.
    + eapply (core_dframe dids); [exact C|exact F| |].
      * eapply chain_avoids_difat; [exact C|exact Hdids].
      * intros mids Hm. exact (Hdm dids mids Hdids Hm).
    + destruct Hroot' as (root & Hr & R1 & R2 & R3 & R4). constructor.
      * eapply DirCoherence.remove_dir_entry_coherent; eassumption.
      * intros e He'. rewrite Forall_forall in Hents'. apply (Hents' e He').
      * apply tree_validates; [exact Htree'|eapply ents_AllBlack; exact Hents'|]. exists root. auto.
      * intros root' Hr'. change ROOT_STREAM_ID with 0 in Hr.
        assert (root' = root) by congruence. subst root'. exact R4.
  - assert (Hun : nthN (dirs s') id0 = Some dirent_unallocated)
      by (rewrite Hds; apply remove_tbl_x; exact He0).
    split; [exact Hun|]. split; [exact Hx0|]. split; [|exists dids; split; assumption].
    destruct (remove_ids_stable_raw _ _ _ _ _ H) as (x2 & ex & Hx2 & _ & _ & _ & Hx2' & _ & Hst).
    assert (x2 = id0).
    { destruct (N.eq_dec x2 id0) as [E|Hne]; [exact E|exfalso].
      destruct (Hst id0 e0 ltac:(congruence) He0) as (e' & He' & (_ & Pt & _) & _).
      rewrite Hun in He'. injection He' as <-. apply Ht0. rewrite <- Pt. reflexivity. }
    subst x2. intros i e Hi He1. destruct (Hst i e Hi He1) as (e' & He' & P & _). exists e'. auto.
Qed.

Lemma dframe_same_shape : forall X s s', dframe X s s' -> same_shape s s'.
Proof.
  intros X s s' (F1 & F2 & F3 & F4 & F5 & F6 & F7 & F8 & F9 & F10 & F11 & F12 & F13 & F14 & F15).
  unfold same_shape. repeat split; assumption.
Qed.

(* the slot of the stream under work is cleared and the other entries keep
   their payload (name, type, start, length): the structural invariant holds
   for the whole table again *)
Lemma swfx_payload : forall s s' r rids mfids dids id dd,
  SA.SWfX_at s r rids mfids dids (SA.Xid id) ->
  dframe dd s s' ->
  nthN (dirs s') id = Some dirent_unallocated -> id <> ROOT_STREAM_ID ->
  (forall i e, i <> id -> nthN (dirs s) i = Some e ->
     exists e', nthN (dirs s') i = Some e' /\ same_payload e e') ->
  exists r', nthN (dirs s') ROOT_STREAM_ID = Some r' /\ same_payload r r' /\
             SA.SWfX_at s' r' rids mfids dids SA.noX.
Proof.
  intros s s' r rids mfids dids id dd SW F Hid Hidr Hfwd.
  pose proof (SA.sw_m _ _ _ _ _ _ SW) as W.
  pose proof (dframe_same_shape _ _ _ F) as Hsh.
  pose proof (same_shape_slen _ _ Hsh) as Hsl.
  pose proof F as (F1 & F2 & F3 & F4 & F5 & F6 & F7 & F8 & F9 & F10 & F11 & F12 & F13 & F14 & F15).
  assert (Hback : forall i e', i <> id -> nthN (dirs s') i = Some e' ->
            exists e, nthN (dirs s) i = Some e /\ same_payload e e').
  { intros i e' Hi He'. pose proof (nthN_Some_lt _ _ _ _ He') as Hlt. rewrite F15 in Hlt.
    destruct (WalkProofs.nthN_lt_Some (dirs s) i Hlt) as [e He].
    destruct (Hfwd i e Hi He) as (e'' & He'' & P). assert (e'' = e') by congruence. subst e''.
    exists e. auto. }
  destruct (Hfwd ROOT_STREAM_ID r ltac:(congruence) (SA.mw_root _ _ _ _ _ W)) as (r' & Hr' & Pr).
  pose proof Pr as (Rn & Rt & Rs & Rl & _).
  assert (Hstream : forall i e', nthN (dirs s') i = Some e' -> d_type e' = TStream ->
            i <> id /\ exists e, nthN (dirs s) i = Some e /\ same_payload e e').
  { intros i e' He' Ht'. assert (Hi : i <> id).
    { intros ->. rewrite Hid in He'. injection He' as <-. discriminate Ht'. }
    split; [exact Hi|exact (Hback i e' Hi He')]. }
  assert (W' : SA.MWf_at s' r' rids mfids dids).
  { apply (SA.MWf_transfer s s' r r' rids mfids dids W Hsh F15).
    - intros j e He. destruct (N.eq_dec j id) as [->|Hj].
      + rewrite Hid in He. injection He as <-. vm_compute. discriminate.
      + destruct (Hback j e Hj He) as (e0 & He0 & (Pn & _)). rewrite Pn. eapply SA.mw_names; eassumption.
    - exact Hr'.
    - rewrite Rt. apply W.
    - exact Rs.
    - rewrite Rl, F8. apply W.
    - rewrite F8. apply W.
    - rewrite F8. apply W.
    - rewrite F8. apply W.
    - rewrite F10. apply W.
    - rewrite F8, F10. apply W. }
  exists r'. split; [exact Hr'|]. split; [exact Pr|].
  assert (HnX : forall j, j <> id -> ~ SA.Xid id j) by (intros j Hj E; exact (Hj E)).
  constructor.
  - exact W'.
  - eapply AllocWf_shape; [apply SW|exact Hsh].
  - rewrite F2. apply SW.
  - rewrite F6. apply SW.
  - intros x Hx. rewrite F6, F4. exact (SA.sw_sys _ _ _ _ _ _ SW x Hx).
  - intros x Hx. rewrite F6 in Hx. rewrite F4. exact (SA.sw_fdifat _ _ _ _ _ _ SW x Hx).
  - intros j ej _ Hej (Tj & Pj & Cj).
    destruct (Hstream j ej Hej Tj) as (Hj & e0 & He0 & (_ & Pt & Ps & Pl & _)).
    rewrite F8, Ps, Pl.
    apply (SA.sw_small _ _ _ _ _ _ SW j e0 (HnX j Hj) He0).
    unfold SA.small_entry. rewrite <- Pt, <- Pl. auto.
  - intros j1 j2 e1 e2 m1 m2 _ _ Hne He1 (T1 & P1 & C1) Hc1 He2 (T2 & P2 & C2) Hc2.
    destruct (Hstream j1 e1 He1 T1) as (Hj1 & a & Ha & (_ & At & As & Al & _)).
    destruct (Hstream j2 e2 He2 T2) as (Hj2 & b & Hb & (_ & Bt & Bs & Bl & _)).
    rewrite F8, As in Hc1. rewrite F8, Bs in Hc2.
    apply (SA.sw_disj _ _ _ _ _ _ SW j1 j2 a b m1 m2 (HnX j1 Hj1) (HnX j2 Hj2) Hne Ha); try assumption;
      unfold SA.small_entry; rewrite <- ?At, <- ?Al, <- ?Bt, <- ?Bl; auto.
  - intros j ej _ Hej (Tj & Cj).
    destruct (Hstream j ej Hej Tj) as (Hj & e0 & He0 & (_ & Pt & Ps & Pl & _)).
    rewrite F5, Hsl, F2, Ps, Pl.
    apply (SA.sw_bigchain _ _ _ _ _ _ SW j e0 (HnX j Hj) He0).
    unfold SA.big_entry. rewrite <- Pt, <- Pl. auto.
  - intros j ej l _ Hej (Tj & Cj) Hcl.
    destruct (Hstream j ej Hej Tj) as (Hj & e0 & He0 & (_ & Pt & Ps & Pl & _)).
    rewrite F5, Ps in Hcl. rewrite F6, F4.
    apply (SA.sw_big _ _ _ _ _ _ SW j e0 l (HnX j Hj) He0); [|exact Hcl].
    unfold SA.big_entry. rewrite <- Pt, <- Pl. auto.
  - intros j1 j2 e1 e2 l1 l2 _ _ Hne He1 (T1 & C1) Hc1 He2 (T2 & C2) Hc2.
    destruct (Hstream j1 e1 He1 T1) as (Hj1 & a & Ha & (_ & At & As & Al & _)).
    destruct (Hstream j2 e2 He2 T2) as (Hj2 & b & Hb & (_ & Bt & Bs & Bl & _)).
    rewrite F5, As in Hc1. rewrite F5, Bs in Hc2.
    apply (SA.sw_bigdisj _ _ _ _ _ _ SW j1 j2 a b l1 l2 (HnX j1 Hj1) (HnX j2 Hj2) Hne Ha); try assumption;
      unfold SA.big_entry; rewrite <- ?At, <- ?Al, <- ?Bt, <- ?Bl; auto.
Qed.

(* ... and every other stream keeps its bytes *)
Lemma others_payload : forall s s' r r' rids mfids dids id,
  SA.SWfX_at s r rids mfids dids (SA.Xid id) -> SA.SWfX_at s' r' rids mfids dids SA.noX ->
  dframe dids s s' ->
  (forall i e, i <> id -> nthN (dirs s) i = Some e ->
     exists e', nthN (dirs s') i = Some e' /\ same_payload e e') ->
  SA.others_kept s s' id.
Proof.
  intros s s' r r' rids mfids dids id SW SW' F Hfwd.
  pose proof (SA.sw_m _ _ _ _ _ _ SW) as W. pose proof (SA.sw_m _ _ _ _ _ _ SW') as W'.
  pose proof (dframe_same_shape _ _ _ F) as Hsh.
  pose proof (same_shape_slen _ _ Hsh) as Hsl.
  pose proof F as (F1 & F2 & F3 & F4 & F5 & F6 & F7 & F8 & F9 & F10 & F11 & F12 & F13 & F14 & F15).
  assert (Hrbytes : forall x, In x rids -> sector_bytes s' x = sector_bytes s x).
  { intros x Hx. apply F13. exact (SA.mw_rd _ _ _ _ _ W x Hx). }
  split; [|split].
  - intros id' V' Hne Hsc.
    destruct (SA.small_content_at _ _ _ _ _ _ _ W Hsc) as (e1 & m1 & Hs1).
    destruct Hs1 as (Hn1 & Ht1 & Hcut1 & Hpos1 & Hch1 & Hgm1 & Hle1 & HV1).
    destruct (Hfwd id' e1 Hne Hn1) as (e1' & Hn1' & (_ & Pt & Ps & Pl & _)).
    exists e1', rids, m1. unfold small_at. rewrite Pt, Ps, Pl, F8. splits; try assumption.
    + apply (SA.good_mchain_of_path s' r' rids mfids dids (d_start e1) m1 W').
      rewrite F8. apply WalkProofs.chain_ids_path. exact Hch1.
    + rewrite HV1. f_equal. symmetry. apply SA.mchain_content_ext. intros ms _.
      apply SA.mini_bytes_ext. exact Hrbytes.
  - intros id' V' Hne (e2 & l2 & He2 & Ht2 & Hcut2 & Hc2 & Hg2 & Hle2 & HV2).
    destruct (Hfwd id' e2 Hne He2) as (e2' & He2' & (_ & Pt & Ps & Pl & _)).
    exists e2', l2. rewrite Pt, Ps, Pl, F5, Hsl. splits; try assumption.
    + eapply good_chain_shape; eassumption.
    + rewrite HV2. f_equal. symmetry. apply chain_content_ext. intros x Hx. apply F13.
      destruct (SA.sw_big _ _ _ _ _ _ SW id' e2 l2 ltac:(intro E; exact (Hne E)) He2 (conj Ht2 Hcut2) Hc2 x Hx)
        as (_ & _ & S3 & _). exact S3.
  - intros id' Hne (e3 & Hn3 & Ht3 & Hst3 & Hl3).
    destruct (Hfwd id' e3 Hne Hn3) as (e3' & Hn3' & (_ & Pt & Ps & Pl & _)).
    exists e3'. unfold SA.empty_at. rewrite Pt, Ps, Pl. splits; assumption.
Qed.

(* the whole chain of a large stream is released *)
Lemma free_whole_ready : forall s r rids mfids dids id e ids,
  CohData' s -> SD s r rids mfids dids ->
  nthN (dirs s) id = Some e -> SA.big_entry e -> chain_ids_of (fat s) (d_start e) = Ok ids ->
  exists s1,
    free_chain (d_start e) s = (s1, Ok tt) /\
    Coherent s1 /\ FreeClean s1 /\ SA.SWfX_at s1 r rids mfids dids (SA.Xid id) /\
    SA.Q s1 = SA.Q s /\ SA.others_kept s s1 id /\ free s1 = free s ++ ids /\ nsect s1 = nsect s /\
    (forall y, y <= MAX_REGULAR_SECTOR -> unref (fat s) y -> unref (fat s1) y) /\
    (forall x, nthN (fat s1) x = Some FREE_SECTOR -> unref (fat s1) x).
Proof.
  intros s r rids mfids dids id e ids HCD [SW Hmd] He Hb Hc.
  pose proof HCD as [HC _ HF Hax].
  destruct (big_owned s r rids mfids dids id e ids SW He Hb Hc) as [Hown Hcov].
  pose proof (WalkProofs.chain_ids_path _ _ _ Hc) as Hp.
  destruct (SA.free_big_chain s r rids mfids dids id e ids SW He Hb Hc) as (s1 & Efree & SW1 & HQ & F1 & Ho1).
  pose proof Efree as Erun. unfold free_chain in Erun. rewrite bind_get in Erun.
  destruct (coherent_G s HC) as [HG HFc].
  destruct (ch_fat s HC) as [_ Clen _ _].
  pose proof (ch_nsect s HC) as Hns.
  destruct (free_chain_go_FR ids _ (d_start e) s s1 tt HG HFc (ch_fat_valid s HC)
              ltac:(rewrite Clen; lia) Hp ltac:(intros _; exact (ax_heads s Hax id e He Hb)) Erun)
    as (F & Efr & Hval1 & Hfreed & Hmono).
  destruct (owned_avoids _ _ _ _ _ _ Hown) as (Ad & Am & _).
  assert (HC1 : Coherent s1).
  { eapply (FR_coherent ids []); [exact HC|exact F| | | |exact Hval1].
    - exact (chain_avoids_difat s _ ids (proj1 (proj1 (Coherent_split s) HC)) Hc).
    - intros d Hd. rewrite (swfx_dir_ids _ _ _ _ _ _ _ SW Hd). split; [exact Ad|intros x []].
    - intros m Hm. rewrite (swfx_mini_ids _ _ _ _ _ _ _ SW Hm). split; [exact Am|intros x []]. }
  assert (Hfree_ids : forall x, In x (free s) -> ~ In x ids).
  { intros x Hx Hin. destruct (Hown x Hin) as (_ & Hnf & _). contradiction. }
  assert (Hn1 : nsect s1 = nsect s) by exact (fr_nsect _ _ _ _ F).
  exists s1. split; [exact Efree|]. split; [exact HC1|]. split.
  { destruct HF as [Hfnd HFx]. split.
    - rewrite Efr. apply NoDup_app_intro; [exact Hfnd|eapply path_nodup; exact Hp|exact Hfree_ids].
    - intros x Hx. rewrite Efr in Hx. rewrite Hn1. apply in_app_or in Hx. destruct Hx as [Hx|Hx].
      + destruct (HFx x Hx) as (A & B & Cc). split; [exact A|]. split.
        * rewrite (fr_cells _ _ _ _ F); [exact B|exact (Hfree_ids x Hx)].
        * apply unref_regs; [lia|]. apply Hmono; [lia|]. apply unref_regs; [lia|exact Cc].
      + destruct (Hfreed x Hx) as [A B]. pose proof (proj2 (proj2 (Hown x Hx))) as Hxn.
        split; [exact Hxn|]. split; [exact A|]. apply unref_regs; [lia|exact B]. }
  split; [exact SW1|]. split; [exact HQ|]. split; [exact Ho1|]. split; [exact Efr|].
  split; [exact Hn1|]. split; [exact Hmono|].
  intros x Hx. destruct (in_dec N.eq_dec x ids) as [Hin|Hout]; [exact (proj2 (Hfreed x Hin))|].
  pose proof (nthN_Some_lt _ _ _ _ Hx) as Hxl. rewrite (fr_len _ _ _ _ F), Clen in Hxl.
  apply Hmono; [lia|]. apply (ax_free s Hax). rewrite <- (fr_cells _ _ _ _ F); [exact Hx|exact Hout].
Qed.

Lemma TreePart_same_dirs : forall s s1,
  TreePart s -> dirs s1 = dirs s -> ver s1 = ver s -> minifat s1 = minifat s -> TreePart s1.
Proof.
  intros s s1 [A B C] Hd Hv Hm. constructor.
  - rewrite Hd, Hv. exact A.
  - unfold RootOK in *. rewrite Hd, Hm. exact B.
  - rewrite Hd. exact C.
Qed.

(* ---- item 3 (large): api_remove_stream on a large stream.  Its chain goes
        to the free stack (FAT cells FREE on disk and in the cache), its entry
        is unlinked and cleared; the invariant, tree part included, holds
        again; every other stream keeps its bytes ---- *)
Theorem remove_big_stream_cohtree : forall p s s' id e,
  CohTree s -> api_remove_stream p s = (s', Ok tt) ->
  MutRefine.id_of_path s p = Some id -> nthN (dirs s) id = Some e ->
  MINI_STREAM_CUTOFF <= d_len e ->
  CohTree s' /\
  (forall strict, open_model strict (concat_img (img s')) = Ok (reopened s')) /\
  nthN (dirs s') id = Some dirent_unallocated /\ SA.others_kept s s' id /\
  (exists ids, chain_ids_of (fat s) (d_start e) = Ok ids /\ free s' = free s ++ ids) /\
  nsect s' = nsect s.
Proof.
  intros p s s' id e [HCD HTP] H Hidp He Hbig.
  pose proof HCD as [HC (r & rids & mfids & dids & HSD) HF Hax].
  pose proof HTP as [_ _ (t & HT & HU)].
  destruct (MutRefine.remove_stream_refines ctrue ctrue p 0 s s' t HT HU (fun _ _ _ c => c) H)
    as (t' & _ & HT' & HU').
  unfold api_remove_stream, remove_stream_names in H.
  destruct (MutRefine.names_lookup_inv _ _ _ _ _ _ H) as (names & r0 & En & Hlk & HK).
  destruct r0 as [id0|]; [|discriminate HK].
  assert (id0 = id).
  { unfold MutRefine.id_of_path in Hidp. rewrite En, Hlk in Hidp. congruence. }
  subst id0.
  binv HK e1 s0 H1 H2. apply dir_entry_inv in H1. destruct H1 as [-> He1].
  assert (e1 = e) by congruence. subst e1.
  destruct (objtype_eqb (d_type e) TStream) eqn:T1; cbn [negb] in H2; [|discriminate H2].
  destruct (d_child e =? NO_STREAM) eqn:Ch; cbn [negb] in H2; [|discriminate H2].
  apply objtype_eqb_true in T1.
  destruct (d_len e <? MINI_STREAM_CUTOFF) eqn:Ecut; [lia|].
  binv H2 u1 s1 H1 H2.
  assert (Hbe : SA.big_entry e) by (split; assumption).
  destruct (SA.sw_bigchain _ _ _ _ _ _ (proj1 HSD) id e (SA.noX_not _) He Hbe) as (ids & Hc & _).
  destruct (free_whole_ready s r rids mfids dids id e ids HCD HSD He Hbe Hc)
    as (s1' & Efree & HC1 & HF1 & SW1 & HQ1 & Ho1 & Fr1 & N1 & Hmono & Hfu1).
  destruct u1. rewrite H1 in Efree. injection Efree as <-.
  destruct (SA.Q_fields s s1 HQ1) as (Hmf1 & Hmfr1 & _ & Hd1 & _ & Hv1 & _).
  destruct (lastN names) as [nm|] eqn:Hlast; [|discriminate H2].
  destruct (MutRefine.lookup_inv _ _ _ _ _ _ H2) as (pr & Hlkp & H3). clear H2.
  destruct pr as [pid|]; [|discriminate H3].
  pose proof (TreePart_same_dirs s s1 HTP Hd1 Hv1 Hmf1) as HTP1.
  destruct (remove_entry_coh s1 s' names id e nm pid HC1) as (HC' & HTP' & Hun & Hidr & Hst & dd & Hdd & F);
    try assumption.
  { intros d m Hd Hm. rewrite (swfx_dir_ids _ _ _ _ _ _ _ SW1 Hd), (swfx_mini_ids _ _ _ _ _ _ _ SW1 Hm).
    apply avoids_sym. exact (proj2 HSD). }
  { rewrite Hd1. exact Hlk. }
  { rewrite Hd1. exact He. }
  { rewrite T1. discriminate. }
  { exists t'. split; assumption. }
  assert (dd = dids) by exact (swfx_dir_ids _ _ _ _ _ _ _ SW1 Hdd). subst dd.
  destruct (swfx_payload s1 s' r rids mfids dids id dids SW1 F Hun Hidr Hst) as (r' & Hr' & Pr & SW').
  pose proof (others_payload s1 s' r r' rids mfids dids id SW1 SW' F Hst) as Ho2.
  pose proof F as (F1 & F2 & F3 & F4 & F5 & F6 & F7 & F8 & F9 & F10 & _).
  assert (HCD' : CohData' s').
  { constructor.
    - exact HC'.
    - exists r', rids, mfids, dids. split; [exact SW'|exact (proj2 HSD)].
    - apply (FreeClean_transfer s1); assumption.
    - assert (Hback : forall j ej, nthN (dirs s') j = Some ej -> d_type ej = TStream ->
                exists e0, nthN (dirs s) j = Some e0 /\ same_payload e0 ej).
      { intros j ej Hej Tj. assert (Hj : j <> id).
        { intros ->. rewrite Hun in Hej. injection Hej as <-. discriminate Tj. }
        pose proof (nthN_Some_lt _ _ _ _ Hej) as Hlt.
        destruct F as (_ & _ & _ & _ & _ & _ & _ & _ & _ & _ & _ & _ & _ & _ & F15).
        rewrite F15 in Hlt. destruct (WalkProofs.nthN_lt_Some (dirs s1) j Hlt) as [e0 He0].
        destruct (Hst j e0 Hj He0) as (e0' & He0' & P). assert (e0' = ej) by congruence. subst e0'.
        exists e0. rewrite <- Hd1. auto. }
      constructor.
      + rewrite F5. exact Hfu1.
      + intros j ej Hej [Tj Cj]. destruct (Hback j ej Hej Tj) as (e0 & He0 & (_ & Pt & Ps & Pl & _)).
        rewrite F5, Ps.
        assert (Hb0 : SA.big_entry e0) by (unfold SA.big_entry; rewrite <- Pt, <- Pl; auto).
        apply Hmono; [|exact (ax_heads s Hax j e0 He0 Hb0)].
        destruct (SA.sw_bigchain _ _ _ _ _ _ (proj1 HSD) j e0 (SA.noX_not _) He0 Hb0) as (l & Hcl & Hcov & _).
        exact (coh_member_regular s _ l _ HC (WalkProofs.chain_ids_path _ _ _ Hcl) (big_head_in s e0 l Hb0 Hcl Hcov)).
      + rewrite F8, Hmf1. exact (ax_mfree s Hax).
      + intros j ej Hej (Tj & Pj & Cj). destruct (Hback j ej Hej Tj) as (e0 & He0 & (_ & Pt & Ps & Pl & _)).
        rewrite F8, Hmf1, Ps. apply (ax_mheads s Hax j e0 He0).
        unfold SA.small_entry. rewrite <- Pt, <- Pl. auto. }
  split; [split; assumption|]. split; [exact (cohdata'_reopens s' HCD')|]. split; [exact Hun|].
  split; [exact (SA.others_kept_trans _ _ _ _ Ho1 Ho2)|].
  split; [exists ids; split; [exact Hc|congruence]|congruence].
Qed.


(* ================================================================== *)
(* 4. the mini level: Coherent = CoreNM + the directory + the MiniFAT  *)
(* ================================================================== *)

(* everything in [Coherent] that mentions neither the directory nor the MiniFAT *)
Record CoreNM (s : cstate) : Prop := mkCoreNM {
  nm_hdr : HeaderCoherent s;
  nm_fat : CoherenceProofs.FatInv s;
  nm_difat_ok : CoherenceProofs.DifatOk s;
  nm_ids : difat_ids s = [];
  nm_ndifat : lenN (difat s) <= NUM_DIFAT_HDR;
  nm_nsect : nsect s <= MAX_REGULAR_SECTOR;
  nm_uniform : uniform (slen s) (img s);
  nm_fat_tail : FatTailFree s;
  nm_marks : forall f, In f (difat s) -> nthN (fat s) f = Some FAT_SECTOR;
  nm_fat_valid : check_pointees false (fat s) (lenN (fat s)) [] = Ok tt
}.

Lemma Coherent_CoreNM : forall s, Coherent s -> CoreNM s.
Proof. intros s [H1 H2 H3 H4 H5 H6 H7 H8 H9 H10 _ _ _ _ _ _ _ _]. constructor; assumption. Qed.

(* a step that rewrites sectors of X only and leaves the FAT-level fields
   alone; it may change the cached directory, MiniFAT and mini free list *)
Definition frameM (X : list N) (s s' : cstate) : Prop :=
  ver s' = ver s /\ nsect s' = nsect s /\ difat_ids s' = difat_ids s /\ difat s' = difat s /\
  fat s' = fat s /\ free s' = free s /\ dir_start s' = dir_start s /\
  minifat_start s' = minifat_start s /\
  lenN (img s') = lenN (img s) /\ hd [] (img s') = hd [] (img s) /\
  (forall x, ~ In x X -> sector_bytes s' x = sector_bytes s x) /\
  (forall x, lenN (sector_bytes s' x) = lenN (sector_bytes s x)).

Lemma frameM_refl : forall X s, frameM X s s.
Proof. intros. unfold frameM. repeat split; reflexivity. Qed.

Lemma frameM_trans : forall X a b c, frameM X a b -> frameM X b c -> frameM X a c.
Proof.
  intros X a b c (A1 & A2 & A3 & A4 & A5 & A6 & A7 & A8 & A9 & A10 & A11 & A12)
                 (B1 & B2 & B3 & B4 & B5 & B6 & B7 & B8 & B9 & B10 & B11 & B12).
  unfold frameM. repeat split; try congruence.
  all: try (intros x Hx; rewrite (B11 x Hx); apply A11; exact Hx).
  all: try (intros x; rewrite B12; apply A12).
Qed.

Lemma frameM_weaken : forall X Y s s', (forall x, In x X -> In x Y) -> frameM X s s' -> frameM Y s s'.
Proof.
  intros X Y s s' Hsub (A1 & A2 & A3 & A4 & A5 & A6 & A7 & A8 & A9 & A10 & A11 & A12).
  unfold frameM. repeat split; try assumption.
  intros x Hx. apply A11. intro Hin. apply Hx. apply Hsub. exact Hin.
Qed.

Lemma dframe_frameM : forall X s s', dframe X s s' -> frameM X s s'.
Proof.
  intros X s s' (F1 & F2 & F3 & F4 & F5 & F6 & F7 & F8 & F9 & F10 & F11 & F12 & F13 & F14 & F15).
  unfold frameM. repeat split; assumption.
Qed.

Lemma frameM_slen : forall X s s', frameM X s s' -> slen s' = slen s.
Proof. intros X s s' (H & _). unfold slen. rewrite H. reflexivity. Qed.

Lemma good_chain_frameM : forall X s s' ids, frameM X s s' -> good_chain s ids -> good_chain s' ids.
Proof.
  intros X s s' ids F (Hnd & HF & Hi & Hp).
  pose proof (frameM_slen _ _ _ F) as Hsl.
  destruct F as (_ & F2 & _ & _ & _ & _ & _ & _ & F9 & _ & _ & F12).
  split; [exact Hnd|]. split; [|split; [congruence|rewrite Hsl; exact Hp]].
  rewrite Forall_forall in *. intros x Hx. destruct (HF x Hx) as [A B].
  rewrite F2, Hsl, F12. split; assumption.
Qed.

Theorem CoreNM_frame : forall X s s',
  CoreNM s -> frameM X s s' -> avoids X (difat s) -> CoreNM s'.
Proof.
  intros X s s' B F Hfatdisj.
  pose proof (frameM_slen _ _ _ F) as Hsl.
  pose proof F as (F1 & F2 & F3 & F4 & F5 & F7 & F7' & F9 & F11 & F12 & F13 & F14).
  destruct B as [Bh Bf Bd Bi Bn Bs Bu Bt Bm Bv].
  pose proof Bf as [[Ci Cfull Ccoh Cnd Clt] Clen Cpos Ctight].
  assert (Hfps : fat_per_sector s' = fat_per_sector s) by (unfold fat_per_sector; rewrite Hsl; reflexivity).
  assert (HfatS : forall f, In f (difat s) -> sector_bytes s' f = sector_bytes s f).
  { intros f Hf. apply F13. intro Hin. exact (Hfatdisj f Hin Hf). }
  constructor.
  - unfold HeaderCoherent in *. rewrite F12, Bh. f_equal. symmetry.
    unfold header_of. rewrite F1, F4, F5, F7', F9, F3. reflexivity.
  - constructor; [constructor|..].
    + rewrite F11, F2. exact Ci.
    + intros x Hx. rewrite F14, Hsl. apply Cfull. rewrite <- F2. exact Hx.
    + apply (CoherenceProofs.coherent_frame s); try assumption; [rewrite F2; lia|].
      intros f Hf _ _. apply HfatS. exact Hf.
    + rewrite F4. exact Cnd.
    + intros f Hf. rewrite F4 in Hf. rewrite F2. apply Clt. exact Hf.
    + rewrite F5, F2. exact Clen.
    + rewrite F2. exact Cpos.
    + rewrite F4, F5, Hfps. exact Ctight.
  - intros d Hd. rewrite F3 in Hd. rewrite F2, F4. apply Bd. exact Hd.
  - congruence.
  - rewrite F4. exact Bn.
  - rewrite F2. exact Bs.
  - destruct (uniform_parts s (slen s) Ci Bu) as [Uh Us].
    rewrite Hsl. apply uniform_of_parts.
    + rewrite F11, F2. exact Ci.
    + rewrite F12. exact Uh.
    + intros x Hx. rewrite F14. apply Us. rewrite <- F2. exact Hx.
  - intros k f m Hk Hm Hge. rewrite F4 in Hk. rewrite Hfps in Hm, Hge. rewrite F5 in Hge.
    rewrite (HfatS f (nthN_In _ _ _ _ Hk)). exact (Bt k f m Hk Hm Hge).
  - intros f Hf. rewrite F4 in Hf. rewrite F5. apply Bm. exact Hf.
  - rewrite F5. exact Bv.
Qed.

Theorem dir_frameM : forall X s s',
  DirCoherence.DirCoherent s -> frameM X s s' -> dirs s' = dirs s ->
  (forall dids, DirCoherence.dir_ids s dids -> avoids X dids) ->
  DirCoherence.DirCoherent s'.
Proof.
  intros X s s' (dids & H1 & H2 & H3 & H4 & H5) F Hd Hdisj.
  pose proof (frameM_slen _ _ _ F) as Hsl.
  pose proof F as (F1 & F2 & F3 & F4 & F5 & F7 & F7' & F9 & F11 & F12 & F13 & F14).
  assert (Hc : chain_content s' dids = chain_content s dids).
  { apply chain_content_same. intros x Hx. apply F13. intro Hin. exact (Hdisj dids H1 x Hin Hx). }
  exists dids. split; [unfold DirCoherence.dir_ids in *; rewrite F5, F7'; exact H1|].
  split; [eapply good_chain_frameM; eassumption|].
  rewrite Hd, Hsl. split; [exact H3|].
  unfold DirCoherence.slot_bytes in *. rewrite Hc. split; assumption.
Qed.

(* the MiniFAT chain after such a step *)
Lemma mini_ids_frameM : forall X s s' mids, frameM X s s' ->
  DirCoherence.minifat_ids s mids -> DirCoherence.minifat_ids s' mids.
Proof.
  intros X s s' mids (_ & _ & _ & _ & F5 & _ & _ & F9 & _) H.
  unfold DirCoherence.minifat_ids in *. rewrite F5, F9. exact H.
Qed.

(* Coherent, reassembled *)
Lemma Coherent_parts : forall s,
  CoreNM s -> DirCoherence.DirCoherent s ->
  (forall e, In e (dirs s) -> CodecProofs.dirent_wf (ver s) e) ->
  dir_validate true (dirs s) = Ok tt ->
  DirCoherence.MiniFatCoherent s -> MiniTailFree s -> lastN (minifat s) <> Some FREE_SECTOR ->
  (forall root, nthN (dirs s) 0 = Some root -> lenN (minifat s) <= d_len root / MINI_SECTOR_LEN) ->
  check_pointees true (minifat s) (lenN (minifat s)) [] = Ok tt ->
  Coherent s.
Proof.
  intros s [H1 H2 H3 H4 H5 H6 H7 H8 H9 H10] D1 D2 D3 M1 M2 M3 M4 M5. constructor; assumption.
Qed.

(* set_minifat, by inversion: 4 bytes of the MiniFAT chain and the cached cell *)
Lemma set_minifat_frame : forall s idx v s' mids,
  DirCoherence.minifat_ids s mids -> good_chain s mids ->
  set_minifat idx v s = (s', Ok tt) ->
  frameM mids s s' /\ dirs s' = dirs s /\ mfree s' = mfree s /\
  minifat s' = (if idx =? lenN (minifat s) then minifat s ++ [v] else updN (minifat s) idx v) /\
  idx <= lenN (minifat s) /\ 4 * idx + 4 <= slen s * lenN mids /\
  chain_content s' mids = spliceN (chain_content s mids) (4 * idx) (le_bytes 4 v).
Proof.
  intros s idx v s' mids Hids Hg H.
  unfold set_minifat in H. rewrite bind_get in H.
  destruct (lenN (minifat s) <? idx) eqn:E1; [discriminate H|].
  unfold DirCoherence.minifat_ids in Hids.
  rewrite (bind_exec _ _ _ _ _ (chain_new_exec s _ IFat mids Hids)) in H.
  unfold chain_len at 1 in H. cbn [c_ids] in H.
  destruct (slen s * lenN mids <? idx * 4 + 4) eqn:E2; [discriminate H|].
  destruct (chain_seek_spec s (mkChain IFat mids 0) (idx * 4)) as [Hseek _].
  rewrite (bind_exec _ _ _ _ _ (Hseek ltac:(unfold chain_len; cbn [c_ids]; lia))) in H.
  cbn [c_init c_ids] in H.
  destruct (chain_write_dframe s (mkChain IFat mids (idx * 4)) (le_bytes 4 v) Hg)
    as (s1 & Hw & F & Hd & Hc).
  { rewrite CodecProofs.lenN_le_bytes4. unfold chain_len. cbn [c_off c_ids]. lia. }
  cbn [c_init c_ids c_off] in *.
  rewrite (bind_exec _ _ _ _ _ Hw) in H. unfold modify in H. injection H as <-.
  pose proof F as (F1 & F2 & F3 & F4 & F5 & F6 & F7 & F8 & F9 & F10 & F11 & F12 & F13 & F14 & F15).
  split.
  { unfold frameM. cbn [ver nsect difat_ids difat fat free dir_start minifat_start img w_minifat].
    repeat split; assumption. }
  cbn [dirs mfree minifat w_minifat]. rewrite F8.
  split; [exact Hd|]. split; [exact F10|]. split; [reflexivity|]. split; [lia|]. split; [lia|].
  replace (4 * idx) with (idx * 4) by lia. exact Hc.
Qed.

Lemma cell_read_other : forall (C : list byte) idx v i,
  4 * idx + 4 <= lenN C -> i <> idx -> 4 * i + 4 <= lenN C ->
  takeN 4 (dropN (4 * i) (spliceN C (4 * idx) (le_bytes 4 v))) = takeN 4 (dropN (4 * i) C).
Proof.
  intros C idx v i Hx Hi Hr. pose proof (CodecProofs.lenN_le_bytes4 v) as HL4.
  destruct (N.lt_ge_cases i idx).
  - apply spliceN_read_before; blia.
  - apply spliceN_read_after; blia.
Qed.

(* the cells of the MiniFAT chain beyond the cached table after set_minifat *)
Lemma mini_tail_set : forall s s' mids idx v,
  good_chain s mids -> MiniTailFree s ->
  DirCoherence.minifat_ids s mids -> DirCoherence.minifat_ids s' mids ->
  slen s' = slen s -> idx <= lenN (minifat s) -> 4 * idx + 4 <= slen s * lenN mids ->
  lenN (minifat s) <= lenN (minifat s') -> idx < lenN (minifat s') ->
  chain_content s' mids = spliceN (chain_content s mids) (4 * idx) (le_bytes 4 v) ->
  MiniTailFree s'.
Proof.
  intros s s' mids idx v Hg Ht Hm Hm' Hsl Hidx Hcap Hlen Hlt Hc m' Hm2 i Hi Hfit.
  unfold DirCoherence.minifat_ids in *. rewrite Hm' in Hm2. injection Hm2 as <-.
  rewrite Hsl in Hfit. rewrite Hc.
  pose proof (good_chain_len _ _ Hg) as HCL.
  rewrite cell_read_other by (unfold byte in *; lia).
  apply (Ht mids Hm i); lia.
Qed.

(* [Coherent] without the clause "the cached MiniFAT does not end in a FREE
   cell", which free_mini_sector breaks between its write and its trim *)
Record CohM (s : cstate) : Prop := mkCohM {
  cm_core : CoreNM s;
  cm_dir : DirCoherence.DirCoherent s;
  cm_dir_wf : forall e, In e (dirs s) -> CodecProofs.dirent_wf (ver s) e;
  cm_dir_valid : dir_validate true (dirs s) = Ok tt;
  cm_mini : DirCoherence.MiniFatCoherent s;
  cm_mini_tail : MiniTailFree s;
  cm_fits : forall root, nthN (dirs s) 0 = Some root -> lenN (minifat s) <= d_len root / MINI_SECTOR_LEN;
  cm_mini_valid : check_pointees true (minifat s) (lenN (minifat s)) [] = Ok tt
}.

Lemma Coherent_CohM : forall s, Coherent s <-> CohM s /\ lastN (minifat s) <> Some FREE_SECTOR.
Proof.
  intro s. split.
  - intros HC. split; [|exact (ch_mini_last s HC)].
    pose proof (Coherent_CoreNM s HC) as C.
    destruct HC as [H1 H2 H3 H4 H5 H6 H7 H8 H9 H10 H11 H12 H13 H14 H15 H16 H17 H18].
    constructor; assumption.
  - intros [[C D1 D2 D3 M1 M2 M4 M5] M3]. apply Coherent_parts; assumption.
Qed.

Definition MD (s : cstate) : Prop :=
  forall dids mids, DirCoherence.dir_ids s dids -> DirCoherence.minifat_ids s mids -> avoids mids dids.

(* one cell of the MiniFAT is written (cache and disk) *)
Lemma set_minifat_cohm : forall s idx v s',
  CohM s -> MD s -> v < 2 ^ 32 ->
  set_minifat idx v s = (s', Ok tt) ->
  let mf' := (if idx =? lenN (minifat s) then minifat s ++ [v] else updN (minifat s) idx v) in
  check_pointees true mf' (lenN mf') [] = Ok tt ->
  (forall root, nthN (dirs s) 0 = Some root -> lenN mf' <= d_len root / MINI_SECTOR_LEN) ->
  CohM s' /\ minifat s' = mf' /\ dirs s' = dirs s /\ mfree s' = mfree s /\
  idx <= lenN (minifat s) /\
  exists mids, DirCoherence.minifat_ids s mids /\ frameM mids s s'.
Proof.
  intros s idx v s' [C D1 D2 D3 M1 M2 M4 M5] Hmd Hv H mf' Hval Hfits.
  pose proof M1 as (mids & Hids & Hg & Hcap & Hcells).
  destruct (set_minifat_frame s idx v s' mids Hids Hg H) as (F & Hd & Hmfr & Hmf & Hidx & Hcap' & Hc).
  destruct (DirCoherence.set_minifat_coherent s s' idx v M1 Hv H) as (M1' & _).
  pose proof (frameM_slen _ _ _ F) as Hsl.
  pose proof F as (F1 & _).
  fold mf' in Hmf.
  split; [|split; [exact Hmf|split; [exact Hd|split; [exact Hmfr|split; [exact Hidx|exists mids; split; assumption]]]]].
  constructor.
  - eapply (CoreNM_frame mids); [exact C|exact F|].
    intros x Hx. exact (chain_not_marked s _ mids x (nm_marks s C) Hids Hx).
  - eapply (dir_frameM mids); [exact D1|exact F|exact Hd|].
    intros dids Hdd. exact (Hmd dids mids Hdd Hids).
  - rewrite Hd, F1. exact D2.
  - rewrite Hd. exact D3.
  - exact M1'.
  - apply (mini_tail_set s s' mids idx v Hg M2 Hids (mini_ids_frameM _ _ _ _ F Hids) Hsl Hidx Hcap').
    + rewrite Hmf. unfold mf'. destruct (idx =? lenN (minifat s)); [rewrite lenN_app; lia|rewrite lenN_updN; lia].
    + rewrite Hmf. unfold mf'. destruct (idx =? lenN (minifat s)) eqn:E.
      * apply N.eqb_eq in E. rewrite lenN_app. cbn [lenN]. lia.
      * apply N.eqb_neq in E. rewrite lenN_updN. lia.
    + exact Hc.
  - rewrite Hd, Hmf. exact Hfits.
  - rewrite Hmf. exact Hval.
Qed.

(* the trailing FREE cells of the cached MiniFAT are dropped (nothing is written) *)
Lemma truncate_coherent : forall s mf' t fr,
  CohM s -> minifat s = mf' ++ t -> Forall (fun x => x = FREE_SECTOR) t ->
  (forall x, nthN (minifat s) x = Some FREE_SECTOR -> unref (minifat s) x) ->
  lastN mf' <> Some FREE_SECTOR ->
  Coherent (w_mfree (w_minifat s mf') fr).
Proof.
  intros s mf' t fr [C D1 D2 D3 M1 M2 M4 M5] E Ht Hun Hlast.
  set (s3 := w_mfree (w_minifat s mf') fr).
  assert (F : frameM [] s s3) by (unfold frameM, s3; repeat split; reflexivity).
  apply Coherent_parts.
  - eapply CoreNM_frame; [exact C|exact F|intros x []].
  - eapply dir_frameM; [exact D1|exact F|reflexivity|intros d _ x []].
  - exact D2.
  - exact D3.
  - eapply DirCoherence.minifat_truncate_coherent; eassumption.
  - intros mids Hm i Hi Hfit. cbn [s3 minifat w_mfree w_minifat] in Hi.
    change (chain_content s3 mids) with (chain_content s mids).
    change (slen s3) with (slen s) in Hfit.
    assert (Hm0 : DirCoherence.minifat_ids s mids) by exact Hm.
    destruct (N.lt_ge_cases i (lenN (minifat s))) as [Hlt|Hge].
    + destruct M1 as (mids0 & Hm1 & _ & _ & Hcells).
      assert (mids0 = mids) by (unfold DirCoherence.minifat_ids in *; congruence). subst mids0.
      apply Hcells. rewrite E. rewrite nthN_app_r by exact Hi.
      rewrite E, lenN_app in Hlt.
      destruct (WalkProofs.nthN_lt_Some t (i - lenN mf') ltac:(lia)) as [w Hw].
      rewrite Hw. f_equal. rewrite Forall_forall in Ht. apply Ht. eapply nthN_In. exact Hw.
    + exact (M2 mids Hm0 i Hge Hfit).
  - exact Hlast.
  - intros root Hr. cbn [s3 minifat dirs w_mfree w_minifat] in *. specialize (M4 root Hr).
    rewrite E, lenN_app in M4. lia.
  - cbn [s3 minifat w_mfree w_minifat].
    apply WalkProofs.check_pointees_spec in M5. destruct M5 as (P1 & P2 & _ & _).
    assert (Hregs : regs (minifat s) = regs mf').
    { rewrite E, regs_app. assert (regs t = []) as ->; [|apply app_nil_r].
      clear - Ht. induction t as [|a t IH]; [reflexivity|]. inversion Ht; subst.
      unfold WalkProofs.regs. cbn [filter]. destruct irregular_marks as [_ ->]. apply IH. assumption. }
    apply WalkProofs.check_pointees_spec. rewrite <- Hregs.
    split; [|split; [exact P2|split; [intros c _ []|discriminate]]].
    rewrite Forall_forall in P1. apply Forall_forall. intros c Hc. specialize (P1 c Hc).
    destruct (N.lt_ge_cases c (lenN mf')) as [Hlt|Hge]; [exact Hlt|exfalso].
    assert (Hcell : nthN (minifat s) c = Some FREE_SECTOR).
    { rewrite E. rewrite nthN_app_r by exact Hge. rewrite E, lenN_app in P1.
      destruct (WalkProofs.nthN_lt_Some t (c - lenN mf') ltac:(lia)) as [w Hw].
      rewrite Hw. f_equal. rewrite Forall_forall in Ht. apply Ht. eapply nthN_In. exact Hw. }
    rewrite Hregs in Hc. rewrite <- Hregs in Hc. unfold WalkProofs.regs in Hc. apply filter_In in Hc. destruct Hc as [Hin _].
    destruct (In_nthN' _ _ _ Hin) as [j Hj]. exact (Hun c Hcell j Hj).
Qed.

Lemma dir_validate_root_len : forall strict ds e e',
  nthN ds 0 = Some e -> nav_eq e e' ->
  d_len e mod MINI_SECTOR_LEN = 0 -> d_len e' mod MINI_SECTOR_LEN = 0 ->
  dir_validate strict (updN ds 0 e') = dir_validate strict ds.
Proof.
  intros strict ds e e' He Hn Hl Hl'. unfold dir_validate. destruct ds as [|root t]; [reflexivity|].
  cbn [nthN N.eqb] in He. injection He as ->.
  pose proof (tbl_nav_updN (e :: t) 0 e e' eq_refl Hn) as HT.
  cbn [updN N.eqb] in *. rewrite Hl, Hl'. cbn [N.eqb negb].
  cbn [length]. apply dir_dfs_nav. exact HT.
Qed.

(* the root entry gets a new start / length (the mini stream grows or shrinks) *)
Lemma root_len_coherent : forall s s' r st L,
  Coherent s -> MD s ->
  nthN (dirs s) ROOT_STREAM_ID = Some r ->
  st <= u32_max -> L <= stream_len_mask (ver s) -> L mod MINI_SECTOR_LEN = 0 ->
  lenN (minifat s) <= L / MINI_SECTOR_LEN ->
  with_dir_entry_mut ROOT_STREAM_ID (fun e => set_start_len e st L) s = (s', Ok tt) ->
  Coherent s' /\ dirs s' = updN (dirs s) ROOT_STREAM_ID (set_start_len r st L) /\
  exists dids, DirCoherence.dir_ids s dids /\ dframe dids s s'.
Proof.
  intros s s' r st L HC Hmd Hr Hst HL Hmod Hfit H.
  apply Coherent_split in HC. destruct HC as [C [D1 D2 D3 D4]].
  pose proof D1 as (dids & Hids & Hg & Hcap & _).
  assert (HD : DH dids s).
  { split; [exact Hids|]. split; [exact Hg|]. split; [unfold DIR_ENTRY_LEN in Hcap; exact Hcap|].
    exact (cc_nsect s C). }
  destruct (dstep_with_dir_entry_mut dids _ _ s s' tt HD H) as [HD' F].
  destruct (MutRefine.wdem_inv _ _ _ _ _ H) as (e0 & He0 & Ed).
  rewrite Hr in He0. injection He0 as <-.
  unfold modN in Ed. rewrite Hr in Ed.
  pose proof F as (F1 & _ & _ & _ & _ & _ & _ & F8 & _).
  pose proof (valid_root_type _ _ _ D3 Hr) as Hrt.
  split; [|split; [exact Ed|exists dids; split; assumption]].
  apply Coherent_split. split.
  - eapply (core_dframe dids); [exact C|exact F| |].
    + eapply chain_avoids_difat; [exact C|exact Hids].
    + intros mids Hm. apply avoids_sym. exact (Hmd dids mids Hids Hm).
  - constructor.
    + eapply DirCoherence.with_dir_entry_mut_coherent; eassumption.
    + intros e2 Hin. rewrite Ed in Hin. rewrite F1.
      destruct (In_updN _ _ _ _ _ Hin) as [->|Hold]; [|apply D2; exact Hold].
      destruct (D2 r (nthN_In _ _ _ _ Hr)) as [W1 W2 W3 W4 W5 W6 W7 W8 W9 W10 W11 W12 W13].
      constructor; cbn [set_start_len d_name d_type d_left d_right d_child d_clsid d_state
                        d_ctime d_mtime d_start d_len]; try assumption.
      all: intro Hs; rewrite Hrt in Hs; discriminate Hs.
    + rewrite Ed. rewrite (dir_validate_root_len true (dirs s) r _ Hr); [exact D3| | |exact Hmod].
      * unfold nav_eq. repeat split.
      * unfold dir_validate in D3. destruct (dirs s) as [|r0 t]; [discriminate D3|].
        cbn [nthN N.eqb] in Hr. injection Hr as ->.
        destruct (d_len r mod MINI_SECTOR_LEN =? 0) eqn:E; [apply N.eqb_eq in E; exact E|discriminate D3].
    + intros root Hr'. rewrite Ed in Hr'. rewrite F8.
      rewrite nthN_updN_same in Hr' by (eapply nthN_Some_lt; exact Hr). injection Hr' as <-.
      cbn [set_start_len d_len]. exact Hfit.
Qed.

Lemma strip_free_last : forall l n, lastN (fst (strip_free l n)) <> Some FREE_SECTOR.
Proof.
  induction l as [|x t IH]; intros n; cbn [strip_free]; [discriminate|].
  specialize (IH n). destruct (strip_free t n) as [t' k]. cbn [fst] in IH.
  destruct t' as [|y t''].
  - destruct (N.eqb_spec x FREE_SECTOR) as [->|Hx]; cbn [fst]; [discriminate|].
    unfold lastN. cbn [rev app hd_error]. congruence.
  - cbn [fst]. rewrite DirProofs.lastN_cons.
    destruct (lastN (y :: t'')) as [z|] eqn:E; [exact IH|].
    unfold lastN in E. cbn [rev] in E. destruct (rev t''); discriminate E.
Qed.

(* [l'] is [l] without some trailing FREE cells *)
Definition Trim (l l' : list N) : Prop :=
  exists t, l = l' ++ t /\ Forall (fun x => x = FREE_SECTOR) t.

Lemma Trim_nth : forall l l' i y, Trim l l' -> nthN l' i = Some y -> nthN l i = Some y.
Proof.
  intros l l' i y (t & -> & _) H. rewrite nthN_app_l by (eapply nthN_Some_lt; exact H). exact H.
Qed.

Lemma Trim_len : forall l l', Trim l l' -> lenN l' <= lenN l.
Proof. intros l l' (t & -> & _). rewrite lenN_app. lia. Qed.

Lemma MD_frameM : forall X s s', MD s -> frameM X s s' -> MD s'.
Proof.
  intros X s s' H (_ & _ & _ & _ & F5 & _ & F7 & F9 & _) dids mids Hd Hm.
  unfold DirCoherence.dir_ids, DirCoherence.minifat_ids in *. rewrite F5, F7 in Hd. rewrite F5, F9 in Hm.
  exact (H dids mids Hd Hm).
Qed.

Lemma frameM_mfree : forall s fr mf, frameM [] s (w_mfree (w_minifat s mf) fr).
Proof. intros. unfold frameM. repeat split; reflexivity. Qed.

Lemma CohM_w_mfree : forall s l, CohM s -> CohM (w_mfree s l).
Proof.
  intros s l [C D1 D2 D3 M1 M2 M4 M5].
  assert (F : frameM [] s (w_mfree s l)) by (unfold frameM; repeat split; reflexivity).
  constructor.
  - eapply CoreNM_frame; [exact C|exact F|intros x []].
  - eapply dir_frameM; [exact D1|exact F|reflexivity|intros d _ x []].
  - exact D2.
  - exact D3.
  - destruct M1 as (mids & A1 & A2 & A3 & A4). exists mids. split; [exact A1|].
    split; [eapply good_chain_frameM; eassumption|]. split; [exact A3|exact A4].
  - exact M2.
  - exact M4.
  - exact M5.
Qed.

(* free_mini_sector: the cell becomes FREE on disk and in the cache, the cache
   is trimmed (the trimmed cells stay FREE on disk), the root length follows *)
Lemma free_mini_sector_coh : forall s ms s',
  Coherent s -> MD s ->
  (forall x, nthN (minifat s) x = Some FREE_SECTOR -> unref (minifat s) x) ->
  unref (minifat s) ms ->
  (forall r, nthN (dirs s) ROOT_STREAM_ID = Some r -> d_len r = 64 * lenN (minifat s)) ->
  lenN (minifat s) <= MAX_REGULAR_SECTOR + 1 ->
  free_mini_sector ms s = (s', Ok tt) ->
  Coherent s' /\ MD s' /\ Trim (updN (minifat s) ms FREE_SECTOR) (minifat s') /\
  ms < lenN (minifat s) /\
  exists dids mids, DirCoherence.dir_ids s dids /\ DirCoherence.minifat_ids s mids /\
                    frameM (mids ++ dids) s s'.
Proof.
  intros s ms s' HC Hmd Hfu Hms Hrl Hbd H.
  pose proof HC as HC0. apply Coherent_CohM in HC. destruct HC as [HM Hlast].
  unfold free_mini_sector in H. rewrite bind_get in H.
  destruct (nthN (minifat s) ms) as [v|] eqn:Hcell; [|discriminate H].
  destruct (v =? FREE_SECTOR) eqn:Ev; [discriminate H|]. apply N.eqb_neq in Ev.
  pose proof (nthN_Some_lt _ _ _ _ Hcell) as Hlt.
  binv H u1 s1 H1 H. destruct u1.
  set (mf1 := updN (minifat s) ms FREE_SECTOR).
  pose proof (cm_mini_valid s HM) as Hval.
  (* the table after the write: valid, possibly ending in FREE cells *)
  assert (Hval1 : check_pointees true mf1 (lenN mf1) [] = Ok tt).
  { apply WalkProofs.check_pointees_spec in Hval. destruct Hval as (P1 & P2 & _ & _).
    destruct irregular_marks as [_ IF].
    unfold mf1. apply WalkProofs.check_pointees_spec. rewrite lenN_updN.
    destruct (regular v) eqn:Rv.
    - pose proof (regs_updN_drop (minifat s) ms v FREE_SECTOR Hcell Rv IF) as HP.
      assert (Hsub : forall y, In y (regs (updN (minifat s) ms FREE_SECTOR)) -> In y (regs (minifat s))).
      { intros y Hy. eapply Permutation_in; [exact HP|]. right. exact Hy. }
      split; [rewrite Forall_forall in *; intros y Hy; apply P1; apply Hsub; exact Hy|].
      split; [|split; [intros c _ []|discriminate]].
      assert (Hnd : NoDup (v :: regs (updN (minifat s) ms FREE_SECTOR))).
      { eapply Permutation_NoDup; [apply Permutation_sym; exact HP|exact P2]. }
      inversion Hnd; assumption.
    - rewrite (regs_updN_irr (minifat s) ms v FREE_SECTOR Hcell Rv IF).
      split; [exact P1|]. split; [exact P2|]. split; [intros c _ []|discriminate]. }
  destruct (set_minifat_cohm s ms FREE_SECTOR s1 HM Hmd ltac:(vm_compute; reflexivity) H1)
    as (HM1 & Hmf1 & Hd1 & Hmfr1 & _ & mids & Hmids & F1).
  { destruct (ms =? lenN (minifat s)) eqn:E; [apply N.eqb_eq in E; lia|]. exact Hval1. }
  { intros root Hr. destruct (ms =? lenN (minifat s)) eqn:E; [apply N.eqb_eq in E; lia|].
    rewrite lenN_updN. exact (cm_fits s HM root Hr). }
  destruct (ms =? lenN (minifat s)) eqn:E; [apply N.eqb_eq in E; lia|]. fold mf1 in Hmf1.
  (* modify mfree *)
  rewrite bind_modify in H. set (s2 := w_mfree s1 (mfree s1 ++ [ms])) in *.
  unfold root_entry in H. binv H r s2' H2 H. apply dir_entry_inv in H2. destruct H2 as [-> Hr2].
  assert (Hr : nthN (dirs s) ROOT_STREAM_ID = Some r) by (rewrite <- Hd1; exact Hr2).
  binv H u2 s2' H2 H.
  assert (s2' = s2).
  { destruct (negb (d_len r mod MINI_SECTOR_LEN =? 0)); [discriminate H2|]. apply ret_inv in H2. tauto. }
  subst s2'. clear H2. rewrite bind_get in H.
  change (minifat s2) with (minifat s1) in H. rewrite Hmf1 in H.
  destruct (SA.strip_free_spec mf1 0) as (t & Est & HFt & Hk).
  pose proof (strip_free_last mf1 0) as Hlast'.
  destruct (strip_free mf1 0) as [mf' k] eqn:Estrip. cbn [fst snd] in *. rewrite N.add_0_l in Hk.
  cbv zeta in H. rewrite bind_put in H.
  set (s3 := w_mfree (w_minifat s2 mf') (filter (fun i => i <? lenN mf') (mfree s2))) in *.
  (* the state after the trim *)
  assert (HM2 : CohM s2) by (apply CohM_w_mfree; exact HM1).
  assert (Hfu1 : forall x, nthN (minifat s2) x = Some FREE_SECTOR -> unref (minifat s2) x).
  { change (minifat s2) with (minifat s1). rewrite Hmf1. intros x Hx.
    destruct (N.eq_dec x ms) as [->|Hne].
    - apply unref_updN; [exact Hms|]. markers. lia.
    - unfold mf1 in Hx. rewrite nthN_updN_other in Hx by congruence.
      apply unref_updN; [exact (Hfu x Hx)|].
      pose proof (nthN_Some_lt _ _ _ _ Hx) as Hxl. markers. lia. }
  assert (HC3 : Coherent s3).
  { apply (truncate_coherent s2 mf' t _ HM2); try assumption.
    change (minifat s2) with (minifat s1). rewrite Hmf1. exact Est. }
  assert (F3 : frameM mids s s3).
  { eapply frameM_trans; [exact F1|]. eapply frameM_weaken; [|apply (frameM_mfree s2)]. intros x []. }
  assert (Hd3 : dirs s3 = dirs s) by exact Hd1.
  assert (Hmd3 : MD s3) by (eapply MD_frameM; eassumption).
  assert (Hnl : d_len r - k * MINI_SECTOR_LEN = 64 * lenN mf').
  { rewrite (Hrl r Hr), Hk. unfold MINI_SECTOR_LEN.
    replace (lenN (minifat s)) with (lenN mf1) by (unfold mf1; apply lenN_updN).
    rewrite Est, lenN_app. lia. }
  pose proof (ch_dir s HC0) as (dids & Hdids & _).
  assert (HT : Trim mf1 mf') by (exists t; split; assumption).
  destruct (negb (d_len r - k * MINI_SECTOR_LEN =? d_len r)) eqn:En.
  - (* the root length is written back *)
    destruct (root_len_coherent s3 s' r (d_start r) (d_len r - k * MINI_SECTOR_LEN) HC3 Hmd3)
      as (HC' & Ed' & dd & Hdd & Fd).
    + rewrite Hd3. exact Hr.
    + apply (CodecProofs.wf_start (ver s) r). apply (ch_dir_wf s HC0). eapply nthN_In. exact Hr.
    + pose proof (CodecProofs.wf_len (ver s) r (ch_dir_wf s HC0 r (nthN_In _ _ _ _ Hr))) as Hw.
      change (ver s3) with (ver s1). destruct F1 as (F1v & _). rewrite F1v. lia.
    + rewrite Hnl. unfold MINI_SECTOR_LEN. rewrite N.mul_comm. apply N.mod_mul. lia.
    + rewrite Hnl. cbn [s3 minifat w_mfree w_minifat]. unfold MINI_SECTOR_LEN.
      rewrite N.mul_comm, N.div_mul by lia. lia.
    + (* the function the model applies *)
      rewrite <- H. unfold with_dir_entry_mut, with_dir_entry_mut_inner.
      unfold bind at 1. rewrite QueryRefine.q_dir_entry_run. unfold dir_entry_of. rewrite Hd3, Hr.
      unfold bind at 2. rewrite QueryRefine.q_dir_entry_run. unfold dir_entry_of. rewrite Hd3, Hr.
      reflexivity.
    + assert (dd = dids).
      { unfold DirCoherence.dir_ids in *. destruct F3 as (_ & _ & _ & _ & G5 & _ & G7 & _).
        rewrite G5, G7 in Hdd. congruence. }
      subst dd.
      pose proof Fd as (D1 & D2 & D3 & D4 & D5 & D6 & D7 & D8 & _).
      split; [exact HC'|]. split.
      { eapply MD_frameM; [exact Hmd3|apply dframe_frameM; exact Fd]. }
      split; [rewrite D8; exact HT|]. split; [exact Hlt|].
      exists dids, mids. split; [exact Hdids|]. split; [exact Hmids|].
      eapply frameM_trans.
      * eapply frameM_weaken; [|exact F3]. intros x Hx. apply in_or_app. left. exact Hx.
      * eapply frameM_weaken; [|apply dframe_frameM; exact Fd]. intros x Hx. apply in_or_app. right. exact Hx.
  - apply ret_inv in H. destruct H as [Hs' _]. rewrite Hs'.
    split; [exact HC3|]. split; [exact Hmd3|]. split; [exact HT|]. split; [exact Hlt|].
    exists dids, mids. split; [exact Hdids|]. split; [exact Hmids|].
    eapply frameM_weaken; [|exact F3]. intros x Hx. apply in_or_app. left. exact Hx.
Qed.

Definition FreeUnref (tbl : list N) : Prop :=
  forall x, nthN tbl x = Some FREE_SECTOR -> unref tbl x.

Lemma unref_trim_upd : forall l l' i y,
  unref l y -> y <> FREE_SECTOR -> Trim (updN l i FREE_SECTOR) l' -> unref l' y.
Proof.
  intros l l' i y Hy Hne HT j Hj. apply (Trim_nth _ _ _ _ HT) in Hj.
  destruct (N.eq_dec j i) as [->|Hji].
  - destruct (N.lt_ge_cases i (lenN l)) as [Hlt|Hge].
    + rewrite nthN_updN_same in Hj by exact Hlt. congruence.
    + apply nthN_Some_lt in Hj. rewrite lenN_updN in Hj. lia.
  - rewrite nthN_updN_other in Hj by congruence. exact (Hy j Hj).
Qed.

(* the walk of free_mini_chain *)
Lemma free_mini_chain_go_coh : forall l fuel c s r rids mfids dids s',
  Coherent s -> MD s -> FreeUnref (minifat s) ->
  SA.MWf_at s r rids mfids dids ->
  path (minifat s) c l -> (l <> [] -> unref (minifat s) c) ->
  free_mini_chain_go fuel c s = (s', Ok tt) ->
  Coherent s' /\ MD s' /\ FreeUnref (minifat s') /\
  (forall y, y <= MAX_REGULAR_SECTOR -> unref (minifat s) y -> unref (minifat s') y) /\
  frameM (mfids ++ dids) s s'.
Proof.
  induction l as [|cur rest IH]; intros fuel c s r rids mfids dids s' HC Hmd Hfu W Hp Hhead H.
  - inversion Hp; subst. destruct fuel as [|fuel]; [discriminate H|].
    cbn [free_mini_chain_go] in H. rewrite N.eqb_refl in H. apply ret_inv in H. destruct H as [-> _].
    split; [exact HC|]. split; [exact Hmd|]. split; [exact Hfu|]. split; [auto|apply frameM_refl].
  - inversion Hp as [|c0 nx l0 Hc Hn Hp']; subst.
    destruct fuel as [|fuel]; [discriminate H|]. cbn [free_mini_chain_go] in H.
    destruct (cur =? END_OF_CHAIN) eqn:Ea; [apply N.eqb_eq in Ea; contradiction|].
    assert (Hnext : next_mini cur s = (s, Ok nx)).
    { unfold next_mini, next_mini_of. rewrite bind_get, Hn. reflexivity. }
    rewrite (bind_exec _ _ _ _ _ Hnext) in H.
    pose proof Hn as Hn0. apply WalkProofs.next_of_Ok in Hn0. destruct Hn0 as [Hcell Hr].
    assert (Hnf : nx <> FREE_SECTOR) by (markers; lia).
    destruct (SA.free_mini_sector_step s r rids mfids dids cur nx W Hcell Hnf)
      as (s1 & r1 & E1 & W1 & Sh1 & Ld1 & Dj1 & Fr1 & Le1 & K1).
    rewrite (bind_exec _ _ _ _ _ E1) in H.
    pose proof (Hhead ltac:(discriminate)) as Hcu.
    destruct (free_mini_sector_coh s cur s1 HC Hmd Hfu Hcu) as (HC1 & Hmd1 & HT & Hlt & dd & mm & Hdd & Hmm & F1).
    { intros r0 Hr0. rewrite (SA.mw_root _ _ _ _ _ W) in Hr0. injection Hr0 as <-. apply W. }
    { apply W. }
    { exact E1. }
    assert (dd = dids) by (unfold DirCoherence.dir_ids in Hdd; rewrite (SA.mw_dch _ _ _ _ _ W) in Hdd; congruence).
    assert (mm = mfids) by (unfold DirCoherence.minifat_ids in Hmm; rewrite (SA.mw_mch _ _ _ _ _ W) in Hmm; congruence).
    subst dd mm.
    pose proof (SA.mw_bound _ _ _ _ _ W) as Hbd.
    assert (Hcur_ne : cur <> FREE_SECTOR) by (markers; lia).
    pose proof (ReuseProofs.path_nodup _ _ _ Hp) as Hnd. inversion Hnd as [|? ? Hni Hnd']; subst.
    assert (Hp1 : path (minifat s1) nx rest).
    { apply (SA.path_keep _ _ _ _ Hp' Le1). intros y w Hy Hcy Hw. apply K1; [|exact Hcy|exact Hw].
      intro E. subst y. contradiction. }
    assert (Hmono1 : forall y, y <> FREE_SECTOR -> unref (minifat s) y -> unref (minifat s1) y).
    { intros y Hy Hu. exact (unref_trim_upd _ _ cur y Hu Hy HT). }
    assert (Hfu1 : FreeUnref (minifat s1)).
    { intros x Hx. pose proof (Trim_nth _ _ _ _ HT Hx) as Hx0.
      destruct (N.eq_dec x cur) as [->|Hne].
      - apply Hmono1; assumption.
      - rewrite nthN_updN_other in Hx0 by congruence.
        apply Hmono1; [|exact (Hfu x Hx0)].
        pose proof (nthN_Some_lt _ _ _ _ Hx0). markers. lia. }
    destruct (IH fuel nx s1 r1 rids mfids dids s' HC1 Hmd1 Hfu1 W1 Hp1) as (HC' & Hmd' & Hfu' & Hmono' & F').
    + intros Hne i Hi. pose proof (Trim_nth _ _ _ _ HT Hi) as Hi0.
      assert (Hnx_reg : nx <= MAX_REGULAR_SECTOR).
      { destruct Hr as [->|[Hr1 _]]; [|exact Hr1]. inversion Hp'; subst; [contradiction|]. congruence. }
      destruct (N.eq_dec i cur) as [->|Hic].
      * rewrite nthN_updN_same in Hi0 by exact Hlt. markers. injection Hi0 as Hi0. lia.
      * rewrite nthN_updN_other in Hi0 by congruence. apply Hic.
        pose proof (ch_mini_valid s HC) as Hval.
        apply WalkProofs.check_pointees_spec in Hval. destruct Hval as (_ & Hndr & _).
        eapply WalkProofs.nodup_regs_index; [exact Hndr|exact Hi0|exact Hcell|].
        apply regular_spec. exact Hnx_reg.
    + exact H.
    + split; [exact HC'|]. split; [exact Hmd'|]. split; [exact Hfu'|]. split.
      * intros y Hy Hu. apply (Hmono' y Hy). apply Hmono1; [markers; lia|exact Hu].
      * eapply frameM_trans; eassumption.
Qed.

Lemma small_head_in : forall mf e m,
  SA.small_entry e -> chain_ids_of mf (d_start e) = Ok m -> d_len e <= 64 * lenN m ->
  In (d_start e) m.
Proof.
  intros mf e m (_ & Hp & _) Hc Hcov.
  assert (Hne : m <> []) by (intros ->; cbn [lenN] in Hcov; lia).
  destruct (chain_ids_head _ _ _ Hc Hne) as (_ & t & ->). left. reflexivity.
Qed.

(* the tree part when only the root's start / length changed *)
Lemma TreePart_rootlen : forall s s1,
  TreePart s -> Coherent s1 -> MutRefine.RootLen (dirs s) (dirs s1) -> ver s1 = ver s ->
  TreePart s1.
Proof.
  intros s s1 [Hents Hroot (t & HT & HU)] HC1 HRL Hv.
  pose proof HRL as (L & O & R).
  destruct Hroot as (root & Hr & R1 & R2 & R3 & R4).
  destruct (R root Hr) as (st & ln & Hr1).
  constructor.
  - apply Forall_nthN. intros j e1 He1.
    destruct (N.eq_dec j ROOT_STREAM_ID) as [->|Hj].
    + rewrite Hr1 in He1. injection He1 as <-.
      rewrite Forall_nthN in Hents. destruct (Hents _ _ Hr) as (_ & B & Lk).
      split; [apply (ch_dir_wf s1 HC1); eapply nthN_In; exact Hr1|]. split; [exact B|exact Lk].
    + rewrite (O j Hj) in He1. rewrite Hv. rewrite Forall_nthN in Hents. exact (Hents _ _ He1).
  - exists (set_start_len root st ln). split; [exact Hr1|]. cbn [set_start_len d_left d_right d_len].
    split; [exact R1|]. split; [exact R2|].
    pose proof (ch_dir_valid s1 HC1) as Hv1. unfold dir_validate in Hv1.
    destruct (dirs s1) as [|r0 tl] eqn:Ed; [discriminate Hv1|].
    cbn [nthN N.eqb] in Hr1. change (ROOT_STREAM_ID =? 0) with true in Hr1. injection Hr1 as ->.
    cbn [set_start_len d_len] in Hv1.
    split.
    + destruct (ln mod MINI_SECTOR_LEN =? 0) eqn:E; [apply N.eqb_eq in E; exact E|discriminate Hv1].
    + rewrite <- Ed in *. apply (ch_mini_fits s1 HC1 (set_start_len root st ln)). rewrite Ed. reflexivity.
  - destruct (MutRefine.rootlen_tree ctrue _ _ t HRL HT HU) as [HT1 HU1]. exists t. split; assumption.
Qed.

Lemma CohData'_MD : forall s, CohData' s -> MD s.
Proof.
  intros s [_ (r & rids & mfids & dids & SW & Hmd) _ _] d m Hd Hm.
  rewrite (swfx_dir_ids _ _ _ _ _ _ _ SW Hd), (swfx_mini_ids _ _ _ _ _ _ _ SW Hm). exact Hmd.
Qed.

(* ---- item 3 (small): api_remove_stream on a small stream.  Its mini chain
        is released cell by cell (FREE on disk and in the cache), the cached
        MiniFAT is trimmed, the root length follows; then the entry is
        unlinked and cleared ---- *)
Theorem remove_small_stream_cohtree : forall p s s' id e,
  CohTree s -> api_remove_stream p s = (s', Ok tt) ->
  MutRefine.id_of_path s p = Some id -> nthN (dirs s) id = Some e ->
  0 < d_len e -> d_len e < MINI_STREAM_CUTOFF ->
  CohTree s' /\
  (forall strict, open_model strict (concat_img (img s')) = Ok (reopened s')) /\
  nthN (dirs s') id = Some dirent_unallocated /\ SA.others_kept s s' id /\
  free s' = free s /\ nsect s' = nsect s /\ lenN (minifat s') <= lenN (minifat s).
Proof.
  intros p s s' id e [HCD HTP] H Hidp He Hpos Hcut.
  pose proof HCD as [HC (r & rids & mfids & dids & HSD) HF Hax].
  pose proof HSD as [SW Hmdj].
  pose proof (SA.sw_m _ _ _ _ _ _ SW) as W.
  pose proof HTP as [_ _ (t & HT & HU)].
  destruct (MutRefine.remove_stream_refines ctrue ctrue p 0 s s' t HT HU (fun _ _ _ c => c) H)
    as (t' & _ & HT' & HU').
  unfold api_remove_stream, remove_stream_names in H.
  destruct (MutRefine.names_lookup_inv _ _ _ _ _ _ H) as (names & r0 & En & Hlk & HK).
  destruct r0 as [id0|]; [|discriminate HK].
  assert (id0 = id).
  { unfold MutRefine.id_of_path in Hidp. rewrite En, Hlk in Hidp. congruence. }
  subst id0.
  binv HK e1 s0 H1 H2. apply dir_entry_inv in H1. destruct H1 as [-> He1].
  assert (e1 = e) by congruence. subst e1.
  destruct (objtype_eqb (d_type e) TStream) eqn:T1; cbn [negb] in H2; [|discriminate H2].
  destruct (d_child e =? NO_STREAM) eqn:Ch; cbn [negb] in H2; [|discriminate H2].
  apply objtype_eqb_true in T1.
  destruct (d_len e <? MINI_STREAM_CUTOFF) eqn:Ecut; [|lia].
  binv H2 u1 s1 H1 H2. destruct u1.
  assert (Hse : SA.small_entry e) by (split; [exact T1|split; assumption]).
  destruct (SA.sw_small _ _ _ _ _ _ SW id e (SA.noX_not _) He Hse) as (mids & Hc & Hcov).
  destruct (SA.free_small_chain s r rids mfids dids id e mids SW He Hse Hc)
    as (s1' & r1 & Efree & SW1 & Sh1 & He1' & Ho1).
  rewrite H1 in Efree. injection Efree as <-.
  pose proof (MutRefine.free_mini_chain_rootlen _ _ _ _ H1) as HRL.
  pose proof H1 as Erun. unfold free_mini_chain in Erun. rewrite bind_get in Erun.
  destruct (free_mini_chain_go_coh mids _ (d_start e) s r rids mfids dids s1 HC (CohData'_MD s HCD)
              (ax_mfree s Hax) W (WalkProofs.chain_ids_path _ _ _ Hc)
              ltac:(intros _; exact (ax_mheads s Hax id e He Hse)) Erun)
    as (HC1 & Hmd1 & Hfu1 & Hmono & F1).
  pose proof F1 as (G1 & G2 & G3 & G4 & G5 & G6 & G7 & G9 & _).
  pose proof (TreePart_rootlen s s1 HTP HC1 HRL G1) as HTP1.
  destruct (lastN names) as [nm|] eqn:Hlast; [|discriminate H2].
  destruct (MutRefine.lookup_inv _ _ _ _ _ _ H2) as (pr & Hlkp & H3). clear H2.
  destruct pr as [pid|]; [|discriminate H3].
  destruct (remove_entry_coh s1 s' names id e nm pid HC1) as (HC' & HTP' & Hun & Hidr & Hst & dd & Hdd & F);
    try assumption.
  { intros d m Hd Hm. apply avoids_sym. exact (Hmd1 d m Hd Hm). }
  { rewrite (MutRefine.rootlen_lookup _ _ HRL). exact Hlk. }
  { rewrite T1. discriminate. }
  { exists t'. split; assumption. }
  assert (dd = dids) by exact (swfx_dir_ids _ _ _ _ _ _ _ SW1 Hdd). subst dd.
  destruct (swfx_payload s1 s' r1 rids mfids dids id dids SW1 F Hun Hidr Hst) as (r' & Hr' & Pr & SW').
  pose proof (others_payload s1 s' r1 r' rids mfids dids id SW1 SW' F Hst) as Ho2.
  pose proof F as (F1' & F2 & F3 & F4 & F5 & F6 & F7 & F8 & F9 & F10 & _).
  pose proof HRL as (_ & HRLo & _).
  assert (Hle : lenN (minifat s1) <= lenN (minifat s)).
  { destruct (SA.free_mini_chain_go_spec mids (S (S (length (minifat s)))) (d_start e) s r rids mfids dids W
                (WalkProofs.chain_ids_path _ _ _ Hc) (path_length_fuel _ _ _ (WalkProofs.chain_ids_path _ _ _ Hc)))
      as (sx & rx & Ex & _ & _ & _ & _ & _ & Lx & _).
    rewrite Erun in Ex. injection Ex as <-. exact Lx. }
  assert (HCD' : CohData' s').
  { constructor.
    - exact HC'.
    - exists r', rids, mfids, dids. split; [exact SW'|exact Hmdj].
    - apply (FreeClean_transfer s); [congruence|congruence|congruence|exact HF].
    - assert (Hback : forall j ej, nthN (dirs s') j = Some ej -> d_type ej = TStream ->
                exists e0, nthN (dirs s) j = Some e0 /\ same_payload e0 ej /\ j <> id).
      { intros j ej Hej Tj. assert (Hj : j <> id).
        { intros ->. rewrite Hun in Hej. injection Hej as <-. discriminate Tj. }
        pose proof (nthN_Some_lt _ _ _ _ Hej) as Hlt.
        destruct F as (_ & _ & _ & _ & _ & _ & _ & _ & _ & _ & _ & _ & _ & _ & F15).
        rewrite F15 in Hlt. destruct (WalkProofs.nthN_lt_Some (dirs s1) j Hlt) as [e0 He0].
        destruct (Hst j e0 Hj He0) as (e0' & He0' & P). assert (e0' = ej) by congruence. subst e0'.
        exists e0. split; [|split; [exact P|exact Hj]].
        rewrite <- (HRLo j); [exact He0|].
        intros ->. rewrite (SA.mw_root _ _ _ _ _ (SA.sw_m _ _ _ _ _ _ SW1)) in He0. injection He0 as <-.
        destruct P as (_ & Pt & _). rewrite Tj in Pt.
        exact (SA.mw_rtype _ _ _ _ _ (SA.sw_m _ _ _ _ _ _ SW1) (eq_sym Pt)). }
      constructor.
      + rewrite F5, G5. exact (ax_free s Hax).
      + intros j ej Hej [Tj Cj]. destruct (Hback j ej Hej Tj) as (e0 & He0 & (_ & Pt & Ps & Pl & _) & _).
        rewrite F5, G5, Ps. apply (ax_heads s Hax j e0 He0).
        unfold SA.big_entry. rewrite <- Pt, <- Pl. auto.
      + rewrite F8. exact Hfu1.
      + intros j ej Hej (Tj & Pj & Cj).
        destruct (Hback j ej Hej Tj) as (e0 & He0 & (_ & Pt & Ps & Pl & _) & Hj).
        rewrite F8, Ps.
        assert (Hs0 : SA.small_entry e0) by (unfold SA.small_entry; rewrite <- Pt, <- Pl; auto).
        apply Hmono; [|exact (ax_mheads s Hax j e0 He0 Hs0)].
        destruct (SA.sw_small _ _ _ _ _ _ SW j e0 (SA.noX_not _) He0 Hs0) as (m & Hcm & Hcovm).
        pose proof (small_head_in _ e0 m Hs0 Hcm Hcovm) as Hin.
        pose proof (SA.path_In_lt _ _ _ _ (WalkProofs.chain_ids_path _ _ _ Hcm) Hin).
        pose proof (SA.mw_bound _ _ _ _ _ W). lia. }
  split; [split; assumption|]. split; [exact (cohdata'_reopens s' HCD')|]. split; [exact Hun|].
  split; [exact (SA.others_kept_trans _ _ _ _ Ho1 Ho2)|].
  split; [congruence|]. split; [congruence|]. rewrite F8. exact Hle.
Qed.

(* ================================================================== *)
(* 5. the reopened state satisfies the invariant again                 *)
(* ================================================================== *)

Lemma reopened_dirs_len : forall s, Coherent s ->
  exists dids, DirCoherence.dir_ids s dids /\
    lenN (dirs (reopened s)) = dir_per_sector (ver s) * lenN dids /\
    DIR_ENTRY_LEN * lenN (dirs (reopened s)) = slen s * lenN dids.
Proof.
  intros s HC. destruct (ch_dir s HC) as (dids & Hd & Hg & Hcap & _).
  exists dids. split; [exact Hd|].
  unfold reopened. cbn [dirs]. rewrite lenN_app, lenN_repeatN. unfold dir_blanks, chain_count.
  unfold DirCoherence.dir_ids in Hd. rewrite Hd.
  unfold dir_per_sector, DIR_ENTRY_LEN in *.
  destruct (ReuseProofs.slen_cases s) as [E|E]; unfold slen in *; rewrite E in *;
    [change (512 / 128) with 4|change (4096 / 128) with 32]; split; lia.
Qed.

Lemma reopened_nth_old : forall s j e, nthN (dirs s) j = Some e -> nthN (dirs (reopened s)) j = Some e.
Proof.
  intros s j e H. unfold reopened. cbn [dirs].
  rewrite nthN_app_l by (eapply nthN_Some_lt; exact H). exact H.
Qed.

Lemma reopened_nth_inv : forall s j e, nthN (dirs (reopened s)) j = Some e ->
  nthN (dirs s) j = Some e \/ (lenN (dirs s) <= j /\ e = dirent_unallocated).
Proof.
  intros s j e H. unfold reopened in H. cbn [dirs] in H.
  destruct (N.lt_ge_cases j (lenN (dirs s))) as [Hlt|Hge].
  - left. rewrite nthN_app_l in H by exact Hlt. exact H.
  - right. split; [exact Hge|]. rewrite nthN_app_r in H by exact Hge.
    apply nthN_In in H. clear - H. revert H. generalize (dir_blanks s). intro k.
    induction k as [|k IH] using N.peano_ind; [intros []|].
    rewrite CodecProofs.repeatN_succ. intros [E|Hin]; [symmetry; exact E|exact (IH Hin)].
Qed.

Theorem coherent_reopened : forall s, Coherent s -> Coherent (reopened s).
Proof.
  intros s HC.
  destruct (reopened_dirs_len s HC) as (dids0 & Hd0 & Hlen0 & Hcap0).
  pose proof HC as [Hhdr Hfat Hdok Hids Hnd Hns Huni Hftail Hmarks Hfval Hdir Hdwf Hdval
                     Hmini Hmtail Hmlast Hmfits Hmval].
  assert (Hne : exists root, nthN (dirs s) 0 = Some root).
  { destruct (dirs s) as [|r0 t] eqn:E; [discriminate Hdval|]. exists r0. reflexivity. }
  apply Coherent_parts.
  - constructor.
    + unfold HeaderCoherent in *. change (hd [] (img (reopened s))) with (hd [] (img s)). rewrite Hhdr.
      f_equal. unfold header_of, reopened.
      cbn [ver fat dir_start difat minifat_start difat_ids]. rewrite Hids. reflexivity.
    + destruct Hfat as [[Ci Cf Cc Cn Cl] L P T]. constructor; [constructor|..]; assumption.
    + intros d Hd. destruct Hd.
    + reflexivity.
    + exact Hnd.
    + exact Hns.
    + exact Huni.
    + exact Hftail.
    + exact Hmarks.
    + exact Hfval.
  - destruct Hdir as (dids & H1 & H2 & H3 & H4 & H5).
    assert (dids0 = dids) by (unfold DirCoherence.dir_ids in *; congruence). subst dids0.
    exists dids. split; [exact H1|]. split; [exact H2|]. split.
    { change (slen (reopened s)) with (slen s). rewrite Hcap0. lia. }
    split.
    + intros id e He Hnm. change (DirCoherence.slot_bytes (reopened s) dids id) with (DirCoherence.slot_bytes s dids id).
      destruct (reopened_nth_inv s id e He) as [Hold|[Hge ->]]; [exact (H4 id e Hold Hnm)|].
      apply H5; [exact Hge|]. apply nthN_Some_lt in He. change (slen s) with (slen (reopened s)).
      change (slen (reopened s)) with (slen s). rewrite <- Hcap0. unfold DIR_ENTRY_LEN in *. lia.
    + intros id Hid Hfit. change (DirCoherence.slot_bytes (reopened s) dids id) with (DirCoherence.slot_bytes s dids id).
      change (slen (reopened s)) with (slen s) in Hfit. rewrite <- Hcap0 in Hfit. unfold DIR_ENTRY_LEN in *. lia.
  - intros e He. change (ver (reopened s)) with (ver s).
    unfold reopened in He. cbn [dirs] in He. apply in_app_or in He. destruct He as [He|He]; [exact (Hdwf e He)|].
    assert (e = dirent_unallocated).
    { clear - He. revert He. generalize (dir_blanks s). intro k.
      induction k as [|k IH] using N.peano_ind; [intros []|].
      rewrite CodecProofs.repeatN_succ. intros [E|Hin]; [symmetry; exact E|exact (IH Hin)]. }
    subst e. exact (proj1 (ent_ok_unalloc (ver s))).
  - unfold reopened. cbn [dirs]. apply dir_validate_app. exact Hdval.
  - exact Hmini.
  - exact Hmtail.
  - exact Hmlast.
  - intros root Hr. destruct Hne as (r0 & Hr0). rewrite (reopened_nth_old s 0 r0 Hr0) in Hr.
    injection Hr as <-. exact (Hmfits r0 Hr0).
  - exact Hmval.
Qed.

Lemma free_indices_spec : forall l x, In x (free_indices l 0) <-> nthN l x = Some FREE_SECTOR.
Proof.
  intros l x. rewrite WalkSafe.free_indices_In. rewrite N.sub_0_r. split; [intros [_ H]; exact H|].
  intros H. split; [lia|exact H].
Qed.

Lemma chain_member_not_free : forall fat st ids x,
  chain_ids_of fat st = Ok ids -> In x ids -> nthN fat x <> Some FREE_SECTOR.
Proof.
  intros fat st ids x H Hx E. destruct (chain_cell _ _ _ _ H Hx) as (v & Hv & Hr).
  rewrite E in Hv. injection Hv as <-. markers. lia.
Qed.

Theorem swf_reopened : forall s r rids mfids dids,
  Coherent s -> SA.SWfX_at s r rids mfids dids SA.noX ->
  SA.SWfX_at (reopened s) r rids mfids dids SA.noX.
Proof.
  intros s r rids mfids dids HC SW.
  pose proof (SA.sw_m _ _ _ _ _ _ SW) as W.
  destruct (reopened_dirs_len s HC) as (dids0 & Hd0 & Hlen0 & Hcap0).
  assert (dids0 = dids) by exact (swfx_dir_ids _ _ _ _ _ _ _ SW Hd0). subst dids0.
  destruct (ch_fat s HC) as [_ Clen _ _].
  assert (Hstream : forall j e, nthN (dirs (reopened s)) j = Some e -> d_type e = TStream ->
            nthN (dirs s) j = Some e).
  { intros j e He Ht. destruct (reopened_nth_inv s j e He) as [H|[_ ->]]; [exact H|discriminate Ht]. }
  assert (W' : SA.MWf_at (reopened s) r rids mfids dids).
  { destruct W as [A1 A2 A3 A4 A5 A6 A7 A8 A9 A10 A11 A12 A13 A14 A15 A16 A17 A18]. constructor; try assumption.
    - apply reopened_nth_old. exact A1.
    - change (slen (reopened s)) with (slen s). rewrite Hcap0. lia.
    - intros j e He. destruct (reopened_nth_inv s j e He) as [H|[_ ->]]; [exact (A14 j e H)|].
      vm_compute. discriminate.
    - apply WalkSafe.free_indices_NoDup.
    - intros x Hx. apply free_indices_spec. exact Hx. }
  destruct SW as [_ Wa Wn Wf Wsys Wfd Wsm Wdj Wbc Wbg Wbd].
  constructor.
  - exact W'.
  - destruct Wa as [B1 B2 B3 B4]. constructor; try assumption.
    intros x Hx. apply free_indices_spec in Hx. pose proof (nthN_Some_lt _ _ _ _ Hx) as Hlt.
    change (nsect (reopened s)) with (nsect s). change (fat (reopened s)) with (fat s). lia.
  - exact Wn.
  - apply WalkSafe.free_indices_NoDup.
  - intros x Hx. split; [|exact (proj2 (Wsys x Hx))].
    intro Hin. apply free_indices_spec in Hin. change (fat (reopened s)) with (fat s) in Hin.
    destruct Hx as [Hx|[Hx|Hx]].
    + exact (chain_member_not_free _ _ _ x (SA.mw_rch _ _ _ _ _ W') Hx Hin).
    + exact (chain_member_not_free _ _ _ x (SA.mw_mch _ _ _ _ _ W') Hx Hin).
    + exact (chain_member_not_free _ _ _ x (SA.mw_dch _ _ _ _ _ W') Hx Hin).
  - intros x Hx Hd. apply free_indices_spec in Hx. change (fat (reopened s)) with (fat s) in Hx.
    change (difat (reopened s)) with (difat s) in Hd.
    rewrite (ch_marks s HC x Hd) in Hx. vm_compute in Hx. discriminate Hx.
  - intros j e _ He Hs. exact (Wsm j e (SA.noX_not _) (Hstream j e He (proj1 Hs)) Hs).
  - intros j1 j2 e1 e2 m1 m2 _ _ Hne He1 Hs1 Hc1 He2 Hs2 Hc2.
    exact (Wdj j1 j2 e1 e2 m1 m2 (SA.noX_not _) (SA.noX_not _) Hne (Hstream _ _ He1 (proj1 Hs1)) Hs1 Hc1
             (Hstream _ _ He2 (proj1 Hs2)) Hs2 Hc2).
  - intros j e _ He Hb. exact (Wbc j e (SA.noX_not _) (Hstream j e He (proj1 Hb)) Hb).
  - intros j e l _ He Hb Hcl x Hx.
    destruct (Wbg j e l (SA.noX_not _) (Hstream j e He (proj1 Hb)) Hb Hcl x Hx) as (S1 & S2 & S3 & S4 & S5).
    repeat split; try assumption.
    intro Hin. apply free_indices_spec in Hin. exact (chain_member_not_free _ _ _ x Hcl Hx Hin).
  - intros j1 j2 e1 e2 l1 l2 _ _ Hne He1 Hb1 Hc1 He2 Hb2 Hc2.
    exact (Wbd j1 j2 e1 e2 l1 l2 (SA.noX_not _) (SA.noX_not _) Hne (Hstream _ _ He1 (proj1 Hb1)) Hb1 Hc1
             (Hstream _ _ He2 (proj1 Hb2)) Hb2 Hc2).
Qed.

Theorem cohdata'_reopened : forall s, CohData' s -> CohData' (reopened s).
Proof.
  intros s [HC (r & rids & mfids & dids & SW & Hmd) HF [A1 A2 A3 A4]].
  destruct (ch_fat s HC) as [_ Clen _ _]. pose proof (ch_nsect s HC) as Hns.
  assert (Hstream : forall j e, nthN (dirs (reopened s)) j = Some e -> d_type e = TStream ->
            nthN (dirs s) j = Some e).
  { intros j e He Ht. destruct (reopened_nth_inv s j e He) as [H|[_ ->]]; [exact H|discriminate Ht]. }
  constructor.
  - apply coherent_reopened. exact HC.
  - exists r, rids, mfids, dids. split; [apply swf_reopened; assumption|exact Hmd].
  - split; [apply WalkSafe.free_indices_NoDup|].
    intros x Hx. apply free_indices_spec in Hx. change (fat (reopened s)) with (fat s) in *.
    pose proof (nthN_Some_lt _ _ _ _ Hx) as Hlt. change (nsect (reopened s)) with (nsect s).
    split; [lia|]. split; [exact Hx|]. apply unref_regs; [lia|]. exact (A1 x Hx).
  - constructor.
    + exact A1.
    + intros j e He Hb. exact (A2 j e (Hstream j e He (proj1 Hb)) Hb).
    + exact A3.
    + intros j e He Hs. exact (A4 j e (Hstream j e He (proj1 Hs)) Hs).
Qed.

Lemma TreeInv_app : forall ds ext, TreeInv ds -> TreeInv (ds ++ ext).
Proof.
  intros ds ext (t & HT & HU). destruct (MutRefine.tree_NRU _ _ _ HT HU) as (U & HN & ND).
  exists t. apply (MutRefine.NRU_tree _ _ _ U); [|exact ND].
  eapply MutRefine.NRU_transfer; [exact HN| |auto].
  intros j Hj. apply nthN_app_l. exact (QueryRefine.AllIds_bound _ _ _ _ (proj2 HN) j Hj).
Qed.

Theorem cohtree_reopened : forall s, CohTree s -> CohTree (reopened s).
Proof.
  intros s [HCD [Hents Hroot Htree]]. split; [apply cohdata'_reopened; exact HCD|].
  constructor.
  - change (ver (reopened s)) with (ver s). unfold reopened. cbn [dirs]. apply Forall_app. split; [exact Hents|].
    apply Forall_forall. intros e He.
    assert (e = dirent_unallocated).
    { clear - He. revert He. generalize (dir_blanks s). intro k.
      induction k as [|k IH] using N.peano_ind; [intros []|].
      rewrite CodecProofs.repeatN_succ. intros [E|Hin]; [symmetry; exact E|exact (IH Hin)]. }
    subst e. apply ent_ok_unalloc.
  - destruct Hroot as (root & Hr & R). exists root. split; [apply reopened_nth_old; exact Hr|exact R].
  - unfold reopened. cbn [dirs]. apply TreeInv_app. exact Htree.
Qed.

(* ================================================================== *)
(* 4b. small-stream growth: mini sectors from the free list or         *)
(*     appended within the retained capacity                           *)
(* ================================================================== *)

Lemma lastN_updN_cases : forall (l : list N) i v x,
  lastN (updN l i v) = Some x -> x = v \/ lastN l = Some x.
Proof.
  intros l i v x H.
  destruct (exists_last (l := updN l i v)) as (l' & a & E).
  { intro E. rewrite E in H. discriminate H. }
  rewrite E, lastN_snoc in H. injection H as <-.
  assert (Hlen : lenN (updN l i v) = lenN l) by apply lenN_updN.
  assert (Hl' : lenN l' + 1 = lenN l) by (rewrite <- Hlen, E, lenN_app; reflexivity).
  assert (Hn : nthN (updN l i v) (lenN l') = Some a).
  { rewrite E. rewrite nthN_app_r by lia. rewrite N.sub_diag. reflexivity. }
  destruct (N.eq_dec (lenN l') i) as [<-|Hne].
  - rewrite nthN_updN_same in Hn by lia. left. congruence.
  - rewrite nthN_updN_other in Hn by congruence. right.
    destruct (exists_last (l := l)) as (l0 & b & E0).
    { intros ->. cbn [lenN] in Hl'. lia. }
    rewrite E0, lastN_snoc. rewrite E0 in Hn, Hl'. rewrite lenN_app in Hl'. cbn [lenN] in Hl'.
    rewrite nthN_app_r in Hn by lia. replace (lenN l' - lenN l0) with 0 in Hn by lia.
    cbn in Hn. exact Hn.
Qed.

(* the length the root entry will record fits the version's length field: the
   mini stream of a version-3 file cannot reach 4 GiB.  Since fix b10c443
   append_mini_sector tests exactly this (together with the sector-count bound,
   which [SA.mroom] gives: [SA.mroom_append_bound]) and refuses with the state
   unchanged otherwise; [SA.mroom] now carries the same bound for the appended
   part only, so [RootFits] (which also counts mini sectors taken from the free
   list) is the stronger of the two and is kept for [root_len_coherent] *)
Definition RootFits (s : cstate) (k : N) : Prop :=
  64 * (lenN (minifat s) + k) <= stream_len_mask (ver s).

Lemma valid_irr_cell : forall b l i c v,
  check_pointees b l (lenN l) [] = Ok tt -> nthN l i = Some c ->
  regular c = false -> regular v = false -> (b = false -> v <> INVALID_SECTOR) ->
  check_pointees b (updN l i v) (lenN (updN l i v)) [] = Ok tt.
Proof.
  intros b l i c v H Hc Rc Rv Hinv.
  apply WalkProofs.check_pointees_spec in H. destruct H as (P1 & P2 & _ & P4).
  apply WalkProofs.check_pointees_spec. rewrite lenN_updN, (regs_updN_irr l i c v Hc Rc Rv).
  split; [exact P1|]. split; [exact P2|]. split; [intros y _ []|].
  intros Hb Hin. apply In_updN in Hin. destruct Hin as [E|Hin]; [exact (Hinv Hb (eq_sym E))|exact (P4 Hb Hin)].
Qed.

(* one mini sector is allocated (value END_OF_CHAIN) *)
Lemma alloc_mini_coh : forall s r rids mfids dids,
  Coherent s -> MD s -> FreeUnref (minifat s) ->
  SA.MWf_at s r rids mfids dids -> SA.mroom s rids mfids 1 -> RootFits s 1 ->
  exists s' idx,
    allocate_mini_sector END_OF_CHAIN s = (s', Ok idx) /\
    Coherent s' /\ MD s' /\ FreeUnref (minifat s') /\
    minifat s' = fat_set (minifat s) idx END_OF_CHAIN /\ idx <= lenN (minifat s) /\
    unref (minifat s') idx /\ SA.fresh (minifat s) idx /\
    frameM (mfids ++ dids) s s'.
Proof.
  intros s r rids mfids dids HC Hmd Hfu W Hroom Hrf.
  pose proof HC as HC0. apply Coherent_CohM in HC. destruct HC as [HM Hlast].
  pose proof (SA.mw_bound _ _ _ _ _ W) as Hbd.
  destruct irregular_marks as [IE IF].
  destruct (lastN (mfree s)) as [idx|] eqn:Elast.
  - (* reuse the top of the free list *)
    pose proof (lastN_Some_snoc _ _ _ Elast) as Emf.
    set (l1 := pop_last (mfree s)) in *.
    assert (Hin : In idx (mfree s)) by (rewrite Emf; apply in_or_app; right; left; reflexivity).
    pose proof (SA.mw_ffree _ _ _ _ _ W idx Hin) as Hcell.
    pose proof (nthN_Some_lt _ _ _ _ Hcell) as Hlt.
    set (s1 := w_mfree s l1).
    destruct (SA.set_minifat_fr s1 idx END_OF_CHAIN mfids) as (s' & E & _).
    { cbn [s1 minifat w_mfree]. lia. }
    { exact (SA.mw_mch _ _ _ _ _ W). }
    { exact (SA.mw_mgood _ _ _ _ _ W). }
    { change (slen s1) with (slen s). pose proof (SA.mw_mcap _ _ _ _ _ W). lia. }
    assert (HM1 : CohM s1) by (apply CohM_w_mfree; exact HM).
    assert (Hmd1 : MD s1) by exact Hmd.
    destruct (set_minifat_cohm s1 idx END_OF_CHAIN s' HM1 Hmd1 ltac:(vm_compute; reflexivity) E)
      as (HM' & Hmf' & Hd' & Hmfr' & _ & mm & Hmm & F').
    { cbn [s1 minifat w_mfree]. destruct (idx =? lenN (minifat s)) eqn:E0; [apply N.eqb_eq in E0; lia|].
      exact (valid_irr_cell true _ idx _ _ (cm_mini_valid s HM) Hcell IF IE ltac:(discriminate)). }
    { cbn [s1 minifat dirs w_mfree]. intros root Hr.
      destruct (idx =? lenN (minifat s)) eqn:E0; [apply N.eqb_eq in E0; lia|].
      rewrite lenN_updN. exact (cm_fits s HM root Hr). }
    cbn [s1 minifat w_mfree] in Hmf'.
    destruct (idx =? lenN (minifat s)) eqn:E0; [apply N.eqb_eq in E0; lia|].
    assert (mm = mfids).
    { pose proof (SA.mw_mch _ _ _ _ _ W) as X. unfold DirCoherence.minifat_ids in Hmm.
      cbn [s1 fat minifat_start w_mfree] in Hmm. congruence. }
    subst mm.
    exists s', idx. split.
    { unfold allocate_mini_sector. rewrite bind_get.
      rewrite (bind_exec _ _ _ _ _
                 (pop_free_mini_found [] (S (length (mfree s))) s l1 idx Emf Hcell (Forall_nil _)
                    ltac:(cbn [length]; lia))).
      fold s1. rewrite (bind_exec _ _ _ _ _ E). reflexivity. }
    assert (Hidx_ne : idx <> END_OF_CHAIN /\ idx <> FREE_SECTOR) by (markers; lia).
    split.
    { apply Coherent_CohM. split; [exact HM'|]. rewrite Hmf'. intro Hl.
      destruct (lastN_updN_cases _ _ _ _ Hl) as [E1|E1]; [markers; lia|contradiction]. }
    split; [eapply MD_frameM; [exact Hmd1|exact F']|].
    split.
    { rewrite Hmf'. intros x Hx. destruct (N.eq_dec x idx) as [->|Hne].
      - rewrite nthN_updN_same in Hx by exact Hlt. assert (Hq : END_OF_CHAIN = FREE_SECTOR) by congruence. markers. lia.
      - rewrite nthN_updN_other in Hx by congruence. apply unref_updN; [exact (Hfu x Hx)|].
        pose proof (nthN_Some_lt _ _ _ _ Hx). markers. lia. }
    split; [rewrite Hmf'; unfold fat_set; rewrite E0; reflexivity|]. split; [lia|].
    split; [rewrite Hmf'; apply unref_updN; [exact (Hfu idx Hcell)|intro Eq; apply (proj1 Hidx_ne); symmetry; exact Eq]|].
    split; [intros w Hw; rewrite Hcell in Hw; congruence|].
    eapply frameM_weaken; [|eapply frameM_trans; [|exact F']].
    + intros x Hx. apply in_or_app. left. exact Hx.
    + unfold frameM, s1. repeat split; reflexivity.
  - (* nothing free: append within the retained capacity *)
    apply SA.lastN_nil_inv in Elast.
    assert (Hcap : 4 * (lenN (minifat s) + 1) <= slen s * lenN mfids /\
                   64 * (lenN (minifat s) + 1) <= slen s * lenN rids /\
                   lenN (minifat s) + 1 <= MAX_REGULAR_SECTOR + 1).
    { unfold SA.mroom in Hroom. rewrite Elast in Hroom. cbn [lenN] in Hroom.
      destruct Hroom as [H|H]; [lia|]. replace (1 - 0) with 1 in H by lia.
      destruct H as (H1 & H2 & H3 & _). repeat split; assumption. }
    destruct Hcap as (Hmcap & Hrcap & Hbcap).
    pose proof (slen_pos s) as Hslp.
    assert (Hmne : mfids <> []) by (intros ->; cbn [lenN] in Hmcap; lia).
    assert (Hrne : rids <> []) by (intros ->; cbn [lenN] in Hrcap; lia).
    destruct (chain_ids_head _ _ _ (SA.mw_mch _ _ _ _ _ W) Hmne) as [Hms _].
    destruct (chain_ids_head _ _ _ (SA.mw_rch _ _ _ _ _ W) Hrne) as [Hrs _].
    set (f := fun e : dirent => set_start_len e (d_start r) (d_len e + MINI_SECTOR_LEN)).
    pose proof (SA.mw_root _ _ _ _ _ W) as Hr.
    pose proof (nthN_Some_lt _ _ _ _ Hr) as Hrlt.
    destruct (SA.with_mut_spec s ROOT_STREAM_ID r f dids Hr) as (s1 & E1 & _).
    { cbn [f set_start_len d_name]. eapply SA.mw_names; [exact W|apply W]. }
    { apply W. }
    { apply W. }
    { pose proof (SA.mw_dcap _ _ _ _ _ W) as Hdc. change ROOT_STREAM_ID with 0 in *.
      unfold DIR_ENTRY_LEN in *. lia. }
    assert (E1' : with_dir_entry_mut ROOT_STREAM_ID
                    (fun e => set_start_len e (d_start r) (d_len r + MINI_SECTOR_LEN)) s = (s1, Ok tt)).
    { rewrite <- E1. unfold with_dir_entry_mut, with_dir_entry_mut_inner.
      unfold bind at 1 3. rewrite !QueryRefine.q_dir_entry_run. unfold dir_entry_of. rewrite Hr.
      reflexivity. }
    pose proof (SA.mw_rlen _ _ _ _ _ W) as Hrlen.
    destruct (root_len_coherent s s1 r (d_start r) (d_len r + MINI_SECTOR_LEN) HC0 Hmd Hr) as (HC1 & Ed1 & dd & Hdd & Fd).
    { apply (CodecProofs.wf_start (ver s) r). apply (ch_dir_wf s HC0). eapply nthN_In. exact Hr. }
    { unfold RootFits in Hrf. rewrite Hrlen. unfold MINI_SECTOR_LEN. lia. }
    { rewrite Hrlen. unfold MINI_SECTOR_LEN. replace (64 * lenN (minifat s) + 64) with ((lenN (minifat s) + 1) * 64) by lia.
      apply N.mod_mul. lia. }
    { rewrite Hrlen. unfold MINI_SECTOR_LEN. replace (64 * lenN (minifat s) + 64) with ((lenN (minifat s) + 1) * 64) by lia.
      rewrite N.div_mul by lia. lia. }
    { exact E1'. }
    assert (dd = dids) by (unfold DirCoherence.dir_ids in Hdd; rewrite (SA.mw_dch _ _ _ _ _ W) in Hdd; congruence).
    subst dd.
    pose proof Fd as (D1 & D2 & D3 & D4 & D5 & D6 & D7 & D8 & D9 & D10 & _).
    pose proof (dframe_same_shape _ _ _ Fd) as Hsh1.
    pose proof (same_shape_slen _ _ Hsh1) as Hsl1.
    destruct (SA.set_minifat_fr s1 (lenN (minifat s)) END_OF_CHAIN mfids) as (s2 & E2 & _).
    { rewrite D8. lia. }
    { rewrite D5, D9. apply W. }
    { eapply good_chain_shape; [apply W|exact Hsh1]. }
    { rewrite Hsl1. lia. }
    pose proof HC1 as HC1'. apply Coherent_CohM in HC1'. destruct HC1' as [HM1 Hlast1].
    assert (Hmd1 : MD s1) by (eapply MD_frameM; [exact Hmd|apply dframe_frameM; exact Fd]).
    destruct (set_minifat_cohm s1 (lenN (minifat s)) END_OF_CHAIN s2 HM1 Hmd1 ltac:(vm_compute; reflexivity) E2)
      as (HM2 & Hmf2 & Hd2 & Hmfr2 & _ & mm & Hmm & F2).
    { rewrite D8, N.eqb_refl.
      pose proof (cm_mini_valid s HM) as Hv. apply WalkProofs.check_pointees_spec in Hv.
      destruct Hv as (P1 & P2 & _ & _).
      apply WalkProofs.check_pointees_spec. rewrite regs_app, lenN_app. cbn [lenN].
      assert (regs [END_OF_CHAIN] = []) as -> by (unfold WalkProofs.regs; cbn [filter]; rewrite IE; reflexivity).
      rewrite app_nil_r. split; [|split; [exact P2|split; [intros y _ []|discriminate]]].
      eapply Forall_impl; [|exact P1]. cbv beta. intros a Ha. lia. }
    { rewrite D8, N.eqb_refl. intros root Hr1. rewrite Ed1 in Hr1.
      change ROOT_STREAM_ID with 0 in Hr1. rewrite nthN_updN_same in Hr1 by exact Hrlt. injection Hr1 as <-.
      cbn [set_start_len d_len]. rewrite lenN_app, Hrlen. cbn [lenN]. unfold MINI_SECTOR_LEN.
      replace (64 * lenN (minifat s) + 64) with ((lenN (minifat s) + 1) * 64) by lia.
      rewrite N.div_mul by lia. lia. }
    rewrite D8, N.eqb_refl in Hmf2.
    assert (mm = mfids).
    { unfold DirCoherence.minifat_ids in Hmm. rewrite D5, D9, (SA.mw_mch _ _ _ _ _ W) in Hmm. congruence. }
    subst mm.
    exists s2, (lenN (minifat s)). split.
    { unfold allocate_mini_sector. rewrite bind_get.
      assert (Hpop : pop_free_mini (S (length (mfree s))) s = (s, Ok None)).
      { cbn [pop_free_mini]. rewrite bind_get, Elast. reflexivity. }
      rewrite (bind_exec _ _ _ _ _ Hpop). rewrite bind_get.
      destruct (minifat_start s =? END_OF_CHAIN) eqn:Es; [apply N.eqb_eq in Es; contradiction|].
      assert (Hgrow : (do c <- chain_new (minifat_start s) IFat;
                       if lenN (c_ids c) * (slen s / 4) <=? lenN (minifat s)
                       then do _ <- extend_chain (minifat_start s) IFat;
                            do c2 <- chain_new (minifat_start s) IFat;
                            header_write HDR_OFF_NUM_MINIFAT (le_bytes 4 (lenN (c_ids c2)))
                       else ret tt) s = (s, Ok tt)).
      { rewrite (bind_exec _ _ _ _ _ (chain_new_exec s _ IFat mfids (SA.mw_mch _ _ _ _ _ W))). cbn [c_ids].
        pose proof (SA.slen_div4 s _ _ Hmcap).
        destruct (lenN mfids * (slen s / 4) <=? lenN (minifat s)) eqn:E; [lia | reflexivity]. }
      rewrite (bind_exec _ _ _ _ _ Hgrow). rewrite bind_get. cbv zeta.
      assert (Happ : append_mini_sector s = (s1, Ok tt)).
      { unfold append_mini_sector, root_entry.
        rewrite (bind_exec _ _ _ _ _ (dir_entry_exec s _ r Hr)).
        assert (Emod : d_len r mod MINI_SECTOR_LEN = 0).
        { rewrite Hrlen. unfold MINI_SECTOR_LEN. rewrite N.mul_comm. apply N.mod_mul. lia. }
        rewrite Emod. cbn [N.eqb negb]. rewrite bind_ret.
        (* the repaired crate's test: exactly [RootFits s 1] (and the sector-count bound) *)
        rewrite bind_get.
        pose proof (SA.mroom_append_bound s (lenN (minifat s) + 1) Hbcap Hrf) as Hbd1.
        destruct (N.min (MAX_REGULAR_SECTOR * slen s) (stream_len_mask (ver s)) <? d_len r + MINI_SECTOR_LEN) eqn:Eb;
          [apply N.ltb_lt in Eb; rewrite Hrlen in Eb; unfold MINI_SECTOR_LEN in Eb; lia|].
        rewrite bind_ret.
        destruct (d_start r =? END_OF_CHAIN) eqn:Er; [apply N.eqb_eq in Er; contradiction|].
        assert (Hns : (do c <- chain_new (d_start r) IZero;
                       do s0 <- get;
                       (if chain_len (slen s0) c <=? d_len r
                        then do _ <- extend_chain (d_start r) IZero; ret tt else ret tt);;
                       ret (d_start r)) s = (s, Ok (d_start r))).
        { rewrite (bind_exec _ _ _ _ _ (chain_new_exec s _ IZero rids (SA.mw_rch _ _ _ _ _ W))).
          rewrite bind_get. unfold chain_len. cbn [c_ids]. rewrite Hrlen.
          destruct (slen s * lenN rids <=? 64 * lenN (minifat s)) eqn:E; [lia | reflexivity]. }
        rewrite (bind_exec _ _ _ _ _ Hns). exact E1. }
      rewrite (bind_exec _ _ _ _ _ (dir_entry_exec s _ r Hr : root_entry s = (s, Ok r))).
      replace (d_len r <? (lenN (minifat s) + 1) * MINI_SECTOR_LEN) with true
        by (symmetry; apply N.ltb_lt; rewrite Hrlen; unfold MINI_SECTOR_LEN; lia).
      rewrite (bind_exec _ _ _ _ _ Happ).
      rewrite (bind_exec _ _ _ _ _ E2). reflexivity. }
    split.
    { apply Coherent_CohM. split; [exact HM2|]. rewrite Hmf2, lastN_snoc. intro E. assert (Hq : END_OF_CHAIN = FREE_SECTOR) by congruence. markers. lia. }
    split; [eapply MD_frameM; [exact Hmd1|exact F2]|].
    assert (Hlen_reg : lenN (minifat s) <= MAX_REGULAR_SECTOR) by lia.
    split.
    { rewrite Hmf2. intros x Hx.
      pose proof (nthN_Some_lt _ _ _ _ Hx) as Hxl. rewrite lenN_app in Hxl. cbn [lenN] in Hxl.
      destruct (N.eq_dec x (lenN (minifat s))) as [->|Hne].
      - rewrite nthN_app_r in Hx by lia. rewrite N.sub_diag in Hx. cbn in Hx. assert (Hq : END_OF_CHAIN = FREE_SECTOR) by congruence. markers. lia.
      - rewrite nthN_app_l in Hx by lia. intros i Hi.
        destruct (N.lt_ge_cases i (lenN (minifat s))) as [Hil|Hig].
        + rewrite nthN_app_l in Hi by exact Hil. exact (Hfu x Hx i Hi).
        + rewrite nthN_app_r in Hi by exact Hig. apply nthN_In in Hi. destruct Hi as [Hi|[]]. markers. lia. }
    split; [rewrite Hmf2; unfold fat_set; rewrite N.eqb_refl; reflexivity|]. split; [lia|].
    split.
    { rewrite Hmf2. intros i Hi.
      destruct (N.lt_ge_cases i (lenN (minifat s))) as [Hil|Hig].
      - rewrite nthN_app_l in Hi by exact Hil.
        pose proof (cm_mini_valid s HM) as Hv. apply WalkProofs.check_pointees_spec in Hv.
        destruct Hv as (P1 & _). rewrite Forall_forall in P1.
        assert (Hin : In (lenN (minifat s)) (regs (minifat s))).
        { unfold WalkProofs.regs. apply filter_In. split; [eapply nthN_In; exact Hi|apply regular_spec; exact Hlen_reg]. }
        specialize (P1 _ Hin). lia.
      - rewrite nthN_app_r in Hi by exact Hig. apply nthN_In in Hi. destruct Hi as [Hi|[]]. markers. lia. }
    split; [intros w Hw; apply nthN_Some_lt in Hw; lia|].
    eapply frameM_trans.
    + eapply frameM_weaken; [|apply dframe_frameM; exact Fd]. intros x Hx. apply in_or_app. right. exact Hx.
    + eapply frameM_weaken; [|exact F2]. intros x Hx. apply in_or_app. left. exact Hx.
Qed.

Lemma RootFits_le : forall s k k', k' <= k -> RootFits s k -> RootFits s k'.
Proof. unfold RootFits. intros. lia. Qed.

(* the auxiliary facts every mini-level step keeps *)
Definition MiniOK (s : cstate) : Prop := Coherent s /\ MD s /\ FreeUnref (minifat s).

(* one more mini sector at the end of a mini chain *)
Lemma mini_extend_coh : forall s mids r rids mfids dids,
  MiniOK s -> SA.MWf_at s r rids mfids dids ->
  path (minifat s) (hd END_OF_CHAIN mids) mids ->
  SA.mroom s rids mfids 1 -> RootFits s 1 ->
  exists s' x,
    SA.extend_or_begin mids s = (s', Ok x) /\ MiniOK s' /\
    SA.fresh (minifat s) x /\ lenN (minifat s') <= lenN (minifat s) + 1 /\
    frameM (mfids ++ dids) s s' /\
    (forall y, y <= MAX_REGULAR_SECTOR -> unref (minifat s) y -> y <> x -> unref (minifat s') y) /\
    (mids = [] -> unref (minifat s') x) /\
    nthN (minifat s') x = Some END_OF_CHAIN /\ x < lenN (minifat s').
Proof.
  intros s mids r rids mfids dids (HC & Hmd & Hfu) W Hp Hroom Hrf.
  destruct (alloc_mini_coh s r rids mfids dids HC Hmd Hfu W Hroom Hrf)
    as (s1 & x & Ea & HC1 & Hmd1 & Hfu1 & Hmf1 & Hxle & Hxun & Hfresh & F1).
  destruct (SA.alloc_mini_step s END_OF_CHAIN r rids mfids dids W Hroom)
    as (s1' & x' & Ea' & _ & _ & _ & _ & _ & W1 & _).
  rewrite Ea in Ea'. injection Ea' as <- <-.
  pose proof (SA.mw_bound _ _ _ _ _ W1) as Hbd1.
  assert (Hlen1 : lenN (minifat s) <= lenN (minifat s1) /\ lenN (minifat s1) <= lenN (minifat s) + 1).
  { rewrite Hmf1. unfold fat_set. destruct (x =? lenN (minifat s)); [rewrite lenN_app; cbn [lenN]|rewrite lenN_updN]; lia. }
  assert (Hxlt1 : x < lenN (minifat s1)).
  { rewrite Hmf1. unfold fat_set. destruct (x =? lenN (minifat s)) eqn:Ex;
      [rewrite lenN_app; cbn [lenN]|rewrite lenN_updN]; lia. }
  assert (Hxreg : x <= MAX_REGULAR_SECTOR) by lia.
  assert (Hcell1 : nthN (minifat s1) x = Some END_OF_CHAIN)
    by (rewrite Hmf1; apply nthN_fat_set_same; exact Hxle).
  assert (Hoth1 : forall y, y <> x -> nthN (minifat s1) y = nthN (minifat s) y)
    by (intros y Hy; rewrite Hmf1; apply nthN_fat_set_other; [exact Hy | exact Hxle]).
  assert (Hmono1 : forall y, y <= MAX_REGULAR_SECTOR -> unref (minifat s) y -> unref (minifat s1) y).
  { intros y Hy Hu i Hi. destruct (N.eq_dec i x) as [->|Hix].
    - rewrite Hcell1 in Hi. markers. assert (END_OF_CHAIN = y) by congruence. lia.
    - rewrite (Hoth1 i Hix) in Hi. exact (Hu i Hi). }
  assert (Hxmids : ~ In x mids) by (intro Hin; exact (SA.path_not_fresh _ _ _ _ Hp Hin Hfresh)).
  unfold SA.extend_or_begin.
  destruct (lastN mids) as [last|] eqn:Elast.
  - pose proof (lastN_Some_snoc _ _ _ Elast) as Emids.
    set (l := pop_last mids) in *.
    pose proof Hp as Hp0. rewrite Emids in Hp0.
    pose proof (path_last_EOC _ _ _ _ Hp0) as Hnx.
    pose proof (WalkProofs.next_of_lt _ _ _ Hnx) as Hlast_lt.
    assert (Hlast_ne : last <> END_OF_CHAIN).
    { apply path_mid in Hp0. inversion Hp0 as [|cur nx l' Hc Hn' Hp']. exact Hc. }
    assert (Hlast_in : In last mids) by (rewrite Emids; apply in_or_app; right; left; reflexivity).
    assert (Hlx : last <> x) by (intro E; subst x; contradiction).
    assert (Hlast_cell1 : nthN (minifat s1) last = Some END_OF_CHAIN).
    { rewrite (Hoth1 last Hlx). apply WalkProofs.next_of_Ok in Hnx. apply Hnx. }
    destruct (SA.set_minifat_fr s1 last x mfids) as (s2 & E2 & _).
    { lia. } { apply W1. } { apply W1. }
    { pose proof (SA.mw_mcap _ _ _ _ _ W1). lia. }
    pose proof HC1 as HC1'. apply Coherent_CohM in HC1'. destruct HC1' as [HM1 Hlast1].
    destruct irregular_marks as [IE IF].
    destruct (set_minifat_cohm s1 last x s2 HM1 Hmd1 ltac:(change (2 ^ 32) with 4294967296; markers; lia) E2)
      as (HM2 & Hmf2 & Hd2 & Hmfr2 & _ & mm & Hmm & F2).
    { destruct (last =? lenN (minifat s1)) eqn:E0; [apply N.eqb_eq in E0; lia|].
      pose proof (cm_mini_valid s1 HM1) as Hv. apply WalkProofs.check_pointees_spec in Hv.
      destruct Hv as (P1 & P2 & _ & _).
      pose proof (regs_updN (minifat s1) last END_OF_CHAIN x Hlast_cell1 IE
                    ltac:(apply regular_spec; exact Hxreg)) as HP.
      apply WalkProofs.check_pointees_spec. rewrite lenN_updN.
      split; [|split; [|split; [intros y _ []|discriminate]]].
      - eapply Permutation_Forall; [apply Permutation_sym; exact HP|]. constructor; assumption.
      - eapply Permutation_NoDup; [apply Permutation_sym; exact HP|]. constructor; [|exact P2].
        apply unref_regs; assumption. }
    { intros root Hr. destruct (last =? lenN (minifat s1)) eqn:E0; [apply N.eqb_eq in E0; lia|].
      rewrite lenN_updN. exact (cm_fits s1 HM1 root Hr). }
    destruct (last =? lenN (minifat s1)) eqn:E0; [apply N.eqb_eq in E0; lia|].
    assert (mm = mfids).
    { unfold DirCoherence.minifat_ids in Hmm. rewrite (SA.mw_mch _ _ _ _ _ W1) in Hmm. congruence. }
    subst mm.
    exists s2, x. split.
    { unfold extend_mini_chain.
      destruct (last =? END_OF_CHAIN) eqn:E; [apply N.eqb_eq in E; contradiction|].
      rewrite bind_get. rewrite (find_last_at_end _ _ Hnx). rewrite bind_lift_ok.
      rewrite (bind_exec _ _ _ _ _ Ea). rewrite (bind_exec _ _ _ _ _ E2). reflexivity. }
    assert (Hxne : x <> FREE_SECTOR /\ x <> END_OF_CHAIN) by (markers; lia).
    split.
    { split; [|split].
      - apply Coherent_CohM. split; [exact HM2|]. rewrite Hmf2. intro Hl.
        destruct (lastN_updN_cases _ _ _ _ Hl) as [E1|E1]; [symmetry in E1; apply (proj1 Hxne); exact E1|contradiction].
      - eapply MD_frameM; [exact Hmd1|exact F2].
      - rewrite Hmf2. intros y Hy. destruct (N.eq_dec y last) as [->|Hne].
        + rewrite nthN_updN_same in Hy by lia. exfalso. apply (proj1 Hxne). congruence.
        + rewrite nthN_updN_other in Hy by congruence. apply unref_updN; [exact (Hfu1 y Hy)|].
          intro E. subst y. rewrite Hcell1 in Hy. assert (END_OF_CHAIN = FREE_SECTOR) by congruence. markers. lia. }
    split; [exact Hfresh|]. split; [rewrite Hmf2, lenN_updN; lia|]. split.
    { eapply frameM_trans; [exact F1|]. eapply frameM_weaken; [|exact F2].
      intros y Hy. apply in_or_app. left. exact Hy. }
    split; [intros y Hy Hu Hyx; rewrite Hmf2; apply unref_updN; [exact (Hmono1 y Hy Hu)|]; congruence|].
    split; [intros ->; discriminate Elast|].
    split; [rewrite Hmf2, nthN_updN_other by exact Hlx; exact Hcell1|rewrite Hmf2, lenN_updN; exact Hxlt1].
  - exists s1, x. split; [exact Ea|]. split; [split; [exact HC1|split; assumption]|].
    split; [exact Hfresh|]. split; [lia|]. split; [exact F1|].
    split; [intros y Hy Hu _; exact (Hmono1 y Hy Hu)|]. split; [intros _; exact Hxun|].
    split; [exact Hcell1|exact Hxlt1].
Qed.

Lemma mchain_grow_coh : forall k s mids o r rids mfids dids,
  MiniOK s -> SA.MWf_at s r rids mfids dids ->
  path (minifat s) (hd END_OF_CHAIN mids) mids ->
  SA.mroom s rids mfids (N.of_nat k) -> RootFits s (N.of_nat k) ->
  exists s' news,
    mchain_grow k (mkMChain mids o) s = (s', Ok (mkMChain (mids ++ news) o)) /\ MiniOK s' /\
    (forall x, In x news -> SA.fresh (minifat s) x) /\
    lenN (minifat s') <= lenN (minifat s) + N.of_nat k /\
    frameM (mfids ++ dids) s s' /\
    (forall y, y <= MAX_REGULAR_SECTOR -> unref (minifat s) y -> ~ In y news -> unref (minifat s') y) /\
    (mids = [] -> news <> [] -> unref (minifat s') (hd END_OF_CHAIN news)).
Proof.
  induction k as [|k IH]; intros s mids o r rids mfids dids HOK W Hp Hroom Hrf.
  - exists s, []. cbn [mchain_grow]. rewrite app_nil_r.
    split; [reflexivity|]. split; [exact HOK|]. split; [intros x []|]. split; [cbn; lia|].
    split; [apply frameM_refl|]. split; [auto|intros _ H; contradiction].
  - assert (Hr1 : SA.mroom s rids mfids 1) by (eapply SA.mroom_le; [|exact Hroom]; lia).
    assert (Hf1 : RootFits s 1) by (eapply RootFits_le; [|exact Hrf]; lia).
    destruct (mini_extend_coh s mids r rids mfids dids HOK W Hp Hr1 Hf1)
      as (s1 & x & E1 & HOK1 & Fx & Hl1 & F1 & Hm1 & Hx0 & Hxc & Hxl).
    destruct (SA.mini_extend_step s mids r rids mfids dids 0 W Hp Hr1)
      as (s1' & x' & r1 & E1' & W1 & P1 & _ & _ & M1 & _ & R1).
    rewrite E1 in E1'. injection E1' as <- <-.
    assert (Hrk : SA.mroom s1 rids mfids (N.of_nat k)).
    { apply R1. replace (N.of_nat k + 1) with (N.of_nat (S k)) by lia. exact Hroom. }
    assert (Hfk : RootFits s1 (N.of_nat k)).
    { unfold RootFits in *. destruct F1 as (Fv & _). rewrite Fv. lia. }
    destruct (IH s1 (mids ++ [x]) o r1 rids mfids dids HOK1 W1 P1 Hrk Hfk)
      as (s' & news & E' & HOK' & F' & Hl' & FM' & Hm' & _).
    rewrite <- app_assoc in E'. cbn [app] in E'.
    exists s', (x :: news). split.
    { cbn [mchain_grow mc_ids mc_off]. unfold SA.extend_or_begin in E1.
      rewrite (bind_exec _ _ _ _ _ E1). exact E'. }
    split; [exact HOK'|]. split.
    { intros y [<-|Hy]; [exact Fx|]. eapply SA.fresh_back; [exact M1|exact P1|exact (F' y Hy)]. }
    split; [lia|]. split; [eapply frameM_trans; eassumption|]. split.
    + intros y Hy Hu Hn. apply Hm'; [exact Hy| |intro Hin; apply Hn; right; exact Hin].
      apply Hm1; [exact Hy|exact Hu|]. intro E. apply Hn. left. symmetry. exact E.
    + intros Hm0 _. cbn [hd]. pose proof (SA.mw_bound _ _ _ _ _ W1).
      apply Hm'; [lia|exact (Hx0 Hm0)|].
      intro Hin. pose proof (F' x Hin END_OF_CHAIN Hxc). markers. lia.
Qed.

(* ---- the tree part after ANY store call on a stream: the table differs at
        most in the entries of the stream and of the root, and there in start /
        length only (HandleFrame.framesR_resize / framesR_write_data) ---- *)
Lemma TreePart_DF : forall s s' id,
  TreePart s -> Coherent s' -> ver s' = ver s ->
  DF (PR id) (dirs s) (dirs s') ->
  (forall e, nthN (dirs s) id = Some e -> id <> ROOT_STREAM_ID -> d_type e = TStream) ->
  TreePart s'.
Proof.
  intros s s' id [Hents Hroot Htree] HC' Hv [HL HD] Hty.
  assert (Hback : forall j e', nthN (dirs s') j = Some e' ->
            exists e, nthN (dirs s) j = Some e /\ (if PR id j then same_meta_ent e e' else e' = e)).
  { intros j e' He'. pose proof (nthN_Some_lt _ _ _ _ He') as Hlt. rewrite HL in Hlt.
    destruct (WalkProofs.nthN_lt_Some (dirs s) j Hlt) as [e He].
    destruct (HD j e He) as (e'' & He'' & R). assert (e'' = e') by congruence. subst e''. exists e. auto. }
  destruct Hroot as (root & Hr & R1 & R2 & R3 & R4).
  destruct (HD _ _ Hr) as (root' & Hr' & Rr). rewrite PR_root in Rr.
  destruct (same_meta_ent_fields _ _ Rr) as (_ & _ & _ & Rl & Rrt & _).
  constructor.
  - apply Forall_nthN. intros j e' He'. destruct (Hback j e' He') as (e & He & R).
    rewrite Forall_nthN in Hents. destruct (Hents j e He) as (_ & B & (L1 & L2 & L3)).
    split; [apply (ch_dir_wf s' HC'); eapply nthN_In; exact He'|].
    destruct (PR id j).
    + destruct (same_meta_ent_fields _ _ R) as (_ & Ft & Fc & Fl & Fr & Fch & _).
      split; [unfold black_ok; rewrite Ft, Fc; exact B|]. unfold noroot_links. rewrite Fl, Fr, Fch. auto.
    + subst e'. split; [exact B|]. unfold noroot_links. auto.
  - exists root'. split; [exact Hr'|]. rewrite Rl, Rrt. split; [exact R1|]. split; [exact R2|].
    pose proof (ch_dir_valid s' HC') as Hv1. unfold dir_validate in Hv1.
    destruct (dirs s') as [|r0 tl] eqn:Ed; [discriminate Hv1|].
    change ROOT_STREAM_ID with 0 in Hr'. cbn [nthN N.eqb] in Hr'. injection Hr' as ->.
    split.
    + destruct (d_len root' mod MINI_SECTOR_LEN =? 0) eqn:E; [apply N.eqb_eq in E; exact E|discriminate Hv1].
    + apply (ch_mini_fits s' HC' root'). rewrite Ed. reflexivity.
  - (* the tree: first the entry of the stream, then the root *)
    assert (Hstep : exists ds1, TreeInv ds1 /\ MutRefine.RootLen ds1 (dirs s')).
    { destruct (N.eq_dec id ROOT_STREAM_ID) as [Eid|Hid].
      - exists (dirs s). split; [exact Htree|]. split; [exact HL|]. split.
        + intros i Hi. apply (DF_other (PR id)); [split; assumption|].
          unfold PR. subst id. apply orb_false_iff. split; apply N.eqb_neq; exact Hi.
        + intros e0 He0. assert (e0 = root) by congruence. subst e0.
          exists (d_start root'), (d_len root'). rewrite Hr'. f_equal. exact Rr.
      - destruct (nthN (dirs s) id) as [e|] eqn:He.
        + destruct (HD id e He) as (e' & He' & Re). rewrite PR_id in Re.
          exists (updN (dirs s) id (set_start_len e (d_start e') (d_len e'))). split.
          * apply TreeInv_startlen; [exact He|exact (Hty e eq_refl Hid)|exact Htree].
          * split; [rewrite lenN_updN; exact HL|]. split.
            -- intros i Hi. destruct (N.eq_dec i id) as [->|Hii].
               ++ rewrite nthN_updN_same by (eapply nthN_Some_lt; exact He). rewrite He'. f_equal. exact Re.
               ++ rewrite nthN_updN_other by congruence. apply (DF_other (PR id)); [split; assumption|].
                  unfold PR. apply orb_false_iff. split; apply N.eqb_neq; assumption.
            -- intros e0 He0. rewrite nthN_updN_other in He0 by congruence.
               assert (e0 = root) by congruence. subst e0.
               exists (d_start root'), (d_len root'). rewrite Hr'. f_equal. exact Rr.
        + exists (dirs s). split; [exact Htree|]. split; [exact HL|]. split.
          * intros i Hi. destruct (N.eq_dec i id) as [->|Hii].
            -- rewrite He. apply nthN_None_ge in He.
               destruct (nthN (dirs s') id) eqn:E'; [|reflexivity]. apply nthN_Some_lt in E'. lia.
            -- apply (DF_other (PR id)); [split; assumption|].
               unfold PR. apply orb_false_iff. split; apply N.eqb_neq; assumption.
          * intros e0 He0. assert (e0 = root) by congruence. subst e0.
            exists (d_start root'), (d_len root'). rewrite Hr'. f_equal. exact Rr. }
    destruct Hstep as (ds1 & (t & HT & HU) & HRL).
    destruct (MutRefine.rootlen_tree ctrue _ _ t HRL HT HU) as [HT1 HU1]. exists t. split; assumption.
Qed.

(* a write inside the mini stream (sectors of the root chain only) *)
Lemma miniok_root_dframe : forall s s' r rids mfids dids,
  MiniOK s -> SA.MWf_at s r rids mfids dids ->
  dframe rids s s' -> dirs s' = dirs s -> MiniOK s'.
Proof.
  intros s s' r rids mfids dids (HC & Hmd & Hfu) W F Hd.
  pose proof F as (F1 & F2 & F3 & F4 & F5 & F6 & F7 & F8 & _).
  split; [|split].
  - apply Coherent_split. apply Coherent_split in HC. destruct HC as [C DP]. split.
    + eapply (core_dframe rids); [exact C|exact F| |].
      * eapply chain_avoids_difat; [exact C|exact (SA.mw_rch _ _ _ _ _ W)].
      * intros m Hm. unfold DirCoherence.minifat_ids in Hm. rewrite (SA.mw_mch _ _ _ _ _ W) in Hm.
        injection Hm as <-. exact (SA.mw_rm _ _ _ _ _ W).
    + eapply DirPart_dframe; [exact DP|exact F|exact Hd|].
      intros d Hd'. unfold DirCoherence.dir_ids in Hd'. rewrite (SA.mw_dch _ _ _ _ _ W) in Hd'.
      injection Hd' as <-. exact (SA.mw_rd _ _ _ _ _ W).
  - eapply MD_frameM; [exact Hmd|apply dframe_frameM; exact F].
  - rewrite F8. exact Hfu.
Qed.

Lemma zero_fill_mchain_miniok : forall s r rids mfids dids mall from to o,
  MiniOK s -> SA.MWf_at s r rids mfids dids -> path (minifat s) (hd END_OF_CHAIN mall) mall ->
  from <= 64 * lenN mall -> to <= 64 * lenN mall ->
  exists s' o',
    zero_fill_mchain (mkMChain mall o) from to s = (s', Ok (mkMChain mall o')) /\
    MiniOK s' /\ dframe rids s s' /\ dirs s' = dirs s.
Proof.
  intros s r rids mfids dids mall from to o HOK W Hp Hfrom Hto.
  unfold zero_fill_mchain. destruct (from <? to) eqn:E.
  - pose proof (SA.good_mchain_of_path _ _ _ _ _ _ _ W Hp) as Hgm.
    destruct (mchain_write_dframe s rids (mkMChain mall from) (repeatN 0 (to - from)) Hgm) as (s' & Hw & F & Hd).
    { unfold mchain_len. cbn [mc_ids mc_off]. rewrite MSL_64, lenN_repeatN. lia. }
    cbn [mc_ids mc_off] in Hw.
    exists s', (from + lenN (repeatN 0 (to - from) : list byte)). sred.
    rewrite (mchain_seek_ok s mall o from) by lia. rewrite Hw.
    split; [reflexivity|]. split; [eapply miniok_root_dframe; eassumption|]. split; assumption.
  - exists s, o. split; [reflexivity|]. split; [exact HOK|]. split; [apply dframe_refl|reflexivity].
Qed.

(* executing resize, small to small *)
Lemma resize_small_run : forall s id e mids mall s1 s2 o2 new_len s',
  nthN (dirs s) id = Some e -> d_type e = TStream ->
  0 < d_len e -> d_len e < MINI_STREAM_CUTOFF -> d_start e <> END_OF_CHAIN ->
  0 < new_len -> new_len < MINI_STREAM_CUTOFF ->
  chain_ids_of (minifat s) (d_start e) = Ok mids ->
  mchain_set_len (mkMChain mids 0) new_len s = (s1, Ok (mkMChain mall 0)) ->
  zero_fill_mchain (mkMChain mall 0) (d_len e) new_len s1 = (s2, Ok (mkMChain mall o2)) ->
  hd END_OF_CHAIN mall = d_start e ->
  update_entry id (d_start e) new_len s2 = (s', Ok tt) ->
  resize id new_len s = (s', Ok tt).
Proof.
  intros s id e mids mall s1 s2 o2 new_len s' He Ht Hpos Hcut Hst Hpos' Hcut' Hch Hset Hz Hhd Hu.
  unfold resize. sred.
  rewrite (stream_entry_ok s id e He Ht). sred.
  assert (E0 : (MAX_REGULAR_SECTOR * slen s <? new_len) = false).
  { pose proof (ChainProofs.slen_pos s). apply N.ltb_ge. rewrite MAXREG_val. rewrite CUTOFF_val in *. nia. }
  rewrite E0. sred.
  rewrite (mask_check_false s new_len) by (apply small_fits_mask; lia). sred.
  assert (E2 : (d_start e =? END_OF_CHAIN) = false) by lia. rewrite E2.
  assert (E3 : (d_len e <? MINI_STREAM_CUTOFF) = true) by lia. rewrite E3.
  assert (E4 : (new_len =? 0) = false) by lia. rewrite E4.
  assert (E5 : (new_len <? MINI_STREAM_CUTOFF) = true) by lia. rewrite E5.
  rewrite (mchain_new_ok s _ mids Hch). rewrite Hset. rewrite Hz.
  assert (E7 : negb (mchain_start (mkMChain mall o2) =? d_start e) = false).
  { rewrite SA.mchain_start_hd, Hhd, N.eqb_refl. reflexivity. }
  rewrite E7. exact Hu.
Qed.

Lemma swf_witness_fun : forall s r rids mfids dids X r' rids' mfids' dids' X',
  SA.SWfX_at s r rids mfids dids X -> SA.SWfX_at s r' rids' mfids' dids' X' ->
  r' = r /\ rids' = rids /\ mfids' = mfids /\ dids' = dids.
Proof.
  intros s r rids mfids dids X r' rids' mfids' dids' X' A B.
  pose proof (SA.sw_m _ _ _ _ _ _ A) as W. pose proof (SA.sw_m _ _ _ _ _ _ B) as W'.
  assert (r' = r).
  { pose proof (SA.mw_root _ _ _ _ _ W). pose proof (SA.mw_root _ _ _ _ _ W'). congruence. }
  subst r'. split; [reflexivity|].
  pose proof (SA.mw_rch _ _ _ _ _ W). pose proof (SA.mw_rch _ _ _ _ _ W').
  pose proof (SA.mw_mch _ _ _ _ _ W). pose proof (SA.mw_mch _ _ _ _ _ W').
  pose proof (SA.mw_dch _ _ _ _ _ W). pose proof (SA.mw_dch _ _ _ _ _ W').
  repeat split; congruence.
Qed.

Lemma CohData'_MiniOK : forall s, CohData' s -> MiniOK s.
Proof. intros s H. split; [apply H|]. split; [apply CohData'_MD; exact H|exact (ax_mfree s (cd_aux s H))]. Qed.

(* the common end of the operations that leave stream [id] small: the mini-level
   work is done (state s2), the entry is written back with start [st] and the
   small length [ln]; StoreAlloc supplies the structural invariant of the result *)
Lemma small_finish_cohdata' : forall s s2 s' r r' rids mfids dids id e news st ln,
  CohData' s -> SD s r rids mfids dids ->
  MiniOK s2 -> nthN (dirs s2) id = Some e -> d_type e = TStream ->
  fat s2 = fat s -> free s2 = free s -> nsect s2 = nsect s -> ver s2 = ver s ->
  (forall y, y <= MAX_REGULAR_SECTOR -> unref (minifat s) y -> ~ In y news -> unref (minifat s2) y) ->
  (forall x, In x news -> SA.fresh (minifat s) x) ->
  unref (minifat s2) st -> st <= u32_max -> 0 < ln -> ln < MINI_STREAM_CUTOFF ->
  update_entry id st ln s2 = (s', Ok tt) ->
  SA.SWfX_at s' r' rids mfids dids SA.noX ->
  (forall j, j <> ROOT_STREAM_ID -> j <> id -> nthN (dirs s') j = nthN (dirs s) j) ->
  CohData' s' /\ ver s' = ver s /\ minifat s' = minifat s2 /\
  dirs s' = updN (dirs s2) id (set_start_len e st ln).
Proof.
  intros s s2 s' r r' rids mfids dids id e news st ln HCD [SW Hmdj] (HC2 & Hmd2 & Hfu2) Hn2 Ht
         Hfat2 Hfree2 Hns2 Hv2 Hm2 Hfresh Hst Hst32 Hln0 Hlnc Eu SW' Mdirs.
  pose proof HCD as [HC _ HF Hax].
  pose proof (SA.sw_m _ _ _ _ _ _ SW) as W. pose proof (SA.sw_m _ _ _ _ _ _ SW') as W'.
  destruct (update_entry_coherent s2 s' id e st ln HC2) as (HC' & Ed' & (dd & Hdd & Fu)).
  { intros d m Hd Hm. apply avoids_sym. exact (Hmd2 d m Hd Hm). }
  { exact Hn2. }
  { exact Ht. }
  { exact Hst32. }
  { apply small_fits_mask. lia. }
  { exact Eu. }
  pose proof Fu as (U1 & U2 & _ & _ & U5 & U6 & _ & U8 & _ & _).
  assert (Hfat : fat s' = fat s) by congruence.
  assert (Hid' : nthN (dirs s') id = Some (set_start_len e st ln)).
  { rewrite Ed'. apply nthN_updN_same. eapply nthN_Some_lt. exact Hn2. }
  split; [|split; [congruence|split; [exact U8|exact Ed']]].
  constructor.
  - exact HC'.
  - exists r', rids, mfids, dids. split; assumption.
  - apply (FreeClean_transfer s); [congruence|congruence|exact Hfat|exact HF].
  - constructor.
    + rewrite Hfat. exact (ax_free s Hax).
    + intros j ej Hej Hb. rewrite Hfat.
      assert (Hj : j <> id).
      { intros ->. rewrite Hid' in Hej. injection Hej as <-.
        destruct Hb as [_ Hb]. cbn [set_start_len d_len] in Hb. lia. }
      assert (Hjr : j <> ROOT_STREAM_ID).
      { intros ->. rewrite (SA.mw_root _ _ _ _ _ W') in Hej. injection Hej as <-.
        exact (SA.mw_rtype _ _ _ _ _ W' (proj1 Hb)). }
      rewrite (Mdirs j Hjr Hj) in Hej. exact (ax_heads s Hax j ej Hej Hb).
    + rewrite U8. exact Hfu2.
    + intros j ej Hej Hs. rewrite U8.
      assert (Hjr : j <> ROOT_STREAM_ID).
      { intros ->. rewrite (SA.mw_root _ _ _ _ _ W') in Hej. injection Hej as <-.
        exact (SA.mw_rtype _ _ _ _ _ W' (proj1 Hs)). }
      destruct (N.eq_dec j id) as [->|Hj].
      * rewrite Hid' in Hej. injection Hej as <-. cbn [set_start_len d_start]. exact Hst.
      * rewrite (Mdirs j Hjr Hj) in Hej.
        destruct (SA.sw_small _ _ _ _ _ _ SW j ej (SA.noX_not _) Hej Hs) as (m & Hcm & Hcovm).
        pose proof (small_head_in _ ej m Hs Hcm Hcovm) as Hin.
        pose proof (SA.path_In_lt _ _ _ _ (WalkProofs.chain_ids_path _ _ _ Hcm) Hin) as Hlt.
        pose proof (SA.mw_bound _ _ _ _ _ W).
        apply Hm2; [lia|exact (ax_mheads s Hax j ej Hej Hs)|].
        intro Hin2. exact (SA.path_not_fresh _ _ _ _ (WalkProofs.chain_ids_path _ _ _ Hcm) Hin (Hfresh _ Hin2)).
Qed.

(* ---- item 4 (1): a small stream is resized to a length that needs at least
        as many mini sectors as it has; the missing ones come from the mini free
        list or are appended within the retained capacity ---- *)
Theorem resize_small_alloc_cohdata' : forall s id V k new_len,
  CohData' s ->
  small_content s id V -> mini_sectors s id k ->
  0 < new_len -> new_len < MINI_STREAM_CUTOFF -> k <= SA.msectors new_len ->
  SA.mini_room s (SA.msectors new_len - k) -> RootFits s (SA.msectors new_len - k) ->
  exists s',
    resize id new_len s = (s', Ok tt) /\ CohData' s' /\
    (forall strict, open_model strict (concat_img (img s')) = Ok (reopened s')) /\
    small_content (reopened s') id (takeN new_len V ++ repeatN 0 (new_len - lenN V)) /\
    small_content s' id (takeN new_len V ++ repeatN 0 (new_len - lenN V)) /\
    mini_sectors s' id (SA.msectors new_len) /\ SA.others_kept s s' id /\
    (TreePart s -> TreePart s').
Proof.
  intros s id V k new_len HCD Hsc Hk Hpos' Hcut' Hle (r0 & rids0 & mfids0 & dids0 & SW0 & Hroom) Hrf.
  pose proof HCD as [HC (r & rids & mfids & dids & SW & Hmdj) HF Hax].
  destruct (swf_witness_fun _ _ _ _ _ _ _ _ _ _ _ SW SW0) as (-> & -> & -> & ->). clear SW0.
  pose proof (SA.sw_m _ _ _ _ _ _ SW) as W.
  destruct (SA.small_content_at _ _ _ _ _ _ _ W Hsc) as (e & mids & Hsm).
  pose proof (mini_sectors_small_at _ _ _ _ _ _ _ Hsm Hk) as Ek. subst k.
  rewrite <- SA.msectors_ceil in *.
  set (num := (64 + new_len - 1) / 64) in *.
  (* the functional part and the structural invariant: StoreAlloc *)
  destruct (SA.resize_small_alloc_full s id e r rids mfids dids mids V new_len W Hsm Hpos' Hle Hcut' Hroom)
    as (s' & news & r' & Hrun & Hsm' & Hlen & W' & Hfresh & M).
  destruct (SA.after_op s s' r r' rids mfids dids id _ mids news _ SW W' Hsm' Hfresh
              (SA.small_mids_avoided _ _ _ _ _ _ _ _ _ SW Hsm) M) as [SW' Hoth].
  (* the same run, phase by phase, for the bytes *)
  pose proof (small_at_lenV _ _ _ _ _ _ Hsm) as HlenV.
  destruct (small_at_start _ _ _ _ _ _ Hsm) as (Hne & Hst & Hk0).
  pose proof Hsm as (Hnth & Ht & Hcut & Hpos & Hch & Hgm & Hle0 & HV).
  assert (Hmne : mids <> []) by (intros ->; cbn [lenN] in Hk0; lia).
  assert (Hpath0 : path (minifat s) (d_start e) mids) by (apply WalkProofs.chain_ids_path; exact Hch).
  pose proof (path_hd_start _ _ _ Hpath0) as Hhd.
  assert (Hpath : path (minifat s) (hd END_OF_CHAIN mids) mids) by (rewrite <- Hhd; exact Hpath0).
  destruct (mchain_grow_coh (N.to_nat (num - lenN mids)) s mids 0 r rids mfids dids (CohData'_MiniOK s HCD) W Hpath)
    as (s1 & news1 & Eg & HOK1 & Ffr1 & Hl1 & FM1 & Hm1).
  { rewrite N2Nat.id. exact Hroom. }
  { rewrite N2Nat.id. exact Hrf. }
  destruct (SA.mchain_grow_spec (N.to_nat (num - lenN mids)) s mids 0 r rids mfids dids ROOT_STREAM_ID W Hpath)
    as (s1' & news' & r1 & Eg' & Ln & W1 & P1 & _ & M1 & _).
  { rewrite N2Nat.id. exact Hroom. }
  rewrite Eg in Eg'. injection Eg' as <- Enw. apply app_inv_head in Enw. subst news'.
  rewrite N2Nat.id in Ln.
  set (mall := mids ++ news1) in *.
  assert (Hhd' : hd END_OF_CHAIN mall = d_start e)
    by (unfold mall; rewrite SA.hd_app_ne by exact Hmne; symmetry; exact Hhd).
  assert (Hnum : new_len <= 64 * num /\ 64 * num < new_len + 64) by (unfold num; lia).
  destruct (zero_fill_mchain_miniok s1 r1 rids mfids dids mall (d_len e) new_len 0 HOK1 W1 P1)
    as (s2 & o2 & Ez & HOK2 & F2 & Hd2); [unfold mall; rewrite lenN_app; lia|unfold mall; rewrite lenN_app; lia|].
  destruct (SA.zero_fill_small s1 r1 rids mfids dids id mall (d_len e) new_len 0 W1 P1)
    as (s2' & o2' & Ez' & W2 & Hmf2 & _); [unfold mall; rewrite lenN_app; lia|unfold mall; rewrite lenN_app; lia|].
  rewrite Ez in Ez'. injection Ez' as <- <-.
  pose proof (SA.small_not_root _ _ _ _ _ _ _ W Hnth Ht) as Hidr.
  assert (Hn2 : nthN (dirs s2) id = Some e).
  { rewrite Hd2, (SA.mframe_entry _ _ _ _ _ _ id M1 Hidr). exact Hnth. }
  assert (P2 : path (minifat s2) (hd END_OF_CHAIN mall) mall) by (rewrite Hmf2; exact P1).
  destruct (SA.finish_small s2 id e r1 rids mfids dids mall new_len W2 Hn2 Ht P2)
    as (s'' & Eu & _); [lia|lia|unfold mall; rewrite lenN_app; lia|].
  rewrite Hhd' in Eu.
  assert (Hrun' : resize id new_len s = (s'', Ok tt)).
  { refine (resize_small_run s id e mids mall s1 s2 o2 new_len s'' Hnth Ht Hpos Hcut Hne Hpos' Hcut' Hch _ Ez Hhd' Eu).
    rewrite (SA.mchain_set_len_grow s (mkMChain mids 0) new_len Hcut' Hpos' Hle). cbn [mc_ids].
    fold num. exact Eg. }
  assert (s'' = s') by congruence. subst s''.
  destruct HOK2 as (HC2 & Hmd2 & Hfu2).
  destruct (update_entry_coherent s2 s' id e (d_start e) new_len HC2) as (HC' & Ed' & (dd & Hdd & Fu)).
  { intros d m Hd Hm. apply avoids_sym. exact (Hmd2 d m Hd Hm). }
  { exact Hn2. }
  { exact Ht. }
  { apply (CodecProofs.wf_start (ver s) e). apply (ch_dir_wf s HC). eapply nthN_In. exact Hnth. }
  { apply small_fits_mask. lia. }
  { exact Eu. }
  pose proof Fu as (U1 & U2 & _ & _ & U5 & U6 & _ & U8 & _ & _).
  pose proof F2 as (G1 & G2 & _ & _ & G5 & G6 & _ & G8 & _ & _).
  pose proof FM1 as (K1 & K2 & _ & _ & K5 & K6 & _).
  assert (Hmfeq : minifat s' = minifat s1) by congruence.
  assert (Hfat : fat s' = fat s) by congruence.
  pose proof M as (Msh & _ & Mdirs & _).
  assert (HCD' : CohData' s').
  { constructor.
    - exact HC'.
    - exists r', rids, mfids, dids. split; assumption.
    - apply (FreeClean_transfer s); [congruence|congruence|exact Hfat|exact HF].
    - constructor.
      + rewrite Hfat. exact (ax_free s Hax).
      + intros j ej Hej Hb. rewrite Hfat.
        assert (Hj : j <> id).
        { intros ->. destruct Hsm' as (Hn' & _ & Hc' & _). rewrite Hn' in Hej. injection Hej as <-.
          destruct Hb as [_ Hb]. cbn [set_start_len d_len] in Hb. lia. }
        assert (Hjr : j <> ROOT_STREAM_ID).
        { intros ->. rewrite (SA.mw_root _ _ _ _ _ W') in Hej. injection Hej as <-.
          exact (SA.mw_rtype _ _ _ _ _ W' (proj1 Hb)). }
        rewrite (Mdirs j Hjr Hj) in Hej. exact (ax_heads s Hax j ej Hej Hb).
      + rewrite Hmfeq. destruct HOK1 as (_ & _ & Hfu1). exact Hfu1.
      + intros j ej Hej Hs. rewrite Hmfeq.
        assert (Hjr : j <> ROOT_STREAM_ID).
        { intros ->. rewrite (SA.mw_root _ _ _ _ _ W') in Hej. injection Hej as <-.
          exact (SA.mw_rtype _ _ _ _ _ W' (proj1 Hs)). }
        assert (Hhead : forall e0, nthN (dirs s) j = Some e0 -> SA.small_entry e0 ->
                  d_start ej = d_start e0 -> unref (minifat s1) (d_start ej)).
        { intros e0 He0 Hs0 Est. rewrite Est.
          destruct (SA.sw_small _ _ _ _ _ _ SW j e0 (SA.noX_not _) He0 Hs0) as (m & Hcm & Hcovm).
          pose proof (small_head_in _ e0 m Hs0 Hcm Hcovm) as Hin.
          pose proof (SA.path_In_lt _ _ _ _ (WalkProofs.chain_ids_path _ _ _ Hcm) Hin) as Hlt.
          pose proof (SA.mw_bound _ _ _ _ _ W).
          apply Hm1; [lia|exact (ax_mheads s Hax j e0 He0 Hs0)|].
          intro Hin2. exact (SA.path_not_fresh _ _ _ _ (WalkProofs.chain_ids_path _ _ _ Hcm) Hin (Ffr1 _ Hin2)). }
        destruct (N.eq_dec j id) as [->|Hj].
        * destruct Hsm' as (Hn' & _). rewrite Hn' in Hej. injection Hej as <-.
          apply (Hhead e Hnth (SA.small_at_entry _ _ _ _ _ _ Hsm)). reflexivity.
        * rewrite (Mdirs j Hjr Hj) in Hej. apply (Hhead ej Hej Hs). reflexivity. }
  exists s'. split; [exact Hrun|]. split; [exact HCD'|]. split; [exact (cohdata'_reopens s' HCD')|].
  assert (Hsc' : small_content s' id (takeN new_len V ++ repeatN 0 (new_len - lenN V)))
    by (eexists _, rids, _; exact Hsm').
  split; [exact (small_content_same_store s' (reopened s') (same_store_reopened s') _ _ Hsc')|].
  split; [exact Hsc'|]. split.
  { fold num in Hlen. rewrite <- Hlen. exact (small_at_mini_sectors _ _ _ _ _ _ Hsm'). }
  split; [exact Hoth|].
  intro HTP. apply (TreePart_DF s s' id HTP HC').
  - destruct Msh as (_ & Mv & _). exact Mv.
  - pose proof (framesR_resize id new_len s) as D. rewrite Hrun in D. exact D.
  - intros e0 He0 _. assert (e0 = e) by congruence. subst e0. exact Ht.
Qed.

Lemma mwrite_miniok : forall s r rids mfids dids mall off bs,
  MiniOK s -> SA.MWf_at s r rids mfids dids -> path (minifat s) (hd END_OF_CHAIN mall) mall ->
  off + lenN bs <= 64 * lenN mall ->
  exists s',
    mchain_write_all (mkMChain mall off) bs s = (s', Ok (mkMChain mall (off + lenN bs))) /\
    MiniOK s' /\ dframe rids s s' /\ dirs s' = dirs s.
Proof.
  intros s r rids mfids dids mall off bs HOK W Hp Hfit.
  pose proof (SA.good_mchain_of_path _ _ _ _ _ _ _ W Hp) as Hgm.
  destruct (mchain_write_dframe s rids (mkMChain mall off) bs Hgm) as (s' & Hw & F & Hd).
  { unfold mchain_len. cbn [mc_ids mc_off]. rewrite MSL_64. exact Hfit. }
  cbn [mc_ids mc_off] in Hw. exists s'. split; [exact Hw|].
  split; [eapply miniok_root_dframe; eassumption|]. split; assumption.
Qed.

Lemma msectors_pos : forall n, 0 < n -> 0 < (64 + n - 1) / 64.
Proof. intros n H. apply N.div_str_pos. lia. Qed.

(* ---- item 4 (2): the first resize of an empty stream, to a small length ---- *)
Theorem resize_empty_small_cohdata' : forall s id new_len,
  CohData' s -> SA.empty_stream s id ->
  0 < new_len -> new_len < MINI_STREAM_CUTOFF ->
  SA.mini_room s (SA.msectors new_len) -> RootFits s (SA.msectors new_len) ->
  exists s',
    resize id new_len s = (s', Ok tt) /\ CohData' s' /\
    (forall strict, open_model strict (concat_img (img s')) = Ok (reopened s')) /\
    small_content (reopened s') id (repeatN 0 new_len) /\
    small_content s' id (repeatN 0 new_len) /\
    mini_sectors s' id (SA.msectors new_len) /\ SA.others_kept s s' id /\
    (TreePart s -> TreePart s').
Proof.
  intros s id new_len HCD (e & He) Hpos Hcut (r0 & rids0 & mfids0 & dids0 & SW0 & Hroom) Hrf.
  pose proof HCD as [HC (r & rids & mfids & dids & SW & Hmdj) HF Hax].
  destruct (swf_witness_fun _ _ _ _ _ _ _ _ _ _ _ SW SW0) as (-> & -> & -> & ->). clear SW0.
  pose proof (SA.sw_m _ _ _ _ _ _ SW) as W.
  rewrite <- SA.msectors_ceil in *.
  set (num := (64 + new_len - 1) / 64) in *.
  destruct (SA.resize_empty_small_full s id e r rids mfids dids new_len W He Hpos Hcut Hroom)
    as (s' & news & r' & Hrun & Hsm' & Hlen & W' & Hfresh & M).
  destruct (SA.after_op s s' r r' rids mfids dids id _ [] news _ SW W' Hsm' Hfresh
              ltac:(intros j e0 m _ _ _ _ x []) M) as [SW' Hoth].
  pose proof He as (Hnth & Ht & Hst & Hl0).
  pose proof (SA.small_not_root _ _ _ _ _ _ _ W Hnth Ht) as Hidr.
  assert (Hnum : new_len <= 64 * num /\ 64 * num < new_len + 64 /\ 0 < num) by (unfold num; lia).
  assert (Hp0 : path (minifat s) (hd END_OF_CHAIN []) []) by constructor.
  destruct (mchain_grow_coh (N.to_nat num) s [] 0 r rids mfids dids (CohData'_MiniOK s HCD) W Hp0)
    as (s1 & news1 & Eg & HOK1 & Ffr1 & Hl1 & FM1 & Hm1 & Hhead1).
  { rewrite N2Nat.id. exact Hroom. }
  { rewrite N2Nat.id. exact Hrf. }
  destruct (SA.mchain_grow_spec (N.to_nat num) s [] 0 r rids mfids dids ROOT_STREAM_ID W Hp0)
    as (s1' & news' & r1 & Eg' & Ln & W1 & P1 & _ & M1 & _).
  { rewrite N2Nat.id. exact Hroom. }
  rewrite Eg in Eg'. injection Eg' as <- Enw. cbn [app] in *. subst news'.
  rewrite N2Nat.id in Ln.
  set (zs := repeatN 0 new_len : list byte).
  assert (Hzs : lenN zs = new_len) by (unfold zs; apply lenN_repeatN).
  destruct (mwrite_miniok s1 r1 rids mfids dids news1 0 zs HOK1 W1 P1) as (s2 & Ew & HOK2 & F2 & Hd2);
    [rewrite Hzs, Ln; lia|].
  destruct (SA.mwrite_within s1 r1 rids mfids dids id news1 0 zs W1 P1) as (s2' & Ew' & W2 & Hmf2 & _);
    [rewrite Hzs, Ln; lia|].
  rewrite Ew in Ew'. injection Ew' as <-.
  assert (Hn2 : nthN (dirs s2) id = Some e).
  { rewrite Hd2, (SA.mframe_entry _ _ _ _ _ _ id M1 Hidr). exact Hnth. }
  assert (P2 : path (minifat s2) (hd END_OF_CHAIN news1) news1) by (rewrite Hmf2; exact P1).
  destruct (SA.finish_small s2 id e r1 rids mfids dids news1 new_len W2 Hn2 Ht P2)
    as (s'' & Eu & _); [lia|lia|lia|].
  assert (Hrun' : resize id new_len s = (s'', Ok tt)).
  { unfold resize. sred.
    rewrite (stream_entry_ok s id e Hnth Ht). sred. rewrite Hst, Hl0.
    assert (E0 : (MAX_REGULAR_SECTOR * slen s <? new_len) = false).
    { pose proof (ChainProofs.slen_pos s). apply N.ltb_ge. rewrite MAXREG_val. rewrite CUTOFF_val in Hcut. nia. }
    rewrite E0. sred.
    rewrite (mask_check_false s new_len) by (apply small_fits_mask; lia). sred.
    rewrite N.eqb_refl. cbn [N.eqb negb].
    assert (E5 : (new_len <? MINI_STREAM_CUTOFF) = true) by lia. rewrite E5.
    rewrite (SA.mchain_new_eoc s).
    rewrite (SA.mchain_set_len_grow s (mkMChain [] 0) new_len Hcut Hpos) by (cbn [mc_ids lenN]; lia).
    cbn [mc_ids lenN]. rewrite N.sub_0_r. fold num. rewrite Eg.
    unfold zero_fill_mchain.
    assert (E6 : (0 <? new_len) = true) by lia. rewrite E6. sred.
    rewrite (mchain_seek_ok s1 news1 0 0) by lia.
    rewrite N.sub_0_r. fold zs. rewrite Ew.
    rewrite SA.mchain_start_hd. exact Eu. }
  assert (s'' = s') by congruence. subst s''.
  pose proof F2 as (G1 & G2 & _ & _ & G5 & G6 & _ & G8 & _ & _).
  pose proof FM1 as (K1 & K2 & _ & _ & K5 & K6 & _).
  pose proof M as (Msh & _ & Mdirs & _).
  assert (Hnews_ne : news1 <> []) by (intros ->; cbn [lenN] in Ln; lia).
  assert (Hhd_lt : hd END_OF_CHAIN news1 < lenN (minifat s1)).
  { destruct news1 as [|x t]; [contradiction|]. cbn [hd].
    exact (SA.path_In_lt _ _ _ _ P1 (or_introl eq_refl)). }
  destruct (small_finish_cohdata' s s2 s' r r' rids mfids dids id e news1 (hd END_OF_CHAIN news1) new_len
              HCD (conj SW Hmdj) HOK2 Hn2 Ht) as (HCD' & Hv' & _ & _); try assumption; try congruence.
  { intros y Hy Hu Hn. rewrite G8. exact (Hm1 y Hy Hu Hn). }
  { rewrite G8. exact (Hhead1 eq_refl Hnews_ne). }
  { pose proof (SA.mw_bound _ _ _ _ _ W1). unfold u32_max. markers. lia. }
  exists s'. split; [exact Hrun|]. split; [exact HCD'|]. split; [exact (cohdata'_reopens s' HCD')|].
  assert (Hsc' : small_content s' id (repeatN 0 new_len)) by (eexists _, rids, _; exact Hsm').
  split; [exact (small_content_same_store s' (reopened s') (same_store_reopened s') _ _ Hsc')|].
  split; [exact Hsc'|]. split.
  { fold num in Hlen. rewrite <- Hlen. exact (small_at_mini_sectors _ _ _ _ _ _ Hsm'). }
  split; [exact Hoth|].
  intro HTP. apply (TreePart_DF s s' id HTP (cd_coh s' HCD') Hv').
  - pose proof (framesR_resize id new_len s) as D. rewrite Hrun in D. exact D.
  - intros e0 He0 _. assert (e0 = e) by congruence. subst e0. exact Ht.
Qed.

(* ================================================================== *)
(* 7. covered writes keep the strengthened invariant                   *)
(* ================================================================== *)

(* a write inside the capacity of the chain of the stream under work *)
Lemma chain_write_ready : forall s s1 r rids mfids dids id ids1 news off bs,
  BigReady s s1 r rids mfids dids id ids1 news ->
  off + lenN bs <= slen s * lenN ids1 ->
  exists s2,
    chain_write_all (mkChain IZero ids1 off) bs s1 = (s2, Ok (mkChain IZero ids1 (off + lenN bs))) /\
    BigReady s s2 r rids mfids dids id ids1 news /\
    free s2 = free s1 /\ nsect s2 = nsect s1 /\ fat s2 = fat s1.
Proof.
  intros s s1 r rids mfids dids id ids1 news off bs (HC1 & HF1 & SW1 & P1 & O1 & HQ1 & Ho1 & Hun1 & Hnews & Hfu1) Hfit.
  destruct (SA.Q_fields s s1 HQ1) as (_ & _ & _ & _ & _ & _ & Hsl1).
  pose proof (slen_pos s) as Hsp.
  destruct (SA.chain_write_all_alloc s1 r rids mfids dids id ids1 off bs SW1 P1 O1)
    as (s2 & nw & Ew & SW2 & P2 & O2 & Ln & _ & F2 & HQ2 & N2 & _ & Ho2).
  { rewrite Hsl1. lia. }
  { rewrite Hsl1. pose proof (ceil_le (slen s) (off + lenN bs) (lenN ids1) Hsp Hfit). lia. }
  assert (nw = []).
  { apply SA.lenN_nil_iff. rewrite Ln, Hsl1.
    pose proof (ceil_le (slen s) (off + lenN bs) (lenN ids1) Hsp Hfit). lia. }
  subst nw. cbn [rev] in F2. rewrite app_nil_r in F2, Ew, P2, O2.
  pose proof (SA.good_chain_owned s1 r rids mfids dids id ids1 SW1 P1 O1) as Hg1.
  destruct (chain_write_dframe s1 (mkChain IZero ids1 off) bs Hg1) as (s2' & Hw & F & Hd & _).
  { unfold chain_len. cbn [c_ids c_off]. rewrite Hsl1. exact Hfit. }
  cbn [c_init c_ids c_off] in Hw, F. rewrite Ew in Hw. injection Hw as <-.
  pose proof F as (G1 & G2 & G3 & G4 & G5 & G6 & _).
  destruct (owned_avoids _ _ _ _ _ _ O1) as (Ad & Am & _).
  assert (HC2 : Coherent s2).
  { apply Coherent_split. apply Coherent_split in HC1. destruct HC1 as [C1 DP1]. split.
    - eapply (core_dframe ids1); [exact C1|exact F| |].
      + eapply chain_avoids_difat; [exact C1|]. apply SA.chain_of_path. exact P1.
      + intros m Hm. rewrite (swfx_mini_ids _ _ _ _ _ _ _ SW1 Hm). exact Am.
    - eapply DirPart_dframe; [exact DP1|exact F|exact Hd|].
      intros d Hd'. rewrite (swfx_dir_ids _ _ _ _ _ _ _ SW1 Hd'). exact Ad. }
  exists s2. split; [exact Ew|]. split; [|split; [symmetry; exact F2|split; [exact N2|exact G5]]].
  unfold BigReady. split; [exact HC2|]. split; [apply (FreeClean_transfer s1); [symmetry|..]; assumption|].
  split; [exact SW2|]. split; [exact P2|]. split; [exact O2|]. split; [congruence|].
  split; [exact (SA.others_kept_trans _ _ _ _ Ho1 Ho2)|]. split; [|split; [exact Hnews|]].
  - intros y Hr Hy Hn. rewrite G5. exact (Hun1 y Hr Hy Hn).
  - rewrite G5. exact Hfu1.
Qed.

(* executing write_data, large to large *)
Lemma write_big_run : forall s s2 id e ids off buf s',
  nthN (dirs s) id = Some e -> SA.big_entry e -> chain_ids_of (fat s) (d_start e) = Ok ids ->
  d_len e <= slen s * lenN ids -> off <= d_len e ->
  N.max (d_len e) (off + lenN buf) <= N.min (MAX_REGULAR_SECTOR * slen s) (stream_len_mask (ver s)) ->
  chain_write_all (mkChain IZero ids off) buf s = (s2, Ok (mkChain IZero ids (off + lenN buf))) ->
  update_entry id (d_start e) (N.max (d_len e) (off + lenN buf)) s2 = (s', Ok tt) ->
  write_data id off buf s = (s', Ok tt).
Proof.
  intros s s2 id e ids off buf s' He [Ht Hbig] Hc Hcov Hoff Hbd Hw Hu.
  pose proof (ids_nonempty s ids _ Hbig Hcov) as Hne.
  destruct (chain_ids_head _ _ _ Hc Hne) as (Hst & t & Eids).
  unfold write_data.
  rewrite (bind_exec _ _ _ _ _ (stream_entry_exec s id e He Ht)).
  cbv beta iota zeta.
  destruct (d_len e <? off) eqn:E1; [lia|]. rewrite bind_ret.
  rewrite (bind_exec _ _ _ _ _ (eq_refl : get s = (s, Ok s))). cbv beta iota zeta.
  destruct (N.min (MAX_REGULAR_SECTOR * slen s) (stream_len_mask (ver s)) <? N.max (d_len e) (off + lenN buf)) eqn:Ebd; [lia|].
  rewrite (bind_exec _ _ _ _ _ (eq_refl : ret tt s = (s, Ok tt))).
  match goal with |- bind ?m _ s = _ => assert (E : m s = (s2, Ok (d_start e))) end.
  { destruct (d_start e =? END_OF_CHAIN) eqn:E2; [apply N.eqb_eq in E2; contradiction|].
    destruct (d_len e <? MINI_STREAM_CUTOFF) eqn:E3; [lia|].
    destruct (N.max (d_len e) (off + lenN buf) <? MINI_STREAM_CUTOFF) eqn:E4; [lia|].
    rewrite bind_ret.
    rewrite (bind_exec _ _ _ _ _ (chain_new_exec s (d_start e) IZero ids Hc)).
    destruct (chain_seek_spec s (mkChain IZero ids 0) off) as [Hseek _].
    rewrite (bind_exec _ _ _ _ _ (Hseek ltac:(unfold chain_len; cbn [c_ids]; lia))).
    cbn [c_init c_ids].
    rewrite (bind_exec _ _ _ _ _ Hw).
    rewrite Eids, chain_start_head, N.eqb_refl. reflexivity. }
  rewrite (bind_exec _ _ _ _ _ E). exact Hu.
Qed.

Theorem write_big_cohdata' : forall s id V ids off buf,
  CohData' s ->
  big_content s id V -> stream_ids s id ids ->
  off <= lenN V -> off + lenN buf <= slen s * lenN ids ->
  N.max (lenN V) (off + lenN buf) <= N.min (MAX_REGULAR_SECTOR * slen s) (stream_len_mask (ver s)) ->
  exists s',
    write_data id off buf s = (s', Ok tt) /\ CohData' s' /\
    big_content s' id (spliceN V off buf) /\ SA.others_kept s s' id /\ (TreePart s -> TreePart s').
Proof.
  intros s id V ids off buf HCD HB Hsi Hoff Hfit Hbd.
  pose proof HCD as [HC (r & rids & mfids & dids & HSD) HF _].
  destruct (big_entry_of_content s id V ids HB Hsi) as (e & He & Hbe & Hc).
  destruct (big_owned s r rids mfids dids id e ids (proj1 HSD) He Hbe Hc) as [_ Hcov].
  pose proof (big_content_len _ _ _ _ HB He) as HlV. rewrite HlV in *.
  pose proof (path_hd_start _ _ _ (WalkProofs.chain_ids_path _ _ _ Hc)) as Hhd.
  pose proof Hbe as [Ht Hbig].
  pose proof (big_ready_refl s r rids mfids dids id e ids HCD HSD He Hbe Hc) as BR0.
  destruct (chain_write_ready s s r rids mfids dids id ids [] off buf BR0 Hfit) as (s2 & Ew & BR2 & _).
  destruct (big_finish_cohdata' s s2 r rids mfids dids id e ids [] (N.max (d_len e) (off + lenN buf))
              HCD HSD He Hbe BR2 ltac:(symmetry; exact Hhd) ltac:(intros []))
    as (s' & Eu & HCD' & _ & _ & Ho & _ & _ & _ & HTP'); [lia|lia|unfold LenFits; lia|].
  assert (R : write_data id off buf s = (s', Ok tt)).
  { exact (write_big_run s s2 id e ids off buf s' He Hbe Hc Hcov Hoff Hbd Ew Eu). }
  destruct (write_data_big_no_alloc s id V ids off buf HB Hsi (aw_store s (SD_allwf _ _ _ _ _ HSD))
              ltac:(rewrite HlV; exact Hoff) Hfit ltac:(rewrite HlV; exact Hbd))
    as (s'' & R'' & HB'' & _).
  assert (s'' = s') by congruence. subst s''.
  exists s'. split; [exact R|]. split; [exact HCD'|]. split; [exact HB''|]. split; [exact Ho|exact HTP'].
Qed.

Theorem write_small_cohdata' : forall s id e rids0 mids V off buf,
  CohData' s -> small_at s id e rids0 mids V ->
  off <= lenN V -> off + lenN buf <= 64 * lenN mids -> off + lenN buf < MINI_STREAM_CUTOFF ->
  exists s',
    write_data id off buf s = (s', Ok tt) /\ CohData' s' /\
    small_content s' id (spliceN V off buf) /\ SA.others_kept s s' id /\ (TreePart s -> TreePart s').
Proof.
  intros s id e rids0 mids V off buf HCD Hsm Hoff Hfit Hcut.
  pose proof HCD as [HC (r & rids & mfids & dids & SW & Hmdj) HF Hax].
  pose proof (SA.sw_m _ _ _ _ _ _ SW) as W.
  assert (rids0 = rids).
  { destruct Hsm as (_ & _ & _ & _ & _ & (Hr & _) & _).
    exact (root_ids_fun s rids0 rids Hr (SA.root_ids_of_wf _ _ _ _ _ W)). }
  subst rids0.
  assert (Hz : (off + lenN buf + 63) / 64 - lenN mids = 0).
  { assert ((off + lenN buf + 63) / 64 <= lenN mids).
    { replace (off + lenN buf + 63) with (off + lenN buf + 64 - 1) by lia. apply ceil_le; lia. }
    lia. }
  destruct (SA.write_data_small_alloc_full s id e r rids mfids dids mids V off buf W Hsm Hoff Hcut)
    as (s' & news & r' & Hrun & Hsm' & Hlen & W' & Hfresh & M).
  { rewrite Hz. eapply SA.mroom_0. exact W. }
  destruct (SA.after_op s s' r r' rids mfids dids id _ mids news _ SW W' Hsm' Hfresh
              (SA.small_mids_avoided _ _ _ _ _ _ _ _ _ SW Hsm) M) as [SW' Hoth].
  destruct (write_small_two_phase s id e rids mids V off buf s' Hsm Hoff Hfit Hcut Hrun) as (s1 & F & Hd & Hu).
  pose proof (miniok_root_dframe s s1 r rids mfids dids (CohData'_MiniOK s HCD) W F Hd) as HOK1.
  pose proof Hsm as (Hnth & Ht & Hcute & Hpos & Hch & _).
  pose proof F as (G1 & G2 & _ & _ & G5 & G6 & _ & G8 & _ & _).
  pose proof M as (Msh & _ & Mdirs & _).
  destruct (small_finish_cohdata' s s1 s' r r' rids mfids dids id e [] (d_start e)
              (N.max (d_len e) (off + lenN buf)) HCD (conj SW Hmdj) HOK1)
    as (HCD' & Hv' & _ & _); try assumption.
  { rewrite Hd. exact Hnth. }
  { intros y _ Hu' _. rewrite G8. exact Hu'. }
  { intros x []. }
  { rewrite G8. exact (ax_mheads s Hax id e Hnth (SA.small_at_entry _ _ _ _ _ _ Hsm)). }
  { apply (CodecProofs.wf_start (ver s) e). apply (ch_dir_wf s HC). eapply nthN_In. exact Hnth. }
  { lia. }
  { pose proof (small_at_lenV _ _ _ _ _ _ Hsm). lia. }
  exists s'. split; [exact Hrun|]. split; [exact HCD'|].
  split; [eexists _, rids, _; exact Hsm'|]. split; [exact Hoth|].
  intro HTP. apply (TreePart_DF s s' id HTP (cd_coh s' HCD') Hv').
  - pose proof (framesR_write_data id off buf s) as D. rewrite Hrun in D. exact D.
  - intros e0 He0 _. assert (e0 = e) by congruence. subst e0. exact Ht.
Qed.

(* ---- every covered write keeps the strengthened invariant ---- *)
Theorem covered_write_cohtree : forall s id off buf,
  CohTree s -> CoveredWrite s id off buf -> LenFits s (off + lenN buf) ->
  exists s', write_data id off buf s = (s', Ok tt) /\ CohTree s'.
Proof.
  intros s id off buf [HCD HTP] [(V & ids & HB & Hsi & Hoff & Hfit & Hbd)|(e & rids & mids & V & Hsm & Hoff & Hfit & Hcut)] _.
  - destruct (write_big_cohdata' s id V ids off buf HCD HB Hsi Hoff Hfit Hbd) as (s' & R & C & _ & _ & T).
    exists s'. split; [exact R|split; [exact C|exact (T HTP)]].
  - destruct (write_small_cohdata' s id e rids mids V off buf HCD Hsm Hoff Hfit Hcut) as (s' & R & C & _ & _ & T).
    exists s'. split; [exact R|split; [exact C|exact (T HTP)]].
Qed.

(* ================================================================== *)
(* 4c. MiniChain::write with extension of the chain                    *)
(* ================================================================== *)

Lemma frameM_miniok_frame : forall s s' rids mfids dids,
  frameM (mfids ++ dids) s s' -> frameM (rids ++ mfids ++ dids) s s'.
Proof.
  intros. eapply frameM_weaken; [|eassumption]. intros x Hx. apply in_or_app. right. exact Hx.
Qed.

Lemma mchain_write_go_coh : forall fuel s mids off bs r rids mfids dids,
  MiniOK s -> SA.MWf_at s r rids mfids dids ->
  path (minifat s) (hd END_OF_CHAIN mids) mids ->
  off <= 64 * lenN mids ->
  SA.mroom s rids mfids ((off + lenN bs + 63) / 64 - lenN mids) ->
  RootFits s ((off + lenN bs + 63) / 64 - lenN mids) ->
  (1 <= fuel)%nat ->
  (0 < lenN bs -> off + lenN bs <= 64 * (off / 64 + N.of_nat fuel - 1)) ->
  exists s' news,
    mchain_write_go fuel (mkMChain mids off) bs s
      = (s', Ok (mkMChain (mids ++ news) (off + lenN bs))) /\
    MiniOK s' /\ (forall x, In x news -> SA.fresh (minifat s) x) /\
    frameM (rids ++ mfids ++ dids) s s' /\
    (forall y, y <= MAX_REGULAR_SECTOR -> unref (minifat s) y -> ~ In y news -> unref (minifat s') y) /\
    (mids = [] -> news <> [] -> unref (minifat s') (hd END_OF_CHAIN news)).
Proof.
  induction fuel as [|f IH]; intros s mids off bs r rids mfids dids HOK W Hp Hoff Hroom Hrf Hf1 Hfuel; [lia|].
  assert (Hpos : 0 < 64) by lia.
  cbn [mchain_write_go].
  destruct bs as [|b0 bt] eqn:Ebs.
  - exists s, []. rewrite app_nil_r. cbn [lenN]. rewrite N.add_0_r.
    split; [reflexivity|]. split; [exact HOK|]. split; [intros x []|]. split; [apply frameM_refl|].
    split; [auto|intros _ H; contradiction].
  - assert (Hbs : 0 < lenN (b0 :: bt)) by (cbn [lenN]; lia).
    rewrite <- Ebs in *. clear Ebs b0 bt. specialize (Hfuel Hbs).
    (* the possible extension *)
    destruct (SA.pre_extend s mids off (lenN bs) r rids mfids dids W Hp Hoff Hbs Hroom)
      as (s1 & news1 & r1 & Epre & W1 & P1 & Hoff1 & Hroom1 & Ln1 & F1 & M1 & B1).
    assert (Hext : MiniOK s1 /\ frameM (rids ++ mfids ++ dids) s s1 /\
              (forall y, y <= MAX_REGULAR_SECTOR -> unref (minifat s) y -> ~ In y news1 -> unref (minifat s1) y) /\
              (mids = [] -> news1 <> [] -> unref (minifat s1) (hd END_OF_CHAIN news1)) /\
              (forall x, In x news1 -> nthN (minifat s1) x = Some END_OF_CHAIN) /\
              lenN (minifat s1) <= lenN (minifat s) + lenN news1).
    { destruct (off =? 64 * lenN mids) eqn:E.
      - apply N.eqb_eq in E.
        assert (Hnd : 1 <= (off + lenN bs + 63) / 64 - lenN mids) by lia.
        assert (Hr1 : SA.mroom s rids mfids 1) by (eapply SA.mroom_le; [|exact Hroom]; exact Hnd).
        assert (Hrf1 : RootFits s 1) by (eapply RootFits_le; [|exact Hrf]; exact Hnd).
        destruct (mini_extend_coh s mids r rids mfids dids HOK W Hp Hr1 Hrf1)
          as (s1' & x & E1 & HOK1 & Fx & Hl1 & FM1 & Hm1 & Hx0 & Hxc & Hxl).
        rewrite (bind_exec _ _ _ _ _ E1) in Epre. unfold ret in Epre. injection Epre as <- Enw.
        apply app_inv_head in Enw. subst news1.
        split; [exact HOK1|]. split; [apply frameM_miniok_frame; exact FM1|]. split.
        { intros y Hy Hu Hn. apply Hm1; [exact Hy|exact Hu|]. intro Eq. apply Hn. left. symmetry. exact Eq. }
        split; [intros Hm0 _; cbn [hd]; exact (Hx0 Hm0)|]. split.
        { intros y [<-|[]]. exact Hxc. }
        cbn [lenN]. lia.
      - unfold ret in Epre. injection Epre as <- Enw.
        rewrite <- (app_nil_r mids) in Enw at 1. apply app_inv_head in Enw. subst news1.
        split; [exact HOK|]. split; [apply frameM_refl|]. split; [auto|].
        split; [intros _ H; contradiction|]. split; [intros x []|cbn [lenN]; lia]. }
    destruct Hext as (HOK1 & FM1 & Hm1 & Hh1 & Hc1 & Hl1).
    set (mids1 := mids ++ news1) in *.
    cbn [mc_ids mc_off]. unfold mchain_len. cbn [mc_ids]. change MINI_SECTOR_LEN with 64.
    erewrite bind_exec; [|exact Epre].
    cbn [mc_ids mc_off].
    destruct (divmod_split 64 off Hpos) as [Eoff Hr].
    assert (Hq : off / 64 < lenN mids1) by (apply div_lt_len; lia).
    destruct (nthN mids1 (off / 64)) as [ms|] eqn:Hn;
      [| apply nthN_None_ge in Hn; lia].
    pose proof (nthN_In _ _ _ _ Hn) as Hin.
    pose proof (SA.good_mchain_of_path _ _ _ _ _ _ _ W1 P1) as Hgm1.
    pose proof Hgm1 as (Hroot1 & Hgood1 & Hnd1 & HF1).
    pose proof HF1 as HF1'. rewrite Forall_forall in HF1'.
    pose proof (HF1' _ Hin) as Hrange. cbv beta in Hrange.
    cbv zeta.
    remember (N.min (lenN bs) (64 - off mod 64)) as k eqn:Ek.
    assert (Hlk : lenN (takeN k bs) = k) by (rewrite lenN_takeN; lia).
    destruct (mini_write_step s1 rids ms (off mod 64) (takeN k bs) Hroot1 Hgood1 Hrange Hr)
      as (sid & s2 & Hloc & Hw & Hmeta2 & Himg2 & Hlen2 & Hfr2 & Hgood2 & Hst2); [lia|].
    erewrite bind_exec; [|exact Hloc]. cbv beta iota.
    erewrite bind_exec; [|exact Hw].
    pose proof (SA.MWf_same_meta s1 s2 r1 rids mfids dids W1 Hmeta2 Himg2 Hlen2) as W2.
    destruct (same_meta_fields s1 s2 Hmeta2)
      as (A1 & A2 & A3 & A4 & A5 & A6 & A7 & A8 & A9 & A10 & A11 & A12).
    assert (Hh2 : hd [] (img s2) = hd [] (img s1)).
    { destruct Hgood1 as (_ & _ & Hi1 & _). exact (proj1 (sector_write_frame _ _ _ _ _ _ Hi1 Hw)). }
    destruct (meta_dframe rids s1 s2 Hmeta2 Himg2 Hh2 Hfr2 Hlen2) as [F2 Hd2].
    pose proof (miniok_root_dframe s1 s2 r1 rids mfids dids HOK1 W1 F2 Hd2) as HOK2.
    assert (P2 : path (minifat s2) (hd END_OF_CHAIN mids1) mids1) by (rewrite A9; exact P1).
    assert (Hrf2 : RootFits s2 ((off + k + lenN (dropN k bs) + 63) / 64 - lenN mids1)).
    { unfold RootFits in *. rewrite A1, A9.
      destruct FM1 as (Fv & _). rewrite Fv.
      rewrite lenN_dropN. replace (off + k + (lenN bs - k)) with (off + lenN bs) by lia.
      unfold mids1. rewrite lenN_app.
      assert (lenN news1 <= (off + lenN bs + 63) / 64 - lenN mids).
      { destruct (off =? 64 * lenN mids) eqn:E; [|lia]. apply N.eqb_eq in E. rewrite Ln1.
        assert (lenN mids + 1 <= (off + lenN bs + 63) / 64); [|lia].
        apply N.div_le_lower_bound; lia. }
      lia. }
    destruct (IH s2 mids1 (off + k) (dropN k bs) r1 rids mfids dids HOK2 W2 P2)
      as (s' & news2 & Ego & HOK' & F' & FM' & Hm' & Hh').
    { nia. }
    { apply (SA.mroom_same s1 s2); [rewrite A9; reflexivity | exact A11 | exact A12 |].
      rewrite lenN_dropN. replace (off + k + (lenN bs - k)) with (off + lenN bs) by lia.
      exact Hroom1. }
    { exact Hrf2. }
    { assert (off + lenN bs > 64 * (off / 64)) by lia. nia. }
    { rewrite lenN_dropN. intro Hrem.
      assert (Hk : k = 64 - off mod 64) by lia.
      rewrite Hk, div_next by exact Hpos.
      replace (off + (64 - off mod 64) + (lenN bs - (64 - off mod 64)))
        with (off + lenN bs) by lia.
      replace (off / 64 + 1 + N.of_nat f - 1)
        with (off / 64 + N.of_nat (S f) - 1) by lia.
      exact Hfuel. }
    rewrite lenN_dropN in Ego.
    replace (off + k + (lenN bs - k)) with (off + lenN bs) in Ego by lia.
    unfold mids1 in Ego. rewrite <- app_assoc in Ego.
    exists s', (news1 ++ news2).
    split; [exact Ego|]. split; [exact HOK'|]. split.
    { intros y Hy. apply in_app_or in Hy. destruct Hy as [Hy|Hy]; [exact (F1 y Hy)|].
      apply (SA.fresh_back s s1 ROOT_STREAM_ID rids mfids dids mids1 _ y M1 P1).
      rewrite <- A9. exact (F' y Hy). }
    split.
    { eapply frameM_trans; [exact FM1|]. eapply frameM_trans; [|exact FM'].
      eapply frameM_weaken; [|apply dframe_frameM; exact F2]. intros x Hx. apply in_or_app. left. exact Hx. }
    split.
    { intros y Hy Hu Hnn. apply Hm'; [exact Hy| |intro Hin2; apply Hnn; apply in_or_app; right; exact Hin2].
      rewrite A9. apply Hm1; [exact Hy|exact Hu|]. intro Hin2. apply Hnn. apply in_or_app. left. exact Hin2. }
    intros Hm0 Hne. destruct news1 as [|x1 t1].
    + cbn [app] in *. apply Hh'; [unfold mids1; rewrite Hm0; reflexivity|exact Hne].
    + cbn [app hd]. pose proof (SA.mw_bound _ _ _ _ _ W1) as Hb1.
      assert (Hx1lt : x1 < lenN (minifat s1)) by (eapply nthN_Some_lt; apply Hc1; left; reflexivity).
      apply Hm'; [lia| |].
      * rewrite A9. apply (Hh1 Hm0). discriminate.
      * intro Hin2. pose proof (F' x1 Hin2 END_OF_CHAIN) as X. rewrite A9 in X.
        specialize (X (Hc1 x1 (or_introl eq_refl))). markers. lia.
Qed.

Lemma mchain_write_all_coh : forall s mids off bs r rids mfids dids,
  MiniOK s -> SA.MWf_at s r rids mfids dids ->
  path (minifat s) (hd END_OF_CHAIN mids) mids ->
  off <= 64 * lenN mids ->
  SA.mroom s rids mfids ((off + lenN bs + 63) / 64 - lenN mids) ->
  RootFits s ((off + lenN bs + 63) / 64 - lenN mids) ->
  exists s' news,
    mchain_write_all (mkMChain mids off) bs s
      = (s', Ok (mkMChain (mids ++ news) (off + lenN bs))) /\
    MiniOK s' /\ (forall x, In x news -> SA.fresh (minifat s) x) /\
    frameM (rids ++ mfids ++ dids) s s' /\
    (forall y, y <= MAX_REGULAR_SECTOR -> unref (minifat s) y -> ~ In y news -> unref (minifat s') y) /\
    (mids = [] -> news <> [] -> unref (minifat s') (hd END_OF_CHAIN news)).
Proof.
  intros s mids off bs r rids mfids dids HOK W Hp Hoff Hroom Hrf.
  unfold mchain_write_all. change MINI_SECTOR_LEN with 64.
  apply (mchain_write_go_coh _ s mids off bs r rids mfids dids HOK W Hp Hoff Hroom Hrf).
  - apply le_n_S, Nat.le_0_l.
  - intro Hn. apply fuel_enough; [lia | exact Hn].
Qed.

(* ---- item 4 (3): a write that makes a small stream grow, with allocation of
        mini sectors ---- *)
Theorem write_small_alloc_cohdata' : forall s id V k off buf,
  CohData' s ->
  small_content s id V -> mini_sectors s id k ->
  off <= lenN V -> lenN (spliceN V off buf) < MINI_STREAM_CUTOFF ->
  SA.mini_room s (SA.msectors (off + lenN buf) - k) ->
  RootFits s (SA.msectors (off + lenN buf) - k) ->
  exists s',
    write_data id off buf s = (s', Ok tt) /\ CohData' s' /\
    (forall strict, open_model strict (concat_img (img s')) = Ok (reopened s')) /\
    small_content (reopened s') id (spliceN V off buf) /\
    small_content s' id (spliceN V off buf) /\
    mini_sectors s' id (N.max k (SA.msectors (off + lenN buf))) /\ SA.others_kept s s' id /\
    (TreePart s -> TreePart s').
Proof.
  intros s id V k off buf HCD Hsc Hk Hoff Hcut (r0 & rids0 & mfids0 & dids0 & SW0 & Hroom) Hrf.
  pose proof HCD as [HC (r & rids & mfids & dids & SW & Hmdj) HF Hax].
  destruct (swf_witness_fun _ _ _ _ _ _ _ _ _ _ _ SW SW0) as (-> & -> & -> & ->). clear SW0.
  pose proof (SA.sw_m _ _ _ _ _ _ SW) as W.
  destruct (SA.small_content_at _ _ _ _ _ _ _ W Hsc) as (e & mids & Hsm).
  pose proof (mini_sectors_small_at _ _ _ _ _ _ _ Hsm Hk) as Ek. subst k.
  rewrite lenN_spliceN in Hcut. unfold SA.msectors in *.
  destruct (SA.write_data_small_alloc_full s id e r rids mfids dids mids V off buf W Hsm Hoff)
    as (s' & news & r' & Hrun & Hsm' & Hlen & W' & Hfresh & M); [lia | exact Hroom |].
  destruct (SA.after_op s s' r r' rids mfids dids id _ mids news _ SW W' Hsm' Hfresh
              (SA.small_mids_avoided _ _ _ _ _ _ _ _ _ SW Hsm) M) as [SW' Hoth].
  pose proof (small_at_lenV _ _ _ _ _ _ Hsm) as HlenV. rewrite HlenV in *.
  destruct (small_at_start _ _ _ _ _ _ Hsm) as (Hne & Hst & Hk0).
  pose proof Hsm as (Hnth & Ht & Hcut0 & Hpos & Hch & Hgm & Hle0 & HV).
  pose proof (SA.small_not_root _ _ _ _ _ _ _ W Hnth Ht) as Hidr.
  assert (Hmne : mids <> []) by (intros ->; cbn [lenN] in Hk0; lia).
  assert (Hpath0 : path (minifat s) (d_start e) mids) by (apply WalkProofs.chain_ids_path; exact Hch).
  pose proof (path_hd_start _ _ _ Hpath0) as Hhd.
  assert (Hpath : path (minifat s) (hd END_OF_CHAIN mids) mids) by (rewrite <- Hhd; exact Hpath0).
  set (ln := N.max (d_len e) (off + lenN buf)) in *.
  destruct (mchain_write_all_coh s mids off buf r rids mfids dids (CohData'_MiniOK s HCD) W Hpath)
    as (s1 & news1 & Ew & HOK1 & Ffr1 & FM1 & Hm1 & _); [lia|exact Hroom|exact Hrf|].
  destruct (SA.mchain_write_all_alloc s mids off buf r rids mfids dids W Hpath)
    as (s1' & news' & r1 & Ew' & W1 & P1 & Ln & Hfit & _ & _ & M1); [lia|exact Hroom|].
  rewrite Ew in Ew'. injection Ew' as <- Enw. apply app_inv_head in Enw. subst news'.
  set (mall := mids ++ news1) in *.
  assert (Hhd' : hd END_OF_CHAIN mall = d_start e)
    by (unfold mall; rewrite SA.hd_app_ne by exact Hmne; symmetry; exact Hhd).
  assert (Hn1 : nthN (dirs s1) id = Some e).
  { rewrite (SA.mframe_entry _ _ _ _ _ _ id M1 Hidr). exact Hnth. }
  assert (HLall : lenN mids <= lenN mall) by (unfold mall; rewrite lenN_app; lia).
  destruct (SA.finish_small s1 id e r1 rids mfids dids mall ln W1 Hn1 Ht P1)
    as (s'' & Eu & _); [unfold ln; lia | unfold ln; lia | unfold ln; lia |].
  rewrite Hhd' in Eu.
  assert (Hrun' : write_data id off buf s = (s'', Ok tt)).
  { unfold write_data. sred.
    rewrite (stream_entry_ok s id e Hnth Ht). sred.
    assert (E1 : (d_len e <? off) = false) by lia. rewrite E1.
    rewrite (both_check_false_small s (N.max (d_len e) (off + lenN buf))) by lia.
    assert (E2 : (d_start e =? END_OF_CHAIN) = false) by lia. rewrite E2.
    assert (E3 : (d_len e <? MINI_STREAM_CUTOFF) = true) by lia. rewrite E3.
    fold ln.
    assert (E4 : (ln <? MINI_STREAM_CUTOFF) = true) by (unfold ln; lia). rewrite E4.
    rewrite (mchain_new_ok s _ mids Hch).
    rewrite (mchain_seek_ok s mids 0 off) by lia.
    rewrite Ew.
    assert (E5 : negb (mchain_start (mkMChain mall (off + lenN buf)) =? d_start e) = false).
    { rewrite SA.mchain_start_hd, Hhd', N.eqb_refl. reflexivity. }
    rewrite E5. exact Eu. }
  assert (s'' = s') by congruence. subst s''.
  pose proof FM1 as (K1 & K2 & _ & _ & K5 & K6 & _).
  pose proof M as (Msh & _ & Mdirs & _).
  assert (Hin0 : In (d_start e) mids).
  { rewrite Hhd. destruct mids as [|x t]; [contradiction|left; reflexivity]. }
  destruct (small_finish_cohdata' s s1 s' r r' rids mfids dids id e news1 (d_start e) ln
              HCD (conj SW Hmdj) HOK1 Hn1 Ht K5 K6 K2 K1 Hm1 Ffr1) as (HCD' & Hv' & _ & _).
  { pose proof (SA.path_In_lt _ _ _ _ Hpath0 Hin0) as Hlt.
    pose proof (SA.mw_bound _ _ _ _ _ W).
    apply Hm1; [lia|exact (ax_mheads s Hax id e Hnth (SA.small_at_entry _ _ _ _ _ _ Hsm))|].
    intro Hin2. exact (SA.path_not_fresh _ _ _ _ Hpath0 Hin0 (Ffr1 _ Hin2)). }
  { apply (CodecProofs.wf_start (ver s) e). apply (ch_dir_wf s HC). eapply nthN_In. exact Hnth. }
  { unfold ln. lia. }
  { unfold ln. lia. }
  { exact Eu. }
  { exact SW'. }
  { exact Mdirs. }
  exists s'. split; [exact Hrun|]. split; [exact HCD'|]. split; [exact (cohdata'_reopens s' HCD')|].
  assert (Hsc' : small_content s' id (spliceN V off buf)) by (eexists _, rids, _; exact Hsm').
  split; [exact (small_content_same_store s' (reopened s') (same_store_reopened s') _ _ Hsc')|].
  split; [exact Hsc'|]. split.
  { pose proof (small_at_mini_sectors _ _ _ _ _ _ Hsm') as X. rewrite lenN_app, Hlen in X.
    replace (N.max (lenN mids) ((off + lenN buf + 63) / 64))
      with (lenN mids + ((off + lenN buf + 63) / 64 - lenN mids)) by lia. exact X. }
  split; [exact Hoth|].
  intro HTP. apply (TreePart_DF s s' id HTP (cd_coh s' HCD') Hv').
  - pose proof (framesR_write_data id off buf s) as D. rewrite Hrun in D. exact D.
  - intros e0 He0 _. assert (e0 = e) by congruence. subst e0. exact Ht.
Qed.

(* ---- item 4 (4): the first write to an empty stream, small result ---- *)
Theorem write_empty_small_cohdata' : forall s id buf,
  CohData' s -> SA.empty_stream s id ->
  0 < lenN buf -> lenN buf < MINI_STREAM_CUTOFF ->
  SA.mini_room s (SA.msectors (lenN buf)) -> RootFits s (SA.msectors (lenN buf)) ->
  exists s',
    write_data id 0 buf s = (s', Ok tt) /\ CohData' s' /\
    (forall strict, open_model strict (concat_img (img s')) = Ok (reopened s')) /\
    small_content (reopened s') id buf /\
    small_content s' id buf /\
    mini_sectors s' id (SA.msectors (lenN buf)) /\ SA.others_kept s s' id /\
    (TreePart s -> TreePart s').
Proof.
  intros s id buf HCD (e & He) Hpos Hcut (r0 & rids0 & mfids0 & dids0 & SW0 & Hroom) Hrf.
  pose proof HCD as [HC (r & rids & mfids & dids & SW & Hmdj) HF Hax].
  destruct (swf_witness_fun _ _ _ _ _ _ _ _ _ _ _ SW SW0) as (-> & -> & -> & ->). clear SW0.
  pose proof (SA.sw_m _ _ _ _ _ _ SW) as W. unfold SA.msectors in *.
  destruct (SA.write_data_empty_small_full s id e r rids mfids dids buf W He Hpos Hcut Hroom)
    as (s' & news & r' & Hrun & Hsm' & Hlen & W' & Hfresh & M).
  destruct (SA.after_op s s' r r' rids mfids dids id _ [] news _ SW W' Hsm' Hfresh
              ltac:(intros j e0 m _ _ _ _ x []) M) as [SW' Hoth].
  pose proof He as (Hnth & Ht & Hst & Hl0).
  pose proof (SA.small_not_root _ _ _ _ _ _ _ W Hnth Ht) as Hidr.
  assert (Hp0 : path (minifat s) (hd END_OF_CHAIN []) []) by constructor.
  destruct (mchain_write_all_coh s [] 0 buf r rids mfids dids (CohData'_MiniOK s HCD) W Hp0)
    as (s1 & news1 & Ew & HOK1 & Ffr1 & FM1 & Hm1 & Hhead1).
  { cbn [lenN]. lia. }
  { cbn [lenN]. rewrite N.add_0_l, N.sub_0_r. exact Hroom. }
  { cbn [lenN]. rewrite N.add_0_l, N.sub_0_r. exact Hrf. }
  destruct (SA.mchain_write_all_alloc s [] 0 buf r rids mfids dids W Hp0)
    as (s1' & news' & r1 & Ew' & W1 & P1 & Ln & Hfit & _ & _ & M1).
  { cbn [lenN]. lia. }
  { cbn [lenN]. rewrite N.add_0_l, N.sub_0_r. exact Hroom. }
  rewrite Ew in Ew'. injection Ew' as <- Enw. cbn [app] in *. subst news'.
  cbn [lenN] in *. rewrite N.add_0_l in *. rewrite N.sub_0_r in Ln.
  assert (Hn1 : nthN (dirs s1) id = Some e).
  { rewrite (SA.mframe_entry _ _ _ _ _ _ id M1 Hidr). exact Hnth. }
  destruct (SA.finish_small s1 id e r1 rids mfids dids news1 (lenN buf) W1 Hn1 Ht P1)
    as (s'' & Eu & _); [lia | lia | lia |].
  assert (Hrun' : write_data id 0 buf s = (s'', Ok tt)).
  { unfold write_data. sred.
    rewrite (stream_entry_ok s id e Hnth Ht). sred. rewrite Hst, Hl0.
    change (0 <? 0) with false. sred.
    rewrite (both_check_false_small s (N.max 0 (0 + lenN buf))) by lia.
    cbn [N.ltb N.compare N.eqb negb]. rewrite N.eqb_refl.
    rewrite N.add_0_l.
    replace (N.max 0 (lenN buf)) with (lenN buf) by lia.
    assert (E4 : (lenN buf <? MINI_STREAM_CUTOFF) = true) by lia. rewrite E4.
    rewrite (SA.mchain_new_eoc s). rewrite Ew.
    rewrite SA.mchain_start_hd. exact Eu. }
  assert (s'' = s') by congruence. subst s''.
  pose proof FM1 as (K1 & K2 & _ & _ & K5 & K6 & _).
  pose proof M as (Msh & _ & Mdirs & _).
  assert (Hnews_ne : news1 <> []).
  { intros ->. cbn [lenN] in Ln. assert (1 <= (lenN buf + 63) / 64) by (apply N.div_le_lower_bound; lia). lia. }
  destruct (small_finish_cohdata' s s1 s' r r' rids mfids dids id e news1 (hd END_OF_CHAIN news1) (lenN buf)
              HCD (conj SW Hmdj) HOK1 Hn1 Ht K5 K6 K2 K1 Hm1 Ffr1) as (HCD' & Hv' & _ & _).
  { exact (Hhead1 eq_refl Hnews_ne). }
  { destruct news1 as [|x t]; [contradiction|]. cbn [hd].
    pose proof (SA.path_In_lt _ _ _ _ P1 (or_introl eq_refl)).
    pose proof (SA.mw_bound _ _ _ _ _ W1). unfold u32_max. markers. lia. }
  { exact Hpos. }
  { exact Hcut. }
  { exact Eu. }
  { exact SW'. }
  { exact Mdirs. }
  exists s'. split; [exact Hrun|]. split; [exact HCD'|]. split; [exact (cohdata'_reopens s' HCD')|].
  assert (Hsc' : small_content s' id buf) by (eexists _, rids, _; exact Hsm').
  split; [exact (small_content_same_store s' (reopened s') (same_store_reopened s') _ _ Hsc')|].
  split; [exact Hsc'|]. split.
  { rewrite <- Hlen. exact (small_at_mini_sectors _ _ _ _ _ _ Hsm'). }
  split; [exact Hoth|].
  intro HTP. apply (TreePart_DF s s' id HTP (cd_coh s' HCD') Hv').
  - pose proof (framesR_write_data id 0 buf s) as D. rewrite Hrun in D. exact D.
  - intros e0 He0 _. assert (e0 = e) by congruence. subst e0. exact Ht.
Qed.

(* ================================================================== *)
(* 1c. the first sectors of an empty stream (case 1b of Stream::set_len *)
(*     and Stream::write): the chain starts in the free stack          *)
(* ================================================================== *)

Lemma pointees_begin : forall fat sid,
  check_pointees false fat (lenN fat) [] = Ok tt ->
  nthN fat sid = Some FREE_SECTOR ->
  check_pointees false (updN fat sid END_OF_CHAIN) (lenN (updN fat sid END_OF_CHAIN)) [] = Ok tt /\
  regs (updN fat sid END_OF_CHAIN) = regs fat.
Proof.
  intros fat sid H Hsid.
  destruct irregular_marks as [IE IF].
  pose proof (regs_updN_irr fat sid FREE_SECTOR END_OF_CHAIN Hsid IF IE) as HE.
  split; [|exact HE].
  apply WalkProofs.check_pointees_spec in H. destruct H as (P1 & P2 & _ & P4).
  apply WalkProofs.check_pointees_spec. rewrite lenN_updN, HE.
  split; [exact P1|]. split; [exact P2|]. split; [intros y _ []|].
  intros _ Hin. pose proof INVALID_val as HI. markers.
  apply In_updN in Hin. destruct Hin as [E|Hin]; [lia|]. exact (P4 eq_refl Hin).
Qed.

Lemma begin_chain_reuse_coherent : forall s sid dids mids s' x,
  Coherent s -> FreeClean s ->
  DirCoherence.dir_ids s dids -> DirCoherence.minifat_ids s mids ->
  lastN (free s) = Some sid ->
  allocate_sector IZero s = (s', Ok x) ->
  x = sid /\ Coherent s' /\ FreeClean s' /\
  DirCoherence.dir_ids s' dids /\ DirCoherence.minifat_ids s' mids /\
  FR [sid] [sid] s s' /\
  fat s' = updN (fat s) sid END_OF_CHAIN /\ free s' = pop_last (free s).
Proof.
  intros s sid dids mids s' x HC [Hnd HF] Hdids Hmids Hfree H.
  destruct (coherent_G s HC) as [HG HFc].
  assert (Hin : In sid (free s)).
  { rewrite (lastN_Some_snoc _ _ _ Hfree). apply in_or_app. right. left. reflexivity. }
  destruct (HF sid Hin) as (Hsn & Hsf & Hsr).
  pose proof (nthN_Some_lt _ _ _ _ Hsf) as Hsl.
  assert (Hsd : ~ In sid (difat s)).
  { intro Hd. rewrite (ch_marks s HC sid Hd) in Hsf. vm_compute in Hsf. discriminate Hsf. }
  destruct (allocate_reuse_FR s sid IZero s' x HG HFc Hfree Hsn Hsl Hsd H) as (-> & F & Ef & Efr & Hz).
  destruct (pointees_begin (fat s) sid (ch_fat_valid s HC) Hsf) as [Hval HR].
  assert (Hsdids : ~ In sid dids) by exact (free_not_in_chain s _ dids sid Hdids Hsf).
  assert (Hsmids : ~ In sid mids) by exact (free_not_in_chain s _ mids sid Hmids Hsf).
  assert (HC' : Coherent s').
  { eapply (FR_coherent [sid] [sid]); [exact HC|exact F| | | |].
    - intros y [<-|[]]; assumption.
    - intros d Hd. unfold DirCoherence.dir_ids in *. rewrite Hdids in Hd. injection Hd as <-.
      split; intros y [<-|[]]; assumption.
    - intros m Hm. unfold DirCoherence.minifat_ids in *. rewrite Hmids in Hm. injection Hm as <-.
      split; intros y [<-|[]]; assumption.
    - rewrite Ef. exact Hval. }
  split; [reflexivity|]. split; [exact HC'|].
  split; [|split; [|split; [|split; [exact F|split; [exact Ef|exact Efr]]]]].
  - split; [rewrite Efr; apply NoDup_pop_last; exact Hnd|].
    intros y Hy. rewrite Efr in Hy.
    pose proof (In_pop_last_nodup _ _ Hnd Hfree) as Hns.
    assert (Hys : y <> sid) by (intros ->; contradiction).
    pose proof (In_pop_last _ _ _ Hy) as Hy0.
    destruct (HF y Hy0) as (Y1 & Y2 & Y3).
    rewrite (fr_nsect _ _ _ _ F). split; [exact Y1|]. split.
    + rewrite Ef, nthN_updN_other by congruence. exact Y2.
    + rewrite Ef, HR. exact Y3.
  - unfold DirCoherence.dir_ids in *. rewrite (fr_dstart _ _ _ _ F).
    eapply chain_ids_of_ext; [exact Hdids|exact (fr_len _ _ _ _ F)|].
    intros y Hy. apply (fr_cells _ _ _ _ F). intros [<-|[]]; contradiction.
  - unfold DirCoherence.minifat_ids in *. rewrite (fr_mstart _ _ _ _ F).
    eapply chain_ids_of_ext; [exact Hmids|exact (fr_len _ _ _ _ F)|].
    intros y Hy. apply (fr_cells _ _ _ _ F). intros [<-|[]]; contradiction.
Qed.

(* ------------------------------------------------------------------ *)
(* the state between the release of the old storage of stream [id] and *)
(* the construction of the new one: everything holds except for [id]   *)
(* ------------------------------------------------------------------ *)
Definition CohX (s : cstate) (r : dirent) (rids mfids dids : list N) (id : N) : Prop :=
  Coherent s /\ FreeClean s /\ SA.SWfX_at s r rids mfids dids (SA.Xid id) /\
  disjoint mfids dids /\
  FreeUnref (fat s) /\ FreeUnref (minifat s) /\
  (forall j ej, j <> id -> nthN (dirs s) j = Some ej -> SA.big_entry ej -> unref (fat s) (d_start ej)) /\
  (forall j ej, j <> id -> nthN (dirs s) j = Some ej -> SA.small_entry ej -> unref (minifat s) (d_start ej)).

Lemma cohdata'_cohX : forall s r rids mfids dids id,
  CohData' s -> SD s r rids mfids dids -> CohX s r rids mfids dids id.
Proof.
  intros s r rids mfids dids id HCD [SW Hmd]. pose proof HCD as [HC _ HF [A1 A2 A3 A4]].
  unfold CohX. split; [exact HC|]. split; [exact HF|]. split; [apply SWf_X; exact SW|].
  split; [exact Hmd|]. split; [exact A1|]. split; [exact A3|].
  split; [intros j ej _; apply A2|intros j ej _; apply A4].
Qed.

Lemma ready_nil : forall s r rids mfids dids id,
  CohX s r rids mfids dids id -> BigReady s s r rids mfids dids id [] [].
Proof.
  intros s r rids mfids dids id (HC & HF & SW & _ & Hfu & _).
  unfold BigReady. split; [exact HC|]. split; [exact HF|]. split; [exact SW|].
  split; [constructor|]. split; [apply SA.owned_nil|].
  split; [reflexivity|]. split; [apply SA.others_kept_refl|]. split; [intros y _ Hy _; exact Hy|].
  split; [intros x []|exact Hfu].
Qed.

(* growth of the chain under construction from the free stack *)
Lemma grow_ready_ne : forall s s1 r rids mfids dids id ids1 news base nw o,
  BigReady s s1 r rids mfids dids id ids1 news -> ids1 <> [] ->
  free s1 = base ++ rev nw ->
  exists s2,
    chain_grow (length nw) (mkChain IZero ids1 o) s1 = (s2, Ok (mkChain IZero (ids1 ++ nw) o)) /\
    BigReady s s2 r rids mfids dids id (ids1 ++ nw) (news ++ nw) /\ free s2 = base /\ nsect s2 = nsect s1 /\
    (forall y, y <= MAX_REGULAR_SECTOR -> unref (fat s1) y -> ~ In y nw -> unref (fat s2) y).
Proof.
  intros s s1 r rids mfids dids id ids1 news base nw o
         (HC1 & HF1 & SW1 & P1 & O1 & HQ1 & Ho1 & Hun1 & Hnews & Hfu1) Hne Hfree.
  pose proof (SA.sw_m _ _ _ _ _ _ SW1) as W1.
  destruct (owned_avoids _ _ _ _ _ _ O1) as (Had & Ham & _).
  assert (Hdids : DirCoherence.dir_ids s1 dids) by exact (SA.mw_dch _ _ _ _ _ W1).
  assert (Hmids : DirCoherence.minifat_ids s1 mfids) by exact (SA.mw_mch _ _ _ _ _ W1).
  destruct (chain_grow_reuse_coherent nw s1 (hd END_OF_CHAIN ids1) ids1 base o dids mfids HC1 HF1 Hdids Hmids Hne P1
              Had Ham Hfree)
    as (s2 & Hgrow & HC2 & HFc2 & _ & _ & P2c & _ & _ & Fr2 & _ & _ & N2).
  destruct (SA.chain_grow_alloc (length nw) s1 r rids mfids dids id ids1 o SW1 P1 O1)
    as (s2' & nw' & Eg & SW2 & P2 & O2 & _ & _ & HQ2 & _ & _ & Ho2).
  { rewrite Hfree, lenN_app, WalkProofs.lenN_rev, <- (WalkProofs.lenN_length nw). lia. }
  rewrite Hgrow in Eg. injection Eg as <- Enw. apply app_inv_head in Enw. subst nw'.
  assert (Hnwfree : forall x, In x nw -> In x (free s1)).
  { intros x Hx. rewrite Hfree. apply in_or_app. right. apply in_rev in Hx. exact Hx. }
  pose proof HF1 as [Hnd HFx].
  assert (Hc1 : chain_ids_of (fat s1) (hd END_OF_CHAIN ids1) = Ok ids1) by (apply SA.chain_of_path; exact P1).
  destruct (chain_grow_reuse nw s1 (hd END_OF_CHAIN ids1) ids1 base o (SA.sw_alloc _ _ _ _ _ _ SW1)
              (SA.sw_nsect _ _ _ _ _ _ SW1) Hne P1 Hfree Hnd)
    as (s2'' & E'' & _ & _ & _ & _ & T' & _).
  { intros x Hx. destruct (HFx x (Hnwfree x Hx)) as (_ & Hxf & _). split.
    - exact (free_not_in_chain s1 _ ids1 x Hc1 Hxf).
    - intro Hd. rewrite (ch_marks s1 HC1 x Hd) in Hxf. vm_compute in Hxf. discriminate Hxf. }
  rewrite Hgrow in E''. injection E'' as <-.
  assert (Hun : forall y, y <= MAX_REGULAR_SECTOR -> unref (fat s1) y -> ~ In y nw -> unref (fat s2) y).
  { intros y Hyr Hy Hyn i Hi.
    destruct (in_dec N.eq_dec i (ids1 ++ nw)) as [Hin|Hout].
    - destruct (path_cell _ _ _ P2c i y Hin Hi) as [E|Htl]; [markers; lia|].
      rewrite (tl_app_ne _ ids1 nw Hne) in Htl. apply in_app_or in Htl. destruct Htl as [Htl|Htl]; [|contradiction].
      destruct (path_tl_ref _ _ _ P1 y Htl) as (j & _ & Hj). exact (Hy j Hj).
    - rewrite T' in Hi.
      + exact (Hy i Hi).
      + intro H. apply Hout. apply in_or_app. left. exact H.
      + intro H. apply Hout. apply in_or_app. right. exact H. }
  exists s2. split; [exact Hgrow|]. split; [|split; [exact Fr2|split; [exact N2|exact Hun]]].
  unfold BigReady. split; [exact HC2|]. split; [exact HFc2|]. split; [exact SW2|].
  split; [exact P2|]. split; [exact O2|]. split; [rewrite HQ2; exact HQ1|].
  split; [exact (SA.others_kept_trans _ _ _ _ Ho1 Ho2)|].
  split.
  { intros y Hyr Hy Hyn. apply Hun; [exact Hyr| |intro H; apply Hyn; apply in_or_app; right; exact H].
    apply Hun1; [exact Hyr|exact Hy|intro H; apply Hyn; apply in_or_app; left; exact H]. }
  split.
  { intros x Hx. apply in_app_or in Hx. apply in_or_app. destruct Hx as [Hx|Hx]; [left; exact (Hnews x Hx)|right; exact Hx]. }
  apply (free_unref_after (fat s1) (fat s2) (ids1 ++ nw) nw Hfu1).
  - destruct (ch_fat s2 HC2) as [_ Cl2 _ _]. pose proof (ch_nsect s2 HC2). lia.
  - exact P2.
  - intros x Hx Hf. rewrite T' in Hf; [exact Hf| |];
      intro H; apply Hx; apply in_or_app; [left|right]; exact H.
  - exact Hun.
  - intros x Hx. apply in_or_app. right. exact Hx.
Qed.

Lemma begin_ready : forall s s1 r rids mfids dids id news base a,
  BigReady s s1 r rids mfids dids id [] news ->
  free s1 = base ++ [a] ->
  exists s0,
    allocate_sector IZero s1 = (s0, Ok a) /\
    BigReady s s0 r rids mfids dids id [a] (news ++ [a]) /\ free s0 = base /\ nsect s0 = nsect s1 /\
    (forall y, y <= MAX_REGULAR_SECTOR -> unref (fat s1) y -> unref (fat s0) y) /\
    unref (fat s0) a.
Proof.
  intros s s1 r rids mfids dids id news base a
         (HC1 & HF1 & SW1 & P1 & O1 & HQ1 & Ho1 & Hun1 & Hnews & Hfu1) Hfree.
  pose proof (SA.sw_m _ _ _ _ _ _ SW1) as W1.
  assert (Hdids : DirCoherence.dir_ids s1 dids) by exact (SA.mw_dch _ _ _ _ _ W1).
  assert (Hmids : DirCoherence.minifat_ids s1 mfids) by exact (SA.mw_mch _ _ _ _ _ W1).
  assert (Hlf : lastN (free s1) = Some a) by (rewrite Hfree; apply lastN_snoc).
  destruct (SA.chain_grow_alloc 1 s1 r rids mfids dids id [] 0 SW1 P1 O1)
    as (s0 & nw' & Eg & SW0 & P0 & O0 & Ln' & Hfs & HQ0 & N0 & _ & Ho0).
  { rewrite Hfree, lenN_app. cbn [lenN]. lia. }
  cbn [app] in *.
  pose proof Eg as Eg0. cbn [chain_grow c_ids c_init c_off app] in Eg0.
  change (lastN (@nil N)) with (@None N) in Eg0. cbv iota in Eg0. unfold begin_chain in Eg0.
  destruct (allocate_sector IZero s1) as [s0' [x|k|k|]] eqn:Ea;
    try (unfold bind in Eg0; rewrite Ea in Eg0; discriminate Eg0).
  rewrite (bind_exec _ _ _ _ _ Ea) in Eg0. unfold ret in Eg0. injection Eg0 as -> <-.
  destruct (begin_chain_reuse_coherent s1 a dids mfids s0 x HC1 HF1 Hdids Hmids Hlf Ea)
    as (-> & HC0 & HF0 & _ & _ & F0 & Ef0 & Efr0).
  pose proof HF1 as [Hnd HFx].
  assert (Hain : In a (free s1)) by (rewrite Hfree; apply in_or_app; right; left; reflexivity).
  destruct (HFx a Hain) as (Han & Haf & Har).
  pose proof (nthN_Some_lt _ _ _ _ Haf) as Halt.
  assert (Hfr0 : free s0 = base) by (rewrite Efr0, Hfree; apply pop_last_snoc).
  assert (Hun : forall y, y <= MAX_REGULAR_SECTOR -> unref (fat s1) y -> unref (fat s0) y).
  { intros y Hyr Hy. rewrite Ef0. apply unref_updN; [exact Hy|]. markers. lia. }
  exists s0. split; [reflexivity|]. split; [|split; [exact Hfr0|split; [exact N0|split; [exact Hun|]]]].
  - unfold BigReady. split; [exact HC0|]. split; [exact HF0|]. split; [exact SW0|].
    split; [exact P0|]. split; [exact O0|]. split; [rewrite HQ0; exact HQ1|].
    split; [exact (SA.others_kept_trans _ _ _ _ Ho1 Ho0)|].
    split.
    { intros y Hyr Hy Hyn. apply Hun; [exact Hyr|].
      apply Hun1; [exact Hyr|exact Hy|intro H; apply Hyn; apply in_or_app; left; exact H]. }
    split.
    { intros y Hy. apply in_app_or in Hy. destruct Hy as [Hy|Hy]; [destruct (Hnews y Hy)|exact Hy]. }
    intros y Hy. rewrite Ef0 in Hy.
    assert (Hya : y <> a).
    { intros ->. rewrite nthN_updN_same in Hy by exact Halt.
      assert (END_OF_CHAIN = FREE_SECTOR) by congruence. markers. lia. }
    rewrite nthN_updN_other in Hy by (intro E; apply Hya; symmetry; exact E).
    pose proof (nthN_Some_lt _ _ _ _ Hy) as Hylt.
    apply Hun; [|exact (Hfu1 y Hy)].
    destruct (ch_fat s1 HC1) as [_ Cl1 _ _]. pose proof (ch_nsect s1 HC1). lia.
  - apply Hun; [pose proof (ch_nsect s1 HC1); lia|exact (Hfu1 a Haf)].
Qed.

Lemma grow_ready_from : forall s s1 r rids mfids dids id ids1 news base nw o,
  BigReady s s1 r rids mfids dids id ids1 news ->
  free s1 = base ++ rev nw ->
  exists s2,
    chain_grow (length nw) (mkChain IZero ids1 o) s1 = (s2, Ok (mkChain IZero (ids1 ++ nw) o)) /\
    BigReady s s2 r rids mfids dids id (ids1 ++ nw) (news ++ nw) /\ free s2 = base /\ nsect s2 = nsect s1 /\
    (forall y, y <= MAX_REGULAR_SECTOR -> unref (fat s1) y -> ~ In y nw -> unref (fat s2) y) /\
    (ids1 = [] -> nw <> [] -> unref (fat s2) (hd END_OF_CHAIN nw)).
Proof.
  intros s s1 r rids mfids dids id ids1 news base nw o BR1 Hfree.
  destruct ids1 as [|i0 it].
  - destruct nw as [|a nw].
    + exists s1. cbn [length chain_grow app rev] in *. rewrite app_nil_r in *.
      split; [reflexivity|]. split; [exact BR1|]. split; [exact Hfree|]. split; [reflexivity|].
      split; [intros y _ Hy _; exact Hy|intros _ H; contradiction].
    + cbn [rev] in Hfree. rewrite app_assoc in Hfree.
      destruct (begin_ready s s1 r rids mfids dids id news (base ++ rev nw) a BR1 Hfree)
        as (s0 & Ea & BR0 & Fr0 & N0 & Hun0 & Hha).
      destruct (grow_ready_ne s s0 r rids mfids dids id [a] (news ++ [a]) base nw o BR0 ltac:(discriminate) Fr0)
        as (s2 & Hgrow & BR2 & Fr2 & N2 & Hun2).
      assert (Hanw : ~ In a nw).
      { destruct BR1 as (_ & [Hnd _] & _). rewrite Hfree in Hnd. apply NoDup_remove_2 in Hnd.
        rewrite app_nil_r in Hnd. intro Hin. apply Hnd. apply in_or_app. right. apply in_rev in Hin. exact Hin. }
      exists s2. split.
      { cbn [length chain_grow c_ids c_init c_off app].
        change (lastN (@nil N)) with (@None N). cbv iota. unfold begin_chain.
        rewrite (bind_exec _ _ _ _ _ Ea). exact Hgrow. }
      cbn [app] in *. rewrite <- app_assoc in BR2. cbn [app] in BR2.
      split; [exact BR2|]. split; [exact Fr2|]. split; [congruence|]. split.
      * intros y Hyr Hy Hyn. apply Hun2; [exact Hyr|apply Hun0; assumption|].
        intro H. apply Hyn. right. exact H.
      * intros _ _. cbn [hd]. apply Hun2; [|exact Hha|exact Hanw].
        destruct BR0 as (HC0 & _ & _ & P0 & _).
        apply (coh_member_regular s0 _ [a] a HC0 P0). left. reflexivity.
  - destruct (grow_ready_ne s s1 r rids mfids dids id (i0 :: it) news base nw o BR1 ltac:(discriminate) Hfree)
      as (s2 & Hgrow & BR2 & Fr2 & N2 & Hun2).
    exists s2. split; [exact Hgrow|]. split; [exact BR2|]. split; [exact Fr2|]. split; [exact N2|].
    split; [exact Hun2|intros H; discriminate H].
Qed.

(* one sector of the chain under construction is written *)
Lemma write_step_ready : forall s s1 r rids mfids dids id ids1 news sid o bs,
  BigReady s s1 r rids mfids dids id ids1 news -> In sid ids1 -> o + lenN bs <= slen s ->
  sector_write sid o bs s1 = (wr s1 sid o bs, Ok tt) /\
  BigReady s (wr s1 sid o bs) r rids mfids dids id ids1 news.
Proof.
  intros s s1 r rids mfids dids id ids1 news sid o bs
         (HC1 & HF1 & SW1 & P1 & O1 & HQ1 & Ho1 & Hun1 & Hnews & Hfu1) Hin Hfit.
  destruct (SA.Q_fields s s1 HQ1) as (_ & _ & _ & _ & _ & _ & Hsl1).
  destruct (O1 sid Hin) as (Hfo & _ & Hsid).
  destruct (SA.owned_write_step s1 r rids mfids dids id sid o bs SW1 Hfo Hsid) as (Ew & SW2 & Ho2);
    [rewrite Hsl1; exact Hfit|].
  set (s2 := wr s1 sid o bs) in *.
  destruct (coherent_G s1 HC1) as [(Gi & Gf & _) _].
  destruct (sector_write_frame s1 sid o bs s2 (Ok tt) Gi Ew) as (Hh & Hm & Hl).
  destruct (meta_dframe ids1 s1 s2 Hm Hl Hh) as [F Hd].
  { intros x Hx. apply sector_bytes_wr_other. intros ->. contradiction. }
  { intros x. apply lenN_sector_bytes_wr; [apply Gf; exact Hsid|rewrite Hsl1; exact Hfit]. }
  pose proof F as (G1 & G2 & G3 & G4 & G5 & G6 & _).
  destruct (owned_avoids _ _ _ _ _ _ O1) as (Ad & Am & _).
  assert (HC2 : Coherent s2).
  { apply Coherent_split. apply Coherent_split in HC1. destruct HC1 as [C1 DP1]. split.
    - eapply (core_dframe ids1); [exact C1|exact F| |].
      + eapply chain_avoids_difat; [exact C1|]. apply SA.chain_of_path. exact P1.
      + intros m Hm'. rewrite (swfx_mini_ids _ _ _ _ _ _ _ SW1 Hm'). exact Am.
    - eapply DirPart_dframe; [exact DP1|exact F|exact Hd|].
      intros d Hd'. rewrite (swfx_dir_ids _ _ _ _ _ _ _ SW1 Hd'). exact Ad. }
  split; [exact Ew|].
  unfold BigReady. split; [exact HC2|]. split; [apply (FreeClean_transfer s1); assumption|].
  split; [exact SW2|]. split; [rewrite G5; exact P1|]. split; [apply SA.owned_wr; exact O1|].
  split; [exact HQ1|].
  split; [exact (SA.others_kept_trans _ _ _ _ Ho1 Ho2)|]. split; [|split; [exact Hnews|]].
  - intros y Hr Hy Hn. rewrite G5. exact (Hun1 y Hr Hy Hn).
  - rewrite G5. exact Hfu1.
Qed.

(* the extension that precedes a write at the end of the capacity *)
Lemma pre_extend_ready : forall s s1 r rids mfids dids id ids1 news off L,
  BigReady s s1 r rids mfids dids id ids1 news ->
  off <= slen s * lenN ids1 -> 0 < L ->
  (off + L + slen s - 1) / slen s - lenN ids1 <= lenN (free s1) ->
  exists s1' nw1,
    (if off =? slen s * lenN ids1
     then do sid <- match lastN ids1 with
                    | Some last => extend_chain last IZero
                    | None => begin_chain IZero
                    end;
          ret (mkChain IZero (ids1 ++ [sid]) off)
     else ret (mkChain IZero ids1 off)) s1 = (s1', Ok (mkChain IZero (ids1 ++ nw1) off)) /\
    BigReady s s1' r rids mfids dids id (ids1 ++ nw1) (news ++ nw1) /\
    off < slen s * lenN (ids1 ++ nw1) /\
    lenN nw1 = (if off =? slen s * lenN ids1 then 1 else 0) /\
    free s1 = free s1' ++ rev nw1 /\ nsect s1' = nsect s1 /\
    (forall y, y <= MAX_REGULAR_SECTOR -> unref (fat s1) y -> ~ In y nw1 -> unref (fat s1') y) /\
    (ids1 = [] -> nw1 <> [] -> unref (fat s1') (hd END_OF_CHAIN nw1)).
Proof.
  intros s s1 r rids mfids dids id ids1 news off L BR1 Hoff HL Hroom.
  pose proof (slen_pos s) as Hsp.
  destruct (off =? slen s * lenN ids1) eqn:E.
  - apply N.eqb_eq in E.
    assert (Hnd : 1 <= (off + L + slen s - 1) / slen s - lenN ids1).
    { rewrite E. replace (slen s * lenN ids1 + L + slen s - 1)
        with ((L - 1) + (lenN ids1 + 1) * slen s) by lia.
      rewrite N.div_add by lia. generalize ((L - 1) / slen s). intro q. lia. }
    destruct (SA.lastN_of_len (free s1) ltac:(lia)) as (sid & Hlast).
    pose proof (lastN_Some_snoc _ _ _ Hlast) as Hfs.
    destruct (grow_ready_from s s1 r rids mfids dids id ids1 news (pop_last (free s1)) [sid] off BR1 Hfs)
      as (s1' & Hgrow & BR1' & Fr1 & N1 & Hun1 & Hh1).
    cbn [length chain_grow c_ids c_init c_off] in Hgrow.
    exists s1', [sid]. split; [exact Hgrow|]. split; [exact BR1'|].
    split; [rewrite lenN_app; cbn [lenN]; lia|]. split; [reflexivity|].
    split; [cbn [rev app]; rewrite Fr1; exact Hfs|]. split; [exact N1|]. split; [exact Hun1|exact Hh1].
  - apply N.eqb_neq in E. exists s1, []. cbn [rev lenN]. rewrite !app_nil_r.
    split; [reflexivity|]. split; [exact BR1|]. split; [lia|]. split; [reflexivity|].
    split; [reflexivity|]. split; [reflexivity|]. split; [intros y _ Hy _; exact Hy|intros _ H; contradiction].
Qed.

Lemma lenN_rev' : forall A (l : list A), lenN (rev l) = lenN l.
Proof. intros. apply WalkProofs.lenN_rev. Qed.

(* Chain::write with allocation from the free stack *)
Lemma write_go_ready : forall fuel s s1 r rids mfids dids id ids1 news off bs,
  BigReady s s1 r rids mfids dids id ids1 news ->
  off <= slen s * lenN ids1 ->
  (off + lenN bs + slen s - 1) / slen s - lenN ids1 <= lenN (free s1) ->
  (1 <= fuel)%nat ->
  (0 < lenN bs -> off + lenN bs <= slen s * (off / slen s + N.of_nat fuel - 1)) ->
  exists s2 nw,
    chain_write_go fuel (mkChain IZero ids1 off) bs s1
      = (s2, Ok (mkChain IZero (ids1 ++ nw) (off + lenN bs))) /\
    BigReady s s2 r rids mfids dids id (ids1 ++ nw) (news ++ nw) /\
    free s1 = free s2 ++ rev nw /\ nsect s2 = nsect s1 /\
    off + lenN bs <= slen s * lenN (ids1 ++ nw) /\
    (forall y, y <= MAX_REGULAR_SECTOR -> unref (fat s1) y -> ~ In y nw -> unref (fat s2) y) /\
    (ids1 = [] -> nw <> [] -> unref (fat s2) (hd END_OF_CHAIN nw)).
Proof.
  induction fuel as [|f IH]; intros s s1 r rids mfids dids id ids1 news off bs BR1 Hoff Hroom Hf1 Hfuel; [lia|].
  pose proof (slen_pos s) as Hsp.
  assert (Hsl1 : slen s1 = slen s).
  { destruct BR1 as (_ & _ & _ & _ & _ & HQ1 & _). destruct (SA.Q_fields s s1 HQ1) as (_ & _ & _ & _ & _ & _ & H). exact H. }
  cbn [chain_write_go].
  destruct bs as [|b0 bt] eqn:Ebs.
  - exists s1, []. cbn [lenN rev]. rewrite !app_nil_r, N.add_0_r.
    split; [reflexivity|]. split; [exact BR1|]. split; [reflexivity|]. split; [reflexivity|].
    split; [exact Hoff|]. split; [intros y _ Hy _; exact Hy|intros _ H; contradiction].
  - assert (Hbs : 0 < lenN (b0 :: bt)) by (cbn [lenN]; lia).
    rewrite <- Ebs in *. clear Ebs b0 bt. specialize (Hfuel Hbs).
    destruct (pre_extend_ready s s1 r rids mfids dids id ids1 news off (lenN bs) BR1 Hoff Hbs Hroom)
      as (s1' & nw1 & Epre & BR1' & Hoff1 & Ln1 & F1 & En1 & Hun1 & Hh1).
    set (idsa := ids1 ++ nw1) in *.
    rewrite bind_get. cbv zeta. cbn [c_ids c_off c_init]. unfold chain_len. cbn [c_ids]. rewrite Hsl1.
    erewrite bind_exec; [|exact Epre].
    cbn [c_ids c_off c_init].
    destruct (divmod_split (slen s) off Hsp) as [Eoff Hr].
    assert (Hq : off / slen s < lenN idsa) by (apply div_lt_len; lia).
    destruct (nthN idsa (off / slen s)) as [sid|] eqn:Hn;
      [| apply nthN_None_ge in Hn; lia].
    pose proof (nthN_In _ _ _ _ Hn) as Hin.
    remember (N.min (lenN bs) (slen s - off mod slen s)) as k eqn:Ek.
    assert (Hlk : lenN (takeN k bs) = k) by (rewrite lenN_takeN; lia).
    destruct (write_step_ready s s1' r rids mfids dids id idsa (news ++ nw1) sid (off mod slen s) (takeN k bs)
                BR1' Hin) as (Ew & BR2); [lia|].
    set (s2 := wr s1' sid (off mod slen s) (takeN k bs)) in *.
    erewrite bind_exec; [|exact Ew].
    assert (Hfit1 : off + k <= slen s * lenN idsa) by nia.
    assert (HL : lenN (free s1) = lenN (free s1') + lenN nw1).
    { rewrite F1, lenN_app, lenN_rev'. reflexivity. }
    destruct (IH s s2 r rids mfids dids id idsa (news ++ nw1) (off + k) (dropN k bs) BR2 Hfit1)
      as (s' & nw2 & Ego & BR' & F' & En' & Hfit' & Hun' & Hh').
    { rewrite lenN_dropN.
      replace (off + k + (lenN bs - k)) with (off + lenN bs) by lia.
      change (free s2) with (free s1').
      unfold idsa. rewrite lenN_app. lia. }
    { assert (off + lenN bs > slen s * (off / slen s)) by lia.
      destruct f as [|f']; [|lia]. exfalso. cbn in Hfuel. nia. }
    { rewrite lenN_dropN. intro Hrem.
      assert (Hk : k = slen s - off mod slen s) by lia.
      rewrite Hk, div_next by exact Hsp.
      replace (off + (slen s - off mod slen s) + (lenN bs - (slen s - off mod slen s)))
        with (off + lenN bs) by lia.
      replace (off / slen s + 1 + N.of_nat f - 1)
        with (off / slen s + N.of_nat (S f) - 1) by lia.
      exact Hfuel. }
    rewrite lenN_dropN in *.
    replace (off + k + (lenN bs - k)) with (off + lenN bs) in * by lia.
    unfold idsa in Ego, BR', Hfit'.
    rewrite <- !app_assoc in Ego, BR', Hfit'. rewrite <- (app_assoc news nw1 nw2) in BR'.
    change (free s2) with (free s1') in F'. change (nsect s2) with (nsect s1') in En'.
    change (fat s2) with (fat s1') in Hun'.
    exists s', (nw1 ++ nw2).
    split; [exact Ego|]. split; [exact BR'|].
    split; [rewrite rev_app_distr, app_assoc, <- F'; exact F1|].
    split; [congruence|]. split; [exact Hfit'|]. split.
    { intros y Hyr Hy Hyn. apply Hun'; [exact Hyr| |intro H; apply Hyn; apply in_or_app; right; exact H].
      apply Hun1; [exact Hyr|exact Hy|intro H; apply Hyn; apply in_or_app; left; exact H]. }
    intros Hi0 Hne. destruct nw1 as [|x1 t1].
    + cbn [app] in *. apply Hh'; [unfold idsa; rewrite Hi0; reflexivity|exact Hne].
    + cbn [app hd]. assert (t1 = []).
      { destruct (off =? slen s * lenN ids1); cbn [lenN] in Ln1; [|lia]. apply SA.lenN_nil_iff. lia. }
      subst t1.
      assert (Hx1 : unref (fat s1') x1) by (apply Hh1; [exact Hi0|discriminate]).
      destruct BR2 as (HC2 & _ & _ & P2 & O2 & _).
      assert (Hx1in : In x1 idsa) by (unfold idsa; apply in_or_app; right; left; reflexivity).
      apply Hun'; [exact (coh_member_regular s2 _ idsa x1 HC2 P2 Hx1in)|exact Hx1|].
      intro Hin2. destruct (O2 x1 Hx1in) as (_ & Hnf & _). apply Hnf.
      change (free s2) with (free s1'). rewrite F'. apply in_or_app. right. apply in_rev in Hin2. exact Hin2.
Qed.

Lemma write_all_ready : forall s s1 r rids mfids dids id ids1 news off bs,
  BigReady s s1 r rids mfids dids id ids1 news ->
  off <= slen s * lenN ids1 ->
  (off + lenN bs + slen s - 1) / slen s - lenN ids1 <= lenN (free s1) ->
  exists s2 nw,
    chain_write_all (mkChain IZero ids1 off) bs s1
      = (s2, Ok (mkChain IZero (ids1 ++ nw) (off + lenN bs))) /\
    BigReady s s2 r rids mfids dids id (ids1 ++ nw) (news ++ nw) /\
    free s1 = free s2 ++ rev nw /\ nsect s2 = nsect s1 /\
    off + lenN bs <= slen s * lenN (ids1 ++ nw) /\
    (forall y, y <= MAX_REGULAR_SECTOR -> unref (fat s1) y -> ~ In y nw -> unref (fat s2) y) /\
    (ids1 = [] -> nw <> [] -> unref (fat s2) (hd END_OF_CHAIN nw)).
Proof.
  intros s s1 r rids mfids dids id ids1 news off bs BR1 Hoff Hroom.
  assert (Hsl1 : slen s1 = slen s).
  { destruct BR1 as (_ & _ & _ & _ & _ & HQ1 & _). destruct (SA.Q_fields s s1 HQ1) as (_ & _ & _ & _ & _ & _ & H). exact H. }
  unfold chain_write_all. rewrite bind_get. rewrite Hsl1.
  apply (write_go_ready _ s s1 r rids mfids dids id ids1 news off bs BR1 Hoff Hroom).
  - apply le_n_S, Nat.le_0_l.
  - intro Hn. apply fuel_enough; [apply slen_pos | exact Hn].
Qed.

(* ------------------------------------------------------------------ *)
(* the entry of the rebuilt stream is written back                     *)
(* ------------------------------------------------------------------ *)
Theorem big_finish_X : forall s s2 r rids mfids dids id e ids1 news new_len,
  CohX s r rids mfids dids id ->
  nthN (dirs s) id = Some e -> d_type e = TStream ->
  BigReady s s2 r rids mfids dids id ids1 news ->
  unref (fat s2) (hd END_OF_CHAIN ids1) ->
  MINI_STREAM_CUTOFF <= new_len -> new_len <= slen s * lenN ids1 -> LenFits s new_len ->
  exists s',
    update_entry id (hd END_OF_CHAIN ids1) new_len s2 = (s', Ok tt) /\ CohData' s' /\
    big_content s' id (takeN new_len (chain_content s2 ids1)) /\
    SA.others_kept s s' id /\ free s' = free s2 /\ nsect s' = nsect s2 /\ fat s' = fat s2 /\
    ver s' = ver s /\ minifat s' = minifat s /\
    dirs s' = updN (dirs s) id (set_start_len e (hd END_OF_CHAIN ids1) new_len) /\
    hd END_OF_CHAIN ids1 <= u32_max.
Proof.
  intros s s2 r rids mfids dids id e ids1 news new_len (HC & HF & SW & Hmd & Afr & Amf & Ah & Amh) He Ht
         (HC2 & HF2 & SW2 & P2 & O2 & HQ2 & Ho2 & Hun2 & Hnews & Hfu2) Hhu Hcut Hfit Hlen.
  destruct (SA.Q_fields s s2 HQ2) as (Hmf2 & Hmfr2 & _ & Hd2 & _ & Hv2 & Hsl2).
  destruct (SA.finish_big s2 r rids mfids dids id e ids1 new_len SW2
              ltac:(rewrite Hd2; exact He) Ht P2 O2 Hcut ltac:(rewrite Hsl2; exact Hfit))
    as (s' & Eu & HB' & SW' & Ho3 & En' & Ef').
  set (st := hd END_OF_CHAIN ids1) in *.
  assert (Hne1 : ids1 <> []) by (apply (ids_nonempty s ids1 new_len Hcut Hfit)).
  assert (Hstreg : st <= MAX_REGULAR_SECTOR).
  { apply (coh_member_regular s2 _ ids1 _ HC2 P2). unfold st.
    destruct ids1; [contradiction|left; reflexivity]. }
  assert (Hst32 : st <= u32_max) by (unfold u32_max; markers; lia).
  destruct (update_entry_coherent s2 s' id e st new_len HC2) as (HC' & Ed' & (dd & Hdd & Fu)).
  { intros d m Hd Hm. rewrite (swfx_dir_ids _ _ _ _ _ _ _ SW2 Hd), (swfx_mini_ids _ _ _ _ _ _ _ SW2 Hm).
    apply avoids_sym. exact Hmd. }
  { rewrite Hd2. exact He. }
  { exact Ht. }
  { exact Hst32. }
  { unfold LenFits in Hlen. rewrite Hv2. exact Hlen. }
  { exact Eu. }
  pose proof Fu as (U1 & U2 & _ & _ & U5 & U6 & _ & U8 & _ & U10 & _).
  assert (Hoth : forall j, j <> id -> nthN (dirs s') j = nthN (dirs s) j).
  { intros j Hj. rewrite Ed', Hd2. apply nthN_updN_other. congruence. }
  assert (Hid' : nthN (dirs s') id = Some (set_start_len e st new_len)).
  { rewrite Ed', Hd2. apply nthN_updN_same. eapply nthN_Some_lt. exact He. }
  exists s'. split; [exact Eu|]. split.
  - constructor.
    + exact HC'.
    + exists r, rids, mfids, dids. split; assumption.
    + apply (FreeClean_transfer s2); assumption.
    + constructor.
      * rewrite U5. exact Hfu2.
      * intros j ej Hej Hbj. rewrite U5.
        destruct (N.eq_dec j id) as [->|Hj].
        -- rewrite Hid' in Hej. injection Hej as <-. cbn [set_start_len d_start]. exact Hhu.
        -- rewrite (Hoth j Hj) in Hej.
           destruct (SA.sw_bigchain _ _ _ _ _ _ SW2 j ej ltac:(intro E; exact (Hj E))
                       ltac:(rewrite Hd2; exact Hej) Hbj) as (l & Hcl & Hcov & _).
           pose proof (big_head_in s2 ej l Hbj Hcl Hcov) as Hin2.
           apply Hun2; [|exact (Ah j ej Hj Hej Hbj)|].
           { exact (coh_member_regular s2 _ l _ HC2 (WalkProofs.chain_ids_path _ _ _ Hcl) Hin2). }
           intro Hin.
           destruct (O2 _ (Hnews _ Hin)) as ((_ & _ & _ & _ & Hfo) & _).
           exact (Hfo j ej l ltac:(intro E; exact (Hj E)) ltac:(rewrite Hd2; exact Hej) Hbj Hcl Hin2).
      * rewrite U8, Hmf2. exact Amf.
      * intros j ej Hej Hsj. rewrite U8, Hmf2.
        destruct (N.eq_dec j id) as [->|Hj].
        -- rewrite Hid' in Hej. injection Hej as <-. destruct Hsj as (_ & _ & Hl).
           cbn [set_start_len d_len] in Hl. lia.
        -- rewrite (Hoth j Hj) in Hej. exact (Amh j ej Hj Hej Hsj).
  - split; [exact HB'|]. split; [exact (SA.others_kept_trans _ _ _ _ Ho2 Ho3)|].
    split; [exact Ef'|]. split; [exact En'|]. split; [exact U5|].
    split; [rewrite U1; exact Hv2|]. split; [rewrite U8; exact Hmf2|].
    split; [rewrite Ed', Hd2; reflexivity|exact Hst32].
Qed.

Lemma CohX_MiniOK : forall s r rids mfids dids id, CohX s r rids mfids dids id -> MiniOK s.
Proof.
  intros s r rids mfids dids id (HC & _ & SW & Hmd & _ & Amf & _).
  split; [exact HC|]. split; [|exact Amf].
  intros d m Hd Hm. rewrite (swfx_dir_ids _ _ _ _ _ _ _ SW Hd), (swfx_mini_ids _ _ _ _ _ _ _ SW Hm).
  exact Hmd.
Qed.

Lemma small_finish_X : forall s s2 s' r r' rids mfids dids id e news st ln,
  CohX s r rids mfids dids id ->
  MiniOK s2 -> nthN (dirs s2) id = Some e -> d_type e = TStream ->
  fat s2 = fat s -> free s2 = free s -> nsect s2 = nsect s -> ver s2 = ver s ->
  (forall y, y <= MAX_REGULAR_SECTOR -> unref (minifat s) y -> ~ In y news -> unref (minifat s2) y) ->
  (forall x, In x news -> SA.fresh (minifat s) x) ->
  unref (minifat s2) st -> st <= u32_max -> 0 < ln -> ln < MINI_STREAM_CUTOFF ->
  update_entry id st ln s2 = (s', Ok tt) ->
  SA.SWfX_at s' r' rids mfids dids SA.noX ->
  (forall j, j <> ROOT_STREAM_ID -> j <> id -> nthN (dirs s') j = nthN (dirs s) j) ->
  CohData' s' /\ ver s' = ver s /\ minifat s' = minifat s2 /\
  dirs s' = updN (dirs s2) id (set_start_len e st ln).
Proof.
  intros s s2 s' r r' rids mfids dids id e news st ln (HC & HF & SW & Hmdj & Afr & Amf & Ah & Amh)
         (HC2 & Hmd2 & Hfu2) Hn2 Ht
         Hfat2 Hfree2 Hns2 Hv2 Hm2 Hfresh Hst Hst32 Hln0 Hlnc Eu SW' Mdirs.
  pose proof (SA.sw_m _ _ _ _ _ _ SW) as W. pose proof (SA.sw_m _ _ _ _ _ _ SW') as W'.
  destruct (update_entry_coherent s2 s' id e st ln HC2) as (HC' & Ed' & (dd & Hdd & Fu)).
  { intros d m Hd Hm. apply avoids_sym. exact (Hmd2 d m Hd Hm). }
  { exact Hn2. }
  { exact Ht. }
  { exact Hst32. }
  { apply small_fits_mask. lia. }
  { exact Eu. }
  pose proof Fu as (U1 & U2 & _ & _ & U5 & U6 & _ & U8 & _ & _).
  assert (Hfat : fat s' = fat s) by congruence.
  assert (Hid' : nthN (dirs s') id = Some (set_start_len e st ln)).
  { rewrite Ed'. apply nthN_updN_same. eapply nthN_Some_lt. exact Hn2. }
  split; [|split; [congruence|split; [exact U8|exact Ed']]].
  constructor.
  - exact HC'.
  - exists r', rids, mfids, dids. split; assumption.
  - apply (FreeClean_transfer s); [congruence|congruence|exact Hfat|exact HF].
  - constructor.
    + rewrite Hfat. exact Afr.
    + intros j ej Hej Hb. rewrite Hfat.
      assert (Hj : j <> id).
      { intros ->. rewrite Hid' in Hej. injection Hej as <-.
        destruct Hb as [_ Hb]. cbn [set_start_len d_len] in Hb. lia. }
      assert (Hjr : j <> ROOT_STREAM_ID).
      { intros ->. rewrite (SA.mw_root _ _ _ _ _ W') in Hej. injection Hej as <-.
        exact (SA.mw_rtype _ _ _ _ _ W' (proj1 Hb)). }
      rewrite (Mdirs j Hjr Hj) in Hej. exact (Ah j ej Hj Hej Hb).
    + rewrite U8. exact Hfu2.
    + intros j ej Hej Hs. rewrite U8.
      assert (Hjr : j <> ROOT_STREAM_ID).
      { intros ->. rewrite (SA.mw_root _ _ _ _ _ W') in Hej. injection Hej as <-.
        exact (SA.mw_rtype _ _ _ _ _ W' (proj1 Hs)). }
      destruct (N.eq_dec j id) as [->|Hj].
      * rewrite Hid' in Hej. injection Hej as <-. cbn [set_start_len d_start]. exact Hst.
      * rewrite (Mdirs j Hjr Hj) in Hej.
        destruct (SA.sw_small _ _ _ _ _ _ SW j ej ltac:(intro E; exact (Hj E)) Hej Hs) as (m & Hcm & Hcovm).
        pose proof (small_head_in _ ej m Hs Hcm Hcovm) as Hin.
        pose proof (SA.path_In_lt _ _ _ _ (WalkProofs.chain_ids_path _ _ _ Hcm) Hin) as Hlt.
        pose proof (SA.mw_bound _ _ _ _ _ W).
        apply Hm2; [lia|exact (Amh j ej Hj Hej Hs)|].
        intro Hin2. exact (SA.path_not_fresh _ _ _ _ (WalkProofs.chain_ids_path _ _ _ Hcm) Hin (Hfresh _ Hin2)).
Qed.

(* ------------------------------------------------------------------ *)
(* the old storage of the stream is released                           *)
(* ------------------------------------------------------------------ *)
Lemma free_whole_cohX : forall s r rids mfids dids id e ids,
  CohData' s -> SD s r rids mfids dids ->
  nthN (dirs s) id = Some e -> SA.big_entry e -> chain_ids_of (fat s) (d_start e) = Ok ids ->
  exists s1,
    free_chain (d_start e) s = (s1, Ok tt) /\
    CohX s1 r rids mfids dids id /\ SA.Q s1 = SA.Q s /\ SA.others_kept s s1 id /\
    free s1 = free s ++ ids /\ nsect s1 = nsect s.
Proof.
  intros s r rids mfids dids id e ids HCD HSD He Hb Hc.
  pose proof HCD as [HC _ HF [Afr Ah Amf Amh]]. pose proof HSD as [SW Hmd].
  destruct (free_whole_ready s r rids mfids dids id e ids HCD HSD He Hb Hc)
    as (s1 & Efree & HC1 & HF1 & SW1 & HQ1 & Ho1 & Fr1 & N1 & Hmono & Hfu1).
  destruct (SA.Q_fields s s1 HQ1) as (Hmf1 & _ & _ & Hd1 & _ & _ & _).
  exists s1. split; [exact Efree|]. split; [|split; [exact HQ1|split; [exact Ho1|split; [exact Fr1|exact N1]]]].
  unfold CohX. split; [exact HC1|]. split; [exact HF1|]. split; [exact SW1|]. split; [exact Hmd|].
  split; [exact Hfu1|]. split; [rewrite Hmf1; exact Amf|]. split.
  - intros j ej Hj Hej Hbj. rewrite Hd1 in Hej.
    destruct (SA.sw_bigchain _ _ _ _ _ _ SW j ej (SA.noX_not _) Hej Hbj) as (l & Hcl & Hcov & _).
    pose proof (big_head_in s ej l Hbj Hcl Hcov) as Hin.
    apply Hmono; [|exact (Ah j ej Hej Hbj)].
    exact (coh_member_regular s _ l _ HC (WalkProofs.chain_ids_path _ _ _ Hcl) Hin).
  - intros j ej Hj Hej Hsj. rewrite Hd1 in Hej. rewrite Hmf1. exact (Amh j ej Hej Hsj).
Qed.

Lemma free_small_ready : forall s r rids mfids dids id e mids,
  CohData' s -> SD s r rids mfids dids ->
  nthN (dirs s) id = Some e -> SA.small_entry e -> chain_ids_of (minifat s) (d_start e) = Ok mids ->
  exists s1 r1,
    free_mini_chain (d_start e) s = (s1, Ok tt) /\
    CohX s1 r1 rids mfids dids id /\ nthN (dirs s1) id = Some e /\ SA.others_kept s s1 id /\
    MutRefine.RootLen (dirs s) (dirs s1) /\ frameM (mfids ++ dids) s s1.
Proof.
  intros s r rids mfids dids id e mids HCD HSD He Hse Hc.
  pose proof HCD as [HC _ HF Hax]. pose proof HSD as [SW Hmdj].
  pose proof (SA.sw_m _ _ _ _ _ _ SW) as W.
  destruct (SA.free_small_chain s r rids mfids dids id e mids SW He Hse Hc)
    as (s1 & r1 & Efree & SW1 & Sh1 & He1 & Ho1).
  pose proof (MutRefine.free_mini_chain_rootlen _ _ _ _ Efree) as HRL.
  pose proof Efree as Erun. unfold free_mini_chain in Erun. rewrite bind_get in Erun.
  destruct (free_mini_chain_go_coh mids _ (d_start e) s r rids mfids dids s1 HC (CohData'_MD s HCD)
              (ax_mfree s Hax) W (WalkProofs.chain_ids_path _ _ _ Hc)
              ltac:(intros _; exact (ax_mheads s Hax id e He Hse)) Erun)
    as (HC1 & Hmd1 & Hfu1 & Hmono & F1).
  pose proof F1 as (G1 & G2 & G3 & G4 & G5 & G6 & G7 & G9 & _).
  pose proof HRL as (_ & HRLo & _).
  pose proof (SA.sw_m _ _ _ _ _ _ SW1) as W1.
  assert (Hback : forall j ej, nthN (dirs s1) j = Some ej -> d_type ej = TStream -> nthN (dirs s) j = Some ej).
  { intros j ej Hej Tj. rewrite <- (HRLo j); [exact Hej|].
    intros ->. rewrite (SA.mw_root _ _ _ _ _ W1) in Hej. injection Hej as <-.
    exact (SA.mw_rtype _ _ _ _ _ W1 Tj). }
  exists s1, r1. split; [exact Efree|]. split; [|split; [exact He1|split; [exact Ho1|split; [exact HRL|exact F1]]]].
  unfold CohX. split; [exact HC1|].
  split; [apply (FreeClean_transfer s); [exact G6|exact G2|exact G5|exact HF]|].
  split; [exact SW1|]. split; [exact Hmdj|].
  split; [unfold FreeUnref; rewrite G5; exact (ax_free s Hax)|]. split; [exact Hfu1|]. split.
  - intros j ej Hj Hej Hbj. rewrite G5. exact (ax_heads s Hax j ej (Hback j ej Hej (proj1 Hbj)) Hbj).
  - intros j ej Hj Hej Hsj. pose proof (Hback j ej Hej (proj1 Hsj)) as Hej0.
    apply Hmono; [|exact (ax_mheads s Hax j ej Hej0 Hsj)].
    destruct (SA.sw_small _ _ _ _ _ _ SW j ej (SA.noX_not _) Hej0 Hsj) as (m & Hcm & Hcovm).
    pose proof (small_head_in _ ej m Hsj Hcm Hcovm) as Hin.
    pose proof (SA.path_In_lt _ _ _ _ (WalkProofs.chain_ids_path _ _ _ Hcm) Hin).
    pose proof (SA.mw_bound _ _ _ _ _ W). lia.
Qed.

(* ================================================================== *)
(* item 4 (5): the first resize / write of an empty stream, large       *)
(* ================================================================== *)
Theorem resize_empty_big_cohdata' : forall s id new_len base nw,
  CohData' s -> SA.empty_stream s id ->
  MINI_STREAM_CUTOFF <= new_len -> new_len <= MAX_REGULAR_SECTOR * slen s -> LenFits s new_len ->
  free s = base ++ rev nw ->
  lenN nw = (slen s + new_len - 1) / slen s ->
  exists s',
    resize id new_len s = (s', Ok tt) /\ CohData' s' /\
    (forall strict, open_model strict (concat_img (img s')) = Ok (reopened s')) /\
    big_content (reopened s') id (repeatN 0 new_len) /\
    big_content s' id (repeatN 0 new_len) /\
    free s' = base /\ nsect s' = nsect s /\
    SA.others_kept s s' id /\ (TreePart s -> TreePart s').
Proof.
  intros s id new_len base nw HCD Hemp Hcut Hmax Hlen Hfree Hcount.
  pose proof (slen_pos s) as Hsp.
  pose proof HCD as [HC (r & rids & mfids & dids & HSD) HF _].
  pose proof Hemp as (e & Hn & Ht & Hst & Hl0).
  assert (Hpos : 0 < new_len) by (rewrite CUTOFF_val in Hcut; lia).
  destruct (ceil_props (slen s) new_len Hsp Hpos) as [Hc1 Hc2]. rewrite <- Hcount in Hc1, Hc2.
  pose proof (cohdata'_cohX s r rids mfids dids id HCD HSD) as HX.
  assert (Hnwne : nw <> []) by (intros ->; cbn [lenN] in Hc1; lia).
  destruct (grow_ready_from s s r rids mfids dids id [] [] base nw 0 (ready_nil _ _ _ _ _ _ HX) Hfree)
    as (s1 & Hgrow & BR1 & Fr1 & N1 & _ & Hhu).
  cbn [app] in *.
  destruct (big_finish_X s s1 r rids mfids dids id e nw nw new_len HX Hn Ht BR1 (Hhu eq_refl Hnwne) Hcut Hc1 Hlen)
    as (s' & Eu & HCD' & _ & Ho & F' & N' & _ & Hv' & Hm' & Hd' & Hst32).
  assert (R : resize id new_len s = (s', Ok tt)).
  { unfold resize. sred.
    rewrite (stream_entry_ok s id e Hn Ht). sred. rewrite Hst, Hl0.
    assert (E0 : (MAX_REGULAR_SECTOR * slen s <? new_len) = false) by (apply N.ltb_ge; exact Hmax).
    rewrite E0. sred. rewrite (mask_check_false s new_len Hlen). sred.
    rewrite N.eqb_refl. cbn [N.eqb negb].
    assert (E5 : (new_len <? MINI_STREAM_CUTOFF) = false) by lia. rewrite E5.
    rewrite (chain_new_exec s END_OF_CHAIN IZero [] (SA.chain_of_path _ _ _ (WalkProofs.path_nil _))).
    rewrite (StoreProofs.chain_set_len_grow s (mkChain IZero [] 0) new_len).
    - cbn [c_ids]. change (lenN (@nil N)) with 0. rewrite N.sub_0_r, <- Hcount.
      replace (N.to_nat (lenN nw)) with (length nw) by (rewrite (WalkProofs.lenN_length nw); lia).
      rewrite Hgrow. rewrite SA.chain_start_hd. exact Eu.
    - apply two64_room. exact Hmax.
    - exact Hpos.
    - cbn [c_ids]. change (lenN (@nil N)) with 0. rewrite <- Hcount. lia. }
  destruct (SA.resize_empty_big s id new_len) as (s'' & R'' & HB'' & _).
  { exists r, rids, mfids, dids. exact (proj1 HSD). }
  { exact Hemp. }
  { exact Hcut. }
  { exact Hmax. }
  { exact Hlen. }
  { rewrite <- Hcount, Hfree, lenN_app, WalkProofs.lenN_rev. lia. }
  assert (s'' = s') by congruence. subst s''.
  exists s'. split; [exact R|]. split; [exact HCD'|].
  split; [exact (cohdata'_reopens s' HCD')|].
  split; [exact (big_content_same_store s' (reopened s') (same_store_reopened s') _ _ HB'')|].
  split; [exact HB''|]. split; [congruence|]. split; [congruence|]. split; [exact Ho|].
  intro HTP. exact (TreePart_startlen s s' id e _ new_len HTP HC Hn Ht Hst32 Hlen Hd' Hv' Hm').
Qed.

Theorem write_empty_big_cohdata' : forall s id buf,
  CohData' s -> SA.empty_stream s id ->
  MINI_STREAM_CUTOFF <= lenN buf ->
  lenN buf <= N.min (MAX_REGULAR_SECTOR * slen s) (stream_len_mask (ver s)) ->
  (lenN buf + slen s - 1) / slen s <= lenN (free s) ->
  exists s',
    write_data id 0 buf s = (s', Ok tt) /\ CohData' s' /\
    (forall strict, open_model strict (concat_img (img s')) = Ok (reopened s')) /\
    big_content (reopened s') id buf /\ big_content s' id buf /\
    nsect s' = nsect s /\
    SA.others_kept s s' id /\ (TreePart s -> TreePart s').
Proof.
  intros s id buf HCD Hemp Hcut Hbounds Hroom.
  pose proof (slen_pos s) as Hsp.
  pose proof HCD as [HC (r & rids & mfids & dids & HSD) HF _].
  pose proof Hemp as (e & Hn & Ht & Hst & Hl0).
  pose proof (cohdata'_cohX s r rids mfids dids id HCD HSD) as HX.
  destruct (write_all_ready s s r rids mfids dids id [] [] 0 buf (ready_nil _ _ _ _ _ _ HX))
    as (s1 & nw & Ew & BR1 & Fr1 & N1 & Hfit & _ & Hhu).
  { cbn [lenN]. lia. }
  { cbn [lenN]. rewrite N.add_0_l, N.sub_0_r. exact Hroom. }
  cbn [app lenN] in *. rewrite N.add_0_l in *.
  assert (Hnwne : nw <> []).
  { intros ->. cbn [lenN] in Hfit. rewrite CUTOFF_val in Hcut. lia. }
  destruct (big_finish_X s s1 r rids mfids dids id e nw nw (lenN buf) HX Hn Ht BR1 (Hhu eq_refl Hnwne) Hcut Hfit)
    as (s' & Eu & HCD' & _ & Ho & F' & N' & _ & Hv' & Hm' & Hd' & Hst32).
  { unfold LenFits. lia. }
  assert (R : write_data id 0 buf s = (s', Ok tt)).
  { unfold write_data. sred.
    rewrite (stream_entry_ok s id e Hn Ht). sred. rewrite Hst, Hl0.
    change (0 <? 0) with false. sred.
    replace (N.min (MAX_REGULAR_SECTOR * slen s) (stream_len_mask (ver s)) <? N.max 0 (0 + lenN buf))
      with false by (symmetry; apply N.ltb_ge; lia).
    cbn [N.ltb N.compare N.eqb negb]. rewrite N.eqb_refl. rewrite N.add_0_l.
    replace (N.max 0 (lenN buf)) with (lenN buf) by lia.
    assert (E4 : (lenN buf <? MINI_STREAM_CUTOFF) = false) by lia. rewrite E4.
    rewrite (chain_new_exec s END_OF_CHAIN IZero [] (SA.chain_of_path _ _ _ (WalkProofs.path_nil _))).
    rewrite Ew. rewrite SA.chain_start_hd. exact Eu. }
  destruct (SA.write_data_empty_big s id buf) as (s'' & R'' & HB'' & _).
  { exists r, rids, mfids, dids. exact (proj1 HSD). }
  { exact Hemp. }
  { exact Hcut. }
  { exact Hbounds. }
  { exact Hroom. }
  assert (s'' = s') by congruence. subst s''.
  exists s'. split; [exact R|]. split; [exact HCD'|].
  split; [exact (cohdata'_reopens s' HCD')|].
  split; [exact (big_content_same_store s' (reopened s') (same_store_reopened s') _ _ HB'')|].
  split; [exact HB''|]. split; [congruence|]. split; [exact Ho|].
  intro HTP. apply (TreePart_startlen s s' id e _ (lenN buf) HTP HC Hn Ht Hst32); [|exact Hd'|exact Hv'|exact Hm'].
  lia.
Qed.

Lemma split_stack : forall (l : list N) k, N.of_nat k <= lenN l ->
  exists base nw, l = base ++ rev nw /\ length nw = k.
Proof.
  intros l k Hk. exists (rev (skipn k (rev l))), (firstn k (rev l)). split.
  - rewrite <- rev_app_distr, firstn_skipn, rev_involutive. reflexivity.
  - apply firstn_length_le. rewrite rev_length. rewrite (WalkProofs.lenN_length l) in Hk. lia.
Qed.

(* ================================================================== *)
(* item 4 (6): migration 2b, a small stream becomes large               *)
(* ================================================================== *)
Theorem resize_small_to_big_cohdata' : forall s id V new_len,
  CohData' s -> small_content s id V ->
  MINI_STREAM_CUTOFF <= new_len -> new_len <= MAX_REGULAR_SECTOR * slen s -> LenFits s new_len ->
  (slen s + new_len - 1) / slen s <= lenN (free s) ->
  exists s',
    resize id new_len s = (s', Ok tt) /\ CohData' s' /\
    (forall strict, open_model strict (concat_img (img s')) = Ok (reopened s')) /\
    big_content (reopened s') id (V ++ repeatN 0 (new_len - lenN V)) /\
    big_content s' id (V ++ repeatN 0 (new_len - lenN V)) /\
    nsect s' = nsect s /\ SA.others_kept s s' id /\ (TreePart s -> TreePart s').
Proof.
  intros s id V new_len HCD Hsc Hcut2 Hmax Hmask Hroom.
  pose proof (slen_pos s) as Hsp.
  pose proof HCD as [HC (r & rids & mfids & dids & HSD) HF Hax]. pose proof HSD as [SW0 Hmdj].
  pose proof (SA.sw_m _ _ _ _ _ _ SW0) as W.
  destruct (SA.small_content_at _ _ _ _ _ _ _ W Hsc) as (e & mids & Hsm).
  pose proof (small_at_lenV _ _ _ _ _ _ Hsm) as HlenV.
  destruct (small_at_start _ _ _ _ _ _ Hsm) as (Hne & Hst & Hk).
  pose proof (SA.small_at_entry _ _ _ _ _ _ Hsm) as Hse.
  pose proof Hsm as (Hnth & Ht & Hcut & Hpos & Hch & Hgm & Hle & HV).
  destruct (free_small_ready s r rids mfids dids id e mids HCD HSD Hnth Hse Hch)
    as (s1 & r1 & Efree & HX1 & Hn1 & Ho1 & HRL & FM1).
  pose proof FM1 as (G1 & G2 & _ & _ & G5 & G6 & _).
  assert (Hsl1 : slen s1 = slen s) by (unfold slen; rewrite G1; reflexivity).
  set (num := (slen s + new_len - 1) / slen s) in *.
  assert (Hpos' : 0 < new_len) by (rewrite CUTOFF_val in *; lia).
  destruct (ceil_props (slen s) new_len Hsp Hpos') as [Hc1 Hc2'']. fold num in Hc1, Hc2''.
  assert (Etmp : takeN (d_len e) (dropN 0 (mchain_content s rids mids)) = V)
    by (rewrite dropN_0; symmetry; exact HV).
  destruct (write_all_ready s1 s1 r1 rids mfids dids id [] [] 0 V (ready_nil _ _ _ _ _ _ HX1))
    as (s2 & nw1 & Ew1 & BR2 & Fr2 & N2 & Hfit1 & _ & Hh1).
  { cbn [lenN]. lia. }
  { cbn [lenN]. rewrite N.add_0_l, N.sub_0_r, HlenV, Hsl1, G6.
    etransitivity; [|exact Hroom]. apply SA.div_mono; [exact Hsp | rewrite CUTOFF_val in *; lia]. }
  cbn [app lenN] in *. rewrite N.add_0_l in *. rewrite HlenV, Hsl1 in *.
  assert (Hnw1ne : nw1 <> []) by (intros ->; cbn [lenN] in Hfit1; lia).
  pose proof (Hh1 eq_refl Hnw1ne) as Hhead2.
  assert (Hnw1 : lenN nw1 <= num).
  { assert (Hl1 : lenN nw1 = (d_len e + slen s - 1) / slen s).
    { destruct (SA.chain_write_all_alloc s1 r1 rids mfids dids id [] 0 V)
        as (s2' & nw1' & Ew1' & _ & _ & _ & Ln1 & _); try apply HX1.
      - constructor.
      - apply SA.owned_nil.
      - cbn [lenN]. lia.
      - cbn [lenN]. rewrite N.add_0_l, N.sub_0_r, HlenV, Hsl1, G6.
        etransitivity; [|exact Hroom]. apply SA.div_mono; [exact Hsp | rewrite CUTOFF_val in *; lia].
      - cbn [app lenN] in *. rewrite N.add_0_l, N.sub_0_r, HlenV, Hsl1 in *.
        rewrite Ew1 in Ew1'. injection Ew1' as _ <-. exact Ln1. }
    rewrite Hl1. unfold num. apply SA.div_mono; [exact Hsp | rewrite CUTOFF_val in *; lia]. }
  assert (Hfl : lenN (free s) = lenN (free s2) + lenN nw1).
  { rewrite <- G6, Fr2, lenN_app, WalkProofs.lenN_rev. reflexivity. }
  destruct (split_stack (free s2) (N.to_nat (num - lenN nw1))) as (base & nw2 & Hfree2 & Hlen2).
  { rewrite N2Nat.id. lia. }
  destruct (grow_ready_from s1 s2 r1 rids mfids dids id nw1 nw1 base nw2 (d_len e) BR2 Hfree2)
    as (s3 & Hgrow & BR3 & Fr3 & N3 & Hun3 & _).
  rewrite Hlen2 in Hgrow.
  assert (Hln2 : lenN nw2 = num - lenN nw1) by (rewrite (WalkProofs.lenN_length nw2), Hlen2, N2Nat.id; reflexivity).
  assert (Hhead3 : unref (fat s3) (hd END_OF_CHAIN (nw1 ++ nw2))).
  { rewrite (SA.hd_app_ne nw1 nw2 END_OF_CHAIN Hnw1ne).
    destruct BR2 as (HC2 & _ & _ & P2 & O2 & _).
    assert (Hin : In (hd END_OF_CHAIN nw1) nw1) by (destruct nw1; [contradiction|left; reflexivity]).
    apply Hun3; [exact (coh_member_regular s2 _ nw1 _ HC2 P2 Hin)|exact Hhead2|].
    intro Hin2. destruct (O2 _ Hin) as (_ & Hnf & _). apply Hnf.
    rewrite Hfree2. apply in_or_app. right. apply in_rev in Hin2. exact Hin2. }
  destruct (big_finish_X s1 s3 r1 rids mfids dids id e (nw1 ++ nw2) (nw1 ++ nw2) new_len HX1 Hn1 Ht BR3 Hhead3 Hcut2)
    as (s' & Eu & HCD' & _ & Ho & F' & N' & _ & Hv' & Hm' & Hd' & Hst32).
  { rewrite Hsl1, lenN_app, Hln2. replace (lenN nw1 + (num - lenN nw1)) with num by lia. exact Hc1. }
  { unfold LenFits in *. rewrite G1. exact Hmask. }
  assert (R : resize id new_len s = (s', Ok tt)).
  { unfold resize. sred.
    rewrite (stream_entry_ok s id e Hnth Ht). sred.
    assert (E0 : (MAX_REGULAR_SECTOR * slen s <? new_len) = false) by (apply N.ltb_ge; exact Hmax).
    rewrite E0. sred. rewrite (mask_check_false s new_len Hmask). sred.
    assert (E2 : (d_start e =? END_OF_CHAIN) = false) by lia. rewrite E2.
    assert (E3 : (d_len e <? MINI_STREAM_CUTOFF) = true) by lia. rewrite E3.
    assert (E4 : (new_len =? 0) = false) by lia. rewrite E4.
    assert (E5 : (new_len <? MINI_STREAM_CUTOFF) = false) by lia. rewrite E5.
    rewrite (mchain_new_ok s _ mids Hch).
    rewrite (mchain_read_spec s rids (mkMChain mids 0) (d_len e) Hgm)
      by (unfold mchain_len; cbn [mc_ids mc_off]; rewrite MSL_64; lia).
    cbn [mc_ids mc_off]. rewrite Etmp.
    rewrite SA.mchain_start_hd. rewrite SA.mchain_start_hd in Hst. rewrite Hst, Efree.
    rewrite (chain_new_exec s1 END_OF_CHAIN IZero [] (SA.chain_of_path _ _ _ (WalkProofs.path_nil _))).
    rewrite Ew1.
    assert (Hsl2 : slen s2 = slen s).
    { destruct BR2 as (_ & _ & _ & _ & _ & HQ2 & _).
      destruct (SA.Q_fields s1 s2 HQ2) as (_ & _ & _ & _ & _ & _ & H). rewrite H. exact Hsl1. }
    rewrite (SA.chain_set_len_ge s2 (mkChain IZero nw1 (d_len e)) new_len).
    - cbn [c_ids]. rewrite Hsl2. fold num. rewrite Hgrow. rewrite SA.chain_start_hd. exact Eu.
    - rewrite Hsl2, StoreProofs.two64_val. rewrite MAXREG_val in Hmax.
      destruct (slen_cases s) as [E|E]; rewrite E in *; lia.
    - exact Hpos'.
    - cbn [c_ids]. rewrite Hsl2. fold num. exact Hnw1. }
  destruct (SA.resize_small_to_big s id V new_len) as (s'' & R'' & HB'' & _).
  { exists r, rids, mfids, dids. exact SW0. }
  { exact Hsc. }
  { exact Hcut2. }
  { exact Hmax. }
  { exact Hmask. }
  { exact Hroom. }
  assert (s'' = s') by congruence. subst s''. rewrite HlenV in HB''.
  exists s'. split; [exact R|]. split; [exact HCD'|].
  split; [exact (cohdata'_reopens s' HCD')|].
  split; [exact (big_content_same_store s' (reopened s') (same_store_reopened s') _ _ HB'')|].
  split; [exact HB''|]. split; [congruence|].
  split; [exact (SA.others_kept_trans _ _ _ _ Ho1 Ho)|].
  intro HTP. apply (TreePart_DF s s' id HTP (cd_coh s' HCD')); [congruence| |].
  - pose proof (framesR_resize id new_len s) as D. rewrite R in D. exact D.
  - intros e0 He0 _. assert (e0 = e) by congruence. subst e0. exact Ht.
Qed.

Theorem write_small_to_big_cohdata' : forall s id V off buf,
  CohData' s -> small_content s id V -> off <= lenN V ->
  MINI_STREAM_CUTOFF <= off + lenN buf ->
  off + lenN buf <= N.min (MAX_REGULAR_SECTOR * slen s) (stream_len_mask (ver s)) ->
  (off + lenN buf + slen s - 1) / slen s <= lenN (free s) ->
  exists s',
    write_data id off buf s = (s', Ok tt) /\ CohData' s' /\
    (forall strict, open_model strict (concat_img (img s')) = Ok (reopened s')) /\
    big_content (reopened s') id (spliceN V off buf) /\
    big_content s' id (spliceN V off buf) /\
    nsect s' = nsect s /\ SA.others_kept s s' id /\ (TreePart s -> TreePart s').
Proof.
  intros s id V off buf HCD Hsc Hoff Hcut2 Hbounds Hroom.
  pose proof (slen_pos s) as Hsp.
  pose proof HCD as [HC (r & rids & mfids & dids & HSD) HF Hax]. pose proof HSD as [SW0 Hmdj].
  pose proof (SA.sw_m _ _ _ _ _ _ SW0) as W.
  destruct (SA.small_content_at _ _ _ _ _ _ _ W Hsc) as (e & mids & Hsm).
  pose proof (small_at_lenV _ _ _ _ _ _ Hsm) as HlenV. rewrite HlenV in Hoff.
  destruct (small_at_start _ _ _ _ _ _ Hsm) as (Hne & Hst & Hk).
  pose proof (SA.small_at_entry _ _ _ _ _ _ Hsm) as Hse.
  pose proof Hsm as (Hnth & Ht & Hcut & Hpos & Hch & Hgm & Hle & HV).
  pose proof (good_mchain_len _ _ _ Hgm) as HL0.
  destruct (free_small_ready s r rids mfids dids id e mids HCD HSD Hnth Hse Hch)
    as (s1 & r1 & Efree & HX1 & Hn1 & Ho1 & HRL & FM1).
  pose proof FM1 as (G1 & G2 & _ & _ & G5 & G6 & _).
  assert (Hsl1 : slen s1 = slen s) by (unfold slen; rewrite G1; reflexivity).
  set (tmp := takeN off (dropN 0 (mchain_content s rids mids))).
  assert (Hltmp : lenN tmp = off) by (unfold tmp; rewrite dropN_0, lenN_takeN; lia).
  destruct (write_all_ready s1 s1 r1 rids mfids dids id [] [] 0 tmp (ready_nil _ _ _ _ _ _ HX1))
    as (s2 & nw1 & Ew1 & BR2 & Fr2 & N2 & Hfit1 & _ & Hh1).
  { cbn [lenN]. lia. }
  { cbn [lenN]. rewrite N.add_0_l, N.sub_0_r, Hltmp, Hsl1, G6.
    etransitivity; [|exact Hroom]. apply SA.div_mono; lia. }
  cbn [app lenN] in *. rewrite N.add_0_l in *. rewrite Hltmp, Hsl1 in *.
  assert (Hfl : lenN (free s) = lenN (free s2) + lenN nw1).
  { rewrite <- G6, Fr2, lenN_app, WalkProofs.lenN_rev. reflexivity. }
  destruct (write_all_ready s1 s2 r1 rids mfids dids id nw1 nw1 off buf BR2)
    as (s3 & nw2 & Ew2 & BR3 & Fr3 & N3 & Hfit2 & Hun3 & Hh2).
  { rewrite Hsl1. exact Hfit1. }
  { rewrite Hsl1. lia. }
  rewrite Hsl1 in *.
  assert (Hallne : nw1 ++ nw2 <> []).
  { intro E. rewrite E in Hfit2. cbn [lenN] in Hfit2. rewrite CUTOFF_val in Hcut2. lia. }
  assert (Hhead3 : unref (fat s3) (hd END_OF_CHAIN (nw1 ++ nw2))).
  { destruct nw1 as [|x1 t1].
    - cbn [app] in *. apply Hh2; [reflexivity|exact Hallne].
    - cbn [app hd].
      destruct BR2 as (HC2 & _ & _ & P2 & O2 & _).
      assert (Hin : In x1 (x1 :: t1)) by (left; reflexivity).
      apply Hun3; [exact (coh_member_regular s2 _ _ _ HC2 P2 Hin)|exact (Hh1 eq_refl ltac:(discriminate))|].
      intro Hin2. destruct (O2 _ Hin) as (_ & Hnf & _). apply Hnf.
      rewrite Fr3. apply in_or_app. right. apply in_rev in Hin2. exact Hin2. }
  set (ln := N.max (d_len e) (off + lenN buf)).
  assert (Eln : ln = off + lenN buf) by (unfold ln; lia).
  destruct (big_finish_X s1 s3 r1 rids mfids dids id e (nw1 ++ nw2) (nw1 ++ nw2) ln HX1 Hn1 Ht BR3 Hhead3)
    as (s' & Eu & HCD' & _ & Ho & F' & N' & _ & Hv' & Hm' & Hd' & Hst32).
  { lia. }
  { rewrite Hsl1, Eln. exact Hfit2. }
  { unfold LenFits. rewrite G1, Eln. lia. }
  assert (R : write_data id off buf s = (s', Ok tt)).
  { unfold write_data. sred.
    rewrite (stream_entry_ok s id e Hnth Ht). sred.
    assert (E1 : (d_len e <? off) = false) by lia. rewrite E1.
    fold ln.
    replace (N.min (MAX_REGULAR_SECTOR * slen s) (stream_len_mask (ver s)) <? ln)
      with false by (symmetry; apply N.ltb_ge; rewrite Eln; exact Hbounds).
    assert (E2 : (d_start e =? END_OF_CHAIN) = false) by lia. rewrite E2.
    assert (E3 : (d_len e <? MINI_STREAM_CUTOFF) = true) by lia. rewrite E3.
    assert (E4 : (ln <? MINI_STREAM_CUTOFF) = false) by lia. rewrite E4.
    assert (E5 : (MINI_STREAM_CUTOFF <=? off) = false) by lia. rewrite E5.
    rewrite (mchain_new_ok s _ mids Hch).
    rewrite (mchain_read_spec s rids (mkMChain mids 0) off Hgm)
      by (unfold mchain_len; cbn [mc_ids mc_off]; rewrite MSL_64; lia).
    cbn [mc_ids mc_off]. fold tmp.
    rewrite SA.mchain_start_hd. rewrite SA.mchain_start_hd in Hst. rewrite Hst, Efree.
    rewrite (chain_new_exec s1 END_OF_CHAIN IZero [] (SA.chain_of_path _ _ _ (WalkProofs.path_nil _))).
    rewrite Ew1. rewrite Ew2. rewrite SA.chain_start_hd. exact Eu. }
  destruct (SA.write_data_small_to_big s id V off buf) as (s'' & R'' & HB'' & _).
  { exists r, rids, mfids, dids. exact SW0. }
  { exact Hsc. }
  { rewrite HlenV. exact Hoff. }
  { exact Hcut2. }
  { exact Hbounds. }
  { exact Hroom. }
  assert (s'' = s') by congruence. subst s''.
  exists s'. split; [exact R|]. split; [exact HCD'|].
  split; [exact (cohdata'_reopens s' HCD')|].
  split; [exact (big_content_same_store s' (reopened s') (same_store_reopened s') _ _ HB'')|].
  split; [exact HB''|]. split; [congruence|].
  split; [exact (SA.others_kept_trans _ _ _ _ Ho1 Ho)|].
  intro HTP. apply (TreePart_DF s s' id HTP (cd_coh s' HCD')); [congruence| |].
  - pose proof (framesR_write_data id off buf s) as D. rewrite R in D. exact D.
  - intros e0 He0 _. assert (e0 = e) by congruence. subst e0. exact Ht.
Qed.

(* ================================================================== *)
(* item 4 (7): migration 3b, a large stream becomes small               *)
(* ================================================================== *)
Theorem resize_big_to_small_cohdata' : forall s id V new_len,
  CohData' s -> big_content s id V -> 0 < new_len -> new_len < MINI_STREAM_CUTOFF ->
  SA.mini_room s (SA.msectors new_len) -> RootFits s (SA.msectors new_len) ->
  exists s',
    resize id new_len s = (s', Ok tt) /\ CohData' s' /\
    (forall strict, open_model strict (concat_img (img s')) = Ok (reopened s')) /\
    small_content (reopened s') id (takeN new_len V) /\
    small_content s' id (takeN new_len V) /\
    mini_sectors s' id (SA.msectors new_len) /\
    SA.others_kept s s' id /\ (TreePart s -> TreePart s').
Proof.
  intros s id V new_len HCD HB Hpos Hcut (r0 & rids0 & mfids0 & dids0 & SW0 & Hroom) Hrf.
  pose proof HCD as [HC (r & rids & mfids & dids & HSD) HF Hax]. pose proof HSD as [SW Hmdj].
  destruct (swf_witness_fun _ _ _ _ _ _ _ _ _ _ _ SW SW0) as (-> & -> & -> & ->). clear SW0.
  pose proof HB as (e & ids & He & Ht & Hbig & Hc & Hg & Hle & HV).
  pose proof (SA.sw_m _ _ _ _ _ _ SW) as W.
  pose proof (SA.small_not_root _ _ _ _ _ _ _ W He Ht) as Hidr.
  assert (Hne : ids <> []) by (eapply StoreProofs.ids_nonempty; eassumption).
  destruct (StoreProofs.chain_ids_head _ _ _ Hc Hne) as (Hst & tl0 & Eids).
  destruct (free_whole_cohX s r rids mfids dids id e ids HCD HSD He (conj Ht Hbig) Hc)
    as (s1 & Efree & HX1 & HQ & Ho1 & Fr1 & N1).
  destruct (SA.Q_fields s s1 HQ) as (Hmf & Hmfr & Hms & Hd & Hds & Hv & Hsl).
  pose proof HX1 as (HC1 & HF1 & SW1 & _).
  pose proof (SA.sw_m _ _ _ _ _ _ SW1) as W1.
  unfold SA.msectors in *.
  set (tmp := takeN new_len (dropN 0 (chain_content s ids))).
  assert (Htmp : tmp = takeN new_len V).
  { unfold tmp. rewrite dropN_0, HV. symmetry. apply takeN_takeN. rewrite CUTOFF_val in *. lia. }
  assert (Hltmp : lenN tmp = new_len).
  { rewrite Htmp, lenN_takeN, (StoreProofs.big_content_len _ _ _ _ HB He). rewrite CUTOFF_val in *. lia. }
  assert (Hp0 : path (minifat s1) (hd END_OF_CHAIN []) []) by constructor.
  assert (Hroom1 : SA.mroom s1 rids mfids ((0 + lenN tmp + 63) / 64 - lenN (@nil N))).
  { cbn [lenN]. rewrite N.add_0_l, N.sub_0_r, Hltmp.
    apply (SA.mroom_same s s1); [rewrite Hmf; reflexivity | exact Hmfr | exact Hsl | exact Hroom]. }
  destruct (mchain_write_all_coh s1 [] 0 tmp r rids mfids dids (CohX_MiniOK _ _ _ _ _ _ HX1) W1 Hp0)
    as (s2 & news1 & Ew & HOK2 & Ffr1 & FM2 & Hm2 & Hhead2).
  { cbn [lenN]. lia. }
  { exact Hroom1. }
  { cbn [lenN]. rewrite N.add_0_l, N.sub_0_r, Hltmp. unfold RootFits in *. rewrite Hmf, Hv. exact Hrf. }
  destruct (SA.mchain_write_all_alloc s1 [] 0 tmp r rids mfids dids W1 Hp0)
    as (s2' & news & r2 & Ew' & W2 & P2 & Ln & Hfit & F2 & Hc2 & M2).
  { cbn [lenN]. lia. }
  { exact Hroom1. }
  rewrite Ew in Ew'. injection Ew' as <- Enw. cbn [app] in *. subst news1.
  cbn [lenN] in *. rewrite N.add_0_l in *. rewrite N.sub_0_r in Ln. rewrite Hltmp in *.
  assert (Hn2 : nthN (dirs s2) id = Some e).
  { rewrite (SA.mframe_entry _ _ _ _ _ _ id M2 Hidr), Hd. exact He. }
  destruct (SA.finish_small s2 id e r2 rids mfids dids news new_len W2 Hn2 Ht P2)
    as (s' & Eu & Hsm' & W' & M3); [lia | lia | lia |].
  assert (M13 : SA.mframe s1 s' id rids mfids dids news).
  { eapply SA.mframe_trans; [apply SA.mframe_weaken_id; exact M2 | exact M3
                         | intros x Hx; exact Hx | intros x Hx; exact Hx]. }
  assert (Hsm'' : small_at s' id (set_start_len e (hd END_OF_CHAIN news) new_len) rids news
                    (takeN new_len V)).
  { apply (small_at_V_eq _ _ _ _ _ _ _ Hsm'). rewrite Hc2, <- Htmp.
    rewrite <- Hltmp at 1. apply SA.takeN_splice0. }
  destruct (SA.after_opX s1 s' r r2 rids mfids dids (SA.Xid id) id _ [] news _
              SW1 ltac:(intros j E; exact E) W' Hsm'' F2
              ltac:(intros j e0 m _ _ _ _ x []) M13) as [SW' Ho2].
  assert (R : resize id new_len s = (s', Ok tt)).
  { unfold resize. sred.
    rewrite (stream_entry_ok s id e He Ht). sred.
    assert (E0 : (MAX_REGULAR_SECTOR * slen s <? new_len) = false).
    { pose proof (ChainProofs.slen_pos s). apply N.ltb_ge.
      rewrite MAXREG_val. rewrite CUTOFF_val in Hcut. nia. }
    rewrite E0. sred.
    rewrite (mask_check_false s new_len) by (apply small_fits_mask; lia). sred.
    assert (E2 : (d_start e =? END_OF_CHAIN) = false) by lia. rewrite E2.
    assert (E3 : (d_len e <? MINI_STREAM_CUTOFF) = false) by lia. rewrite E3.
    assert (E4 : (new_len =? 0) = false) by lia. rewrite E4.
    assert (E5 : (new_len <? MINI_STREAM_CUTOFF) = true) by lia. rewrite E5.
    assert (E6 : (d_len e <=? new_len) = false) by lia. rewrite E6.
    rewrite (chain_new_exec s _ IZero ids Hc).
    rewrite (chain_read_spec s (mkChain IZero ids 0) new_len Hg)
      by (unfold chain_len; cbn [c_ids c_off]; rewrite CUTOFF_val in *; lia).
    cbn [c_init c_ids c_off]. fold tmp.
    assert (Ecs : chain_start (mkChain IZero ids (0 + new_len)) = d_start e)
      by (rewrite Eids; reflexivity).
    rewrite Ecs, Efree.
    rewrite (SA.mchain_new_eoc s1). rewrite Ew.
    rewrite SA.mchain_start_hd. exact Eu. }
  pose proof FM2 as (K1 & K2 & _ & _ & K5 & K6 & _).
  pose proof M13 as (_ & _ & Mdirs & _).
  assert (Hnews_ne : news <> []).
  { intros ->. cbn [lenN] in Ln. assert (1 <= (new_len + 63) / 64) by (apply N.div_le_lower_bound; lia). lia. }
  destruct (small_finish_X s1 s2 s' r r2 rids mfids dids id e news (hd END_OF_CHAIN news) new_len
              HX1 HOK2 Hn2 Ht K5 K6 K2 K1 Hm2 Ffr1) as (HCD' & Hv' & _ & _).
  { exact (Hhead2 eq_refl Hnews_ne). }
  { destruct news as [|x t]; [contradiction|]. cbn [hd].
    pose proof (SA.path_In_lt _ _ _ _ P2 (or_introl eq_refl)).
    pose proof (SA.mw_bound _ _ _ _ _ W2). unfold u32_max. markers. lia. }
  { exact Hpos. }
  { exact Hcut. }
  { exact Eu. }
  { exact SW'. }
  { exact Mdirs. }
  exists s'. split; [exact R|]. split; [exact HCD'|]. split; [exact (cohdata'_reopens s' HCD')|].
  assert (Hsc' : small_content s' id (takeN new_len V)) by (eexists _, rids, _; exact Hsm'').
  split; [exact (small_content_same_store s' (reopened s') (same_store_reopened s') _ _ Hsc')|].
  split; [exact Hsc'|]. split.
  { rewrite <- Ln. exact (small_at_mini_sectors _ _ _ _ _ _ Hsm''). }
  split; [exact (SA.others_kept_trans s s1 s' id Ho1 Ho2)|].
  intro HTP. apply (TreePart_DF s s' id HTP (cd_coh s' HCD')); [congruence| |].
  - pose proof (framesR_resize id new_len s) as D. rewrite R in D. exact D.
  - intros e0 He0 _. assert (e0 = e) by congruence. subst e0. exact Ht.
Qed.

(* ================================================================== *)
(* item 4 (8): a write that makes a large stream grow into sectors of   *)
(*             the free stack                                           *)
(* ================================================================== *)
Lemma write_big_run_gen : forall s s2 id e ids nw off buf s',
  nthN (dirs s) id = Some e -> SA.big_entry e -> chain_ids_of (fat s) (d_start e) = Ok ids ->
  d_len e <= slen s * lenN ids -> off <= d_len e ->
  N.max (d_len e) (off + lenN buf) <= N.min (MAX_REGULAR_SECTOR * slen s) (stream_len_mask (ver s)) ->
  chain_write_all (mkChain IZero ids off) buf s = (s2, Ok (mkChain IZero (ids ++ nw) (off + lenN buf))) ->
  update_entry id (d_start e) (N.max (d_len e) (off + lenN buf)) s2 = (s', Ok tt) ->
  write_data id off buf s = (s', Ok tt).
Proof.
  intros s s2 id e ids nw off buf s' He [Ht Hbig] Hc Hcov Hoff Hbd Hw Hu.
  pose proof (ids_nonempty s ids _ Hbig Hcov) as Hne.
  destruct (chain_ids_head _ _ _ Hc Hne) as (Hst & t & Eids).
  unfold write_data.
  rewrite (bind_exec _ _ _ _ _ (stream_entry_exec s id e He Ht)).
  cbv beta iota zeta.
  destruct (d_len e <? off) eqn:E1; [lia|]. rewrite bind_ret.
  rewrite (bind_exec _ _ _ _ _ (eq_refl : get s = (s, Ok s))). cbv beta iota zeta.
  destruct (N.min (MAX_REGULAR_SECTOR * slen s) (stream_len_mask (ver s)) <? N.max (d_len e) (off + lenN buf)) eqn:Ebd; [lia|].
  rewrite (bind_exec _ _ _ _ _ (eq_refl : ret tt s = (s, Ok tt))).
  match goal with |- bind ?m _ s = _ => assert (E : m s = (s2, Ok (d_start e))) end.
  { destruct (d_start e =? END_OF_CHAIN) eqn:E2; [apply N.eqb_eq in E2; contradiction|].
    destruct (d_len e <? MINI_STREAM_CUTOFF) eqn:E3; [lia|].
    destruct (N.max (d_len e) (off + lenN buf) <? MINI_STREAM_CUTOFF) eqn:E4; [lia|].
    rewrite bind_ret.
    rewrite (bind_exec _ _ _ _ _ (chain_new_exec s (d_start e) IZero ids Hc)).
    destruct (chain_seek_spec s (mkChain IZero ids 0) off) as [Hseek _].
    rewrite (bind_exec _ _ _ _ _ (Hseek ltac:(unfold chain_len; cbn [c_ids]; lia))).
    cbn [c_init c_ids].
    rewrite (bind_exec _ _ _ _ _ Hw).
    rewrite Eids. cbn [app]. rewrite chain_start_head, N.eqb_refl. reflexivity. }
  rewrite (bind_exec _ _ _ _ _ E). exact Hu.
Qed.

Theorem write_big_alloc_cohdata' : forall s id V ids off buf,
  CohData' s ->
  big_content s id V -> stream_ids s id ids ->
  off <= lenN V ->
  N.max (lenN V) (off + lenN buf) <= N.min (MAX_REGULAR_SECTOR * slen s) (stream_len_mask (ver s)) ->
  (off + lenN buf + slen s - 1) / slen s - lenN ids <= lenN (free s) ->
  exists s',
    write_data id off buf s = (s', Ok tt) /\ CohData' s' /\
    (forall strict, open_model strict (concat_img (img s')) = Ok (reopened s')) /\
    big_content (reopened s') id (spliceN V off buf) /\
    big_content s' id (spliceN V off buf) /\
    nsect s' = nsect s /\ SA.others_kept s s' id /\ (TreePart s -> TreePart s').
Proof.
  intros s id V ids off buf HCD HB Hsi Hoff Hbd Hroom.
  pose proof (slen_pos s) as Hsp.
  pose proof HCD as [HC (r & rids & mfids & dids & HSD) HF _].
  destruct (big_entry_of_content s id V ids HB Hsi) as (e & He & Hbe & Hc).
  destruct (big_owned s r rids mfids dids id e ids (proj1 HSD) He Hbe Hc) as [Hown Hcov].
  pose proof (big_content_len _ _ _ _ HB He) as HlV. rewrite HlV in *.
  pose proof (WalkProofs.chain_ids_path _ _ _ Hc) as Hp0.
  pose proof (path_hd_start _ _ _ Hp0) as Hhd.
  pose proof Hbe as [Ht Hbig].
  pose proof (ids_nonempty s ids _ Hbig Hcov) as Hne.
  pose proof (big_ready_refl s r rids mfids dids id e ids HCD HSD He Hbe Hc) as BR0.
  destruct (write_all_ready s s r rids mfids dids id ids [] off buf BR0) as (s2 & nw & Ew & BR2 & Fr2 & N2 & Hfit & _).
  { lia. }
  { exact Hroom. }
  cbn [app] in BR2.
  set (ln := N.max (d_len e) (off + lenN buf)) in *.
  destruct (big_finish_cohdata' s s2 r rids mfids dids id e (ids ++ nw) nw ln HCD HSD He Hbe BR2)
    as (s' & Eu & HCD' & _ & HB' & Ho & _ & N' & _ & HTP').
  { rewrite (SA.hd_app_ne ids nw END_OF_CHAIN Hne). symmetry. exact Hhd. }
  { intro Hin. destruct HF as [_ HFx].
    assert (Hinf : In (d_start e) (free s)).
    { rewrite Fr2. apply in_or_app. right. apply in_rev in Hin. exact Hin. }
    destruct (HFx _ Hinf) as (_ & Hxf & _).
    apply (free_not_in_chain s _ ids (d_start e) Hc Hxf). rewrite Hhd.
    destruct ids; [contradiction|left; reflexivity]. }
  { unfold ln. lia. }
  { unfold ln. apply N.max_lub; [|exact Hfit]. rewrite lenN_app. nia. }
  { unfold LenFits, ln. lia. }
  assert (R : write_data id off buf s = (s', Ok tt)).
  { exact (write_big_run_gen s s2 id e ids nw off buf s' He Hbe Hc Hcov Hoff Hbd Ew Eu). }
  (* the bytes *)
  destruct (SA.chain_write_all_alloc s r rids mfids dids id ids off buf (SWf_X _ _ _ _ _ id (proj1 HSD))
              ltac:(rewrite <- Hhd; exact Hp0) Hown)
    as (s2' & nw' & Ew' & _ & _ & _ & _ & _ & _ & _ & _ & Hcont & _).
  { lia. }
  { exact Hroom. }
  rewrite Ew in Ew'. injection Ew' as <- Enw. apply app_inv_head in Enw. subst nw'.
  pose proof HB as (e0 & ids0 & He0 & _ & _ & Hc0 & Hg0 & _ & HV).
  assert (e0 = e) by congruence. subst e0. assert (ids0 = ids) by congruence. subst ids0.
  pose proof (good_chain_len _ _ Hg0) as HCL.
  assert (HB'' : big_content s' id (spliceN V off buf)).
  { rewrite Hcont in HB'. unfold ln in HB'.
    rewrite takeN_spliceN_gen in HB' by (try rewrite lenN_app, HCL; lia).
    rewrite takeN_app_le in HB' by (rewrite HCL; exact Hcov).
    rewrite <- HV in HB'. exact HB'. }
  exists s'. split; [exact R|]. split; [exact HCD'|].
  split; [exact (cohdata'_reopens s' HCD')|].
  split; [exact (big_content_same_store s' (reopened s') (same_store_reopened s') _ _ HB'')|].
  split; [exact HB''|]. split; [congruence|]. split; [exact Ho|exact HTP'].
Qed.

(* ================================================================== *)
(* item 4 (9): truncation to zero                                      *)
(* ================================================================== *)
Lemma finish_empty : forall s1 r rids mfids dids id e,
  SA.SWfX_at s1 r rids mfids dids (SA.Xid id) ->
  nthN (dirs s1) id = Some e -> d_type e = TStream ->
  exists s',
    update_entry id END_OF_CHAIN 0 s1 = (s', Ok tt) /\
    SA.SWfX_at s' r rids mfids dids SA.noX /\ SA.others_kept s1 s' id /\
    SA.empty_stream s' id.
Proof.
  intros s1 r rids mfids dids id e SW Hn Ht.
  pose proof (SA.sw_m _ _ _ _ _ _ SW) as W.
  pose proof (nthN_Some_lt _ _ _ _ Hn) as Hlt.
  pose proof (SA.small_not_root _ _ _ _ _ _ _ W Hn Ht) as Hidr.
  destruct (update_entry_spec s1 id e dids END_OF_CHAIN 0)
    as (s' & Hu & Hs' & Himg' & Hfr' & Hlen' & _).
  { exact Hn. } { eapply SA.mw_names; eassumption. } { apply W. } { apply W. }
  { pose proof (SA.mw_dcap _ _ _ _ _ W). unfold DIR_ENTRY_LEN in *. lia. }
  set (e' := set_start_len e END_OF_CHAIN 0) in *.
  assert (Hsh : same_shape s1 s').
  { rewrite Hs'. unfold same_shape.
    cbn [nsect ver img fat free difat dir_start minifat_start w_img w_dirs].
    repeat split; assumption. }
  pose proof (same_shape_slen _ _ Hsh) as Hsl.
  assert (Hdirs' : dirs s' = updN (dirs s1) id e') by (rewrite Hs'; reflexivity).
  assert (Hmf' : minifat s' = minifat s1) by (rewrite Hs'; reflexivity).
  assert (Hmfr' : mfree s' = mfree s1) by (rewrite Hs'; reflexivity).
  assert (Hfat' : fat s' = fat s1) by (rewrite Hs'; reflexivity).
  assert (Hfree' : free s' = free s1) by (rewrite Hs'; reflexivity).
  assert (Hdifat' : difat s' = difat s1) by (rewrite Hs'; reflexivity).
  assert (Hns' : nsect s' = nsect s1) by (rewrite Hs'; reflexivity).
  assert (Hnid : nthN (dirs s') id = Some e')
    by (rewrite Hdirs'; apply nthN_updN_same; exact Hlt).
  assert (Hoth : forall j, j <> id -> nthN (dirs s') j = nthN (dirs s1) j)
    by (intros j Hj; rewrite Hdirs'; apply nthN_updN_other; congruence).
  assert (W' : SA.MWf_at s' r rids mfids dids).
  { apply (SA.MWf_transfer s1 s' r r rids mfids dids W Hsh).
    - rewrite Hdirs'. apply lenN_updN.
    - intros j e0 He0. destruct (N.eq_dec j id) as [->|Hj].
      + rewrite Hnid in He0. injection He0 as <-. cbn [e' set_start_len d_name].
        eapply SA.mw_names; eassumption.
      + rewrite (Hoth j Hj) in He0. eapply SA.mw_names; eassumption.
    - rewrite Hoth by congruence. apply W.
    - apply W.
    - reflexivity.
    - rewrite Hmf'. apply W.
    - rewrite Hmf'. apply W.
    - rewrite Hmf'. apply W.
    - rewrite Hmf'. apply W.
    - rewrite Hmfr'. apply W.
    - rewrite Hmf', Hmfr'. apply W. }
  assert (M : SA.mframe s1 s' id rids mfids dids []).
  { unfold SA.mframe. split; [exact Hsh|]. split; [rewrite Hdirs'; apply lenN_updN|].
    split; [intros j _ Hj; apply Hoth; exact Hj|].
    split; [intros y _ _ Y3; apply Hfr'; exact Y3|].
    split; [intros ms _; apply SA.mini_bytes_ext; intros y Hy; apply Hfr'; exact (SA.mw_rd _ _ _ _ _ W y Hy)|].
    split; [rewrite Hmf'; lia|]. intros; rewrite Hmf'; reflexivity. }
  assert (HnX : forall j, j <> id -> ~ SA.Xid id j) by (intros j Hj E; exact (Hj E)).
  assert (Hnotsmall : forall ej, nthN (dirs s') id = Some ej -> SA.small_entry ej -> False).
  { intros ej He (_ & Hl & _). rewrite Hnid in He. injection He as <-.
    cbn [e' set_start_len d_len] in Hl. lia. }
  assert (Hnotbig : forall ej, nthN (dirs s') id = Some ej -> SA.big_entry ej -> False).
  { intros ej He (_ & Hl). rewrite Hnid in He. injection He as <-.
    cbn [e' set_start_len d_len] in Hl. rewrite CUTOFF_val in Hl. lia. }
  exists s'. split; [exact Hu|]. split; [|split].
  - constructor.
    + exact W'.
    + eapply StoreProofs.AllocWf_shape; [apply SW | exact Hsh].
    + rewrite Hns'. apply SW.
    + rewrite Hfree'. apply SW.
    + intros x Hx. rewrite Hfree', Hdifat'. exact (SA.sw_sys _ _ _ _ _ _ SW x Hx).
    + intros x Hx. rewrite Hfree' in Hx. rewrite Hdifat'. exact (SA.sw_fdifat _ _ _ _ _ _ SW x Hx).
    + intros j ej _ Hej Hsj. destruct (N.eq_dec j id) as [->|Hj]; [destruct (Hnotsmall ej Hej Hsj)|].
      rewrite Hoth in Hej by exact Hj. rewrite Hmf'.
      exact (SA.sw_small _ _ _ _ _ _ SW j ej (HnX j Hj) Hej Hsj).
    + intros j1 j2 e1 e2 m1 m2 _ _ Hne He1 Hs1 Hc1 He2 Hs2 Hc2.
      destruct (N.eq_dec j1 id) as [->|Hj1]; [destruct (Hnotsmall e1 He1 Hs1)|].
      destruct (N.eq_dec j2 id) as [->|Hj2]; [destruct (Hnotsmall e2 He2 Hs2)|].
      rewrite Hoth in He1, He2 by assumption. rewrite Hmf' in Hc1, Hc2.
      exact (SA.sw_disj _ _ _ _ _ _ SW j1 j2 e1 e2 m1 m2 (HnX j1 Hj1) (HnX j2 Hj2) Hne
               He1 Hs1 Hc1 He2 Hs2 Hc2).
    + intros j ej _ Hej Hbj. rewrite Hfat', Hsl, Hns'.
      destruct (N.eq_dec j id) as [->|Hj]; [destruct (Hnotbig ej Hej Hbj)|].
      rewrite Hoth in Hej by exact Hj.
      exact (SA.sw_bigchain _ _ _ _ _ _ SW j ej (HnX j Hj) Hej Hbj).
    + intros j ej l _ Hej Hbj Hcl x Hx. rewrite Hfree', Hdifat'.
      destruct (N.eq_dec j id) as [->|Hj]; [destruct (Hnotbig ej Hej Hbj)|].
      rewrite Hoth in Hej by exact Hj. rewrite Hfat' in Hcl.
      exact (SA.sw_big _ _ _ _ _ _ SW j ej l (HnX j Hj) Hej Hbj Hcl x Hx).
    + intros j1 j2 e1 e2 l1 l2 _ _ Hne He1 Hb1 Hc1 He2 Hb2 Hc2 x Hx1 Hx2.
      destruct (N.eq_dec j1 id) as [->|Hj1]; [destruct (Hnotbig e1 He1 Hb1)|].
      destruct (N.eq_dec j2 id) as [->|Hj2]; [destruct (Hnotbig e2 He2 Hb2)|].
      rewrite Hoth in He1, He2 by assumption. rewrite Hfat' in Hc1, Hc2.
      exact (SA.sw_bigdisj _ _ _ _ _ _ SW j1 j2 e1 e2 l1 l2 (HnX j1 Hj1) (HnX j2 Hj2) Hne
               He1 Hb1 Hc1 He2 Hb2 Hc2 x Hx1 Hx2).
  - split; [|split].
    + intros id' V1 Hne Hsc.
      destruct (SA.small_content_at _ _ _ _ _ _ _ W Hsc) as (e1 & m1 & Hs1).
      exists e1, rids, m1.
      apply (SA.mframe_small_other s1 s' id r r rids mfids dids [] id' e1 m1 V1 M W W' Hs1 Hne).
      intros x [].
    + intros id' V1 Hne Hb.
      apply (SA.mframe_big_other s1 s' id r rids mfids dids [] id' V1 M W Hb Hne).
      intros e0 ids0 He0 Hc0. destruct Hb as (e2 & ids2 & He2 & Ht2 & Hcut2 & _).
      rewrite He0 in He2. injection He2 as <-. intros x Hx.
      destruct (SA.sw_big _ _ _ _ _ _ SW id' e0 ids0 (HnX id' Hne) He0 (conj Ht2 Hcut2) Hc0 x Hx)
        as (B1 & B2 & B3 & _).
      split; [exact B1|]. split; [exact B2 | exact B3].
    + intros id' Hne He0. exact (SA.mframe_empty_other s1 s' id r rids mfids dids _ id' M W He0 Hne).
  - exists e'. unfold SA.empty_at. split; [exact Hnid|]. split; [exact Ht|]. split; reflexivity.
Qed.

Lemma empty_finish_X : forall s s' r rids mfids dids id e,
  CohX s r rids mfids dids id ->
  nthN (dirs s) id = Some e -> d_type e = TStream ->
  update_entry id END_OF_CHAIN 0 s = (s', Ok tt) ->
  CohData' s' /\ SA.others_kept s s' id /\ SA.empty_stream s' id /\
  ver s' = ver s /\ minifat s' = minifat s /\ fat s' = fat s /\ free s' = free s /\ nsect s' = nsect s /\
  dirs s' = updN (dirs s) id (set_start_len e END_OF_CHAIN 0).
Proof.
  intros s s' r rids mfids dids id e (HC & HF & SW & Hmd & Afr & Amf & Ah & Amh) He Ht Eu.
  destruct (finish_empty s r rids mfids dids id e SW He Ht) as (s'' & Eu' & SW' & Ho & Hem).
  assert (s'' = s') by congruence. subst s''.
  destruct (update_entry_coherent s s' id e END_OF_CHAIN 0 HC) as (HC' & Ed' & (dd & Hdd & Fu)).
  { intros d m Hd Hm. rewrite (swfx_dir_ids _ _ _ _ _ _ _ SW Hd), (swfx_mini_ids _ _ _ _ _ _ _ SW Hm).
    apply avoids_sym. exact Hmd. }
  { exact He. }
  { exact Ht. }
  { unfold u32_max. markers. lia. }
  { lia. }
  { exact Eu. }
  pose proof Fu as (U1 & U2 & _ & _ & U5 & U6 & _ & U8 & _ & _).
  assert (Hoth : forall j, j <> id -> nthN (dirs s') j = nthN (dirs s) j).
  { intros j Hj. rewrite Ed'. apply nthN_updN_other. congruence. }
  assert (Hid' : nthN (dirs s') id = Some (set_start_len e END_OF_CHAIN 0)).
  { rewrite Ed'. apply nthN_updN_same. eapply nthN_Some_lt. exact He. }
  split; [|repeat (split; [assumption|]); exact Ed'].
  constructor.
  - exact HC'.
  - exists r, rids, mfids, dids. split; assumption.
  - apply (FreeClean_transfer s); assumption.
  - constructor.
    + rewrite U5. exact Afr.
    + intros j ej Hej Hbj. rewrite U5. destruct (N.eq_dec j id) as [->|Hj].
      * rewrite Hid' in Hej. injection Hej as <-. destruct Hbj as [_ Hl].
        cbn [set_start_len d_len] in Hl. rewrite CUTOFF_val in Hl. lia.
      * rewrite (Hoth j Hj) in Hej. exact (Ah j ej Hj Hej Hbj).
    + rewrite U8. exact Amf.
    + intros j ej Hej Hsj. rewrite U8. destruct (N.eq_dec j id) as [->|Hj].
      * rewrite Hid' in Hej. injection Hej as <-. destruct Hsj as (_ & Hl & _).
        cbn [set_start_len d_len] in Hl. lia.
      * rewrite (Hoth j Hj) in Hej. exact (Amh j ej Hj Hej Hsj).
Qed.

Lemma reopened_empty : forall s id, SA.empty_stream s id -> SA.empty_stream (reopened s) id.
Proof.
  intros s id (e & Hn & H). exists e. split; [apply reopened_nth_old; exact Hn|exact H].
Qed.

Theorem resize_big_to_zero_cohdata' : forall s id V ids,
  CohData' s -> big_content s id V -> stream_ids s id ids ->
  exists s',
    resize id 0 s = (s', Ok tt) /\ CohData' s' /\
    (forall strict, open_model strict (concat_img (img s')) = Ok (reopened s')) /\
    SA.empty_stream (reopened s') id /\ SA.empty_stream s' id /\
    free s' = free s ++ ids /\ nsect s' = nsect s /\
    SA.others_kept s s' id /\ (TreePart s -> TreePart s').
Proof.
  intros s id V ids HCD HB Hsi.
  pose proof HCD as [HC (r & rids & mfids & dids & HSD) HF Hax].
  destruct (big_entry_of_content s id V ids HB Hsi) as (e & He & Hbe & Hc).
  pose proof Hbe as [Ht Hbig].
  destruct (big_owned s r rids mfids dids id e ids (proj1 HSD) He Hbe Hc) as [_ Hcov].
  pose proof (ids_nonempty s ids _ Hbig Hcov) as Hne.
  destruct (chain_ids_head _ _ _ Hc Hne) as (Hst & tl0 & Eids).
  destruct (free_whole_cohX s r rids mfids dids id e ids HCD HSD He Hbe Hc)
    as (s1 & Efree & HX1 & HQ & Ho1 & Fr1 & N1).
  destruct (SA.Q_fields s s1 HQ) as (_ & _ & _ & Hd & _ & Hv & _).
  pose proof HX1 as (_ & _ & SW1 & _).
  destruct (finish_empty s1 r rids mfids dids id e SW1 ltac:(rewrite Hd; exact He) Ht) as (s' & Eu & _).
  destruct (empty_finish_X s1 s' r rids mfids dids id e HX1 ltac:(rewrite Hd; exact He) Ht Eu)
    as (HCD' & Ho2 & Hem & Hv' & _ & _ & Fr' & N' & _).
  assert (R : resize id 0 s = (s', Ok tt)).
  { unfold resize. sred.
    rewrite (stream_entry_ok s id e He Ht). sred.
    assert (E0 : (MAX_REGULAR_SECTOR * slen s <? 0) = false) by lia. rewrite E0. sred.
    assert (E1 : (stream_len_mask (ver s) <? 0) = false) by lia. rewrite E1. sred.
    assert (E2 : (d_start e =? END_OF_CHAIN) = false) by lia. rewrite E2.
    assert (E3 : (d_len e <? MINI_STREAM_CUTOFF) = false) by lia. rewrite E3.
    rewrite N.eqb_refl. rewrite Efree. sred. exact Eu. }
  exists s'. split; [exact R|]. split; [exact HCD'|]. split; [exact (cohdata'_reopens s' HCD')|].
  split; [apply reopened_empty; exact Hem|]. split; [exact Hem|].
  split; [congruence|]. split; [congruence|].
  split; [exact (SA.others_kept_trans _ _ _ _ Ho1 Ho2)|].
  intro HTP. apply (TreePart_DF s s' id HTP (cd_coh s' HCD')); [congruence| |].
  - pose proof (framesR_resize id 0 s) as D. rewrite R in D. exact D.
  - intros e0 He0 _. assert (e0 = e) by congruence. subst e0. exact Ht.
Qed.

Theorem resize_small_to_zero_cohdata' : forall s id V,
  CohData' s -> small_content s id V ->
  exists s',
    resize id 0 s = (s', Ok tt) /\ CohData' s' /\
    (forall strict, open_model strict (concat_img (img s')) = Ok (reopened s')) /\
    SA.empty_stream (reopened s') id /\ SA.empty_stream s' id /\
    free s' = free s /\ nsect s' = nsect s /\ lenN (minifat s') <= lenN (minifat s) /\
    SA.others_kept s s' id /\ (TreePart s -> TreePart s').
Proof.
  intros s id V HCD Hsc.
  pose proof HCD as [HC (r & rids & mfids & dids & HSD) HF Hax]. pose proof HSD as [SW0 Hmdj].
  pose proof (SA.sw_m _ _ _ _ _ _ SW0) as W.
  destruct (SA.small_content_at _ _ _ _ _ _ _ W Hsc) as (e & mids & Hsm).
  destruct (small_at_start _ _ _ _ _ _ Hsm) as (Hne & Hst & Hk).
  pose proof (SA.small_at_entry _ _ _ _ _ _ Hsm) as Hse.
  pose proof Hsm as (Hnth & Ht & Hcut & Hpos & Hch & Hgm & Hle & HV).
  destruct (free_small_ready s r rids mfids dids id e mids HCD HSD Hnth Hse Hch)
    as (s1 & r1 & Efree & HX1 & Hn1 & Ho1 & HRL & FM1).
  pose proof FM1 as (G1 & G2 & _ & _ & G5 & G6 & _).
  pose proof HX1 as (_ & _ & SW1 & _).
  destruct (finish_empty s1 r1 rids mfids dids id e SW1 Hn1 Ht) as (s' & Eu & _).
  destruct (empty_finish_X s1 s' r1 rids mfids dids id e HX1 Hn1 Ht Eu)
    as (HCD' & Ho2 & Hem & Hv' & Hm' & _ & Fr' & N' & _).
  assert (R : resize id 0 s = (s', Ok tt)).
  { unfold resize. sred.
    rewrite (stream_entry_ok s id e Hnth Ht). sred.
    assert (E0 : (MAX_REGULAR_SECTOR * slen s <? 0) = false) by lia. rewrite E0. sred.
    assert (E1 : (stream_len_mask (ver s) <? 0) = false) by lia. rewrite E1. sred.
    assert (E2 : (d_start e =? END_OF_CHAIN) = false) by lia. rewrite E2.
    assert (E3 : (d_len e <? MINI_STREAM_CUTOFF) = true) by lia. rewrite E3.
    rewrite N.eqb_refl. rewrite Efree. sred. exact Eu. }
  assert (Hle' : lenN (minifat s1) <= lenN (minifat s)).
  { pose proof Efree as Erun. unfold free_mini_chain in Erun. rewrite bind_get in Erun.
    destruct (SA.free_mini_chain_go_spec mids (S (S (length (minifat s)))) (d_start e) s r rids mfids dids W
                (WalkProofs.chain_ids_path _ _ _ Hch) (path_length_fuel _ _ _ (WalkProofs.chain_ids_path _ _ _ Hch)))
      as (sx & rx & Ex & _ & _ & _ & _ & _ & Lx & _).
    rewrite Erun in Ex. injection Ex as <-. exact Lx. }
  exists s'. split; [exact R|]. split; [exact HCD'|]. split; [exact (cohdata'_reopens s' HCD')|].
  split; [apply reopened_empty; exact Hem|]. split; [exact Hem|].
  split; [congruence|]. split; [congruence|]. split; [rewrite Hm'; exact Hle'|].
  split; [exact (SA.others_kept_trans _ _ _ _ Ho1 Ho2)|].
  intro HTP. apply (TreePart_DF s s' id HTP (cd_coh s' HCD')); [congruence| |].
  - pose proof (framesR_resize id 0 s) as D. rewrite R in D. exact D.
  - intros e0 He0 _. assert (e0 = e) by congruence. subst e0. exact Ht.
Qed.

(* ---- item 3 again: an empty stream is removed from a file with data ---- *)
Theorem remove_empty_stream_cohtree : forall p s s' id e,
  CohTree s -> api_remove_stream p s = (s', Ok tt) ->
  MutRefine.id_of_path s p = Some id -> SA.empty_at s id e ->
  CohTree s' /\
  (forall strict, open_model strict (concat_img (img s')) = Ok (reopened s')) /\
  nthN (dirs s') id = Some dirent_unallocated /\ SA.others_kept s s' id /\
  free s' = free s /\ nsect s' = nsect s /\ minifat s' = minifat s.
Proof.
  intros p s s' id e [HCD HTP] H Hidp (He & Ht & Hst0 & Hl0).
  pose proof HCD as [HC (r & rids & mfids & dids & HSD) HF Hax].
  pose proof HSD as [SW Hmdj].
  pose proof (SA.sw_m _ _ _ _ _ _ SW) as W.
  pose proof HTP as [_ _ (t & HT & HU)].
  destruct (MutRefine.remove_stream_refines ctrue ctrue p 0 s s' t HT HU (fun _ _ _ c => c) H)
    as (t' & _ & HT' & HU').
  unfold api_remove_stream, remove_stream_names in H.
  destruct (MutRefine.names_lookup_inv _ _ _ _ _ _ H) as (names & r0 & En & Hlk & HK).
  destruct r0 as [id0|]; [|discriminate HK].
  assert (id0 = id).
  { unfold MutRefine.id_of_path in Hidp. rewrite En, Hlk in Hidp. congruence. }
  subst id0.
  binv HK e1 s0 H1 H2. apply dir_entry_inv in H1. destruct H1 as [-> He1].
  assert (e1 = e) by congruence. subst e1.
  destruct (objtype_eqb (d_type e) TStream) eqn:T1; cbn [negb] in H2; [|discriminate H2].
  destruct (d_child e =? NO_STREAM) eqn:Ch; cbn [negb] in H2; [|discriminate H2].
  destruct (d_len e <? MINI_STREAM_CUTOFF) eqn:Ecut; [|rewrite Hl0, CUTOFF_val in Ecut; discriminate Ecut].
  binv H2 u1 s1 H1 H2. destruct u1.
  assert (s1 = s).
  { unfold free_mini_chain in H1. rewrite bind_get in H1. cbn [free_mini_chain_go] in H1.
    rewrite Hst0, N.eqb_refl in H1. unfold ret in H1. congruence. }
  subst s1.
  destruct (lastN names) as [nm|] eqn:Hlast; [|discriminate H2].
  destruct (MutRefine.lookup_inv _ _ _ _ _ _ H2) as (pr & Hlkp & H3). clear H2.
  destruct pr as [pid|]; [|discriminate H3].
  destruct (remove_entry_coh s s' names id e nm pid HC) as (HC' & HTP' & Hun & Hidr & Hst & dd & Hdd & F);
    try assumption.
  { intros d m Hd Hm. apply avoids_sym. exact (CohData'_MD s HCD d m Hd Hm). }
  { rewrite Ht. discriminate. }
  { exists t'. split; assumption. }
  pose proof (SWf_X _ _ _ _ _ id SW) as SW1.
  assert (dd = dids) by exact (swfx_dir_ids _ _ _ _ _ _ _ SW1 Hdd). subst dd.
  destruct (swfx_payload s s' r rids mfids dids id dids SW1 F Hun Hidr Hst) as (r' & Hr' & Pr & SW').
  pose proof (others_payload s s' r r' rids mfids dids id SW1 SW' F Hst) as Ho2.
  pose proof F as (F1' & F2 & F3 & F4 & F5 & F6 & F7 & F8 & F9 & F10 & _).
  assert (HCD' : CohData' s').
  { constructor.
    - exact HC'.
    - exists r', rids, mfids, dids. split; [exact SW'|exact Hmdj].
    - apply (FreeClean_transfer s); [exact F6|exact F2|exact F5|exact HF].
    - assert (Hback : forall j ej, nthN (dirs s') j = Some ej -> d_type ej = TStream ->
                exists e0, nthN (dirs s) j = Some e0 /\ same_payload e0 ej).
      { intros j ej Hej Tj. assert (Hj : j <> id).
        { intros ->. rewrite Hun in Hej. injection Hej as <-. discriminate Tj. }
        pose proof (nthN_Some_lt _ _ _ _ Hej) as Hlt.
        destruct F as (_ & _ & _ & _ & _ & _ & _ & _ & _ & _ & _ & _ & _ & _ & F15).
        rewrite F15 in Hlt. destruct (WalkProofs.nthN_lt_Some (dirs s) j Hlt) as [e0 He0].
        destruct (Hst j e0 Hj He0) as (e0' & He0' & P). assert (e0' = ej) by congruence. subst e0'.
        exists e0. auto. }
      constructor.
      + rewrite F5. exact (ax_free s Hax).
      + intros j ej Hej [Tj Cj]. destruct (Hback j ej Hej Tj) as (e0 & He0 & (_ & Pt & Ps & Pl & _)).
        rewrite F5, Ps. apply (ax_heads s Hax j e0 He0).
        unfold SA.big_entry. rewrite <- Pt, <- Pl. auto.
      + rewrite F8. exact (ax_mfree s Hax).
      + intros j ej Hej (Tj & Pj & Cj).
        destruct (Hback j ej Hej Tj) as (e0 & He0 & (_ & Pt & Ps & Pl & _)).
        rewrite F8, Ps. apply (ax_mheads s Hax j e0 He0).
        unfold SA.small_entry. rewrite <- Pt, <- Pl. auto. }
  split; [split; assumption|]. split; [exact (cohdata'_reopens s' HCD')|]. split; [exact Hun|].
  split; [exact Ho2|]. split; [exact F6|]. split; [exact F2|exact F8].
Qed.

(* ================================================================== *)
(* 8. histories                                                        *)
(* ================================================================== *)

(* the resizes whose effect on the bytes is proved above *)
Definition ResizeCase (s : cstate) (id n : N) : Prop :=
  (* large, same number of sectors *)
  (exists V ids, big_content s id V /\ stream_ids s id ids /\
     MINI_STREAM_CUTOFF <= n /\ n <= slen s * lenN ids /\ slen s * lenN ids < n + slen s /\ LenFits s n) \/
  (* large, growth into sectors of the free stack *)
  (exists V ids base nw, big_content s id V /\ stream_ids s id ids /\
     slen s * lenN ids < n /\ free s = base ++ rev nw /\
     lenN ids + lenN nw = (slen s + n - 1) / slen s /\
     n <= MAX_REGULAR_SECTOR * slen s /\ LenFits s n) \/
  (* large, growth at the end of the file *)
  (exists V ids k, free s = [] /\ lenN (difat s) < NUM_DIFAT_HDR /\
     nsect s + N.of_nat k + 3 <= MAX_REGULAR_SECTOR /\
     big_content s id V /\ stream_ids s id ids /\ slen s * lenN ids < n /\
     lenN ids + N.of_nat k = (slen s + n - 1) / slen s /\
     (forall j, j < N.of_nat k -> (nsect s + j) mod fat_per_sector s <> 0) /\
     n <= MAX_REGULAR_SECTOR * slen s /\ LenFits s n) \/
  (* large, sectors released *)
  (exists V ids, big_content s id V /\ stream_ids s id ids /\
     MINI_STREAM_CUTOFF <= n /\ n <= lenN V /\ (slen s + n - 1) / slen s < lenN ids) \/
  (* small, the same or more mini sectors *)
  (exists V k, small_content s id V /\ mini_sectors s id k /\
     0 < n /\ n < MINI_STREAM_CUTOFF /\ k <= SA.msectors n /\
     SA.mini_room s (SA.msectors n - k) /\ RootFits s (SA.msectors n - k)) \/
  (* empty to small *)
  (SA.empty_stream s id /\ 0 < n /\ n < MINI_STREAM_CUTOFF /\
     SA.mini_room s (SA.msectors n) /\ RootFits s (SA.msectors n)) \/
  (* empty to large, from the free stack *)
  (exists base nw, SA.empty_stream s id /\ MINI_STREAM_CUTOFF <= n /\
     n <= MAX_REGULAR_SECTOR * slen s /\ LenFits s n /\
     free s = base ++ rev nw /\ lenN nw = (slen s + n - 1) / slen s) \/
  (* small to large (2b) *)
  (exists V, small_content s id V /\ MINI_STREAM_CUTOFF <= n /\
     n <= MAX_REGULAR_SECTOR * slen s /\ LenFits s n /\
     (slen s + n - 1) / slen s <= lenN (free s)) \/
  (* large to small (3b) *)
  (exists V, big_content s id V /\ 0 < n /\ n < MINI_STREAM_CUTOFF /\
     SA.mini_room s (SA.msectors n) /\ RootFits s (SA.msectors n)) \/
  (* truncation to zero *)
  (exists V ids, big_content s id V /\ stream_ids s id ids /\ n = 0) \/
  (exists V, small_content s id V /\ n = 0).

Theorem resize_case_cohtree : forall s id n,
  CohTree s -> ResizeCase s id n ->
  exists s', resize id n s = (s', Ok tt) /\ CohTree s' /\
    (forall strict, open_model strict (concat_img (img s')) = Ok (reopened s')).
Proof.
  intros s id n [HCD HTP] HR.
  assert (Hfin : forall s', resize id n s = (s', Ok tt) -> CohData' s' -> (TreePart s -> TreePart s') ->
            exists s', resize id n s = (s', Ok tt) /\ CohTree s' /\
              (forall strict, open_model strict (concat_img (img s')) = Ok (reopened s'))).
  { intros s' R C T. exists s'. split; [exact R|]. split; [split; [exact C|exact (T HTP)]|exact (cohdata'_reopens s' C)]. }
  destruct HR as [(V & ids & HB & Hsi & H1 & H2 & H3 & H4)|
                 [(V & ids & base & nw & HB & Hsi & H1 & H2 & H3 & H4 & H5)|
                 [(V & ids & k & H0 & H1 & H2 & HB & Hsi & H3 & H4 & H5 & H6 & H7)|
                 [(V & ids & HB & Hsi & H1 & H2 & H3)|
                 [(V & k & Hsc & Hk & H1 & H2 & H3 & H4 & H5)|
                 [(He & H1 & H2 & H3 & H4)|
                 [(base & nw & He & H1 & H2 & H3 & H4 & H5)|
                 [(V & Hsc & H1 & H2 & H3 & H4)|
                 [(V & HB & H1 & H2 & H3 & H4)|
                 [(V & ids & HB & Hsi & ->)|
                  (V & Hsc & ->)]]]]]]]]]].
  - destruct (resize_big_same_cohdata' s id V ids n HCD HB Hsi H1 H2 H3 H4) as (s' & R & C & _ & _ & _ & _ & _ & T).
    exact (Hfin s' R C T).
  - destruct (resize_big_reuse_cohdata' s id V ids n base nw HCD HB Hsi H1 H2 H3 H4 H5)
      as (s' & R & C & _ & _ & _ & _ & _ & _ & _ & T). exact (Hfin s' R C T).
  - destruct (resize_big_append_cohdata' s id V ids n k HCD H0 H1 H2 HB Hsi H3 H4 H5 H6 H7)
      as (s' & R & C & _ & _ & _ & _ & _ & _ & _ & T). exact (Hfin s' R C T).
  - destruct (resize_big_release_cohdata' s id V ids n HCD HB Hsi H1 H2 H3)
      as (s' & R & C & _ & _ & _ & _ & _ & _ & _ & T). exact (Hfin s' R C T).
  - destruct (resize_small_alloc_cohdata' s id V k n HCD Hsc Hk H1 H2 H3 H4 H5)
      as (s' & R & C & _ & _ & _ & _ & _ & T). exact (Hfin s' R C T).
  - destruct (resize_empty_small_cohdata' s id n HCD He H1 H2 H3 H4)
      as (s' & R & C & _ & _ & _ & _ & _ & T). exact (Hfin s' R C T).
  - destruct (resize_empty_big_cohdata' s id n base nw HCD He H1 H2 H3 H4 H5)
      as (s' & R & C & _ & _ & _ & _ & _ & _ & T). exact (Hfin s' R C T).
  - destruct (resize_small_to_big_cohdata' s id V n HCD Hsc H1 H2 H3 H4)
      as (s' & R & C & _ & _ & _ & _ & _ & T). exact (Hfin s' R C T).
  - destruct (resize_big_to_small_cohdata' s id V n HCD HB H1 H2 H3 H4)
      as (s' & R & C & _ & _ & _ & _ & _ & T). exact (Hfin s' R C T).
  - destruct (resize_big_to_zero_cohdata' s id V ids HCD HB Hsi)
      as (s' & R & C & _ & _ & _ & _ & _ & _ & T). exact (Hfin s' R C T).
  - destruct (resize_small_to_zero_cohdata' s id V HCD Hsc)
      as (s' & R & C & _ & _ & _ & _ & _ & _ & _ & T). exact (Hfin s' R C T).
Qed.

(* the writes whose effect on the bytes is proved above *)
Definition WriteCase (s : cstate) (id off : N) (buf : list byte) : Prop :=
  (* inside the capacity of the chain *)
  (CoveredWrite s id off buf /\ LenFits s (off + lenN buf)) \/
  (* small, with allocation of mini sectors *)
  (exists V k, small_content s id V /\ mini_sectors s id k /\
     off <= lenN V /\ lenN (spliceN V off buf) < MINI_STREAM_CUTOFF /\
     SA.mini_room s (SA.msectors (off + lenN buf) - k) /\
     RootFits s (SA.msectors (off + lenN buf) - k)) \/
  (* the first write to an empty stream, small *)
  (SA.empty_stream s id /\ off = 0 /\ 0 < lenN buf /\ lenN buf < MINI_STREAM_CUTOFF /\
     SA.mini_room s (SA.msectors (lenN buf)) /\ RootFits s (SA.msectors (lenN buf))) \/
  (* the first write to an empty stream, large *)
  (SA.empty_stream s id /\ off = 0 /\ MINI_STREAM_CUTOFF <= lenN buf /\
     lenN buf <= N.min (MAX_REGULAR_SECTOR * slen s) (stream_len_mask (ver s)) /\
     (lenN buf + slen s - 1) / slen s <= lenN (free s)) \/
  (* small to large (2b) *)
  (exists V, small_content s id V /\ off <= lenN V /\ MINI_STREAM_CUTOFF <= off + lenN buf /\
     off + lenN buf <= N.min (MAX_REGULAR_SECTOR * slen s) (stream_len_mask (ver s)) /\
     (off + lenN buf + slen s - 1) / slen s <= lenN (free s)) \/
  (* large, with sectors of the free stack *)
  (exists V ids, big_content s id V /\ stream_ids s id ids /\ off <= lenN V /\
     N.max (lenN V) (off + lenN buf) <= N.min (MAX_REGULAR_SECTOR * slen s) (stream_len_mask (ver s)) /\
     (off + lenN buf + slen s - 1) / slen s - lenN ids <= lenN (free s)).

Theorem write_case_cohtree : forall s id off buf,
  CohTree s -> WriteCase s id off buf ->
  exists s', write_data id off buf s = (s', Ok tt) /\ CohTree s' /\
    (forall strict, open_model strict (concat_img (img s')) = Ok (reopened s')).
Proof.
  intros s id off buf [HCD HTP] HW.
  assert (Hfin : forall s', write_data id off buf s = (s', Ok tt) -> CohData' s' -> (TreePart s -> TreePart s') ->
            exists s', write_data id off buf s = (s', Ok tt) /\ CohTree s' /\
              (forall strict, open_model strict (concat_img (img s')) = Ok (reopened s'))).
  { intros s' R C T. exists s'. split; [exact R|]. split; [split; [exact C|exact (T HTP)]|exact (cohdata'_reopens s' C)]. }
  destruct HW as [(HC & HL)|
                 [(V & k & Hsc & Hk & H1 & H2 & H3 & H4)|
                 [(He & -> & H1 & H2 & H3 & H4)|
                 [(He & -> & H1 & H2 & H3)|
                 [(V & Hsc & H1 & H2 & H3 & H4)|
                  (V & ids & HB & Hsi & H1 & H2 & H3)]]]]].
  - destruct (covered_write_cohtree s id off buf (conj HCD HTP) HC HL) as (s' & R & C).
    exists s'. split; [exact R|]. split; [exact C|exact (cohdata'_reopens s' (proj1 C))].
  - destruct (write_small_alloc_cohdata' s id V k off buf HCD Hsc Hk H1 H2 H3 H4)
      as (s' & R & C & _ & _ & _ & _ & _ & T). exact (Hfin s' R C T).
  - destruct (write_empty_small_cohdata' s id buf HCD He H1 H2 H3 H4)
      as (s' & R & C & _ & _ & _ & _ & _ & T). exact (Hfin s' R C T).
  - destruct (write_empty_big_cohdata' s id buf HCD He H1 H2 H3)
      as (s' & R & C & _ & _ & _ & _ & _ & T). exact (Hfin s' R C T).
  - destruct (write_small_to_big_cohdata' s id V off buf HCD Hsc H1 H2 H3 H4)
      as (s' & R & C & _ & _ & _ & _ & _ & T). exact (Hfin s' R C T).
  - destruct (write_big_alloc_cohdata' s id V ids off buf HCD HB Hsi H1 H2 H3)
      as (s' & R & C & _ & _ & _ & _ & _ & T). exact (Hfin s' R C T).
Qed.

(* ---- through the handle ---- *)
Definition CWd2 (id off : N) (bs : list byte) (s : cstate) : Prop := WriteCase s id off bs.
Definition CRd2 (id n : N) (s : cstate) : Prop := ResizeCase s id n.
Definition Rtriv (id : N) (s s' : cstate) : Prop := True.

Definition cov_flush2 (h : handle) (s : cstate) : Prop :=
  h_dirty h = true -> CWd2 (h_id h) (h_off h) (buf_filled (h_buf h)) s.

Definition covered_op2 (o : op) (h : handle) (s : cstate) : Prop :=
  match o with
  | OHRead _ _ | OHFill _ | OHWrite _ _ | OHSeek _ _ _ | OHFlush _ | OHDrop _ => cov_flush2 h s
  | OHSetLen _ n =>
      cov_flush2 h s /\ (n <> h_total h -> CRd2 (h_id h) n (fst (flush_changes' h s)))
  | _ => True
  end.

Lemma ct_rd : forall id off n s, CohTree s ->
  CohTree (fst (read_data id off n s)) /\ Rtriv id s (fst (read_data id off n s)).
Proof. intros. rewrite read_data_pure. split; [assumption|exact I]. Qed.
Lemma ct_sl : forall id s, CohTree s ->
  CohTree (fst (stream_len_of id s)) /\ Rtriv id s (fst (stream_len_of id s)).
Proof. intros. rewrite stream_len_of_pure. split; [assumption|exact I]. Qed.
Lemma ct_wr : forall id off bs s, CohTree s -> CWd2 id off bs s ->
  CohTree (fst (write_data id off bs s)) /\ Rtriv id s (fst (write_data id off bs s)).
Proof.
  intros id off bs s HG HC. destruct (write_case_cohtree s id off bs HG HC) as (s' & E & H & _).
  rewrite E. split; [exact H|exact I].
Qed.
Lemma ct_rs : forall id n s, CohTree s -> CRd2 id n s ->
  CohTree (fst (resize id n s)) /\ Rtriv id s (fst (resize id n s)).
Proof.
  intros id n s HG HC. destruct (resize_case_cohtree s id n HG HC) as (s' & E & H & _).
  rewrite E. split; [exact H|exact I].
Qed.

Theorem hop_run_cohtree : forall o h s,
  CohTree s -> covered_op2 o h s -> CohTree (fst (hop_run o h s)).
Proof.
  intros o h s HA HC.
  assert (Rr : forall id s0, Rtriv id s0 s0) by (intros; exact I).
  assert (Rt : forall id a b c, Rtriv id a b -> Rtriv id b c -> Rtriv id a c) by (intros; exact I).
  pose proof (h_read_C cstate read_data write_data stream_len_of CohTree Rtriv CWd2 Rr Rt ct_rd ct_sl ct_wr) as Xread.
  pose proof (h_fill_buf_C cstate read_data write_data stream_len_of CohTree Rtriv CWd2 Rr Rt ct_rd ct_sl ct_wr) as Xfill.
  pose proof (h_write_C cstate write_data stream_len_of CohTree Rtriv CWd2 Rr Rt ct_sl ct_wr) as Xwrite.
  pose proof (h_seek_C cstate write_data stream_len_of CohTree Rtriv CWd2 Rr Rt ct_sl ct_wr) as Xseek.
  pose proof (h_set_len_C cstate write_data resize stream_len_of CohTree Rtriv CWd2 CRd2 Rr Rt ct_sl ct_wr ct_rs) as Xsetlen.
  pose proof (h_flush_C cstate write_data stream_len_of CohTree Rtriv CWd2 Rr Rt ct_sl ct_wr) as Xflush.
  pose proof (flush_changes_C cstate write_data stream_len_of CohTree Rtriv CWd2 Rr Rt ct_sl ct_wr) as Xfc.
  destruct o; cbn [hop_run covered_op2] in *; cbv zeta; cbn [fst snd]; try exact HA.
  - exact (proj1 (proj1 (Xread h n s HA HC))).
  - exact (proj1 (proj1 (Xfill h s HA HC))).
  - exact (proj1 (proj1 (Xwrite h bs s HA HC))).
  - exact (proj1 (proj1 (Xseek h w z s HA HC))).
  - destruct HC as [HC1 HC2]. exact (proj1 (proj1 (Xsetlen h n s HA HC1 HC2))).
  - exact (proj1 (proj1 (Xflush h s HA HC))).
  - exact (proj1 (proj1 (Xfc h s HA HC))).
Qed.

(* ---- the step function ---- *)
Definition all_clean (f : fstate) : Prop :=
  forall i h, nthN (hs f) i = Some (Some h) -> h_dirty h = false.

Lemma drop_handle_clean : forall f i, all_clean f ->
  cs (drop_handle f i) = cs f /\ all_clean (drop_handle f i).
Proof.
  intros f i Hc. unfold drop_handle.
  destruct (nthN (hs f) i) as [[h|]|] eqn:E; [|split; [reflexivity|exact Hc]|split; [reflexivity|exact Hc]].
  unfold flush_changes', flush_changes. rewrite (Hc i h E). cbn [cs hs].
  split; [reflexivity|].
  intros j hj Hj. cbn [hs] in Hj. destruct (N.eq_dec j i) as [->|Hne].
  - rewrite nthN_updN_same in Hj by (eapply nthN_Some_lt; exact E). discriminate Hj.
  - rewrite nthN_updN_other in Hj by congruence. exact (Hc j hj Hj).
Qed.

Lemma drop_all_clean : forall n f i, all_clean f -> cs (drop_all n f i) = cs f.
Proof.
  induction n as [|n IH]; intros f i Hc; cbn [drop_all]; [reflexivity|].
  destruct (drop_handle_clean f i Hc) as (E & Hc'). rewrite IH by exact Hc'. exact E.
Qed.

(* what is asked of one step in the state it runs in *)
Definition step_ok2 (f : fstate) (o : op) : Prop :=
  match handle_slot o with
  | Some i => forall h, nthN (hs f) i = Some (Some h) -> covered_op2 o h (cs f)
  | None =>
    match o with
    | ORemoveStream p =>
        exists id e, MutRefine.id_of_path (cs f) p = Some id /\ nthN (dirs (cs f)) id = Some e /\
                     (0 < d_len e \/ SA.empty_at (cs f) id e) /\
                     snd (api_remove_stream p (cs f)) = Ok tt
    | OReopen _ => all_clean f
    | _ => query_op o
    end
  end.

Theorem step_cohtree : forall f now o,
  CohTree (cs f) -> step_ok2 f o -> CohTree (cs (fst (step f now o))).
Proof.
  intros f now o HG Hok. unfold step_ok2 in Hok.
  destruct (handle_slot o) as [i|] eqn:Eslot.
  - destruct (nthN (hs f) i) as [[h|]|] eqn:Eh.
    + destruct (step f now o) as [f' r] eqn:Es. cbn [fst].
      destruct (step_handle_shape f now o i h f' r Eslot Eh Es) as (E1 & _).
      rewrite E1. exact (hop_run_cohtree o h (cs f) HG (Hok h eq_refl)).
    + rewrite (step_no_handle f now o i Eslot); [exact HG|]. intros h E. rewrite Eh in E. discriminate E.
    + rewrite (step_no_handle f now o i Eslot); [exact HG|]. intros h E. rewrite Eh in E. discriminate E.
  - assert (Hsame : cs (fst (step f now o)) = cs f -> CohTree (cs (fst (step f now o)))).
    { intros ->. exact HG. }
    destruct o; cbn [handle_slot] in Eslot; try discriminate Eslot; cbn [query_op] in Hok;
      try contradiction; cbn [step].
    + apply Hsame, with_new_handle_pure, pure_api_open_stream.
    + (* remove *)
      destruct Hok as (id & e & Hid & He & Hpos & Hres).
      unfold with_cs. destruct (api_remove_stream p (cs f)) as [s' r] eqn:E. cbn [snd] in Hres. subst r.
      cbn [fst cs].
      destruct Hpos as [Hpos|Hem];
        [|exact (proj1 (remove_empty_stream_cohtree p (cs f) s' id e HG E Hid Hem))].
      destruct (N.lt_ge_cases (d_len e) MINI_STREAM_CUTOFF) as [Hsm|Hbg].
      * exact (proj1 (remove_small_stream_cohtree p (cs f) s' id e HG E Hid He Hpos Hsm)).
      * exact (proj1 (remove_big_stream_cohtree p (cs f) s' id e HG E Hid He Hbg)).
    + apply Hsame, PersistProofs.with_cs_pure, PersistProofs.pure_api_exists.
    + apply Hsame, PersistProofs.with_cs_pure, PersistProofs.pure_api_is_stream.
    + apply Hsame, PersistProofs.with_cs_pure, PersistProofs.pure_api_is_storage.
    + apply Hsame, PersistProofs.with_cs_pure, PersistProofs.pure_api_entry.
    + apply Hsame, PersistProofs.with_cs_pure, PersistProofs.pure_api_root_entry.
    + apply Hsame, PersistProofs.with_cs_pure, PersistProofs.pure_api_read_storage.
    + apply Hsame, PersistProofs.with_cs_pure, PersistProofs.pure_api_read_root.
    + apply Hsame, PersistProofs.with_cs_pure, PersistProofs.pure_api_walk.
    + apply Hsame, PersistProofs.with_cs_pure, PersistProofs.pure_api_walk_storage.
    + apply Hsame. reflexivity.
    + apply Hsame. reflexivity.
    + (* reopen *)
      cbv zeta. rewrite (drop_all_clean _ f 0 Hok).
      rewrite (cohdata'_reopens (cs f) (proj1 HG) strict). cbn [fst cs].
      apply cohtree_reopened. exact HG.
Qed.

Fixpoint hist_ok2 (f : fstate) (l : list (N * op)) : Prop :=
  match l with
  | [] => True
  | (now, o) :: t => step_ok2 f o /\ hist_ok2 (fst (step f now o)) t
  end.

Theorem history_cohtree : forall l f,
  CohTree (cs f) -> hist_ok2 f l -> CohTree (cs (fst (run_ops f l))).
Proof.
  induction l as [|[now o] t IH]; intros f HG Hrun; [exact HG|].
  cbn [hist_ok2] in Hrun. destruct Hrun as [Hok Hrun].
  rewrite run_ops_cons. apply IH; [|exact Hrun]. apply step_cohtree; assumption.
Qed.

Lemma hist_ok2_app : forall l1 l2 f, hist_ok2 f (l1 ++ l2) -> hist_ok2 f l1.
Proof.
  induction l1 as [|[now o] t IH]; intros l2 f H; [exact I|].
  cbn [app hist_ok2] in *. destruct H as [H1 H2]. split; [exact H1|]. eapply IH. exact H2.
Qed.

(* C02 along histories that move data, remove streams and reopen the file: at
   every point between two calls the bytes alone reopen, in both modes, to the
   cached state *)
Theorem persist_data_history2 : forall (l1 l2 : list (N * op)) f,
  CohTree (cs f) -> hist_ok2 f (l1 ++ l2) ->
  let f1 := fst (run_ops f l1) in
  CohTree (cs f1) /\
  forall strict, open_model strict (concat_img (img (cs f1))) = Ok (reopened (cs f1)).
Proof.
  intros l1 l2 f HG Hrun f1.
  assert (H : CohTree (cs f1)).
  { apply history_cohtree; [exact HG|]. eapply hist_ok2_app. exact Hrun. }
  split; [exact H|]. apply cohdata'_reopens. apply H.
Qed.

(* ================================================================== *)
(* 6a. boolean checkers for the invariant (for the examples)           *)
(* ================================================================== *)
Definition md_disj_b (s : cstate) : bool :=
  match chain_ids_of (fat s) (minifat_start s), chain_ids_of (fat s) (dir_start s) with
  | Ok a, Ok b => disjoint_b a b
  | _, _ => false
  end.

Definition unref_b (tbl : list N) (y : N) : bool := negb (memN y tbl).

Lemma unref_b_sound : forall tbl y, unref_b tbl y = true -> unref tbl y.
Proof.
  intros tbl y H i Hi. unfold unref_b in H. apply negb_true_iff in H.
  apply WalkProofs.memN_false in H. apply H. eapply nthN_In. exact Hi.
Qed.

Definition aux_b (s : cstate) : bool :=
  forallb (unref_b (fat s)) (free_indices (fat s) 0) &&
  forallb (fun e => if is_big e then unref_b (fat s) (d_start e) else true) (dirs s) &&
  forallb (unref_b (minifat s)) (free_indices (minifat s) 0) &&
  forallb (fun e => if SA.is_small e then unref_b (minifat s) (d_start e) else true) (dirs s).

Lemma aux_b_sound : forall s, aux_b s = true -> Aux s.
Proof.
  intros s H. unfold aux_b in H.
  apply andb_true_iff in H. destruct H as [H H4].
  apply andb_true_iff in H. destruct H as [H H3].
  apply andb_true_iff in H. destruct H as [H1 H2].
  rewrite forallb_forall in H1, H2, H3, H4. constructor.
  - intros x Hx. apply unref_b_sound. apply H1. apply WalkSafe.free_indices_In.
    split; [lia|]. rewrite N.sub_0_r. exact Hx.
  - intros id e He [Ht Hb]. apply unref_b_sound. specialize (H2 e (nthN_In _ _ _ _ He)).
    rewrite (is_big_true e Ht Hb) in H2. exact H2.
  - intros x Hx. apply unref_b_sound. apply H3. apply WalkSafe.free_indices_In.
    split; [lia|]. rewrite N.sub_0_r. exact Hx.
  - intros id e He Hs. apply unref_b_sound. specialize (H4 e (nthN_In _ _ _ _ He)).
    rewrite (SA.is_small_true e Hs) in H4. exact H4.
Qed.

Definition cohdata'_b (s : cstate) : bool :=
  coherent_b s && SA.swf_b s && md_disj_b s && free_clean_b s && aux_b s.

Theorem cohdata'_b_sound : forall s, cohdata'_b s = true -> CohData' s.
Proof.
  intros s H. unfold cohdata'_b in H.
  apply andb_true_iff in H. destruct H as [H H5].
  apply andb_true_iff in H. destruct H as [H H4].
  apply andb_true_iff in H. destruct H as [H H3].
  apply andb_true_iff in H. destruct H as [H1 H2].
  constructor.
  - apply coherent_b_sound. exact H1.
  - destruct (SA.swf_b_sound s H2) as (r & rids & mfids & dids & SW).
    exists r, rids, mfids, dids. split; [exact SW|].
    pose proof (SA.sw_m _ _ _ _ _ _ SW) as W. unfold md_disj_b in H3.
    rewrite (SA.mw_mch _ _ _ _ _ W), (SA.mw_dch _ _ _ _ _ W) in H3.
    exact (disjoint_b_sound _ _ H3).
  - apply free_clean_b_sound. exact H4.
  - apply aux_b_sound. exact H5.
Qed.

(* the tree part: the per-entry conditions and the root conditions are
   decidable; the tree itself is given *)
Definition ent_ok_b (v : version) (e : dirent) : bool :=
  dirent_wf_b v e &&
  (objtype_eqb (d_type e) TUnalloc || color_eqb (d_color e) Black) &&
  negb (d_left e =? ROOT_STREAM_ID) && negb (d_right e =? ROOT_STREAM_ID) &&
  negb (d_child e =? ROOT_STREAM_ID).

Lemma ent_ok_b_sound : forall v e, ent_ok_b v e = true -> ent_ok v e.
Proof.
  intros v e H. unfold ent_ok_b in H.
  apply andb_true_iff in H. destruct H as [H H5].
  apply andb_true_iff in H. destruct H as [H H4].
  apply andb_true_iff in H. destruct H as [H H3].
  apply andb_true_iff in H. destruct H as [H1 H2].
  split; [apply dirent_wf_b_sound; exact H1|]. split.
  - intro Ht. apply orb_true_iff in H2. destruct H2 as [H2|H2].
    + apply objtype_eqb_true in H2. contradiction.
    + destruct (d_color e); [discriminate H2|reflexivity].
  - unfold noroot_links. apply negb_true_iff in H3, H4, H5.
    apply N.eqb_neq in H3, H4, H5. auto.
Qed.

Definition rootok_b (s : cstate) : bool :=
  match nthN (dirs s) ROOT_STREAM_ID with
  | Some root => (d_left root =? NO_STREAM) && (d_right root =? NO_STREAM) &&
                 (d_len root mod MINI_SECTOR_LEN =? 0) &&
                 (lenN (minifat s) <=? d_len root / MINI_SECTOR_LEN)
  | None => false
  end.

Lemma rootok_b_sound : forall s, rootok_b s = true -> RootOK s.
Proof.
  intros s H. unfold rootok_b in H. destruct (nthN (dirs s) ROOT_STREAM_ID) as [root|] eqn:E; [|discriminate].
  repeat (apply andb_true_iff in H; destruct H as [H ?H]).
  exists root. split; [exact E|]. apply N.eqb_eq in H, H2, H1. apply N.leb_le in H0. auto.
Qed.

Lemma treepart_check : forall s,
  forallb (ent_ok_b (ver s)) (dirs s) = true -> rootok_b s = true -> TreeInv (dirs s) -> TreePart s.
Proof.
  intros s H1 H2 H3. constructor; [|apply rootok_b_sound; exact H2|exact H3].
  rewrite forallb_forall in H1. apply Forall_forall. intros e He. apply ent_ok_b_sound. exact (H1 e He).
Qed.

(* ================================================================== *)
(* 6b. non-vacuity, items 1 - 3 (large streams)                        *)
(* ================================================================== *)
(* HandleFrame's file: "/a" = 100 bytes (slot 1, small), "/b" = 5000 bytes
   (slot 2, large, sectors 4..13); fG is the same file after "/b" was cut to
   4200 bytes (sector 13 on the free stack). *)
Module Example1.
  Import HandleFrame.Example DataPersist.Example.
  Import QueryRefine MutRefine Cfb.spec.Tree.

  Example fA_cd' : CohData' (cs fA).
  Proof. apply cohdata'_b_sound. vm_compute. reflexivity. Qed.
  Example fG_cd' : CohData' (cs fG).
  Proof. apply cohdata'_b_sound. vm_compute. reflexivity. Qed.

  Ltac arith := vm_compute; first [reflexivity | discriminate | (intro; discriminate)].

  (* ---- item 1 (reuse), then item 2 (release), then a covered resize: a history
          of three store calls; the invariant is handed from one theorem to the
          next, the round trip holds after each ---- *)
  Definition s1 : cstate := fst (resize 2 5000 (cs fG)).
  Definition s2 : cstate := fst (resize 2 4200 s1).
  Definition s3 : cstate := fst (resize 2 4300 s2).

  Example grow_shrink_history :
    resize 2 5000 (cs fG) = (s1, Ok tt) /\ resize 2 4200 s1 = (s2, Ok tt) /\
    resize 2 4300 s2 = (s3, Ok tt) /\
    CohData' s1 /\ CohData' s2 /\ CohData' s3 /\
    (forall strict, open_model strict (concat_img (img s1)) = Ok (reopened s1)) /\
    (forall strict, open_model strict (concat_img (img s2)) = Ok (reopened s2)) /\
    (forall strict, open_model strict (concat_img (img s3)) = Ok (reopened s3)) /\
    free s1 = [] /\ free s2 = [13] /\ free s3 = [13] /\
    big_content (reopened s3) 2 (takeN 4200 (Vg ++ repeatN 0 800) ++ repeatN 0 100).
  Proof.
    destruct (big_check (cs fG) Vg idsg (proj2 fG_cd)) as [HB Hsi]; [vm_compute; reflexivity|].
    (* 1: growth into the free sector 13 *)
    destruct (resize_big_reuse_cohdata' (cs fG) 2 Vg idsg 5000 [] [13] fG_cd' HB Hsi)
      as (x1 & R1 & C1 & O1 & _ & B1 & S1 & F1 & _);
      [arith|arith|arith|arith|unfold LenFits; arith|].
    assert (E1 : x1 = s1) by (unfold s1; rewrite R1; reflexivity). subst x1.
    replace (5000 - lenN Vg) with 800 in B1 by arith.
    (* 2: back to 4200 bytes: sector 13 is released again *)
    destruct (resize_big_release_cohdata' s1 2 _ _ 4200 C1 B1 S1)
      as (x2 & R2 & C2 & O2 & _ & B2 & S2 & F2 & _); [arith|arith|arith|].
    assert (E2 : x2 = s2) by (unfold s2; rewrite R2; reflexivity). subst x2.
    (* 3: 4300 bytes, inside the last sector *)
    destruct (resize_big_same_cohdata' s2 2 _ _ 4300 C2 B2 S2)
      as (x3 & R3 & C3 & B3 & S3 & F3 & _); [arith|arith|arith|unfold LenFits; arith|].
    assert (E3 : x3 = s3) by (unfold s3; rewrite R3; reflexivity). subst x3.
    split; [exact R1|]. split; [exact R2|]. split; [exact R3|].
    split; [exact C1|]. split; [exact C2|]. split; [exact C3|].
    split; [exact O1|]. split; [exact O2|]. split; [exact (cohdata'_reopens s3 C3)|].
    split; [exact F1|]. split; [rewrite F2, F1; arith|]. split; [rewrite F3, F2, F1; arith|].
    apply (big_content_same_store s3 (reopened s3) (same_store_reopened s3)).
    unfold resized in B3.
    replace (takeN 4300 (takeN 4200 (Vg ++ repeatN 0 800))) with (takeN 4200 (Vg ++ repeatN 0 800)) in B3 by arith.
    replace (4300 - lenN (takeN 4200 (Vg ++ repeatN 0 800))) with 100 in B3 by arith.
    exact B3.
  Qed.

  (* the same by evaluation: both modes accept the bytes at the end, and the
     checker accepts the invariant of the final state *)
  Example grow_shrink_evaluated :
    open_model true (concat_img (img s3)) = Ok (reopened s3) /\
    open_model false (concat_img (img s3)) = Ok (reopened s3) /\
    cohdata'_b s3 = true /\
    snd (read_data 2 0 4300 (reopened s3)) = Ok (takeN 4200 (Vg ++ repeatN 0 800) ++ repeatN 0 100).
  Proof. repeat split; vm_compute; reflexivity. Qed.

  (* ---- item 1 (append): "/b" from 5000 to 6000 bytes on fA ---- *)
  Example append_growth' :
    exists s',
      resize 2 6000 (cs fA) = (s', Ok tt) /\ CohData' s' /\
      (forall strict, open_model strict (concat_img (img s')) = Ok (reopened s')) /\
      big_content (reopened s') 2 (Vb ++ repeatN 0 1000) /\
      stream_ids s' 2 (idsb ++ [14; 15]) /\ nsect s' = 16.
  Proof.
    destruct (big_check (cs fA) Vb idsb fA_wf) as [HB Hsi]; [vm_compute; reflexivity|].
    assert (Hmod : forall j, j < N.of_nat 2 -> (nsect (cs fA) + j) mod fat_per_sector (cs fA) <> 0).
    { intros j Hj. assert (j = 0 \/ j = 1) as [-> | ->] by lia; arith. }
    destruct (resize_big_append_cohdata' (cs fA) 2 Vb idsb 6000 2 fA_cd' ltac:(arith) ltac:(arith) ltac:(arith)
                HB Hsi ltac:(arith) ltac:(arith) Hmod ltac:(arith) ltac:(unfold LenFits; arith))
      as (s' & R & C & O & B & _ & S & _ & N & _).
    exists s'. split; [exact R|]. split; [exact C|]. split; [exact O|].
    split; [|split; [exact S|rewrite N; arith]].
    replace (Vb ++ repeatN 0 1000) with (Vb ++ repeatN 0 (6000 - lenN Vb)) by arith. exact B.
  Qed.

  (* ---- item 2 on fA: "/b" from 5000 to 4200 bytes, sector 13 released ---- *)
  Example release_shrink :
    exists s',
      resize 2 4200 (cs fA) = (s', Ok tt) /\ CohData' s' /\
      (forall strict, open_model strict (concat_img (img s')) = Ok (reopened s')) /\
      big_content (reopened s') 2 (takeN 4200 Vb) /\ free s' = [13].
  Proof.
    destruct (big_check (cs fA) Vb idsb fA_wf) as [HB Hsi]; [vm_compute; reflexivity|].
    destruct (resize_big_release_cohdata' (cs fA) 2 Vb idsb 4200 fA_cd' HB Hsi
                ltac:(arith) ltac:(arith) ltac:(arith))
      as (s' & R & C & O & B & _ & _ & F & _).
    exists s'. split; [exact R|]. split; [exact C|]. split; [exact O|]. split; [exact B|].
    rewrite F. arith.
  Qed.

  Example release_shrink_evaluated :
    let s' := fst (resize 2 4200 (cs fA)) in
    open_model true (concat_img (img s')) = Ok (reopened s') /\
    nthN (fat s') 13 = Some FREE_SECTOR /\ nthN (fat s') 12 = Some END_OF_CHAIN /\
    snd (read_data 2 0 5000 (reopened s')) = Ok (takeN 4200 Vb).
  Proof. repeat split; vm_compute; reflexivity. Qed.

  (* ---- item 3: "/b" is removed from fA ---- *)
  Definition ent_at (ds : list dirent) (i : N) : dirent :=
    match nthN ds i with Some e => e | None => dirent_unallocated end.

  Definition tree_fA : node :=
    Dir (meta_of (ent_at (dirs (cs fA)) 0))
      [([97], Leaf 0 (repeatN 0 100)); ([98], Leaf 0 (repeatN 0 5000))].

  Ltac in_cases H := repeat (destruct H as [H|H]; [subst|]); try contradiction.

  Example fA_tree : TreeInv (dirs (cs fA)).
  Proof.
    exists tree_fA. split.
    - unfold TreeRep, tree_fA. apply NodeRep_dir. split; [reflexivity|].
      exists (ent_at (dirs (cs fA)) 0). split; [reflexivity|]. split; [reflexivity|].
      split; [reflexivity|]. split; [reflexivity|]. split; [discriminate|].
      exists (BN BL 1 (BN BL 2 BL)). split.
      { cbn [Rep]. split; [reflexivity|]. split; [discriminate|].
        exists (ent_at (dirs (cs fA)) 1). split; [reflexivity|]. split; [reflexivity|].
        split; [reflexivity|]. split; [discriminate|].
        exists (ent_at (dirs (cs fA)) 2). split; [reflexivity|]. split; reflexivity. }
      split.
      { cbn [bst ids app In]. repeat split; intros j Hj; in_cases Hj; vm_compute; reflexivity. }
      split.
      { cbn [ids app]. repeat constructor; cbn [In]; intuition discriminate. }
      cbn [ids app]. constructor; [|constructor; [|constructor]].
      + unfold KidRep. cbn [fst snd]. apply NodeRep_leaf. split; [reflexivity|].
        exists (ent_at (dirs (cs fA)) 1). split; [reflexivity|].
        repeat (split; [first [exact I | vm_compute; reflexivity]|]). reflexivity.
      + unfold KidRep. cbn [fst snd]. apply NodeRep_leaf. split; [reflexivity|].
        exists (ent_at (dirs (cs fA)) 2). split; [reflexivity|].
        repeat (split; [first [exact I | vm_compute; reflexivity]|]). reflexivity.
    - exists [0; 1; 2]. split.
      + unfold tree_fA. cbn [AllIds].
        exists (ent_at (dirs (cs fA)) 0), (BN BL 1 (BN BL 2 BL)). split; [reflexivity|]. split.
        { cbn [Rep]. split; [reflexivity|]. split; [discriminate|].
          exists (ent_at (dirs (cs fA)) 1). split; [reflexivity|]. split; [reflexivity|].
          split; [reflexivity|]. split; [discriminate|].
          exists (ent_at (dirs (cs fA)) 2). split; [reflexivity|]. split; reflexivity. }
        exists [[1]; [2]]. split; [|reflexivity]. cbn [ids app].
        split; [split; vm_compute; reflexivity|]. split; [split; vm_compute; reflexivity|exact I].
      + repeat constructor; cbn [In]; intuition discriminate.
  Qed.

  Example fA_ct : CohTree (cs fA).
  Proof.
    split; [exact fA_cd'|]. apply treepart_check; [vm_compute; reflexivity|vm_compute; reflexivity|exact fA_tree].
  Qed.

  Definition p_b : list N := [47; 98].
  Definition rmB := Eval vm_compute in api_remove_stream p_b (cs fA).
  Definition sR : cstate := Eval vm_compute in fst rmB.

  Example rmB_run : api_remove_stream p_b (cs fA) = (sR, Ok tt).
  Proof. vm_compute. reflexivity. Qed.

  Example remove_big :
    CohTree sR /\
    (forall strict, open_model strict (concat_img (img sR)) = Ok (reopened sR)) /\
    nthN (dirs sR) 2 = Some dirent_unallocated /\
    free sR = idsb /\ small_content sR 1 bytes100.
  Proof.
    assert (Hid : id_of_path (cs fA) p_b = Some 2) by (vm_compute; reflexivity).
    assert (He : nthN (dirs (cs fA)) 2 = Some (ent_at (dirs (cs fA)) 2)) by (vm_compute; reflexivity).
    destruct (remove_big_stream_cohtree p_b (cs fA) sR 2 _ fA_ct rmB_run Hid He ltac:(arith))
      as (CT & O & Hun & (Hsm & _ & _) & (ids & Hc & Hfr) & _).
    split; [exact CT|]. split; [exact O|]. split; [exact Hun|]. split.
    - rewrite Hfr. assert (ids = idsb) by (vm_compute in Hc; injection Hc as <-; reflexivity).
      subst ids. arith.
    - apply Hsm; [discriminate|].
      assert (E : cs fA = cs fB) by (vm_compute; reflexivity). rewrite E. exact a_small.
  Qed.

  (* by evaluation: the ten sectors of "/b" are FREE in the FAT sector on disk,
     the image reopens, "/b" is gone and "/a" still reads *)
  Example remove_big_evaluated :
    open_model true (concat_img (img sR)) = Ok (reopened sR) /\
    open_model false (concat_img (img sR)) = Ok (reopened sR) /\
    cohdata'_b sR = true /\
    free (reopened sR) = idsb /\
    snd (api_exists p_b (reopened sR)) = Ok false /\
    snd (read_data 1 0 200 (reopened sR)) = Ok bytes100.
  Proof. repeat split; vm_compute; reflexivity. Qed.
End Example1.

(* ---- item 3 (small): "/a" is removed from fA ---- *)
Module Example2.
  Import HandleFrame.Example DataPersist.Example Example1.
  Definition p_a : list N := [47; 97].
  Definition rmA := Eval vm_compute in api_remove_stream p_a (cs fA).
  Definition sRa : cstate := Eval vm_compute in fst rmA.
  Example rmA_run : api_remove_stream p_a (cs fA) = (sRa, Ok tt).
  Proof. vm_compute. reflexivity. Qed.

  Example remove_small :
    CohTree sRa /\
    (forall strict, open_model strict (concat_img (img sRa)) = Ok (reopened sRa)) /\
    nthN (dirs sRa) 1 = Some dirent_unallocated /\ big_content sRa 2 Vb /\ free sRa = [].
  Proof.
    assert (Hid : MutRefine.id_of_path (cs fA) p_a = Some 1) by (vm_compute; reflexivity).
    assert (He : nthN (dirs (cs fA)) 1 = Some (ent_at (dirs (cs fA)) 1)) by (vm_compute; reflexivity).
    destruct (remove_small_stream_cohtree p_a (cs fA) sRa 1 _ fA_ct rmA_run Hid He ltac:(arith) ltac:(arith))
      as (CT & O & Hun & (_ & Hbg & _) & Hfr & _).
    split; [exact CT|]. split; [exact O|]. split; [exact Hun|]. split.
    - apply Hbg; [discriminate|].
      destruct (big_check (cs fA) Vb idsb fA_wf) as [HB _]; [vm_compute; reflexivity|exact HB].
    - rewrite Hfr. arith.
  Qed.

  (* by evaluation: both mini sectors of "/a" are FREE in the MiniFAT sector on
     disk, the cached MiniFAT is empty, the root length is 0 = 64 x 0 *)
  Example remove_small_evaluated :
    open_model true (concat_img (img sRa)) = Ok (reopened sRa) /\
    open_model false (concat_img (img sRa)) = Ok (reopened sRa) /\
    cohdata'_b sRa = true /\
    minifat sRa = [] /\ option_map d_len (nthN (dirs sRa) 0) = Some 0 /\
    takeN 8 (sector_bytes sRa 2) = [255; 255; 255; 255; 255; 255; 255; 255] /\
    snd (api_exists p_a (reopened sRa)) = Ok false /\
    snd (read_data 2 0 5000 (reopened sRa)) = Ok Vb.
  Proof. repeat split; vm_compute; reflexivity. Qed.
End Example2.

(* ---- item 4: small-stream growth with mini-sector allocation; the first
        resize of an empty stream ---- *)
Module Example3.
  Import HandleFrame.Example DataPersist.Example Example1.

  (* ---- item 4 (1), append within capacity: "/a" from 100 to 300 bytes on fA
          (two mini sectors -> five; the mini free list is empty) ---- *)
  Example small_growth_append :
    exists s',
      resize 1 300 (cs fA) = (s', Ok tt) /\ CohData' s' /\
      (forall strict, open_model strict (concat_img (img s')) = Ok (reopened s')) /\
      small_content (reopened s') 1 (bytes100 ++ repeatN 0 200) /\
      mini_sectors s' 1 5 /\ big_content s' 2 Vb.
  Proof.
    assert (E : cs fA = cs fB) by (vm_compute; reflexivity).
    assert (Hsc : small_content (cs fA) 1 bytes100) by (rewrite E; exact a_small).
    assert (Hms : mini_sectors (cs fA) 1 2) by (eexists _, [0; 1]; splits; vm_compute; reflexivity).
    assert (Hroom : SA.mini_room (cs fA) (SA.msectors 300 - 2)).
    { apply SA.mini_room_b_sound. vm_compute. reflexivity. }
    destruct (resize_small_alloc_cohdata' (cs fA) 1 bytes100 2 300 fA_cd' Hsc Hms ltac:(arith) ltac:(arith)
                ltac:(arith) Hroom ltac:(unfold RootFits; arith))
      as (s' & R & C & O & B & _ & K & (_ & Hbg & _) & _).
    exists s'. split; [exact R|]. split; [exact C|]. split; [exact O|]. split.
    - replace (bytes100 ++ repeatN 0 200) with (takeN 300 bytes100 ++ repeatN 0 (300 - lenN bytes100)) by arith.
      exact B.
    - split; [replace 5 with (SA.msectors 300) by arith; exact K|].
      apply Hbg; [discriminate|].
      destruct (big_check (cs fA) Vb idsb fA_wf) as [HB _]; [vm_compute; reflexivity|exact HB].
  Qed.

  Example small_growth_append_evaluated :
    let s' := fst (resize 1 300 (cs fA)) in
    open_model true (concat_img (img s')) = Ok (reopened s') /\
    cohdata'_b s' = true /\ minifat s' = [1; 2; 3; 4; END_OF_CHAIN] /\
    option_map d_len (nthN (dirs s') 0) = Some 320 /\
    snd (read_data 1 0 400 (reopened s')) = Ok (bytes100 ++ repeatN 0 200).
  Proof. repeat split; vm_compute; reflexivity. Qed.

  (* ---- item 4 (1), reuse of the mini free list, and item 4 (2): built by
          running the model: on fA create "/c" (70 bytes), create "/d" (empty),
          remove "/a": its mini sectors 0 and 1 go to the mini free list ---- *)
  Definition ops1 : list op :=
    [OCreateNewStream 2 [47; 99]; OHWrite 2 (repeatN 7 70); OHFlush 2;
     OCreateNewStream 3 [47; 100]; ORemoveStream [47; 97]].
  Definition runH := Eval vm_compute in run fA ops1.
  Definition fH : fstate := Eval vm_compute in fst runH.
  Example runH_ok : snd runH = [Ok VUnit; Ok (VNum 70); Ok VUnit; Ok VUnit; Ok VUnit].
  Proof. vm_compute. reflexivity. Qed.

  Example fH_cd' : CohData' (cs fH).
  Proof. apply cohdata'_b_sound. vm_compute. reflexivity. Qed.
  Example fH_shape : mfree (cs fH) = [0; 1] /\ minifat (cs fH) = [FREE_SECTOR; FREE_SECTOR; 3; END_OF_CHAIN].
  Proof. split; vm_compute; reflexivity. Qed.

  (* "/c" (slot 3) from 70 to 200 bytes: two more mini sectors, taken from the free list *)
  Example small_growth_reuse :
    exists s',
      resize 3 200 (cs fH) = (s', Ok tt) /\ CohData' s' /\
      (forall strict, open_model strict (concat_img (img s')) = Ok (reopened s')) /\
      small_content (reopened s') 3 (repeatN 7 70 ++ repeatN 0 130) /\ mfree s' = [].
  Proof.
    assert (Hsc : small_content (cs fH) 3 (repeatN 7 70)).
    { eexists _, [3], [2; 3]; unfold small_at; splits;
        [ vm_compute; reflexivity | reflexivity | decide_goal | decide_goal | decide_goal
        | unfold good_mchain; splits;
          [ eexists; split; vm_compute; reflexivity
          | unfold good_chain; splits; [repeat constructor; intros []|repeat constructor; decide_goal|decide_goal|decide_goal]
          | repeat constructor; cbn; intuition discriminate
          | repeat constructor; decide_goal ]
        | decide_goal | vm_compute; reflexivity ]. }
    assert (Hms : mini_sectors (cs fH) 3 2) by (eexists _, [2; 3]; splits; vm_compute; reflexivity).
    assert (Hroom : SA.mini_room (cs fH) (SA.msectors 200 - 2)).
    { apply SA.mini_room_b_sound. vm_compute. reflexivity. }
    destruct (resize_small_alloc_cohdata' (cs fH) 3 (repeatN 7 70) 2 200 fH_cd' Hsc Hms ltac:(arith) ltac:(arith)
                ltac:(arith) Hroom ltac:(unfold RootFits; arith))
      as (s' & R & C & O & B & _).
    exists s'. split; [exact R|]. split; [exact C|]. split; [exact O|]. split.
    - replace (repeatN 7 70 ++ repeatN 0 130)
        with (takeN 200 (repeatN 7 70) ++ repeatN 0 (200 - lenN (repeatN 7 70 : list byte))) by arith.
      exact B.
    - replace s' with (fst (resize 3 200 (cs fH))) by (rewrite R; reflexivity). arith.
  Qed.

  (* "/d" (slot 4), empty, to 100 bytes of zeros: both mini sectors from the free list *)
  Example empty_to_small :
    exists s',
      resize 4 100 (cs fH) = (s', Ok tt) /\ CohData' s' /\
      (forall strict, open_model strict (concat_img (img s')) = Ok (reopened s')) /\
      small_content (reopened s') 4 (repeatN 0 100) /\ mini_sectors s' 4 2.
  Proof.
    assert (He : SA.empty_stream (cs fH) 4).
    { eexists. unfold SA.empty_at. splits; vm_compute; reflexivity. }
    assert (Hroom : SA.mini_room (cs fH) (SA.msectors 100)).
    { apply SA.mini_room_b_sound. vm_compute. reflexivity. }
    destruct (resize_empty_small_cohdata' (cs fH) 4 100 fH_cd' He ltac:(arith) ltac:(arith) Hroom
                ltac:(unfold RootFits; arith))
      as (s' & R & C & O & B & _ & K & _).
    exists s'. split; [exact R|]. split; [exact C|]. split; [exact O|]. split; [exact B|].
    replace 2 with (SA.msectors 100) by arith. exact K.
  Qed.

  Example empty_to_small_evaluated :
    let s' := fst (resize 4 100 (cs fH)) in
    open_model true (concat_img (img s')) = Ok (reopened s') /\
    cohdata'_b s' = true /\ minifat s' = [END_OF_CHAIN; 0; 3; END_OF_CHAIN] /\
    snd (read_data 4 0 200 (reopened s')) = Ok (repeatN 0 100) /\
    snd (read_data 3 0 200 (reopened s')) = Ok (repeatN 7 70).
  Proof. repeat split; vm_compute; reflexivity. Qed.
End Example3.

From Cfb.proofs Require Import ReadonlyTotal.

(* ---- item 5: a history with growth at the end of the file, release of
        sectors, removal of a stream with data, a reopen in the middle, growth
        from the rebuilt free list, and a buffered write with its flush ---- *)
Module Example4.
  Import HandleFrame.Example DataPersist.Example Example1.

  Definition hist2 : list (N * op) :=
    [(0, OHSetLen 1 6000); (0, OHSetLen 1 4200); (0, ORemoveStream [47; 97]); (0, OReopen true);
     (0, OOpenStream 1 [47; 98]); (0, OHSetLen 1 5000); (0, OHWrite 1 [5; 5]); (0, OHFlush 1)].

  Definition g1 : fstate := Eval vm_compute in fst (step fA 0 (OHSetLen 1 6000)).
  Definition g2 : fstate := Eval vm_compute in fst (step g1 0 (OHSetLen 1 4200)).
  Definition g3 : fstate := Eval vm_compute in fst (step g2 0 (ORemoveStream [47; 97])).
  Definition g4 : fstate := Eval vm_compute in fst (step g3 0 (OReopen true)).
  Definition g5 : fstate := Eval vm_compute in fst (step g4 0 (OOpenStream 1 [47; 98])).
  Definition g6 : fstate := Eval vm_compute in fst (step g5 0 (OHSetLen 1 5000)).
  Definition g7 : fstate := Eval vm_compute in fst (step g6 0 (OHWrite 1 [5; 5])).

  Example hist2_results :
    snd (run_ops fA hist2) = [Ok VUnit; Ok VUnit; Ok VUnit; Ok VUnit; Ok VUnit; Ok VUnit; Ok (VNum 2); Ok VUnit].
  Proof. vm_compute. reflexivity. Qed.

  Lemma flush_clean : forall h s, h_dirty h = false -> flush_changes' h s = (s, Ok h).
  Proof. intros h s H. unfold flush_changes', flush_changes. rewrite H. reflexivity. Qed.

  Definition all_clean_b (f : fstate) : bool :=
    forallb (fun x => match x with Some h => negb (h_dirty h) | None => true end) (hs f).
  Lemma all_clean_b_sound : forall f, all_clean_b f = true -> all_clean f.
  Proof.
    intros f H i h Hh. unfold all_clean_b in H. rewrite forallb_forall in H.
    specialize (H _ (nthN_In _ _ _ _ Hh)). cbn in H. apply negb_true_iff in H. exact H.
  Qed.

  Ltac wf_of s := apply allwf_b_sound; vm_compute; reflexivity.
  Ltac the_handle E H := rewrite H in E; injection E as <-.
  Ltac clean_flush := let E := fresh in intro E; vm_compute in E; discriminate E.

  Definition V1 : list byte := Vb ++ repeatN 0 1000.
  Definition ids1 : list N := idsb ++ [14; 15].
  Definition V2 : list byte := takeN 4200 V1.
  Definition ids2 : list N := [4; 5; 6; 7; 8; 9; 10; 11; 12].
  Definition V6 : list byte := V2 ++ repeatN 0 800.
  Definition ids6 : list N := ids2 ++ [15].

  Example hist2_ok : hist_ok2 fA hist2.
  Proof.
    assert (A1 : nthN (hs fA) 1 = Some (Some (slot fA 1))) by (vm_compute; reflexivity).
    assert (B1 : nthN (hs g1) 1 = Some (Some (slot g1 1))) by (vm_compute; reflexivity).
    assert (F1 : nthN (hs g5) 1 = Some (Some (slot g5 1))) by (vm_compute; reflexivity).
    assert (G1 : nthN (hs g6) 1 = Some (Some (slot g6 1))) by (vm_compute; reflexivity).
    assert (H1 : nthN (hs g7) 1 = Some (Some (slot g7 1))) by (vm_compute; reflexivity).
    unfold hist2. cbn [hist_ok2].
    change (fst (step fA 0 (OHSetLen 1 6000))) with g1.
    change (fst (step g1 0 (OHSetLen 1 4200))) with g2.
    change (fst (step g2 0 (ORemoveStream [47; 97]))) with g3.
    change (fst (step g3 0 (OReopen true))) with g4.
    change (fst (step g4 0 (OOpenStream 1 [47; 98]))) with g5.
    change (fst (step g5 0 (OHSetLen 1 5000))) with g6.
    change (fst (step g6 0 (OHWrite 1 [5; 5]))) with g7.
    unfold step_ok2. cbn [handle_slot query_op].
    split.
    { (* growth at the end of the file *)
      intros h E. the_handle E A1. cbn [covered_op2]. split; [clean_flush|]. intros _.
      rewrite flush_clean by (vm_compute; reflexivity). cbn [fst].
      assert (Hid : h_id (slot fA 1) = 2) by (vm_compute; reflexivity). rewrite Hid.
      destruct (big_check (cs fA) Vb idsb fA_wf) as [HB Hsi]; [vm_compute; reflexivity|].
      right; right; left. exists Vb, idsb, 2%nat.
      split; [arith|]. split; [arith|]. split; [arith|]. split; [exact HB|]. split; [exact Hsi|].
      split; [arith|]. split; [arith|]. split.
      { intros j Hj. assert (j = 0 \/ j = 1) as [-> | ->] by lia; arith. }
      split; [arith|unfold LenFits; arith]. }
    split.
    { (* release *)
      intros h E. the_handle E B1. cbn [covered_op2]. split; [clean_flush|]. intros _.
      rewrite flush_clean by (vm_compute; reflexivity). cbn [fst].
      assert (Hid : h_id (slot g1 1) = 2) by (vm_compute; reflexivity). rewrite Hid.
      assert (Hwf : AllStreamsWf (cs g1)) by wf_of (cs g1).
      destruct (big_check (cs g1) V1 ids1 Hwf) as [HB Hsi]; [vm_compute; reflexivity|].
      right; right; right; left. exists V1, ids1. split; [exact HB|]. split; [exact Hsi|].
      split; [arith|]. split; arith. }
    split.
    { (* removal of "/a" *)
      exists 1. eexists. split; [vm_compute; reflexivity|]. split; [vm_compute; reflexivity|].
      split; [left|]; vm_compute; reflexivity. }
    split; [apply all_clean_b_sound; vm_compute; reflexivity|].
    split; [exact I|].
    split.
    { (* growth from the rebuilt free list *)
      intros h E. the_handle E F1. cbn [covered_op2]. split; [clean_flush|]. intros _.
      rewrite flush_clean by (vm_compute; reflexivity). cbn [fst].
      assert (Hid : h_id (slot g5 1) = 2) by (vm_compute; reflexivity). rewrite Hid.
      assert (Hwf : AllStreamsWf (cs g5)) by wf_of (cs g5).
      destruct (big_check (cs g5) V2 ids2 Hwf) as [HB Hsi]; [vm_compute; reflexivity|].
      right; left. exists V2, ids2, [13; 14], [15]. split; [exact HB|]. split; [exact Hsi|].
      split; [arith|]. split; [arith|]. split; [arith|]. split; [arith|unfold LenFits; arith]. }
    split.
    { intros h E. the_handle E G1. cbn [covered_op2]. clean_flush. }
    split; [|exact I].
    { (* the flush of the two buffered bytes *)
      intros h E. the_handle E H1. cbn [covered_op2]. intros _.
      assert (Hid : h_id (slot g7 1) = 2) by (vm_compute; reflexivity).
      assert (Hoff : h_off (slot g7 1) = 0) by (vm_compute; reflexivity).
      assert (Hbuf : buf_filled (h_buf (slot g7 1)) = [5; 5]) by (vm_compute; reflexivity).
      rewrite Hid, Hoff, Hbuf.
      assert (Hwf : AllStreamsWf (cs g7)) by wf_of (cs g7).
      destruct (big_check (cs g7) V6 ids6 Hwf) as [HB Hsi]; [vm_compute; reflexivity|].
      left. split; [|unfold LenFits; arith].
      left. exists V6, ids6. split; [exact HB|]. split; [exact Hsi|].
      split; [arith|]. split; arith. }
  Qed.

  (* the invariant and the round trip after every prefix of the history *)
  Example hist2_persists : forall l1 l2, hist2 = l1 ++ l2 ->
    let f1 := fst (run_ops fA l1) in
    CohTree (cs f1) /\
    forall strict, open_model strict (concat_img (img (cs f1))) = Ok (reopened (cs f1)).
  Proof.
    intros l1 l2 E. apply (persist_data_history2 l1 l2 fA fA_ct). rewrite <- E. exact hist2_ok.
  Qed.

  (* and by evaluation at the end *)
  Definition gEnd : fstate := Eval vm_compute in fst (step g7 0 (OHFlush 1)).
  Example hist2_end : fst (run_ops fA hist2) = gEnd.
  Proof. vm_compute. reflexivity. Qed.
  Example hist2_end_evaluated :
    open_model true (concat_img (img (cs gEnd))) = Ok (reopened (cs gEnd)) /\
    open_model false (concat_img (img (cs gEnd))) = Ok (reopened (cs gEnd)) /\
    cohdata'_b (cs gEnd) = true /\
    snd (api_exists [47; 97] (reopened (cs gEnd))) = Ok false /\
    snd (read_data 2 0 5000 (reopened (cs gEnd))) = Ok (spliceN V6 0 [5; 5]).
  Proof. repeat split; vm_compute; reflexivity. Qed.
End Example4.

(* ---- item 4, the remaining cases, on states built by running the model:
        fH = HandleFrame's file after "/c" (70 bytes) and "/d" (empty) were
        created and "/a" removed: "/b" (slot 2) is large (sectors 4..13), the
        mini free list is [0; 1], the FAT free stack is empty ---- *)
Module Example5.
  Import HandleFrame.Example DataPersist.Example Example1 Example3 Example4.

  Lemma c_small : small_content (cs fH) 3 (repeatN 7 70).
  Proof.
    eexists _, [3], [2; 3]; unfold small_at; splits;
      [ vm_compute; reflexivity | reflexivity | decide_goal | decide_goal | decide_goal
      | unfold good_mchain; splits;
        [ eexists; split; vm_compute; reflexivity
        | unfold good_chain; splits; [repeat constructor; intros []|repeat constructor; decide_goal|decide_goal|decide_goal]
        | repeat constructor; cbn; intuition discriminate
        | repeat constructor; decide_goal ]
      | decide_goal | vm_compute; reflexivity ].
  Qed.
  Lemma c_minis : mini_sectors (cs fH) 3 2.
  Proof. eexists _, [2; 3]; splits; vm_compute; reflexivity. Qed.
  Lemma d_empty : SA.empty_stream (cs fH) 4.
  Proof. eexists. unfold SA.empty_at. splits; vm_compute; reflexivity. Qed.
  Lemma fH_wf : AllStreamsWf (cs fH).
  Proof. apply allwf_b_sound. vm_compute. reflexivity. Qed.
  Lemma b_big : big_content (cs fH) 2 Vb.
  Proof. destruct (big_check (cs fH) Vb idsb fH_wf) as [HB _]; [vm_compute; reflexivity|exact HB]. Qed.

  (* a write that makes "/c" grow from 70 to 170 bytes: one more mini sector *)
  Example write_small_alloc :
    exists s',
      write_data 3 70 (repeatN 9 100) (cs fH) = (s', Ok tt) /\ CohData' s' /\
      (forall strict, open_model strict (concat_img (img s')) = Ok (reopened s')) /\
      small_content (reopened s') 3 (repeatN 7 70 ++ repeatN 9 100) /\ mini_sectors s' 3 3.
  Proof.
    destruct (write_small_alloc_cohdata' (cs fH) 3 (repeatN 7 70) 2 70 (repeatN 9 100) fH_cd' c_small c_minis)
      as (s' & R & C & O & B & _ & K & _); [arith|arith| |unfold RootFits; arith|].
    { apply SA.mini_room_b_sound. vm_compute. reflexivity. }
    exists s'. split; [exact R|]. split; [exact C|]. split; [exact O|]. split.
    - replace (repeatN 7 70 ++ repeatN 9 100) with (spliceN (repeatN 7 70) 70 (repeatN 9 100)) by arith. exact B.
    - replace 3 with (N.max 2 (SA.msectors (70 + lenN (repeatN 9 100 : list byte)))) by arith. exact K.
  Qed.
  Example write_small_alloc_evaluated :
    let s' := fst (write_data 3 70 (repeatN 9 100) (cs fH)) in
    open_model true (concat_img (img s')) = Ok (reopened s') /\
    cohdata'_b s' = true /\ mfree s' = [0] /\
    snd (read_data 3 0 400 (reopened s')) = Ok (repeatN 7 70 ++ repeatN 9 100).
  Proof. repeat split; vm_compute; reflexivity. Qed.

  (* the first write to the empty "/d", 100 bytes *)
  Example write_empty_small :
    exists s',
      write_data 4 0 (repeatN 8 100) (cs fH) = (s', Ok tt) /\ CohData' s' /\
      (forall strict, open_model strict (concat_img (img s')) = Ok (reopened s')) /\
      small_content (reopened s') 4 (repeatN 8 100) /\ mini_sectors s' 4 2.
  Proof.
    destruct (write_empty_small_cohdata' (cs fH) 4 (repeatN 8 100) fH_cd' d_empty)
      as (s' & R & C & O & B & _ & K & _); [arith|arith| |unfold RootFits; arith|].
    { apply SA.mini_room_b_sound. vm_compute. reflexivity. }
    exists s'. split; [exact R|]. split; [exact C|]. split; [exact O|]. split; [exact B|].
    replace 2 with (SA.msectors (lenN (repeatN 8 100 : list byte))) by arith. exact K.
  Qed.
  Example write_empty_small_evaluated :
    let s' := fst (write_data 4 0 (repeatN 8 100) (cs fH)) in
    open_model true (concat_img (img s')) = Ok (reopened s') /\
    cohdata'_b s' = true /\
    snd (read_data 4 0 400 (reopened s')) = Ok (repeatN 8 100).
  Proof. repeat split; vm_compute; reflexivity. Qed.

  (* migration 3b: "/b" from 5000 bytes to 100: its ten sectors go to the free
     stack, the bytes move into two mini sectors of the mini free list *)
  Definition s3b : cstate := Eval vm_compute in fst (resize 2 100 (cs fH)).
  Lemma s3b_run : resize 2 100 (cs fH) = (s3b, Ok tt).
  Proof. vm_compute. reflexivity. Qed.

  Example big_to_small :
    CohData' s3b /\
    (forall strict, open_model strict (concat_img (img s3b)) = Ok (reopened s3b)) /\
    small_content (reopened s3b) 2 (takeN 100 Vb) /\ mini_sectors s3b 2 2 /\
    small_content s3b 3 (repeatN 7 70) /\ SA.empty_stream s3b 4.
  Proof.
    destruct (resize_big_to_small_cohdata' (cs fH) 2 Vb 100 fH_cd' b_big)
      as (s' & R & C & O & B & _ & K & (Hsm & _ & Hem) & _); [arith|arith| |unfold RootFits; arith|].
    { apply SA.mini_room_b_sound. vm_compute. reflexivity. }
    assert (s' = s3b) by (pose proof s3b_run; congruence). subst s'.
    split; [exact C|]. split; [exact O|]. split; [exact B|].
    split; [replace 2 with (SA.msectors 100) at 2 by arith; exact K|].
    split; [apply Hsm; [discriminate|exact c_small]|apply Hem; [discriminate|exact d_empty]].
  Qed.
  Example big_to_small_evaluated :
    open_model true (concat_img (img s3b)) = Ok (reopened s3b) /\
    open_model false (concat_img (img s3b)) = Ok (reopened s3b) /\
    cohdata'_b s3b = true /\ free s3b = [4; 5; 6; 7; 8; 9; 10; 11; 12; 13] /\ mfree s3b = [] /\
    snd (read_data 2 0 400 (reopened s3b)) = Ok (takeN 100 Vb).
  Proof. repeat split; vm_compute; reflexivity. Qed.

  Lemma s3b_cd' : CohData' s3b. Proof. exact (proj1 big_to_small). Qed.
  Lemma s3b_c : small_content s3b 3 (repeatN 7 70). Proof. apply big_to_small. Qed.
  Lemma s3b_d : SA.empty_stream s3b 4. Proof. apply big_to_small. Qed.

  (* migration 2b by resize: "/c" from 70 bytes to 4200: nine sectors popped *)
  Example small_to_big :
    exists s',
      resize 3 4200 s3b = (s', Ok tt) /\ CohData' s' /\
      (forall strict, open_model strict (concat_img (img s')) = Ok (reopened s')) /\
      big_content (reopened s') 3 (repeatN 7 70 ++ repeatN 0 4130).
  Proof.
    destruct (resize_small_to_big_cohdata' s3b 3 (repeatN 7 70) 4200 s3b_cd' s3b_c)
      as (s' & R & C & O & B & _); [arith|arith|unfold LenFits; arith|arith|].
    exists s'. split; [exact R|]. split; [exact C|]. split; [exact O|].
    replace 4130 with (4200 - lenN (repeatN 7 70 : list byte)) by arith. exact B.
  Qed.
  Example small_to_big_evaluated :
    let s' := fst (resize 3 4200 s3b) in
    open_model true (concat_img (img s')) = Ok (reopened s') /\
    cohdata'_b s' = true /\ free s' = [4] /\
    snd (read_data 3 0 5000 (reopened s')) = Ok (repeatN 7 70 ++ repeatN 0 4130) /\
    snd (read_data 2 0 400 (reopened s')) = Ok (takeN 100 Vb).
  Proof. repeat split; vm_compute; reflexivity. Qed.

  (* migration 2b by a write *)
  Example write_small_to_big :
    exists s',
      write_data 3 70 (repeatN 4 4100) s3b = (s', Ok tt) /\ CohData' s' /\
      (forall strict, open_model strict (concat_img (img s')) = Ok (reopened s')) /\
      big_content (reopened s') 3 (repeatN 7 70 ++ repeatN 4 4100).
  Proof.
    destruct (write_small_to_big_cohdata' s3b 3 (repeatN 7 70) 70 (repeatN 4 4100) s3b_cd' s3b_c)
      as (s' & R & C & O & B & _); [arith|arith|arith|arith|].
    exists s'. split; [exact R|]. split; [exact C|]. split; [exact O|].
    replace (repeatN 7 70 ++ repeatN 4 4100) with (spliceN (repeatN 7 70) 70 (repeatN 4 4100)) by arith. exact B.
  Qed.
  Example write_small_to_big_evaluated :
    let s' := fst (write_data 3 70 (repeatN 4 4100) s3b) in
    open_model true (concat_img (img s')) = Ok (reopened s') /\
    cohdata'_b s' = true /\
    snd (read_data 3 0 5000 (reopened s')) = Ok (repeatN 7 70 ++ repeatN 4 4100).
  Proof. repeat split; vm_compute; reflexivity. Qed.

  (* the empty "/d" becomes large at once: by resize and by a write *)
  Example empty_to_big :
    exists s',
      resize 4 4100 s3b = (s', Ok tt) /\ CohData' s' /\
      (forall strict, open_model strict (concat_img (img s')) = Ok (reopened s')) /\
      big_content (reopened s') 4 (repeatN 0 4100) /\ free s' = [4].
  Proof.
    destruct (resize_empty_big_cohdata' s3b 4 4100 [4] [13; 12; 11; 10; 9; 8; 7; 6; 5] s3b_cd' s3b_d)
      as (s' & R & C & O & B & _ & F & _); [arith|arith|unfold LenFits; arith|arith|arith|].
    exists s'. split; [exact R|]. split; [exact C|]. split; [exact O|]. split; [exact B|exact F].
  Qed.
  Example write_empty_big :
    exists s',
      write_data 4 0 (repeatN 3 4100) s3b = (s', Ok tt) /\ CohData' s' /\
      (forall strict, open_model strict (concat_img (img s')) = Ok (reopened s')) /\
      big_content (reopened s') 4 (repeatN 3 4100).
  Proof.
    destruct (write_empty_big_cohdata' s3b 4 (repeatN 3 4100) s3b_cd' s3b_d)
      as (s' & R & C & O & B & _); [arith|arith|arith|].
    exists s'. split; [exact R|]. split; [exact C|]. split; [exact O|exact B].
  Qed.
  Example empty_to_big_evaluated :
    let s' := fst (resize 4 4100 s3b) in
    let s'' := fst (write_data 4 0 (repeatN 3 4100) s3b) in
    open_model true (concat_img (img s')) = Ok (reopened s') /\ cohdata'_b s' = true /\
    snd (read_data 4 0 5000 (reopened s')) = Ok (repeatN 0 4100) /\
    open_model true (concat_img (img s'')) = Ok (reopened s'') /\ cohdata'_b s'' = true /\
    snd (read_data 4 0 5000 (reopened s'')) = Ok (repeatN 3 4100).
  Proof. repeat split; vm_compute; reflexivity. Qed.

  (* a write that makes the large "/b" of Example4's g5 (4200 bytes, nine
     sectors, free stack [13; 14; 15]) grow to 4800 bytes: sector 15 is popped *)
  Example write_big_alloc :
    exists s',
      write_data 2 4200 (repeatN 6 600) (cs g5) = (s', Ok tt) /\ CohData' s' /\
      (forall strict, open_model strict (concat_img (img s')) = Ok (reopened s')) /\
      big_content (reopened s') 2 (V2 ++ repeatN 6 600).
  Proof.
    assert (Hcd : CohData' (cs g5)) by (apply cohdata'_b_sound; vm_compute; reflexivity).
    assert (Hwf : AllStreamsWf (cs g5)) by (apply allwf_b_sound; vm_compute; reflexivity).
    destruct (big_check (cs g5) V2 ids2 Hwf) as [HB Hsi]; [vm_compute; reflexivity|].
    destruct (write_big_alloc_cohdata' (cs g5) 2 V2 ids2 4200 (repeatN 6 600) Hcd HB Hsi)
      as (s' & R & C & O & B & _); [arith|arith|arith|].
    exists s'. split; [exact R|]. split; [exact C|]. split; [exact O|].
    replace (V2 ++ repeatN 6 600) with (spliceN V2 4200 (repeatN 6 600)) by arith. exact B.
  Qed.
  Example write_big_alloc_evaluated :
    let s' := fst (write_data 2 4200 (repeatN 6 600) (cs g5)) in
    open_model true (concat_img (img s')) = Ok (reopened s') /\
    cohdata'_b s' = true /\ free s' = [13; 14] /\
    snd (read_data 2 0 6000 (reopened s')) = Ok (V2 ++ repeatN 6 600).
  Proof. repeat split; vm_compute; reflexivity. Qed.

  (* truncation to zero of the large "/b" and of the small "/c" *)
  Example big_to_zero :
    exists s',
      resize 2 0 (cs fH) = (s', Ok tt) /\ CohData' s' /\
      (forall strict, open_model strict (concat_img (img s')) = Ok (reopened s')) /\
      SA.empty_stream (reopened s') 2 /\ free s' = idsb.
  Proof.
    destruct (big_check (cs fH) Vb idsb fH_wf) as [HB Hsi]; [vm_compute; reflexivity|].
    destruct (resize_big_to_zero_cohdata' (cs fH) 2 Vb idsb fH_cd' HB Hsi) as (s' & R & C & O & E & _ & F & _).
    exists s'. split; [exact R|]. split; [exact C|]. split; [exact O|]. split; [exact E|].
    rewrite F. arith.
  Qed.
  Example small_to_zero :
    exists s',
      resize 3 0 (cs fH) = (s', Ok tt) /\ CohData' s' /\
      (forall strict, open_model strict (concat_img (img s')) = Ok (reopened s')) /\
      SA.empty_stream (reopened s') 3 /\ big_content s' 2 Vb.
  Proof.
    destruct (resize_small_to_zero_cohdata' (cs fH) 3 (repeatN 7 70) fH_cd' c_small)
      as (s' & R & C & O & E & _ & _ & _ & _ & (_ & Hbg & _) & _).
    exists s'. split; [exact R|]. split; [exact C|]. split; [exact O|]. split; [exact E|].
    apply Hbg; [discriminate|exact b_big].
  Qed.
  Example to_zero_evaluated :
    let s' := fst (resize 2 0 (cs fH)) in
    let s'' := fst (resize 3 0 (cs fH)) in
    open_model true (concat_img (img s')) = Ok (reopened s') /\ cohdata'_b s' = true /\
    snd (read_data 2 0 100 (reopened s')) = Ok [] /\
    open_model true (concat_img (img s'')) = Ok (reopened s'') /\ cohdata'_b s'' = true /\
    minifat s'' = [] /\ snd (read_data 3 0 100 (reopened s'')) = Ok [].
  Proof. repeat split; vm_compute; reflexivity. Qed.
End Example5.

(* ---- item 5 again: a history through the handles that goes through the two
        migrations, the first write to an empty stream, and a reopen ---- *)
Module Example6.
  Import HandleFrame.Example DataPersist.Example Example1 Example3 Example4 Example5.

  Definition hist3 : list (N * op) :=
    [(0, OHSetLen 1 100); (0, OHSetLen 2 4200); (0, OHWrite 3 (repeatN 8 100)); (0, OHFlush 3);
     (0, OReopen true)].

  Definition k1 : fstate := Eval vm_compute in fst (step fH 0 (OHSetLen 1 100)).
  Definition k2 : fstate := Eval vm_compute in fst (step k1 0 (OHSetLen 2 4200)).
  Definition k3 : fstate := Eval vm_compute in fst (step k2 0 (OHWrite 3 (repeatN 8 100))).
  Definition k4 : fstate := Eval vm_compute in fst (step k3 0 (OHFlush 3)).

  Example hist3_results :
    snd (run_ops fH hist3) = [Ok VUnit; Ok VUnit; Ok (VNum 100); Ok VUnit; Ok VUnit].
  Proof. vm_compute. reflexivity. Qed.

  Import QueryRefine MutRefine Cfb.spec.Tree.

  Definition tree_fH : node :=
    Dir (meta_of (ent_at (dirs (cs fH)) 0))
      [([98], Leaf 0 (repeatN 0 5000)); ([99], Leaf 0 (repeatN 0 70)); ([100], Leaf 0 (repeatN 0 0))].

  Example fH_tree : TreeInv (dirs (cs fH)).
  Proof.
    exists tree_fH. split.
    - unfold TreeRep, tree_fH. apply NodeRep_dir. split; [reflexivity|].
      exists (ent_at (dirs (cs fH)) 0). split; [reflexivity|]. split; [reflexivity|].
      split; [reflexivity|]. split; [reflexivity|]. split; [discriminate|].
      exists (BN BL 2 (BN BL 3 (BN BL 4 BL))). split.
      { cbn [Rep]. split; [reflexivity|]. split; [discriminate|].
        exists (ent_at (dirs (cs fH)) 2). split; [reflexivity|]. split; [reflexivity|].
        split; [reflexivity|]. split; [discriminate|].
        exists (ent_at (dirs (cs fH)) 3). split; [reflexivity|]. split; [reflexivity|].
        split; [reflexivity|]. split; [discriminate|].
        exists (ent_at (dirs (cs fH)) 4). split; [reflexivity|]. split; reflexivity. }
      split.
      { cbn [bst ids app In]. repeat split; intros j Hj; in_cases Hj; vm_compute; reflexivity. }
      split.
      { cbn [ids app]. repeat constructor; cbn [In]; intuition discriminate. }
      cbn [ids app]. constructor; [|constructor; [|constructor; [|constructor]]].
      + unfold KidRep. cbn [fst snd]. apply NodeRep_leaf. split; [reflexivity|].
        exists (ent_at (dirs (cs fH)) 2). split; [reflexivity|].
        repeat (split; [first [exact I | vm_compute; reflexivity]|]). reflexivity.
      + unfold KidRep. cbn [fst snd]. apply NodeRep_leaf. split; [reflexivity|].
        exists (ent_at (dirs (cs fH)) 3). split; [reflexivity|].
        repeat (split; [first [exact I | vm_compute; reflexivity]|]). reflexivity.
      + unfold KidRep. cbn [fst snd]. apply NodeRep_leaf. split; [reflexivity|].
        exists (ent_at (dirs (cs fH)) 4). split; [reflexivity|].
        repeat (split; [first [exact I | vm_compute; reflexivity]|]). reflexivity.
    - exists [0; 2; 3; 4]. split.
      + unfold tree_fH. cbn [AllIds].
        exists (ent_at (dirs (cs fH)) 0), (BN BL 2 (BN BL 3 (BN BL 4 BL))). split; [reflexivity|]. split.
        { cbn [Rep]. split; [reflexivity|]. split; [discriminate|].
          exists (ent_at (dirs (cs fH)) 2). split; [reflexivity|]. split; [reflexivity|].
          split; [reflexivity|]. split; [discriminate|].
          exists (ent_at (dirs (cs fH)) 3). split; [reflexivity|]. split; [reflexivity|].
          split; [reflexivity|]. split; [discriminate|].
          exists (ent_at (dirs (cs fH)) 4). split; [reflexivity|]. split; reflexivity. }
        exists [[2]; [3]; [4]]. split; [|reflexivity]. cbn [ids app].
        split; [split; vm_compute; reflexivity|]. split; [split; vm_compute; reflexivity|].
        split; [split; vm_compute; reflexivity|exact I].
      + repeat constructor; cbn [In]; intuition discriminate.
  Qed.

  Example fH_ct : CohTree (cs fH).
  Proof.
    split; [exact fH_cd'|]. apply treepart_check; [vm_compute; reflexivity|vm_compute; reflexivity|exact fH_tree].
  Qed.

  (* the empty "/d" is removed *)
  Example remove_empty :
    let s' := fst (api_remove_stream [47; 100] (cs fH)) in
    CohTree s' /\ (forall strict, open_model strict (concat_img (img s')) = Ok (reopened s')) /\
    snd (api_exists [47; 100] (reopened s')) = Ok false /\
    snd (read_data 3 0 100 (reopened s')) = Ok (repeatN 7 70).
  Proof.
    cbv zeta.
    assert (R : api_remove_stream [47; 100] (cs fH) = (fst (api_remove_stream [47; 100] (cs fH)), Ok tt)).
    { vm_compute. reflexivity. }
    destruct d_empty as (e & He).
    destruct (remove_empty_stream_cohtree [47; 100] (cs fH) _ 4 e fH_ct R ltac:(vm_compute; reflexivity) He)
      as (C & O & _).
    split; [exact C|]. split; [exact O|]. split; vm_compute; reflexivity.
  Qed.

  Example hist3_ok : hist_ok2 fH hist3.
  Proof.
    assert (A1 : nthN (hs fH) 1 = Some (Some (slot fH 1))) by (vm_compute; reflexivity).
    assert (B2 : nthN (hs k1) 2 = Some (Some (slot k1 2))) by (vm_compute; reflexivity).
    assert (C3 : nthN (hs k2) 3 = Some (Some (slot k2 3))) by (vm_compute; reflexivity).
    assert (D3 : nthN (hs k3) 3 = Some (Some (slot k3 3))) by (vm_compute; reflexivity).
    unfold hist3. cbn [hist_ok2].
    change (fst (step fH 0 (OHSetLen 1 100))) with k1.
    change (fst (step k1 0 (OHSetLen 2 4200))) with k2.
    change (fst (step k2 0 (OHWrite 3 (repeatN 8 100)))) with k3.
    change (fst (step k3 0 (OHFlush 3))) with k4.
    unfold step_ok2. cbn [handle_slot query_op].
    split.
    { (* 3b *)
      intros h E. the_handle E A1. cbn [covered_op2]. split; [clean_flush|]. intros _.
      rewrite flush_clean by (vm_compute; reflexivity). cbn [fst].
      assert (Hid : h_id (slot fH 1) = 2) by (vm_compute; reflexivity). rewrite Hid.
      do 8 right. left. exists Vb. split; [exact b_big|]. split; [arith|]. split; [arith|].
      split; [apply SA.mini_room_b_sound; vm_compute; reflexivity|unfold RootFits; arith]. }
    split.
    { (* 2b *)
      intros h E. the_handle E B2. cbn [covered_op2]. split; [clean_flush|]. intros _.
      rewrite flush_clean by (vm_compute; reflexivity). cbn [fst].
      assert (Hid : h_id (slot k1 2) = 3) by (vm_compute; reflexivity). rewrite Hid.
      assert (Ecs : cs k1 = s3b) by (vm_compute; reflexivity). rewrite Ecs.
      do 7 right. left. exists (repeatN 7 70). split; [exact s3b_c|]. split; [arith|]. split; [arith|].
      split; [unfold LenFits; arith|arith]. }
    split.
    { intros h E. the_handle E C3. cbn [covered_op2]. clean_flush. }
    split.
    { (* the first write to "/d" reaches the file *)
      intros h E. the_handle E D3. cbn [covered_op2]. intros _.
      assert (Hid : h_id (slot k3 3) = 4) by (vm_compute; reflexivity).
      assert (Hoff : h_off (slot k3 3) = 0) by (vm_compute; reflexivity).
      assert (Hbuf : buf_filled (h_buf (slot k3 3)) = repeatN 8 100) by (vm_compute; reflexivity).
      rewrite Hid, Hoff, Hbuf.
      right; right; left.
      split; [eexists; unfold SA.empty_at; splits; vm_compute; reflexivity|].
      split; [reflexivity|]. split; [arith|]. split; [arith|].
      split; [apply SA.mini_room_b_sound; vm_compute; reflexivity|unfold RootFits; arith]. }
    split; [apply all_clean_b_sound; vm_compute; reflexivity|exact I].
  Qed.

  Example hist3_persists : forall l1 l2, hist3 = l1 ++ l2 ->
    let f1 := fst (run_ops fH l1) in
    CohTree (cs f1) /\
    forall strict, open_model strict (concat_img (img (cs f1))) = Ok (reopened (cs f1)).
  Proof.
    intros l1 l2 E. apply (persist_data_history2 l1 l2 fH fH_ct). rewrite <- E. exact hist3_ok.
  Qed.

  Definition kEnd : fstate := Eval vm_compute in fst (step k4 0 (OReopen true)).
  Example hist3_end : fst (run_ops fH hist3) = kEnd.
  Proof. vm_compute. reflexivity. Qed.
  Example hist3_end_evaluated :
    open_model true (concat_img (img (cs kEnd))) = Ok (reopened (cs kEnd)) /\
    open_model false (concat_img (img (cs kEnd))) = Ok (reopened (cs kEnd)) /\
    cohdata'_b (cs kEnd) = true /\
    snd (read_data 2 0 400 (reopened (cs kEnd))) = Ok (takeN 100 Vb) /\
    snd (read_data 3 0 5000 (reopened (cs kEnd))) = Ok (repeatN 7 70 ++ repeatN 0 4130) /\
    snd (read_data 4 0 400 (reopened (cs kEnd))) = Ok (repeatN 8 100).
  Proof. repeat split; vm_compute; reflexivity. Qed.
End Example6.

(* ---- why [RootFits]: the root entry records the size of the mini stream in
        the same 64-bit field that a version-3 reader masks to 32 bits;
        append_mini_sector adds 64 to it without any bound.  A version-3 file
        whose mini stream reached 4 GiB would reopen with a truncated root
        length: strict validation rejects it, permissive validation cuts the
        MiniFAT (data loss) ---- *)
Example root_fits_needed :
  let r := set_start_len (dirent_new ROOT_DIR_NAME TRoot 0) 3 (4294967296 + 128) in
  (exists r', dirent_decode V3 true (dirent_encode r) = Ok r' /\ d_len r' = 128) /\
  (exists r', dirent_decode V4 true (dirent_encode r) = Ok r' /\ d_len r' = 4294967296 + 128) /\
  mini_validate true 128 [1; END_OF_CHAIN; END_OF_CHAIN] = Err EInvalidData /\
  mini_validate false 128 [1; END_OF_CHAIN; END_OF_CHAIN] = Ok ([1; END_OF_CHAIN], []).
Proof. split; [|split; [|split]]; try (eexists; split); vm_compute; reflexivity. Qed.

Check SD_allwf.
Check CohData'_CohData.
Check big_finish_cohdata'.
Check resize_big_same_cohdata'.
Check resize_big_reuse_cohdata'.
Check resize_big_append_cohdata'.
Check resize_big_release_cohdata'.
Check free_chain_go_FR.
Check remove_big_stream_cohtree.
Check free_mini_sector_coh.
Check free_mini_chain_go_coh.
Check remove_small_stream_cohtree.
Check alloc_mini_coh.
Check mchain_grow_coh.
Check resize_small_alloc_cohdata'.
Check resize_empty_small_cohdata'.
Check coherent_reopened.
Check cohdata'_reopened.
Check cohtree_reopened.
Check write_big_cohdata'.
Check write_small_cohdata'.
Check covered_write_cohtree.
Check resize_case_cohtree.
Check hop_run_cohtree.
Check step_cohtree.
Check history_cohtree.
Check persist_data_history2.
Check cohdata'_b_sound.
Check mchain_write_all_coh.
Check write_small_alloc_cohdata'.
Check write_empty_small_cohdata'.
Check grow_ready_from.
Check write_all_ready.
Check big_finish_X.
Check small_finish_X.
Check free_whole_cohX.
Check free_small_ready.
Check resize_empty_big_cohdata'.
Check write_empty_big_cohdata'.
Check resize_small_to_big_cohdata'.
Check write_small_to_big_cohdata'.
Check resize_big_to_small_cohdata'.
Check write_big_alloc_cohdata'.
Check write_case_cohtree.
Check resize_big_to_zero_cohdata'.
Check resize_small_to_zero_cohdata'.
Check remove_empty_stream_cohtree.
Print Assumptions resize_big_same_cohdata'.
Print Assumptions resize_big_reuse_cohdata'.
Print Assumptions resize_big_append_cohdata'.
Print Assumptions resize_big_release_cohdata'.
Print Assumptions remove_big_stream_cohtree.
Print Assumptions remove_small_stream_cohtree.
Print Assumptions resize_small_alloc_cohdata'.
Print Assumptions resize_empty_small_cohdata'.
Print Assumptions cohtree_reopened.
Print Assumptions covered_write_cohtree.
Print Assumptions resize_case_cohtree.
Print Assumptions step_cohtree.
Print Assumptions persist_data_history2.
Print Assumptions cohdata'_b_sound.
Print Assumptions Example1.grow_shrink_history.
Print Assumptions Example1.append_growth'.
Print Assumptions Example1.release_shrink.
Print Assumptions Example1.remove_big.
Print Assumptions Example2.remove_small.
Print Assumptions Example3.small_growth_append.
Print Assumptions Example3.small_growth_reuse.
Print Assumptions Example3.empty_to_small.
Print Assumptions Example4.hist2_persists.
Print Assumptions root_fits_needed.
Print Assumptions write_small_alloc_cohdata'.
Print Assumptions write_empty_small_cohdata'.
Print Assumptions resize_empty_big_cohdata'.
Print Assumptions write_empty_big_cohdata'.
Print Assumptions resize_small_to_big_cohdata'.
Print Assumptions write_small_to_big_cohdata'.
Print Assumptions resize_big_to_small_cohdata'.
Print Assumptions write_big_alloc_cohdata'.
Print Assumptions write_case_cohtree.
Print Assumptions Example5.big_to_small.
Print Assumptions Example5.small_to_big.
Print Assumptions Example6.hist3_persists.
Print Assumptions Example6.hist3_end_evaluated.
Print Assumptions resize_big_to_zero_cohdata'.
Print Assumptions resize_small_to_zero_cohdata'.
Print Assumptions remove_empty_stream_cohtree.
