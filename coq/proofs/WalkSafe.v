(* WalkSafe.v — the invariant behind C11 on DAMAGED files.

   A permissively opened FAT is only known to pass check_pointees; after the
   first mutation not even injectivity survives (a cell may point at a FREE
   cell that is then reused as the tail of another chain).  What does survive
   is WalkSafe: from every start, following the checked successor either
   stops (marker, out of range, non-regular value) or comes back to the start
   (where Chain::new's "came back to the first sector" test stops it).
   Equivalently: no edge enters a cycle from outside.

   Part A: pure tables.  Part B: state monad, Alloc.v.  Part C: free_chain
   terminates for any table.  Part D: MiniFAT table lemmas. *)
From Coq Require Import List NArith Bool Lia ZifyN ZifyBool Arith.
From Cfb.model Require Import Base Names DirEnt State Alloc Dir Mini Open.
From Cfb.gen Require Import Consts.
From Cfb.proofs Require Import WalkProofs OpenTotal.
Import ListNotations.
Open Scope N_scope.

(* ================================================================== *)
(* Part A — pure tables                                                *)
(* ================================================================== *)

Lemma MAXREG_lt_FAT : MAX_REGULAR_SECTOR < FAT_SECTOR. Proof. vm_compute. reflexivity. Qed.
Lemma MAXREG_lt_DIFAT : MAX_REGULAR_SECTOR < DIFAT_SECTOR. Proof. vm_compute. reflexivity. Qed.
Lemma EOC_ne_FREE : END_OF_CHAIN <> FREE_SECTOR. Proof. vm_compute. discriminate. Qed.

Definition marker (v : N) : Prop := MAX_REGULAR_SECTOR < v.

Lemma marker_EOC : marker END_OF_CHAIN. Proof. exact MAXREG_lt_EOC. Qed.
Lemma marker_FREE : marker FREE_SECTOR. Proof. exact MAXREG_lt_FREE. Qed.
Lemma marker_FAT : marker FAT_SECTOR. Proof. exact MAXREG_lt_FAT. Qed.
Lemma marker_DIFAT : marker DIFAT_SECTOR. Proof. exact MAXREG_lt_DIFAT. Qed.

(* ---- list facts ---- *)
Lemma nthN_updN {A} (l : list A) : forall i v c,
  nthN (updN l i v) c = if (c =? i) && (i <? lenN l) then Some v else nthN l c.
Proof.
  induction l as [|x t IH]; intros i v c.
  - cbn [updN nthN lenN]. destruct (N.ltb_spec i 0); [lia|]. rewrite andb_false_r. reflexivity.
  - cbn [updN nthN lenN]. destruct (N.eqb_spec i 0) as [->|Hi].
    + cbn [nthN]. destruct (N.eqb_spec c 0) as [->|Hc].
      * destruct (N.ltb_spec 0 (N.succ (lenN t))); [reflexivity|lia].
      * reflexivity.
    + cbn [nthN]. rewrite IH.
      destruct (N.eqb_spec c 0) as [->|Hc].
      * destruct (N.eqb_spec 0 i); [lia|reflexivity].
      * destruct (N.eqb_spec (N.pred c) (N.pred i)); destruct (N.eqb_spec c i); try lia;
        destruct (N.ltb_spec (N.pred i) (lenN t)); destruct (N.ltb_spec i (N.succ (lenN t)));
        try lia; reflexivity.
Qed.

Lemma nthN_updN_ne {A} (l : list A) i v c : c <> i -> nthN (updN l i v) c = nthN l c.
Proof. intros H. rewrite nthN_updN. destruct (N.eqb_spec c i); [contradiction|reflexivity]. Qed.

Lemma nthN_updN_eq {A} (l : list A) i v : i < lenN l -> nthN (updN l i v) i = Some v.
Proof.
  intros H. rewrite nthN_updN, N.eqb_refl. destruct (N.ltb_spec i (lenN l)); [reflexivity|lia].
Qed.

Lemma nthN_app {A} (l l' : list A) c :
  nthN (l ++ l') c = if c <? lenN l then nthN l c else nthN l' (c - lenN l).
Proof.
  revert c. induction l as [|x t IH]; intros c.
  - cbn [app lenN]. destruct (N.ltb_spec c 0); [lia|]. f_equal. lia.
  - cbn [app nthN lenN]. destruct (N.eqb_spec c 0) as [->|Hc].
    + destruct (N.ltb_spec 0 (N.succ (lenN t))); [reflexivity|lia].
    + rewrite IH. destruct (N.ltb_spec (N.pred c) (lenN t)); destruct (N.ltb_spec c (N.succ (lenN t)));
        try lia; [reflexivity|]. f_equal. lia.
Qed.

Lemma nthN_app_l {A} (l l' : list A) c : c < lenN l -> nthN (l ++ l') c = nthN l c.
Proof. intros H. rewrite nthN_app. destruct (N.ltb_spec c (lenN l)); [reflexivity|lia]. Qed.

Lemma nthN_snoc_len {A} (l : list A) v : nthN (l ++ [v]) (lenN l) = Some v.
Proof.
  rewrite nthN_app. destruct (N.ltb_spec (lenN l) (lenN l)); [lia|].
  rewrite N.sub_diag. reflexivity.
Qed.

Lemma nthN_ge_None {A} (l : list A) c : lenN l <= c -> nthN l c = None.
Proof.
  intros H. destruct (nthN l c) eqn:E; [|reflexivity]. apply nthN_Some_lt in E. lia.
Qed.

Lemma lenN_snoc {A} (l : list A) v : lenN (l ++ [v]) = lenN l + 1.
Proof. rewrite lenN_app. reflexivity. Qed.

(* ---- the successor relation of the walk ---- *)
Definition sc (fat : list N) (c : N) : option N :=
  if c =? END_OF_CHAIN then None else
  match nthN fat c with
  | Some j => if (j <=? MAX_REGULAR_SECTOR) && (j <? lenN fat) then Some j else None
  | None => None
  end.

Lemma sc_Some fat c j :
  sc fat c = Some j <->
  c <> END_OF_CHAIN /\ nthN fat c = Some j /\ j <= MAX_REGULAR_SECTOR /\ j < lenN fat.
Proof.
  unfold sc. destruct (N.eqb_spec c END_OF_CHAIN) as [He|He].
  - split; [discriminate|intros [H _]; contradiction].
  - destruct (nthN fat c) as [x|]; [|split; [discriminate|intros (_ & H & _); discriminate]].
    destruct (N.leb_spec x MAX_REGULAR_SECTOR); destruct (N.ltb_spec x (lenN fat)); cbn [andb];
      (split; [intros [= <-]; auto; try discriminate | intros (_ & [= <-] & H1 & H2); try reflexivity; lia]).
Qed.

Lemma sc_None fat c :
  sc fat c = None <->
  c = END_OF_CHAIN \/ nthN fat c = None \/
  exists j, nthN fat c = Some j /\ (MAX_REGULAR_SECTOR < j \/ lenN fat <= j).
Proof.
  unfold sc. destruct (N.eqb_spec c END_OF_CHAIN) as [He|He]; [split; auto|].
  destruct (nthN fat c) as [x|].
  - destruct (N.leb_spec x MAX_REGULAR_SECTOR) as [Hr|Hr]; destruct (N.ltb_spec x (lenN fat)) as [Hl|Hl]; cbn [andb].
    + split; [discriminate|]. intros [H|[H|(j & [= <-] & H)]]; [contradiction|discriminate|lia].
    + split; [|reflexivity]. intros _. right; right. exists x. auto.
    + split; [|reflexivity]. intros _. right; right. exists x. auto.
    + split; [|reflexivity]. intros _. right; right. exists x. auto.
  - split; auto.
Qed.

Lemma sc_target_lt fat c j : sc fat c = Some j -> j < lenN fat.
Proof. intros H. apply sc_Some in H. tauto. Qed.

Lemma sc_source_lt fat c j : sc fat c = Some j -> c < lenN fat.
Proof. intros H. apply sc_Some in H. destruct H as (_ & H & _). eapply nthN_Some_lt; eauto. Qed.

(* sc mirrors next_of *)
Lemma sc_next_of fat c j : sc fat c = Some j -> next_of fat c = Ok j /\ j <> END_OF_CHAIN.
Proof.
  intros H. apply sc_Some in H. destruct H as (_ & Hn & Hr & Hl). split.
  - apply next_of_Ok. auto.
  - pose proof MAXREG_lt_EOC. lia.
Qed.

Lemma next_of_sc fat c nx : next_of fat c = Ok nx -> c <> END_OF_CHAIN -> nx <> END_OF_CHAIN ->
  sc fat c = Some nx.
Proof.
  intros H Hc Hx. apply next_of_Ok in H. destruct H as [Hn [?|[Hr Hl]]]; [contradiction|].
  apply sc_Some. auto.
Qed.

Lemma sc_None_next_of fat c nx : sc fat c = None -> c <> END_OF_CHAIN -> next_of fat c = Ok nx ->
  nx = END_OF_CHAIN.
Proof.
  intros Hs Hc Hn. destruct (N.eq_dec nx END_OF_CHAIN) as [|Hx]; [assumption|].
  rewrite (next_of_sc _ _ _ Hn Hc Hx) in Hs. discriminate.
Qed.

(* ---- the invariant ---- *)
(* [stops fat s c]: the walk of Chain::new started at [s], currently at [c],
   stops: it reaches a cell without successor or comes back to [s]. *)
Inductive stops (fat : list N) (s : N) : N -> Prop :=
| stops_none c : sc fat c = None -> stops fat s c
| stops_back c : sc fat c = Some s -> stops fat s c
| stops_step c d : sc fat c = Some d -> d <> s -> stops fat s d -> stops fat s c.

Definition WalkSafe (fat : list N) : Prop := forall s, stops fat s s.

(* the same with the list of visited cells *)
Inductive trace (fat : list N) (s : N) : N -> list N -> Prop :=
| trace_none c : sc fat c = None -> trace fat s c [c]
| trace_back c : sc fat c = Some s -> trace fat s c [c]
| trace_step c d l : sc fat c = Some d -> d <> s -> trace fat s d l -> trace fat s c (c :: l).

Lemma stops_trace fat s c : stops fat s c <-> exists l, trace fat s c l.
Proof.
  split.
  - induction 1 as [c H|c H|c d H Hd _ [l IH]].
    + exists [c]. constructor; assumption.
    + exists [c]. apply trace_back; assumption.
    + exists (c :: l). eapply trace_step; eauto.
  - intros [l H]. induction H.
    + apply stops_none; assumption.
    + apply stops_back; assumption.
    + eapply stops_step; eauto.
Qed.

Lemma trace_det fat s c l1 : trace fat s c l1 -> forall l2, trace fat s c l2 -> l1 = l2.
Proof.
  induction 1 as [c H|c H|c d l H Hd Ht IH]; intros l2 H2; inversion H2; subst; try congruence.
  assert (d0 = d) by congruence. subst d0. f_equal. apply IH. assumption.
Qed.

Lemma trace_suffix fat s c l : trace fat s c l ->
  forall x, In x l -> exists l', trace fat s x l' /\ (length l' <= length l)%nat.
Proof.
  induction 1 as [c H|c H|c d l H Hd Ht IH]; intros x Hx.
  - destruct Hx as [<-|[]]. exists [c]. split; [constructor; assumption|cbn; lia].
  - destruct Hx as [<-|[]]. exists [c]. split; [apply trace_back; assumption|cbn; lia].
  - destruct Hx as [<-|Hx].
    + exists (c :: l). split; [eapply trace_step; eauto|lia].
    + destruct (IH x Hx) as (l' & Hl' & Hlen). exists l'. split; [assumption|cbn; lia].
Qed.

Lemma trace_nodup fat s c l : trace fat s c l -> NoDup l.
Proof.
  induction 1 as [c H|c H|c d l H Hd Ht IH].
  - constructor; [intros []|constructor].
  - constructor; [intros []|constructor].
  - constructor; [|assumption]. intros Hin.
    destruct (trace_suffix _ _ _ _ Ht c Hin) as (l' & Hl' & Hlen).
    assert (E : l' = c :: l) by (eapply trace_det; [exact Hl'|eapply trace_step; eauto]).
    subst l'. cbn in Hlen. lia.
Qed.

Lemma trace_shape fat s c l : trace fat s c l ->
  exists t, l = c :: t /\ Forall (fun x => x < lenN fat) t.
Proof.
  induction 1 as [c H|c H|c d l H Hd Ht (t & -> & IH)].
  - exists []. auto.
  - exists []. auto.
  - exists (d :: t). split; [reflexivity|]. constructor; [|assumption]. eapply sc_target_lt; eauto.
Qed.

Lemma trace_length fat s c l : trace fat s c l -> (length l <= S (length fat))%nat.
Proof.
  intros H. pose proof (trace_nodup _ _ _ _ H) as Hnd.
  destruct (trace_shape _ _ _ _ H) as (t & -> & Hall).
  inversion Hnd; subst.
  pose proof (bounded_nodup_length t (lenN fat) ltac:(assumption) Hall) as Hb.
  rewrite lenN_length, Nat2N.id in Hb. cbn [length]. lia.
Qed.

(* a stopping walk is accepted or refused by Chain::new, with one unit of fuel
   more than the number of cells visited *)
Lemma go_of_trace fat s c l : trace fat s c l ->
  forall f acc, (length l < f)%nat -> fine (chain_ids_go f fat s c acc).
Proof.
  induction 1 as [c H|c H|c d l H Hd Ht IH]; intros f acc Hf.
  - destruct f as [|f]; [lia|]. rewrite chain_ids_go_S.
    destruct (N.eqb_spec c END_OF_CHAIN) as [Hc|Hc]; [exact I|].
    apply fine_rbind; [apply next_of_fine|]. intros nx Hn.
    pose proof (sc_None_next_of _ _ _ H Hc Hn) as ->.
    destruct (END_OF_CHAIN =? s); [exact I|].
    destruct f as [|f]; [cbn in Hf; lia|]. rewrite chain_ids_go_S, N.eqb_refl. exact I.
  - destruct f as [|f]; [lia|]. rewrite chain_ids_go_S.
    destruct (N.eqb_spec c END_OF_CHAIN) as [Hc|Hc]; [exact I|].
    apply sc_next_of in H. destruct H as [H _]. rewrite H. cbn [rbind].
    rewrite N.eqb_refl. exact I.
  - destruct f as [|f]; [lia|]. rewrite chain_ids_go_S.
    destruct (N.eqb_spec c END_OF_CHAIN) as [Hc|Hc]; [exact I|].
    apply sc_next_of in H. destruct H as [H _]. rewrite H. cbn [rbind].
    destruct (N.eqb_spec d s); [contradiction|]. apply IH. cbn [length] in Hf. lia.
Qed.

(* conversely a walk that does not run out of fuel stops *)
Lemma go_stops fat s : forall f c acc, chain_ids_go f fat s c acc <> OutOfFuel -> stops fat s c.
Proof.
  induction f as [|f IH]; intros c acc H; [exfalso; apply H; reflexivity|].
  rewrite chain_ids_go_S in H.
  destruct (N.eqb_spec c END_OF_CHAIN) as [Hc|Hc].
  { apply stops_none. unfold sc. subst c. rewrite N.eqb_refl. reflexivity. }
  destruct (sc fat c) as [d|] eqn:E; [|apply stops_none; assumption].
  destruct (N.eq_dec d s) as [->|Hd]; [apply stops_back; assumption|].
  apply stops_step with d; [assumption|assumption|].
  apply sc_next_of in E. destruct E as [E _]. rewrite E in H. cbn [rbind] in H.
  destruct (N.eqb_spec d s); [contradiction|]. eapply IH; eauto.
Qed.

(* Deliverable 2 *)
Theorem walksafe_walk_fine fat : WalkSafe fat -> forall start, fine (chain_ids_of fat start).
Proof.
  intros H start. destruct (proj1 (stops_trace _ _ _) (H start)) as [l Hl].
  apply (go_of_trace _ _ _ _ Hl). pose proof (trace_length _ _ _ _ Hl). lia.
Qed.

Theorem walksafe_walk_total fat : WalkSafe fat ->
  forall start, chain_ids_of fat start <> OutOfFuel /\ (forall p, chain_ids_of fat start <> Panic p).
Proof. intros H start. apply fine_iff. apply walksafe_walk_fine. assumption. Qed.

(* the structural definition is exactly the semantic one *)
Theorem walksafe_iff_terminates fat :
  WalkSafe fat <-> forall start, chain_ids_of fat start <> OutOfFuel.
Proof.
  split.
  - intros H start. apply (walksafe_walk_total fat H start).
  - intros H s. eapply go_stops. apply (H s).
Qed.

(* Deliverable 1 *)
Theorem walksafe_of_injective b fat :
  check_pointees b fat (lenN fat) [] = Ok tt -> WalkSafe fat.
Proof.
  intros H. apply walksafe_iff_terminates. intros start.
  apply (chain_ids_total b fat H start).
Qed.

(* ---- preservation: one generic argument ---- *)
(* [short fat c]: the walk from c dies within two steps *)
Definition short (fat : list N) (c : N) : Prop :=
  sc fat c = None \/ exists e, sc fat c = Some e /\ sc fat e = None.

Lemma short_stops fat s c : short fat c -> stops fat s c.
Proof.
  intros [H|(e & He & Hn)]; [apply stops_none; assumption|].
  destruct (N.eq_dec e s) as [->|Hes]; [apply stops_back; assumption|].
  eapply stops_step; eauto. apply stops_none; assumption.
Qed.

Lemma stops_transfer fat fat' :
  (forall c, short fat' c \/ sc fat' c = sc fat c) ->
  forall s c, stops fat s c -> stops fat' s c.
Proof.
  intros Hc s c H. induction H as [c H|c H|c d H Hd _ IH].
  - destruct (Hc c) as [Hs|He]; [apply short_stops; assumption|].
    apply stops_none. congruence.
  - destruct (Hc c) as [Hs|He]; [apply short_stops; assumption|].
    apply stops_back. congruence.
  - destruct (Hc c) as [Hs|He]; [apply short_stops; assumption|].
    apply stops_step with d; [congruence|assumption|assumption].
Qed.

Lemma walksafe_transfer fat fat' :
  (forall c, short fat' c \/ sc fat' c = sc fat c) -> WalkSafe fat -> WalkSafe fat'.
Proof. intros Hc H s. eapply stops_transfer; eauto. Qed.

Lemma sc_marker_None fat c v : nthN fat c = Some v -> marker v -> sc fat c = None.
Proof. intros H Hv. apply sc_None. right; right. exists v. unfold marker in Hv. auto. Qed.

(* Deliverable 3 *)
Theorem walksafe_set_marker fat i v :
  WalkSafe fat -> v > MAX_REGULAR_SECTOR -> WalkSafe (updN fat i v).
Proof.
  intros H Hv. apply walksafe_transfer with fat; [|assumption]. intros c.
  destruct (N.eq_dec c i) as [->|Hci].
  - destruct (N.lt_ge_cases i (lenN fat)) as [Hi|Hi].
    + left. left. apply sc_marker_None with v; [apply nthN_updN_eq; assumption|unfold marker; lia].
    + right. unfold sc. rewrite lenN_updN, nthN_updN.
      destruct (N.ltb_spec i (lenN fat)); [lia|]. rewrite andb_false_r. reflexivity.
  - right. unfold sc. rewrite lenN_updN, nthN_updN_ne by assumption. reflexivity.
Qed.

Theorem walksafe_append fat v :
  WalkSafe fat -> v > MAX_REGULAR_SECTOR -> WalkSafe (fat ++ [v]).
Proof.
  intros H Hv. apply walksafe_transfer with fat; [|assumption]. intros c.
  assert (Hnew : sc (fat ++ [v]) (lenN fat) = None).
  { apply sc_marker_None with v; [apply nthN_snoc_len|unfold marker; lia]. }
  destruct (N.lt_ge_cases c (lenN fat)) as [Hc|Hc].
  - destruct (sc (fat ++ [v]) c) as [e|] eqn:E.
    + apply sc_Some in E. destruct E as (Hce & Hn & Hr & Hl).
      rewrite nthN_app_l in Hn by assumption. rewrite lenN_snoc in Hl.
      destruct (N.eq_dec e (lenN fat)) as [->|He].
      * left. right. exists (lenN fat). split; [|assumption].
        apply sc_Some. rewrite nthN_app_l, lenN_snoc by assumption. repeat split; auto.
      * right. symmetry. apply sc_Some. repeat split; auto. lia.
    + right. destruct (sc fat c) as [e|] eqn:E'; [|reflexivity].
      apply sc_Some in E'. destruct E' as (Hce & Hn & Hr & Hl).
      assert (sc (fat ++ [v]) c = Some e); [|congruence].
      apply sc_Some. rewrite nthN_app_l, lenN_snoc by assumption. repeat split; auto. lia.
  - left. left. destruct (N.eq_dec c (lenN fat)) as [->|Hne]; [assumption|].
    apply sc_None. right; left. apply nthN_ge_None. rewrite lenN_snoc. lia.
Qed.

Theorem walksafe_link_to_end fat i j m :
  WalkSafe fat -> nthN fat j = Some m -> m > MAX_REGULAR_SECTOR -> i <> j ->
  WalkSafe (updN fat i j).
Proof.
  intros H Hj Hm Hij. apply walksafe_transfer with fat; [|assumption]. intros c.
  assert (Hjn : sc (updN fat i j) j = None).
  { apply sc_marker_None with m; [rewrite nthN_updN_ne by auto; assumption|unfold marker; lia]. }
  destruct (N.eq_dec c i) as [->|Hci].
  - destruct (N.lt_ge_cases i (lenN fat)) as [Hi|Hi].
    + left. destruct (sc (updN fat i j) i) as [e|] eqn:E; [|left; exact E].
      right. exists e. split; [exact E|].
      apply sc_Some in E. destruct E as (_ & Hn & _).
      rewrite nthN_updN_eq in Hn by assumption. injection Hn as <-. assumption.
    + right. unfold sc. rewrite lenN_updN, nthN_updN.
      destruct (N.ltb_spec i (lenN fat)); [lia|]. rewrite andb_false_r. reflexivity.
  - right. unfold sc. rewrite lenN_updN, nthN_updN_ne by assumption. reflexivity.
Qed.

(* Deliverable 6 (table part): dropping a trailing marker cell *)
Theorem walksafe_truncate fat v :
  WalkSafe (fat ++ [v]) -> v > MAX_REGULAR_SECTOR -> WalkSafe fat.
Proof.
  intros H Hv. apply walksafe_transfer with (fat ++ [v]); [|assumption]. intros c.
  destruct (sc fat c) as [e|] eqn:E; [|left; left; exact E].
  right. apply sc_Some in E. destruct E as (Hce & Hn & Hr & Hl).
  pose proof (nthN_Some_lt _ _ _ Hn) as Hc.
  symmetry. apply sc_Some. rewrite nthN_app_l, lenN_snoc by assumption. repeat split; auto. lia.
Qed.

(* ================================================================== *)
(* Part B — the state monad                                            *)
(* ================================================================== *)

Definition put_cell (fat : list N) (i v : N) : list N :=
  if i =? lenN fat then fat ++ [v] else updN fat i v.

Lemma walksafe_put_marker fat i v : WalkSafe fat -> marker v -> WalkSafe (put_cell fat i v).
Proof.
  intros H Hv. unfold put_cell, marker in *. destruct (i =? lenN fat).
  - apply walksafe_append; [assumption|lia].
  - apply walksafe_set_marker; [assumption|lia].
Qed.

Lemma nthN_put_cell_eq fat i v : i <= lenN fat -> nthN (put_cell fat i v) i = Some v.
Proof.
  intros H. unfold put_cell. destruct (N.eqb_spec i (lenN fat)) as [->|Hne].
  - apply nthN_snoc_len.
  - apply nthN_updN_eq. lia.
Qed.

Lemma nthN_put_cell_ne fat i v c : c <> i -> c < lenN fat -> nthN (put_cell fat i v) c = nthN fat c.
Proof.
  intros H Hc. unfold put_cell. destruct (N.eqb_spec i (lenN fat)) as [->|Hne].
  - apply nthN_app_l. assumption.
  - apply nthN_updN_ne. assumption.
Qed.

(* what the image-writing primitives leave alone *)
Definition same (s s' : cstate) : Prop :=
  fat s' = fat s /\ free s' = free s /\ minifat s' = minifat s.

Lemma same_refl s : same s s. Proof. repeat split. Qed.
Lemma same_trans s1 s2 s3 : same s1 s2 -> same s2 s3 -> same s1 s3.
Proof. unfold same. intros (a & b & c) (d & e & f). repeat split; congruence. Qed.

Definition frames {A} (m : M A) : Prop := forall s, same s (fst (m s)).
Definition stable (P : cstate -> Prop) : Prop := forall s s', same s s' -> P s -> P s'.

Ltac prim :=
  unfold frames, same; intros;
  repeat (cbv beta iota zeta;
          match goal with
          | |- context [if ?c then _ else _] => destruct c
          | |- context [match ?x with Some _ => _ | None => _ end] => destruct x
          end);
  cbv beta iota zeta; cbn [fst snd fat free minifat w_img w_nsect w_difat w_difat_ids];
  repeat split; reflexivity.

Lemma seek_sector_frames sid off : frames (seek_sector sid off).
Proof. unfold seek_sector, bind, get, panic, fail, ret. prim. Qed.

Lemma sector_write_frames sid off bs : frames (sector_write sid off bs).
Proof. unfold sector_write, seek_sector, bind, get, modify, panic, fail, ret. prim. Qed.

Lemma header_write_frames off bs : frames (header_write off bs).
Proof. unfold header_write, modify, panic. prim. Qed.

Lemma init_sector_frames sid i : frames (init_sector sid i).
Proof.
  unfold init_sector, sector_write, seek_sector, bind, get, modify, panic, fail, ret. prim.
Qed.

Lemma set_fat_spec i v s :
  let s' := fst (set_fat i v s) in
  free s' = free s /\ minifat s' = minifat s /\
  (fat s' = fat s \/ (i <= lenN (fat s) /\ fat s' = put_cell (fat s) i v)) /\
  (forall a, snd (set_fat i v s) = Ok a -> i <= lenN (fat s) /\ fat s' = put_cell (fat s) i v).
Proof.
  unfold set_fat, bind, get. cbv beta iota zeta.
  destruct (N.ltb_spec (lenN (fat s)) i) as [Hi|Hi].
  { cbn. split; [reflexivity|split; [reflexivity|split; [left; reflexivity|intros ? Hx; discriminate Hx]]]. }
  destruct (nthN (difat s) (i / fat_per_sector s)) as [fsid|].
  2:{ cbn. split; [reflexivity|split; [reflexivity|split; [left; reflexivity|intros ? Hx; discriminate Hx]]]. }
  pose proof (sector_write_frames fsid (4 * (i mod fat_per_sector s)) (le_bytes 4 v) s) as Hfr.
  destruct (sector_write fsid (4 * (i mod fat_per_sector s)) (le_bytes 4 v) s) as [s1 r].
  cbn [fst] in Hfr. destruct Hfr as (Hf & Hr & Hm).
  destruct r as [[]| | |]; cbv beta iota zeta; cbn [fst snd];
    try (split; [assumption|split; [assumption|split; [left; assumption|intros ? Hx; discriminate Hx]]]).
  unfold modify. cbn [fst snd w_fat fat free minifat]. unfold put_cell. rewrite Hf.
  split; [assumption|split; [assumption|split; [right; split; [assumption|reflexivity]|intros _ _; split; [assumption|reflexivity]]]].
Qed.

(* ---- a small Hoare logic: [Q] after Ok, [I] after every outcome ---- *)
Definition spec {A} (P : cstate -> Prop) (m : M A) (Q : A -> cstate -> Prop)
  (I : cstate -> Prop) : Prop :=
  forall s, P s -> I (fst (m s)) /\ forall a, snd (m s) = Ok a -> Q a (fst (m s)).

Definition pres {A} (P : cstate -> Prop) (m : M A) : Prop := spec P m (fun _ => P) P.
Implicit Types P : cstate -> Prop.

Lemma spec_bind {A B} P (m : M A) (Q : A -> cstate -> Prop) (f : A -> M B) (R : B -> cstate -> Prop) (I : cstate -> Prop) :
  spec P m Q I -> (forall a, spec (Q a) (f a) R I) -> spec P (bind m f) R I.
Proof.
  intros Hm Hf s Hs. unfold bind. specialize (Hm s Hs). destruct (m s) as [s1 r].
  cbn [fst snd] in Hm. destruct Hm as [HI HQ].
  destruct r as [a| | |]; cbv beta iota; cbn [fst snd]; try (split; [assumption|discriminate]).
  apply Hf. apply HQ. reflexivity.
Qed.

Lemma spec_conseq {A} (P P' : cstate -> Prop) (m : M A) (Q Q' : A -> cstate -> Prop) (I I' : cstate -> Prop) :
  spec P m Q I -> (forall s, P' s -> P s) -> (forall a s, Q a s -> Q' a s) -> (forall s, I s -> I' s) ->
  spec P' m Q' I'.
Proof.
  intros H HP HQ HI s Hs. destruct (H s (HP s Hs)) as [H1 H2]. split; [auto|]. intros a Ha. auto.
Qed.

Lemma spec_pure {A} P (m : M A) (Q : A -> cstate -> Prop) (I : cstate -> Prop) :
  (forall s, fst (m s) = s) ->
  (forall s, P s -> I s /\ forall a, snd (m s) = Ok a -> Q a s) -> spec P m Q I.
Proof. intros Hst H s Hs. rewrite Hst. auto. Qed.

Lemma spec_ret {A} P (a : A) (Q : A -> cstate -> Prop) (I : cstate -> Prop) :
  (forall s, P s -> I s /\ Q a s) -> spec P (ret a) Q I.
Proof.
  intros H. apply spec_pure; [reflexivity|]. intros s Hs. destruct (H s Hs). split; [assumption|].
  intros a' [= <-]. assumption.
Qed.

Lemma spec_stop {A} P (m : M A) (Q : A -> cstate -> Prop) (I : cstate -> Prop) :
  (forall s, fst (m s) = s) -> (forall s a, snd (m s) <> Ok a) ->
  (forall s, P s -> I s) -> spec P m Q I.
Proof.
  intros H1 H2 H. apply spec_pure; [assumption|]. intros s Hs. split; [auto|].
  intros a Ha. destruct (H2 s a Ha).
Qed.

Lemma spec_fail {A} P k (Q : A -> cstate -> Prop) (I : cstate -> Prop) :
  (forall s, P s -> I s) -> spec P (fail k) Q I.
Proof. apply spec_stop; [reflexivity|discriminate]. Qed.
Lemma spec_panic {A} P k (Q : A -> cstate -> Prop) (I : cstate -> Prop) :
  (forall s, P s -> I s) -> spec P (panic k) Q I.
Proof. apply spec_stop; [reflexivity|discriminate]. Qed.
Lemma spec_oof {A} P (Q : A -> cstate -> Prop) (I : cstate -> Prop) :
  (forall s, P s -> I s) -> spec P out_of_fuel Q I.
Proof. apply spec_stop; [reflexivity|discriminate]. Qed.

Lemma spec_lift {A} P (r : res A) (Q : A -> cstate -> Prop) (I : cstate -> Prop) :
  (forall s, P s -> I s /\ forall a, r = Ok a -> Q a s) -> spec P (lift r) Q I.
Proof. intros H. apply spec_pure; [reflexivity|exact H]. Qed.

Lemma spec_modify P g (Q : unit -> cstate -> Prop) (I : cstate -> Prop) :
  (forall s, P s -> I (g s) /\ Q tt (g s)) -> spec P (modify g) Q I.
Proof.
  intros H s Hs. destruct (H s Hs). unfold modify. cbn [fst snd]. split; [assumption|].
  intros [] _. assumption.
Qed.

Lemma spec_get_bind {B} P (f : cstate -> M B) (R : B -> cstate -> Prop) (I : cstate -> Prop) :
  (forall s0, P s0 -> spec (fun s => P s /\ same s0 s) (f s0) R I) -> spec P (bind get f) R I.
Proof. intros H s Hs. apply (H s Hs s). split; [assumption|apply same_refl]. Qed.

Lemma spec_frame {A} (m : M A) P : frames m -> stable P -> pres P m.
Proof. intros Hf Hst s Hs. pose proof (Hst _ _ (Hf s) Hs). auto. Qed.

Lemma spec_frame_seq {A B} (m : M A) (f : A -> M B) P (R : B -> cstate -> Prop) (I : cstate -> Prop) :
  frames m -> stable P -> (forall s, P s -> I s) -> (forall a, spec P (f a) R I) ->
  spec P (bind m f) R I.
Proof.
  intros Hf Hst HI H. eapply spec_bind; [|exact H].
  eapply spec_conseq; [apply spec_frame; eassumption| | |]; auto.
Qed.

Lemma spec_set_fat P (Q : unit -> cstate -> Prop) (I : cstate -> Prop) i v :
  (forall s s', P s -> free s' = free s -> minifat s' = minifat s -> fat s' = fat s -> I s') ->
  (forall s s', P s -> free s' = free s -> minifat s' = minifat s -> i <= lenN (fat s) ->
     fat s' = put_cell (fat s) i v -> I s' /\ Q tt s') ->
  spec P (set_fat i v) Q I.
Proof.
  intros H1 H2 s Hs. destruct (set_fat_spec i v s) as (Hr & Hm & Hd & Hok). split.
  - destruct Hd as [Hd|[Hi Hd]]; [eapply H1; eauto|eapply H2; eauto].
  - intros [] Ha. destruct (Hok _ Ha). eapply H2; eauto.
Qed.

Lemma spec_next P sid (I : cstate -> Prop) :
  (forall s, P s -> I s) ->
  spec P (next sid) (fun nx s => P s /\ next_of (fat s) sid = Ok nx) I.
Proof.
  intros HI. unfold next. apply spec_pure; [reflexivity|]. intros s Hs. split; [auto|].
  unfold bind, get, lift. cbn [snd]. auto.
Qed.

Lemma pres_bind {A B} P (m : M A) (f : A -> M B) :
  pres P m -> (forall a, pres P (f a)) -> pres P (bind m f).
Proof. intros H1 H2. eapply spec_bind; [exact H1|exact H2]. Qed.

Lemma pres_unchanged {A} P (m : M A) : (forall s, fst (m s) = s) -> pres P m.
Proof. intros H s Hs. rewrite H. auto. Qed.

Lemma pres_modify P g : (forall s, P s -> P (g s)) -> pres P (modify g).
Proof. intros H. apply spec_modify. auto. Qed.

Lemma next_unchanged sid s : fst (next sid s) = s.
Proof. reflexivity. Qed.

(* one step of a structural traversal of a monadic term; [tac] closes the
   leaves that are frames, [set_fat] and calls of already treated operations *)
Ltac pres_step tac :=
  cbv beta iota zeta;
  match goal with
  | |- spec ?P ?m (fun _ => ?P) ?P => change (pres P m)
  | |- pres _ (bind _ _) => apply pres_bind; [|intros ?]
  | |- pres _ (ret _) => apply pres_unchanged; reflexivity
  | |- pres _ get => apply pres_unchanged; reflexivity
  | |- pres _ (fail _) => apply pres_unchanged; reflexivity
  | |- pres _ (panic _) => apply pres_unchanged; reflexivity
  | |- pres _ out_of_fuel => apply pres_unchanged; reflexivity
  | |- pres _ (lift _) => apply pres_unchanged; reflexivity
  | |- pres _ (next _) => apply pres_unchanged; reflexivity
  | |- pres _ (if ?c then _ else _) => destruct c
  | |- pres _ (match ?x with _ => _ end) => destruct x
  | |- _ => tac
  end.

(* ---- B1: operations that only write markers preserve WalkSafe alone ---- *)
Inductive mreach (F : list N) : list N -> Prop :=
| mr_refl : mreach F F
| mr_put fat i v : mreach F fat -> marker v -> mreach F (put_cell fat i v).

Lemma mreach_walksafe F fat : mreach F fat -> WalkSafe F -> WalkSafe fat.
Proof. induction 1; intros HF; [assumption|]. apply walksafe_put_marker; auto. Qed.

Definition MR (F : list N) (s : cstate) : Prop := mreach F (fat s).

Lemma MR_stable F : stable (MR F).
Proof. intros s s' (Hf & _) H. unfold MR in *. rewrite Hf. assumption. Qed.

Lemma set_fat_MR F i v : marker v -> pres (MR F) (set_fat i v).
Proof.
  intros Hv. apply spec_set_fat; unfold MR.
  - intros s s' H _ _ Hf. rewrite Hf. assumption.
  - intros s s' H _ _ _ Hf. rewrite Hf. split; apply mr_put; assumption.
Qed.

Ltac marker_tac :=
  match goal with
  | |- marker END_OF_CHAIN => exact marker_EOC
  | |- marker FREE_SECTOR => exact marker_FREE
  | |- marker FAT_SECTOR => exact marker_FAT
  | |- marker DIFAT_SECTOR => exact marker_DIFAT
  | H : marker ?v |- marker ?v => exact H
  end.

Ltac mr_leaf F :=
  idtac;
  match goal with
  | |- pres _ (set_fat _ _) => apply set_fat_MR; marker_tac
  | |- pres _ (sector_write _ _ _) => apply spec_frame; [apply sector_write_frames|apply MR_stable]
  | |- pres _ (header_write _ _) => apply spec_frame; [apply header_write_frames|apply MR_stable]
  | |- pres _ (init_sector _ _) => apply spec_frame; [apply init_sector_frames|apply MR_stable]
  | |- pres _ (modify _) => apply pres_modify; intros ? Hmr; exact Hmr
  end.

Lemma free_sector_MR F sid : pres (MR F) (free_sector sid).
Proof. unfold free_sector. repeat pres_step ltac:(mr_leaf F). Qed.

Lemma free_chain_go_MR F : forall f sid, pres (MR F) (free_chain_go f sid).
Proof.
  induction f as [|f IH]; intros sid; cbn [free_chain_go].
  - apply pres_unchanged; reflexivity.
  - repeat pres_step ltac:(first [apply free_sector_MR|apply IH]).
Qed.

Lemma free_chain_MR F start : pres (MR F) (free_chain start).
Proof. unfold free_chain. repeat pres_step ltac:(apply free_chain_go_MR). Qed.

Lemma free_chain_after_MR F sid : pres (MR F) (free_chain_after sid).
Proof.
  unfold free_chain_after. repeat pres_step ltac:(first [apply free_chain_MR|mr_leaf F]).
Qed.

Lemma append_fat_sector_MR F : pres (MR F) append_fat_sector.
Proof. unfold append_fat_sector. repeat pres_step ltac:(mr_leaf F). Qed.

Lemma allocate_sector_MR F i : pres (MR F) (allocate_sector i).
Proof.
  unfold allocate_sector. repeat pres_step ltac:(first [apply append_fat_sector_MR|mr_leaf F]).
Qed.

Lemma pres_MR_walksafe {A} (m : M A) :
  (forall F, pres (MR F) m) -> forall s, WalkSafe (fat s) -> WalkSafe (fat (fst (m s))).
Proof.
  intros H s Hs. destruct (H (fat s) s (mr_refl _)) as [Hm _].
  eapply mreach_walksafe; eauto.
Qed.

(* Deliverable 4, WalkSafe alone: every outcome (Ok, Err, Panic, OutOfFuel) *)
Theorem set_fat_walksafe i v s : v > MAX_REGULAR_SECTOR ->
  WalkSafe (fat s) -> WalkSafe (fat (fst (set_fat i v s))).
Proof. intros Hv. apply pres_MR_walksafe. intros F. apply set_fat_MR. unfold marker. lia. Qed.

Theorem free_sector_walksafe sid s :
  WalkSafe (fat s) -> WalkSafe (fat (fst (free_sector sid s))).
Proof. apply pres_MR_walksafe. intros F. apply free_sector_MR. Qed.

Theorem free_chain_walksafe start s :
  WalkSafe (fat s) -> WalkSafe (fat (fst (free_chain start s))).
Proof. apply pres_MR_walksafe. intros F. apply free_chain_MR. Qed.

Theorem free_chain_go_walksafe f sid s :
  WalkSafe (fat s) -> WalkSafe (fat (fst (free_chain_go f sid s))).
Proof. apply pres_MR_walksafe. intros F. apply free_chain_go_MR. Qed.

Theorem free_chain_after_walksafe sid s :
  WalkSafe (fat s) -> WalkSafe (fat (fst (free_chain_after sid s))).
Proof. apply pres_MR_walksafe. intros F. apply free_chain_after_MR. Qed.

Theorem append_fat_sector_walksafe s :
  WalkSafe (fat s) -> WalkSafe (fat (fst (append_fat_sector s))).
Proof. apply pres_MR_walksafe. intros F. apply append_fat_sector_MR. Qed.

Theorem allocate_sector_walksafe i s :
  WalkSafe (fat s) -> WalkSafe (fat (fst (allocate_sector i s))).
Proof. apply pres_MR_walksafe. intros F. apply allocate_sector_MR. Qed.

Theorem begin_chain_walksafe i s :
  WalkSafe (fat s) -> WalkSafe (fat (fst (begin_chain i s))).
Proof. apply allocate_sector_walksafe. Qed.

(* ---- B2: the full invariant: WalkSafe + the free list holds distinct FREE cells ---- *)
(* extend_chain links the last cell of a chain to the sector allocate_sector
   returns; WalkSafe alone does not exclude that this is the last cell itself
   (a stale free-list entry), which would create a self-loop with a tail. *)
Definition FreeInv (fat fr : list N) : Prop :=
  NoDup fr /\ forall x, In x fr -> nthN fat x = Some FREE_SECTOR.

Definition Safe (s : cstate) : Prop := WalkSafe (fat s) /\ FreeInv (fat s) (free s).

Lemma freeinv_put fat fr i v :
  FreeInv fat fr -> i <= lenN fat -> (v = FREE_SECTOR \/ ~ In i fr) ->
  FreeInv (put_cell fat i v) fr.
Proof.
  intros [Hnd Hall] Hi Hor. split; [assumption|]. intros x Hx.
  pose proof (Hall x Hx) as Hc. pose proof (nthN_Some_lt _ _ _ Hc) as Hlt.
  destruct (N.eq_dec x i) as [->|Hne].
  - destruct Hor as [->|Hn]; [apply nthN_put_cell_eq; assumption|contradiction].
  - rewrite nthN_put_cell_ne; assumption.
Qed.

Lemma safe_put fat fr i v :
  WalkSafe fat -> FreeInv fat fr -> marker v -> i <= lenN fat -> (v = FREE_SECTOR \/ ~ In i fr) ->
  WalkSafe (put_cell fat i v) /\ FreeInv (put_cell fat i v) fr.
Proof. intros. split; [apply walksafe_put_marker|apply freeinv_put]; assumption. Qed.

Lemma lastN_split {A} (l : list A) x : lastN l = Some x -> l = pop_last l ++ [x].
Proof.
  unfold lastN, pop_last. intros H. destruct (rev l) as [|y r] eqn:E; [discriminate|].
  injection H as ->. assert (Hl : l = rev r ++ [x]).
  { rewrite <- (rev_involutive l), E. reflexivity. }
  rewrite Hl at 2. rewrite removelast_last. exact Hl.
Qed.

Lemma freeinv_pop fat fr sid : FreeInv fat fr -> lastN fr = Some sid ->
  FreeInv fat (pop_last fr) /\ ~ In sid (pop_last fr) /\ nthN fat sid = Some FREE_SECTOR.
Proof.
  intros [Hnd Hall] Hl. pose proof (lastN_split _ _ Hl) as E.
  assert (Hin : forall x, In x (pop_last fr) -> In x fr).
  { intros x Hx. rewrite E. apply in_or_app. left; assumption. }
  rewrite E in Hnd. apply NoDup_remove in Hnd. rewrite app_nil_r in Hnd. destruct Hnd as [Hnd Hnin].
  split; [split; [assumption|auto]|]. split; [assumption|].
  apply Hall. rewrite E. apply in_or_app. right. left. reflexivity.
Qed.

Lemma nodup_snoc (l : list N) x : NoDup l -> ~ In x l -> NoDup (l ++ [x]).
Proof.
  induction l as [|y t IH]; cbn [app]; intros Hnd Hx.
  - constructor; [intros []|constructor].
  - inversion Hnd; subst. constructor.
    + rewrite in_app_iff. cbn [In]. intros [H|[H|[]]]; [contradiction|]. apply Hx. left. symmetry. assumption.
    + apply IH; [assumption|]. intros H. apply Hx. right. assumption.
Qed.

Lemma freeinv_push fat fr sid : FreeInv fat fr -> nthN fat sid = Some FREE_SECTOR -> ~ In sid fr ->
  FreeInv fat (fr ++ [sid]).
Proof.
  intros [Hnd Hall] Hc Hn. split; [apply nodup_snoc; assumption|].
  intros x Hx. apply in_app_or in Hx. destruct Hx as [Hx|[<-|[]]]; auto.
Qed.

(* predicates that survive appending a marker cell *)
Definition app_closed P : Prop :=
  forall s s' v, P s -> marker v -> free s' = free s -> minifat s' = minifat s ->
    (fat s' = fat s \/ fat s' = fat s ++ [v]) -> P s'.

Lemma app_closed_stable P : app_closed P -> stable P.
Proof. intros H s s' (Hf & Hr & Hm) Hs. apply (H s s' END_OF_CHAIN); auto. exact marker_EOC. Qed.

Lemma modify_frames g : (forall s, same s (g s)) -> frames (modify g).
Proof. intros H s. apply H. Qed.

Lemma stable_with P s0 : stable P -> stable (fun s => P s /\ same s0 s).
Proof.
  intros Hst s s' Hss [H1 H2]. split; [eapply Hst; eauto|eapply same_trans; eauto].
Qed.

Ltac frame_leaf Hst :=
  idtac;
  match goal with
  | |- pres _ (sector_write _ _ _) => apply spec_frame; [apply sector_write_frames|exact Hst]
  | |- pres _ (header_write _ _) => apply spec_frame; [apply header_write_frames|exact Hst]
  | |- pres _ (init_sector _ _) => apply spec_frame; [apply init_sector_frames|exact Hst]
  | |- pres _ (modify _) => apply spec_frame; [apply modify_frames; intros ?; repeat split|exact Hst]
  end.

Lemma append_at_end P v s0 : app_closed P -> marker v ->
  spec (fun s => P s /\ same s0 s) (set_fat (lenN (fat s0)) v) (fun _ => P) P.
Proof.
  intros Hc Hv. apply spec_set_fat.
  - intros s s' [H1 H2] Hr Hm Hf. apply (Hc s s' v); auto.
  - intros s s' [H1 (H2 & _)] Hr Hm Hi Hf. assert (P s'); [|auto].
    apply (Hc s s' v); auto. right. rewrite Hf. unfold put_cell. rewrite H2, N.eqb_refl. reflexivity.
Qed.

Lemma append_fat_sector_pres P : app_closed P -> pres P append_fat_sector.
Proof.
  intros Hc. pose proof (app_closed_stable P Hc) as Hst.
  unfold append_fat_sector, pres. apply spec_get_bind. intros s0 _. cbv zeta.
  pose proof (stable_with P s0 Hst) as Hst1.
  apply spec_frame_seq; [apply init_sector_frames|exact Hst1|tauto|intros ?].
  apply spec_frame_seq; [apply modify_frames; intros ?; repeat split|exact Hst1|tauto|intros ?].
  eapply spec_bind; [apply append_at_end; [assumption|exact marker_FAT]|intros ?].
  apply pres_bind; [|intros ?; repeat pres_step ltac:(frame_leaf Hst)].
  destruct (_ <? _); [frame_leaf Hst|].
  apply spec_get_bind. intros s2 _. cbv zeta.
  pose proof (stable_with P s2 Hst) as Hst2.
  eapply spec_bind with (Q := fun _ => P); [|intros ?; repeat pres_step ltac:(frame_leaf Hst)].
  destruct (_ <=? _).
  - apply spec_frame_seq; [apply init_sector_frames|exact Hst2|tauto|intros ?].
    eapply spec_bind; [apply append_at_end; [assumption|exact marker_DIFAT]|intros ?].
    repeat pres_step ltac:(frame_leaf Hst).
  - apply spec_ret. tauto.
Qed.

Definition Lok (L : N -> Prop) (s : cstate) : Prop :=
  forall x, L x -> nthN (fat s) x = Some END_OF_CHAIN.
Definition SL (L : N -> Prop) (s : cstate) : Prop := Safe s /\ Lok L s.

Ltac stab :=
  let s := fresh "s" in let s' := fresh "s'" in
  let Hf := fresh "Hf" in let Hr := fresh "Hr" in let Hm := fresh "Hm" in
  intros s s' (Hf & Hr & Hm); unfold SL, Safe, Lok; rewrite ?Hf, ?Hr, ?Hm; tauto.

Lemma Safe_stable : stable Safe. Proof. stab. Qed.
Lemma SL_stable L : stable (SL L). Proof. stab. Qed.

Lemma SL_app_closed L : app_closed (SL L).
Proof.
  intros s s' v [[Hw [Hnd Hfr]] HL] Hv Hr Hm [Hf|Hf]; unfold SL, Safe, Lok, FreeInv; rewrite Hf, Hr.
  - auto.
  - repeat split.
    + apply walksafe_append; [assumption|unfold marker in Hv; lia].
    + assumption.
    + intros x Hx. pose proof (Hfr x Hx) as Hc. rewrite nthN_app_l; [assumption|].
      eapply nthN_Some_lt; eauto.
    + intros x Hx. pose proof (HL x Hx) as Hc. rewrite nthN_app_l; [assumption|].
      eapply nthN_Some_lt; eauto.
Qed.

Lemma allocate_sector_spec L i :
  spec (SL L) (allocate_sector i)
       (fun sid s => SL L s /\ nthN (fat s) sid = Some END_OF_CHAIN /\ ~ L sid) Safe.
Proof.
  unfold allocate_sector. apply spec_get_bind. intros s0 H0.
  destruct (lastN (free s0)) as [sid|] eqn:El.
  - (* reuse the last entry of the free list *)
    eapply spec_bind with
      (Q := fun _ s => WalkSafe (fat s) /\ FreeInv (fat s) (free s) /\ ~ In sid (free s) /\
                       nthN (fat s) sid = Some FREE_SECTOR /\ Lok L s).
    { apply spec_modify. intros s [[[Hw Hfi] HL] (Hf & Hr & _)]. cbn [fat free w_free].
      rewrite <- Hr in El. destruct (freeinv_pop _ _ _ Hfi El) as (Hfi' & Hnin & Hcell).
      split; [split; assumption|repeat split; try assumption; apply Hfi']. }
    intros ?.
    eapply spec_bind with
      (Q := fun _ s => SL L s /\ nthN (fat s) sid = Some END_OF_CHAIN /\ ~ L sid).
    { apply spec_set_fat.
      - intros s s' (Hw & Hfi & Hnin & Hcell & HL) Hr Hm Hf. unfold Safe. rewrite Hf, Hr. split; assumption.
      - intros s s' (Hw & Hfi & Hnin & Hcell & HL) Hr Hm Hi Hf.
        destruct (safe_put _ _ sid END_OF_CHAIN Hw Hfi marker_EOC Hi (or_intror Hnin)) as [Hw' Hfi'].
        assert (HnL : ~ L sid).
        { intros HLs. specialize (HL _ HLs). rewrite Hcell in HL.
          apply EOC_ne_FREE. congruence. }
        assert (Hs' : Safe s') by (unfold Safe; rewrite Hf, Hr; split; assumption).
        split; [assumption|]. split; [split; [assumption|]|split; [|assumption]].
        + intros x Hx. rewrite Hf. pose proof (HL x Hx) as Hc.
          rewrite nthN_put_cell_ne; [assumption| |eapply nthN_Some_lt; eauto].
          intros ->. contradiction.
        + rewrite Hf. apply nthN_put_cell_eq. assumption. }
    intros ?.
    apply spec_frame_seq; [apply init_sector_frames| | |intros ?; apply spec_ret; unfold SL; tauto].
    + stab.
    + unfold SL. tauto.
  - (* grow the table *)
    eapply spec_bind with (Q := fun _ => SL L).
    { destruct (_ =? 0).
      - eapply spec_conseq; [apply (append_fat_sector_pres (SL L)), SL_app_closed| | |]; cbv beta; unfold SL; tauto.
      - apply spec_ret. unfold SL. tauto. }
    intros ?. apply spec_get_bind. intros s1 H1. cbv zeta.
    eapply spec_bind with
      (Q := fun _ s => SL L s /\ nthN (fat s) (lenN (fat s1)) = Some END_OF_CHAIN /\ ~ L (lenN (fat s1))).
    { apply spec_set_fat.
      - intros s s' ([Hs HL] & _) Hr Hm Hf. unfold Safe. rewrite Hf, Hr. exact Hs.
      - intros s s' ([[Hw Hfi] HL] & (Hfs & _)) Hr Hm Hi Hf. rewrite <- Hfs in *.
        assert (Hnin : ~ In (lenN (fat s)) (free s)).
        { intros Hin. destruct Hfi as [_ Hall]. apply Hall in Hin. apply nthN_Some_lt in Hin. lia. }
        destruct (safe_put _ _ (lenN (fat s)) END_OF_CHAIN Hw Hfi marker_EOC Hi (or_intror Hnin)) as [Hw' Hfi'].
        assert (HnL : ~ L (lenN (fat s))).
        { intros HLs. specialize (HL _ HLs). apply nthN_Some_lt in HL. lia. }
        assert (Hs' : Safe s') by (unfold Safe; rewrite Hf, Hr; split; assumption).
        split; [assumption|]. split; [split; [assumption|]|split; [|assumption]].
        + intros x Hx. rewrite Hf. pose proof (HL x Hx) as Hc.
          rewrite nthN_put_cell_ne; [assumption| |eapply nthN_Some_lt; eauto].
          intros ->. contradiction.
        + rewrite Hf. apply nthN_put_cell_eq. assumption. }
    intros ?.
    apply spec_frame_seq; [apply init_sector_frames| | |intros ?; apply spec_ret; unfold SL; tauto].
    + stab.
    + unfold SL. tauto.
Qed.

Lemma allocate_sector_safe i : pres Safe (allocate_sector i).
Proof.
  eapply spec_conseq; [apply (allocate_sector_spec (fun _ => False) i)| | |]; unfold SL, Lok; tauto.
Qed.

Lemma begin_chain_safe i : pres Safe (begin_chain i).
Proof. apply allocate_sector_safe. Qed.

Lemma set_fat_marker_safe i v : marker v ->
  spec (fun s => Safe s /\ (v = FREE_SECTOR \/ ~ In i (free s))) (set_fat i v) (fun _ => Safe) Safe.
Proof.
  intros Hv. apply spec_set_fat.
  - intros s s' [Hs _] Hr Hm Hf. unfold Safe. rewrite Hf, Hr. exact Hs.
  - intros s s' [[Hw Hfi] Hor] Hr Hm Hi Hf.
    destruct (safe_put _ _ i v Hw Hfi Hv Hi Hor). unfold Safe. rewrite Hf, Hr. tauto.
Qed.

Lemma free_body_safe sid :
  spec (fun s => Safe s /\ ~ In sid (free s))
       (set_fat sid FREE_SECTOR ;; modify (fun s => w_free s (free s ++ [sid])))
       (fun _ => Safe) Safe.
Proof.
  eapply spec_bind with
    (Q := fun _ s => Safe s /\ ~ In sid (free s) /\ nthN (fat s) sid = Some FREE_SECTOR).
  - apply spec_set_fat.
    + intros s s' [Hs _] Hr Hm Hf. unfold Safe. rewrite Hf, Hr. exact Hs.
    + intros s s' [[Hw Hfi] Hnin] Hr Hm Hi Hf.
      destruct (safe_put _ _ sid FREE_SECTOR Hw Hfi marker_FREE Hi (or_introl eq_refl)).
      assert (Hs' : Safe s') by (unfold Safe; rewrite Hf, Hr; split; assumption).
      split; [assumption|]. split; [assumption|]. rewrite Hf, Hr.
      split; [assumption|apply nthN_put_cell_eq; assumption].
  - intros ?. apply spec_modify. intros s ([Hw Hfi] & Hnin & Hcell).
    unfold Safe. cbn [fat free w_free].
    pose proof (freeinv_push _ _ _ Hfi Hcell Hnin). tauto.
Qed.

Lemma free_sector_safe sid : pres Safe (free_sector sid).
Proof.
  unfold free_sector, pres. apply spec_get_bind. intros s0 H0.
  destruct (nthN (fat s0) sid) as [v|] eqn:E.
  - destruct (N.eqb_spec v FREE_SECTOR) as [Hv|Hv]; [apply spec_fail; tauto|].
    eapply spec_conseq; [apply free_body_safe| |auto|auto].
    intros s [Hs (Hf & _)]. split; [assumption|]. intros Hin.
    destruct Hs as [_ [_ Hall]]. apply Hall in Hin. rewrite Hf, E in Hin. congruence.
  - eapply spec_conseq; [apply free_body_safe| |auto|auto].
    intros s [Hs (Hf & _)]. split; [assumption|]. intros Hin.
    destruct Hs as [_ [_ Hall]]. apply Hall in Hin. rewrite Hf, E in Hin. discriminate.
Qed.

Lemma free_chain_go_safe : forall f sid, pres Safe (free_chain_go f sid).
Proof.
  induction f as [|f IH]; intros sid; cbn [free_chain_go].
  - apply pres_unchanged; reflexivity.
  - repeat pres_step ltac:(first [apply free_sector_safe|apply IH]).
Qed.

Lemma free_chain_safe start : pres Safe (free_chain start).
Proof. unfold free_chain. repeat pres_step ltac:(apply free_chain_go_safe). Qed.

Lemma free_chain_after_safe sid : pres Safe (free_chain_after sid).
Proof.
  unfold free_chain_after, pres.
  eapply spec_bind; [apply spec_next; auto|]. intros nx.
  eapply spec_bind with (Q := fun _ => Safe); [|intros ?; apply free_chain_safe].
  eapply spec_conseq; [apply (set_fat_marker_safe sid END_OF_CHAIN marker_EOC)| |auto|auto].
  intros s [Hs Hn]. split; [assumption|]. right. intros Hin.
  destruct Hs as [_ [_ Hall]]. apply Hall in Hin. apply next_of_Ok in Hn.
  destruct Hn as [Hn Hor]. rewrite Hin in Hn. assert (Hnx : FREE_SECTOR = nx) by congruence. subst nx.
  pose proof MAXREG_lt_FREE. destruct Hor as [He|[Hr _]]; [apply EOC_ne_FREE; auto|lia].
Qed.

Lemma find_last_go_Ok fat : forall f steps cur last,
  find_last_go f fat steps cur = Ok last -> nthN fat last = Some END_OF_CHAIN.
Proof.
  induction f as [|f IH]; intros steps cur last H; [discriminate|]. cbn [find_last_go] in H.
  destruct (next_of fat cur) as [nx| | |] eqn:E; cbn [rbind] in H; try discriminate.
  destruct (N.eqb_spec nx END_OF_CHAIN) as [->|Hne].
  - injection H as <-. apply next_of_Ok in E. tauto.
  - destruct (_ <? _); [discriminate|]. eapply IH; eauto.
Qed.

Lemma extend_chain_safe start i : pres Safe (extend_chain start i).
Proof.
  unfold extend_chain, pres. destruct (start =? END_OF_CHAIN); [apply spec_panic; auto|].
  apply spec_get_bind. intros s0 H0.
  eapply spec_bind with (Q := fun last s => Safe s /\ nthN (fat s) last = Some END_OF_CHAIN).
  { apply spec_lift. intros s [Hs (Hf & _)]. split; [assumption|]. intros last Hl.
    split; [assumption|]. rewrite Hf. eapply find_last_go_Ok; eauto. }
  intros last.
  eapply spec_bind with
    (Q := fun sid s => Safe s /\ nthN (fat s) last = Some END_OF_CHAIN /\
                       nthN (fat s) sid = Some END_OF_CHAIN /\ last <> sid).
  { eapply spec_conseq; [apply (allocate_sector_spec (eq last) i)| | |auto].
    - intros s [Hs Hc]. split; [assumption|]. intros x <-. assumption.
    - intros sid s ([Hs HL] & Hc & Hne). repeat split; auto; apply Hs. }
  intros sid.
  eapply spec_bind with (Q := fun _ => Safe); [|intros ?; apply spec_ret; auto].
  apply spec_set_fat.
  - intros s s' (Hs & _) Hr Hm Hf. unfold Safe. rewrite Hf, Hr. exact Hs.
  - intros s s' ([Hw Hfi] & Hl & Hc & Hne) Hr Hm Hi Hf.
    pose proof (nthN_Some_lt _ _ _ Hl) as Hlt.
    assert (Hs' : Safe s'); [|auto]. unfold Safe. rewrite Hf, Hr. split.
    + unfold put_cell. destruct (N.eqb_spec last (lenN (fat s))) as [Heq|_]; [lia|].
      apply walksafe_link_to_end with END_OF_CHAIN; auto. pose proof MAXREG_lt_EOC. lia.
    + apply freeinv_put; [assumption|assumption|]. right. intros Hin.
      destruct Hfi as [_ Hall]. apply Hall in Hin. rewrite Hin in Hl.
      apply EOC_ne_FREE. congruence.
Qed.

Lemma chain_grow_safe : forall n c, pres Safe (chain_grow n c).
Proof.
  induction n as [|n IH]; intros c; cbn [chain_grow].
  - apply pres_unchanged; reflexivity.
  - repeat pres_step ltac:(first [apply extend_chain_safe|apply begin_chain_safe|apply IH]).
Qed.

Lemma chain_set_len_safe c new_len : pres Safe (chain_set_len c new_len).
Proof.
  unfold chain_set_len.
  repeat pres_step ltac:(first [apply free_chain_safe|apply free_chain_after_safe|apply chain_grow_safe]).
Qed.

Lemma chain_write_go_safe : forall f c bs, pres Safe (chain_write_go f c bs).
Proof.
  induction f as [|f IH]; intros c bs; cbn [chain_write_go].
  - apply pres_unchanged; reflexivity.
  - repeat pres_step ltac:(first [apply extend_chain_safe|apply begin_chain_safe|apply IH
                                  |frame_leaf Safe_stable]).
Qed.

Lemma chain_write_all_safe c bs : pres Safe (chain_write_all c bs).
Proof. unfold chain_write_all. repeat pres_step ltac:(apply chain_write_go_safe). Qed.

Lemma chain_new_safe start i : pres Safe (chain_new start i).
Proof. unfold chain_new. repeat pres_step idtac. Qed.

Lemma chain_seek_safe c pos : pres Safe (chain_seek c pos).
Proof. unfold chain_seek. repeat pres_step idtac. Qed.

(* Deliverable 4, full invariant: every outcome *)
Lemma pres_fst {A} P (m : M A) : pres P m -> forall s, P s -> P (fst (m s)).
Proof. intros H s Hs. apply (H s Hs). Qed.

Theorem set_fat_safe i v s : v > MAX_REGULAR_SECTOR -> (v = FREE_SECTOR \/ ~ In i (free s)) ->
  Safe s -> Safe (fst (set_fat i v s)).
Proof.
  intros Hv Hor Hs. apply (set_fat_marker_safe i v); [unfold marker; lia|]. split; assumption.
Qed.
Theorem free_sector_preserves sid s : Safe s -> Safe (fst (free_sector sid s)).
Proof. apply pres_fst, free_sector_safe. Qed.
Theorem free_chain_go_preserves f sid s : Safe s -> Safe (fst (free_chain_go f sid s)).
Proof. apply pres_fst, free_chain_go_safe. Qed.
Theorem free_chain_preserves start s : Safe s -> Safe (fst (free_chain start s)).
Proof. apply pres_fst, free_chain_safe. Qed.
Theorem free_chain_after_preserves sid s : Safe s -> Safe (fst (free_chain_after sid s)).
Proof. apply pres_fst, free_chain_after_safe. Qed.
Theorem append_fat_sector_preserves s : Safe s -> Safe (fst (append_fat_sector s)).
Proof.
  apply pres_fst. eapply spec_conseq;
    [apply (append_fat_sector_pres (SL (fun _ => False))), SL_app_closed| | |];
    cbv beta; unfold SL, Lok; tauto.
Qed.
Theorem allocate_sector_preserves i s : Safe s -> Safe (fst (allocate_sector i s)).
Proof. apply pres_fst, allocate_sector_safe. Qed.
Theorem begin_chain_preserves i s : Safe s -> Safe (fst (begin_chain i s)).
Proof. apply pres_fst, begin_chain_safe. Qed.
Theorem extend_chain_preserves start i s : Safe s -> Safe (fst (extend_chain start i s)).
Proof. apply pres_fst, extend_chain_safe. Qed.
Theorem chain_grow_preserves n c s : Safe s -> Safe (fst (chain_grow n c s)).
Proof. apply pres_fst, chain_grow_safe. Qed.
Theorem chain_set_len_preserves c new_len s : Safe s -> Safe (fst (chain_set_len c new_len s)).
Proof. apply pres_fst, chain_set_len_safe. Qed.
Theorem chain_write_all_preserves c bs s : Safe s -> Safe (fst (chain_write_all c bs s)).
Proof. apply pres_fst, chain_write_all_safe. Qed.

(* what allocate_sector returns: a cell that now holds END_OF_CHAIN and did
   not do so before *)
Theorem allocate_sector_fresh i s sid :
  Safe s -> snd (allocate_sector i s) = Ok sid ->
  nthN (fat (fst (allocate_sector i s))) sid = Some END_OF_CHAIN /\
  nthN (fat s) sid <> Some END_OF_CHAIN.
Proof.
  intros Hs Hok.
  destruct (allocate_sector_spec (fun x => nthN (fat s) x = Some END_OF_CHAIN) i s) as [_ H].
  { split; [assumption|]. intros x Hx. exact Hx. }
  destruct (H sid Hok) as (_ & Hc & Hn). auto.
Qed.

Corollary safe_walk_total s : Safe s ->
  forall start, chain_ids_of (fat s) start <> OutOfFuel /\ (forall p, chain_ids_of (fat s) start <> Panic p).
Proof. intros [H _]. apply walksafe_walk_total. assumption. Qed.

(* ================================================================== *)
(* Part C — free_chain terminates on ANY table, and never panics       *)
(* ================================================================== *)
Definition nfree (fat : list N) : nat :=
  length (filter (fun v => negb (v =? FREE_SECTOR)) fat).

Lemma nfree_le fat : (nfree fat <= length fat)%nat.
Proof.
  unfold nfree. induction fat as [|x t IH]; cbn [filter length]; [lia|].
  destruct (negb _); cbn [length]; lia.
Qed.

Lemma nfree_updN fat : forall i v, nthN fat i = Some v -> v <> FREE_SECTOR ->
  (nfree (updN fat i FREE_SECTOR) < nfree fat)%nat.
Proof.
  unfold nfree. induction fat as [|x t IH]; intros i v Hn Hv; [discriminate|].
  cbn [nthN updN] in *. destruct (N.eqb_spec i 0) as [->|Hi].
  - injection Hn as ->. cbn [filter]. rewrite N.eqb_refl.
    destruct (N.eqb_spec v FREE_SECTOR); [contradiction|]. cbn [negb length]. lia.
  - cbn [filter]. specialize (IH _ _ Hn Hv). destruct (negb (x =? FREE_SECTOR)); cbn [length]; lia.
Qed.

Lemma sector_write_fine sid off bs s : off <= slen s -> fine (snd (sector_write sid off bs s)).
Proof.
  intros H. unfold sector_write, bind.
  destruct (seek_sector_spec sid off s H) as (r & -> & Hr).
  destruct r; try contradiction; cbv beta iota; exact I.
Qed.

Lemma fat_off_le i s : 4 * (i mod fat_per_sector s) <= slen s.
Proof.
  unfold fat_per_sector, slen. destruct (sector_len_cases (ver s)) as [E|E]; rewrite E.
  - change (512 / 4) with 128. pose proof (N.mod_lt i 128). lia.
  - change (4096 / 4) with 1024. pose proof (N.mod_lt i 1024). lia.
Qed.

Lemma set_fat_fine i v s : i <= lenN (fat s) -> fine (snd (set_fat i v s)).
Proof.
  intros Hi. unfold set_fat, bind, get. cbv beta iota zeta.
  destruct (N.ltb_spec (lenN (fat s)) i); [lia|].
  destruct (nthN (difat s) (i / fat_per_sector s)) as [fsid|]; [|exact I].
  pose proof (sector_write_fine fsid _ (le_bytes 4 v) s (fat_off_le i s)) as Hf.
  destruct (sector_write fsid (4 * (i mod fat_per_sector s)) (le_bytes 4 v) s) as [s1 r].
  destruct r; cbn [snd] in Hf; try contradiction; exact I.
Qed.

Lemma free_sector_fine sid s : sid <= lenN (fat s) -> fine (snd (free_sector sid s)).
Proof.
  intros Hi. unfold free_sector, bind, get. cbv beta iota zeta.
  pose proof (set_fat_fine sid FREE_SECTOR s Hi) as Hf.
  destruct (nthN (fat s) sid) as [v|]; [destruct (v =? FREE_SECTOR); [exact I|]|];
    destruct (set_fat sid FREE_SECTOR s) as [s1 r]; destruct r; cbn [snd] in Hf; try contradiction; exact I.
Qed.

Lemma free_sector_decreases sid s nx : next_of (fat s) sid = Ok nx ->
  forall a, snd (free_sector sid s) = Ok a ->
  (nfree (fat (fst (free_sector sid s))) < nfree (fat s))%nat.
Proof.
  intros Hn. apply next_of_Ok in Hn. destruct Hn as [Hc Hor].
  assert (Hnx : nx <> FREE_SECTOR).
  { pose proof MAXREG_lt_FREE. destruct Hor as [->|[? _]]; [exact EOC_ne_FREE|lia]. }
  unfold free_sector, bind, get. cbv beta iota zeta. rewrite Hc.
  destruct (N.eqb_spec nx FREE_SECTOR); [contradiction|].
  destruct (set_fat_spec sid FREE_SECTOR s) as (_ & _ & _ & Hok).
  destruct (set_fat sid FREE_SECTOR s) as [s1 r]. cbn [fst snd] in Hok.
  destruct r as [[]| | |]; cbn [fst snd]; intros a Ha; try discriminate.
  destruct (Hok tt eq_refl) as [_ Hf]. unfold modify. cbn [fst fat w_free]. rewrite Hf.
  pose proof (nthN_Some_lt _ _ _ Hc). unfold put_cell.
  destruct (N.eqb_spec sid (lenN (fat s))); [lia|]. eapply nfree_updN; eauto.
Qed.

Lemma free_chain_go_fine : forall f sid s, (nfree (fat s) < f)%nat ->
  fine (snd (free_chain_go f sid s)).
Proof.
  induction f as [|f IH]; intros sid s Hf; [lia|]. cbn [free_chain_go].
  destruct (sid =? END_OF_CHAIN); [exact I|]. unfold bind.
  change (next sid s) with (s, next_of (fat s) sid). cbv beta iota.
  pose proof (next_of_fine (fat s) sid) as Hnf.
  destruct (next_of (fat s) sid) as [nx| | |] eqn:E; try contradiction; try exact I.
  pose proof (free_sector_fine sid s) as Hff.
  pose proof (free_sector_decreases sid s nx E) as Hdec.
  destruct (free_sector sid s) as [s1 r]. cbn [fst snd] in *.
  assert (Hlt : sid <= lenN (fat s)) by (apply next_of_lt in E; lia). specialize (Hff Hlt).
  destruct r as [[]| | |]; try contradiction; try exact I.
  apply IH. specialize (Hdec tt eq_refl). lia.
Qed.

(* Deliverable 5: no premise on the table, the DIFAT or the free list *)
Theorem free_chain_fine start s : fine (snd (free_chain start s)).
Proof.
  unfold free_chain, bind, get. cbv beta iota.
  apply free_chain_go_fine. pose proof (nfree_le (fat s)). lia.
Qed.

Theorem free_chain_total start s :
  snd (free_chain start s) <> OutOfFuel /\ (forall p, snd (free_chain start s) <> Panic p).
Proof. apply fine_iff, free_chain_fine. Qed.

Theorem free_chain_after_fine sid s : fine (snd (free_chain_after sid s)).
Proof.
  unfold free_chain_after, bind. change (next sid s) with (s, next_of (fat s) sid). cbv beta iota.
  pose proof (next_of_fine (fat s) sid) as Hnf.
  destruct (next_of (fat s) sid) as [nx| | |] eqn:E; try contradiction; try exact I.
  assert (Hlt : sid <= lenN (fat s)) by (apply next_of_lt in E; lia).
  pose proof (set_fat_fine sid END_OF_CHAIN s Hlt) as Hf.
  destruct (set_fat sid END_OF_CHAIN s) as [s1 r]. cbn [snd] in Hf.
  destruct r as [[]| | |]; try contradiction; try exact I.
  apply free_chain_fine.
Qed.

(* ================================================================== *)
(* open establishes the full invariant                                 *)
(* ================================================================== *)
Lemma free_indices_In cells : forall i x,
  In x (free_indices cells i) <-> (i <= x /\ nthN cells (x - i) = Some FREE_SECTOR).
Proof.
  induction cells as [|c t IH]; intros i x; cbn [free_indices nthN].
  - split; [intros []|intros [_ H]; discriminate].
  - assert (Ht : In x (free_indices t (i + 1)) <-> i + 1 <= x /\ nthN t (x - (i + 1)) = Some FREE_SECTOR)
      by apply IH.
    destruct (N.eqb_spec (x - i) 0) as [Hz|Hz].
    + destruct (N.eqb_spec c FREE_SECTOR) as [->|Hc].
      * cbn [In]. rewrite Ht. split; [intros [<-|[H _]]; [split; [lia|reflexivity]|lia]|].
        intros [H _]. left. lia.
      * rewrite Ht. split; [intros [H _]; lia|]. intros [_ H]. congruence.
    + replace (N.pred (x - i)) with (x - (i + 1)) by lia.
      destruct (c =? FREE_SECTOR); cbn [In]; rewrite Ht; split.
      * intros [<-|[H1 H2]]; [lia|split; [lia|assumption]].
      * intros [H1 H2]. right. split; [lia|assumption].
      * intros [H1 H2]. split; [lia|assumption].
      * intros [H1 H2]. split; [lia|assumption].
Qed.

Lemma free_indices_NoDup cells : forall i, NoDup (free_indices cells i).
Proof.
  induction cells as [|c t IH]; intros i; cbn [free_indices]; [constructor|].
  destruct (c =? FREE_SECTOR); [|apply IH]. constructor; [|apply IH].
  intros H. apply free_indices_In in H. lia.
Qed.

Lemma free_indices_inv cells : FreeInv cells (free_indices cells 0).
Proof.
  split; [apply free_indices_NoDup|]. intros x Hx. apply free_indices_In in Hx.
  destruct Hx as [_ Hx]. rewrite N.sub_0_r in Hx. exact Hx.
Qed.

Lemma alloc_validate_free strict ns ids difat fat fat' fr :
  alloc_validate strict ns ids difat fat = Ok (fat', fr) -> fr = free_indices fat' 0.
Proof.
  unfold alloc_validate. destruct (_ <? _); [discriminate|].
  destruct (mark_sectors strict DIFAT_SECTOR ids fat) as [fat1| | |]; try discriminate. cbn [rbind].
  destruct (mark_sectors strict FAT_SECTOR difat fat1) as [fat2| | |]; try discriminate. cbn [rbind].
  destruct (check_pointees false fat2 (lenN fat2) []) as [[]| | |]; try discriminate. cbn [rbind].
  intros [= <- <-]. reflexivity.
Qed.

Theorem open_safe strict bytes s : open_model strict bytes = Ok s -> Safe s.
Proof.
  intros Hopen. pose proof (open_post _ _ _ Hopen) as (Hcp & _).
  split; [eapply walksafe_of_injective; eauto|].
  revert Hopen. unfold open_model. cbv zeta.
  destruct (_ <? HEADER_LEN); [discriminate|].
  intros H. apply rbind_Ok in H. destruct H as (h & _ & H).
  destruct (_ <? lenN bytes); [discriminate|].
  destruct (lenN bytes <? _); [discriminate|].
  apply rbind_Ok in H. destruct H as ([ids difat0] & _ & H). cbv beta iota in H.
  destruct (_ && _); [discriminate|].
  destruct (strict && negb _); [discriminate|].
  apply rbind_Ok in H. destruct H as (fat0 & _ & H).
  apply rbind_Ok in H. destruct H as ([fat4 fr] & Hav & H). cbv beta iota in H.
  apply alloc_validate_free in Hav.
  apply rbind_Ok in H. destruct H as (ds & _ & H).
  apply rbind_Ok in H. destruct H as (_ & _ & H).
  apply rbind_Ok in H. destruct H as ([c s1] & _ & H). cbv beta iota in H.
  destruct (_ && _); [discriminate|].
  apply rbind_Ok in H. destruct H as ([[c2 mbytes] s2] & _ & H). cbv beta iota in H.
  destruct ds as [|root t]; [discriminate|].
  apply rbind_Ok in H. destruct H as ([mf mfr] & _ & [= <-]).
  cbn [fat free]. subst fr. apply free_indices_inv.
Qed.

(* ================================================================== *)
(* Part D — MiniFAT                                                    *)
(* ================================================================== *)

(* ---- D0: operations that run over the FAT for the mini layer, generically ---- *)
Lemma chain_new_pres P start i : pres P (chain_new start i).
Proof. unfold chain_new. repeat pres_step idtac. Qed.
Lemma chain_seek_pres P c pos : pres P (chain_seek c pos).
Proof. unfold chain_seek. repeat pres_step idtac. Qed.
Lemma dir_entry_pres P id : pres P (dir_entry id).
Proof. unfold dir_entry. repeat pres_step idtac. Qed.
Lemma root_entry_pres P : pres P root_entry.
Proof. apply dir_entry_pres. Qed.
Lemma seek_sector_pres P sid off : pres P (seek_sector sid off).
Proof. unfold seek_sector. repeat pres_step idtac. Qed.

Lemma set_dir_entry_frames id e : frames (set_dir_entry id e).
Proof.
  unfold set_dir_entry, bind, get, put, panic. intros s. cbv beta iota.
  destruct (nthN (dirs s) id); cbn; repeat split.
Qed.

Section Generic.
Variable P : cstate -> Prop.
Hypothesis Hst : stable P.
Hypothesis H_cw : forall c bs, pres P (chain_write_all c bs).
Hypothesis H_ext : forall st i, pres P (extend_chain st i).
Hypothesis H_beg : forall i, pres P (begin_chain i).

Ltac gen_leaf :=
  idtac;
  match goal with
  | |- pres _ (chain_write_all _ _) => apply H_cw
  | |- pres _ (extend_chain _ _) => apply H_ext
  | |- pres _ (begin_chain _) => apply H_beg
  | |- pres _ (chain_new _ _) => apply chain_new_pres
  | |- pres _ (chain_seek _ _) => apply chain_seek_pres
  | |- pres _ (dir_entry _) => apply dir_entry_pres
  | |- pres _ root_entry => apply root_entry_pres
  | |- pres _ (seek_sector _ _) => apply seek_sector_pres
  | |- pres _ (set_dir_entry _ _) => apply spec_frame; [apply set_dir_entry_frames|exact Hst]
  | |- _ => frame_leaf Hst
  end.

Lemma write_dir_entry_gen id : pres P (write_dir_entry id).
Proof. unfold write_dir_entry. repeat pres_step gen_leaf. Qed.

Lemma with_dir_entry_mut_inner_gen id f : pres P (with_dir_entry_mut_inner id f).
Proof.
  unfold with_dir_entry_mut_inner. repeat pres_step ltac:(first [apply write_dir_entry_gen|gen_leaf]).
Qed.

(* on failure only [dirs] is put back: the tables [same] looks at are those of the inner run *)
Lemma with_dir_entry_mut_gen id f : pres P (with_dir_entry_mut id f).
Proof.
  intros s Hs. destruct (with_dir_entry_mut_inner_gen id f s Hs) as [HI HQ].
  unfold with_dir_entry_mut. destruct (with_dir_entry_mut_inner id f s) as [s1 r]. cbn [fst snd] in *.
  assert (HP' : P (w_dirs s1 (dirs s))) by (apply (Hst s1); [repeat split|exact HI]).
  destruct r as [u| | |]; cbn [fst snd]; (split; [assumption|]); try discriminate.
  intros a _. exact HI.
Qed.

Lemma append_mini_sector_gen : pres P append_mini_sector.
Proof.
  unfold append_mini_sector. repeat pres_step ltac:(first [apply with_dir_entry_mut_gen|gen_leaf]).
Qed.

Lemma mini_locate_gen ms off : pres P (mini_locate ms off).
Proof. unfold mini_locate. repeat pres_step gen_leaf. Qed.
End Generic.

(* ---- D1: the mini layer preserves the FAT invariant ---- *)
Ltac safe_gen :=
  first [exact Safe_stable|exact chain_write_all_safe|exact extend_chain_safe|exact begin_chain_safe].
Lemma write_dir_entry_safe id : pres Safe (write_dir_entry id).
Proof. apply write_dir_entry_gen; safe_gen. Qed.
Lemma with_dir_entry_mut_safe id f : pres Safe (with_dir_entry_mut id f).
Proof. apply with_dir_entry_mut_gen; safe_gen. Qed.
Lemma append_mini_sector_safe : pres Safe append_mini_sector.
Proof. apply append_mini_sector_gen; safe_gen. Qed.
Lemma mini_locate_safe ms off : pres Safe (mini_locate ms off).
Proof. apply mini_locate_gen; safe_gen. Qed.

Lemma same_sym s s' : same s s' -> same s' s.
Proof. unfold same. intros (a & b & c). repeat split; congruence. Qed.

(* [put] of a state built from an earlier [get] *)
Lemma safe_put_state s0 s1 : fat s1 = fat s0 -> free s1 = free s0 ->
  spec (fun s => Safe s /\ same s0 s) (put s1) (fun _ => Safe) Safe.
Proof.
  intros Hf Hr s [Hs (Hf' & Hr' & _)]. unfold put. cbn [fst snd].
  assert (Safe s1) by (unfold Safe in *; rewrite Hf, Hr, <- Hf', <- Hr'; exact Hs).
  split; [assumption|]. intros [] _. assumption.
Qed.

Ltac safe_leaf :=
  idtac;
  match goal with
  | |- pres _ (chain_write_all _ _) => apply chain_write_all_safe
  | |- pres _ (extend_chain _ _) => apply extend_chain_safe
  | |- pres _ (begin_chain _) => apply begin_chain_safe
  | |- pres _ (chain_new _ _) => apply chain_new_pres
  | |- pres _ (chain_seek _ _) => apply chain_seek_pres
  | |- pres _ (dir_entry _) => apply dir_entry_pres
  | |- pres _ root_entry => apply root_entry_pres
  | |- pres _ (seek_sector _ _) => apply seek_sector_pres
  | |- pres _ (with_dir_entry_mut _ _) => apply with_dir_entry_mut_safe
  | |- pres _ append_mini_sector => apply append_mini_sector_safe
  | |- pres _ (mini_locate _ _) => apply mini_locate_safe
  | |- pres Safe (modify _) => apply pres_modify; intros ? Hx; exact Hx
  | |- _ => frame_leaf Safe_stable
  end.

Lemma set_minifat_safe i v : pres Safe (set_minifat i v).
Proof. unfold set_minifat. repeat pres_step safe_leaf. Qed.

Lemma pop_free_mini_safe : forall f, pres Safe (pop_free_mini f).
Proof.
  induction f as [|f IH]; cbn [pop_free_mini]; [apply pres_unchanged; reflexivity|].
  unfold pres. apply spec_get_bind. intros s0 H0.
  destruct (lastN (mfree s0)) as [idx|]; [|apply spec_ret; tauto].
  eapply spec_bind with (Q := fun _ => Safe); [apply safe_put_state; reflexivity|intros ?].
  repeat pres_step ltac:(apply IH).
Qed.

Lemma allocate_mini_sector_safe v : pres Safe (allocate_mini_sector v).
Proof.
  unfold allocate_mini_sector.
  repeat pres_step ltac:(first [apply pop_free_mini_safe|apply set_minifat_safe|safe_leaf]).
Qed.

Lemma extend_mini_chain_safe start : pres Safe (extend_mini_chain start).
Proof.
  unfold extend_mini_chain.
  repeat pres_step ltac:(first [apply allocate_mini_sector_safe|apply set_minifat_safe]).
Qed.

Lemma free_mini_sector_safe ms : pres Safe (free_mini_sector ms).
Proof.
  unfold free_mini_sector. apply pres_bind; [apply pres_unchanged; reflexivity|intros s0].
  destruct (nthN (minifat s0) ms) as [v|]; [|apply pres_unchanged; reflexivity].
  destruct (v =? FREE_SECTOR); [apply pres_unchanged; reflexivity|].
  apply pres_bind; [apply set_minifat_safe|intros ?].
  apply pres_bind; [safe_leaf|intros ?].
  apply pres_bind; [apply root_entry_pres|intros r].
  apply pres_bind; [destruct (negb _); apply pres_unchanged; reflexivity|intros ?].
  unfold pres. apply spec_get_bind. intros s1 H1.
  destruct (strip_free (minifat s1) 0) as [mf' k]. cbv beta iota zeta.
  eapply spec_bind with (Q := fun _ => Safe); [apply safe_put_state; reflexivity|intros ?].
  repeat pres_step safe_leaf.
Qed.

Lemma free_mini_chain_go_safe : forall f ms, pres Safe (free_mini_chain_go f ms).
Proof.
  induction f as [|f IH]; intros ms; cbn [free_mini_chain_go]; [apply pres_unchanged; reflexivity|].
  unfold next_mini. repeat pres_step ltac:(first [apply free_mini_sector_safe|apply IH]).
Qed.

Lemma free_mini_chain_safe start : pres Safe (free_mini_chain start).
Proof. unfold free_mini_chain. repeat pres_step ltac:(apply free_mini_chain_go_safe). Qed.

Lemma free_mini_chain_after_safe ms : pres Safe (free_mini_chain_after ms).
Proof.
  unfold free_mini_chain_after, next_mini.
  repeat pres_step ltac:(first [apply free_mini_chain_safe|apply set_minifat_safe]).
Qed.

Lemma mchain_grow_safe : forall n c, pres Safe (mchain_grow n c).
Proof.
  induction n as [|n IH]; intros c; cbn [mchain_grow]; [apply pres_unchanged; reflexivity|].
  unfold begin_mini_chain.
  repeat pres_step ltac:(first [apply extend_mini_chain_safe|apply allocate_mini_sector_safe|apply IH]).
Qed.

Lemma mchain_set_len_safe c new_len : pres Safe (mchain_set_len c new_len).
Proof.
  unfold mchain_set_len.
  repeat pres_step ltac:(first [apply free_mini_chain_safe|apply free_mini_chain_after_safe|apply mchain_grow_safe]).
Qed.

Lemma mchain_write_go_safe : forall f c bs, pres Safe (mchain_write_go f c bs).
Proof.
  induction f as [|f IH]; intros c bs; cbn [mchain_write_go]; [apply pres_unchanged; reflexivity|].
  unfold begin_mini_chain.
  repeat pres_step ltac:(first [apply extend_mini_chain_safe|apply allocate_mini_sector_safe|apply IH|safe_leaf]).
Qed.

Lemma mchain_write_all_safe c bs : pres Safe (mchain_write_all c bs).
Proof. unfold mchain_write_all. apply mchain_write_go_safe. Qed.

(* ---- D2: the FAT layer does not touch the MiniFAT table ---- *)
Definition mf (G : list N -> Prop) (s : cstate) : Prop := G (minifat s).

Lemma mf_stable G : stable (mf G).
Proof. intros s s' (_ & _ & Hm) H. unfold mf in *. rewrite Hm. assumption. Qed.

Lemma set_fat_mf G i v : pres (mf G) (set_fat i v).
Proof.
  apply spec_set_fat; unfold mf.
  - intros s s' H _ Hm _. rewrite Hm. assumption.
  - intros s s' H _ Hm _ _. rewrite Hm. split; assumption.
Qed.

Ltac mf_leaf G :=
  idtac;
  match goal with
  | |- pres _ (set_fat _ _) => apply set_fat_mf
  | |- pres _ (modify _) => apply pres_modify; intros ? Hx; exact Hx
  | |- _ => frame_leaf (mf_stable G)
  end.

Lemma free_sector_mf G sid : pres (mf G) (free_sector sid).
Proof. unfold free_sector. repeat pres_step ltac:(mf_leaf G). Qed.
Lemma free_chain_go_mf G : forall f sid, pres (mf G) (free_chain_go f sid).
Proof.
  induction f as [|f IH]; intros sid; cbn [free_chain_go]; [apply pres_unchanged; reflexivity|].
  repeat pres_step ltac:(first [apply free_sector_mf|apply IH]).
Qed.
Lemma free_chain_mf G start : pres (mf G) (free_chain start).
Proof. unfold free_chain. repeat pres_step ltac:(apply free_chain_go_mf). Qed.
Lemma free_chain_after_mf G sid : pres (mf G) (free_chain_after sid).
Proof. unfold free_chain_after. repeat pres_step ltac:(first [apply free_chain_mf|mf_leaf G]). Qed.
Lemma append_fat_sector_mf G : pres (mf G) append_fat_sector.
Proof. unfold append_fat_sector. repeat pres_step ltac:(mf_leaf G). Qed.
Lemma allocate_sector_mf G i : pres (mf G) (allocate_sector i).
Proof. unfold allocate_sector. repeat pres_step ltac:(first [apply append_fat_sector_mf|mf_leaf G]). Qed.
Lemma begin_chain_mf G i : pres (mf G) (begin_chain i).
Proof. apply allocate_sector_mf. Qed.
Lemma extend_chain_mf G start i : pres (mf G) (extend_chain start i).
Proof. unfold extend_chain. repeat pres_step ltac:(first [apply allocate_sector_mf|mf_leaf G]). Qed.
Lemma chain_grow_mf G : forall n c, pres (mf G) (chain_grow n c).
Proof.
  induction n as [|n IH]; intros c; cbn [chain_grow]; [apply pres_unchanged; reflexivity|].
  repeat pres_step ltac:(first [apply extend_chain_mf|apply begin_chain_mf|apply IH]).
Qed.
Lemma chain_set_len_mf G c new_len : pres (mf G) (chain_set_len c new_len).
Proof.
  unfold chain_set_len.
  repeat pres_step ltac:(first [apply free_chain_mf|apply free_chain_after_mf|apply chain_grow_mf]).
Qed.
Lemma chain_write_go_mf G : forall f c bs, pres (mf G) (chain_write_go f c bs).
Proof.
  induction f as [|f IH]; intros c bs; cbn [chain_write_go]; [apply pres_unchanged; reflexivity|].
  repeat pres_step ltac:(first [apply extend_chain_mf|apply begin_chain_mf|apply IH|mf_leaf G]).
Qed.
Lemma chain_write_all_mf G c bs : pres (mf G) (chain_write_all c bs).
Proof. unfold chain_write_all. repeat pres_step ltac:(apply chain_write_go_mf). Qed.

Ltac mf_gen G :=
  first [exact (mf_stable G)|exact (chain_write_all_mf G)|exact (extend_chain_mf G)|exact (begin_chain_mf G)].
Lemma with_dir_entry_mut_mf G id f : pres (mf G) (with_dir_entry_mut id f).
Proof. apply with_dir_entry_mut_gen; mf_gen G. Qed.
Lemma append_mini_sector_mf G : pres (mf G) append_mini_sector.
Proof. apply append_mini_sector_gen; mf_gen G. Qed.
Lemma mini_locate_mf G ms off : pres (mf G) (mini_locate ms off).
Proof. apply mini_locate_gen; mf_gen G. Qed.

(* ---- D3: the MiniFAT table keeps WalkSafe ---- *)
Lemma spec_weaken {A} P (m : M A) (I : cstate -> Prop) :
  pres P m -> (forall s, P s -> I s) -> spec P m (fun _ => P) I.
Proof. intros H HI. eapply spec_conseq; [exact H| | |]; auto. Qed.

Lemma spec_pre {A} P P' (m : M A) (Q : A -> cstate -> Prop) (I : cstate -> Prop) :
  spec P m Q I -> (forall s, P' s -> P s) -> spec P' m Q I.
Proof. intros H HP. eapply spec_conseq; [exact H| | |]; auto. Qed.

Ltac mfull_leaf G :=
  idtac;
  match goal with
  | |- pres _ (chain_write_all _ _) => apply chain_write_all_mf
  | |- pres _ (extend_chain _ _) => apply extend_chain_mf
  | |- pres _ (begin_chain _) => apply begin_chain_mf
  | |- pres _ (chain_new _ _) => apply chain_new_pres
  | |- pres _ (chain_seek _ _) => apply chain_seek_pres
  | |- pres _ (dir_entry _) => apply dir_entry_pres
  | |- pres _ root_entry => apply root_entry_pres
  | |- pres _ (seek_sector _ _) => apply seek_sector_pres
  | |- pres _ (with_dir_entry_mut _ _) => apply with_dir_entry_mut_mf
  | |- pres _ append_mini_sector => apply append_mini_sector_mf
  | |- pres _ (mini_locate _ _) => apply mini_locate_mf
  | |- _ => frame_leaf (mf_stable G)
  end.

(* set_minifat: the only writer of single cells *)
Lemma spec_set_minifat (G Q I : list N -> Prop) i v :
  (forall m, G m -> I m) ->
  (forall m, G m -> i <= lenN m -> I (put_cell m i v) /\ Q (put_cell m i v)) ->
  spec (mf G) (set_minifat i v) (fun _ => mf Q) (mf I).
Proof.
  intros HGI Hput. unfold set_minifat. apply spec_get_bind. intros s0 H0. unfold mf in H0.
  set (G1 := fun m => m = minifat s0).
  assert (HI1 : forall s, mf G1 s -> mf I s).
  { intros s Hs. unfold mf, G1 in *. rewrite Hs. auto. }
  eapply spec_conseq with (P := mf G1) (Q := fun _ => mf Q) (I := mf I); auto.
  2:{ intros s [_ (_ & _ & Hm)]. exact Hm. }
  destruct (N.ltb_spec (lenN (minifat s0)) i) as [Hi|Hi]; [apply spec_panic; assumption|].
  eapply spec_bind; [apply spec_weaken; [apply chain_new_pres|assumption]|intros c].
  destruct (_ <? _); [apply spec_fail; assumption|].
  eapply spec_bind; [apply spec_weaken; [apply chain_seek_pres|assumption]|intros c'].
  eapply spec_bind; [apply spec_weaken; [apply chain_write_all_mf|assumption]|intros ?].
  apply spec_modify. intros s Hs. unfold mf, G1 in *. cbn [minifat w_minifat]. rewrite Hs.
  apply (Hput _ H0 Hi).
Qed.

Lemma set_minifat_marker_mf i v : marker v -> pres (mf WalkSafe) (set_minifat i v).
Proof.
  intros Hv. apply spec_set_minifat; [auto|]. intros m Hm _.
  split; apply walksafe_put_marker; assumption.
Qed.

Theorem set_minifat_walksafe i v s : v > MAX_REGULAR_SECTOR ->
  WalkSafe (minifat s) -> WalkSafe (minifat (fst (set_minifat i v s))).
Proof. intros Hv. apply (pres_fst (mf WalkSafe)), set_minifat_marker_mf. unfold marker. lia. Qed.

(* truncation: strip_free pops trailing FREE cells *)
Lemma walksafe_truncate_many l : forall t, Forall marker t -> WalkSafe (l ++ t) -> WalkSafe l.
Proof.
  intros t. induction t as [|v t IH] using rev_ind; intros Hall H.
  - rewrite app_nil_r in H. assumption.
  - apply Forall_app in Hall. destruct Hall as [Ht Hv]. inversion Hv; subst.
    apply IH; [assumption|]. rewrite app_assoc in H.
    apply walksafe_truncate with v; [assumption|]. unfold marker in *. lia.
Qed.

Lemma strip_free_split : forall l n,
  exists t, l = fst (strip_free l n) ++ t /\ Forall marker t.
Proof.
  induction l as [|x t IH]; intros n; cbn [strip_free].
  - exists []. split; [reflexivity|constructor].
  - destruct (IH n) as (tt & Ht & Hall). destruct (strip_free t n) as [t' k]. cbn [fst] in Ht.
    destruct t' as [|y t''].
    + destruct (N.eqb_spec x FREE_SECTOR) as [->|Hx]; cbn [fst].
      * exists (FREE_SECTOR :: t). split; [reflexivity|]. rewrite Ht.
        constructor; [exact marker_FREE|assumption].
      * exists tt. rewrite Ht. split; [reflexivity|assumption].
    + cbn [fst]. exists tt. rewrite Ht. split; [reflexivity|assumption].
Qed.

Theorem walksafe_strip_free l n : WalkSafe l -> WalkSafe (fst (strip_free l n)).
Proof.
  intros H. destruct (strip_free_split l n) as (t & Ht & Hall).
  apply walksafe_truncate_many with t; [assumption|]. rewrite <- Ht. assumption.
Qed.

Lemma free_mini_sector_mf ms : pres (mf WalkSafe) (free_mini_sector ms).
Proof.
  unfold free_mini_sector. apply pres_bind; [apply pres_unchanged; reflexivity|intros s0].
  destruct (nthN (minifat s0) ms) as [v|]; [|apply pres_unchanged; reflexivity].
  destruct (v =? FREE_SECTOR); [apply pres_unchanged; reflexivity|].
  apply pres_bind; [apply set_minifat_marker_mf; exact marker_FREE|intros ?].
  apply pres_bind; [apply pres_modify; intros ? Hx; exact Hx|intros ?].
  apply pres_bind; [apply root_entry_pres|intros r].
  apply pres_bind; [destruct (negb _); apply pres_unchanged; reflexivity|intros ?].
  unfold pres. apply spec_get_bind. intros s1 H1.
  pose proof (walksafe_strip_free _ 0 H1) as Hsf.
  destruct (strip_free (minifat s1) 0) as [mf' k]. cbn [fst] in Hsf. cbv beta iota zeta.
  eapply spec_bind with (Q := fun _ => mf WalkSafe).
  { intros s Hs. unfold put, mf. cbn [fst snd minifat w_mfree w_minifat]. split; [assumption|].
    intros [] _. assumption. }
  intros ?. repeat pres_step ltac:(mfull_leaf WalkSafe).
Qed.

Lemma free_mini_chain_go_mf : forall f ms, pres (mf WalkSafe) (free_mini_chain_go f ms).
Proof.
  induction f as [|f IH]; intros ms; cbn [free_mini_chain_go]; [apply pres_unchanged; reflexivity|].
  unfold next_mini. repeat pres_step ltac:(first [apply free_mini_sector_mf|apply IH]).
Qed.

Lemma free_mini_chain_mf start : pres (mf WalkSafe) (free_mini_chain start).
Proof. unfold free_mini_chain. repeat pres_step ltac:(apply free_mini_chain_go_mf). Qed.

Lemma free_mini_chain_after_mf ms : pres (mf WalkSafe) (free_mini_chain_after ms).
Proof.
  unfold free_mini_chain_after, next_mini.
  repeat pres_step ltac:(first [apply free_mini_chain_mf|apply set_minifat_marker_mf; exact marker_EOC]).
Qed.

(* pop_free_mini re-validates the popped entry, so no free-list invariant is
   needed on the mini side *)
Lemma pop_free_mini_mf G : forall f,
  spec (mf G) (pop_free_mini f)
       (fun got s => G (minifat s) /\ forall idx, got = Some idx -> nthN (minifat s) idx = Some FREE_SECTOR)
       (mf G).
Proof.
  induction f as [|f IH]; cbn [pop_free_mini]; [apply spec_oof; auto|].
  apply spec_get_bind. intros s0 H0. unfold mf in H0.
  destruct (lastN (mfree s0)) as [idx|].
  2:{ apply spec_ret. unfold mf. intros s [Hs _]. repeat split; auto. discriminate. }
  eapply spec_bind with (Q := fun _ s => G (minifat s) /\ minifat s = minifat s0).
  { intros s [Hs _]. unfold put, mf. cbn [fst snd minifat w_mfree]. split; [assumption|].
    intros [] _. auto. }
  intros ?. destruct (nthN (minifat s0) idx) as [v|] eqn:E; [|apply spec_panic; unfold mf; tauto].
  destruct (N.eqb_spec v FREE_SECTOR) as [->|Hv].
  - apply spec_ret. unfold mf. intros s [Hs Hm]. repeat split; auto.
    intros idx' [= <-]. rewrite Hm. assumption.
  - eapply spec_conseq; [apply IH| | |]; unfold mf; auto. tauto.
Qed.

Definition GL (L : N -> Prop) (m : list N) : Prop :=
  WalkSafe m /\ forall x, L x -> nthN m x = Some END_OF_CHAIN.

Lemma GL_put L m i v : GL L m -> marker v -> i <= lenN m -> ~ L i ->
  GL L (put_cell m i v) /\ nthN (put_cell m i v) i = Some v.
Proof.
  intros [Hw HL] Hv Hi Hn. split; [split|].
  - apply walksafe_put_marker; assumption.
  - intros x Hx. pose proof (HL x Hx) as Hc. rewrite nthN_put_cell_ne; [assumption| |eapply nthN_Some_lt; eauto].
    intros ->. contradiction.
  - apply nthN_put_cell_eq. assumption.
Qed.

Lemma allocate_mini_sector_spec L v : marker v ->
  spec (mf (GL L)) (allocate_mini_sector v)
       (fun new s => GL L (minifat s) /\ nthN (minifat s) new = Some v /\ ~ L new)
       (mf WalkSafe).
Proof.
  intros Hv. unfold allocate_mini_sector.
  assert (HGI : forall s, mf (GL L) s -> mf WalkSafe s) by (intros s [H _]; exact H).
  eapply spec_bind; [apply spec_weaken; [apply pres_unchanged; reflexivity|exact HGI]|intros s0].
  eapply spec_bind with
    (Q := fun got s => GL L (minifat s) /\ forall idx, got = Some idx -> nthN (minifat s) idx = Some FREE_SECTOR);
    [eapply spec_conseq; [apply (pop_free_mini_mf (GL L))| | |]; auto|intros got].
  destruct got as [idx|].
  - (* reuse *)
    eapply spec_bind with
      (Q := fun _ => mf (fun m => GL L m /\ nthN m idx = Some v /\ ~ L idx)).
    { eapply spec_conseq with (P := mf (fun m => GL L m /\ nthN m idx = Some FREE_SECTOR));
        [apply spec_set_minifat with (I := WalkSafe)
           (Q := fun m => GL L m /\ nthN m idx = Some v /\ ~ L idx)| | |]; unfold mf; auto.
      - intros m [[H _] _]. exact H.
      - intros m [Hg Hc] Hi.
        assert (HnL : ~ L idx).
        { intros HL. destruct Hg as [_ Hg]. specialize (Hg _ HL). rewrite Hc in Hg.
          apply EOC_ne_FREE. congruence. }
        destruct (GL_put L m idx v Hg Hv Hi HnL) as [Hg' Hc']. split; [apply Hg'|auto].
      - intros s [Hg Hc]. split; [assumption|]. apply Hc. reflexivity. }
    intros ?. apply spec_ret. unfold mf. intros s (Hg & Hc & Hn). split; [apply Hg|auto].
  - (* grow *)
    apply spec_pre with (P := mf (GL L)); [|unfold mf; tauto].
    eapply spec_bind; [apply spec_weaken; [apply pres_unchanged; reflexivity|exact HGI]|intros s1].
    cbv zeta.
    eapply spec_bind with (Q := fun _ => mf (GL L)).
    { apply spec_weaken; [|exact HGI].
      repeat pres_step ltac:(first [mfull_leaf (GL L)
                                    |apply pres_modify; intros ? Hx; exact Hx]). }
    intros ?. apply spec_get_bind. intros s2 H2. cbv zeta.
    eapply spec_bind with (Q := fun _ s => mf (GL L) s /\ same s2 s).
    { eapply spec_conseq; [apply (root_entry_pres (fun s => mf (GL L) s /\ same s2 s))| | |]; auto.
      intros s [H _]. exact (HGI s H). }
    intros r.
    (* the mini stream grows first (or not at all): the MiniFAT cache is untouched *)
    eapply spec_bind with (Q := fun _ => mf (fun m => GL L m /\ m = minifat s2)).
    { apply spec_pre with (P := mf (fun m => GL L m /\ m = minifat s2)).
      - apply spec_weaken;
          [destruct (_ <? _); [apply append_mini_sector_mf|apply pres_unchanged; reflexivity]|].
        unfold mf. intros s [[H _] _]. exact H.
      - unfold mf. intros s [Hg (_ & _ & Hm)]. auto. }
    intros ?.
    eapply spec_bind with
      (Q := fun _ => mf (fun m => GL L m /\ nthN m (lenN (minifat s2)) = Some v /\ ~ L (lenN (minifat s2)))).
    { apply spec_set_minifat with (I := WalkSafe)
           (Q := fun m => GL L m /\ nthN m (lenN (minifat s2)) = Some v /\ ~ L (lenN (minifat s2))).
      - intros m [[H _] _]. exact H.
      - intros m [Hg ->] Hi.
        assert (HnL : ~ L (lenN (minifat s2))).
        { intros HL. destruct Hg as [_ Hg]. specialize (Hg _ HL). apply nthN_Some_lt in Hg. lia. }
        destruct (GL_put L _ _ v Hg Hv Hi HnL) as [Hg' Hc']. split; [apply Hg'|auto]. }
    intros ?.
    apply spec_ret. unfold mf. intros s (Hg & Hc & Hn). split; [apply Hg|auto].
Qed.

Lemma allocate_mini_sector_mf v : marker v -> pres (mf WalkSafe) (allocate_mini_sector v).
Proof.
  intros Hv. eapply spec_conseq; [apply (allocate_mini_sector_spec (fun _ => False) v Hv)| | |]; unfold mf, GL.
  - intros s H. split; [assumption|]. intros x [].
  - intros a s [[H _] _]. exact H.
  - auto.
Qed.

Lemma extend_mini_chain_mf start : pres (mf WalkSafe) (extend_mini_chain start).
Proof.
  unfold extend_mini_chain, pres. destruct (start =? END_OF_CHAIN); [apply spec_panic; auto|].
  apply spec_get_bind. intros s0 H0.
  eapply spec_bind with (Q := fun last => mf (fun m => WalkSafe m /\ nthN m last = Some END_OF_CHAIN)).
  { apply spec_lift. unfold mf. intros s [Hs (_ & _ & Hm)]. split; [assumption|]. intros last Hl.
    split; [assumption|]. rewrite Hm. eapply find_last_go_Ok; eauto. }
  intros last.
  eapply spec_bind with
    (Q := fun new => mf (fun m => WalkSafe m /\ nthN m last = Some END_OF_CHAIN /\
                                 nthN m new = Some END_OF_CHAIN /\ last <> new)).
  { eapply spec_conseq; [apply (allocate_mini_sector_spec (eq last) END_OF_CHAIN marker_EOC)| | |];
      unfold mf, GL; auto.
    - intros s [Hs Hc]. split; [assumption|]. intros x <-. assumption.
    - intros new s ([Hs HL] & Hc & Hne). repeat split; auto. }
  intros new.
  eapply spec_bind with (Q := fun _ => mf WalkSafe); [|intros ?; apply spec_ret; auto].
  apply spec_set_minifat.
  - intros m [H _]. exact H.
  - intros m (Hw & Hl & Hc & Hne) Hi.
    pose proof (nthN_Some_lt _ _ _ Hl) as Hlt.
    assert (Hw' : WalkSafe (put_cell m last new)); [|auto].
    unfold put_cell. destruct (N.eqb_spec last (lenN m)); [lia|].
    apply walksafe_link_to_end with END_OF_CHAIN; auto. pose proof MAXREG_lt_EOC. lia.
Qed.

Lemma mchain_grow_mf : forall n c, pres (mf WalkSafe) (mchain_grow n c).
Proof.
  induction n as [|n IH]; intros c; cbn [mchain_grow]; [apply pres_unchanged; reflexivity|].
  unfold begin_mini_chain.
  repeat pres_step ltac:(first [apply extend_mini_chain_mf
                                |apply allocate_mini_sector_mf; exact marker_EOC|apply IH]).
Qed.

Lemma mchain_set_len_mf c new_len : pres (mf WalkSafe) (mchain_set_len c new_len).
Proof.
  unfold mchain_set_len.
  repeat pres_step ltac:(first [apply free_mini_chain_mf|apply free_mini_chain_after_mf|apply mchain_grow_mf]).
Qed.

Lemma mchain_write_go_mf : forall f c bs, pres (mf WalkSafe) (mchain_write_go f c bs).
Proof.
  induction f as [|f IH]; intros c bs; cbn [mchain_write_go]; [apply pres_unchanged; reflexivity|].
  unfold begin_mini_chain.
  repeat pres_step ltac:(first [apply extend_mini_chain_mf
                                |apply allocate_mini_sector_mf; exact marker_EOC|apply IH
                                |mfull_leaf WalkSafe]).
Qed.

Lemma mchain_write_all_mf c bs : pres (mf WalkSafe) (mchain_write_all c bs).
Proof. unfold mchain_write_all. apply mchain_write_go_mf. Qed.

(* Deliverable 6, state level.  The whole invariant of C11: *)
Definition AllSafe (s : cstate) : Prop := Safe s /\ WalkSafe (minifat s).

Lemma pres_both {A} (m : M A) : pres Safe m -> pres (mf WalkSafe) m -> pres AllSafe m.
Proof.
  intros H1 H2 s [Hs Hm]. destruct (H1 s Hs) as [H1a H1b]. destruct (H2 s Hm) as [H2a H2b].
  unfold AllSafe. split; [split; assumption|]. intros a Ha. split; [apply (H1b a Ha)|apply (H2b a Ha)].
Qed.

Theorem free_mini_sector_walksafe ms s :
  WalkSafe (minifat s) -> WalkSafe (minifat (fst (free_mini_sector ms s))).
Proof. apply (pres_fst (mf WalkSafe)), free_mini_sector_mf. Qed.
Theorem allocate_mini_sector_walksafe v s : v > MAX_REGULAR_SECTOR ->
  WalkSafe (minifat s) -> WalkSafe (minifat (fst (allocate_mini_sector v s))).
Proof. intros Hv. apply (pres_fst (mf WalkSafe)), allocate_mini_sector_mf. unfold marker. lia. Qed.
Theorem extend_mini_chain_walksafe start s :
  WalkSafe (minifat s) -> WalkSafe (minifat (fst (extend_mini_chain start s))).
Proof. apply (pres_fst (mf WalkSafe)), extend_mini_chain_mf. Qed.
Theorem free_mini_chain_walksafe start s :
  WalkSafe (minifat s) -> WalkSafe (minifat (fst (free_mini_chain start s))).
Proof. apply (pres_fst (mf WalkSafe)), free_mini_chain_mf. Qed.
Theorem free_mini_chain_after_walksafe ms s :
  WalkSafe (minifat s) -> WalkSafe (minifat (fst (free_mini_chain_after ms s))).
Proof. apply (pres_fst (mf WalkSafe)), free_mini_chain_after_mf. Qed.
Theorem mchain_set_len_walksafe c n s :
  WalkSafe (minifat s) -> WalkSafe (minifat (fst (mchain_set_len c n s))).
Proof. apply (pres_fst (mf WalkSafe)), mchain_set_len_mf. Qed.
Theorem mchain_write_all_walksafe c bs s :
  WalkSafe (minifat s) -> WalkSafe (minifat (fst (mchain_write_all c bs s))).
Proof. apply (pres_fst (mf WalkSafe)), mchain_write_all_mf. Qed.

(* FAT operations leave the MiniFAT alone, mini operations keep the FAT invariant *)
Theorem chain_set_len_allsafe c n s : AllSafe s -> AllSafe (fst (chain_set_len c n s)).
Proof. apply pres_fst, pres_both; [apply chain_set_len_safe|apply chain_set_len_mf]. Qed.
Theorem chain_write_all_allsafe c bs s : AllSafe s -> AllSafe (fst (chain_write_all c bs s)).
Proof. apply pres_fst, pres_both; [apply chain_write_all_safe|apply chain_write_all_mf]. Qed.
Theorem mchain_set_len_allsafe c n s : AllSafe s -> AllSafe (fst (mchain_set_len c n s)).
Proof. apply pres_fst, pres_both; [apply mchain_set_len_safe|apply mchain_set_len_mf]. Qed.
Theorem mchain_write_all_allsafe c bs s : AllSafe s -> AllSafe (fst (mchain_write_all c bs s)).
Proof. apply pres_fst, pres_both; [apply mchain_write_all_safe|apply mchain_write_all_mf]. Qed.
Theorem with_dir_entry_mut_allsafe id f s : AllSafe s -> AllSafe (fst (with_dir_entry_mut id f s)).
Proof. apply pres_fst, pres_both; [apply with_dir_entry_mut_safe|apply with_dir_entry_mut_mf]. Qed.

Theorem open_allsafe strict bytes s : open_model strict bytes = Ok s -> AllSafe s.
Proof.
  intros H. split; [eapply open_safe; eauto|].
  apply open_post in H. destruct H as (_ & H & _). eapply walksafe_of_injective; eauto.
Qed.

Theorem allsafe_walks_total s : AllSafe s -> forall start,
  fine (chain_ids_of (fat s) start) /\ fine (chain_ids_of (minifat s) start).
Proof. intros [[H1 _] H2] start. split; apply walksafe_walk_fine; assumption. Qed.

(* ================================================================== *)
(* WalkSafe of the table ALONE is not preserved by extend_chain: a stale
   free-list entry naming the last sector of a chain makes extend_chain link
   that sector to itself; a walk that enters the self-loop from outside
   never comes back to its start.  (Such a state is not reachable: it
   violates FreeInv, which open establishes and every operation keeps.) *)
Definition stale_state : cstate :=
  mkState V3 [[]; []; []; []] 3 [] [0] [FAT_SECTOR; END_OF_CHAIN; 1] [1] [] 0 [] END_OF_CHAIN [].

Example extend_chain_needs_freeinv :
  WalkSafe (fat stale_state) /\
  snd (extend_chain 1 IZero stale_state) = Ok 1 /\
  fat (fst (extend_chain 1 IZero stale_state)) = [FAT_SECTOR; 1; 1] /\
  chain_ids_of (fat (fst (extend_chain 1 IZero stale_state))) 2 = OutOfFuel.
Proof.
  split; [apply (walksafe_of_injective false); vm_compute; reflexivity|].
  vm_compute. repeat split.
Qed.

(* ================================================================== *)
Check walksafe_of_injective.
Check walksafe_walk_total.
Check walksafe_iff_terminates.
Check walksafe_set_marker.
Check walksafe_append.
Check walksafe_link_to_end.
Check walksafe_truncate.
Check walksafe_strip_free.
Check set_fat_walksafe.
Check free_sector_walksafe.
Check free_chain_walksafe.
Check free_chain_after_walksafe.
Check append_fat_sector_walksafe.
Check allocate_sector_walksafe.
Check begin_chain_walksafe.
Check set_fat_safe.
Check free_sector_preserves.
Check free_chain_preserves.
Check free_chain_after_preserves.
Check append_fat_sector_preserves.
Check allocate_sector_preserves.
Check allocate_sector_fresh.
Check begin_chain_preserves.
Check extend_chain_preserves.
Check chain_grow_preserves.
Check chain_set_len_preserves.
Check chain_write_all_preserves.
Check free_chain_total.
Check free_chain_after_fine.
Check open_safe.
Check open_allsafe.
Check set_minifat_walksafe.
Check free_mini_sector_walksafe.
Check allocate_mini_sector_walksafe.
Check extend_mini_chain_walksafe.
Check mchain_set_len_allsafe.
Check mchain_write_all_allsafe.
Check chain_set_len_allsafe.
Check chain_write_all_allsafe.
Check allsafe_walks_total.
Check extend_chain_needs_freeinv.
Print Assumptions walksafe_of_injective.
Print Assumptions walksafe_walk_total.
Print Assumptions walksafe_link_to_end.
Print Assumptions walksafe_append.
Print Assumptions walksafe_set_marker.
Print Assumptions extend_chain_preserves.
Print Assumptions chain_set_len_allsafe.
Print Assumptions chain_write_all_allsafe.
Print Assumptions mchain_set_len_allsafe.
Print Assumptions mchain_write_all_allsafe.
Print Assumptions free_chain_total.
Print Assumptions open_allsafe.
Print Assumptions extend_chain_needs_freeinv.

(* kept last: the only dependency on model/Cfb.v (and through it Store/Handle) *)
From Cfb.model Require Cfb.
Theorem create_allsafe v : AllSafe (Cfb.model.Cfb.create_state v).
Proof.
  unfold Cfb.model.Cfb.create_state, AllSafe, Safe. cbn [fat free minifat]. repeat split.
  - apply (walksafe_of_injective false). vm_compute. reflexivity.
  - constructor.
  - intros x [].
  - apply (walksafe_of_injective false). reflexivity.
Qed.
Check create_allsafe.
Print Assumptions create_allsafe.
