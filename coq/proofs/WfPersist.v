(* WfPersist.v -- property C03 "every image the library produces is a well-formed
   compound file", for namespace histories: the independent checker of
   spec/WfImage.v ([wf_check], written from MS-CFB, sharing no code with the
   model) accepts the bytes of every state reached by a history of
   create_storage / create_new_stream / remove_storage / remove_stream (of empty
   streams) / the four metadata setters / the queries, on a new file.

   Main results
     pinv_image_wf    PInv s -> EmptyStreams s -> Owned s -> RootEmpty s ->
                      Tidy (dirs s) -> wf_check (concat_img (img s)) = 0
                      (all 50 rules of the checker)
     step_xinv        the three side conditions are kept by every covered step
     wf_history       the checker accepts the image after every covered history
                      (same hypotheses as PersistProofs.persist_history)
     wf_every_prefix  ... and at every intermediate point
     WfExample        non-vacuity, also confirmed by computation

   The side conditions of [pinv_image_wf] are facts that hold in every state of
   a covered history but that the invariant [PInv] of PersistProofs.v does not
   record (it was designed for the reopen round trip, which does not need them):
     Owned      every FAT cell that is not FREE belongs to a FAT sector, to the
                directory chain or to the MiniFAT chain (rules 19 and 43: no
                DIFAT_SECTOR mark, no orphan chain);
     RootEmpty  the root entry has start END_OF_CHAIN and length 0 (rules 36-41, 44);
     Tidy       every table slot outside the represented tree is exactly the
                blank entry (rule 31).
   [step_xinv] shows that none of them can be violated by the covered
   operations, so no reachable state is rejected.

   Sections
     0      the checker cut into named stages ([wf_check_staged], by reflexivity)
     1-3    bridging the checker's helpers (u32_at, words, split_chunks, walk,
            disjoint_add) and the model's; header fields; sectors of the image
     4      FAT stage (rules 11-21)
     5-6    directory entries as the checker parses them; the 128-byte slots
     7-8    sib_walk / tree_walk on a represented tree
     9      directory stage (rules 22-32)
     10     MiniFAT, mini stream, ownership (rules 33-44)
     11     pinv_image_wf
     12-15  the side conditions along a history
     16     histories, non-vacuity
   Stdlib only; no axioms; every proof is complete. *)
From Coq Require Import List NArith Lia Bool ZifyN ZifyBool Permutation.
From Cfb.model Require Import Base Names Time DirEnt State Alloc Dir Mini Store Handle Open Cfb.
From Cfb.gen Require Import Consts.
From Cfb.spec Require Import WfImage.
From Cfb.proofs Require Import DirProofs ChainProofs.
From Cfb.proofs Require CodecProofs WalkProofs OpenTotal StrictProofs ReuseProofs
                        CoherenceProofs DirCoherence ReopenProofs ReadonlyTotal
                        QueryRefine MutRefine TreeProofs TimeProofs NamesProofs PersistProofs.
Import ListNotations.
Open Scope N_scope.

Ltac Zify.zify_post_hook ::= Z.div_mod_to_equations.

Import ReopenProofs PersistProofs.

(* ================================================================== *)
(* 0. the checker, cut into named stages                               *)
(* ================================================================== *)

Definition streams_step (sl : N) (fat mf : list N) :=
  fun (acc : option (list N * list N)) (ie : N * wentry) =>
    match acc with
    | None => None
    | Some (own, mown) =>
      let e := snd ie in
      if w_len e =? 0 then (if w_start e =? END_OF_CHAIN then Some (own, mown) else None)
      else if w_len e <? MINI_STREAM_CUTOFF then
        match chain_of mf (w_start e) with
        | None => None
        | Some ids =>
          if negb (lenN ids =? ceil_div (w_len e) MINI_SECTOR_LEN) then None else
          match disjoint_add ids mown with None => None | Some m' => Some (own, m') end
        end
      else
        match chain_of fat (w_start e) with
        | None => None
        | Some ids =>
          if negb (lenN ids =? ceil_div (w_len e) sl) then None else
          match disjoint_add ids own with None => None | Some o' => Some (o', mown) end
        end
    end.

Definition stage_own (sl : N) (fat mf : list N) (es : list wentry) (reach own4 : list N) : N :=
  let streams := filter (fun '(i, e) => (w_type e =? OBJ_TYPE_STREAM) && memN i reach) (index_from es 0) in
  match fold_left (streams_step sl fat mf) streams (Some (own4, [])) with None => 42 | Some (own5, mown) =>
  if negb (forallb (fun '(i, v) => if v =? FREE_SECTOR then negb (memN i own5) else memN i own5) (index_from fat 0)) then 43 else
  if negb (forallb (fun '(i, v) => if v =? FREE_SECTOR then negb (memN i mown) else memN i mown) (index_from mf 0)) then 44 else
  0
  end.

Definition stage_mini (sl per : N) (sec : N -> list byte) (fat : list N) (es : list wentry)
           (root : wentry) (reach own2 : list N) (first_minifat num_minifat : N) : N :=
  match chain_of fat first_minifat with None => 33 | Some mf_ids =>
  if negb (num_minifat =? lenN mf_ids) then 34 else
  match disjoint_add mf_ids own2 with None => 35 | Some own3 =>
  let mf_full := flat_map (fun i => words (N.to_nat per) (sec i)) mf_ids in
  if negb (w_len root mod MINI_SECTOR_LEN =? 0) then 36 else
  let nmini := w_len root / MINI_SECTOR_LEN in
  match chain_of fat (w_start root) with None => 37 | Some ms_ids =>
  if lenN ms_ids * sl <? w_len root then 38 else
  match disjoint_add ms_ids own3 with None => 39 | Some own4 =>
  if lenN mf_full <? nmini then 40 else
  if negb (forallb (fun x => x =? FREE_SECTOR) (dropN nmini mf_full)) then 41 else
  stage_own sl fat (takeN nmini mf_full) es reach own4
  end end end end.

Definition stage_tree (sl per : N) (sec : N -> list byte) (fat : list N) (es : list wentry)
           (root : wentry) (own2 : list N) (first_minifat num_minifat : N) : N :=
  if negb (w_type root =? OBJ_TYPE_ROOT) then 27 else
  if negb (match scalars (w_name root) with Some n => list_eqb N.eqb n ROOT_DIR_NAME | None => false end) then 28 else
  if negb ((w_left root =? NO_STREAM) && (w_right root =? NO_STREAM)) then 29 else
  if negb ((w_color root =? COLOR_RED) || (w_color root =? COLOR_BLACK)) then 46 else
  if negb (match name_ok root with Some _ => true | None => false end) then 47 else
  match tree_walk (S (length es)) es [w_child root] [0] with None => 30 | Some reach =>
  if negb (forallb (fun '(i, e) => if memN i reach then true else blank_entry e) (index_from es 0)) then 31 else
  if negb (forallb (fun '(i, e) => if memN i reach then true else w_namelen e mod 2 =? 0) (index_from es 0)) then 48 else
  if negb (forallb (fun '(i, e) => if (w_type e =? OBJ_TYPE_STREAM) && memN i reach
                                   then w_clsid_zero e && (w_ctime e =? 0) && (w_mtime e =? 0) && (w_child e =? NO_STREAM)
                                   else true) (index_from es 0)) then 32 else
  if negb (forallb (fun '(i, e) => if (w_type e =? OBJ_TYPE_STORAGE) && memN i reach
                                   then w_start e =? 0 else true) (index_from es 0)) then 49 else
  if negb (forallb (fun '(i, e) => if (w_type e =? OBJ_TYPE_STORAGE) && memN i reach
                                   then w_len e =? 0 else true) (index_from es 0)) then 50 else
  stage_mini sl per sec fat es root reach own2 first_minifat num_minifat
  end.

Definition stage_dir (sl per vnum : N) (sec : N -> list byte) (fat : list N)
           (num_dir first_dir first_minifat num_minifat : N) (own1 : list N) : N :=
  match chain_of fat first_dir with None => 22 | Some dir_ids =>
  if lenN dir_ids =? 0 then 23 else
  if negb (if vnum =? 3 then num_dir =? 0 else num_dir =? lenN dir_ids) then 24 else
  match disjoint_add dir_ids own1 with None => 25 | Some own2 =>
  let mask := if vnum =? 3 then 4294967295 else 18446744073709551615 in
  let raw_entries := flat_map (fun i => split_chunks (N.to_nat (sl / DIR_ENTRY_LEN)) DIR_ENTRY_LEN (sec i)) dir_ids in
  let es := map (parse_entry mask) raw_entries in
  match es with [] => 26 | root :: _ =>
  stage_tree sl per sec fat es root own2 first_minifat num_minifat
  end end end.

Definition stage_fat (sl ns per vnum : N) (sec : N -> list byte)
           (num_dir num_fat first_dir first_minifat num_minifat num_difat : N)
           (difat_ids difat_all : list N) : N :=
  if negb (num_difat =? lenN difat_ids) then 11 else
  let fat_ids := filter (fun x => negb (x =? FREE_SECTOR)) difat_all in
  if negb (list_eqb N.eqb (takeN (lenN fat_ids) difat_all) fat_ids) then 12 else
  if negb (num_fat =? lenN fat_ids) then 13 else
  if negb (forallb (fun x => x <? ns) fat_ids) then 14 else
  let fat_full := flat_map (fun i => words (N.to_nat per) (sec i)) fat_ids in
  if lenN fat_full <? ns then 15 else
  if negb (forallb (fun x => x =? FREE_SECTOR) (dropN ns fat_full)) then 16 else
  let fat := takeN ns fat_full in
  if negb (forallb (fun i => match nthN fat i with Some v => v =? FAT_SECTOR | None => false end) fat_ids) then 17 else
  if negb (forallb (fun i => match nthN fat i with Some v => v =? DIFAT_SECTOR | None => false end) difat_ids) then 18 else
  if negb (forallb (fun '(i, v) => if v =? FAT_SECTOR then memN i fat_ids
                                   else if v =? DIFAT_SECTOR then memN i difat_ids
                                   else if v =? INVALID_SECTOR then false else true) (index_from fat 0)) then 19 else
  match disjoint_add fat_ids [] with None => 20 | Some own0 =>
  match disjoint_add difat_ids own0 with None => 21 | Some own1 =>
  stage_dir sl per vnum sec fat num_dir first_dir first_minifat num_minifat own1
  end end.

Definition difat_walk_f (ns per : N) (sec : N -> list byte) :=
  fix go (fuel : nat) (cur : N) (ids acc : list N) : option (list N * list N) :=
    match fuel with
    | O => None
    | S f =>
      if cur =? END_OF_CHAIN then Some (rev ids, acc) else
      if ns <=? cur then None else
      if memN cur ids then None else
      let ws := words (N.to_nat per) (sec cur) in
      match lastN ws with
      | None => None
      | Some nx => go f nx (cur :: ids) (acc ++ pop_last ws)
      end
    end.

Definition stage_body (bytes : list byte) (vnum shift : N) : N :=
  let len := lenN bytes in
  let sl := 2 ^ shift in
  if negb (len mod sl =? 0) then 8 else
  if len <? 2 * sl then 9 else
  let ns := len / sl - 1 in
  if MAX_REGULAR_SECTOR <? ns then 45 else
  let secs := split_chunks (S (N.to_nat (len / sl))) sl bytes in
  let sec := fun i => match nthN secs (i + 1) with Some s => s | None => [] end in
  let per := sl / 4 in
  match difat_walk_f ns per sec (S (N.to_nat ns)) (u32_at bytes 68) [] (words 109 (dropN 76 bytes)) with
  | None => 10
  | Some (difat_ids, difat_all) =>
    stage_fat sl ns per vnum sec (u32_at bytes 40) (u32_at bytes 44) (u32_at bytes 48)
              (u32_at bytes 60) (u32_at bytes 64) (u32_at bytes 72) difat_ids difat_all
  end.

Definition wf_staged (bytes : list byte) : N :=
  let len := lenN bytes in
  if len <? HEADER_LEN then 1 else
  if negb (list_eqb N.eqb (takeN 8 bytes) MAGIC_NUMBER) then 2 else
  let vnum := u16_at bytes 26 in
  if negb (u16_at bytes 28 =? BYTE_ORDER_MARK) then 3 else
  if negb ((vnum =? 3) || (vnum =? 4)) then 4 else
  let shift := if vnum =? 3 then 9 else 12 in
  if negb (u16_at bytes 30 =? shift) then 5 else
  if negb (u16_at bytes 32 =? MINI_SECTOR_SHIFT) then 6 else
  if negb (u32_at bytes 56 =? MINI_STREAM_CUTOFF) then 7 else
  stage_body bytes vnum shift.

Lemma wf_check_staged : forall bytes, wf_check bytes = wf_staged bytes.
Proof. intro bytes. reflexivity. Qed.

(* ================================================================== *)
(* 1. bridging the helpers of the checker and those of the model       *)
(* ================================================================== *)

Lemma split_chunks_chunks_go : forall fuel sl bs, split_chunks fuel sl bs = chunks_go fuel sl bs.
Proof.
  induction fuel as [|f IH]; intros sl bs; [reflexivity|].
  cbn [split_chunks chunks_go]. destruct bs; [reflexivity|]. rewrite IH. reflexivity.
Qed.

Lemma scalars_from_utf16_n : forall n u, (length u <= n)%nat -> scalars u = from_utf16 u.
Proof.
  induction n as [|n IH]; intros u H.
  - destruct u; [reflexivity|cbn [length] in H; lia].
  - destruct u as [|a t]; [reflexivity|]. cbn [length] in H. cbn [scalars from_utf16].
    destruct ((55296 <=? a) && (a <=? 56319)).
    + destruct t as [|b t']; [reflexivity|]. cbn [length] in H.
      destruct ((56320 <=? b) && (b <=? 57343)); [|reflexivity].
      rewrite (IH t') by lia. reflexivity.
    + destruct ((56320 <=? a) && (a <=? 57343)); [reflexivity|].
      rewrite (IH t) by lia. reflexivity.
Qed.

Lemma scalars_from_utf16 : forall u, scalars u = from_utf16 u.
Proof. intro u. apply (scalars_from_utf16_n (length u)). lia. Qed.

Lemma words_app_u32s : forall n a rest, lenN a = 4 * N.of_nat n -> words n (a ++ rest) = u32s a.
Proof.
  induction n as [|n IH]; intros a rest H.
  - destruct a; [reflexivity|cbn [lenN] in H; lia].
  - destruct a as [|x0 [|x1 [|x2 [|x3 t]]]]; cbn [lenN] in H; try lia.
    cbn [words app]. rewrite CoherenceProofs.takeN4_cons, CoherenceProofs.dropN4_cons.
    cbn [u32s le_val]. f_equal; [lia|]. apply IH. lia.
Qed.

Lemma words_u32s : forall n a, lenN a = 4 * N.of_nat n -> words n a = u32s a.
Proof. intros n a H. rewrite <- (app_nil_r a) at 1. apply words_app_u32s. exact H. Qed.

Lemma u32s_app : forall a b k, lenN a = 4 * k -> u32s (a ++ b) = u32s a ++ u32s b.
Proof.
  intros a b k. revert a. induction k as [|k IH] using N.peano_ind; intros a H.
  - destruct a; [reflexivity|cbn [lenN] in H; lia].
  - destruct a as [|x0 [|x1 [|x2 [|x3 t]]]]; cbn [lenN] in H; try lia.
    cbn [app u32s]. f_equal. apply IH. lia.
Qed.

Lemma forallb_index_from : forall A (f : N * A -> bool) (l : list A) k,
  (forall i v, nthN l i = Some v -> f (k + i, v) = true) -> forallb f (index_from l k) = true.
Proof.
  intros A f l. induction l as [|x t IH]; intros k H; [reflexivity|].
  cbn [index_from forallb]. rewrite andb_true_iff. split.
  - rewrite <- (N.add_0_r k). apply H. reflexivity.
  - apply IH. intros i v Hi. replace (k + 1 + i) with (k + N.succ i) by lia. apply H.
    rewrite nthN_cons_pos by lia. rewrite N.pred_succ. exact Hi.
Qed.

Lemma In_index_from : forall A (l : list A) k i v,
  In (i, v) (index_from l k) -> k <= i /\ nthN l (i - k) = Some v.
Proof.
  intros A l. induction l as [|x t IH]; intros k i v H; [destruct H|].
  cbn [index_from In] in H. destruct H as [E|H].
  - injection E as <- <-. split; [lia|]. rewrite N.sub_diag. reflexivity.
  - destruct (IH _ _ _ H) as [Hk Hn]. split; [lia|].
    rewrite nthN_cons_pos by lia. replace (N.pred (i - k)) with (i - (k + 1)) by lia. exact Hn.
Qed.

Lemma walk_path : forall fat l cur acc fuel,
  WalkProofs.path fat cur l -> (length l < fuel)%nat ->
  Forall (fun x => x <= MAX_REGULAR_SECTOR) l -> NoDup l -> (forall x, In x l -> ~ In x acc) ->
  walk fuel fat cur acc = Some (rev acc ++ l).
Proof.
  intros fat l cur acc fuel Hp. revert acc fuel.
  induction Hp as [|cur nx l Hc Hn Hp IH]; intros acc fuel Hf Hreg Hnd Hdis.
  - destruct fuel as [|f]; [cbn [length] in Hf; lia|]. cbn [walk]. rewrite N.eqb_refl, app_nil_r. reflexivity.
  - destruct fuel as [|f]; [cbn [length] in Hf; lia|]. cbn [length] in Hf. cbn [walk].
    destruct (N.eqb_spec cur END_OF_CHAIN) as [E|_]; [contradiction|].
    inversion Hreg as [|? ? Hcr Hreg']; subst.
    destruct (N.ltb_spec MAX_REGULAR_SECTOR cur) as [Hlt|_]; [lia|].
    assert (Hm : memN cur acc = false) by (apply WalkProofs.memN_false; apply Hdis; left; reflexivity).
    rewrite Hm. apply WalkProofs.next_of_Ok in Hn. destruct Hn as [Hn _]. rewrite Hn.
    apply NoDup_cons_iff in Hnd. destruct Hnd as [Hni Hnd].
    rewrite (IH (cur :: acc) f); [|lia|exact Hreg'|exact Hnd|].
    + cbn [rev]. rewrite <- app_assoc. reflexivity.
    + intros x Hx [<-|Hin]; [contradiction|]. apply (Hdis x); [right; exact Hx|exact Hin].
Qed.

Lemma chain_of_ids : forall fat st ids,
  chain_ids_of fat st = Ok ids -> NoDup ids -> Forall (fun x => x <= MAX_REGULAR_SECTOR) ids ->
  chain_of fat st = Some ids.
Proof.
  intros fat st ids H Hnd Hreg. unfold chain_of.
  pose proof (WalkProofs.chain_ids_path _ _ _ H) as Hp.
  rewrite (walk_path fat ids st [] (S (length fat)) Hp); [reflexivity| |exact Hreg|exact Hnd|intros x _ []].
  pose proof (WalkProofs.path_lt _ _ _ Hp) as Hlt.
  pose proof (WalkProofs.bounded_nodup_length ids (lenN fat) Hnd Hlt) as Hb.
  rewrite CodecProofs.lenN_length in Hb. lia.
Qed.

Lemma disjoint_add_ok : forall xs owned,
  NoDup xs -> (forall x, In x xs -> ~ In x owned) -> disjoint_add xs owned = Some (rev xs ++ owned).
Proof.
  induction xs as [|x t IH]; intros owned Hnd Hdis; [reflexivity|].
  cbn [disjoint_add]. apply NoDup_cons_iff in Hnd. destruct Hnd as [Hx Hnd].
  assert (Hm : memN x owned = false) by (apply WalkProofs.memN_false; apply Hdis; left; reflexivity).
  rewrite Hm. rewrite IH; [cbn [rev]; rewrite <- app_assoc; reflexivity|exact Hnd|].
  intros y Hy [<-|Hin]; [contradiction|]. apply (Hdis y); [right; exact Hy|exact Hin].
Qed.

Lemma forallb_true_iff : forall A (f : A -> bool) l, forallb f l = true <-> (forall x, In x l -> f x = true).
Proof. intros. apply forallb_forall. Qed.

(* ================================================================== *)
(* 2. the header fields of an encoded header followed by anything      *)
(* ================================================================== *)

Lemma header_fields : forall h R, CodecProofs.header_wf h ->
  let bs := header_encode h ++ R in
  takeN 8 bs = MAGIC_NUMBER /\
  u16_at bs 26 = ver_number (h_ver h) /\ u16_at bs 28 = BYTE_ORDER_MARK /\
  u16_at bs 30 = sector_shift (h_ver h) /\ u16_at bs 32 = MINI_SECTOR_SHIFT /\
  u32_at bs 40 = h_num_dir h /\ u32_at bs 44 = h_num_fat h /\ u32_at bs 48 = h_first_dir h /\
  u32_at bs 56 = MINI_STREAM_CUTOFF /\ u32_at bs 60 = h_first_minifat h /\
  u32_at bs 64 = h_num_minifat h /\ u32_at bs 68 = h_first_difat h /\ u32_at bs 72 = h_num_difat h /\
  words 109 (dropN 76 bs) = h_difat h.
Proof.
  intros h R W.
  destruct W as [Wnd Wnf Wfd Wfm Wnm Wfdi Wfdi' Wndi Wv3 Wdl Wd].
  destruct h as [ver nd nf fd fm nm fdi ndi dif].
  cbn [h_ver h_num_dir h_num_fat h_first_dir h_first_minifat h_num_minifat
       h_first_difat h_num_difat h_difat] in *.
  unfold header_encode.
  cbn [h_ver h_num_dir h_num_fat h_first_dir h_first_minifat h_num_minifat
       h_first_difat h_num_difat h_difat].
  rewrite <- !app_assoc.
  set (r76 := flat_map (le_bytes 4) dif ++ R).
  set (r72 := le_bytes 4 ndi ++ r76).
  set (r68 := le_bytes 4 fdi ++ r72).
  set (r64 := le_bytes 4 nm ++ r68).
  set (r60 := le_bytes 4 fm ++ r64).
  set (r56 := le_bytes 4 MINI_STREAM_CUTOFF ++ r60).
  set (r52 := le_bytes 4 0 ++ r56).
  set (r48 := le_bytes 4 fd ++ r52).
  set (r44 := le_bytes 4 nf ++ r48).
  set (r40 := le_bytes 4 nd ++ r44).
  set (r34 := repeatN 0 6 ++ r40).
  set (r32 := le_bytes 2 MINI_SECTOR_SHIFT ++ r34).
  set (r30 := le_bytes 2 (sector_shift ver) ++ r32).
  set (r28 := le_bytes 2 BYTE_ORDER_MARK ++ r30).
  set (r26 := le_bytes 2 (ver_number ver) ++ r28).
  set (r24 := le_bytes 2 MINOR_VERSION ++ r26).
  set (r8 := repeatN 0 16 ++ r24).
  set (bs := MAGIC_NUMBER ++ r8). cbv zeta.
  assert (T0 : @takeN byte 8 bs = MAGIC_NUMBER) by (apply (CodecProofs.takeN_app_exact _ MAGIC_NUMBER)).
  assert (D8 : dropN 8 bs = r8) by (apply (CodecProofs.dropN_app_exact _ MAGIC_NUMBER)).
  assert (D24 : dropN 24 bs = r24)
    by (change 24 with (8 + 16); eapply CodecProofs.dropN_step; [exact D8 | apply CodecProofs.lenN_repeatN]).
  assert (D26 : dropN 26 bs = r26)
    by (change 26 with (24 + 2); eapply CodecProofs.dropN_step; [exact D24 | apply CodecProofs.lenN_le_bytes2]).
  assert (D28 : dropN 28 bs = r28)
    by (change 28 with (26 + 2); eapply CodecProofs.dropN_step; [exact D26 | apply CodecProofs.lenN_le_bytes2]).
  assert (D30 : dropN 30 bs = r30)
    by (change 30 with (28 + 2); eapply CodecProofs.dropN_step; [exact D28 | apply CodecProofs.lenN_le_bytes2]).
  assert (D32 : dropN 32 bs = r32)
    by (change 32 with (30 + 2); eapply CodecProofs.dropN_step; [exact D30 | apply CodecProofs.lenN_le_bytes2]).
  assert (D34 : dropN 34 bs = r34)
    by (change 34 with (32 + 2); eapply CodecProofs.dropN_step; [exact D32 | apply CodecProofs.lenN_le_bytes2]).
  assert (D40 : dropN 40 bs = r40)
    by (change 40 with (34 + 6); eapply CodecProofs.dropN_step; [exact D34 | apply CodecProofs.lenN_repeatN]).
  assert (D44 : dropN 44 bs = r44)
    by (change 44 with (40 + 4); eapply CodecProofs.dropN_step; [exact D40 | apply CodecProofs.lenN_le_bytes4]).
  assert (D48 : dropN 48 bs = r48)
    by (change 48 with (44 + 4); eapply CodecProofs.dropN_step; [exact D44 | apply CodecProofs.lenN_le_bytes4]).
  assert (D52 : dropN 52 bs = r52)
    by (change 52 with (48 + 4); eapply CodecProofs.dropN_step; [exact D48 | apply CodecProofs.lenN_le_bytes4]).
  assert (D56 : dropN 56 bs = r56)
    by (change 56 with (52 + 4); eapply CodecProofs.dropN_step; [exact D52 | apply CodecProofs.lenN_le_bytes4]).
  assert (D60 : dropN 60 bs = r60)
    by (change 60 with (56 + 4); eapply CodecProofs.dropN_step; [exact D56 | apply CodecProofs.lenN_le_bytes4]).
  assert (D64 : dropN 64 bs = r64)
    by (change 64 with (60 + 4); eapply CodecProofs.dropN_step; [exact D60 | apply CodecProofs.lenN_le_bytes4]).
  assert (D68 : dropN 68 bs = r68)
    by (change 68 with (64 + 4); eapply CodecProofs.dropN_step; [exact D64 | apply CodecProofs.lenN_le_bytes4]).
  assert (D72 : dropN 72 bs = r72)
    by (change 72 with (68 + 4); eapply CodecProofs.dropN_step; [exact D68 | apply CodecProofs.lenN_le_bytes4]).
  assert (D76 : dropN 76 bs = r76)
    by (change 76 with (72 + 4); eapply CodecProofs.dropN_step; [exact D72 | apply CodecProofs.lenN_le_bytes4]).
  unfold u16_at, u32_at. unfold byte in *.
  rewrite (CodecProofs.takeN_field _ _ _ _ _ _ D26 (CodecProofs.lenN_le_bytes2 _)).
  rewrite (CodecProofs.takeN_field _ _ _ _ _ _ D28 (CodecProofs.lenN_le_bytes2 _)).
  rewrite (CodecProofs.takeN_field _ _ _ _ _ _ D30 (CodecProofs.lenN_le_bytes2 _)).
  rewrite (CodecProofs.takeN_field _ _ _ _ _ _ D32 (CodecProofs.lenN_le_bytes2 _)).
  rewrite (CodecProofs.takeN_field _ _ _ _ _ _ D40 (CodecProofs.lenN_le_bytes4 _)).
  rewrite (CodecProofs.takeN_field _ _ _ _ _ _ D44 (CodecProofs.lenN_le_bytes4 _)).
  rewrite (CodecProofs.takeN_field _ _ _ _ _ _ D48 (CodecProofs.lenN_le_bytes4 _)).
  rewrite (CodecProofs.takeN_field _ _ _ _ _ _ D56 (CodecProofs.lenN_le_bytes4 _)).
  rewrite (CodecProofs.takeN_field _ _ _ _ _ _ D60 (CodecProofs.lenN_le_bytes4 _)).
  rewrite (CodecProofs.takeN_field _ _ _ _ _ _ D64 (CodecProofs.lenN_le_bytes4 _)).
  rewrite (CodecProofs.takeN_field _ _ _ _ _ _ D68 (CodecProofs.lenN_le_bytes4 _)).
  rewrite (CodecProofs.takeN_field _ _ _ _ _ _ D72 (CodecProofs.lenN_le_bytes4 _)).
  rewrite D76. unfold r76.
  rewrite (CodecProofs.le_val_le_bytes2 BYTE_ORDER_MARK) by (unfold BYTE_ORDER_MARK; lia).
  rewrite (CodecProofs.le_val_le_bytes2 (ver_number ver))
    by (destruct ver; unfold ver_number, V3_NUMBER, V4_NUMBER; lia).
  rewrite (CodecProofs.le_val_le_bytes2 (sector_shift ver))
    by (destruct ver; unfold sector_shift, V3_SECTOR_SHIFT, V4_SECTOR_SHIFT; lia).
  rewrite (CodecProofs.le_val_le_bytes2 MINI_SECTOR_SHIFT) by (unfold MINI_SECTOR_SHIFT; lia).
  rewrite (CodecProofs.le_val_le_bytes4 MINI_STREAM_CUTOFF) by (unfold MINI_STREAM_CUTOFF, u32_max; lia).
  rewrite (CodecProofs.le_val_le_bytes4 nd) by exact Wnd.
  rewrite (CodecProofs.le_val_le_bytes4 nf) by exact Wnf.
  rewrite (CodecProofs.le_val_le_bytes4 fd) by exact Wfd.
  rewrite (CodecProofs.le_val_le_bytes4 fm) by exact Wfm.
  rewrite (CodecProofs.le_val_le_bytes4 nm) by exact Wnm.
  rewrite (CodecProofs.le_val_le_bytes4 fdi) by exact Wfdi.
  rewrite (CodecProofs.le_val_le_bytes4 ndi) by exact Wndi.
  repeat (split; [first [exact T0 | reflexivity]|]).
  rewrite words_app_u32s.
  - apply CodecProofs.u32s_le_bytes4. apply CodecProofs.difat_ok_u32. exact Wd.
  - rewrite CodecProofs.lenN_flat_map_le_bytes, Wdl. reflexivity.
Qed.

(* ================================================================== *)
(* 3. the image of a coherent state: length, sectors, header           *)
(* ================================================================== *)

Lemma difat_walk_eoc : forall ns per sec f acc,
  difat_walk_f ns per sec (S f) END_OF_CHAIN [] acc = Some ([], acc).
Proof. intros. reflexivity. Qed.

Lemma coherent_header_wf : forall s, Coherent s -> CodecProofs.header_wf (header_of s).
Proof.
  intros s [Hhdr Hfat Hdok Hids Hnd Hns Huni Hftail Hmarks Hfval Hdir Hdwf Hdval
              Hmini Hmtail Hmlast Hmfits Hmval].
  pose proof Hfat as [[Himg Hfull Hcoh Hnodup Hlt] Hlen Hpos Htight].
  pose proof Hdir as (dids & Hdids & Hgd & Hdcap & _).
  pose proof Hmini as (mids & Hmids & Hgm & Hmcap & Hmcell).
  unfold DirCoherence.dir_ids in Hdids. unfold DirCoherence.minifat_ids in Hmids.
  destruct (good_chain_count s _ _ Hgd Hdids) as (Hcd & Hld & Hsd).
  destruct (good_chain_count s _ _ Hgm Hmids) as (Hcm & Hlm & Hsm).
  markers.
  destruct (dirs s) as [|root dt] eqn:Edirs; [discriminate Hdval|].
  assert (Hdstart : dir_start s <= MAX_REGULAR_SECTOR).
  { destruct Hsd as [[E _]|[_ Hs]]; [|lia].
    rewrite E in Hdcap. cbn [lenN] in Hdcap. unfold DIR_ENTRY_LEN in Hdcap. lia. }
  apply header_wf_of; try assumption; try lia.
Qed.

Lemma image_split : forall s, Coherent s ->
  exists R, concat (img s) = header_encode (header_of s) ++ R.
Proof.
  intros s C. pose proof (ch_hdr s C) as Hhdr. unfold HeaderCoherent in Hhdr.
  destruct (img s) as [|h0 rest].
  - cbn [hd] in Hhdr. pose proof (CodecProofs.header_encode_length (header_of s)) as L.
    rewrite <- Hhdr in L. cbn [takeN lenN] in L. lia.
  - cbn [hd concat] in *. exists (dropN HEADER_LEN h0 ++ concat rest).
    rewrite app_assoc, <- Hhdr, takeN_dropN_id. reflexivity.
Qed.

Lemma image_len : forall s, Coherent s -> lenN (concat (img s)) = slen s * (nsect s + 1).
Proof.
  intros s C. rewrite (lenN_concat_uniform _ _ (ch_uniform s C)).
  destruct (ch_fat s C) as [[Himg _ _ _ _] _ _ _]. rewrite Himg. reflexivity.
Qed.

Lemma image_sectors : forall s, Coherent s ->
  split_chunks (S (N.to_nat (nsect s + 1))) (slen s) (concat (img s)) = img s.
Proof.
  intros s C. rewrite split_chunks_chunks_go. apply chunks_go_concat.
  - destruct (ReuseProofs.slen_cases s) as [E|E]; rewrite E; lia.
  - exact (ch_uniform s C).
  - destruct (ch_fat s C) as [[Himg _ _ _ _] _ _ _].
    rewrite CodecProofs.lenN_length in Himg. lia.
Qed.

Lemma slen_shift : forall s, 2 ^ sector_shift (ver s) = slen s.
Proof. reflexivity. Qed.

Theorem stage_body_eq : forall s, Coherent s ->
  stage_body (concat (img s)) (ver_number (ver s)) (sector_shift (ver s)) =
  stage_fat (slen s) (nsect s) (slen s / 4) (ver_number (ver s)) (sector_bytes s)
    (h_num_dir (header_of s)) (lenN (difat s)) (dir_start s) (minifat_start s)
    (chain_count (fat s) (minifat_start s)) 0 [] (hdr_difat_of (difat s)).
Proof.
  intros s C. unfold stage_body. cbv zeta.
  rewrite slen_shift, (image_len s C).
  destruct (ch_fat s C) as [_ _ Hpos _].
  pose proof (ReuseProofs.slen_cases s) as Hsl.
  assert (Hslpos : slen s <> 0) by (destruct Hsl as [E|E]; rewrite E; lia).
  replace (slen s * (nsect s + 1) mod slen s) with 0
    by (symmetry; rewrite N.mul_comm; apply N.mod_mul; exact Hslpos).
  change (negb (0 =? 0)) with false. cbv iota.
  replace (slen s * (nsect s + 1) <? 2 * slen s) with false by (symmetry; apply N.ltb_ge; nia).
  replace (slen s * (nsect s + 1) / slen s) with (nsect s + 1)
    by (symmetry; rewrite N.mul_comm; apply N.div_mul; exact Hslpos).
  replace (nsect s + 1 - 1) with (nsect s) by lia.
  replace (MAX_REGULAR_SECTOR <? nsect s) with false
    by (symmetry; apply N.ltb_ge; exact (ch_nsect s C)).
  rewrite (image_sectors s C).
  change (fun i => match nthN (img s) (i + 1) with Some s0 => s0 | None => [] end) with (sector_bytes s).
  destruct (image_split s C) as (R & HR). rewrite HR.
  destruct (header_fields (header_of s) R (coherent_header_wf s C))
    as (_ & _ & _ & _ & _ & F40 & F44 & F48 & _ & F60 & F64 & F68 & F72 & F76).
  rewrite F40, F44, F48, F60, F64, F68, F72, F76.
  change (h_num_fat (header_of s)) with (lenN (difat s)).
  change (h_first_dir (header_of s)) with (dir_start s).
  change (h_first_minifat (header_of s)) with (minifat_start s).
  change (h_num_minifat (header_of s)) with (chain_count (fat s) (minifat_start s)).
  change (h_first_difat (header_of s)) with (match difat_ids s with x :: _ => x | [] => END_OF_CHAIN end).
  change (h_num_difat (header_of s)) with (lenN (difat_ids s)).
  change (h_difat (header_of s)) with (hdr_difat_of (difat s)).
  rewrite (ch_ids s C). cbn [lenN]. rewrite difat_walk_eoc. reflexivity.
Qed.

(* ================================================================== *)
(* 4. the FAT stage                                                    *)
(* ================================================================== *)

(* every FAT cell that is not FREE belongs to a FAT sector, to the directory
   chain or to the MiniFAT chain (no orphan chains: nothing is ever freed in
   the histories considered, and streams own no sectors) *)
Definition Owned (s : cstate) : Prop :=
  forall i v, nthN (fat s) i = Some v -> v <> FREE_SECTOR ->
    In i (difat s) \/
    (exists ids, chain_ids_of (fat s) (dir_start s) = Ok ids /\ In i ids) \/
    (exists ids, chain_ids_of (fat s) (minifat_start s) = Ok ids /\ In i ids).

Lemma slen_words : forall s, 4 * N.of_nat (N.to_nat (slen s / 4)) = slen s.
Proof.
  intro s. rewrite N2Nat.id. destruct (ReuseProofs.slen_cases s) as [E|E]; rewrite E; reflexivity.
Qed.

Lemma read_fat_cells_words : forall s l,
  (forall f, In f l -> f < nsect s /\ lenN (sector_bytes s f) = slen s) ->
  CoherenceProofs.read_fat_cells (img s) (slen s) (nsect s) l
  = Ok (flat_map (fun i => words (N.to_nat (slen s / 4)) (sector_bytes s i)) l).
Proof.
  intros s l. induction l as [|g t IH]; intro Hall; [reflexivity|].
  destruct (Hall g (or_introl eq_refl)) as [Hg Hlg].
  cbn [CoherenceProofs.read_fat_cells flat_map].
  destruct (nsect s <=? g) eqn:E; [lia|].
  rewrite (CoherenceProofs.read_sector_full s g Hlg). cbn [rbind].
  rewrite IH by (intros f Hf; apply Hall; right; exact Hf). cbn [rbind].
  rewrite words_u32s; [reflexivity|]. rewrite slen_words. exact Hlg.
Qed.

Lemma filter_repeatN_false : forall A (p : A -> bool) x n, p x = false -> filter p (repeatN x n) = [].
Proof.
  intros A p x n H. induction n as [|n IH] using N.peano_ind; [reflexivity|].
  rewrite CodecProofs.repeatN_succ. cbn [filter]. rewrite H. exact IH.
Qed.

Lemma filter_all : forall A (p : A -> bool) l, (forall x, In x l -> p x = true) -> filter p l = l.
Proof.
  intros A p l. induction l as [|a t IH]; intro H; [reflexivity|].
  cbn [filter]. rewrite (H a (or_introl eq_refl)). f_equal. apply IH. intros x Hx. apply H. right. exact Hx.
Qed.

Lemma forallb_repeatN : forall A (p : A -> bool) x n, p x = true -> forallb p (repeatN x n) = true.
Proof.
  intros A p x n H. induction n as [|n IH] using N.peano_ind; [reflexivity|].
  rewrite CodecProofs.repeatN_succ. cbn [forallb]. rewrite H. exact IH.
Qed.

Lemma fat_full_eq : forall s, Coherent s ->
  flat_map (fun i => words (N.to_nat (slen s / 4)) (sector_bytes s i)) (difat s)
  = fat s ++ repeatN FREE_SECTOR (fat_per_sector s * lenN (difat s) - lenN (fat s)).
Proof.
  intros s C. pose proof (ch_fat s C) as Hfat.
  pose proof (fat_capacity s Hfat) as [Hcap _].
  pose proof Hfat as [[Himg Hfull Hcoh Hnodup Hlt] Hlen Hpos Htight].
  assert (Hall : forall f, In f (difat s) -> f < nsect s /\ lenN (sector_bytes s f) = slen s).
  { intros f Hf. split; [apply Hlt; exact Hf|apply Hfull, Hlt; exact Hf]. }
  pose proof (reopen_fat_cells s Hcoh Hall (ch_fat_tail s C) Hcap) as Hrd.
  rewrite (read_fat_cells_words s (difat s) Hall) in Hrd. injection Hrd as Hrd. exact Hrd.
Qed.

Theorem stage_fat_eq : forall s vnum nd fd fm nm, Coherent s -> Owned s ->
  stage_fat (slen s) (nsect s) (slen s / 4) vnum (sector_bytes s) nd (lenN (difat s)) fd fm nm 0 []
            (hdr_difat_of (difat s))
  = stage_dir (slen s) (slen s / 4) vnum (sector_bytes s) (fat s) nd fd fm nm (rev (difat s) ++ []).
Proof.
  intros s vnum nd fd fm nm C HO. pose proof (ch_fat s C) as Hfat.
  pose proof Hfat as [[Himg Hfull Hcoh Hnodup Hlt] Hlen Hpos Htight].
  pose proof (fat_capacity s Hfat) as [Hcap _].
  pose proof (ch_nsect s C) as Hns. pose proof (ch_marks s C) as Hmarks. markers.
  unfold stage_fat. cbv zeta. cbn [lenN]. change (negb (0 =? 0)) with false. cbv iota.
  assert (Hfilt : filter (fun x => negb (x =? FREE_SECTOR)) (hdr_difat_of (difat s)) = difat s).
  { rewrite hdr_difat_of_short by exact (ch_ndifat s C). rewrite filter_app.
    rewrite filter_repeatN_false by (rewrite N.eqb_refl; reflexivity).
    rewrite app_nil_r. apply filter_all. intros x Hx. specialize (Hlt x Hx).
    destruct (N.eqb_spec x FREE_SECTOR); [lia|reflexivity]. }
  rewrite Hfilt.
  rewrite hdr_difat_of_short by exact (ch_ndifat s C).
  rewrite CodecProofs.takeN_app_exact, CodecProofs.list_eqb_refl. cbn [negb].
  rewrite N.eqb_refl. cbn [negb].
  assert (H14 : forallb (fun x => x <? nsect s) (difat s) = true).
  { apply forallb_forall. intros x Hx. specialize (Hlt x Hx). lia. }
  rewrite H14. cbn [negb].
  rewrite (fat_full_eq s C).
  set (k := fat_per_sector s * lenN (difat s) - lenN (fat s)).
  rewrite CodecProofs.lenN_app, CodecProofs.lenN_repeatN.
  replace (lenN (fat s) + k <? nsect s) with false by lia.
  rewrite <- Hlen. rewrite CodecProofs.dropN_app_exact, CodecProofs.takeN_app_exact.
  rewrite forallb_repeatN by apply N.eqb_refl. cbn [negb].
  assert (H17 : forallb (fun i => match nthN (fat s) i with Some v => v =? FAT_SECTOR | None => false end)
                        (difat s) = true).
  { apply forallb_forall. intros x Hx. rewrite (Hmarks x Hx). apply N.eqb_refl. }
  rewrite H17. cbn [negb forallb].
  assert (H19 : forallb (fun '(i, v) => if v =? FAT_SECTOR then memN i (difat s)
                                   else if v =? DIFAT_SECTOR then memN i []
                                   else if v =? INVALID_SECTOR then false else true)
                        (index_from (fat s) 0) = true).
  { apply forallb_index_from. intros i v Hv. rewrite N.add_0_l.
    pose proof (ch_fat_valid s C) as Hval. apply WalkProofs.check_pointees_spec in Hval.
    destruct Hval as (_ & _ & _ & Hinv). specialize (Hinv eq_refl).
    assert (Hcase : v <> FREE_SECTOR -> In i (difat s) \/ v = END_OF_CHAIN \/ v <= MAX_REGULAR_SECTOR).
    { intro Hnf. destruct (HO i v Hv Hnf) as [Hd|[(ids & Hids & Hin)|(ids & Hids & Hin)]]; [left; exact Hd| |].
      - destruct (chain_cell _ _ _ _ Hids Hin) as (v' & Hv' & Hr). right. congruence.
      - destruct (chain_cell _ _ _ _ Hids Hin) as (v' & Hv' & Hr). right. congruence. }
    destruct (N.eqb_spec v FAT_SECTOR) as [E|E].
    - apply WalkProofs.memN_In. destruct Hcase as [Hd|[Hd|Hd]]; [lia|exact Hd|lia|lia].
    - destruct (N.eqb_spec v DIFAT_SECTOR) as [E2|E2].
      + exfalso. destruct Hcase as [Hd|[Hd|Hd]]; [lia| |lia|lia].
        rewrite (Hmarks i Hd) in Hv. injection Hv as Hv. lia.
      + destruct (N.eqb_spec v INVALID_SECTOR) as [E3|E3]; [|reflexivity].
        exfalso. apply Hinv. subst v. eapply WalkProofs.nthN_In. exact Hv. }
  rewrite H19. cbn [negb].
  rewrite (disjoint_add_ok (difat s) [] Hnodup) by (intros x _ []).
  cbn [disjoint_add]. reflexivity.
Qed.

(* ================================================================== *)
(* 5. the checker's view of an encoded directory entry                 *)
(* ================================================================== *)

Definition went (v : version) (e : dirent) : wentry :=
  parse_entry (stream_len_mask v) (dirent_encode e).

Lemma takeN2_cons : forall A (a b : A) t, takeN 2 (a :: b :: t) = [a; b].
Proof. intros. change 2 with (N.succ (N.succ 0)). rewrite !CodecProofs.takeN_succ_cons, CodecProofs.takeN_0. reflexivity. Qed.
Lemma dropN2_cons : forall A (a b : A) t, dropN 2 (a :: b :: t) = t.
Proof. intros. change 2 with (N.succ (N.succ 0)). rewrite !CodecProofs.dropN_succ_cons. apply CodecProofs.dropN_0. Qed.

Lemma units_of_le_bytes : forall u rest, Forall (fun x => x < 65536) u ->
  units_of (flat_map (le_bytes 2) u ++ rest) (length u) = u.
Proof.
  intros u rest H. unfold units_of. induction H as [|x t Hx Ht IH]; [reflexivity|].
  change (flat_map (le_bytes 2) (x :: t))
    with ([x mod 256; (x / 256) mod 256] ++ flat_map (le_bytes 2) t).
  cbn [length app]. rewrite takeN2_cons, dropN2_cons.
  rewrite IH. cbn [le_val]. f_equal. lia.
Qed.

Lemma all_zero_repeatN : forall k, all_zero (repeatN 0 k) = true.
Proof. intro k. unfold all_zero. apply forallb_repeatN. reflexivity. Qed.

Lemma validate_name_ok : forall nm u, validate_name nm = Ok u ->
  lenN (utf16 nm) <= 31 /\ existsb (fun f => memN f nm) FORBIDDEN_CHARS = false.
Proof.
  intros nm u H. unfold validate_name in H. cbv zeta in H.
  destruct (MAX_NAME_LEN <? lenN (utf16 nm)) eqn:E1; [discriminate H|].
  destruct (existsb (fun f => memN f nm) FORBIDDEN_CHARS) eqn:E2; [discriminate H|].
  unfold MAX_NAME_LEN in E1. split; [lia|reflexivity].
Qed.

Record wrep (v : version) (e : dirent) (we : wentry) : Prop := mkWrep {
  wr_name : w_name we = utf16 (d_name e);
  wr_type : w_type we = objtype_byte (d_type e);
  wr_color : w_color we = color_byte (d_color e);
  wr_left : w_left we = d_left e;
  wr_right : w_right we = d_right e;
  wr_child : w_child we = d_child e;
  wr_clsid : d_clsid e = 0 -> w_clsid_zero we = true;
  wr_state : w_state we = d_state e;
  wr_ctime : w_ctime we = d_ctime e;
  wr_mtime : w_mtime we = d_mtime e;
  wr_start : w_start we = d_start e;
  wr_len : w_len we = d_len e;
  wr_nameok : d_type e <> TRoot -> name_ok we = Some (d_name e);
  wr_nameok_root : d_type e = TRoot -> name_ok we = Some (d_name e);
  wr_namelen_even : w_namelen we mod 2 = 0
}.

Theorem went_wrep : forall v e, CodecProofs.dirent_wf v e -> wrep v e (went v e).
Proof.
  intros v e W.
  destruct W as [Wsc Wnm Wl Wr Wc Wg Wst Wct Wmt Wsta Wln Wstream Wstorage].
  destruct e as [nm ty col l r c g st ct mt sta ln].
  cbn [d_name d_type d_color d_left d_right d_child d_clsid d_state d_ctime d_mtime d_start d_len] in *.
  pose proof (CodecProofs.wf_name_len ty nm Wnm) as Hu31.
  pose proof (CodecProofs.utf16_units nm Wsc) as Hunits.
  pose proof (CodecProofs.from_utf16_utf16 nm Wsc) as Hfrom.
  unfold went, dirent_encode.
  cbn [d_name d_type d_color d_left d_right d_child d_clsid d_state d_ctime d_mtime d_start d_len].
  cbv zeta.
  set (u := utf16 nm) in *.
  set (r120 := le_bytes 8 ln).
  set (r116 := le_bytes 4 sta ++ r120).
  set (r108 := le_bytes 8 mt ++ r116).
  set (r100 := le_bytes 8 ct ++ r108).
  set (r96 := le_bytes 4 st ++ r100).
  set (r80 := clsid_encode g ++ r96).
  set (r76 := le_bytes 4 c ++ r80).
  set (r72 := le_bytes 4 r ++ r76).
  set (r68 := le_bytes 4 l ++ r72).
  set (r67 := [color_byte col] ++ r68).
  set (r66 := [objtype_byte ty] ++ r67).
  set (r64 := le_bytes 2 ((lenN u + 1) * 2) ++ r66).
  set (A := flat_map (le_bytes 2) u).
  set (Z := repeatN 0 (2 * (32 - lenN u))).
  set (bs := A ++ Z ++ r64). unfold byte in *.
  assert (LA : lenN A = 2 * lenN u).
  { unfold A. rewrite CodecProofs.lenN_flat_map_le_bytes. change (N.of_nat 2) with 2. lia. }
  assert (LZ : lenN Z = 2 * (32 - lenN u)) by apply CodecProofs.lenN_repeatN.
  assert (D64 : dropN 64 bs = r64).
  { assert (LAZ : lenN (A ++ Z) = 64) by (rewrite CodecProofs.lenN_app, LA, LZ; lia).
    unfold bs. rewrite app_assoc, <- LAZ. apply CodecProofs.dropN_app_exact. }
  assert (D66 : dropN 66 bs = r66)
    by (change 66 with (64 + 2); eapply CodecProofs.dropN_step; [exact D64 | apply CodecProofs.lenN_le_bytes2]).
  assert (D67 : dropN 67 bs = r67)
    by (change 67 with (66 + 1); eapply CodecProofs.dropN_step; [exact D66 | reflexivity]).
  assert (D68 : dropN 68 bs = r68)
    by (change 68 with (67 + 1); eapply CodecProofs.dropN_step; [exact D67 | reflexivity]).
  assert (D72 : dropN 72 bs = r72)
    by (change 72 with (68 + 4); eapply CodecProofs.dropN_step; [exact D68 | apply CodecProofs.lenN_le_bytes4]).
  assert (D76 : dropN 76 bs = r76)
    by (change 76 with (72 + 4); eapply CodecProofs.dropN_step; [exact D72 | apply CodecProofs.lenN_le_bytes4]).
  assert (D80 : dropN 80 bs = r80)
    by (change 80 with (76 + 4); eapply CodecProofs.dropN_step; [exact D76 | apply CodecProofs.lenN_le_bytes4]).
  assert (D96 : dropN 96 bs = r96)
    by (change 96 with (80 + 16); eapply CodecProofs.dropN_step; [exact D80 | apply CodecProofs.clsid_encode_length]).
  assert (D100 : dropN 100 bs = r100)
    by (change 100 with (96 + 4); eapply CodecProofs.dropN_step; [exact D96 | apply CodecProofs.lenN_le_bytes4]).
  assert (D108 : dropN 108 bs = r108)
    by (change 108 with (100 + 8); eapply CodecProofs.dropN_step; [exact D100 | apply CodecProofs.lenN_le_bytes8]).
  assert (D116 : dropN 116 bs = r116)
    by (change 116 with (108 + 8); eapply CodecProofs.dropN_step; [exact D108 | apply CodecProofs.lenN_le_bytes8]).
  assert (D120 : dropN 120 bs = r120 ++ [])
    by (rewrite app_nil_r; change 120 with (116 + 4); eapply CodecProofs.dropN_step; [exact D116 | apply CodecProofs.lenN_le_bytes4]).
  assert (F64 : u16_at bs 64 = (lenN u + 1) * 2).
  { unfold u16_at, byte. rewrite (CodecProofs.takeN_field _ _ _ _ _ _ D64 (CodecProofs.lenN_le_bytes2 _)).
    apply CodecProofs.le_val_le_bytes2. lia. }
  assert (F66 : le_val (takeN 1 (dropN 66 bs)) = objtype_byte ty).
  { rewrite (CodecProofs.takeN_field _ _ [objtype_byte ty] _ _ 1 D66 eq_refl). cbn [le_val]. lia. }
  assert (F67 : le_val (takeN 1 (dropN 67 bs)) = color_byte col).
  { rewrite (CodecProofs.takeN_field _ _ [color_byte col] _ _ 1 D67 eq_refl). cbn [le_val]. lia. }
  assert (F68 : u32_at bs 68 = l).
  { unfold u32_at, byte. rewrite (CodecProofs.takeN_field _ _ _ _ _ _ D68 (CodecProofs.lenN_le_bytes4 _)).
    apply CodecProofs.le_val_le_bytes4, CodecProofs.link_u32, Wl. }
  assert (F72 : u32_at bs 72 = r).
  { unfold u32_at, byte. rewrite (CodecProofs.takeN_field _ _ _ _ _ _ D72 (CodecProofs.lenN_le_bytes4 _)).
    apply CodecProofs.le_val_le_bytes4, CodecProofs.link_u32, Wr. }
  assert (F76 : u32_at bs 76 = c).
  { unfold u32_at, byte. rewrite (CodecProofs.takeN_field _ _ _ _ _ _ D76 (CodecProofs.lenN_le_bytes4 _)).
    apply CodecProofs.le_val_le_bytes4, CodecProofs.link_u32, Wc. }
  assert (F80 : takeN 16 (dropN 80 bs) = clsid_encode g)
    by (eapply CodecProofs.takeN_field; [exact D80 | apply CodecProofs.clsid_encode_length]).
  assert (F96 : u32_at bs 96 = st).
  { unfold u32_at, byte. rewrite (CodecProofs.takeN_field _ _ _ _ _ _ D96 (CodecProofs.lenN_le_bytes4 _)).
    apply CodecProofs.le_val_le_bytes4, Wst. }
  assert (F100 : u64_at bs 100 = ct).
  { unfold u64_at, byte. rewrite (CodecProofs.takeN_field _ _ _ _ _ _ D100 (CodecProofs.lenN_le_bytes8 _)).
    apply CodecProofs.le_val_le_bytes8, Wct. }
  assert (F108 : u64_at bs 108 = mt).
  { unfold u64_at, byte. rewrite (CodecProofs.takeN_field _ _ _ _ _ _ D108 (CodecProofs.lenN_le_bytes8 _)).
    apply CodecProofs.le_val_le_bytes8, Wmt. }
  assert (F116 : u32_at bs 116 = sta).
  { unfold u32_at, byte. rewrite (CodecProofs.takeN_field _ _ _ _ _ _ D116 (CodecProofs.lenN_le_bytes4 _)).
    apply CodecProofs.le_val_le_bytes4, Wsta. }
  assert (F120 : u64_at bs 120 = ln).
  { unfold u64_at, byte. rewrite (CodecProofs.takeN_field _ _ _ _ _ _ D120 (CodecProofs.lenN_le_bytes8 _)).
    apply CodecProofs.le_val_le_bytes8. pose proof (CodecProofs.stream_len_mask_u64 v). lia. }
  assert (Hidx : N.to_nat (if (2 <=? (lenN u + 1) * 2) && ((lenN u + 1) * 2 <=? 64)
                           then (lenN u + 1) * 2 / 2 - 1 else 0) = length u).
  { replace ((2 <=? (lenN u + 1) * 2) && ((lenN u + 1) * 2 <=? 64)) with true by lia.
    rewrite N.div_mul by lia. rewrite CodecProofs.lenN_length. lia. }
  assert (Hname : units_of bs (length u) = u) by (apply units_of_le_bytes; exact Hunits).
  unfold parse_entry. cbv zeta. unfold byte. rewrite F64, Hidx, Hname, F66, F67, F68, F72, F76, F80, F96, F100, F108, F116, F120.
  rewrite (CodecProofs.land_stream_len_mask v ln Wln).
  match goal with |- wrep _ _ ?W => set (we := W) end.
  assert (Hforb : existsb (fun f => memN f nm) FORBIDDEN_CHARS = false).
  { destruct (objtype_eqb ty TRoot) eqn:Et.
    - rewrite Wnm. vm_compute. reflexivity.
    - destruct Wnm as [u' Hu']. destruct (validate_name_ok _ _ Hu') as [_ Hf]. exact Hf. }
  assert (Hnok : name_ok we = Some nm).
  { unfold name_ok, we.
    cbn [w_name w_namelen w_raw]. unfold byte.
    replace ((2 <=? (lenN u + 1) * 2) && ((lenN u + 1) * 2 <=? 64) && ((lenN u + 1) * 2 mod 2 =? 0))
      with true.
    2:{ symmetry. rewrite N.mod_mul by lia. lia. }
    cbn [negb].
    replace ((lenN u + 1) * 2 - 2) with (lenN A) by lia.
    unfold u16_at. unfold bs at 1. rewrite CodecProofs.dropN_app_exact.
    assert (HZ : Z = 0 :: 0 :: repeatN 0 (2 * (31 - lenN u))).
    { unfold Z. replace (2 * (32 - lenN u)) with (N.succ (N.succ (2 * (31 - lenN u)))) by lia.
      rewrite !CodecProofs.repeatN_succ. reflexivity. }
    rewrite HZ at 1. cbn [app]. rewrite takeN2_cons.
    change (le_val [0; 0] =? 0) with true. cbn [negb].
    replace (dropN ((lenN u + 1) * 2) bs) with (repeatN 0 (2 * (31 - lenN u)) ++ r64).
    2:{ unfold bs. replace ((lenN u + 1) * 2) with (lenN A + 2) by lia.
        rewrite CodecProofs.dropN_add, CodecProofs.dropN_app_exact. rewrite HZ. cbn [app].
        rewrite dropN2_cons. reflexivity. }
    replace (64 - (lenN u + 1) * 2) with (lenN (repeatN (A:=N) 0 (2 * (31 - lenN u))))
      by (rewrite CodecProofs.lenN_repeatN; lia).
    rewrite CodecProofs.takeN_app_exact, all_zero_repeatN. cbn [negb].
    rewrite scalars_from_utf16. fold u. rewrite Hfrom, Hforb. reflexivity. }
  constructor; try (intros _; exact Hnok); subst we;
    cbn [w_name w_namelen w_type w_color w_left w_right w_child w_clsid_zero w_state w_ctime
                   w_mtime w_start w_len w_raw d_name d_type d_color d_left d_right d_child d_clsid
                   d_state d_ctime d_mtime d_start d_len]; try reflexivity.
  - intros ->. vm_compute. reflexivity.
  - rewrite N.mod_mul by lia. reflexivity.
Qed.

(* ================================================================== *)
(* 6. the directory sectors cut into 128-byte slots                    *)
(* ================================================================== *)

Lemma nthN_map : forall A B (f : A -> B) l i, nthN (map f l) i = option_map f (nthN l i).
Proof.
  intros A B f l. induction l as [|x t IH]; intro i; [reflexivity|].
  cbn [map nthN]. destruct (i =? 0); [reflexivity|apply IH].
Qed.

Lemma lenN_map : forall A B (f : A -> B) l, lenN (map f l) = lenN l.
Proof. intros A B f l. induction l as [|x t IH]; [reflexivity|]. cbn [map lenN]. rewrite IH. reflexivity. Qed.

Lemma split_chunks_app : forall sl n m (a b : list byte), 0 < sl -> lenN a = sl * N.of_nat n ->
  split_chunks (n + m) sl (a ++ b) = split_chunks n sl a ++ split_chunks m sl b.
Proof.
  intros sl n m a b Hsl. revert a. induction n as [|n IH]; intros a Ha.
  - destruct a; [reflexivity|cbn [lenN] in Ha; lia].
  - destruct a as [|x a']; [cbn [lenN] in Ha; lia|].
    change ((x :: a') ++ b) with (x :: (a' ++ b)). cbn [Nat.add split_chunks].
    change (x :: (a' ++ b)) with ((x :: a') ++ b).
    rewrite takeN_app_le by lia. rewrite dropN_app_le by lia.
    cbn [app]. f_equal. apply IH. rewrite lenN_dropN. lia.
Qed.

Lemma split_chunks_nth : forall fuel sl (bs : list byte) j, 0 < sl -> (N.to_nat j < fuel)%nat ->
  sl * (j + 1) <= lenN bs ->
  nthN (split_chunks fuel sl bs) j = Some (takeN sl (dropN (sl * j) bs)).
Proof.
  induction fuel as [|f IH]; intros sl bs j Hsl Hj Hlen; [lia|].
  destruct bs as [|x t]; [cbn [lenN] in Hlen; nia|].
  cbn [split_chunks]. destruct (N.eq_dec j 0) as [->|Hj0].
  - rewrite N.mul_0_r, dropN_0. reflexivity.
  - rewrite nthN_cons_pos by lia. rewrite IH; [|exact Hsl|lia|rewrite lenN_dropN; nia].
    rewrite dropN_dropN. do 3 f_equal. nia.
Qed.

Lemma lenN_split_chunks : forall fuel sl (bs : list byte), 0 < sl -> lenN bs = sl * N.of_nat fuel ->
  lenN (split_chunks fuel sl bs) = N.of_nat fuel.
Proof.
  induction fuel as [|f IH]; intros sl bs Hsl H; [reflexivity|].
  destruct bs as [|x t]; [cbn [lenN] in H; nia|].
  cbn [split_chunks lenN]. rewrite IH; [lia|exact Hsl|rewrite lenN_dropN; nia].
Qed.

Lemma slen_per128 : forall s, 128 * N.of_nat (N.to_nat (slen s / 128)) = slen s.
Proof.
  intro s. rewrite N2Nat.id. destruct (ReuseProofs.slen_cases s) as [E|E]; rewrite E; reflexivity.
Qed.

Lemma flat_map_split_content : forall s ids,
  (forall x, In x ids -> lenN (sector_bytes s x) = slen s) ->
  flat_map (fun i => split_chunks (N.to_nat (slen s / 128)) 128 (sector_bytes s i)) ids
  = split_chunks (length ids * N.to_nat (slen s / 128)) 128 (chain_content s ids).
Proof.
  intros s ids. induction ids as [|x t IH]; intro H; [reflexivity|].
  cbn [flat_map length Nat.mul]. unfold chain_content. cbn [map concat]. fold (chain_content s t).
  rewrite split_chunks_app; [|lia|rewrite slen_per128; apply H; left; reflexivity].
  rewrite IH by (intros y Hy; apply H; right; exact Hy). reflexivity.
Qed.

(* the blank slots that follow the cached table in the last directory sector *)
Definition blanks_of (s : cstate) (dids : list N) : N :=
  dir_per_sector (ver s) * lenN dids - lenN (dirs s).

Theorem raw_entries_eq : forall s dids, Coherent s ->
  chain_ids_of (fat s) (dir_start s) = Ok dids ->
  flat_map (fun i => split_chunks (N.to_nat (slen s / DIR_ENTRY_LEN)) DIR_ENTRY_LEN (sector_bytes s i)) dids
  = map dirent_encode (dirs s ++ repeatN dirent_unallocated (blanks_of s dids)).
Proof.
  intros s dids C Hids. change DIR_ENTRY_LEN with 128.
  destruct (ch_dir s C) as (dids' & Hids' & Hgd & Hcap & Hslot & Hblank).
  unfold DirCoherence.dir_ids in Hids'. assert (dids' = dids) by congruence. subst dids'.
  pose proof (good_chain_lens s dids Hgd) as Hlens.
  pose proof (good_chain_len s dids Hgd) as Hclen.
  pose proof (ReuseProofs.slen_cases s) as Hsl.
  assert (Hper : dir_per_sector (ver s) = slen s / 128) by reflexivity.
  assert (Hper4 : 128 * (slen s / 128) = slen s) by (destruct Hsl as [E|E]; rewrite E; reflexivity).
  rewrite flat_map_split_content.
  2:{ intros x Hx. destruct Hgd as (_ & HF & _). rewrite Forall_forall in HF. apply HF. exact Hx. }
  set (n := (length dids * N.to_nat (slen s / 128))%nat).
  assert (Hn : N.of_nat n = lenN dids * (slen s / 128)).
  { unfold n. rewrite Nat2N.inj_mul, N2Nat.id, CodecProofs.lenN_length. reflexivity. }
  assert (Hcl : lenN (chain_content s dids) = 128 * N.of_nat n) by (unfold byte in *; rewrite Hclen, Hn; nia).
  unfold DIR_ENTRY_LEN in Hcap.
  apply StrictProofs.list_ext. intro j.
  rewrite nthN_map.
  destruct (N.lt_ge_cases j (N.of_nat n)) as [Hj|Hj].
  - rewrite split_chunks_nth; [|lia|lia|unfold byte in *; lia].
    change (takeN 128 (dropN (128 * j) (chain_content s dids))) with (DirCoherence.slot_bytes s dids j).
    destruct (N.lt_ge_cases j (lenN (dirs s))) as [Hjd|Hjd].
    + rewrite ReuseProofs.nthN_app_l by exact Hjd.
      destruct (WalkProofs.nthN_lt_Some (dirs s) j Hjd) as [e He]. rewrite He. cbn [option_map].
      f_equal. apply Hslot; [exact He|].
      pose proof (ch_dir_wf s C e (WalkProofs.nthN_In _ _ _ He)) as W.
      destruct W as [_ Wn _ _ _ _ _ _ _ _ _ _ _]. exact (CodecProofs.wf_name_len _ _ Wn).
    + rewrite ReuseProofs.nthN_app_r by exact Hjd.
      rewrite nthN_repeatN by (unfold blanks_of; rewrite Hper; nia). cbn [option_map].
      f_equal. apply Hblank; [exact Hjd|]. unfold DIR_ENTRY_LEN. nia.
  - rewrite StrictProofs.nthN_none by (rewrite lenN_split_chunks; [exact Hj|lia|exact Hcl]).
    rewrite StrictProofs.nthN_none; [reflexivity|].
    rewrite CodecProofs.lenN_app, CodecProofs.lenN_repeatN. unfold blanks_of. rewrite Hper. nia.
Qed.

(* ================================================================== *)
(* 7. the checker's walk over a sibling tree                           *)
(* ================================================================== *)

Section TreeWalk.
Variable v : version.
Variable ds : list dirent.
Variable es : list wentry.
Hypothesis HE : forall j e, nthN ds j = Some e -> exists we, nthN es j = Some we /\ wrep v e we.

Definition node_ok (j : N) : Prop :=
  exists e we, nthN ds j = Some e /\ nthN es j = Some we /\ wrep v e we /\
    (d_type e = TStorage \/ d_type e = TStream) /\ d_color e = Black /\
    CodecProofs.link_ok (d_left e) /\ CodecProofs.link_ok (d_right e).

(* the ids a walk over [t] adds in front of [seen] *)
Fixpoint sw (t : btree) : list N :=
  match t with BL => [] | BN l i r => sw r ++ sw l ++ [i] end.

Lemma sw_perm : forall t, Permutation (sw t) (ids t).
Proof.
  induction t as [|l IHl i r IHr]; [constructor|]. cbn [sw ids].
  rewrite IHl, IHr. rewrite Permutation_app_comm. rewrite <- app_assoc. apply Permutation_app_head.
  reflexivity.
Qed.

Lemma sw_in : forall t x, In x (sw t) <-> In x (ids t).
Proof. intros t x. split; apply Permutation_in; [|apply Permutation_sym]; apply sw_perm. Qed.

Lemma lt_name_Lt : forall a b, cmp_names a b = Lt -> lt_name a b = true.
Proof. intros a b H. unfold lt_name. rewrite H. reflexivity. Qed.

Lemma sib_walk_ok : forall t root (lo hi : option (list N)) pr seen f,
  Rep ds root t -> bst ds t -> NoDup (ids t) -> (length (ids t) < f)%nat ->
  CodecProofs.link_ok root ->
  (forall j, In j (ids t) -> ~ In j seen) ->
  (forall j, In j (ids t) -> node_ok j) ->
  (forall j l, In j (ids t) -> lo = Some l -> cmp_names l (nm_of ds j) = Lt) ->
  (forall j h, In j (ids t) -> hi = Some h -> cmp_names (nm_of ds j) h = Lt) ->
  sib_walk f es root lo hi pr seen = Some (ids t, sw t ++ seen).
Proof.
  induction t as [|l IHl i r IHr]; intros root lo hi pr seen f HR HB ND Hf Hlk Hdis Hok Hlo Hhi.
  - cbn [Rep] in HR. subst root. destruct f as [|f]; [cbn [ids length] in Hf; lia|].
    cbn [sib_walk]. rewrite N.eqb_refl. reflexivity.
  - destruct HR as (-> & Hi & e & He & HRl & HRr). destruct HB as (Bl & Br & Hlt & Hgt).
    destruct f as [|f]; [lia|].
    assert (Hin : In i (ids (BN l i r))) by (cbn [ids]; apply in_or_app; right; left; reflexivity).
    destruct (Hok i Hin) as (e' & we & He' & Hwe & Hw & Hty & Hcol & Hll & Hlr0).
    assert (Hmax : i <= MAX_REGULAR_STREAM_ID) by (destruct Hlk as [Hlk|Hlk]; [contradiction|exact Hlk]).
    assert (e' = e) by congruence. subst e'.
    apply nodup_node in ND. destruct ND as (NDl & NDr & Hil & Hir & Hlr).
    cbn [sib_walk].
    destruct (N.eqb_spec i NO_STREAM) as [E|_]; [contradiction|].
    destruct (N.ltb_spec MAX_REGULAR_STREAM_ID i) as [E|_]; [lia|].
    assert (Hm : memN i seen = false) by (apply WalkProofs.memN_false; apply Hdis; exact Hin).
    rewrite Hm, Hwe.
    assert (Et : (w_type we =? OBJ_TYPE_STORAGE) || (w_type we =? OBJ_TYPE_STREAM) = true).
    { rewrite (wr_type _ _ _ Hw). destruct Hty as [-> | ->]; reflexivity. }
    rewrite Et. cbn [negb].
    rewrite (wr_color _ _ _ Hw), Hcol. cbn [color_byte].
    change ((COLOR_BLACK =? COLOR_RED) || (COLOR_BLACK =? COLOR_BLACK)) with true. cbn [negb].
    change (COLOR_BLACK =? COLOR_RED) with false. rewrite andb_false_r.
    rewrite (wr_nameok _ _ _ Hw) by (destruct Hty as [-> | ->]; discriminate).
    assert (Hnm : nm_of ds i = d_name e) by (unfold nm_of; rewrite He; reflexivity).
    assert (Elo : match lo with Some l0 => lt_name l0 (d_name e) | None => true end = true).
    { destruct lo as [l0|]; [|reflexivity]. apply lt_name_Lt. rewrite <- Hnm. apply (Hlo i l0 Hin eq_refl). }
    assert (Ehi : match hi with Some h => lt_name (d_name e) h | None => true end = true).
    { destruct hi as [h|]; [|reflexivity]. apply lt_name_Lt. rewrite <- Hnm. apply (Hhi i h Hin eq_refl). }
    match goal with |- (if negb ?A then None else _) = _ =>
      replace A with true by (symmetry; exact Elo) end. cbn [negb].
    match goal with |- (if negb ?A then None else _) = _ =>
      replace A with true by (symmetry; exact Ehi) end. cbn [negb].
    cbn [ids length] in Hf. rewrite app_length in Hf. cbn [length] in Hf.
    rewrite (wr_left _ _ _ Hw), (wr_right _ _ _ Hw).
    rewrite (IHl (d_left e) lo (@Some (list N) (d_name e)) false (i :: seen) f HRl Bl NDl); [|lia|exact Hll| | | |].
    + rewrite (IHr (d_right e) (@Some (list N) (d_name e)) hi false (sw l ++ i :: seen) f HRr Br NDr); [|lia|exact Hlr0| | | |].
      * cbn [ids sw]. rewrite <- !app_assoc. reflexivity.
      * intros j Hj Hc. apply in_app_or in Hc. destruct Hc as [Hc|[<-|Hc]].
        -- apply sw_in in Hc. exact (Hlr j Hc Hj).
        -- contradiction.
        -- apply (Hdis j); [cbn [ids]; apply in_or_app; right; right; exact Hj|exact Hc].
      * intros j Hj. apply Hok. cbn [ids]. apply in_or_app. right. right. exact Hj.
      * intros j l0 Hj [= <-]. rewrite <- Hnm. apply cmp_gt_lt. apply Hgt. exact Hj.
      * intros j h Hj Hh. apply (Hhi j h); [cbn [ids]; apply in_or_app; right; right; exact Hj|exact Hh].
    + intros j Hj [<-|Hc]; [contradiction|].
      apply (Hdis j); [cbn [ids]; apply in_or_app; left; exact Hj|exact Hc].
    + intros j Hj. apply Hok. cbn [ids]. apply in_or_app. left. exact Hj.
    + intros j l0 Hj Hl0. apply (Hlo j l0); [cbn [ids]; apply in_or_app; left; exact Hj|exact Hl0].
    + intros j h Hj [= <-]. rewrite <- Hnm. apply Hlt. exact Hj.
Qed.

End TreeWalk.

(* ================================================================== *)
(* 8. the checker's walk over the whole tree                           *)
(* ================================================================== *)

Section TreeWalk2.
Variable v : version.
Variable ds : list dirent.
Variable es : list wentry.
Hypothesis HE : forall j e, nthN ds j = Some e -> exists we, nthN es j = Some we /\ wrep v e we.
Hypothesis Hlen : (length ds <= length es)%nat.
Hypothesis HB : AllBlack ds.
Hypothesis Hwf : forall j e, nthN ds j = Some e -> CodecProofs.dirent_wf v e.

(* processing the work item [c] takes k rounds and adds V in front of [seen] *)
Definition WSeg (c : N) (k : nat) (V : list N) : Prop :=
  forall rest seen fuel, (forall x, In x V -> ~ In x seen) ->
    tree_walk (k + fuel) es (c :: rest) seen = tree_walk fuel es rest (V ++ seen).

Definition is_sto (i : N) : bool :=
  match nthN es i with Some e => w_type e =? OBJ_TYPE_STORAGE | None => false end.
Definition kid_of (i : N) : N :=
  match nthN es i with Some e => w_child e | None => NO_STREAM end.

Definition kid_w (W : N -> list N) (K : N -> nat) (j : N) : Prop :=
  node_ok v ds es j /\ j <> ROOT_STREAM_ID /\
  if is_sto j then WSeg (kid_of j) (K j) (W j) else (K j = 0%nat /\ W j = []).

Fixpoint revW (W : N -> list N) (l : list N) : list N :=
  match l with [] => [] | j :: t => revW W t ++ W j end.
Fixpoint sumK (K : N -> nat) (l : list N) : nat :=
  match l with [] => 0%nat | j :: t => (K j + sumK K t)%nat end.

Lemma revW_perm : forall (W : N -> list N) (l : list N), Permutation (revW W l) (concat (map W l)).
Proof.
  intros W l. induction l as [|j t IH]; [constructor|]. cbn [revW map concat].
  rewrite IH. apply Permutation_app_comm.
Qed.

Lemma consW_perm : forall (W : N -> list N) (l : list N),
  Permutation (concat (map (fun j => j :: W j) l)) (l ++ concat (map W l)).
Proof.
  intros W l. induction l as [|j t IH]; [constructor|]. cbn [map concat app].
  apply perm_skip. rewrite IH. rewrite !app_assoc. apply Permutation_app_tail. apply Permutation_app_comm.
Qed.

Lemma walk_kids : forall W K l rest seen fuel,
  (forall j, In j l -> kid_w W K j) -> NoDup (concat (map W l)) ->
  (forall x, In x (concat (map W l)) -> ~ In x seen) ->
  tree_walk (sumK K l + fuel) es (map kid_of (filter is_sto l) ++ rest) seen
  = tree_walk fuel es rest (revW W l ++ seen).
Proof.
  intros W K l. induction l as [|j t IH]; intros rest seen fuel Hk ND Hdis; [reflexivity|].
  cbn [map concat] in ND, Hdis. apply nodup_app_iff in ND. destruct ND as (NDj & NDt & Hjt).
  destruct (Hk j (or_introl eq_refl)) as (_ & _ & Hj).
  cbn [filter sumK revW]. destruct (is_sto j).
  - cbn [map app]. rewrite <- Nat.add_assoc. rewrite Hj.
    2:{ intros x Hx. apply Hdis. apply in_or_app. left. exact Hx. }
    rewrite IH; [rewrite <- app_assoc; reflexivity| |exact NDt|].
    + intros i Hi. apply Hk. right. exact Hi.
    + intros x Hx Hc. apply in_app_or in Hc. destruct Hc as [Hc|Hc].
      * exact (Hjt x Hc Hx).
      * apply (Hdis x); [apply in_or_app; right; exact Hx|exact Hc].
  - destruct Hj as [-> ->]. cbn [Nat.add]. rewrite app_nil_r.
    apply IH; [|exact NDt|].
    + intros i Hi. apply Hk. right. exact Hi.
    + intros x Hx. apply Hdis. apply in_or_app. right. exact Hx.
Qed.

Lemma wseg_dir : forall W K c t,
  Rep ds c t -> bst ds t -> NoDup (ids t) -> CodecProofs.link_ok c ->
  (forall j, In j (ids t) -> kid_w W K j) ->
  NoDup (concat (map (fun j => j :: W j) (ids t))) ->
  WSeg c (S (sumK K (ids t))) (revW W (ids t) ++ sw t).
Proof.
  intros W K c t HR HBst NDt Hlk Hk ND rest seen fuel Hdis.
  assert (ND2 : NoDup (ids t ++ concat (map W (ids t))))
    by (eapply Permutation_NoDup; [apply consW_perm|exact ND]).
  apply nodup_app_iff in ND2. destruct ND2 as (_ & NDW & HdW).
  cbn [Nat.add tree_walk].
  rewrite (sib_walk_ok v ds es HE t c None None false seen (S (length es)) HR HBst NDt).
  - change (filter (fun i => match nthN es i with Some e => w_type e =? OBJ_TYPE_STORAGE | None => false end) (ids t))
      with (filter is_sto (ids t)).
    change (map (fun i => match nthN es i with Some e => w_child e | None => NO_STREAM end) (filter is_sto (ids t)))
      with (map kid_of (filter is_sto (ids t))).
    rewrite (walk_kids W K (ids t) rest (sw t ++ seen) fuel Hk NDW).
    + rewrite app_assoc. reflexivity.
    + intros x Hx Hc. apply in_app_or in Hc. destruct Hc as [Hc|Hc].
      * apply sw_in in Hc. exact (HdW x Hc Hx).
      * apply (Hdis x); [|exact Hc]. apply in_or_app. left.
        eapply Permutation_in; [apply Permutation_sym, revW_perm|exact Hx].
  - pose proof (rep_length ds t c HR NDt). lia.
  - exact Hlk.
  - intros j Hj. apply Hdis. apply in_or_app. right. apply sw_in. exact Hj.
  - intros j Hj. apply (Hk j Hj).
  - intros j l _ Hl. discriminate Hl.
  - intros j h _ Hh. discriminate Hh.
Qed.

Definition NodeW (n : Tree.node) : Prop :=
  forall id nm U, MutRefine.NRU ds ctrue false id nm n U -> NoDup U -> ~ In ROOT_STREAM_ID U ->
    exists k V, node_ok v ds es id /\
      (if is_sto id then WSeg (kid_of id) k V else (k = 0%nat /\ V = [])) /\
      Permutation (id :: V) U /\ (k <= length U)%nat.

Lemma sumK_ext : forall K K' l, (forall j, In j l -> K j = K' j) -> sumK K l = sumK K' l.
Proof.
  intros K K' l. induction l as [|j t IH]; intro H; [reflexivity|]. cbn [sumK].
  rewrite (H j (or_introl eq_refl)), IH; [reflexivity|]. intros i Hi. apply H. right. exact Hi.
Qed.

Lemma kids_wseg : forall l ks Us,
  MutRefine.Forall3 (MutRefine.KidU ds ctrue) l ks Us ->
  Forall (fun kc => NodeW (snd kc)) ks -> NoDup l ->
  NoDup (concat Us) -> ~ In ROOT_STREAM_ID (concat Us) ->
  exists W K, (forall j, In j l -> kid_w W K j) /\
              Permutation (concat (map (fun j => j :: W j) l)) (concat Us) /\
              (sumK K l <= length (concat Us))%nat.
Proof.
  intros l ks Us H. induction H as [|i kc u l ks Us Hk _ IH]; intros HF NDl ND H0.
  - exists (fun _ => []), (fun _ => 0%nat). split; [intros j []|]. split; [constructor|cbn; lia].
  - inversion HF as [|? ? Hkc HF']; subst.
    apply NoDup_cons_iff in NDl. destruct NDl as [Hil NDl].
    cbn [concat] in ND, H0. apply nodup_app_iff in ND. destruct ND as (NDu & NDt & _).
    destruct (IH HF' NDl NDt) as (W' & K' & HW' & HP' & HS').
    { intro Hc. apply H0. apply in_or_app. right. exact Hc. }
    destruct (Hkc i (fst kc) u Hk NDu) as (k & V & Hok & Hseg & HP & Hle).
    { intro Hc. apply H0. apply in_or_app. left. exact Hc. }
    exists (fun j => if j =? i then V else W' j), (fun j => if j =? i then k else K' j).
    split; [|split].
    + intros j [<-|Hj].
      * split; [exact Hok|]. split.
        { intros ->. apply H0. apply in_or_app. left.
          eapply Permutation_in; [exact HP|left; reflexivity]. }
        rewrite N.eqb_refl. exact Hseg.
      * assert (Hne : j <> i) by (intros ->; contradiction).
        destruct (HW' j Hj) as (A1 & A2 & A3). split; [exact A1|]. split; [exact A2|].
        destruct (N.eqb_spec j i); [contradiction|exact A3].
    + cbn [map concat]. rewrite N.eqb_refl. apply Permutation_app; [exact HP|].
      etransitivity; [|exact HP'].
      replace (map (fun j => j :: (if j =? i then V else W' j)) l) with (map (fun j => j :: W' j) l);
        [reflexivity|].
      apply map_ext_in. intros j Hj. destruct (N.eqb_spec j i) as [->|_]; [contradiction|reflexivity].
    + cbn [sumK concat]. rewrite N.eqb_refl, app_length.
      rewrite (sumK_ext _ K' l); [lia|].
      intros j Hj. destruct (N.eqb_spec j i) as [->|_]; [contradiction|reflexivity].
Qed.

Lemma typed_node_ok : forall j e, nthN ds j = Some e ->
  d_type e = TStorage \/ d_type e = TStream -> node_ok v ds es j.
Proof.
  intros j e He Hty. destruct (HE j e He) as (we & Hwe & Hw).
  exists e, we. repeat (split; [assumption|]). split.
  - apply (HB j e He). destruct Hty as [-> | ->]; discriminate.
  - pose proof (Hwf j e He) as Wf. split; [exact (CodecProofs.wf_left _ _ Wf)|exact (CodecProofs.wf_right _ _ Wf)].
Qed.

Lemma node_w : forall n, NodeW n.
Proof.
  induction n as [st bs|m ks IH] using TreeProofs.node_ind'; intros id nm U H ND H0.
  - apply MutRefine.NRU_leaf in H.
    destruct H as (_ & e & He & _ & _ & Ht & Hc & _ & _ & _ & _ & _ & _ & ->).
    exists 0%nat, []. split; [eapply typed_node_ok; [exact He|right; exact Ht]|].
    destruct (HE id e He) as (we & Hwe & Hw).
    split; [|split; [reflexivity|cbn; lia]].
    unfold is_sto. rewrite Hwe, (wr_type _ _ _ Hw), Ht. cbn. split; reflexivity.
  - apply MutRefine.NRU_dir in H.
    destruct H as (_ & e & He & _ & Ht & _ & _ & t & Us & HR & HBst & NDt & HK & ->).
    pose proof ND as ND0. apply NoDup_cons_iff in ND. destruct ND as [_ ND].
    destruct (kids_wseg _ _ _ HK IH NDt ND) as (W & K & HW & HP & HS).
    { intro Hc. apply H0. right. exact Hc. }
    destruct (HE id e He) as (we & Hwe & Hw).
    exists (S (sumK K (ids t))), (revW W (ids t) ++ sw t).
    split; [eapply typed_node_ok; [exact He|left; exact Ht]|].
    assert (HPV : Permutation (revW W (ids t) ++ sw t) (concat Us)).
    { etransitivity; [|exact HP]. rewrite consW_perm, revW_perm, sw_perm. apply Permutation_app_comm. }
    split; [|split].
    + unfold is_sto, kid_of. rewrite Hwe, (wr_type _ _ _ Hw), Ht, (wr_child _ _ _ Hw).
      change (objtype_byte TStorage =? OBJ_TYPE_STORAGE) with true. cbv iota.
      apply wseg_dir; try assumption; [exact (CodecProofs.wf_child _ _ (Hwf id e He))|].
      eapply Permutation_NoDup; [apply Permutation_sym; exact HP|exact ND].
    + apply perm_skip. exact HPV.
    + cbn [length]. lia.
Qed.

Theorem tree_walk_ok : forall t U root,
  MutRefine.NRU ds ctrue true ROOT_STREAM_ID ROOT_DIR_NAME t U -> NoDup U ->
  nthN ds ROOT_STREAM_ID = Some root ->
  exists reach, tree_walk (S (length es)) es [d_child root] [0] = Some reach /\ Permutation reach U.
Proof.
  intros t U root HN ND Hroot.
  pose proof HN as [HNR _].
  destruct (QueryRefine.NodeRep_root_dir _ _ _ _ _ HNR) as (m & ks & ->).
  pose proof HN as HN0.
  apply MutRefine.NRU_dir in HN.
  destruct HN as (_ & e & He & _ & Ht & _ & _ & t0 & Us & HR & HBst & NDt & HK & ->).
  assert (e = root) by congruence. subst e.
  pose proof ND as ND0. apply NoDup_cons_iff in ND. destruct ND as [H0 ND].
  assert (HF : Forall (fun kc : name * Tree.node => NodeW (snd kc)) ks).
  { rewrite Forall_forall. intros kc _. apply node_w. }
  destruct (kids_wseg _ _ _ HK HF NDt ND H0) as (W & K & HW & HP & HS).
  assert (HPV : Permutation (revW W (ids t0) ++ sw t0) (concat Us)).
  { etransitivity; [|exact HP]. rewrite consW_perm, revW_perm, sw_perm. apply Permutation_app_comm. }
  assert (Hseg : WSeg (d_child root) (S (sumK K (ids t0))) (revW W (ids t0) ++ sw t0)).
  { apply wseg_dir; try assumption; [exact (CodecProofs.wf_child _ _ (Hwf _ _ Hroot))|].
    eapply Permutation_NoDup; [apply Permutation_sym; exact HP|exact ND]. }
  assert (HlenU : (length (ROOT_STREAM_ID :: concat Us) <= length ds)%nat).
  { apply nodup_bound; [exact ND0|]. intros i Hi. rewrite <- lenN_length.
    destruct (MutRefine.NRU_typed _ _ _ _ _ _ _ HN0 i Hi) as (ei & Hei & _).
    eapply nthN_Some_lt. exact Hei. }
  cbn [length] in HlenU.
  exists ((revW W (ids t0) ++ sw t0) ++ [0]). split.
  - replace (S (length es)) with (S (sumK K (ids t0)) + (S (length es) - S (sumK K (ids t0))))%nat by lia.
    rewrite Hseg.
    + destruct (S (length es) - S (sumK K (ids t0)))%nat as [|f] eqn:Ef; [lia|]. reflexivity.
    + intros x Hx [<-|[]]. apply H0. eapply Permutation_in; [exact HPV|exact Hx].
  - rewrite Permutation_app_comm. cbn [app]. apply perm_skip. exact HPV.
Qed.

End TreeWalk2.

(* ================================================================== *)
(* 9. the directory stage                                              *)
(* ================================================================== *)

(* the table represents a tree, and every slot outside the tree is blank *)
Definition Tidy (ds : list dirent) : Prop :=
  exists t U, MutRefine.NRU ds ctrue true ROOT_STREAM_ID ROOT_DIR_NAME t U /\ NoDup U /\
    forall i e, nthN ds i = Some e -> ~ In i U -> e = dirent_unallocated.

Definition es_of (s : cstate) (dids : list N) : list wentry :=
  map (went (ver s)) (dirs s ++ repeatN dirent_unallocated (blanks_of s dids)).

Lemma es_of_nth_old : forall s dids j e, nthN (dirs s) j = Some e ->
  nthN (es_of s dids) j = Some (went (ver s) e).
Proof.
  intros s dids j e H. unfold es_of. rewrite nthN_map.
  rewrite ReuseProofs.nthN_app_l by (eapply nthN_Some_lt; exact H). rewrite H. reflexivity.
Qed.

Lemma In_repeatN : forall A (x y : A) n, In y (repeatN x n) -> y = x.
Proof.
  intros A x y n. induction n as [|n IH] using N.peano_ind; intro H; [destruct H|].
  rewrite CodecProofs.repeatN_succ in H. destruct H as [<-|H]; [reflexivity|exact (IH H)].
Qed.

Lemma es_of_nth : forall s dids j we, nthN (es_of s dids) j = Some we ->
  (exists e, nthN (dirs s) j = Some e /\ we = went (ver s) e) \/
  (lenN (dirs s) <= j /\ we = went (ver s) dirent_unallocated).
Proof.
  intros s dids j we H. unfold es_of in H. rewrite nthN_map in H.
  destruct (N.lt_ge_cases j (lenN (dirs s))) as [Hj|Hj].
  - rewrite ReuseProofs.nthN_app_l in H by exact Hj.
    destruct (nthN (dirs s) j) as [e|]; [|discriminate H]. injection H as <-. left. eauto.
  - rewrite ReuseProofs.nthN_app_r in H by exact Hj.
    destruct (nthN (repeatN dirent_unallocated (blanks_of s dids)) (j - lenN (dirs s))) as [e|] eqn:E;
      [|discriminate H]. injection H as <-. right. split; [exact Hj|].
    apply WalkProofs.nthN_In in E. apply In_repeatN in E. subst e. reflexivity.
Qed.

Lemma blank_went : forall v, blank_entry (went v dirent_unallocated) = true.
Proof. intros [|]; vm_compute; reflexivity. Qed.


Theorem stage_tree_eq : forall s dids root_e own2 fm nm, PInv s -> Tidy (dirs s) ->
  nthN (dirs s) ROOT_STREAM_ID = Some root_e ->
  exists reach, (forall i, In i reach -> i < lenN (dirs s)) /\
  stage_tree (slen s) (slen s / 4) (sector_bytes s) (fat s) (es_of s dids) (went (ver s) root_e) own2 fm nm
  = stage_mini (slen s) (slen s / 4) (sector_bytes s) (fat s) (es_of s dids) (went (ver s) root_e)
               reach own2 fm nm.
Proof.
  intros s dids root_e own2 fm nm HP (t & U & HN & ND & Hblank) Hroot.
  pose proof (PInv_Coherent s HP) as C.
  destruct HP as [B Hdir Hents Hrootok Htree].
  assert (Hwf : forall j e, nthN (dirs s) j = Some e -> CodecProofs.dirent_wf (ver s) e).
  { intros j e He. rewrite Forall_nthN in Hents. apply (Hents j e He). }
  assert (HE : forall j e, nthN (dirs s) j = Some e ->
             exists we, nthN (es_of s dids) j = Some we /\ wrep (ver s) e we).
  { intros j e He. exists (went (ver s) e). split; [apply es_of_nth_old; exact He|].
    apply went_wrep. exact (Hwf j e He). }
  assert (Hlen : (length (dirs s) <= length (es_of s dids))%nat).
  { unfold es_of. rewrite map_length, app_length. lia. }
  pose proof (ents_AllBlack _ _ Hents) as HB.
  destruct (tree_walk_ok (ver s) (dirs s) (es_of s dids) HE Hlen HB Hwf t U root_e HN ND Hroot)
    as (reach & Hwalk & Hperm).
  exists reach. split.
  { intros i Hi. destruct (MutRefine.NRU_typed _ _ _ _ _ _ _ HN i) as (ei & Hei & _).
    - eapply Permutation_in; [exact Hperm|exact Hi].
    - eapply nthN_Some_lt. exact Hei. }
  pose proof (went_wrep _ _ (Hwf _ _ Hroot)) as Wr.
  destruct Hrootok as (root' & Hr' & RL & RR & _). assert (root' = root_e) by congruence. subst root'.
  assert (Hrt : d_type root_e = TRoot).
  { pose proof HN as [HNR _]. destruct (QueryRefine.NodeRep_root_dir _ _ _ _ _ HNR) as (m & ks & ->).
    apply MutRefine.NRU_dir in HN. destruct HN as (_ & e & He & _ & Ht & _). congruence. }
  assert (Hrn : d_name root_e = ROOT_DIR_NAME).
  { pose proof (CodecProofs.wf_name _ _ (Hwf _ _ Hroot)) as Wn. rewrite Hrt in Wn. exact Wn. }
  unfold stage_tree.
  rewrite (wr_type _ _ _ Wr), Hrt. change (negb (objtype_byte TRoot =? OBJ_TYPE_ROOT)) with false. cbv iota.
  rewrite (wr_name _ _ _ Wr), Hrn, scalars_from_utf16,
          (CodecProofs.from_utf16_utf16 _ CodecProofs.scalar_root_name), CodecProofs.list_eqb_refl.
  cbn [negb]. rewrite (wr_left _ _ _ Wr), (wr_right _ _ _ Wr), RL, RR, N.eqb_refl. cbn [andb negb].
  assert (H46 : (w_color (went (ver s) root_e) =? COLOR_RED) || (w_color (went (ver s) root_e) =? COLOR_BLACK) = true).
  { rewrite (wr_color _ _ _ Wr). destruct (d_color root_e); reflexivity. }
  rewrite H46, (wr_nameok_root _ _ _ Wr Hrt). cbn [negb].
  rewrite (wr_child _ _ _ Wr), Hwalk.
  assert (H31 : forallb (fun '(i, e) => if memN i reach then true else blank_entry e)
                        (index_from (es_of s dids) 0) = true).
  { apply forallb_index_from. intros i we Hwe. rewrite N.add_0_l.
    destruct (memN i reach) eqn:Em; [reflexivity|].
    apply WalkProofs.memN_false in Em.
    assert (HnU : ~ In i U) by (intro Hc; apply Em; eapply Permutation_in; [apply Permutation_sym; exact Hperm|exact Hc]).
    destruct (es_of_nth s dids i we Hwe) as [(e & He & ->)|(_ & ->)]; [|apply blank_went].
    rewrite (Hblank i e He HnU). apply blank_went. }
  rewrite H31. cbn [negb].
  assert (H48 : forallb (fun '(i, e) => if memN i reach then true else w_namelen e mod 2 =? 0)
                        (index_from (es_of s dids) 0) = true).
  { apply forallb_index_from. intros i we Hwe. rewrite N.add_0_l.
    destruct (memN i reach); [reflexivity|]. apply N.eqb_eq.
    destruct (es_of_nth s dids i we Hwe) as [(e & He & ->)|(_ & ->)].
    - exact (wr_namelen_even _ _ _ (went_wrep _ _ (Hwf _ _ He))).
    - destruct (ver s); vm_compute; reflexivity. }
  rewrite H48. cbn [negb].
  assert (H32 : forallb (fun '(i, e) => if (w_type e =? OBJ_TYPE_STREAM) && memN i reach
                                   then w_clsid_zero e && (w_ctime e =? 0) && (w_mtime e =? 0) && (w_child e =? NO_STREAM)
                                   else true) (index_from (es_of s dids) 0) = true).
  { apply forallb_index_from. intros i we Hwe. rewrite N.add_0_l.
    destruct ((w_type we =? OBJ_TYPE_STREAM) && memN i reach) eqn:Ec; [|reflexivity].
    apply andb_true_iff in Ec. destruct Ec as [Ety Em]. apply WalkProofs.memN_In in Em.
    destruct (MutRefine.NRU_typed _ _ _ _ _ _ _ HN i) as (e & He & _);
      [eapply Permutation_in; [exact Hperm|exact Em]|].
    rewrite (es_of_nth_old s dids i e He) in Hwe. injection Hwe as <-.
    pose proof (went_wrep _ _ (Hwf _ _ He)) as W.
    rewrite (wr_type _ _ _ W) in Ety.
    assert (Hst : d_type e = TStream) by (destruct (d_type e); try discriminate Ety; reflexivity).
    destruct (CodecProofs.wf_stream _ _ (Hwf _ _ He) Hst) as (Hc & Hg & Hct & Hmt).
    rewrite (wr_clsid _ _ _ W Hg), (wr_ctime _ _ _ W), (wr_mtime _ _ _ W), (wr_child _ _ _ W), Hc, Hct, Hmt.
    reflexivity. }
  rewrite H32. cbn [negb].
  assert (Hsto : forall i we, nthN (es_of s dids) i = Some we ->
            (w_type we =? OBJ_TYPE_STORAGE) && memN i reach = true -> w_start we = 0 /\ w_len we = 0).
  { intros i we Hwe Ec.
    apply andb_true_iff in Ec. destruct Ec as [Ety Em]. apply WalkProofs.memN_In in Em.
    destruct (MutRefine.NRU_typed _ _ _ _ _ _ _ HN i) as (e & He & _);
      [eapply Permutation_in; [exact Hperm|exact Em]|].
    rewrite (es_of_nth_old s dids i e He) in Hwe. injection Hwe as <-.
    pose proof (went_wrep _ _ (Hwf _ _ He)) as W.
    rewrite (wr_type _ _ _ W) in Ety.
    assert (Hst : d_type e = TStorage) by (destruct (d_type e); try discriminate Ety; reflexivity).
    destruct (CodecProofs.wf_storage _ _ (Hwf _ _ He) Hst) as (Hs0 & Hl0).
    rewrite (wr_start _ _ _ W), (wr_len _ _ _ W). split; assumption. }
  assert (H49 : forallb (fun '(i, e) => if (w_type e =? OBJ_TYPE_STORAGE) && memN i reach
                                   then w_start e =? 0 else true) (index_from (es_of s dids) 0) = true).
  { apply forallb_index_from. intros i we Hwe. rewrite N.add_0_l.
    destruct ((w_type we =? OBJ_TYPE_STORAGE) && memN i reach) eqn:Ec; [|reflexivity].
    apply N.eqb_eq. exact (proj1 (Hsto i we Hwe Ec)). }
  assert (H50 : forallb (fun '(i, e) => if (w_type e =? OBJ_TYPE_STORAGE) && memN i reach
                                   then w_len e =? 0 else true) (index_from (es_of s dids) 0) = true).
  { apply forallb_index_from. intros i we Hwe. rewrite N.add_0_l.
    destruct ((w_type we =? OBJ_TYPE_STORAGE) && memN i reach) eqn:Ec; [|reflexivity].
    apply N.eqb_eq. exact (proj2 (Hsto i we Hwe Ec)). }
  rewrite H49, H50. reflexivity.
Qed.

Theorem stage_dir_eq : forall s, PInv s -> Tidy (dirs s) ->
  exists dids reach root_e,
    chain_ids_of (fat s) (dir_start s) = Ok dids /\ nthN (dirs s) ROOT_STREAM_ID = Some root_e /\
    (forall i, In i reach -> i < lenN (dirs s)) /\
    stage_dir (slen s) (slen s / 4) (ver_number (ver s)) (sector_bytes s) (fat s)
              (h_num_dir (header_of s)) (dir_start s) (minifat_start s)
              (chain_count (fat s) (minifat_start s)) (rev (difat s) ++ [])
    = stage_mini (slen s) (slen s / 4) (sector_bytes s) (fat s) (es_of s dids) (went (ver s) root_e)
                 reach (rev dids ++ rev (difat s) ++ []) (minifat_start s)
                 (chain_count (fat s) (minifat_start s)).
Proof.
  intros s HP HT. pose proof (PInv_Coherent s HP) as C.
  destruct (ch_dir s C) as (dids & Hids & Hgd & Hcap & _).
  unfold DirCoherence.dir_ids in Hids.
  destruct (p_root s HP) as (root_e & Hroot & _).
  destruct (stage_tree_eq s dids root_e (rev dids ++ rev (difat s) ++ []) (minifat_start s)
              (chain_count (fat s) (minifat_start s)) HP HT Hroot) as (reach & Hreach & Htree).
  exists dids, reach, root_e. split; [exact Hids|]. split; [exact Hroot|]. split; [exact Hreach|].
  pose proof Hgd as (Hnd & HF & _ & _). pose proof (ch_nsect s C) as Hns. markers.
  assert (Hreg : Forall (fun x => x <= MAX_REGULAR_SECTOR) dids).
  { eapply Forall_impl; [|exact HF]. cbv beta. intros a [Ha _]. lia. }
  unfold stage_dir.
  rewrite (chain_of_ids _ _ _ Hids Hnd Hreg).
  assert (Hpos : 0 < lenN (dirs s)) by (eapply nthN_Some_lt; exact Hroot).
  unfold DIR_ENTRY_LEN in Hcap.
  destruct (N.eqb_spec (lenN dids) 0) as [E|_].
  { rewrite E in Hcap. lia. }
  assert (H24 : (if ver_number (ver s) =? 3 then h_num_dir (header_of s) =? 0
                 else h_num_dir (header_of s) =? lenN dids) = true).
  { unfold header_of. cbn [h_num_dir]. destruct (ver s); cbn [ver_number].
    - reflexivity.
    - change (V4_NUMBER =? 3) with false. cbv iota. unfold chain_count. rewrite Hids. apply N.eqb_refl. }
  rewrite H24. cbn [negb].
  rewrite (disjoint_add_ok dids (rev (difat s) ++ []) Hnd).
  2:{ intros x Hx Hc. rewrite app_nil_r in Hc. apply in_rev in Hc.
      exact (chain_not_marked s _ _ x (ch_marks s C) Hids Hx Hc). }
  cbv zeta.
  rewrite (raw_entries_eq s dids C Hids), map_map.
  assert (Hmask : (if ver_number (ver s) =? 3 then 4294967295 else 18446744073709551615)
                  = stream_len_mask (ver s)) by (destruct (ver s); reflexivity).
  rewrite Hmask.
  change (map (fun x => parse_entry (stream_len_mask (ver s)) (dirent_encode x))
              (dirs s ++ repeatN dirent_unallocated (blanks_of s dids))) with (es_of s dids).
  destruct (es_of s dids) as [|w0 tl] eqn:Ees.
  { pose proof (es_of_nth_old s dids _ _ Hroot) as Hc. rewrite Ees in Hc. discriminate Hc. }
  assert (w0 = went (ver s) root_e).
  { pose proof (es_of_nth_old s dids _ _ Hroot) as Hc. rewrite Ees in Hc. cbn in Hc. congruence. }
  subst w0. exact Htree.
Qed.

(* ================================================================== *)
(* 10. the MiniFAT / mini stream / ownership stages                    *)
(* ================================================================== *)

(* the root entry owns no mini stream *)
Definition RootEmpty (s : cstate) : Prop :=
  forall r, nthN (dirs s) ROOT_STREAM_ID = Some r -> d_start r = END_OF_CHAIN /\ d_len r = 0.

Lemma flat_map_words_content : forall s ids,
  (forall x, In x ids -> lenN (sector_bytes s x) = slen s) ->
  flat_map (fun i => words (N.to_nat (slen s / 4)) (sector_bytes s i)) ids = u32s (chain_content s ids).
Proof.
  intros s ids. induction ids as [|x t IH]; intro H; [reflexivity|].
  cbn [flat_map]. unfold chain_content. cbn [map concat]. fold (chain_content s t).
  assert (Hx : lenN (sector_bytes s x) = slen s) by (apply H; left; reflexivity).
  rewrite (u32s_app _ _ (slen s / 4)).
  2:{ rewrite Hx. destruct (ReuseProofs.slen_cases s) as [E|E]; rewrite E; reflexivity. }
  rewrite words_u32s by (rewrite slen_words; exact Hx).
  rewrite IH by (intros y Hy; apply H; right; exact Hy). reflexivity.
Qed.

Lemma chain_of_eoc : forall fat, chain_of fat END_OF_CHAIN = Some [].
Proof. intro fat. unfold chain_of. cbn [walk]. rewrite N.eqb_refl. reflexivity. Qed.

Lemma fold_streams_empty : forall sl fat mf l own,
  (forall ie, In ie l -> w_len (snd ie) = 0 /\ w_start (snd ie) = END_OF_CHAIN) ->
  fold_left (streams_step sl fat mf) l (Some (own, [])) = Some (own, []).
Proof.
  intros sl fat mf l own. induction l as [|ie t IH]; intro H; [reflexivity|].
  cbn [fold_left]. destruct (H ie (or_introl eq_refl)) as [Hl Hs].
  unfold streams_step at 2. cbv zeta. rewrite Hl, Hs. change (0 =? 0) with true. cbv iota.
  rewrite N.eqb_refl. apply IH. intros x Hx. apply H. right. exact Hx.
Qed.

Theorem stage_mini_eq : forall s dids reach root_e,
  PInv s -> EmptyStreams s -> Owned s -> RootEmpty s ->
  chain_ids_of (fat s) (dir_start s) = Ok dids -> nthN (dirs s) ROOT_STREAM_ID = Some root_e ->
  (forall i, In i reach -> i < lenN (dirs s)) ->
  stage_mini (slen s) (slen s / 4) (sector_bytes s) (fat s) (es_of s dids) (went (ver s) root_e)
             reach (rev dids ++ rev (difat s) ++ []) (minifat_start s)
             (chain_count (fat s) (minifat_start s)) = 0.
Proof.
  intros s dids reach root_e HP HES HO HRE Hids Hroot Hreach.
  pose proof (PInv_Coherent s HP) as C.
  destruct (ch_mini s C) as (mids & Hmids & Hgm & Hmcap & Hmcell).
  unfold DirCoherence.minifat_ids in Hmids.
  pose proof Hgm as (Hndm & HFm & _ & _). pose proof (ch_nsect s C) as Hns. markers.
  assert (Hregm : Forall (fun x => x <= MAX_REGULAR_SECTOR) mids).
  { eapply Forall_impl; [|exact HFm]. cbv beta. intros a [Ha _]. lia. }
  assert (Hwf : forall j e, nthN (dirs s) j = Some e -> CodecProofs.dirent_wf (ver s) e).
  { intros j e He. pose proof (p_ents s HP) as Hents. rewrite Forall_nthN in Hents. apply (Hents j e He). }
  pose proof (went_wrep _ _ (Hwf _ _ Hroot)) as Wr.
  destruct (HRE root_e Hroot) as [Hrs Hrl].
  unfold stage_mini.
  rewrite (chain_of_ids _ _ _ Hmids Hndm Hregm).
  unfold chain_count at 1. rewrite Hmids, N.eqb_refl. cbn [negb].
  rewrite (disjoint_add_ok mids _ Hndm).
  2:{ intros x Hx Hc. apply in_app_or in Hc. destruct Hc as [Hc|Hc].
      - apply in_rev in Hc. exact (b_disj s (p_base s HP) dids mids Hids Hmids x Hc Hx).
      - rewrite app_nil_r in Hc. apply in_rev in Hc.
        exact (chain_not_marked s _ _ x (ch_marks s C) Hmids Hx Hc). }
  cbv zeta.
  rewrite (wr_len _ _ _ Wr), (wr_start _ _ _ Wr), Hrl, Hrs.
  change (negb (0 mod MINI_SECTOR_LEN =? 0)) with false. cbv iota.
  change (0 / MINI_SECTOR_LEN) with 0.
  rewrite chain_of_eoc. cbn [lenN]. change (0 * slen s <? 0) with false. cbv iota.
  cbn [disjoint_add].
  replace (lenN (flat_map (fun i => words (N.to_nat (slen s / 4)) (sector_bytes s i)) mids) <? 0)
    with false by (symmetry; apply N.ltb_ge; lia).
  rewrite dropN_0, takeN_0.
  (* the MiniFAT sectors hold nothing but FREE *)
  assert (Hmf : minifat s = []).
  { destruct (p_root s HP) as (r' & Hr' & _ & _ & _ & Hfit). assert (r' = root_e) by congruence. subst r'.
    rewrite Hrl in Hfit. change (0 / MINI_SECTOR_LEN) with 0 in Hfit.
    destruct (minifat s); [reflexivity|cbn [lenN] in Hfit; lia]. }
  rewrite flat_map_words_content by (intros x Hx; rewrite Forall_forall in HFm; apply HFm; exact Hx).
  rewrite (u32s_minifat s mids Hgm Hmcap Hmcell (ch_mini_tail s C mids Hmids)), Hmf. cbn [app].
  rewrite forallb_repeatN by apply N.eqb_refl. cbn [negb].
  (* ownership *)
  unfold stage_own. cbv zeta.
  set (own4 := rev mids ++ rev dids ++ rev (difat s) ++ []).
  rewrite fold_streams_empty.
  2:{ intros [i we] Hin. apply filter_In in Hin. destruct Hin as [Hin Hc].
      apply andb_true_iff in Hc. destruct Hc as [Ety Em]. apply WalkProofs.memN_In in Em.
      apply In_index_from in Hin. destruct Hin as [_ Hn]. rewrite N.sub_0_r in Hn.
      destruct (WalkProofs.nthN_lt_Some (dirs s) i (Hreach i Em)) as [e He].
      rewrite (es_of_nth_old s dids i e He) in Hn. injection Hn as <-.
      pose proof (went_wrep _ _ (Hwf _ _ He)) as W. cbn [snd].
      rewrite (wr_type _ _ _ W) in Ety.
      assert (Hst : d_type e = TStream) by (destruct (d_type e); try discriminate Ety; reflexivity).
      unfold EmptyStreams in HES. rewrite Forall_nthN in HES. destruct (HES i e He Hst) as [Hs Hl].
      rewrite (wr_len _ _ _ W), (wr_start _ _ _ W). auto. }
  assert (H43 : forallb (fun '(i, v) => if v =? FREE_SECTOR then negb (memN i own4) else memN i own4)
                        (index_from (fat s) 0) = true).
  { apply forallb_index_from. intros i v Hv. rewrite N.add_0_l.
    assert (Hown : In i own4 -> v <> FREE_SECTOR).
    { unfold own4. rewrite app_nil_r. intro Hin.
      apply in_app_or in Hin. destruct Hin as [Hin|Hin]; [|apply in_app_or in Hin; destruct Hin as [Hin|Hin]];
        apply in_rev in Hin.
      - destruct (chain_cell _ _ _ _ Hmids Hin) as (v' & Hv' & Hr). assert (v' = v) by congruence. lia.
      - destruct (chain_cell _ _ _ _ Hids Hin) as (v' & Hv' & Hr). assert (v' = v) by congruence. lia.
      - rewrite (ch_marks s C i Hin) in Hv. injection Hv as <-. lia. }
    destruct (N.eqb_spec v FREE_SECTOR) as [E|E].
    - destruct (memN i own4) eqn:Em; [|reflexivity]. apply WalkProofs.memN_In in Em.
      exfalso. exact (Hown Em E).
    - apply WalkProofs.memN_In. unfold own4. rewrite app_nil_r.
      destruct (HO i v Hv E) as [Hd|[(ids & Hi & Hin)|(ids & Hi & Hin)]].
      + apply in_or_app. right. apply in_or_app. right. apply -> in_rev. exact Hd.
      + assert (ids = dids) by congruence. subst ids.
        apply in_or_app. right. apply in_or_app. left. apply -> in_rev. exact Hin.
      + assert (ids = mids) by congruence. subst ids.
        apply in_or_app. left. apply -> in_rev. exact Hin. }
  rewrite H43. reflexivity.
Qed.

(* ================================================================== *)
(* 11. the checker accepts the image of every invariant state          *)
(* ================================================================== *)

Theorem pinv_image_wf : forall s,
  PInv s -> EmptyStreams s -> Owned s -> RootEmpty s -> Tidy (dirs s) ->
  wf_check (concat_img (img s)) = 0.
Proof.
  intros s HP HES HO HRE HT. pose proof (PInv_Coherent s HP) as C.
  rewrite wf_check_staged. unfold wf_staged, concat_img. cbv zeta.
  rewrite (image_len s C).
  destruct (ch_fat s C) as [_ _ Hpos _].
  pose proof (ReuseProofs.slen_cases s) as Hsl.
  replace (slen s * (nsect s + 1) <? HEADER_LEN) with false
    by (symmetry; apply N.ltb_ge; unfold HEADER_LEN; destruct Hsl as [E|E]; rewrite E; lia).
  destruct (image_split s C) as (R & HR).
  destruct (header_fields (header_of s) R (coherent_header_wf s C))
    as (T0 & F26 & F28 & F30 & F32 & _ & _ & _ & F56 & _).
  rewrite <- HR in T0, F26, F28, F30, F32, F56.
  rewrite T0, CodecProofs.list_eqb_refl. cbn [negb].
  rewrite F26, F28, F30, F32, F56, !N.eqb_refl. cbn [negb].
  change (h_ver (header_of s)) with (ver s).
  assert (Hv : (ver_number (ver s) =? 3) || (ver_number (ver s) =? 4) = true) by (destruct (ver s); reflexivity).
  rewrite Hv. cbn [negb].
  assert (Hsh : (if ver_number (ver s) =? 3 then 9 else 12) = sector_shift (ver s)) by (destruct (ver s); reflexivity).
  rewrite Hsh, N.eqb_refl. cbn [negb].
  rewrite (stage_body_eq s C).
  rewrite (stage_fat_eq s _ _ _ _ _ C HO).
  destruct (stage_dir_eq s HP HT) as (dids & reach & root_e & Hids & Hroot & Hreach & ->).
  exact (stage_mini_eq s dids reach root_e HP HES HO HRE Hids Hroot Hreach).
Qed.

(* ================================================================== *)
(* 12. the side conditions along a history: root entry                 *)
(* ================================================================== *)


(* a root entry owns nothing; kept for every entry so that it is a per-entry
   condition preserved like [es_ok] *)
Definition rs_ok (e : dirent) : Prop :=
  d_type e = TRoot -> d_start e = END_OF_CHAIN /\ d_len e = 0.
Definition RootsEmpty (s : cstate) : Prop := Forall rs_ok (dirs s).

Lemma rs_ok_tsl : forall e e', tsl e e' -> rs_ok e -> rs_ok e'.
Proof. intros e e' (Ht & Hs & Hl) H Ht'. rewrite Ht in Ht'. rewrite Hs, Hl. exact (H Ht'). Qed.

Lemma rs_ok_payload : forall e e', same_payload e e' -> rs_ok e -> rs_ok e'.
Proof. intros e e' (_ & Ht & Hs & Hl & _). apply rs_ok_tsl. repeat split; assumption. Qed.

Lemma rs_ok_unalloc : rs_ok dirent_unallocated.
Proof. intro H. discriminate H. Qed.

Lemma rs_ok_new : forall nm ty ts, rs_ok (dirent_new nm ty ts).
Proof. intros nm ty ts H. cbn [dirent_new d_type] in H. subst ty. cbn. split; reflexivity. Qed.

Lemma RootsEmpty_RootEmpty : forall s, RootsEmpty s -> TreeInv (dirs s) -> RootEmpty s.
Proof.
  intros s H HT r Hr. destruct (tree_root_type _ HT) as (e & He & Ht).
  assert (e = r) by congruence. subst e. unfold RootsEmpty in H. rewrite Forall_nthN in H.
  exact (H _ _ Hr Ht).
Qed.

Lemma RootsEmpty_modN : forall s s' id f,
  RootsEmpty s -> dirs s' = modN (dirs s) id f -> (forall e, tsl e (f e)) -> RootsEmpty s'.
Proof.
  intros s s' id f H Ed Hf. unfold RootsEmpty. rewrite Ed. apply Forall_modN; [exact H|].
  intros e He. eapply rs_ok_tsl; [apply Hf|exact He].
Qed.

Lemma RootsEmpty_remove : forall s s' parent nm u,
  RootsEmpty s -> remove_dir_entry parent nm s = (s', Ok u) -> RootsEmpty s'.
Proof.
  intros s s' parent nm u H Hr.
  destruct (remove_ids_stable_raw _ _ _ _ _ Hr) as (x & ex & _ & _ & _ & _ & Hx & Hlen & Hst).
  unfold RootsEmpty in *. apply Forall_nthN. intros k e' Hk.
  destruct (N.eq_dec k x) as [->|Hne].
  - assert (e' = dirent_unallocated) by congruence. subst e'. apply rs_ok_unalloc.
  - pose proof (nthN_Some_lt _ _ _ _ Hk) as Hlt. rewrite Hlen in Hlt.
    destruct (WalkProofs.nthN_lt_Some (dirs s) k Hlt) as [e He].
    destruct (Hst k e Hne He) as (e'' & He'' & P & _).
    assert (e'' = e') by congruence. subst e''.
    eapply rs_ok_payload; [exact P|]. rewrite Forall_nthN in H. eapply H. exact He.
Qed.

Lemma RootsEmpty_insert : forall s s' parent nm ty now id,
  RootsEmpty s -> insert_dir_entry parent nm ty now s = (s', Ok id) -> RootsEmpty s'.
Proof.
  intros s s' parent nm ty now id H Hi.
  destruct (insert_proj _ _ _ _ _ _ _ Hi) as (ds0 & p & prev & ord & Hal & Hid0 & Hrest).
  cbv zeta in Hrest. destruct Hrest as (Hp1 & Hd & Hds).
  set (new := dirent_new nm ty (if objtype_eqb ty TStorage then now else 0)) in *.
  assert (H0 : Forall rs_ok ds0).
  { unfold alloc_tbl in Hal. destruct (first_unalloc (dirs s) 0); injection Hal as -> _; [exact H|].
    apply Forall_app. split; [exact H|]. constructor; [apply rs_ok_unalloc|constructor]. }
  assert (H1 : Forall rs_ok (updN ds0 id new)) by (apply Forall_updN; [exact H0|apply rs_ok_new]).
  set (ds1 := updN ds0 id new) in *.
  assert (Hod : ord = Eq -> prev = parent).
  { intros ->. apply DirCoherence.insert_descend_eq in Hd. apply Hd. }
  assert (Hlen : lenN (dirs s') = lenN ds1).
  { rewrite Hds. unfold tbl_link. destruct ord; rewrite ?lenN_modN; try reflexivity.
    destruct (nthN ds1 prev); [apply lenN_updN|reflexivity]. }
  unfold RootsEmpty. apply Forall_nthN. intros k e' Hk.
  pose proof (nthN_Some_lt _ _ _ _ Hk) as Hlt. rewrite Hlen in Hlt.
  destruct (WalkProofs.nthN_lt_Some ds1 k Hlt) as [e He].
  destruct (tbl_link_stable ds1 parent prev ord id p k e Hp1 Hod He) as (e'' & He'' & P & _).
  rewrite <- Hds in He''. assert (e'' = e') by congruence. subst e''.
  eapply rs_ok_payload; [exact P|]. rewrite Forall_nthN in H1. eapply H1. exact He.
Qed.

(* ================================================================== *)
(* 13. the side conditions along a history: FAT ownership              *)
(* ================================================================== *)

Lemma Owned_frame : forall s s',
  fat s' = fat s -> difat s' = difat s -> dir_start s' = dir_start s ->
  minifat_start s' = minifat_start s -> Owned s -> Owned s'.
Proof.
  intros s s' Ef Ed Es Em H i v Hv Hn. rewrite Ef in Hv. rewrite Ef, Ed, Es, Em. exact (H i v Hv Hn).
Qed.

Lemma Owned_dframe : forall dids s s', dframe dids s s' -> Owned s -> Owned s'.
Proof.
  intros dids s s' (_ & _ & _ & F4 & F5 & _ & F7 & _ & F9 & _). apply Owned_frame; assumption.
Qed.

(* the shape of the FAT after the directory chain has grown by a sector
   (transcribed from the first half of PersistProofs.dir_extension_base) *)
Lemma dir_extension_shape : forall s s3,
  Base s -> DirCoherence.DirCoherent s ->
  lenN (difat s) < NUM_DIFAT_HDR -> nsect s + 3 <= MAX_REGULAR_SECTOR ->
  (do _ <- extend_chain (dir_start s) IDir; update_num_dir_sectors) s = (s3, Ok tt) ->
  exists dids mids X lst nw,
    chain_ids_of (fat s) (dir_start s) = Ok dids /\ chain_ids_of (fat s) (minifat_start s) = Ok mids /\
    In lst dids /\
    ((X = [END_OF_CHAIN] /\ difat s3 = difat s /\ nw = nsect s) \/
     (X = [FAT_SECTOR; END_OF_CHAIN] /\ difat s3 = difat s ++ [nsect s] /\ nw = nsect s + 1)) /\
    fat s3 = updN (fat s ++ X) lst nw /\ dir_start s3 = dir_start s /\ minifat_start s3 = minifat_start s /\
    chain_ids_of (fat s3) (dir_start s3) = Ok (dids ++ [nw]) /\
    chain_ids_of (fat s3) (minifat_start s3) = Ok mids.
Proof.
  intros s s3 B Hdir Hreg Hsize H.
  pose proof (G_of_Base s B) as HG.
  destruct B as [Bh Bf Bd Bi Bn Bs Bu Bt Bm Bv Bmi Bmt Bml Bmv Bfr Bdj].
  pose proof Bf as [[Ci Cfull Ccoh Cnd Clt] Clen Cpos Ctight].
  destruct Hdir as (dids & Hids & Hgd & Hdcap & _).
  pose proof Bmi as (mids & Hmids & Hgm & Hmcap & Hmcell).
  destruct (uniform_parts s (slen s) Ci Bu) as [Uh _].
  unfold DirCoherence.dir_ids in Hids. unfold DirCoherence.minifat_ids in Hmids.
  binv H new s2 He H3.
  pose proof He as He0.
  unfold extend_chain in He.
  destruct (N.eqb_spec (dir_start s) END_OF_CHAIN) as [E|Hstart]; [discriminate He|].
  binv He s0 sx H1 H2. apply get_inv in H1. destruct H1 as [-> ->].
  binv H2 lst sx H1 H2. apply lift_inv in H1. destruct H1 as [-> Hfl].
  binv H2 nw sa Ha H2. binv H2 u2 sb Hs H2. apply ret_inv in H2. destruct H2 as [<- ->]. destruct u2.
  pose proof (WalkProofs.chain_ids_path _ _ _ Hids) as Hpd.
  pose proof (DirCoherence.find_last_go_path _ _ _ _ _ _ Hpd Hstart Hfl) as Hlast.
  pose proof (CoherenceProofs.lastN_In _ _ _ Hlast) as HlastIn.
  pose proof (path_last_eoc _ _ _ _ Hpd Hlast) as Hlast_eoc.
  assert (Hlast_lt : lst < lenN (fat s)) by (eapply nthN_Some_lt; exact Hlast_eoc).
  assert (Hdids_nf : forall x, In x dids -> ~ In x (difat s))
    by (intros x Hx; exact (chain_not_marked s _ _ x Bm Hids Hx)).
  assert (Hmids_nf : forall x, In x mids -> ~ In x (difat s))
    by (intros x Hx; exact (chain_not_marked s _ _ x Bm Hmids Hx)).
  markers.
  destruct (G_allocate_grow IDir s sa nw HG Bfr Clen Hreg Ha) as (HGa & Hshape & Ra & Oa & Ba).
  destruct (CoherenceProofs.allocate_grow_coherent IDir s sa nw Bf Bd Bfr Ha)
    as (Hinva & Hoka & Hfra & Hnw & Hnsa).
  destruct (allocate_sector_header IDir s sa nw Bh Bf Hreg ltac:(rewrite Uh; lia)
              ltac:(intros x Hx; rewrite Bfr in Hx; destruct Hx)
              (ex_intro _ dids Hids) (ex_intro _ mids Hmids) Ha)
    as ((P1 & P2 & P3 & P4 & P5 & P6 & P7 & P8) & Hcell & Hfl2).
  destruct (rest_fields _ _ Ra) as (Rv & Rdirs & Rds & Rmf & Rms & Rmfr & Rdi & Rfr).
  assert (Hfa : exists X, fat sa = fat s ++ X /\
                 ((X = [END_OF_CHAIN] /\ difat sa = difat s /\ nw = nsect s) \/
                  (X = [FAT_SECTOR; END_OF_CHAIN] /\ difat sa = difat s ++ [nsect s] /\ nw = nsect s + 1)) /\
                 nsect sa = nsect s + lenN X).
  { destruct Hshape as [(A & B & C & D)|(A & B & C & D)].
    - exists [END_OF_CHAIN]. split; [exact A|]. split; [left; auto|]. rewrite D. reflexivity.
    - exists [FAT_SECTOR; END_OF_CHAIN]. split; [exact A|]. split; [right; auto|]. rewrite D. reflexivity. }
  destruct Hfa as (X & EfX & HX & HnX).
  assert (HlX : lenN X <= 2) by (destruct HX as [(-> & _)|(-> & _)]; cbn [lenN]; lia).
  assert (Hnwge : nsect s <= nw) by (destruct HX as [(_ & _ & ->)|(_ & _ & ->)]; lia).
  pose proof Hinva as [[Cia Cfulla Ccoha Cnda Clta] Clena Cposa Ctighta].
  assert (Hnwreg : nw <= MAX_REGULAR_SECTOR) by (destruct HX as [(_ & _ & ->)|(_ & _ & ->)]; lia).
  destruct (G_set_fat sa lst nw s2 tt HGa Hs) as (HG2 & F2 & N2 & D2 & R2 & Hh2 & O2 & _).
  assert (Hlast_a : lst < lenN (fat sa)) by (rewrite EfX, lenN_app; lia).
  assert (F2' : fat s2 = updN (fat sa) lst nw).
  { rewrite F2. unfold ReuseProofs.fat_set. destruct (N.eqb_spec lst (lenN (fat sa))); [lia|reflexivity]. }
  destruct (rest_fields _ _ R2) as (Rv2 & Rdirs2 & Rds2 & Rmf2 & Rms2 & Rmfr2 & Rdi2 & Rfr2).
  assert (Hext : DirCoherence.chain_extended s s2 dids nw).
  { apply (DirCoherence.extend_chain_dir_extended s dids s2 nw); try assumption.
    - intros x Hx. split; [apply Hdids_nf; exact Hx|]. rewrite Bi, Bfr. split; intros [].
    - intros x Hx. rewrite Bfr in Hx. destruct Hx.
    - intros f Hf. rewrite Clen. apply Clt. exact Hf.
    - intros j Hj. destruct (CoherenceProofs.coherent_backed s Ccoh j Hj) as (f & Hf & _).
      eapply nthN_Some_lt. exact Hf. }
  destruct Hext as (_ & _ & Eds2 & Hids2 & Hgd2 & _ & _).
  assert (Hlast_nm : ~ In lst mids) by (apply (Bdj dids mids Hids Hmids); exact HlastIn).
  assert (Hmids2 : chain_ids_of (fat s2) (minifat_start s2) = Ok mids).
  { rewrite F2', Rms2, Rms. pose proof (P8 _ _ Hmids) as Hm1.
    apply WalkProofs.chain_ids_path in Hm1.
    apply WalkProofs.chain_ids_of_path; [|eapply ReuseProofs.path_nodup; exact Hm1].
    apply ReuseProofs.path_updN; assumption. }
  assert (Hhd2 : slen s2 <= lenN (hd [] (img s2))).
  { unfold slen. rewrite Rv2, Rv, Hh2. unfold byte in *. rewrite P7, Uh. unfold slen. lia. }
  destruct (G_update_num_dir s2 s3 tt HG2 Hhd2 H3) as (HG3 & F3 & N3 & D3 & R3 & O3 & Hh3).
  destruct (rest_fields _ _ R3) as (Rv3 & Rdirs3 & Rds3 & Rmf3 & Rms3 & Rmfr3 & Rdi3 & Rfr3).
  exists dids, mids, X, lst, nw.
  split; [exact Hids|]. split; [exact Hmids|]. split; [exact HlastIn|]. split.
  { destruct HX as [(A & B & C)|(A & B & C)]; [left|right]; (split; [exact A|]; split; [congruence|exact C]). }
  split; [congruence|]. split; [congruence|]. split; [congruence|].
  split; [rewrite F3, Rds3; exact Hids2|rewrite F3, Rms3; exact Hmids2].
Qed.

Lemma dir_extension_owned : forall s s3,
  Base s -> DirCoherence.DirCoherent s ->
  lenN (difat s) < NUM_DIFAT_HDR -> nsect s + 3 <= MAX_REGULAR_SECTOR -> Owned s ->
  (do _ <- extend_chain (dir_start s) IDir; update_num_dir_sectors) s = (s3, Ok tt) ->
  Owned s3.
Proof.
  intros s s3 B Hdir Hreg Hsize HO H.
  destruct (dir_extension_shape s s3 B Hdir Hreg Hsize H)
    as (dids & mids & X & lst & nw & Hids & Hmids & Hlst & HX & Hfat & Hds & Hms & Hids3 & Hmids3).
  destruct (b_fat s B) as [_ Clen _ _].
  intros i v Hv Hn. rewrite Hfat in Hv.
  destruct (N.eq_dec i lst) as [->|Hil].
  { right. left. exists (dids ++ [nw]). split; [exact Hids3|]. apply in_or_app. left. exact Hlst. }
  rewrite nthN_updN_other in Hv by congruence.
  destruct (N.lt_ge_cases i (lenN (fat s))) as [Hi|Hi].
  - rewrite nthN_app_l in Hv by exact Hi.
    destruct (HO i v Hv Hn) as [Hd|[(ids & Hi1 & Hin)|(ids & Hi1 & Hin)]].
    + left. destruct HX as [(_ & -> & _)|(_ & -> & _)]; [exact Hd|apply in_or_app; left; exact Hd].
    + assert (ids = dids) by congruence. subst ids.
      right. left. exists (dids ++ [nw]). split; [exact Hids3|]. apply in_or_app. left. exact Hin.
    + assert (ids = mids) by congruence. subst ids.
      right. right. exists mids. split; [exact Hmids3|exact Hin].
  - rewrite ReuseProofs.nthN_app_r in Hv by exact Hi.
    destruct HX as [(-> & Hd & ->)|(-> & Hd & ->)].
    + assert (i = nsect s).
      { apply nthN_Some_lt in Hv. cbn [lenN] in Hv. lia. }
      subst i. right. left. exists (dids ++ [nsect s]). split; [exact Hids3|].
      apply in_or_app. right. left. reflexivity.
    + assert (Hi2 : i = nsect s \/ i = nsect s + 1).
      { apply nthN_Some_lt in Hv. cbn [lenN] in Hv. lia. }
      destruct Hi2 as [-> | ->].
      * left. rewrite Hd. apply in_or_app. right. left. reflexivity.
      * right. left. exists (dids ++ [nsect s + 1]). split; [exact Hids3|].
        apply in_or_app. right. left. reflexivity.
Qed.

Lemma Owned_w_dirs : forall s d, Owned s -> Owned (w_dirs s d).
Proof. intros s d H. exact (Owned_frame s (w_dirs s d) eq_refl eq_refl eq_refl eq_refl H). Qed.

Lemma alloc_dir_owned : forall s s1 id,
  Base s -> DirCoherence.DirCoherent s ->
  lenN (difat s) < NUM_DIFAT_HDR -> nsect s + 3 <= MAX_REGULAR_SECTOR -> Owned s ->
  allocate_dir_entry s = (s1, Ok id) -> Owned s1.
Proof.
  intros s s1 id B Hdir Hreg Hsize HO H. unfold allocate_dir_entry in H.
  binv H s0 sx H1 H2. apply get_inv in H1. destruct H1 as [-> ->].
  destruct (first_unalloc (dirs s) 0) as [i|].
  { apply ret_inv in H2. destruct H2 as [-> _]. exact HO. }
  binv H2 u1 sm H1 H2.
  assert (HM : Owned sm).
  { destruct (lenN (dirs s) mod dir_per_sector (ver s) =? 0).
    - destruct u1. eapply dir_extension_owned; eassumption.
    - apply ret_inv in H1. destruct H1 as [-> _]. exact HO. }
  binv H2 s0 sy H2 H3. apply get_inv in H2. destruct H2 as [-> ->].
  binv H3 u2 sz H3 H4. unfold put in H3. injection H3 as <-.
  apply ret_inv in H4. destruct H4 as [-> _]. apply Owned_w_dirs. exact HM.
Qed.

Lemma insert_owned : forall s s' pid nm ty now id,
  PInv s -> Regime s -> Owned s ->
  insert_dir_entry pid nm ty now s = (s', Ok id) -> Owned s'.
Proof.
  intros s s' pid nm ty now id [B Hdir Hents Hroot Htree] (Hreg & Hsize & Hdlen) HO H.
  rewrite insert_dir_entry_split in H. binv H id0 s1 Ha Hr.
  destruct (alloc_dir_base s s1 id0 B Hdir Hreg Hsize Ha) as (B1 & Ev1 & Em1 & (dids' & HD1) & Gr1 & Gr2).
  pose proof (alloc_dir_owned s s1 id0 B Hdir Hreg Hsize HO Ha) as HO1.
  destruct (dstep_insert_rest dids' pid nm ty now id0 s1 s' id HD1 Hr) as [HD' F].
  exact (Owned_dframe _ _ _ F HO1).
Qed.

(* ================================================================== *)
(* 14. the side conditions along a history: blank slots                *)
(* ================================================================== *)

Notation node_count := QueryRefine.node_count.
Notation kids_count := QueryRefine.kids_count.

Lemma kids_count_replace : forall a c' ks k c, Tree.find_kid a ks = Some (k, c) ->
  (kids_count (Tree.replace_kid a c' ks) + node_count c = kids_count ks + node_count c')%nat.
Proof.
  intros a c' ks. induction ks as [|[k0 x] t IH]; intros k c H; [discriminate H|].
  cbn [Tree.find_kid Tree.replace_kid] in *. destruct (cmp_names a k0).
  - injection H as <- <-. rewrite !QueryRefine.kids_count_cons. lia.
  - rewrite !QueryRefine.kids_count_cons. specialize (IH k c H). lia.
  - rewrite !QueryRefine.kids_count_cons. specialize (IH k c H). lia.
Qed.

Lemma kids_count_insert : forall nm n ks,
  kids_count (Tree.insert_kid nm n ks) = (node_count n + kids_count ks)%nat.
Proof.
  intros nm n ks. induction ks as [|[k0 x] t IH]; [reflexivity|].
  cbn [Tree.insert_kid]. destruct (cmp_names nm k0).
  - rewrite !QueryRefine.kids_count_cons, IH. lia.
  - rewrite !QueryRefine.kids_count_cons. reflexivity.
  - rewrite !QueryRefine.kids_count_cons, IH. lia.
Qed.

Lemma kids_count_remove : forall nm ks k c, Tree.find_kid nm ks = Some (k, c) ->
  (kids_count (Tree.remove_kid nm ks) + node_count c = kids_count ks)%nat.
Proof.
  intros nm ks. induction ks as [|[k0 x] t IH]; intros k c H; [discriminate H|].
  cbn [Tree.find_kid Tree.remove_kid] in *. destruct (cmp_names nm k0).
  - injection H as <- <-. rewrite QueryRefine.kids_count_cons. lia.
  - rewrite !QueryRefine.kids_count_cons. specialize (IH k c H). lia.
  - rewrite !QueryRefine.kids_count_cons. specialize (IH k c H). lia.
Qed.

Lemma node_count_update : forall names t f tgt, Tree.get t names = Some tgt ->
  (node_count (Tree.update t names f) + node_count tgt = node_count t + node_count (f tgt))%nat.
Proof.
  induction names as [|a rest IH]; intros t f tgt H.
  - cbn [Tree.get Tree.update] in *. injection H as <-. lia.
  - cbn [Tree.get Tree.update] in *. destruct t as [st bs|m ks]; [discriminate H|].
    destruct (Tree.find_kid a ks) as [[k c]|] eqn:F; [|discriminate H].
    rewrite !QueryRefine.node_count_dir.
    pose proof (kids_count_replace a (Tree.update c rest f) ks k c F) as H1.
    pose proof (IH c f tgt H) as H2. lia.
Qed.

Lemma dirent_eq_dec : forall a b : dirent, {a = b} + {a <> b}.
Proof.
  decide equality; try apply N.eq_dec; try (apply list_eq_dec; apply N.eq_dec); decide equality.
Qed.

(* the slots that are not blank *)
Definition nonblank (ds : list dirent) (i : N) : Prop :=
  exists e, nthN ds i = Some e /\ e <> dirent_unallocated.

Lemma Tidy_nonblank : forall ds t U,
  MutRefine.NRU ds ctrue true ROOT_STREAM_ID ROOT_DIR_NAME t U -> NoDup U ->
  (forall i, nonblank ds i -> In i U) -> Tidy ds.
Proof.
  intros ds t U HN ND H. exists t, U. split; [exact HN|]. split; [exact ND|].
  intros i e He Hni. destruct (dirent_eq_dec e dirent_unallocated) as [E|E]; [exact E|].
  exfalso. apply Hni. apply H. exists e. auto.
Qed.

Lemma Tidy_inv : forall ds, Tidy ds ->
  exists t U, MutRefine.NRU ds ctrue true ROOT_STREAM_ID ROOT_DIR_NAME t U /\ NoDup U /\
    (forall i, nonblank ds i -> In i U) /\ length U = node_count t.
Proof.
  intros ds (t & U & HN & ND & H). exists t, U. split; [exact HN|]. split; [exact ND|]. split.
  - intros i (e & He & Hne). destruct (in_dec N.eq_dec i U) as [Hin|Hni]; [exact Hin|].
    exfalso. apply Hne. exact (H i e He Hni).
  - destruct HN as [_ HA]. exact (QueryRefine.AllIds_length _ _ _ _ HA).
Qed.

Lemma tidy_transfer : forall ds' t' U' L,
  MutRefine.NRU ds' ctrue true ROOT_STREAM_ID ROOT_DIR_NAME t' U' -> NoDup U' ->
  (forall i, nonblank ds' i -> In i L) -> (length L <= length U')%nat -> Tidy ds'.
Proof.
  intros ds' t' U' L HN ND HL Hlen.
  assert (Hincl : incl U' L).
  { intros i Hi. apply HL. destruct (MutRefine.NRU_typed _ _ _ _ _ _ _ HN i Hi) as (e & He & Ht).
    exists e. split; [exact He|]. intros ->. apply Ht. reflexivity. }
  pose proof (NoDup_length_incl ND Hlen Hincl) as Hrev.
  apply (Tidy_nonblank ds' t' U' HN ND). intros i Hi. apply Hrev. apply HL. exact Hi.
Qed.

Lemma tidy_of_tree : forall ds' t' L,
  QueryRefine.TreeRep ds' ctrue t' -> QueryRefine.Unshared ds' t' ->
  (forall i, nonblank ds' i -> In i L) -> (length L <= node_count t')%nat -> Tidy ds'.
Proof.
  intros ds' t' L HT HU HL Hlen.
  destruct (MutRefine.tree_NRU _ _ _ HT HU) as (U' & HN' & ND').
  apply (tidy_transfer ds' t' U' L HN' ND' HL).
  destruct HN' as [_ HA]. rewrite (QueryRefine.AllIds_length _ _ _ _ HA). exact Hlen.
Qed.

(* ---- the number of nodes of the specification tree after a step ---- *)

Lemma lastN_nonempty : forall A (l : list A), l <> [] -> exists x, lastN l = Some x.
Proof.
  intros A l H. destruct (lastN l) as [x|] eqn:E; [eauto|]. apply TreeProofs.lastN_none in E. contradiction.
Qed.

Lemma spec_count_create_storage : forall t now p t' v,
  Tree.spec_step t now (Tree.SCreateStorage p) = (t', Ok v) -> node_count t' = S (node_count t).
Proof.
  intros t now p t' v H. cbn [Tree.spec_step] in H. unfold Tree.with_names in H.
  destruct (name_chain_from_path p) as [names| | |]; try discriminate H.
  unfold Tree.create_storage_at in H.
  destruct (Tree.get t names); [discriminate H|].
  destruct (lastN names) as [nm|]; [|discriminate H].
  destruct (validate_name nm); try discriminate H.
  destruct (Tree.get t (Tree.parent_of names)) as [[st bs|m ks]|] eqn:G; try discriminate H.
  injection H as <- _.
  pose proof (node_count_update _ _ (fun p0 => match p0 with
     | Tree.Dir m0 kids => Tree.Dir m0 (Tree.insert_kid nm (Tree.new_dir now) kids) | x => x end) _ G) as HC.
  cbv beta iota in HC. rewrite !QueryRefine.node_count_dir, kids_count_insert in HC.
  change (node_count (Tree.new_dir now)) with 1%nat in HC. lia.
Qed.

Lemma spec_count_create_stream : forall t now p t' v,
  Tree.spec_step t now (Tree.SCreateStream p false) = (t', Ok v) -> node_count t' = S (node_count t).
Proof.
  intros t now p t' v H. cbn [Tree.spec_step] in H. unfold Tree.with_names in H.
  destruct (name_chain_from_path p) as [names| | |]; try discriminate H.
  destruct (Tree.get t names) as [[st bs|m ks]|]; try discriminate H.
  destruct (lastN names) as [nm|]; [|discriminate H].
  destruct (validate_name nm); try discriminate H.
  destruct (Tree.get t (Tree.parent_of names)) as [[st bs|m ks]|] eqn:G; try discriminate H.
  injection H as <- _.
  pose proof (node_count_update _ _ (fun p0 => match p0 with
     | Tree.Dir m0 kids => Tree.Dir m0 (Tree.insert_kid nm (Tree.Leaf 0 []) kids) | x => x end) _ G) as HC.
  cbv beta iota in HC. rewrite !QueryRefine.node_count_dir, kids_count_insert in HC.
  change (node_count (Tree.Leaf 0 [])) with 1%nat in HC. lia.
Qed.

Lemma remove_at_count : forall t names n, Tree.get t names = Some n -> names <> [] ->
  node_count n = 1%nat -> S (node_count (Tree.remove_at t names)) = node_count t.
Proof.
  intros t names n G Hne Hn. destruct (lastN_nonempty _ names Hne) as [nm Hl].
  destruct (TreeProofs.get_last_some t names nm n G Hl) as (m & ks & k & Gp & Fk).
  unfold Tree.remove_at. rewrite Hl.
  pose proof (node_count_update _ _ (fun p => match p with
     | Tree.Dir m0 kids => Tree.Dir m0 (Tree.remove_kid nm kids) | x => x end) _ Gp) as HC.
  cbv beta iota in HC. rewrite !QueryRefine.node_count_dir in HC.
  pose proof (kids_count_remove nm ks k n Fk). lia.
Qed.

Lemma spec_count_remove_storage : forall t now p t' v,
  Tree.spec_step t now (Tree.SRemoveStorage p) = (t', Ok v) -> S (node_count t') = node_count t.
Proof.
  intros t now p t' v H. cbn [Tree.spec_step] in H. unfold Tree.with_names in H.
  destruct (name_chain_from_path p) as [names| | |]; try discriminate H.
  destruct (Tree.get t names) as [[st bs|m ks]|] eqn:G; try discriminate H.
  destruct names as [|a rest]; [discriminate H|].
  destruct ks; [|discriminate H]. injection H as <- _.
  apply (remove_at_count t (a :: rest) _ G); [discriminate|reflexivity].
Qed.

Lemma spec_count_remove_stream : forall t now p t' v m0 ks0, t = Tree.Dir m0 ks0 ->
  Tree.spec_step t now (Tree.SRemoveStream p) = (t', Ok v) -> S (node_count t') = node_count t.
Proof.
  intros t now p t' v m0 ks0 Et H. cbn [Tree.spec_step] in H. unfold Tree.with_names in H.
  destruct (name_chain_from_path p) as [names| | |]; try discriminate H.
  destruct (Tree.get t names) as [[st bs|m ks]|] eqn:G; try discriminate H.
  injection H as <- _.
  apply (remove_at_count t names _ G); [|reflexivity].
  intros ->. cbn [Tree.get] in G. rewrite Et in G. discriminate G.
Qed.

Lemma update_count_same : forall t names g n, Tree.get t names = Some n ->
  node_count (g n) = node_count n -> node_count (Tree.update t names g) = node_count t.
Proof. intros t names g n G Hg. pose proof (node_count_update names t g n G). lia. Qed.

Lemma spec_count_setters : forall t now o t' v,
  match o with
  | Tree.SSetClsid _ _ | Tree.SSetState _ _ | Tree.SSetCreated _ _ _ _ | Tree.SSetModified _ _ _ _ => True
  | _ => False end ->
  Tree.spec_step t now o = (t', Ok v) -> node_count t' = node_count t.
Proof.
  intros t now o t' v Ho H.
  destruct o; try contradiction; cbn [Tree.spec_step] in H; unfold Tree.with_names in H;
    (destruct (name_chain_from_path p) as [names| | |]; try discriminate H);
    (destruct (Tree.get t names) as [n|] eqn:G; [|discriminate H]).
  - destruct n as [st bs|m ks]; [discriminate H|]. injection H as <- _.
    eapply update_count_same; [exact G|reflexivity].
  - injection H as <- _. eapply update_count_same; [exact G|]. destruct n; reflexivity.
  - injection H as <- _. eapply update_count_same; [exact G|]. destruct n; reflexivity.
  - injection H as <- _. eapply update_count_same; [exact G|]. destruct n; reflexivity.
Qed.

(* ---- what an insertion / a removal leaves alone (after MutRefine.create_names_refines /
        remove_names_refines) ---- *)

Lemma insert_exo : forall s s' t U names nm pid pe ty now id,
  MutRefine.NRU (dirs s) ctrue true ROOT_STREAM_ID ROOT_DIR_NAME t U -> NoDup U ->
  lenN (dirs s) < NO_STREAM -> (ty = TStorage \/ ty = TStream) ->
  lookup_chain (dirs s) names ROOT_STREAM_ID = Ok None ->
  lastN names = Some nm ->
  lookup_chain (dirs s) (pop_last names) ROOT_STREAM_ID = Ok (Some pid) ->
  nthN (dirs s) pid = Some pe -> d_type pe <> TStream ->
  insert_dir_entry pid nm ty now s = (s', Ok id) ->
  ~ In id U /\
  (forall i, i <> id -> ~ In i U -> i < lenN (dirs s) -> nthN (dirs s') i = nthN (dirs s) i).
Proof.
  intros s s' t U names nm pid pe ty now id HN ND Hlen Hty Hlk Hlast Hlkp Hpe Htype Hins.
  destruct (MutRefine.NRU_tree _ _ _ _ HN ND) as [HT HU].
  pose proof (MutRefine.lookup_get _ _ _ _ _ HT Hlk) as Hg.
  destruct (Tree.get t names) as [n0|] eqn:G0; [contradiction|]. clear Hg.
  pose proof (MutRefine.lookup_get _ _ _ _ _ HT Hlkp) as Hg.
  destruct (Tree.get t (pop_last names)) as [n|] eqn:G; [|contradiction].
  destruct Hg as (nm' & HNp).
  assert (exists m ks, n = Tree.Dir m ks) as (m & ks & ->).
  { destruct n as [st bs|m ks]; [|eauto].
    apply QueryRefine.NodeRep_leaf in HNp. destruct HNp as (_ & e0 & He0 & _ & _ & Ht & _).
    assert (e0 = pe) by congruence. subst e0. contradiction. }
  destruct (MutRefine.path_focus _ _ (pop_last names) t true ROOT_STREAM_ID ROOT_DIR_NAME U _ HN ND G)
    as (tid & tnm & Ut & Hlk' & HTg & Hincl & NDUt & _ & Hcont).
  assert (tid = pid) by congruence. subst tid.
  assert (Tree.find_kid nm ks = None) as Fk by (eapply TreeProofs.get_last_none; eauto).
  assert (~ In id U /\ id < NO_STREAM) as [Hfresh Hidlt].
  { destruct (insert_proj _ _ _ _ _ _ _ Hins) as (ds0 & p1 & prev & ord & Hal & _).
    destruct (alloc_fresh _ _ _ Hal) as [(e & He & Te)|Hid].
    - split; [|apply nthN_Some_lt in He; lia].
      intros Hc. destruct (MutRefine.NRU_typed _ _ _ _ _ _ _ HN id Hc) as (e' & He' & Te'). congruence.
    - split; [|lia]. intros Hc. destruct (MutRefine.NRU_typed _ _ _ _ _ _ _ HN id Hc) as (e' & He' & _).
      apply nthN_Some_lt in He'. lia. }
  split; [exact Hfresh|].
  set (newnode := match ty with TStorage => Tree.new_dir now | _ => Tree.Leaf 0 [] end).
  destruct (MutRefine.insert_target ctrue ctrue s s' _ pid tnm m ks Ut nm ty now id newnode HTg NDUt Hins Fk)
    as (Ut' & HTg' & NDUt' & Hin' & Hkeep & Hexo & Hnew).
  { intros Hc. apply Hfresh. apply Hincl. exact Hc. }
  { lia. }
  { intros i b _ _. exact I. }
  { intros Hnew. unfold newnode. destruct Hty as [-> | ->].
    - cbn [objtype_eqb] in Hnew. apply MutRefine.new_storage_NRU; assumption.
    - cbn [objtype_eqb] in Hnew. apply MutRefine.new_stream_NRU; [assumption|assumption|exact I]. }
  intros i Hi Hni Hlt. apply Hexo; [exact Hi| |exact Hlt].
  intro Hc. apply Hni. apply Hincl. exact Hc.
Qed.

Lemma insert_len : forall pid nm ty now s s' id,
  insert_dir_entry pid nm ty now s = (s', Ok id) ->
  (lenN (dirs s') = lenN (dirs s) /\ id < lenN (dirs s)) \/
  (lenN (dirs s') = lenN (dirs s) + 1 /\ id = lenN (dirs s)).
Proof.
  intros pid nm ty now s s' id Hi.
  destruct (insert_proj _ _ _ _ _ _ _ Hi) as (ds0 & p & prev & ord & Hal & Hid0 & Hrest).
  cbv zeta in Hrest. destruct Hrest as (Hp1 & Hd & Hds).
  assert (Hlen : lenN (dirs s') = lenN ds0).
  { rewrite Hds. unfold tbl_link. destruct ord; rewrite ?lenN_modN, ?lenN_updN; try reflexivity.
    destruct (nthN _ prev); rewrite ?lenN_updN; reflexivity. }
  rewrite Hlen. unfold alloc_tbl in Hal. destruct (first_unalloc (dirs s) 0) as [i|] eqn:F.
  - injection Hal as -> ->. left. split; [reflexivity|].
    apply first_unalloc_spec in F. rewrite N.sub_0_r in F. destruct F as (_ & e & He & _).
    eapply nthN_Some_lt. exact He.
  - injection Hal as -> ->. right. split; [rewrite lenN_app; reflexivity|reflexivity].
Qed.

Lemma insert_nonblank : forall s s' U id pid nm ty now,
  (forall i, nonblank (dirs s) i -> In i U) ->
  (forall i, i <> id -> ~ In i U -> i < lenN (dirs s) -> nthN (dirs s') i = nthN (dirs s) i) ->
  insert_dir_entry pid nm ty now s = (s', Ok id) ->
  forall i, nonblank (dirs s') i -> In i (id :: U).
Proof.
  intros s s' U id pid nm ty now HU Hexo Hins i (e & He & Hne).
  destruct (N.eq_dec i id) as [->|Hi]; [left; reflexivity|]. right.
  destruct (in_dec N.eq_dec i U) as [Hin|Hni]; [exact Hin|]. exfalso.
  pose proof (nthN_Some_lt _ _ _ _ He) as Hlt.
  destruct (insert_len _ _ _ _ _ _ _ Hins) as [[El Hid]|[El Hid]].
  - rewrite El in Hlt. rewrite (Hexo i Hi Hni Hlt) in He. apply Hni. apply HU. exists e. auto.
  - assert (Hlt' : i < lenN (dirs s)) by lia.
    rewrite (Hexo i Hi Hni Hlt') in He. apply Hni. apply HU. exists e. auto.
Qed.

Theorem create_storage_tidy : forall p now s s',
  Tidy (dirs s) -> lenN (dirs s) < MAX_REGULAR_STREAM_ID ->
  api_create_storage p now s = (s', Ok tt) -> Tidy (dirs s').
Proof.
  intros p now s s' HTd Hdl H.
  destruct (Tidy_inv _ HTd) as (t & U & HN & ND & HUin & HUlen).
  destruct (MutRefine.NRU_tree _ _ _ _ HN ND) as [HT HU].
  assert (Hlen : lenN (dirs s) < NO_STREAM) by (unfold MAX_REGULAR_STREAM_ID, NO_STREAM in *; lia).
  destruct (MutRefine.create_storage_refines ctrue ctrue p now s s' t HT HU Hlen (fun _ _ c => c) H)
    as (t' & Hspec & HT' & HU').
  pose proof (spec_count_create_storage _ _ _ _ _ Hspec) as Hcount.
  unfold api_create_storage, create_storage_names in H.
  destruct (MutRefine.names_lookup_inv _ _ _ _ _ _ H) as (names & r & En & Hlk & HK).
  destruct r as [id0|].
  { binv HK e0 s1 H1 H2. discriminate H2. }
  destruct (lastN names) as [nm|] eqn:Hlast; [|discriminate HK].
  binv HK u1 s1 H1 H2. apply lift_inv in H1. destruct H1 as [-> Hv].
  destruct (MutRefine.lookup_inv _ _ _ _ _ _ H2) as (pr & Hlkp & H3). clear H2.
  destruct pr as [pid|]; [|discriminate H3].
  binv H3 pe s1 H1 H2. apply dir_entry_inv in H1. destruct H1 as [-> Hpe].
  destruct (objtype_eqb (d_type pe) TStream) eqn:Ty; [discriminate H2|].
  binv H2 nid s1 H1 H2. apply ret_inv in H2. destruct H2 as [<- _].
  destruct (insert_exo s s' t U names nm pid pe TStorage now nid HN ND Hlen (or_introl eq_refl)
              Hlk Hlast Hlkp Hpe (objtype_eqb_false _ _ Ty) H1) as [Hfresh Hexo].
  apply (tidy_of_tree (dirs s') t' (nid :: U) HT' HU').
  - eapply insert_nonblank; eassumption.
  - cbn [length]. lia.
Qed.

Theorem create_new_stream_tidy : forall p maxbuf now s s' h,
  Tidy (dirs s) -> lenN (dirs s) < MAX_REGULAR_STREAM_ID ->
  api_create_stream p false maxbuf now s = (s', Ok h) -> Tidy (dirs s').
Proof.
  intros p maxbuf now s s' h HTd Hdl H.
  destruct (Tidy_inv _ HTd) as (t & U & HN & ND & HUin & HUlen).
  destruct (MutRefine.NRU_tree _ _ _ _ HN ND) as [HT HU].
  assert (Hlen : lenN (dirs s) < NO_STREAM) by (unfold MAX_REGULAR_STREAM_ID, NO_STREAM in *; lia).
  pose proof H as H0.
  unfold api_create_stream in H.
  destruct (MutRefine.names_lookup_inv _ _ _ _ _ _ H) as (names & r & En & Hlk & HK).
  destruct r as [id0|].
  { binv HK e0 s1 H1 H2. destruct (negb (objtype_eqb (d_type e0) TStream)); discriminate H2. }
  destruct (MutRefine.create_stream_refines ctrue ctrue p false maxbuf now s s' t h HT HU Hlen)
    as (t' & Hspec & HT' & HU' & _).
  { intros names' En'. assert (names' = names) by congruence. subst names'.
    pose proof (MutRefine.lookup_get _ _ _ _ _ HT Hlk) as Hg.
    destruct (Tree.get t names); [contradiction|reflexivity]. }
  { intros i bs _ c. exact c. }
  { exact I. }
  { exact H0. }
  pose proof (spec_count_create_stream _ _ _ _ _ Hspec) as Hcount.
  destruct (lastN names) as [nm|] eqn:Hlast; [|discriminate HK].
  binv HK u1 s1 H1 H2. apply lift_inv in H1. destruct H1 as [-> Hv].
  destruct (MutRefine.lookup_inv _ _ _ _ _ _ H2) as (pr & Hlkp & H3). clear H2.
  destruct pr as [pid|]; [|discriminate H3].
  binv H3 pe s1 H1 H2. apply dir_entry_inv in H1. destruct H1 as [-> Hpe].
  destruct (objtype_eqb (d_type pe) TStream) eqn:Ty; [discriminate H2|].
  binv H2 nid s1 H1 H2. apply handle_new_state in H2. subst s1.
  destruct (insert_exo s s' t U names nm pid pe TStream now nid HN ND Hlen (or_intror eq_refl)
              Hlk Hlast Hlkp Hpe (objtype_eqb_false _ _ Ty) H1) as [Hfresh Hexo].
  apply (tidy_of_tree (dirs s') t' (nid :: U) HT' HU').
  - eapply insert_nonblank; eassumption.
  - cbn [length]. lia.
Qed.

Lemma remove_exo : forall s s' t U names id nm pid n u0,
  MutRefine.NRU (dirs s) ctrue true ROOT_STREAM_ID ROOT_DIR_NAME t U -> NoDup U ->
  lookup_chain (dirs s) names ROOT_STREAM_ID = Ok (Some id) ->
  lastN names = Some nm ->
  lookup_chain (dirs s) (pop_last names) ROOT_STREAM_ID = Ok (Some pid) ->
  remove_dir_entry pid nm s = (s', Ok u0) ->
  Tree.get t names = Some n ->
  (exists st bs, n = Tree.Leaf st bs) \/ (exists m', n = Tree.Dir m' []) ->
  forall i, ~ In i U -> nthN (dirs s') i = nthN (dirs s) i.
Proof.
  intros s s' t U names id nm pid n u0 HN ND Hlk Hlast Hlkp Hrem G Hn.
  destruct (TreeProofs.get_last_some t names nm n G Hlast) as (m & ks & k & Gp & Fk).
  unfold Tree.parent_of in Gp.
  destruct (MutRefine.path_focus _ _ (pop_last names) t true ROOT_STREAM_ID ROOT_DIR_NAME U _ HN ND Gp)
    as (tid & tnm & Ut & Hlk' & HTg & Hincl & NDUt & _ & Hcont).
  assert (tid = pid) by congruence. subst tid.
  assert (lookup_chain (dirs s) [nm] pid = Ok (Some id)) as Hx.
  { rewrite (TreeProofs.lastN_some _ _ _ Hlast), MutRefine.lookup_chain_app, Hlkp in Hlk. exact Hlk. }
  destruct (MutRefine.remove_target ctrue ctrue s s' _ pid tnm m ks Ut nm k n u0 id HTg NDUt Hrem Fk Hn Hx)
    as (Ut' & HTg' & NDUt' & Hin' & Hkeep & Hexo).
  { intros i b _ _ _. exact I. }
  intros i Hi. apply Hexo. intro Hc. apply Hi. apply Hincl. exact Hc.
Qed.

Lemma removed_blank : forall s s' names id0 nm pid u,
  lookup_chain (dirs s) names ROOT_STREAM_ID = Ok (Some id0) ->
  lastN names = Some nm ->
  lookup_chain (dirs s) (pop_last names) ROOT_STREAM_ID = Ok (Some pid) ->
  remove_dir_entry pid nm s = (s', Ok u) ->
  nthN (dirs s') id0 = Some dirent_unallocated.
Proof.
  intros s s' names id0 nm pid u Hlk Hlast Hlkp H.
  destruct (remove_proj _ _ _ _ _ H)
    as (p & path & x & e & pp & pred & Hp & Hrf & Hlastp & He & Hc & Hx0 & Hfp & Hds).
  assert (Hfind : find_in_siblings (S (length (dirs s))) (dirs s) nm (d_child p) = Ok (Some id0)).
  { rewrite (TreeProofs.lastN_some _ _ _ Hlast), MutRefine.lookup_chain_app, Hlkp in Hlk.
    cbn [rbind lookup_chain] in Hlk. unfold dir_entry_of in Hlk. rewrite Hp in Hlk. cbn [rbind] in Hlk.
    destruct (find_in_siblings (S (length (dirs s))) (dirs s) nm (d_child p)) as [r| | |];
      try discriminate Hlk. cbn [rbind] in Hlk.
    destruct r as [cid|]; [|discriminate Hlk]. injection Hlk as ->. reflexivity. }
  pose proof (find_remove_same _ _ _ _ _ _ _ Hfind Hrf) as Hx.
  assert (x = id0) by congruence. subst x.
  rewrite Hds. apply remove_tbl_x. exact He.
Qed.

Lemma remove_tidy_core : forall s s' t U t' names id0 e0 nm pid n,
  MutRefine.NRU (dirs s) ctrue true ROOT_STREAM_ID ROOT_DIR_NAME t U -> NoDup U ->
  (forall i, nonblank (dirs s) i -> In i U) -> length U = node_count t ->
  QueryRefine.TreeRep (dirs s') ctrue t' -> QueryRefine.Unshared (dirs s') t' ->
  S (node_count t') = node_count t ->
  lookup_chain (dirs s) names ROOT_STREAM_ID = Ok (Some id0) ->
  nthN (dirs s) id0 = Some e0 -> d_type e0 <> TUnalloc ->
  lastN names = Some nm ->
  lookup_chain (dirs s) (pop_last names) ROOT_STREAM_ID = Ok (Some pid) ->
  remove_dir_entry pid nm s = (s', Ok tt) ->
  Tree.get t names = Some n ->
  (exists st bs, n = Tree.Leaf st bs) \/ (exists m', n = Tree.Dir m' []) ->
  Tidy (dirs s').
Proof.
  intros s s' t U t' names id0 e0 nm pid n HN ND HUin HUlen HT' HU' Hcount Hlk He0 Ht0 Hlast Hlkp H G Hn.
  pose proof (remove_exo s s' t U names id0 nm pid n tt HN ND Hlk Hlast Hlkp H G Hn) as Hexo.
  pose proof (removed_blank s s' names id0 nm pid tt Hlk Hlast Hlkp H) as Hbl.
  assert (Hin0 : In id0 U).
  { apply HUin. exists e0. split; [exact He0|]. intros ->. apply Ht0. reflexivity. }
  apply (tidy_of_tree (dirs s') t' (remove N.eq_dec id0 U) HT' HU').
  - intros i (e & He & Hne).
    assert (Hi0 : i <> id0) by (intros ->; rewrite Hbl in He; injection He as <-; apply Hne; reflexivity).
    apply in_in_remove; [exact Hi0|].
    destruct (in_dec N.eq_dec i U) as [Hin|Hni]; [exact Hin|]. exfalso.
    rewrite (Hexo i Hni) in He. apply Hni. apply HUin. exists e. auto.
  - pose proof (remove_length_lt N.eq_dec U id0 Hin0). lia.
Qed.

Theorem remove_storage_tidy : forall p s s',
  Tidy (dirs s) -> api_remove_storage p s = (s', Ok tt) -> Tidy (dirs s').
Proof.
  intros p s s' HTd H.
  destruct (Tidy_inv _ HTd) as (t & U & HN & ND & HUin & HUlen).
  destruct (MutRefine.NRU_tree _ _ _ _ HN ND) as [HT HU].
  destruct (MutRefine.remove_storage_refines ctrue ctrue p 0 s s' t HT HU (fun _ _ c => c) H)
    as (t' & Hspec & HT' & HU').
  pose proof (spec_count_remove_storage _ _ _ _ _ Hspec) as Hcount.
  unfold api_remove_storage, remove_storage_names in H.
  destruct (MutRefine.names_lookup_inv _ _ _ _ _ _ H) as (names & r & En & Hlk & HK).
  destruct r as [id0|]; [|discriminate HK].
  binv HK e s1 H1 H2. apply dir_entry_inv in H1. destruct H1 as [-> He].
  destruct (objtype_eqb (d_type e) TRoot) eqn:T1; [discriminate H2|].
  destruct (objtype_eqb (d_type e) TStream) eqn:T2; [discriminate H2|].
  destruct (objtype_eqb (d_type e) TStorage) eqn:T3; cbn [negb] in H2; [|discriminate H2].
  destruct (d_child e =? NO_STREAM) eqn:Ch; cbn [negb] in H2; [|discriminate H2].
  apply N.eqb_eq in Ch.
  destruct (lastN names) as [nm|] eqn:Hlast; [|discriminate H2].
  destruct (MutRefine.lookup_inv _ _ _ _ _ _ H2) as (pr & Hlkp & H3). clear H2.
  destruct pr as [pid|]; [|discriminate H3].
  pose proof (MutRefine.lookup_get _ _ _ _ _ HT Hlk) as Hg.
  destruct (Tree.get t names) as [n|] eqn:G; [|contradiction]. destruct Hg as (nm' & HNn).
  assert (exists m', n = Tree.Dir m' []) as (m' & ->).
  { destruct n as [st bs|m' ks'].
    - apply QueryRefine.NodeRep_leaf in HNn. destruct HNn as (_ & e0 & He0 & _ & _ & Ht & _).
      assert (e0 = e) by congruence. subst e0. rewrite Ht in T2. discriminate T2.
    - apply QueryRefine.NodeRep_dir in HNn.
      destruct HNn as (_ & e0 & He0 & _ & _ & _ & _ & t0 & HR & _ & _ & HKr).
      assert (e0 = e) by congruence. subst e0. rewrite Ch in HR. apply rep_nostream in HR. subst t0.
      inversion HKr. eauto. }
  apply (remove_tidy_core s s' t U t' names id0 e nm pid (Tree.Dir m' []) HN ND HUin HUlen HT' HU' Hcount Hlk He);
    try assumption.
  - apply objtype_eqb_true in T3. rewrite T3. discriminate.
  - right. eauto.
Qed.

Theorem remove_stream_tidy : forall p s s',
  Tidy (dirs s) -> EmptyStreams s -> api_remove_stream p s = (s', Ok tt) -> Tidy (dirs s').
Proof.
  intros p s s' HTd HE H.
  destruct (Tidy_inv _ HTd) as (t & U & HN & ND & HUin & HUlen).
  destruct (MutRefine.NRU_tree _ _ _ _ HN ND) as [HT HU].
  destruct (MutRefine.remove_stream_refines ctrue ctrue p 0 s s' t HT HU (fun _ _ _ c => c) H)
    as (t' & Hspec & HT' & HU').
  pose proof HN as [HNR _].
  destruct (QueryRefine.NodeRep_root_dir _ _ _ _ _ HNR) as (m0 & ks0 & Et).
  pose proof (spec_count_remove_stream _ _ _ _ _ _ _ Et Hspec) as Hcount.
  unfold api_remove_stream, remove_stream_names in H.
  destruct (MutRefine.names_lookup_inv _ _ _ _ _ _ H) as (names & r & En & Hlk & HK).
  destruct r as [id0|]; [|discriminate HK].
  binv HK e s1 H1 H2. apply dir_entry_inv in H1. destruct H1 as [-> He].
  destruct (objtype_eqb (d_type e) TStream) eqn:T1; cbn [negb] in H2; [|discriminate H2].
  destruct (d_child e =? NO_STREAM) eqn:Ch; cbn [negb] in H2; [|discriminate H2].
  apply objtype_eqb_true in T1.
  assert (Hes : d_start e = END_OF_CHAIN /\ d_len e = 0).
  { unfold EmptyStreams in HE. rewrite Forall_nthN in HE. exact (HE _ _ He T1). }
  destruct Hes as [Est Eln]. rewrite Eln, Est in H2.
  replace (0 <? MINI_STREAM_CUTOFF) with true in H2 by reflexivity.
  binv H2 u1 s1 H1 H2. rewrite free_mini_chain_eoc in H1. injection H1 as <- _.
  destruct (lastN names) as [nm|] eqn:Hlast; [|discriminate H2].
  destruct (MutRefine.lookup_inv _ _ _ _ _ _ H2) as (pr & Hlkp & H3). clear H2.
  destruct pr as [pid|]; [|discriminate H3].
  pose proof (MutRefine.lookup_get _ _ _ _ _ HT Hlk) as Hg.
  destruct (Tree.get t names) as [n|] eqn:G; [|contradiction]. destruct Hg as (nm' & HNn).
  assert (exists st bs, n = Tree.Leaf st bs) as (st & bs & En').
  { destruct n as [st bs|m' ks']; [eauto|].
    apply QueryRefine.NodeRep_dir in HNn. destruct HNn as (_ & e0 & He0 & _ & Ht & _).
    assert (e0 = e) by congruence. subst e0. rewrite Ht in T1.
    destruct (QueryRefine.is_nil names); discriminate T1. }
  apply (remove_tidy_core s s' t U t' names id0 e nm pid n HN ND HUin HUlen HT' HU' Hcount Hlk He);
    try assumption.
  - rewrite T1. discriminate.
  - left. eauto.
Qed.

Lemma setter_tidy_core : forall s s' t U t' names id f,
  MutRefine.NRU (dirs s) ctrue true ROOT_STREAM_ID ROOT_DIR_NAME t U -> NoDup U ->
  (forall i, nonblank (dirs s) i -> In i U) -> length U = node_count t ->
  QueryRefine.TreeRep (dirs s') ctrue t' -> QueryRefine.Unshared (dirs s') t' ->
  node_count t' = node_count t ->
  lookup_chain (dirs s) names ROOT_STREAM_ID = Ok (Some id) ->
  with_dir_entry_mut id f s = (s', Ok tt) -> Tidy (dirs s').
Proof.
  intros s s' t U t' names id f HN ND HUin HUlen HT' HU' Hcount Hlk Hw.
  destruct (MutRefine.NRU_tree _ _ _ _ HN ND) as [HT HU].
  destruct (MutRefine.wdem_inv _ _ _ _ _ Hw) as (e & He & Hds).
  assert (Hid : In id U).
  { apply HUin. exists e. split; [exact He|]. intros ->.
    apply (lookup_typed (dirs s) names id dirent_unallocated (ex_intro _ t (conj HT HU)) Hlk He). reflexivity. }
  apply (tidy_of_tree (dirs s') t' U HT' HU'); [|lia].
  intros i (e' & He' & Hne). destruct (N.eq_dec i id) as [->|Hi]; [exact Hid|].
  rewrite Hds, nthN_modN_other in He' by congruence. apply HUin. exists e'. auto.
Qed.

Theorem set_state_tidy : forall p bits s s',
  Tidy (dirs s) -> api_set_state p bits s = (s', Ok tt) -> Tidy (dirs s').
Proof.
  intros p bits s s' HTd H.
  destruct (Tidy_inv _ HTd) as (t & U & HN & ND & HUin & HUlen).
  destruct (MutRefine.NRU_tree _ _ _ _ HN ND) as [HT HU].
  destruct (MutRefine.set_state_refines ctrue ctrue (fun _ _ c => c) p bits 0 s s' t HT HU H)
    as (t' & Hspec & HT' & HU').
  pose proof (spec_count_setters _ _ (Tree.SSetState p bits) _ _ I Hspec) as Hcount.
  unfold api_set_state, set_entry_with_path in H.
  destruct (MutRefine.names_lookup_inv _ _ _ _ _ _ H) as (names & r & _ & Hlk & HK).
  destruct r as [id|]; [|discriminate HK].
  exact (setter_tidy_core s s' t U t' names id _ HN ND HUin HUlen HT' HU' Hcount Hlk HK).
Qed.

Theorem set_modified_tidy : forall p before secs nanos s s',
  Tidy (dirs s) -> api_set_modified p before secs nanos s = (s', Ok tt) -> Tidy (dirs s').
Proof.
  intros p before secs nanos s s' HTd H.
  destruct (Tidy_inv _ HTd) as (t & U & HN & ND & HUin & HUlen).
  destruct (MutRefine.NRU_tree _ _ _ _ HN ND) as [HT HU].
  destruct (MutRefine.set_modified_refines ctrue ctrue (fun _ _ c => c) p before secs nanos 0 s s' t HT HU H)
    as (t' & Hspec & HT' & HU').
  pose proof (spec_count_setters _ _ (Tree.SSetModified p before secs nanos) _ _ I Hspec) as Hcount.
  unfold api_set_modified, set_entry_with_path in H.
  destruct (MutRefine.names_lookup_inv _ _ _ _ _ _ H) as (names & r & _ & Hlk & HK).
  destruct r as [id|]; [|discriminate HK].
  exact (setter_tidy_core s s' t U t' names id _ HN ND HUin HUlen HT' HU' Hcount Hlk HK).
Qed.

Theorem set_created_tidy : forall p before secs nanos s s',
  Tidy (dirs s) -> api_set_created p before secs nanos s = (s', Ok tt) -> Tidy (dirs s').
Proof.
  intros p before secs nanos s s' HTd H.
  destruct (Tidy_inv _ HTd) as (t & U & HN & ND & HUin & HUlen).
  destruct (MutRefine.NRU_tree _ _ _ _ HN ND) as [HT HU].
  destruct (MutRefine.set_created_refines ctrue ctrue (fun _ _ c => c) p before secs nanos 0 s s' t HT HU H)
    as (t' & Hspec & HT' & HU').
  pose proof (spec_count_setters _ _ (Tree.SSetCreated p before secs nanos) _ _ I Hspec) as Hcount.
  unfold api_set_created, set_entry_with_path in H.
  destruct (MutRefine.names_lookup_inv _ _ _ _ _ _ H) as (names & r & _ & Hlk & HK).
  destruct r as [id|]; [|discriminate HK].
  exact (setter_tidy_core s s' t U t' names id _ HN ND HUin HUlen HT' HU' Hcount Hlk HK).
Qed.

Theorem set_clsid_tidy : forall p g s s',
  Tidy (dirs s) -> api_set_clsid p g s = (s', Ok tt) -> Tidy (dirs s').
Proof.
  intros p g s s' HTd H.
  destruct (Tidy_inv _ HTd) as (t & U & HN & ND & HUin & HUlen).
  destruct (MutRefine.NRU_tree _ _ _ _ HN ND) as [HT HU].
  destruct (MutRefine.set_clsid_refines ctrue ctrue (fun _ _ c => c) p g 0 s s' t HT HU H)
    as (t' & Hspec & HT' & HU').
  pose proof (spec_count_setters _ _ (Tree.SSetClsid p g) _ _ I Hspec) as Hcount.
  unfold api_set_clsid in H.
  destruct (MutRefine.names_lookup_inv _ _ _ _ _ _ H) as (names & r & _ & Hlk & HK).
  destruct r as [id|]; [|discriminate HK].
  binv HK e0 s1 H1 H2. apply dir_entry_inv in H1. destruct H1 as [-> He0].
  destruct (objtype_eqb (d_type e0) TStream) eqn:T; [discriminate H2|].
  exact (setter_tidy_core s s' t U t' names id _ HN ND HUin HUlen HT' HU' Hcount Hlk H2).
Qed.

(* ================================================================== *)
(* 15. the side conditions are kept by every covered operation         *)
(* ================================================================== *)

Lemma RootsEmpty_wdem : forall s s' id f,
  RootsEmpty s -> with_dir_entry_mut id f s = (s', Ok tt) -> (forall e, tsl e (f e)) -> RootsEmpty s'.
Proof.
  intros s s' id f H Hw Hf. destruct (MutRefine.wdem_inv _ _ _ _ _ Hw) as (e & _ & Ed).
  eapply RootsEmpty_modN; eassumption.
Qed.

Lemma remove_storage_roots : forall p s s',
  RootsEmpty s -> api_remove_storage p s = (s', Ok tt) -> RootsEmpty s'.
Proof.
  intros p s s' HE E.
  unfold api_remove_storage, remove_storage_names in E.
  destruct (MutRefine.names_lookup_inv _ _ _ _ _ _ E) as (names & r & _ & _ & HK).
  destruct r as [id0|]; [|discriminate HK].
  binv HK e s1 H1 H2. apply dir_entry_inv in H1. destruct H1 as [-> _].
  destruct (objtype_eqb (d_type e) TRoot); [discriminate H2|].
  destruct (objtype_eqb (d_type e) TStream); [discriminate H2|].
  destruct (negb (objtype_eqb (d_type e) TStorage)); [discriminate H2|].
  destruct (negb (d_child e =? NO_STREAM)); [discriminate H2|].
  destruct (lastN names) as [nm|]; [|discriminate H2].
  destruct (MutRefine.lookup_inv _ _ _ _ _ _ H2) as (pr & _ & H3).
  destruct pr as [pid|]; [|discriminate H3].
  eapply RootsEmpty_remove; eassumption.
Qed.

Lemma remove_stream_roots : forall p s s',
  RootsEmpty s -> EmptyStreams s -> api_remove_stream p s = (s', Ok tt) -> RootsEmpty s'.
Proof.
  intros p s s' HR HE H.
  unfold api_remove_stream, remove_stream_names in H.
  destruct (MutRefine.names_lookup_inv _ _ _ _ _ _ H) as (names & r & En & Hlk & HK).
  destruct r as [id0|]; [|discriminate HK].
  binv HK e s1 H1 H2. apply dir_entry_inv in H1. destruct H1 as [-> He].
  destruct (objtype_eqb (d_type e) TStream) eqn:T1; cbn [negb] in H2; [|discriminate H2].
  destruct (d_child e =? NO_STREAM) eqn:Ch; cbn [negb] in H2; [|discriminate H2].
  apply objtype_eqb_true in T1.
  assert (Hes : d_start e = END_OF_CHAIN /\ d_len e = 0).
  { unfold EmptyStreams in HE. rewrite Forall_nthN in HE. exact (HE _ _ He T1). }
  destruct Hes as [Est Eln]. rewrite Eln, Est in H2.
  replace (0 <? MINI_STREAM_CUTOFF) with true in H2 by reflexivity.
  binv H2 u1 s1 H1 H2. rewrite free_mini_chain_eoc in H1. injection H1 as <- _.
  destruct (lastN names) as [nm|] eqn:Hlast; [|discriminate H2].
  destruct (MutRefine.lookup_inv _ _ _ _ _ _ H2) as (pr & Hlkp & H3). clear H2.
  destruct pr as [pid|]; [|discriminate H3].
  eapply RootsEmpty_remove; eassumption.
Qed.

Lemma create_storage_roots_owned : forall p now s s',
  PInv s -> Regime s -> RootsEmpty s -> Owned s ->
  api_create_storage p now s = (s', Ok tt) -> RootsEmpty s' /\ Owned s'.
Proof.
  intros p now s s' HP HR HE HO H. unfold api_create_storage, create_storage_names in H.
  destruct (MutRefine.names_lookup_inv _ _ _ _ _ _ H) as (names & r & _ & _ & HK).
  destruct r as [id0|].
  { binv HK e0 s1 H1 H2. discriminate H2. }
  destruct (lastN names) as [nm|]; [|discriminate HK].
  binv HK u1 s1 H1 H2. apply lift_inv in H1. destruct H1 as [-> _].
  destruct (MutRefine.lookup_inv _ _ _ _ _ _ H2) as (pr & _ & H3).
  destruct pr as [pid|]; [|discriminate H3].
  binv H3 pe s1 H1 H4. apply dir_entry_inv in H1. destruct H1 as [-> _].
  destruct (objtype_eqb (d_type pe) TStream); [discriminate H4|].
  binv H4 nid s1 H1 H5. apply ret_inv in H5. destruct H5 as [<- _].
  split; [eapply RootsEmpty_insert; eassumption|eapply insert_owned; eassumption].
Qed.

Lemma create_new_stream_roots_owned : forall p maxbuf now s s' h,
  PInv s -> Regime s -> RootsEmpty s -> Owned s ->
  api_create_stream p false maxbuf now s = (s', Ok h) -> RootsEmpty s' /\ Owned s'.
Proof.
  intros p maxbuf now s s' h HP HR HE HO H. unfold api_create_stream in H.
  destruct (MutRefine.names_lookup_inv _ _ _ _ _ _ H) as (names & r & En & Hlk & HK).
  destruct r as [id0|].
  { binv HK e0 s1 H1 H2. destruct (negb (objtype_eqb (d_type e0) TStream)); discriminate H2. }
  destruct (lastN names) as [nm|] eqn:Hlast; [|discriminate HK].
  binv HK u1 s1 H1 H2. apply lift_inv in H1. destruct H1 as [-> Hv].
  destruct (MutRefine.lookup_inv _ _ _ _ _ _ H2) as (pr & Hlkp & H3). clear H2.
  destruct pr as [pid|]; [|discriminate H3].
  binv H3 pe s1 H1 H2. apply dir_entry_inv in H1. destruct H1 as [-> Hpe].
  destruct (objtype_eqb (d_type pe) TStream) eqn:Ty; [discriminate H2|].
  binv H2 nid s1 H1 H2. apply handle_new_state in H2. subst s1.
  split; [eapply RootsEmpty_insert; eassumption|eapply insert_owned; eassumption].
Qed.

Lemma set_entry_roots : forall p f s s',
  RootsEmpty s -> (forall e, tsl e (f e)) -> set_entry_with_path p f s = (s', Ok tt) -> RootsEmpty s'.
Proof.
  intros p f s s' HE Hf E. destruct (set_entry_inv _ _ _ _ E) as (id & Hw).
  eapply RootsEmpty_wdem; eassumption.
Qed.

Lemma set_clsid_roots : forall p g s s',
  RootsEmpty s -> api_set_clsid p g s = (s', Ok tt) -> RootsEmpty s'.
Proof.
  intros p g s s' HE E. unfold api_set_clsid in E.
  destruct (MutRefine.names_lookup_inv _ _ _ _ _ _ E) as (names & r & _ & _ & HK).
  destruct r as [id|]; [|discriminate HK].
  binv HK e0 s1 H1 H2. apply dir_entry_inv in H1. destruct H1 as [-> _].
  destruct (objtype_eqb (d_type e0) TStream); [discriminate H2|].
  eapply RootsEmpty_wdem; [exact HE|exact H2|]. intros e. repeat split.
Qed.

(* the side conditions of [pinv_image_wf], in a form kept by the covered steps *)
Definition XInv (s : cstate) : Prop := Owned s /\ RootsEmpty s /\ Tidy (dirs s).

Theorem step_xinv : forall f now o k,
  covered o -> now <= u64_max -> k < 6000 -> HInv k (cs f) -> XInv (cs f) ->
  is_ok (snd (step f now o)) = true \/ cs (fst (step f now o)) = cs f ->
  XInv (cs (fst (step f now o))).
Proof.
  intros f now o k Hc Hnow Hk (HP & HE & HS) (HO & HRt & HTd) Hfine.
  assert (Hsame : cs (fst (step f now o)) = cs f -> XInv (cs (fst (step f now o)))).
  { intros ->. split; [exact HO|]. split; assumption. }
  pose proof (Sized_Regime k _ ltac:(lia) HP HS) as HR.
  pose proof HR as (_ & _ & Hdl).
  destruct o; cbn [covered] in Hc; try contradiction; cbn [step] in *.
  - (* create_storage *)
    destruct Hfine as [Hok|Hs]; [|exact (Hsame Hs)].
    destruct (with_cs_ok _ _ _ _ Hok) as ([] & E).
    destruct (create_storage_roots_owned p now _ _ HP HR HRt HO E) as [HR' HO'].
    split; [exact HO'|]. split; [exact HR'|]. eapply create_storage_tidy; eassumption.
  - (* remove_storage *)
    destruct Hfine as [Hok|Hs]; [|exact (Hsame Hs)].
    destruct (with_cs_ok _ _ _ _ Hok) as ([] & E).
    destruct (remove_storage_frame p _ _ HP E) as (dids & F).
    split; [exact (Owned_dframe _ _ _ F HO)|].
    split; [eapply remove_storage_roots; eassumption|eapply remove_storage_tidy; eassumption].
  - (* create_new_stream *)
    destruct Hfine as [Hok|Hs]; [|exact (Hsame Hs)].
    destruct (with_new_handle_ok _ _ _ Hok) as (h0 & E).
    destruct (create_new_stream_roots_owned p _ now _ _ h0 HP HR HRt HO E) as [HR' HO'].
    split; [exact HO'|]. split; [exact HR'|]. eapply create_new_stream_tidy; eassumption.
  - (* remove_stream *)
    destruct Hfine as [Hok|Hs]; [|exact (Hsame Hs)].
    destruct (with_cs_ok _ _ _ _ Hok) as ([] & E).
    destruct (remove_stream_preserves p _ _ HP HE E) as (_ & _ & (dids & F)).
    split; [exact (Owned_dframe _ _ _ F HO)|].
    split; [eapply remove_stream_roots; eassumption|eapply remove_stream_tidy; eassumption].
  - (* set_clsid *)
    destruct Hfine as [Hok|Hs]; [|exact (Hsame Hs)].
    destruct (with_cs_ok _ _ _ _ Hok) as ([] & E).
    destruct (set_clsid_frame p g _ _ HP E) as [(dids & F) _].
    split; [exact (Owned_dframe _ _ _ F HO)|].
    split; [eapply set_clsid_roots; eassumption|eapply set_clsid_tidy; eassumption].
  - (* set_state *)
    destruct Hfine as [Hok|Hs]; [|exact (Hsame Hs)].
    destruct (with_cs_ok _ _ _ _ Hok) as ([] & E).
    destruct (set_entry_frame _ _ _ _ HP E) as (dids & F).
    split; [exact (Owned_dframe _ _ _ F HO)|].
    split; [|eapply set_state_tidy; eassumption].
    eapply set_entry_roots; [exact HRt| |exact E]. intros e. repeat split.
  - (* set_created *)
    destruct Hfine as [Hok|Hs]; [|exact (Hsame Hs)].
    destruct (with_cs_ok _ _ _ _ Hok) as ([] & E).
    destruct (set_entry_frame _ _ _ _ HP E) as (dids & F).
    split; [exact (Owned_dframe _ _ _ F HO)|].
    split; [|eapply set_created_tidy; eassumption].
    eapply set_entry_roots; [exact HRt| |exact E].
    intros e. cbv beta. destruct (objtype_eqb (d_type e) TStream); repeat split.
  - (* set_modified *)
    destruct Hfine as [Hok|Hs]; [|exact (Hsame Hs)].
    destruct (with_cs_ok _ _ _ _ Hok) as ([] & E).
    destruct (set_entry_frame _ _ _ _ HP E) as (dids & F).
    split; [exact (Owned_dframe _ _ _ F HO)|].
    split; [|eapply set_modified_tidy; eassumption].
    eapply set_entry_roots; [exact HRt| |exact E].
    intros e. cbv beta. destruct (objtype_eqb (d_type e) TStream); repeat split.
  - apply Hsame, with_cs_pure, pure_api_exists.
  - apply Hsame, with_cs_pure, pure_api_is_stream.
  - apply Hsame, with_cs_pure, pure_api_is_storage.
  - apply Hsame, with_cs_pure, pure_api_entry.
  - apply Hsame, with_cs_pure, pure_api_root_entry.
  - apply Hsame, with_cs_pure, pure_api_read_storage.
  - apply Hsame, with_cs_pure, pure_api_read_root.
  - apply Hsame, with_cs_pure, pure_api_walk.
  - apply Hsame, with_cs_pure, pure_api_walk_storage.
  - apply Hsame. reflexivity.
  - apply Hsame. reflexivity.
Qed.

(* ================================================================== *)
(* 16. histories                                                       *)
(* ================================================================== *)

Lemma create_state_xinv : forall v, XInv (create_state v).
Proof.
  intros v. split; [|split].
  - intros i w Hw Hn. cbn [create_state fat difat dir_start minifat_start] in *.
    destruct (N.eq_dec i 0) as [->|Hi0]; [left; left; reflexivity|].
    destruct (N.eq_dec i 1) as [->|Hi1].
    + right. left. exists [1]. split; [vm_compute; reflexivity|left; reflexivity].
    + apply nthN_Some_lt in Hw. cbn [lenN] in Hw. lia.
  - unfold RootsEmpty. cbn [create_state dirs]. constructor; [|constructor].
    intros _. split; reflexivity.
  - pose proof (p_tree _ (create_state_pinv v)) as (t & HT & HU).
    destruct (MutRefine.tree_NRU _ _ _ HT HU) as (U & HN & ND).
    exists t, U. split; [exact HN|]. split; [exact ND|].
    intros i e He Hni. exfalso. apply Hni.
    destruct (MutRefine.NRU_head _ _ _ _ _ _ _ HN) as [U0 ->].
    cbn [create_state dirs] in He. apply nthN_Some_lt in He. cbn [lenN] in He.
    assert (i = 0) by lia. subst i. left. reflexivity.
Qed.

Lemma run_xinv : forall l f k,
  Forall (fun p => covered (snd p) /\ fst p <= u64_max) l ->
  k + N.of_nat (length l) <= 6000 ->
  HInv k (cs f) -> XInv (cs f) -> run_fine f l ->
  HInv (k + N.of_nat (length l)) (cs (fst (run_ops f l))) /\ XInv (cs (fst (run_ops f l))).
Proof.
  induction l as [|[now o] t IH]; intros f k Hall Hlen HI HX Hrun.
  - cbn [length]. rewrite N.add_0_r. split; assumption.
  - inversion Hall as [|? ? [Hc Hnow] Hall']; subst. cbn [fst snd] in Hc, Hnow.
    cbn [run_fine] in Hrun. destruct Hrun as [Hfine Hrun].
    cbn [length] in Hlen |- *.
    pose proof (step_covered f now o k Hc Hnow ltac:(lia) HI Hfine) as HI1.
    pose proof (step_xinv f now o k Hc Hnow ltac:(lia) HI HX Hfine) as HX1.
    rewrite run_ops_cons.
    replace (k + N.of_nat (S (length t))) with (k + 1 + N.of_nat (length t)) by lia.
    apply IH; try assumption. lia.
Qed.

Theorem hinv_xinv_image_wf : forall k s, HInv k s -> XInv s -> wf_check (concat_img (img s)) = 0.
Proof.
  intros k s (HP & HE & _) (HO & HRt & HTd).
  apply pinv_image_wf; try assumption.
  apply RootsEmpty_RootEmpty; [exact HRt|apply HP].
Qed.

(* property C03 for namespace histories: after every history of the covered
   operations on a new file, the bytes of the image form a well-formed
   compound file according to the independent checker *)
Theorem wf_history : forall v mb nh (l : list (N * op)),
  Forall (fun p => covered (snd p) /\ fst p <= u64_max) l ->
  N.of_nat (length l) <= 6000 ->
  run_fine (init_fstate v mb nh) l ->
  wf_check (concat_img (img (cs (fst (run_ops (init_fstate v mb nh) l))))) = 0.
Proof.
  intros v mb nh l Hall Hlen Hrun.
  destruct (run_xinv l (init_fstate v mb nh) 0 Hall ltac:(lia) (create_state_hinv v) (create_state_xinv v) Hrun)
    as [HI HX].
  exact (hinv_xinv_image_wf _ _ HI HX).
Qed.

(* the same at every intermediate point of the history *)
Corollary wf_every_prefix : forall v mb nh (l1 l2 : list (N * op)),
  Forall (fun p => covered (snd p) /\ fst p <= u64_max) (l1 ++ l2) ->
  N.of_nat (length (l1 ++ l2)) <= 6000 ->
  run_fine (init_fstate v mb nh) (l1 ++ l2) ->
  wf_check (concat_img (img (cs (fst (run_ops (init_fstate v mb nh) l1))))) = 0.
Proof.
  intros v mb nh l1 l2 Hall Hlen Hrun. apply wf_history.
  - apply Forall_app in Hall. apply Hall.
  - rewrite app_length, Nat2N.inj_add in Hlen. lia.
  - clear -Hrun. revert Hrun. generalize (init_fstate v mb nh).
    induction l1 as [|[now o] t IH]; intros f H; [exact I|].
    cbn [app run_fine] in *. destruct H as [H1 H2]. split; [exact H1|apply IH; exact H2].
Qed.

(* non-vacuity: the history of PersistProofs.Example (storages, an empty stream,
   metadata, queries, removals, a refused call, growth of the directory chain) *)
Module WfExample.
  Theorem hist_wf : forall v,
    wf_check (concat_img (img (cs (fst (ReadonlyTotal.run_ops (init_fstate v 1024 4) Example.hist))))) = 0.
  Proof.
    intros v.
    exact (wf_history v 1024 4 Example.hist Example.hist_covered Example.hist_len (Example.hist_fine v)).
  Qed.

  (* the same fact checked by running the checker on the bytes *)
  Example hist_wf_by_computation : forall v,
    wf_check (concat_img (img (cs (fst (ReadonlyTotal.run_ops (init_fstate v 1024 4) Example.hist))))) = 0.
  Proof. intros [|]; vm_compute; reflexivity. Qed.

  (* and the checker is not trivially accepting on this image *)
  Example hist_image_broken_rejected :
    wf_check (spliceN (concat_img (img (cs (fst (ReadonlyTotal.run_ops (init_fstate V3 1024 4) Example.hist)))))
                      512 [0]) <> 0.
  Proof. vm_compute. discriminate. Qed.
End WfExample.

Check pinv_image_wf.
Check step_xinv.
Check wf_history.
Check wf_every_prefix.
Check WfExample.hist_wf.
Print Assumptions pinv_image_wf.
Print Assumptions wf_history.
Print Assumptions wf_every_prefix.
Print Assumptions WfExample.hist_wf.
Print Assumptions WfExample.hist_wf_by_computation.
