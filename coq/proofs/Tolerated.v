(* Tolerated.v -- property C16, second half, at the level of whole images: the
   TABLE-level deviations that CompoundFile::open tolerates and open_strict refuses.
   (The decoder-level ones are in StrictProofs.v.)  Stdlib only; no axioms. *)
From Coq Require Import List NArith Lia Bool ZifyN ZifyBool.
From Cfb.model Require Import Base Names Time DirEnt State Alloc Dir Mini Store Handle Open Cfb.
From Cfb.gen Require Import Consts.
From Cfb.spec Require Import Tree Abs WfImage.
From Cfb.proofs Require Import DirProofs ChainProofs.
From Cfb.proofs Require CodecProofs WalkProofs OpenTotal CoherenceProofs ReopenProofs WfPersist WfProofs.
From Cfb.proofs Require Import StrictProofs WfOpen WfContent.
Import ListNotations.
Open Scope N_scope.

Ltac Zify.zify_post_hook ::= Z.div_mod_to_equations.

(* ================================================================== *)
(* 1. open_model = header decode, then [open_after]                     *)
(* ================================================================== *)

Definition nsof (h : header) (L : N) : N :=
  (L + sector_len (h_ver h) - 1) / sector_len (h_ver h) - 1.

Definition open_after (strict : bool) (h : header) (inner_len : N) (im : list (list byte)) : res cstate :=
  let v := h_ver h in
  let sl := sector_len v in
  if (MAX_REGULAR_SECTOR + 1) * sl <? inner_len then Err EInvalidData else
  if inner_len <? sl then Err EInvalidData else
  let ns := (inner_len + sl - 1) / sl - 1 in
  rbind (difat_loop (S (S (N.to_nat ns))) strict im sl ns (h_first_difat h) [] [] (h_difat h)) (fun '(ids, difat0) =>
  if strict && negb (h_num_difat h =? lenN ids) then Err EInvalidData else
  let difat1 := if strict then difat0
                else strip_last_while (fun x => x =? 0) (N.max NUM_DIFAT_HDR (h_num_fat h)) difat0 in
  let difat2 := strip_last_while (fun x => x =? FREE_SECTOR) 0 difat1 in
  if strict && negb (h_num_fat h =? lenN difat2) then Err EInvalidData else
  rbind ((fix rd (l : list N) : res (list N) :=
            match l with
            | [] => Ok []
            | sid :: t =>
              if ns <=? sid then Err EInvalidData else
              rbind (read_sector_u32s im sl sid (sl / 4)) (fun cells =>
              rbind (rd t) (fun r => Ok (cells ++ r)))
            end) difat2) (fun fat0 =>
  let fat1 := if strict then fat0
              else strip_last_while (fun x => (x =? 0) || (x =? DIFAT_SECTOR) || (x =? FAT_SECTOR) || (x =? FREE_SECTOR)) ns fat0 in
  let fat2 := strip_last_while (fun x => x =? FREE_SECTOR) ns fat1 in
  let fat3 := fat2 ++ repeatN FREE_SECTOR (ns - lenN fat2) in
  rbind (alloc_validate strict ns ids difat2 fat3) (fun '(fat4, free) =>
  rbind (dir_loop (S (S (N.to_nat ns))) strict v (h_num_dir h) im ns fat4 (h_first_dir h) 1 [] []) (fun ds =>
  rbind (dir_validate strict ds) (fun _ =>
  let s0 := mkState v im ns ids difat2 fat4 free ds (h_first_dir h) [] (h_first_minifat h) [] in
  rbind (run (chain_new (h_first_minifat h) IFat) s0) (fun '(c, _) =>
  if strict && negb (h_num_minifat h =? lenN (c_ids c)) then Err EInvalidData else
  let nent := chain_len sl c / 4 in
  rbind (run (chain_read_exact c (4 * nent)) s0) (fun '((_, mbytes), _) =>
  let mf0 := strip_last_while (fun x => x =? FREE_SECTOR) 0 (u32s mbytes) in
  match ds with
  | [] => Err EInvalidData
  | root :: _ =>
    rbind (mini_validate strict (d_len root) mf0) (fun '(mf, mfree) =>
    Ok (mkState v im ns ids difat2 fat4 free ds (h_first_dir h) mf (h_first_minifat h) mfree))
  end))))))).

Lemma open_model_after : forall strict bytes,
  open_model strict bytes =
  if lenN bytes <? HEADER_LEN then Err EInvalidData else
  rbind (header_decode strict (takeN HEADER_LEN bytes)) (fun h =>
  open_after strict h (lenN bytes) (chunks (sector_len (h_ver h)) bytes)).
Proof. reflexivity. Qed.

(* ---- everything a successful strict run establishes ---- *)
Definition FREEP := fun x : N => x =? FREE_SECTOR.
Definition WIDEP := fun x : N => (x =? 0) || (x =? DIFAT_SECTOR) || (x =? FAT_SECTOR) || (x =? FREE_SECTOR).

Definition fat3_of (ns : N) (fat0 : list N) : list N :=
  strip_last_while FREEP ns fat0 ++ repeatN FREE_SECTOR (ns - lenN (strip_last_while FREEP ns fat0)).

Definition s0_of (h : header) (L : N) (im : list (list byte)) (ids difat2 fat4 free : list N) (ds : list dirent) :=
  mkState (h_ver h) im (nsof h L) ids difat2 fat4 free ds (h_first_dir h) [] (h_first_minifat h) [].

Record SRun (h : header) (L : N) (im : list (list byte))
       (ids difat0 fat0 fat4 free : list N) (ds : list dirent) (c : chain) (mbytes : list byte)
       (root : dirent) (mf mfree : list N) : Prop := mkSRun {
  sr_big : ((MAX_REGULAR_SECTOR + 1) * sector_len (h_ver h) <? L) = false;
  sr_small : (L <? sector_len (h_ver h)) = false;
  sr_difat : difat_loop (S (S (N.to_nat (nsof h L)))) true im (sector_len (h_ver h)) (nsof h L)
                        (h_first_difat h) [] [] (h_difat h) = Ok (ids, difat0);
  sr_nd : h_num_difat h = lenN ids;
  sr_nf : h_num_fat h = lenN (strip_last_while FREEP 0 difat0);
  sr_rd : CoherenceProofs.read_fat_cells im (sector_len (h_ver h)) (nsof h L) (strip_last_while FREEP 0 difat0) = Ok fat0;
  sr_alloc : alloc_validate true (nsof h L) ids (strip_last_while FREEP 0 difat0) (fat3_of (nsof h L) fat0) = Ok (fat4, free);
  sr_dir : dir_loop (S (S (N.to_nat (nsof h L)))) true (h_ver h) (h_num_dir h) im (nsof h L) fat4 (h_first_dir h) 1 [] [] = Ok ds;
  sr_dv : dir_validate true ds = Ok tt;
  sr_cn : chain_ids_of fat4 (h_first_minifat h) = Ok (c_ids c);
  sr_c : c = mkChain IFat (c_ids c) 0;
  sr_nm : h_num_minifat h = lenN (c_ids c);
  sr_cr : exists c2 s2, run (chain_read_exact c (4 * (chain_len (sector_len (h_ver h)) c / 4)))
                 (s0_of h L im ids (strip_last_while FREEP 0 difat0) fat4 free ds) = Ok ((c2, mbytes), s2);
  sr_root : exists dt, ds = root :: dt;
  sr_mv : mini_validate true (d_len root) (strip_last_while FREEP 0 (u32s mbytes)) = Ok (mf, mfree)
}.

Lemma run_chain_new : forall start i s,
  run (chain_new start i) s = rbind (chain_ids_of (fat s) start) (fun ids => Ok (mkChain i ids 0, s)).
Proof.
  intros. unfold run, chain_new, State.bind, State.get, State.lift, State.ret.
  destruct (chain_ids_of (fat s) start); reflexivity.
Qed.

Lemma strict_run_inv : forall h L im st, open_after true h L im = Ok st ->
  exists ids difat0 fat0 fat4 free ds c mbytes root mf mfree,
    SRun h L im ids difat0 fat0 fat4 free ds c mbytes root mf mfree /\
    st = mkState (h_ver h) im (nsof h L) ids (strip_last_while FREEP 0 difat0) fat4 free ds
                 (h_first_dir h) mf (h_first_minifat h) mfree.
Proof.
  intros h L im st. unfold open_after. cbv zeta. fold (nsof h L).
  destruct ((MAX_REGULAR_SECTOR + 1) * sector_len (h_ver h) <? L) eqn:Ebig; kill.
  destruct (L <? sector_len (h_ver h)) eqn:Esmall; kill.
  match goal with |- rbind ?m _ = _ -> _ => destruct m as [[ids difat0]| | |] eqn:Hd end; norm; kill.
  destruct (negb (h_num_difat h =? lenN ids)) eqn:Hnd; norm; kill.
  fold FREEP.
  destruct (negb (h_num_fat h =? lenN (strip_last_while FREEP 0 difat0))) eqn:Hnf; norm; kill.
  rewrite ReopenProofs.rd_eq.
  destruct (CoherenceProofs.read_fat_cells im (sector_len (h_ver h)) (nsof h L) (strip_last_while FREEP 0 difat0))
    as [fat0| | |] eqn:Hrd; norm; kill.
  fold (fat3_of (nsof h L) fat0).
  match goal with |- rbind ?m _ = _ -> _ => destruct m as [[fat4 free]| | |] eqn:Ha end; norm; kill.
  match goal with |- rbind ?m _ = _ -> _ => destruct m as [ds| | |] eqn:Hdl end; norm; kill.
  match goal with |- rbind ?m _ = _ -> _ => destruct m as [u| | |] eqn:Hdv end; norm; kill.
  rewrite run_chain_new. cbn [fat].
  destruct (chain_ids_of fat4 (h_first_minifat h)) as [cids| | |] eqn:Hc; norm; kill.
  cbn [c_ids].
  destruct (negb (h_num_minifat h =? lenN cids)) eqn:Hnm; norm; kill.
  match goal with |- rbind ?m _ = _ -> _ => destruct m as [[[c2 mbytes] s2]| | |] eqn:Hr end; norm; kill.
  destruct ds as [|root dt]; kill.
  match goal with |- rbind ?m _ = _ -> _ => destruct m as [[mf mfree]| | |] eqn:Hm end; norm; kill.
  intro E. injection E as <-.
  exists ids, difat0, fat0, fat4, free, (root :: dt), (mkChain IFat cids 0), mbytes, root, mf, mfree.
  split; [|reflexivity].
  apply negb_false_iff, N.eqb_eq in Hnd. apply negb_false_iff, N.eqb_eq in Hnf.
  apply negb_false_iff, N.eqb_eq in Hnm. destruct u.
  constructor; try assumption; try reflexivity.
  - exists c2, s2. exact Hr.
  - exists dt. reflexivity.
Qed.

(* ================================================================== *)
(* 2. frames: replacing element [j] of the image (j = 0: the header     *)
(*    sector; j = f + 1: sector f) does not change a stage that never    *)
(*    reads it                                                          *)
(* ================================================================== *)
Section Frame.
Variable j : N.
Variable sec' : list byte.

Definition swi (im : list (list byte)) : list (list byte) := updN im j sec'.

Lemma img_read_swi : forall im idx off n, idx <> j -> img_read (swi im) idx off n = img_read im idx off n.
Proof.
  intros im idx off n H. unfold img_read, swi.
  rewrite ChainProofs.nthN_updN_other by congruence. reflexivity.
Qed.

Lemma read_sector_u32s_swi : forall im sl sid cnt, sid + 1 <> j ->
  read_sector_u32s (swi im) sl sid cnt = read_sector_u32s im sl sid cnt.
Proof. intros. unfold read_sector_u32s. rewrite img_read_swi by assumption. reflexivity. Qed.

Lemma read_difat_sector_swi : forall im sl cur, cur + 1 <> j ->
  read_difat_sector (swi im) sl cur = read_difat_sector im sl cur.
Proof.
  intros. unfold read_difat_sector. rewrite img_read_swi by assumption.
  rewrite read_sector_u32s_swi by assumption. reflexivity.
Qed.

Lemma difat_loop_ids_incl : forall fuel strict im sl ns cur seen ids difat r,
  difat_loop fuel strict im sl ns cur seen ids difat = Ok r -> forall x, In x ids -> In x (fst r).
Proof.
  induction fuel as [|f IH]; intros strict im sl ns cur seen ids difat r; cbn [difat_loop].
  - intros; discriminate.
  - repeat step; intros E x Hx;
      first [injection E as <-; exact Hx | eapply IH; [exact E|]; apply in_or_app; left; exact Hx].
Qed.

Lemma difat_loop_swi : forall fuel strict im sl ns cur seen ids difat r,
  difat_loop fuel strict im sl ns cur seen ids difat = Ok r ->
  (forall x, In x (fst r) -> x + 1 <> j) ->
  difat_loop fuel strict (swi im) sl ns cur seen ids difat = Ok r.
Proof.
  induction fuel as [|f IH]; intros strict im sl ns cur seen ids difat r; cbn [difat_loop].
  - intros; discriminate.
  - do 4 (step; try exact (fun H _ => H)).
    destruct (N.eq_dec (cur + 1) j) as [Ej|Ej].
    + repeat step; intros E Hav; exfalso; apply (Hav cur); try exact Ej;
        (eapply difat_loop_ids_incl; [exact E|]); apply in_or_app; right; left; reflexivity.
    + rewrite read_difat_sector_swi by exact Ej. repeat step; apply IH.
Qed.

Lemma read_fat_cells_swi : forall im sl ns l, (forall x, In x l -> x + 1 <> j) ->
  CoherenceProofs.read_fat_cells (swi im) sl ns l = CoherenceProofs.read_fat_cells im sl ns l.
Proof.
  intros im sl ns. induction l as [|x t IH]; intro H; [reflexivity|].
  cbn [CoherenceProofs.read_fat_cells].
  rewrite read_sector_u32s_swi by (apply H; left; reflexivity).
  rewrite IH by (intros y Hy; apply H; right; exact Hy). reflexivity.
Qed.

Lemma dir_loop_swi : forall fuel strict v nd im ns fat cur count seen acc ds,
  (forall sid nx, next_of fat sid = Ok nx -> sid + 1 <> j) ->
  dir_loop fuel strict v nd im ns fat cur count seen acc = Ok ds ->
  dir_loop fuel strict v nd (swi im) ns fat cur count seen acc = Ok ds.
Proof.
  induction fuel as [|f IH]; intros strict v nd im ns fat cur count seen acc ds Hj; cbn [dir_loop].
  - intros; discriminate.
  - do 5 (step; try exact (fun H => H)).
    destruct (N.eq_dec (cur + 1) j) as [Ej|Ej].
    + step. step. exfalso. eapply Hj; eauto.
    + rewrite img_read_swi by exact Ej. step. step. apply IH. exact Hj.
Qed.

(* in permissive mode the directory-sector count of the header is never looked at *)
Lemma dir_loop_perm_nd : forall fuel v nd nd' im ns fat cur count seen acc,
  dir_loop fuel false v nd im ns fat cur count seen acc = dir_loop fuel false v nd' im ns fat cur count seen acc.
Proof.
  induction fuel as [|f IH]; intros; cbn [dir_loop andb]; [reflexivity|].
  destruct (cur =? END_OF_CHAIN); [reflexivity|].
  destruct (MAX_REGULAR_SECTOR <? cur); [reflexivity|].
  destruct (ns <=? cur); [reflexivity|]. destruct (memN cur seen); [reflexivity|].
  destruct (read_dirents v false (N.to_nat (dir_per_sector v)) (img_read im (cur + 1) 0 (sector_len v))); try reflexivity.
  cbn [rbind]. destruct (next_of fat cur); try reflexivity. cbn [rbind]. apply IH.
Qed.

(* ---- the state monad: read-only computations that never look at element j ---- *)
Definition swp (s : cstate) : cstate := w_img s (swi (img s)).
Definition Fr {A} (m : M A) (s : cstate) : Prop := exists r, m s = (s, r) /\ m (swp s) = (swp s, r).

Lemma Fr_ret : forall A (a : A) s, Fr (State.ret a) s.
Proof. intros. eexists. split; reflexivity. Qed.
Lemma Fr_fail : forall A k s, Fr (@State.fail A k) s.
Proof. intros. eexists. split; reflexivity. Qed.
Lemma Fr_panic : forall A k s, Fr (@State.panic A k) s.
Proof. intros. eexists. split; reflexivity. Qed.
Lemma Fr_oof : forall A s, Fr (@State.out_of_fuel A) s.
Proof. intros. eexists. split; reflexivity. Qed.
Lemma Fr_lift : forall A (r : res A) s, Fr (State.lift r) s.
Proof. intros. eexists. split; reflexivity. Qed.

Lemma Fr_bind : forall A B (m : M A) (f : A -> M B) s,
  Fr m s -> (forall a, snd (m s) = Ok a -> Fr (f a) s) -> Fr (State.bind m f) s.
Proof.
  intros A B m f s (r & H1 & H2) Hf. unfold Fr, State.bind. rewrite H1, H2.
  destruct r as [a| | |]; try (eexists; split; reflexivity).
  apply Hf. rewrite H1. reflexivity.
Qed.

Lemma Fr_get_bind : forall A (f : cstate -> M A) s,
  f (swp s) = f s -> Fr (f s) s -> Fr (State.bind State.get f) s.
Proof.
  intros A f s E (r & H1 & H2). exists r. unfold State.bind, State.get. rewrite E. split; assumption.
Qed.

Lemma Fr_run : forall A (m : M A) s a s2, Fr m s -> run m s = Ok (a, s2) -> run m (swp s) = Ok (a, swp s).
Proof.
  intros A m s a s2 (r & H1 & H2). unfold run. rewrite H1, H2.
  destruct r; intro E; try discriminate. injection E as <- _. reflexivity.
Qed.

Lemma seek_sector_Fr : forall sid off s, Fr (seek_sector sid off) s.
Proof.
  intros. unfold seek_sector. apply Fr_get_bind; [reflexivity|].
  destruct (slen s <? off); [apply Fr_panic|].
  destruct (nsect s <=? sid); [apply Fr_fail|apply Fr_ret].
Qed.

Lemma sector_read_exact_Fr : forall sid off n s, sid + 1 <> j -> Fr (sector_read_exact sid off n) s.
Proof.
  intros sid off n s Hs. unfold sector_read_exact. apply Fr_bind; [apply seek_sector_Fr|]. intros _ _.
  unfold Fr, State.bind, State.get. cbn [img swp w_img]. rewrite img_read_swi by exact Hs.
  destruct (lenN (img_read (img s) (sid + 1) off n) <? n); eexists; split; reflexivity.
Qed.

Lemma chain_read_go_Fr : forall fuel c n acc s, (forall x, In x (c_ids c) -> x + 1 <> j) ->
  Fr (chain_read_go fuel c n acc) s.
Proof.
  induction fuel as [|f IH]; intros c n acc s Hav; cbn [chain_read_go]; [apply Fr_oof|].
  destruct (n =? 0); [apply Fr_ret|].
  apply Fr_get_bind; [reflexivity|]. cbv zeta.
  destruct (chain_len (slen s) c <? c_off c); [apply Fr_panic|].
  destruct (N.min n (chain_len (slen s) c - c_off c) =? 0); [apply Fr_fail|].
  destruct (nthN (c_ids c) (c_off c / slen s)) as [sid|] eqn:E; [|apply Fr_panic].
  apply Fr_bind.
  - apply sector_read_exact_Fr. apply Hav. eapply ChainProofs.nthN_In. exact E.
  - intros bs _. apply IH. exact Hav.
Qed.

Lemma chain_read_exact_Fr : forall c n s, (forall x, In x (c_ids c) -> x + 1 <> j) ->
  Fr (chain_read_exact c n) s.
Proof.
  intros. unfold chain_read_exact. apply Fr_get_bind; [reflexivity|]. apply chain_read_go_Fr. assumption.
Qed.
End Frame.

(* ================================================================== *)
(* 3. evaluating a permissive run from its stages                       *)
(* ================================================================== *)
Definition fat3p_of (ns : N) (fat0 : list N) : list N :=
  fat3_of ns (strip_last_while WIDEP ns fat0).

Lemma open_after_perm_eval : forall h L im ids difat0 fat0 fat4 free ds c mbytes root mf mfree,
  ((MAX_REGULAR_SECTOR + 1) * sector_len (h_ver h) <? L) = false ->
  (L <? sector_len (h_ver h)) = false ->
  difat_loop (S (S (N.to_nat (nsof h L)))) false im (sector_len (h_ver h)) (nsof h L)
             (h_first_difat h) [] [] (h_difat h) = Ok (ids, difat0) ->
  forall difat2,
  strip_last_while FREEP 0 (strip_last_while (fun x => x =? 0) (N.max NUM_DIFAT_HDR (h_num_fat h)) difat0) = difat2 ->
  CoherenceProofs.read_fat_cells im (sector_len (h_ver h)) (nsof h L) difat2 = Ok fat0 ->
  alloc_validate false (nsof h L) ids difat2 (fat3p_of (nsof h L) fat0) = Ok (fat4, free) ->
  dir_loop (S (S (N.to_nat (nsof h L)))) false (h_ver h) (h_num_dir h) im (nsof h L) fat4 (h_first_dir h) 1 [] [] = Ok ds ->
  dir_validate false ds = Ok tt ->
  chain_ids_of fat4 (h_first_minifat h) = Ok (c_ids c) -> c = mkChain IFat (c_ids c) 0 ->
  (exists c2 s2, run (chain_read_exact c (4 * (chain_len (sector_len (h_ver h)) c / 4)))
                 (s0_of h L im ids difat2 fat4 free ds) = Ok ((c2, mbytes), s2)) ->
  (exists dt, ds = root :: dt) ->
  mini_validate false (d_len root) (strip_last_while FREEP 0 (u32s mbytes)) = Ok (mf, mfree) ->
  open_after false h L im =
  Ok (mkState (h_ver h) im (nsof h L) ids difat2 fat4 free ds (h_first_dir h) mf (h_first_minifat h) mfree).
Proof.
  intros h L im ids difat0 fat0 fat4 free ds c mbytes root mf mfree Hbig Hsmall Hd difat2 Hd2 Hrd Ha Hdl Hdv
         Hc Hcc (c2 & s2 & Hr) (dt & Hds) Hm.
  unfold open_after. cbv zeta. fold (nsof h L). rewrite Hbig, Hsmall, Hd. cbn [rbind andb]. cbv beta iota.
  fold FREEP. rewrite Hd2. rewrite ReopenProofs.rd_eq, Hrd. cbn [rbind].
  fold WIDEP. fold (fat3_of (nsof h L) (strip_last_while WIDEP (nsof h L) fat0)). fold (fat3p_of (nsof h L) fat0).
  rewrite Ha. cbn [rbind]. cbv beta iota. rewrite Hdl. cbn [rbind]. rewrite Hdv. cbn [rbind].
  rewrite run_chain_new. cbn [fat]. rewrite Hc. cbn [rbind]. cbv beta iota. rewrite <- Hcc.
  fold (s0_of h L im ids difat2 fat4 free ds). rewrite Hr. cbn [rbind]. cbv beta iota.
  rewrite Hds. rewrite Hm. cbn [rbind]. reflexivity.
Qed.

(* the DIFAT zero pre-trim leaves the list alone when the FREE-trimmed list is not
   longer than the header array or does not end with sector 0 *)
Lemma lastN_snoc' : forall (l : list N) x, lastN (l ++ [x]) = Some x.
Proof. intros. unfold lastN. rewrite rev_app_distr. reflexivity. Qed.

Lemma strip_zero_id : forall k nf d0,
  lenN (strip_last_while FREEP 0 d0) <= k \/ lastN (strip_last_while FREEP 0 d0) <> Some 0 ->
  strip_last_while (fun x => x =? 0) (N.max k nf) d0 = d0.
Proof.
  intros k nf d0 H. destruct (rev d0) as [|x r] eqn:Er.
  - apply (f_equal (@rev N)) in Er. rewrite rev_involutive in Er. subst d0. apply strip_nil.
  - apply (f_equal (@rev N)) in Er. rewrite rev_involutive in Er. cbn [rev] in Er. subst d0.
    destruct (x =? 0) eqn:Ex.
    + apply N.eqb_eq in Ex. subst x.
      rewrite (strip_last_fails FREEP 0 (rev r) 0) in H by reflexivity.
      destruct H as [H|H].
      * apply strip_short. lia.
      * exfalso. apply H. apply lastN_snoc'.
    + apply strip_last_fails. exact Ex.
Qed.

(* ================================================================== *)
(* 4. a header that differs only in its count fields                    *)
(* ================================================================== *)
Definition hdr_same (h h' : header) : Prop :=
  h_ver h' = h_ver h /\ h_first_dir h' = h_first_dir h /\ h_first_minifat h' = h_first_minifat h /\
  h_first_difat h' = h_first_difat h /\ h_difat h' = h_difat h.

Lemma s0_swp : forall j sec' h L im ids d2 fat4 free ds,
  s0_of h L (swi j sec' im) ids d2 fat4 free ds = swp j sec' (s0_of h L im ids d2 fat4 free ds).
Proof. reflexivity. Qed.

Lemma plus1_ne0 : forall x : N, x + 1 <> 0. Proof. intros; lia. Qed.

(* permissive open never looks at the counts (apart from the DIFAT zero pre-trim, which
   uses the FAT-sector count as a lower bound): same tables *)
Theorem header_frame_perm : forall h h' L im sec' st,
  open_after true h L im = Ok st -> hdr_same h h' ->
  (h_num_fat h' = h_num_fat h \/ lenN (difat st) <= NUM_DIFAT_HDR \/ lastN (difat st) <> Some 0) ->
  open_after false h' L (swi 0 sec' im) = Ok (w_img st (swi 0 sec' im)).
Proof.
  intros h h' L im sec' st Hopen Hsame Hz.
  destruct (strict_run_inv _ _ _ _ Hopen) as (ids & difat0 & fat0 & fat4 & free & ds & c & mbytes & root & mf & mfree & R & ->).
  cbn [difat] in Hz. destruct R.
  destruct h as [v nd nf fd fm nm fdi ndi dif], h' as [v' nd' nf' fd' fm' nm' fdi' ndi' dif'].
  unfold hdr_same in Hsame. cbn [h_ver h_first_dir h_first_minifat h_first_difat h_difat] in Hsame.
  destruct Hsame as (-> & -> & -> & -> & ->).
  cbn [h_ver h_num_dir h_num_fat h_first_dir h_first_minifat h_num_minifat h_first_difat h_num_difat h_difat] in *.
  unfold nsof in *. cbn [h_ver] in *.
  pose proof (alloc_validate_len _ _ _ _ _ _ sr_alloc0) as Hlen3. unfold fat3_of in Hlen3. rewrite lenN_app in Hlen3.
  rewrite (open_after_perm_eval _ L (swi 0 sec' im) ids difat0 fat0 fat4 free ds c mbytes root mf mfree)
    with (difat2 := strip_last_while FREEP 0 difat0);
    [reflexivity|exact sr_big0|exact sr_small0| | | | | | |exact sr_cn0|exact sr_c0| |exact sr_root0|].
  - apply difat_loop_swi; [|intros; apply plus1_ne0]. apply difat_loop_strict_perm. exact sr_difat0.
  - cbn [h_num_fat]. destruct Hz as [->|Hz].
    + unfold FREEP in sr_nf0. rewrite (strip_zero_then_free NUM_DIFAT_HDR _ _ sr_nf0). reflexivity.
    + rewrite strip_zero_id by exact Hz. reflexivity.
  - rewrite read_fat_cells_swi by (intros; apply plus1_ne0). exact sr_rd0.
  - unfold fat3p_of, fat3_of. unfold FREEP, WIDEP.
    rewrite (strip_wider_then_narrow _ (fun x => x =? FREE_SECTOR) _ fat0 wide_of_free) by (unfold FREEP in Hlen3; unfold nsof; cbn [h_ver]; lia).
    apply alloc_validate_strict_perm. exact sr_alloc0.
  - apply dir_loop_swi; [intros; apply plus1_ne0|].
    rewrite (dir_loop_perm_nd _ _ _ nd). apply dir_loop_strict_perm. exact sr_dir0.
  - apply dir_validate_strict_perm. exact sr_dv0.
  - destruct sr_cr0 as (c2 & s2 & Hr). exists c2. eexists. rewrite s0_swp.
    eapply Fr_run; [|exact Hr]. apply chain_read_exact_Fr. intros; apply plus1_ne0.
  - apply mini_validate_strict_perm. exact sr_mv0.
Qed.

(* strict open compares three of them with what it finds *)
Theorem header_frame_strict : forall h h' L im sec' st,
  open_after true h L im = Ok st -> hdr_same h h' -> h_num_dir h' = h_num_dir h ->
  (h_num_difat h' <> h_num_difat h \/ h_num_fat h' <> h_num_fat h \/ h_num_minifat h' <> h_num_minifat h) ->
  open_after true h' L (swi 0 sec' im) = Err EInvalidData.
Proof.
  intros h h' L im sec' st Hopen Hsame Hnd Hne.
  destruct (strict_run_inv _ _ _ _ Hopen) as (ids & difat0 & fat0 & fat4 & free & ds & c & mbytes & root & mf & mfree & R & ->).
  destruct R.
  destruct h as [v nd nf fd fm nm fdi ndi dif], h' as [v' nd' nf' fd' fm' nm' fdi' ndi' dif'].
  unfold hdr_same in Hsame. cbn [h_ver h_first_dir h_first_minifat h_first_difat h_difat] in Hsame.
  destruct Hsame as (-> & -> & -> & -> & ->).
  cbn [h_ver h_num_dir h_num_fat h_first_dir h_first_minifat h_num_minifat h_first_difat h_num_difat h_difat] in *.
  subst nd'.
  unfold open_after. cbv zeta.
  cbn [h_ver h_num_dir h_num_fat h_first_dir h_first_minifat h_num_minifat h_first_difat h_num_difat h_difat].
  unfold nsof in *. cbn [h_ver] in *.
  set (ns := (L + sector_len v - 1) / sector_len v - 1) in *.
  rewrite sr_big0, sr_small0.
  rewrite (difat_loop_swi 0 sec' _ _ _ _ _ _ _ _ _ _ sr_difat0) by (intros; apply plus1_ne0).
  cbn [rbind andb]. cbv beta iota.
  destruct (N.eqb_spec ndi' (lenN ids)) as [E1|E1]; [|reflexivity]. cbn [negb].
  fold FREEP.
  destruct (N.eqb_spec nf' (lenN (strip_last_while FREEP 0 difat0))) as [E2|E2]; [|reflexivity]. cbn [negb].
  rewrite ReopenProofs.rd_eq, read_fat_cells_swi by (intros; apply plus1_ne0). rewrite sr_rd0. cbn [rbind].
  fold (fat3_of ns fat0). rewrite sr_alloc0. cbn [rbind]. cbv beta iota.
  rewrite (dir_loop_swi 0 sec' _ _ _ _ _ _ _ _ _ _ _ _ (fun _ _ _ => plus1_ne0 _) sr_dir0). cbn [rbind].
  rewrite sr_dv0. cbn [rbind]. rewrite run_chain_new. cbn [fat]. rewrite sr_cn0. cbn [rbind]. cbv beta iota. cbn [c_ids].
  destruct (N.eqb_spec nm' (lenN (c_ids c))) as [E3|E3]; [|reflexivity].
  exfalso. destruct Hne as [H|[H|H]]; apply H; congruence.
Qed.

(* ================================================================== *)
(* 5. patching a header field of an image                               *)
(* ================================================================== *)
Definition set_nd (h : header) (x : N) : header :=
  mkHeader (h_ver h) x (h_num_fat h) (h_first_dir h) (h_first_minifat h) (h_num_minifat h)
           (h_first_difat h) (h_num_difat h) (h_difat h).
Definition set_nf (h : header) (x : N) : header :=
  mkHeader (h_ver h) (h_num_dir h) x (h_first_dir h) (h_first_minifat h) (h_num_minifat h)
           (h_first_difat h) (h_num_difat h) (h_difat h).
Definition set_nm (h : header) (x : N) : header :=
  mkHeader (h_ver h) (h_num_dir h) (h_num_fat h) (h_first_dir h) (h_first_minifat h) x
           (h_first_difat h) (h_num_difat h) (h_difat h).
Definition set_ndi (h : header) (x : N) : header :=
  mkHeader (h_ver h) (h_num_dir h) (h_num_fat h) (h_first_dir h) (h_first_minifat h) (h_num_minifat h)
           (h_first_difat h) x (h_difat h).

Ltac decode_patch off :=
  match goal with
  | H : header_decode _ ?bs = Ok _, Hg : lenN ?g = 4 |- _ =>
    let Hlen := fresh "Hlen" in let Hle := fresh "Hle" in
    pose proof (header_decode_len _ _ _ H) as Hlen;
    assert (Hle : off + lenN g <= lenN bs) by lia;
    revert H; unfold header_decode;
    rewrite (win_splice_at _ _ _ 4 Hle Hg); splice_simpl Hle
  end.

Lemma decode_patch_nf : forall s bs h g, header_decode s bs = Ok h -> lenN g = 4 ->
  header_decode s (spliceN bs 44 g) = Ok (set_nf h (le_val g)).
Proof. intros s bs h g H Hg. decode_patch 44. repeat step. intros Hk. injection Hk as <-. reflexivity. Qed.

Lemma decode_patch_nm : forall s bs h g, header_decode s bs = Ok h -> lenN g = 4 ->
  header_decode s (spliceN bs 64 g) = Ok (set_nm h (le_val g)).
Proof. intros s bs h g H Hg. decode_patch 64. repeat step. intros Hk. injection Hk as <-. reflexivity. Qed.

Lemma decode_patch_ndi : forall s bs h g, header_decode s bs = Ok h -> lenN g = 4 ->
  header_decode s (spliceN bs 72 g) = Ok (set_ndi h (le_val g)).
Proof. intros s bs h g H Hg. decode_patch 72. repeat step. intros Hk. injection Hk as <-. reflexivity. Qed.

(* the directory-sector count: version 4 keeps it, version 3 must have 0 (strict) or ignores it *)
Lemma decode_patch_nd_v4 : forall s bs h g, header_decode s bs = Ok h -> lenN g = 4 -> h_ver h = V4 ->
  header_decode s (spliceN bs 40 g) = Ok (set_nd h (le_val g)).
Proof.
  intros s bs h g H Hg Hv. decode_patch 40. repeat step; intros Hk; injection Hk as <-; cbn in Hv; subst; try discriminate; reflexivity.
Qed.

Lemma u32_at_header : forall bs off, off + 4 <= 512 ->
  le_val (takeN 4 (dropN off (takeN 512 bs))) = u32_at bs off.
Proof. intros. unfold u32_at. rewrite win_take by lia. reflexivity. Qed.

Lemma header_fields : forall s bs h, header_decode s bs = Ok h ->
  h_num_fat h = le_val (takeN 4 (dropN 44 bs)) /\ h_num_minifat h = le_val (takeN 4 (dropN 64 bs)) /\
  h_num_difat h = le_val (takeN 4 (dropN 72 bs)) /\
  (h_ver h = V4 -> h_num_dir h = le_val (takeN 4 (dropN 40 bs))).
Proof.
  intros s bs h. unfold header_decode. repeat step; intros Hk; injection Hk as <-; cbn;
    repeat split; intros; subst; first [reflexivity|congruence].
Qed.

(* ================================================================== *)
(* 6. from open_after to whole images                                   *)
(* ================================================================== *)
Lemma chunks_head : forall sl (b : list byte), b <> [] ->
  chunks sl b = takeN sl b :: chunks_go (N.to_nat (lenN b / sl)) sl (dropN sl b).
Proof. intros sl b H. unfold chunks. cbn [chunks_go]. destruct b; [contradiction|reflexivity]. Qed.

Lemma chunks_patch_head : forall sl (b b' : list byte), b <> [] -> b' <> [] -> lenN b' = lenN b ->
  dropN sl b' = dropN sl b -> chunks sl b' = swi 0 (takeN sl b') (chunks sl b).
Proof. intros sl b b' H H' H1 H2. rewrite !chunks_head by assumption. rewrite H1, H2. reflexivity. Qed.

Lemma dropN_splice_before : forall l off g k, off + lenN g <= lenN l -> off + lenN g <= k ->
  dropN k (spliceN l off g) = dropN k l.
Proof.
  intros l off g k H Hk. apply list_ext. intro i. rewrite !nthN_dropN.
  apply nthN_splice_outside; [exact H|lia].
Qed.

Lemma lenN_nonnil : forall A (l : list A), 0 < lenN l -> l <> [].
Proof. intros A l H ->. cbn in H. lia. Qed.

Lemma open_strict_parts : forall s b st, open_model s b = Ok st ->
  exists h, 512 <= lenN b /\ header_decode s (takeN 512 b) = Ok h /\
            open_after s h (lenN b) (chunks (sector_len (h_ver h)) b) = Ok st.
Proof.
  intros s b st. rewrite open_model_after. unfold HEADER_LEN.
  destruct (lenN b <? 512) eqn:E; [discriminate|].
  destruct (header_decode s (takeN 512 b)) as [h| | |]; cbn [rbind]; try discriminate.
  intro H. exists h. split; [lia|]. split; [reflexivity|exact H].
Qed.

Lemma open_after_ver_img : forall h L im st, open_after true h L im = Ok st ->
  ver st = h_ver h /\ img st = im /\ sector_len (h_ver h) <= L.
Proof.
  intros h L im st H.
  destruct (strict_run_inv _ _ _ _ H) as (ids & difat0 & fat0 & fat4 & free & ds & c & mbytes & root & mf & mfree & R & ->).
  destruct R. split; [reflexivity|]. split; [reflexivity|]. lia.
Qed.

Lemma sector_len_ge : forall v, 512 <= sector_len v.
Proof. intros [|]; vm_compute; discriminate. Qed.

Theorem image_frame_perm : forall b b' st h h',
  open_model true b = Ok st -> header_decode true (takeN 512 b) = Ok h ->
  lenN b' = lenN b -> dropN (sector_len (h_ver h)) b' = dropN (sector_len (h_ver h)) b ->
  hdr_same h h' -> header_decode false (takeN 512 b') = Ok h' ->
  (h_num_fat h' = h_num_fat h \/ lenN (difat st) <= NUM_DIFAT_HDR \/ lastN (difat st) <> Some 0) ->
  open_model false b' = Ok (w_img st (swi 0 (takeN (slen st) b') (img st))).
Proof.
  intros b b' st h h' Hopen Hh Hlen Hdrop Hsame Hh' Hz.
  destruct (open_strict_parts _ _ _ Hopen) as (h0 & H512 & Hh0 & Ha). rewrite Hh in Hh0. injection Hh0 as <-.
  destruct (open_after_ver_img _ _ _ _ Ha) as (Hv & Hi & _).
  rewrite open_model_after. unfold HEADER_LEN. replace (lenN b' <? 512) with false by lia.
  rewrite Hh'. cbn [rbind]. destruct Hsame as (Ev & Hrest). rewrite Ev, Hlen.
  rewrite (chunks_patch_head _ b b') by (try apply lenN_nonnil; try assumption; lia).
  unfold slen. rewrite Hv, Hi. apply (header_frame_perm h h'); [exact Ha|split; assumption|exact Hz].
Qed.

Theorem image_frame_strict : forall b b' st h h',
  open_model true b = Ok st -> header_decode true (takeN 512 b) = Ok h ->
  lenN b' = lenN b -> dropN (sector_len (h_ver h)) b' = dropN (sector_len (h_ver h)) b ->
  hdr_same h h' -> header_decode true (takeN 512 b') = Ok h' -> h_num_dir h' = h_num_dir h ->
  (h_num_difat h' <> h_num_difat h \/ h_num_fat h' <> h_num_fat h \/ h_num_minifat h' <> h_num_minifat h) ->
  open_model true b' = Err EInvalidData.
Proof.
  intros b b' st h h' Hopen Hh Hlen Hdrop Hsame Hh' Hnd Hne.
  destruct (open_strict_parts _ _ _ Hopen) as (h0 & H512 & Hh0 & Ha). rewrite Hh in Hh0. injection Hh0 as <-.
  rewrite open_model_after. unfold HEADER_LEN. replace (lenN b' <? 512) with false by lia.
  rewrite Hh'. cbn [rbind]. destruct Hsame as (Ev & Hrest). rewrite Ev, Hlen.
  rewrite (chunks_patch_head _ b b') by (try apply lenN_nonnil; try assumption; lia).
  apply (header_frame_strict h h' _ _ _ st); [exact Ha|split; assumption|exact Hnd|exact Hne].
Qed.

(* ---- deviation 1: a wrong FAT / MiniFAT / DIFAT sector count in the header ---- *)
Definition count_off (off : N) : Prop := off = 44 \/ off = 64 \/ off = 72.

Theorem tolerated_header_count : forall b st off g,
  open_model true b = Ok st -> count_off off -> lenN g = 4 -> le_val g <> u32_at b off ->
  (off = 44 -> lenN (difat st) <= NUM_DIFAT_HDR \/ lastN (difat st) <> Some 0) ->
  let b' := spliceN b off g in
  open_model true b' = Err EInvalidData /\
  open_model false b' = Ok (w_img st (swi 0 (takeN (slen st) b') (img st))).
Proof.
  intros b st off g Hopen Hoff Hg Hne Hz b'.
  destruct (open_strict_parts _ _ _ Hopen) as (h & H512 & Hh & Ha).
  destruct (open_after_ver_img _ _ _ _ Ha) as (Hv & Hi & HslL).
  pose proof (sector_len_ge (h_ver h)) as Hsl.
  assert (Ho : off + lenN g <= 512) by (destruct Hoff as [-> | [-> | ->]]; lia).
  assert (Hle : off + lenN g <= lenN b) by lia.
  assert (Hlen : lenN b' = lenN b) by (apply lenN_splice; exact Hle).
  assert (Hdrop : dropN (sector_len (h_ver h)) b' = dropN (sector_len (h_ver h)) b)
    by (apply dropN_splice_before; lia).
  assert (Htk : takeN 512 b' = spliceN (takeN 512 b) off g) by (apply takeN_splice_comm; lia).
  destruct (header_fields _ _ _ Hh) as (Fnf & Fnm & Fndi & _).
  rewrite u32_at_header in Fnf, Fnm, Fndi by lia.
  pose proof (header_decode_strict_perm _ _ Hh) as Hhp.
  destruct Hoff as [-> | [-> | ->]].
  - split.
    + eapply (image_frame_strict b b' st h (set_nf h (le_val g))); try eassumption.
      * repeat split.
      * rewrite Htk. apply decode_patch_nf; assumption.
      * reflexivity.
      * right. left. cbn [set_nf h_num_fat]. congruence.
    + eapply (image_frame_perm b b' st h (set_nf h (le_val g))); try eassumption.
      * repeat split.
      * rewrite Htk. apply decode_patch_nf; assumption.
      * right. apply Hz. reflexivity.
  - split.
    + eapply (image_frame_strict b b' st h (set_nm h (le_val g))); try eassumption.
      * repeat split.
      * rewrite Htk. apply decode_patch_nm; assumption.
      * reflexivity.
      * right. right. cbn [set_nm h_num_minifat]. congruence.
    + eapply (image_frame_perm b b' st h (set_nm h (le_val g))); try eassumption.
      * repeat split.
      * rewrite Htk. apply decode_patch_nm; assumption.
      * left. reflexivity.
  - split.
    + eapply (image_frame_strict b b' st h (set_ndi h (le_val g))); try eassumption.
      * repeat split.
      * rewrite Htk. apply decode_patch_ndi; assumption.
      * reflexivity.
      * left. cbn [set_ndi h_num_difat]. congruence.
    + eapply (image_frame_perm b b' st h (set_ndi h (le_val g))); try eassumption.
      * repeat split.
      * rewrite Htk. apply decode_patch_ndi; assumption.
      * left. reflexivity.
Qed.

(* ================================================================== *)
(* 7. same mode, a header that differs at most in the directory-sector  *)
(*    count (which strict mode only uses as an upper bound)              *)
(* ================================================================== *)
Lemma dir_loop_nd_mono : forall fuel s v nd nd' im ns fat cur count seen acc ds,
  s = false \/ nd <= nd' ->
  dir_loop fuel s v nd im ns fat cur count seen acc = Ok ds ->
  dir_loop fuel s v nd' im ns fat cur count seen acc = Ok ds.
Proof.
  induction fuel as [|f IH]; intros s v nd nd' im ns fat cur count seen acc ds Hs; cbn [dir_loop].
  - intros; discriminate.
  - destruct (cur =? END_OF_CHAIN); [exact (fun H => H)|].
    destruct (s && version_eqb v V4 && (nd <? count)) eqn:E1; [intros; discriminate|].
    replace (s && version_eqb v V4 && (nd' <? count)) with false.
    2:{ destruct Hs as [->|Hs]; [reflexivity|]. destruct s; [|reflexivity]. destruct (version_eqb v V4); [|reflexivity].
        cbn [andb] in *. symmetry. apply N.ltb_ge. apply N.ltb_ge in E1. lia. }
    do 3 (step; try exact (fun H => H)). step. step. apply IH. exact Hs.
Qed.

Theorem open_after_same_mode : forall s h h' L im sec' st,
  open_after s h L im = Ok st -> hdr_same h h' ->
  h_num_fat h' = h_num_fat h -> h_num_minifat h' = h_num_minifat h -> h_num_difat h' = h_num_difat h ->
  (s = false \/ h_num_dir h <= h_num_dir h') ->
  open_after s h' L (swi 0 sec' im) = Ok (w_img st (swi 0 sec' im)).
Proof.
  intros s h h' L im sec' st Hopen Hsame Enf Enm Endi Hnd. revert Hopen.
  destruct h as [v nd nf fd fm nm fdi ndi dif], h' as [v' nd' nf' fd' fm' nm' fdi' ndi' dif'].
  unfold hdr_same in Hsame. cbn [h_ver h_first_dir h_first_minifat h_first_difat h_difat] in Hsame.
  destruct Hsame as (-> & -> & -> & -> & ->).
  cbn [h_num_dir h_num_fat h_num_minifat h_num_difat] in *. subst nf' nm' ndi'.
  unfold open_after. cbv zeta.
  cbn [h_ver h_num_dir h_num_fat h_first_dir h_first_minifat h_num_minifat h_first_difat h_num_difat h_difat].
  set (ns := (L + sector_len v - 1) / sector_len v - 1).
  step. step.
  match goal with |- rbind ?m _ = _ -> _ => destruct m as [[ids difat0]| | |] eqn:Hd end; norm; kill.
  rewrite (difat_loop_swi 0 sec' _ _ _ _ _ _ _ _ _ _ Hd) by (intros; apply plus1_ne0). norm.
  step.
  set (difat2 := strip_last_while (fun x => x =? FREE_SECTOR) 0 _).
  step.
  rewrite !ReopenProofs.rd_eq. rewrite read_fat_cells_swi by (intros; apply plus1_ne0).
  destruct (CoherenceProofs.read_fat_cells im (sector_len v) ns difat2) as [fat0| | |] eqn:Hrd; norm; kill.
  match goal with |- rbind ?m _ = _ -> _ => destruct m as [[fat4 free]| | |] eqn:Ha end; norm; kill.
  match goal with |- rbind ?m _ = _ -> _ => destruct m as [ds| | |] eqn:Hdl end; norm; kill.
  rewrite (dir_loop_swi 0 sec' _ _ _ _ _ _ _ _ _ _ _ _ (fun _ _ _ => plus1_ne0 _)
             (dir_loop_nd_mono _ _ _ _ nd' _ _ _ _ _ _ _ _ Hnd Hdl)). norm.
  match goal with |- rbind ?m _ = _ -> _ => destruct m as [u| | |] eqn:Hdv end; norm; kill.
  rewrite !run_chain_new. cbn [fat].
  destruct (chain_ids_of fat4 fm) as [cids| | |] eqn:Hc; norm; kill.
  step.
  match goal with |- rbind (run ?m ?s0) _ = _ -> _ => destruct (run m s0) as [[[c2 mbytes] s2]| | |] eqn:Hr end; norm; kill.
  match goal with |- _ -> rbind (run ?m ?s0') _ = _ =>
    change s0' with (swp 0 sec' (mkState v im ns ids difat2 fat4 free ds fd [] fm [])) end.
  rewrite (Fr_run 0 sec' _ _ _ _ _ (chain_read_exact_Fr 0 sec' _ _ _ (fun _ _ => plus1_ne0 _)) Hr). norm.
  destruct ds as [|root dt]; kill.
  match goal with |- rbind ?m _ = _ -> _ => destruct m as [[mf mfree]| | |] eqn:Hm end; norm; kill.
  intro E. injection E as <-. reflexivity.
Qed.

Theorem image_frame_same_mode : forall s b b' st h h',
  open_model s b = Ok st -> header_decode s (takeN 512 b) = Ok h ->
  lenN b' = lenN b -> dropN (sector_len (h_ver h)) b' = dropN (sector_len (h_ver h)) b ->
  header_decode s (takeN 512 b') = Ok h' -> hdr_same h h' ->
  h_num_fat h' = h_num_fat h -> h_num_minifat h' = h_num_minifat h -> h_num_difat h' = h_num_difat h ->
  (s = false \/ h_num_dir h <= h_num_dir h') ->
  open_model s b' = Ok (w_img st (swi 0 (takeN (sector_len (h_ver h)) b') (chunks (sector_len (h_ver h)) b))).
Proof.
  intros s b b' st h h' Hopen Hh Hlen Hdrop Hh' Hsame E1 E2 E3 Hnd.
  destruct (open_strict_parts _ _ _ Hopen) as (h0 & H512 & Hh0 & Ha). rewrite Hh in Hh0. injection Hh0 as <-.
  rewrite open_model_after. unfold HEADER_LEN. replace (lenN b' <? 512) with false by lia.
  rewrite Hh'. cbn [rbind]. pose proof Hsame as (Ev & _). rewrite Ev, Hlen.
  rewrite (chunks_patch_head _ b b') by (try apply lenN_nonnil; try assumption; lia).
  apply (open_after_same_mode s h h'); assumption.
Qed.

Lemma open_after_img : forall s h L im st, open_after s h L im = Ok st -> img st = im.
Proof.
  intros s h L im st. unfold open_after. cbv zeta. step. step.
  match goal with |- rbind ?m _ = _ -> _ => destruct m as [[ids difat0]| | |] end; norm; kill.
  step. step.
  match goal with |- rbind ?m _ = _ -> _ => destruct m as [fat0| | |] end; norm; kill.
  match goal with |- rbind ?m _ = _ -> _ => destruct m as [[fat4 free]| | |] end; norm; kill.
  match goal with |- rbind ?m _ = _ -> _ => destruct m as [ds| | |] end; norm; kill.
  match goal with |- rbind ?m _ = _ -> _ => destruct m as [u| | |] end; norm; kill.
  match goal with |- rbind ?m _ = _ -> _ => destruct m as [[c s1]| | |] end; norm; kill.
  step.
  match goal with |- rbind ?m _ = _ -> _ => destruct m as [[[c2 mbytes] s2]| | |] end; norm; kill.
  destruct ds as [|root dt]; kill.
  match goal with |- rbind ?m _ = _ -> _ => destruct m as [[mf mfree]| | |] end; norm; kill.
  intro E. injection E as <-. reflexivity.
Qed.

(* the states we compare: every table equal, the image equal from its second element on *)
Definition hdr_swapped (st st' : cstate) : Prop := exists sec', st' = w_img st (swi 0 sec' (img st)).

(* ---- deviation 1': the directory-sector count ---- *)
(* version 3: must be zero for open_strict; open ignores it *)
Theorem tolerated_v3_num_dir_image : forall b st g,
  open_model true b = Ok st -> ver st = V3 -> lenN g = 4 -> le_val g <> 0 ->
  let b' := spliceN b 40 g in
  open_model true b' = Err EInvalidData /\
  exists st', open_model false b' = Ok st' /\ hdr_swapped st st'.
Proof.
  intros b st g Hopen Hver Hg Hnz b'.
  destruct (open_strict_parts _ _ _ Hopen) as (h & H512 & Hh & Ha).
  destruct (open_after_ver_img _ _ _ _ Ha) as (Hv & Hi & HslL).
  pose proof (sector_len_ge (h_ver h)) as Hsl.
  assert (Hle : 40 + lenN g <= lenN b) by lia.
  assert (Hlen : lenN b' = lenN b) by (apply lenN_splice; exact Hle).
  assert (Hdrop : dropN (sector_len (h_ver h)) b' = dropN (sector_len (h_ver h)) b)
    by (apply dropN_splice_before; lia).
  assert (Htk : takeN 512 b' = spliceN (takeN 512 b) 40 g) by (apply takeN_splice_comm; lia).
  rewrite Hver in Hv. symmetry in Hv.
  destruct (tolerated_v3_num_dir _ _ _ Hh Hv Hg Hnz) as [Hp Hs]. unfold HDR_OFF_NUM_DIR in Hp, Hs.
  split.
  - rewrite open_model_after. unfold HEADER_LEN. replace (lenN b' <? 512) with false by lia.
    rewrite Htk, Hs. reflexivity.
  - eexists. split.
    + eapply (image_frame_perm b b' st h h); try eassumption.
      * repeat split.
      * rewrite Htk. exact Hp.
      * left. reflexivity.
    + eexists. reflexivity.
Qed.

(* version 4: open ignores it; open_strict only refuses a count SMALLER than the number of
   directory sectors it walks, so any larger value is accepted by both *)
Theorem v4_num_dir_image : forall b st g,
  open_model true b = Ok st -> ver st = V4 -> lenN g = 4 ->
  let b' := spliceN b 40 g in
  (exists st', open_model false b' = Ok st' /\ hdr_swapped st st') /\
  (u32_at b 40 <= le_val g -> exists st', open_model true b' = Ok st' /\ hdr_swapped st st').
Proof.
  intros b st g Hopen Hver Hg b'.
  destruct (open_strict_parts _ _ _ Hopen) as (h & H512 & Hh & Ha).
  destruct (open_after_ver_img _ _ _ _ Ha) as (Hv & Hi & HslL).
  pose proof (sector_len_ge (h_ver h)) as Hsl.
  assert (Hle : 40 + lenN g <= lenN b) by lia.
  assert (Hlen : lenN b' = lenN b) by (apply lenN_splice; exact Hle).
  assert (Hdrop : dropN (sector_len (h_ver h)) b' = dropN (sector_len (h_ver h)) b)
    by (apply dropN_splice_before; lia).
  assert (Htk : takeN 512 b' = spliceN (takeN 512 b) 40 g) by (apply takeN_splice_comm; lia).
  rewrite Hver in Hv. symmetry in Hv.
  destruct (header_fields _ _ _ Hh) as (_ & _ & _ & Fnd). specialize (Fnd Hv).
  rewrite u32_at_header in Fnd by lia.
  split.
  - eexists. split.
    + eapply (image_frame_perm b b' st h (set_nd h (le_val g))); try eassumption.
      * repeat split.
      * rewrite Htk. apply decode_patch_nd_v4; try assumption. apply header_decode_strict_perm. exact Hh.
      * left. reflexivity.
    + eexists. reflexivity.
  - intro Hge. eexists. split.
    + eapply (image_frame_same_mode true b b' st h (set_nd h (le_val g))); try eassumption; try reflexivity.
      * rewrite Htk. apply decode_patch_nd_v4; assumption.
      * repeat split.
      * right. cbn [set_nd h_num_dir]. lia.
    + rewrite <- Hi. eexists. reflexivity.
Qed.

(* ---- deviation 2: FREE_SECTOR in the header's first-DIFAT-sector field of a file without
   DIFAT sectors: read as END_OF_CHAIN by the header decoder in BOTH modes, so open and
   open_strict both accept it, with the same tables ---- *)
Theorem first_difat_free_image : forall s b st,
  open_model s b = Ok st -> u32_at b 68 = END_OF_CHAIN ->
  let b' := spliceN b 68 (le_bytes 4 FREE_SECTOR) in
  exists st', open_model s b' = Ok st' /\ hdr_swapped st st'.
Proof.
  intros s b st Hopen Hfd b'.
  destruct (open_strict_parts _ _ _ Hopen) as (h & H512 & Hh & Ha).
  pose proof (open_after_img _ _ _ _ _ Ha) as Hi.
  pose proof (sector_len_ge (h_ver h)) as Hsl.
  assert (HslL : sector_len (h_ver h) <= lenN b).
  { revert Ha. unfold open_after. cbv zeta. step. step. intros _.
    match goal with H : (_ <? _) = false |- _ => apply N.ltb_ge in H; exact H end. }
  assert (Hg : lenN (le_bytes 4 FREE_SECTOR) = 4) by reflexivity.
  assert (Hle : 68 + lenN (le_bytes 4 FREE_SECTOR) <= lenN b) by lia.
  assert (Hlen : lenN b' = lenN b) by (apply lenN_splice; exact Hle).
  assert (Hdrop : dropN (sector_len (h_ver h)) b' = dropN (sector_len (h_ver h)) b)
    by (apply dropN_splice_before; lia).
  assert (Htk : takeN 512 b' = spliceN (takeN 512 b) 68 (le_bytes 4 FREE_SECTOR)) by (apply takeN_splice_comm; lia).
  assert (Hfdh : h_first_difat h = END_OF_CHAIN).
  { revert Hh. unfold header_decode. repeat step; intros Hk; injection Hk as <-; cbn [h_first_difat];
      rewrite u32_at_header by lia; rewrite Hfd; reflexivity. }
  pose proof (tolerated_first_difat_free _ _ _ Hh Hfdh) as Hh'. unfold HDR_OFF_FIRST_DIFAT in Hh'.
  eexists. split.
  - eapply (image_frame_same_mode s b b' st h h); try eassumption; try reflexivity.
    + rewrite Htk. exact Hh'.
    + repeat split.
    + right. lia.
  - rewrite <- Hi. eexists. reflexivity.
Qed.

(* ================================================================== *)
(* 8. the abstraction function does not read element [j] of the image   *)
(*    when no chain of the FAT can pass through sector j - 1             *)
(* ================================================================== *)
Section AbsFrame.
Variable j : N.
Variable sec' : list byte.

Definition FrP {A} (m : M A) (s : cstate) (P : A -> Prop) : Prop :=
  exists r, m s = (s, r) /\ m (swp j sec' s) = (swp j sec' s, r) /\ (forall a, r = Ok a -> P a).

Lemma Fr_FrP : forall A (m : M A) s, Fr j sec' m s -> FrP m s (fun _ => True).
Proof. intros A m s (r & H1 & H2). exists r. repeat split; assumption. Qed.

Lemma FrP_Fr : forall A (m : M A) s P, FrP m s P -> Fr j sec' m s.
Proof. intros A m s P (r & H1 & H2 & _). exists r. split; assumption. Qed.

Lemma FrP_weaken : forall A (m : M A) s (P Q : A -> Prop), FrP m s P -> (forall a, P a -> Q a) -> FrP m s Q.
Proof. intros A m s P Q (r & H1 & H2 & H3) HPQ. exists r. repeat split; try assumption. intros a E. apply HPQ, H3, E. Qed.

Lemma FrP_ret : forall A (a : A) s (P : A -> Prop), P a -> FrP (State.ret a) s P.
Proof. intros. eexists. repeat split. intros a0 E. injection E as <-. assumption. Qed.
Lemma FrP_fail : forall A k s (P : A -> Prop), FrP (State.fail k) s P.
Proof. intros. eexists. repeat split. intros; discriminate. Qed.
Lemma FrP_panic : forall A k s (P : A -> Prop), FrP (State.panic k) s P.
Proof. intros. eexists. repeat split. intros; discriminate. Qed.
Lemma FrP_oof : forall A s (P : A -> Prop), FrP State.out_of_fuel s P.
Proof. intros. eexists. repeat split. intros; discriminate. Qed.

Lemma FrP_bind : forall A B (m : M A) (f : A -> M B) s (P : A -> Prop) (Q : B -> Prop),
  FrP m s P -> (forall a, P a -> FrP (f a) s Q) -> FrP (State.bind m f) s Q.
Proof.
  intros A B m f s P Q (r & H1 & H2 & HP) Hf. unfold FrP, State.bind. rewrite H1, H2.
  destruct r as [a| | |]; try (eexists; repeat split; intros; discriminate).
  apply Hf. apply HP. reflexivity.
Qed.

Lemma FrP_get_bind : forall A (f : cstate -> M A) s P,
  f (swp j sec' s) = f s -> FrP (f s) s P -> FrP (State.bind State.get f) s P.
Proof.
  intros A f s P E (r & H1 & H2 & H3). exists r. unfold State.bind, State.get. rewrite E. repeat split; assumption.
Qed.

Variable s : cstate.
Hypothesis Hs : forall sid nx, next_of (fat s) sid = Ok nx -> sid + 1 <> j.

Lemma chain_avoid : forall start ids, chain_ids_of (fat s) start = Ok ids -> forall x, In x ids -> x + 1 <> j.
Proof.
  intros start ids H x Hx. apply WalkProofs.chain_ids_path in H.
  destruct (path_nodes_next _ _ _ H x Hx) as [nx Hn]. eapply Hs. exact Hn.
Qed.

Lemma chain_new_FrP : forall start i,
  FrP (chain_new start i) s (fun c => forall x, In x (c_ids c) -> x + 1 <> j).
Proof.
  intros. unfold FrP, chain_new, State.bind, State.get, State.lift, State.ret. cbn [fat swp w_img].
  destruct (chain_ids_of (fat s) start) as [ids| | |] eqn:E; eexists; repeat split; try (intros; discriminate).
  intros a Ea. injection Ea as <-. cbn [c_ids]. eapply chain_avoid. exact E.
Qed.

Lemma chain_seek_FrP : forall c pos, FrP (chain_seek c pos) s (fun c' => c_ids c' = c_ids c).
Proof.
  intros. unfold chain_seek. apply FrP_get_bind; [reflexivity|].
  destruct (chain_len (slen s) c <? pos); [apply FrP_fail|apply FrP_ret; reflexivity].
Qed.

Lemma dir_entry_FrP : forall id, FrP (dir_entry id) s (fun _ => True).
Proof.
  intros. unfold dir_entry. apply FrP_get_bind; [reflexivity|].
  destruct (nthN (dirs s) id); [apply FrP_ret; exact I|apply FrP_panic].
Qed.

Lemma stream_entry_FrP : forall id, FrP (stream_entry id) s (fun _ => True).
Proof.
  intros. unfold stream_entry. eapply FrP_bind; [apply dir_entry_FrP|]. intros e _.
  destruct (negb (objtype_eqb (d_type e) TStream)); [apply FrP_fail|apply FrP_ret; exact I].
Qed.

Lemma mchain_new_FrP : forall start, FrP (mchain_new start) s (fun _ => True).
Proof.
  intros. unfold FrP, mchain_new, State.bind, State.get, State.lift, State.ret. cbn [minifat swp w_img].
  destruct (chain_ids_of (minifat s) start); eexists; repeat split; intros; discriminate || exact I.
Qed.

Lemma mchain_seek_FrP : forall c pos, FrP (mchain_seek c pos) s (fun _ => True).
Proof.
  intros. unfold mchain_seek. destruct (mchain_len c <? pos); [apply FrP_fail|apply FrP_ret; exact I].
Qed.

Lemma mini_locate_FrP : forall ms off, FrP (mini_locate ms off) s (fun so => fst so + 1 <> j).
Proof.
  intros. unfold mini_locate. destruct (MINI_SECTOR_LEN <=? off); [apply FrP_panic|].
  eapply FrP_bind; [apply dir_entry_FrP|]. intros r _.
  eapply FrP_bind; [apply chain_new_FrP|]. intros c Hc.
  apply FrP_get_bind; [reflexivity|]. cbv zeta.
  destruct (nthN (c_ids c) (ms / (slen s / MINI_SECTOR_LEN))) as [sid|] eqn:E; [|apply FrP_fail].
  eapply FrP_bind; [apply Fr_FrP, seek_sector_Fr|]. intros _ _.
  apply FrP_ret. cbn [fst]. apply Hc. eapply ChainProofs.nthN_In. exact E.
Qed.

Lemma mchain_read_go_FrP : forall fuel c n acc, FrP (mchain_read_go fuel c n acc) s (fun _ => True).
Proof.
  induction fuel as [|f IH]; intros c n acc; cbn [mchain_read_go]; [apply FrP_oof|].
  destruct (n =? 0); [apply FrP_ret; exact I|]. cbv zeta.
  destruct (mchain_len c <? mc_off c); [apply FrP_panic|].
  destruct (N.min n (mchain_len c - mc_off c) =? 0); [apply FrP_fail|].
  destruct (nthN (mc_ids c) (mc_off c / MINI_SECTOR_LEN)) as [ms|]; [|apply FrP_panic].
  eapply FrP_bind; [apply mini_locate_FrP|]. intros [sid o] Hso. cbn [fst] in Hso.
  eapply FrP_bind; [apply Fr_FrP, sector_read_exact_Fr; exact Hso|]. intros bs _. apply IH.
Qed.

Lemma read_data_FrP : forall id off buflen, FrP (read_data id off buflen) s (fun _ => True).
Proof.
  intros. unfold read_data. eapply FrP_bind; [apply stream_entry_FrP|]. intros [start len] _.
  destruct ((if len <=? off then 0 else N.min (len - off) buflen) =? 0); [apply FrP_ret; exact I|].
  destruct (len <? MINI_STREAM_CUTOFF).
  - eapply FrP_bind; [apply mchain_new_FrP|]. intros c _.
    eapply FrP_bind; [apply mchain_seek_FrP|]. intros c1 _.
    eapply FrP_bind; [apply mchain_read_go_FrP|]. intros [c2 bs] _. apply FrP_ret. exact I.
  - eapply FrP_bind; [apply chain_new_FrP|]. intros c Hc.
    eapply FrP_bind; [apply chain_seek_FrP|]. intros c1 Hc1.
    eapply FrP_bind; [apply Fr_FrP, chain_read_exact_Fr; rewrite Hc1; exact Hc|].
    intros [c2 bs] _. apply FrP_ret. exact I.
Qed.

Lemma stream_bytes_swp : forall id len, stream_bytes (swp j sec' s) id len = stream_bytes s id len.
Proof.
  intros. unfold stream_bytes. destruct (read_data_FrP id 0 len) as (r & H1 & H2 & _).
  rewrite H1, H2. reflexivity.
Qed.

Lemma abs_sibs_swp : forall fuel id, abs_sibs fuel (swp j sec' s) id = abs_sibs fuel s id.
Proof.
  induction fuel as [|f IH]; intro id; [reflexivity|]. cbn [abs_sibs].
  destruct (id =? NO_STREAM); [reflexivity|].
  change (dirs (swp j sec' s)) with (dirs s).
  destruct (dir_entry_of (dirs s) id) as [e| | |]; cbn [rbind]; try reflexivity.
  rewrite !IH, stream_bytes_swp. reflexivity.
Qed.

Theorem abs_state_swp : abs_state (swp j sec' s) = abs_state s.
Proof.
  unfold abs_state. change (dirs (swp j sec' s)) with (dirs s).
  destruct (dir_entry_of (dirs s) ROOT_STREAM_ID) as [e| | |]; cbn [rbind]; try reflexivity.
  rewrite abs_sibs_swp. reflexivity.
Qed.
End AbsFrame.

Theorem abs_state_hdr_swapped : forall st st', hdr_swapped st st' -> abs_state st' = abs_state st.
Proof.
  intros st st' [sec' ->]. apply (abs_state_swp 0 sec' st). intros; apply plus1_ne0.
Qed.

(* ================================================================== *)
(* 9. well-formed images: same logical content                          *)
(* ================================================================== *)
Lemma abs_open_of_swapped : forall s b' st st' t,
  open_model s b' = Ok st' -> hdr_swapped st st' -> abs_state st = Ok t -> abs_open s b' = Some t.
Proof.
  intros s b' st st' t Ho Hsw Ha. unfold abs_open. rewrite Ho, (abs_state_hdr_swapped _ _ Hsw), Ha. reflexivity.
Qed.

Lemma wf_opened_abs : forall b, wf_check b = 0 -> bytes_ok b = true ->
  exists c t, wf_cert_ok b c /\ open_model true b = Ok (opened b c (ck_dirents b c)) /\
              abs_state (opened b c (ck_dirents b c)) = Ok t /\ logical b = Some t.
Proof.
  intros b H Hb. destruct (wf_open_opened b H Hb) as (c & Hok & E).
  destruct (wf_abs_logical_cert b c Hok) as (t & Ha & Hl). exists c, t.
  split; [exact Hok|]. split; [exact E|]. split; [exact Ha|exact Hl].
Qed.

(* 1. wrong number of FAT / MiniFAT / DIFAT sectors in the header *)
Theorem wf_tolerated_header_count : forall b off g,
  wf_check b = 0 -> bytes_ok b = true -> count_off off -> lenN g = 4 -> le_val g <> u32_at b off ->
  (off = 44 -> u32_at b 44 <= NUM_DIFAT_HDR) ->
  let b' := spliceN b off g in
  open_model true b' = Err EInvalidData /\ abs_open false b' = logical b /\ logical b <> None.
Proof.
  intros b off g H Hb Hoff Hg Hne Hz b'.
  destruct (wf_opened_abs b H Hb) as (c & t & Hok & Ho & Ha & Hl).
  destruct (tolerated_header_count b _ off g Ho Hoff Hg Hne) as [Hs Hp].
  { intro E. left. cbn [difat opened]. rewrite <- (ff_num_fat _ _ _ _ (co_fat _ _ Hok)). apply Hz. exact E. }
  split; [exact Hs|]. rewrite Hl. split; [|discriminate].
  eapply abs_open_of_swapped; [exact Hp| |exact Ha]. eexists. reflexivity.
Qed.

(* 1'. a non-zero number of directory sectors in a version-3 header *)
Theorem wf_tolerated_v3_num_dir : forall b g,
  wf_check b = 0 -> bytes_ok b = true -> u16_at b 26 = 3 -> lenN g = 4 -> le_val g <> 0 ->
  let b' := spliceN b 40 g in
  open_model true b' = Err EInvalidData /\ abs_open false b' = logical b /\ logical b <> None.
Proof.
  intros b g H Hb Hv Hg Hnz b'.
  destruct (wf_opened_abs b H Hb) as (c & t & Hok & Ho & Ha & Hl).
  assert (Hver : ver (opened b c (ck_dirents b c)) = V3).
  { cbn [ver opened]. unfold ver_of, vnum_of. rewrite Hv. reflexivity. }
  destruct (tolerated_v3_num_dir_image b _ g Ho Hver Hg Hnz) as [Hs (st' & Hp & Hsw)].
  split; [exact Hs|]. rewrite Hl. split; [|discriminate].
  eapply abs_open_of_swapped; eassumption.
Qed.

(* 1''. version 4: any directory-sector count is accepted by open, and any count that is not
   smaller than the true one also by open_strict *)
Theorem wf_v4_num_dir : forall b g,
  wf_check b = 0 -> bytes_ok b = true -> u16_at b 26 = 4 -> lenN g = 4 ->
  let b' := spliceN b 40 g in
  abs_open false b' = logical b /\ (u32_at b 40 <= le_val g -> abs_open true b' = logical b) /\ logical b <> None.
Proof.
  intros b g H Hb Hv Hg b'.
  destruct (wf_opened_abs b H Hb) as (c & t & Hok & Ho & Ha & Hl).
  assert (Hver : ver (opened b c (ck_dirents b c)) = V4).
  { cbn [ver opened]. unfold ver_of, vnum_of. rewrite Hv. reflexivity. }
  destruct (v4_num_dir_image b _ g Ho Hver Hg) as [(st' & Hp & Hsw) Hstrict].
  rewrite Hl. split; [|split; [|discriminate]].
  - eapply abs_open_of_swapped; eassumption.
  - intro Hge. destruct (Hstrict Hge) as (st2 & Hp2 & Hsw2). eapply abs_open_of_swapped; eassumption.
Qed.

(* 2. FREE_SECTOR in place of END_OF_CHAIN in the header's first-DIFAT-sector field *)
Theorem wf_first_difat_free : forall s b,
  wf_check b = 0 -> bytes_ok b = true -> u32_at b 68 = END_OF_CHAIN ->
  let b' := spliceN b 68 (le_bytes 4 FREE_SECTOR) in
  abs_open s b' = logical b /\ logical b <> None /\ wf_check b' <> 0.
Proof.
  intros s b H Hb Hfd b'.
  destruct (wf_opened_abs b H Hb) as (c & t & Hok & Ho & Ha & Hl).
  assert (Hos : open_model s b = Ok (opened b c (ck_dirents b c))).
  { destruct s; [exact Ho|apply strict_implies_permissive; exact Ho]. }
  destruct (first_difat_free_image s b _ Hos Hfd) as (st' & Hp & Hsw).
  rewrite Hl. split; [eapply abs_open_of_swapped; eassumption|]. split; [discriminate|].
  (* the checker refuses it: rule 10 or an earlier one *)
  intro Hwf. destruct (wf_certificate b' Hwf) as [c' Hok'].
  pose proof (wf_size_ok b' Hwf) as Hsz.
  apply (first_difat_not_free b' _ _ (co_mod _ _ Hok') (co_len _ _ Hok') Hsz (co_difat _ _ Hok')).
  destruct (wf_inv_header b H) as (H512 & _). unfold HEADER_LEN in H512.
  unfold b', u32_at. rewrite (win_splice_at b 68 (le_bytes 4 FREE_SECTOR) 4); [reflexivity| |reflexivity].
  change (lenN (le_bytes 4 FREE_SECTOR)) with 4. lia.
Qed.

(* ================================================================== *)
(* 10. the header deviations by evaluation, on images written by the     *)
(*     model (storages, mini and regular streams, two directory sectors)  *)
(* ================================================================== *)
Module HeaderExamples.
  Definition b3 := WfOpenExample.imgs V3.
  Definition b4 := WfOpenExample.imgs V4.
  Definition p32 (off v : N) (b : list byte) : list byte := spliceN b off (le_bytes 4 v).
  Definition tolerated (b b' : list byte) : Prop :=
    open_model true b' = Err EInvalidData /\ abs_open false b' = logical b /\ logical b <> None.

  Example base_fields :
    map (u32_at b3) [40; 44; 64; 68; 72] = [0; 1; 1; END_OF_CHAIN; 0] /\
    map (u32_at b4) [40; 44; 64; 68; 72] = [1; 1; 1; END_OF_CHAIN; 0].
  Proof. vm_compute. split; reflexivity. Qed.

  Example num_fat_v3 : tolerated b3 (p32 44 7 b3).   Proof. vm_compute. repeat split; discriminate. Qed.
  Example num_fat_v4 : tolerated b4 (p32 44 0 b4).   Proof. vm_compute. repeat split; discriminate. Qed.
  Example num_minifat_v3 : tolerated b3 (p32 64 0 b3). Proof. vm_compute. repeat split; discriminate. Qed.
  Example num_minifat_v4 : tolerated b4 (p32 64 9 b4). Proof. vm_compute. repeat split; discriminate. Qed.
  Example num_difat_v3 : tolerated b3 (p32 72 1 b3). Proof. vm_compute. repeat split; discriminate. Qed.
  Example num_difat_v4 : tolerated b4 (p32 72 3 b4). Proof. vm_compute. repeat split; discriminate. Qed.
  Example num_dir_v3 : tolerated b3 (p32 40 2 b3).   Proof. vm_compute. repeat split; discriminate. Qed.
  (* version 4: too small a count is refused by open_strict, too large a count is not *)
  Example num_dir_v4_small : tolerated b4 (p32 40 0 b4). Proof. vm_compute. repeat split; discriminate. Qed.
  Example num_dir_v4_large :
    abs_open true (p32 40 7 b4) = logical b4 /\ abs_open false (p32 40 7 b4) = logical b4 /\
    wf_check (p32 40 7 b4) = 24.
  Proof. vm_compute. repeat split. Qed.
  (* FREE_SECTOR as first DIFAT sector: accepted in both modes, refused by the checker *)
  Example first_difat_free :
    abs_open true (p32 68 FREE_SECTOR b3) = logical b3 /\ abs_open false (p32 68 FREE_SECTOR b3) = logical b3 /\
    abs_open true (p32 68 FREE_SECTOR b4) = logical b4 /\ wf_check (p32 68 FREE_SECTOR b3) = 10.
  Proof. vm_compute. repeat split. Qed.
  (* the same by the theorems *)
  Example num_fat_v3_thm : tolerated b3 (p32 44 7 b3).
  Proof.
    apply (wf_tolerated_header_count b3 44 (le_bytes 4 7)).
    - exact (proj1 WfOpenExample.premises_v3).
    - exact (proj2 WfOpenExample.premises_v3).
    - left. reflexivity.
    - reflexivity.
    - vm_compute. discriminate.
    - intros _. vm_compute. discriminate.
  Qed.
End HeaderExamples.

(* ================================================================== *)
(* 11. Allocator::validate: what strict success means, the permissive    *)
(*     in-memory repair, and the strict refusal                           *)
(* ================================================================== *)
Lemma mark_sectors_strict_marked : forall m ids l l', mark_sectors true m ids l = Ok l' ->
  forall i, In i ids -> nthN l i = Some m.
Proof.
  intros m ids. induction ids as [|i t IH]; intros l l' H k Hk; [destruct Hk|].
  cbn [mark_sectors] in H. destruct (nthN l i) as [v|] eqn:Hn; [|discriminate].
  rewrite andb_true_r in H. destruct (negb (v =? m)) eqn:Hv; [discriminate|].
  apply negb_false_iff, N.eqb_eq in Hv. subst v. rewrite (updN_same _ _ _ Hn) in H.
  destruct Hk as [<-|Hk]; [exact Hn|]. eapply IH; eassumption.
Qed.

Lemma alloc_validate_strict_inv : forall ns ids difat l fat4 free,
  alloc_validate true ns ids difat l = Ok (fat4, free) ->
  fat4 = l /\ free = free_indices l 0 /\ lenN l <= ns /\
  (forall i, In i ids -> nthN l i = Some DIFAT_SECTOR) /\
  (forall i, In i difat -> nthN l i = Some FAT_SECTOR) /\
  check_pointees false l (lenN l) [] = Ok tt.
Proof.
  intros ns ids difat l fat4 free H. pose proof (alloc_validate_len _ _ _ _ _ _ H) as Hlen.
  unfold alloc_validate in H. destruct (ns <? lenN l); [discriminate|].
  destruct (mark_sectors true DIFAT_SECTOR ids l) as [l1| | |] eqn:H1; cbn [rbind] in H; try discriminate.
  pose proof (mark_sectors_strict_marked _ _ _ _ H1) as M1.
  apply mark_sectors_strict_id in H1. subst l1.
  destruct (mark_sectors true FAT_SECTOR difat l) as [l2| | |] eqn:H2; cbn [rbind] in H; try discriminate.
  pose proof (mark_sectors_strict_marked _ _ _ _ H2) as M2.
  apply mark_sectors_strict_id in H2. subst l2.
  destruct (check_pointees false l (lenN l) []) as [[]| | |] eqn:H3; cbn [rbind] in H; try discriminate.
  injection H as <- <-. repeat split; assumption.
Qed.

Lemma mark_perm : forall m ids fat l, lenN l = lenN fat -> (forall i, In i ids -> nthN fat i = Some m) ->
  exists l', mark_sectors false m ids l = Ok l' /\ lenN l' = lenN fat /\
             (forall i, In i ids -> nthN l' i = nthN fat i) /\ (forall i, ~ In i ids -> nthN l' i = nthN l i).
Proof.
  intros m ids fat. induction ids as [|i t IH]; intros l Hlen Hm.
  - exists l. split; [reflexivity|]. split; [exact Hlen|]. split; [intros i []|reflexivity].
  - cbn [mark_sectors].
    assert (Hi : i < lenN l).
    { rewrite Hlen. eapply WalkProofs.nthN_Some_lt. apply Hm. left. reflexivity. }
    destruct (nthN_some _ _ Hi) as [v Hv]. rewrite Hv, andb_false_r.
    destruct (IH (updN l i m)) as (l' & H1 & H2 & H3 & H4).
    { rewrite ChainProofs.lenN_updN. exact Hlen. }
    { intros k Hk. apply Hm. right. exact Hk. }
    exists l'. split; [exact H1|]. split; [exact H2|]. split.
    + intros k Hk. destruct (in_dec N.eq_dec k t) as [Hin|Hnin]; [apply H3; exact Hin|].
      destruct Hk as [<-|Hk]; [|contradiction].
      rewrite H4 by exact Hnin. rewrite ChainProofs.nthN_updN_same by exact Hi. symmetry. apply Hm. left. reflexivity.
    + intros k Hk. rewrite H4 by (intro; apply Hk; right; assumption).
      apply ChainProofs.nthN_updN_other. intros ->. apply Hk. left. reflexivity.
Qed.

Lemma optN_dec : forall a b : option N, {a = b} + {a <> b}.
Proof. decide equality. apply N.eq_dec. Qed.

Theorem alloc_validate_perm_repair : forall ns ids difat fat l,
  lenN fat <= ns -> lenN l = lenN fat ->
  (forall i, In i ids -> nthN fat i = Some DIFAT_SECTOR) ->
  (forall i, In i difat -> nthN fat i = Some FAT_SECTOR) ->
  check_pointees false fat (lenN fat) [] = Ok tt ->
  (forall i, nthN l i <> nthN fat i -> In i ids \/ In i difat) ->
  alloc_validate false ns ids difat l = Ok (fat, free_indices fat 0).
Proof.
  intros ns ids difat fat l Hns Hlen M1 M2 Hcp Hdiff. unfold alloc_validate.
  replace (ns <? lenN l) with false by lia.
  destruct (mark_perm DIFAT_SECTOR ids fat l Hlen M1) as (l1 & E1 & L1 & A1 & B1). rewrite E1. cbn [rbind].
  destruct (mark_perm FAT_SECTOR difat fat l1 L1 M2) as (l2 & E2 & L2 & A2 & B2). rewrite E2. cbn [rbind].
  assert (l2 = fat) as ->.
  { apply list_ext. intro i.
    destruct (in_dec N.eq_dec i difat) as [Hd|Hd]; [apply A2; exact Hd|]. rewrite B2 by exact Hd.
    destruct (in_dec N.eq_dec i ids) as [Hi|Hi]; [apply A1; exact Hi|]. rewrite B1 by exact Hi.
    destruct (optN_dec (nthN l i) (nthN fat i)) as [E|E]; [exact E|].
    destruct (Hdiff i E); contradiction. }
  rewrite Hcp. reflexivity.
Qed.

Lemma mark_strict_err : forall m ids l,
  (forall i, In i ids -> exists x, nthN l i = Some x) ->
  (exists f, In f ids /\ nthN l f <> Some m) ->
  mark_sectors true m ids l = Err EInvalidData.
Proof.
  intros m ids. induction ids as [|i t IH]; intros l Hr (f & Hf & Hne); [destruct Hf|].
  cbn [mark_sectors]. destruct (Hr i (or_introl eq_refl)) as [v Hv]. rewrite Hv, andb_true_r.
  destruct (N.eqb_spec v m) as [Evm|Hvm]; cbn [negb]; [|reflexivity].
  rewrite Evm in Hv. rewrite (updN_same _ _ _ Hv). apply IH.
  - intros k Hk. apply Hr. right. exact Hk.
  - destruct Hf as [Ef|Hf]; [subst f; contradiction|]. exists f. split; assumption.
Qed.

(* ---- trimming a tail ---- *)
Lemma strip_all_tail : forall (p : N -> bool) m a T, lenN a = m -> Forall (fun x => p x = true) T ->
  strip_last_while p m (a ++ T) = a.
Proof.
  intros p m a T Ha. induction T as [|x T IH] using rev_ind; intro HT.
  - rewrite app_nil_r. apply strip_short. lia.
  - apply Forall_app in HT. destruct HT as [HT Hx]. apply Forall_inv in Hx. rename Hx into Hpx.
    transitivity (strip_last_while p m (a ++ T)); [|apply IH; exact HT].
    rewrite !strip_popw. f_equal.
    rewrite app_assoc, rev_app_distr. cbn [rev app popw].
    replace (m <? lenN (x :: rev (a ++ T))) with true.
    2:{ symmetry. apply N.ltb_lt. cbn [lenN]. rewrite lenN_rev, lenN_app. lia. }
    rewrite Hpx. reflexivity.
Qed.

Lemma In_dropN_app : forall (S R : list N) k x, lenN S <= k -> In x (dropN k (S ++ R)) -> In x R.
Proof.
  intros S R k x Hk Hx. destruct (In_nthN _ _ _ Hx) as [i Hi].
  rewrite nthN_dropN, nthN_app in Hi. replace (k + i <? lenN S) with false in Hi by lia.
  eapply ChainProofs.nthN_In. exact Hi.
Qed.

Lemma strip_long : forall a T, (exists x, In x T /\ x <> FREE_SECTOR) ->
  lenN a < lenN (strip_last_while FREEP (lenN a) (a ++ T)).
Proof.
  intros a T (x & Hx & Hne).
  destruct (strip_shape FREEP (lenN a) (a ++ T)) as (R & HR & HF).
  set (S := strip_last_while FREEP (lenN a) (a ++ T)) in *.
  destruct (N.lt_ge_cases (lenN a) (lenN S)) as [Hlt|Hge]; [exact Hlt|]. exfalso.
  assert (HT : T = dropN (lenN a) (S ++ R)).
  { rewrite <- HR. apply list_ext. intro i. rewrite nthN_dropN, nthN_app.
    replace (lenN a + i <? lenN a) with false by lia. f_equal. lia. }
  rewrite HT in Hx. apply In_dropN_app in Hx; [|exact Hge].
  rewrite Forall_forall in HF. specialize (HF x Hx). unfold FREEP in HF. apply N.eqb_eq in HF. contradiction.
Qed.

(* ================================================================== *)
(* 12. one FAT sector of the image replaced                             *)
(* ================================================================== *)
Lemma fat_marker_no_next : forall fat g, nthN fat g = Some FAT_SECTOR ->
  forall sid nx, next_of fat sid = Ok nx -> sid + 1 <> g + 1.
Proof.
  intros fat g Hg sid nx Hn E. assert (sid = g) by lia. subst sid. unfold next_of in Hn. rewrite Hg in Hn.
  change (FAT_SECTOR =? END_OF_CHAIN) with false in Hn.
  change (MAX_REGULAR_SECTOR <? FAT_SECTOR) with true in Hn. cbn [negb andb orb] in Hn. discriminate.
Qed.

Lemma markers_differ : Some DIFAT_SECTOR <> Some FAT_SECTOR.
Proof. vm_compute. discriminate. Qed.

Theorem fat_sector_perm : forall h L im st g sec' fat0',
  open_after true h L im = Ok st ->
  nthN (fat st) g = Some FAT_SECTOR ->
  CoherenceProofs.read_fat_cells (swi (g + 1) sec' im) (sector_len (h_ver h)) (nsof h L) (difat st) = Ok fat0' ->
  lenN (fat3p_of (nsof h L) fat0') = lenN (fat st) ->
  (forall i, nthN (fat3p_of (nsof h L) fat0') i <> nthN (fat st) i -> In i (difat_ids st) \/ In i (difat st)) ->
  open_after false h L (swi (g + 1) sec' im) = Ok (w_img st (swi (g + 1) sec' im)).
Proof.
  intros h L im st g sec' fat0' Hopen Hg Hrd Hlen Hdiff.
  destruct (strict_run_inv _ _ _ _ Hopen) as (ids & difat0 & fat0 & fat4 & free & ds & c & mbytes & root & mf & mfree & R & ->).
  cbn [fat difat difat_ids] in *. destruct R.
  destruct (alloc_validate_strict_inv _ _ _ _ _ _ sr_alloc0) as (E4 & Efree & Hl3 & M1 & M2 & Hcp).
  rewrite <- E4 in Efree, Hl3, M1, M2, Hcp.
  pose proof (fat_marker_no_next _ _ Hg) as Hj.
  assert (Hids : forall x, In x ids -> x + 1 <> g + 1).
  { intros x Hx E. assert (x = g) by lia. subst x. rewrite (M1 g Hx) in Hg. exact (markers_differ Hg). }
  rewrite (open_after_perm_eval h L (swi (g + 1) sec' im) ids difat0 fat0' fat4 free ds c mbytes root mf mfree)
    with (difat2 := strip_last_while FREEP 0 difat0);
    [reflexivity|exact sr_big0|exact sr_small0| | |exact Hrd| | | |exact sr_cn0|exact sr_c0| |exact sr_root0|].
  - apply difat_loop_swi; [|exact Hids]. apply difat_loop_strict_perm. exact sr_difat0.
  - unfold FREEP in sr_nf0. rewrite (strip_zero_then_free NUM_DIFAT_HDR _ _ sr_nf0). reflexivity.
  - rewrite Efree. apply alloc_validate_perm_repair; assumption.
  - apply dir_loop_swi; [exact Hj|]. apply dir_loop_strict_perm. exact sr_dir0.
  - apply dir_validate_strict_perm. exact sr_dv0.
  - destruct sr_cr0 as (c2 & s2 & Hr). exists c2. eexists. rewrite s0_swp.
    eapply Fr_run; [|exact Hr]. apply chain_read_exact_Fr.
    apply (chain_avoid (g + 1) (s0_of h L im ids (strip_last_while FREEP 0 difat0) fat4 free ds) Hj _ _ sr_cn0).
  - apply mini_validate_strict_perm. exact sr_mv0.
Qed.

Theorem fat_sector_strict : forall h L im st g sec' fat0',
  open_after true h L im = Ok st ->
  nthN (fat st) g = Some FAT_SECTOR ->
  CoherenceProofs.read_fat_cells (swi (g + 1) sec' im) (sector_len (h_ver h)) (nsof h L) (difat st) = Ok fat0' ->
  (nsof h L < lenN (strip_last_while FREEP (nsof h L) fat0') \/
   (lenN (fat3_of (nsof h L) fat0') = lenN (fat st) /\
    (forall i, In i (difat_ids st) -> nthN (fat3_of (nsof h L) fat0') i = Some DIFAT_SECTOR) /\
    exists f, In f (difat st) /\ nthN (fat3_of (nsof h L) fat0') f <> Some FAT_SECTOR)) ->
  open_after true h L (swi (g + 1) sec' im) = Err EInvalidData.
Proof.
  intros h L im st g sec' fat0' Hopen Hg Hrd Hcase.
  destruct (strict_run_inv _ _ _ _ Hopen) as (ids & difat0 & fat0 & fat4 & free & ds & c & mbytes & root & mf & mfree & R & ->).
  cbn [fat difat difat_ids] in *. destruct R.
  destruct (alloc_validate_strict_inv _ _ _ _ _ _ sr_alloc0) as (E4 & Efree & Hl3 & M1 & M2 & Hcp).
  rewrite <- E4 in Efree, Hl3, M1, M2, Hcp.
  assert (Hids : forall x, In x ids -> x + 1 <> g + 1).
  { intros x Hx E. assert (x = g) by lia. subst x. rewrite (M1 g Hx) in Hg. exact (markers_differ Hg). }
  unfold open_after. cbv zeta. fold (nsof h L). rewrite sr_big0, sr_small0.
  rewrite (difat_loop_swi (g + 1) sec' _ _ _ _ _ _ _ _ _ _ sr_difat0) by exact Hids.
  cbn [rbind andb]. cbv beta iota. rewrite sr_nd0, N.eqb_refl. cbn [negb]. fold FREEP.
  rewrite sr_nf0, N.eqb_refl. cbn [negb].
  rewrite ReopenProofs.rd_eq, Hrd. cbn [rbind]. fold (fat3_of (nsof h L) fat0').
  unfold alloc_validate. destruct Hcase as [Hlong|(Hlen & Hd & f & Hf & Hne)].
  - replace (nsof h L <? lenN (fat3_of (nsof h L) fat0')) with true; [reflexivity|].
    symmetry. apply N.ltb_lt. unfold fat3_of. rewrite lenN_app. lia.
  - replace (nsof h L <? lenN (fat3_of (nsof h L) fat0')) with false by lia.
    rewrite (ReopenProofs.mark_sectors_id true DIFAT_SECTOR ids _ Hd). cbn [rbind].
    rewrite mark_strict_err; [reflexivity| |exists f; split; assumption].
    intros i Hi. apply nthN_some. rewrite Hlen. eapply WalkProofs.nthN_Some_lt. apply M2. exact Hi.
Qed.

(* ---- whole images ---- *)
Lemma open_after_fields : forall h L im st, open_after true h L im = Ok st ->
  ver st = h_ver h /\ img st = im /\ nsect st = nsof h L /\ lenN (fat st) = nsof h L /\
  (forall i, In i (difat_ids st) -> nthN (fat st) i = Some DIFAT_SECTOR) /\
  (forall i, In i (difat st) -> nthN (fat st) i = Some FAT_SECTOR).
Proof.
  intros h L im st H.
  destruct (strict_run_inv _ _ _ _ H) as (ids & difat0 & fat0 & fat4 & free & ds & c & mbytes & root & mf & mfree & R & ->).
  destruct R. cbn [ver img nsect fat difat difat_ids].
  destruct (alloc_validate_strict_inv _ _ _ _ _ _ sr_alloc0) as (E4 & Efree & Hl3 & M1 & M2 & Hcp).
  rewrite <- E4 in M1, M2. repeat split; try assumption.
  rewrite E4. unfold fat3_of in *. rewrite lenN_app in *. rewrite CodecProofs.lenN_repeatN in *. lia.
Qed.

Section FatSectorImage.
Variables (b b' : list byte) (st : cstate) (g : N) (sec' : list byte).
Hypothesis Hopen : open_model true b = Ok st.
Hypothesis Hlen : lenN b' = lenN b.
Hypothesis Hhdr : takeN 512 b' = takeN 512 b.
Hypothesis Hchunks : chunks (slen st) b' = swi (g + 1) sec' (img st).
Hypothesis Hg : nthN (fat st) g = Some FAT_SECTOR.

Lemma fsi_abs : abs_state (swp (g + 1) sec' st) = abs_state st.
Proof. apply abs_state_swp. apply fat_marker_no_next. exact Hg. Qed.

Lemma fsi_reduce : exists h, header_decode true (takeN 512 b) = Ok h /\
  open_after true h (lenN b) (img st) = Ok st /\ slen st = sector_len (h_ver h) /\ nsect st = nsof h (lenN b) /\
  forall s, open_model s b' = open_after s h (lenN b) (swi (g + 1) sec' (img st)).
Proof.
  destruct (open_strict_parts _ _ _ Hopen) as (h & H512 & Hh & Ha).
  destruct (open_after_fields _ _ _ _ Ha) as (Hv & Hi & Hn & _).
  exists h. split; [exact Hh|]. split; [rewrite Hi; exact Ha|].
  assert (Hsl : slen st = sector_len (h_ver h)) by (unfold slen; rewrite Hv; reflexivity).
  split; [exact Hsl|]. split; [exact Hn|].
  intro s. rewrite open_model_after. unfold HEADER_LEN. replace (lenN b' <? 512) with false by lia.
  rewrite Hhdr. replace (header_decode s (takeN 512 b)) with (Ok h).
  2:{ destruct s; [symmetry; exact Hh|symmetry; apply header_decode_strict_perm; exact Hh]. }
  cbn [rbind]. rewrite Hlen. pose proof Hchunks as Hc. rewrite Hsl in Hc. rewrite Hc. reflexivity.
Qed.

(* deviation 3: FAT entries beyond the last sector of the file that are 0 (or a FAT / DIFAT
   marker) instead of FREE_SECTOR *)
Theorem tolerated_fat_padding : forall T',
  CoherenceProofs.read_fat_cells (chunks (slen st) b') (slen st) (nsect st) (difat st) = Ok (fat st ++ T') ->
  Forall (fun x => WIDEP x = true) T' -> (exists x, In x T' /\ x <> FREE_SECTOR) ->
  open_model true b' = Err EInvalidData /\
  open_model false b' = Ok (swp (g + 1) sec' st) /\ abs_open false b' = abs_open true b.
Proof.
  intros T' Hrd HT Hnf. destruct fsi_reduce as (h & Hh & Ha & Hsl & Hns & Hb').
  destruct (open_after_fields _ _ _ _ Ha) as (_ & _ & _ & Hfl & M1 & M2).
  rewrite Hchunks, Hsl, Hns in Hrd.
  assert (Hp : open_model false b' = Ok (swp (g + 1) sec' st)).
  { rewrite Hb'. apply (fat_sector_perm h _ _ st g sec' (fat st ++ T') Ha Hg Hrd).
    - unfold fat3p_of. rewrite (strip_all_tail WIDEP _ _ _ Hfl HT).
      unfold fat3_of. rewrite strip_short by lia. rewrite Hfl, N.sub_diag. cbn. rewrite app_nil_r. exact Hfl.
    - intros i Hi. exfalso. apply Hi. unfold fat3p_of. rewrite (strip_all_tail WIDEP _ _ _ Hfl HT).
      unfold fat3_of. rewrite strip_short by lia. rewrite Hfl, N.sub_diag. cbn. rewrite app_nil_r. reflexivity. }
  split; [|split; [exact Hp|]].
  - rewrite Hb'. apply (fat_sector_strict h _ _ st g sec' (fat st ++ T') Ha Hg Hrd). left.
    rewrite <- Hfl. apply strip_long. exact Hnf.
  - unfold abs_open. rewrite Hp, Hopen, fsi_abs. reflexivity.
Qed.

(* deviation 4: a FAT sector whose own FAT entry does not carry the FAT-sector marker *)
Theorem tolerated_fat_unmarked : forall f v T,
  CoherenceProofs.read_fat_cells (chunks (slen st) b') (slen st) (nsect st) (difat st) = Ok (updN (fat st) f v ++ T) ->
  Forall (fun x => FREEP x = true) T -> In f (difat st) -> v <> FAT_SECTOR ->
  open_model true b' = Err EInvalidData /\
  open_model false b' = Ok (swp (g + 1) sec' st) /\ abs_open false b' = abs_open true b.
Proof.
  intros f v T Hrd HT Hf Hv. destruct fsi_reduce as (h & Hh & Ha & Hsl & Hns & Hb').
  destruct (open_after_fields _ _ _ _ Ha) as (_ & _ & _ & Hfl & M1 & M2).
  rewrite Hchunks, Hsl, Hns in Hrd.
  assert (Hul : lenN (updN (fat st) f v) = nsof h (lenN b)) by (rewrite ChainProofs.lenN_updN; exact Hfl).
  assert (HTw : Forall (fun x => WIDEP x = true) T).
  { eapply Forall_impl; [|exact HT]. intros a Ha'. unfold WIDEP, FREEP in *. rewrite Ha'. apply orb_true_r. }
  assert (E3 : fat3_of (nsof h (lenN b)) (updN (fat st) f v) = updN (fat st) f v).
  { unfold fat3_of. rewrite strip_short by lia. rewrite Hul, N.sub_diag. cbn. apply app_nil_r. }
  assert (Hp : open_model false b' = Ok (swp (g + 1) sec' st)).
  { rewrite Hb'. apply (fat_sector_perm h _ _ st g sec' _ Ha Hg Hrd).
    - unfold fat3p_of. rewrite (strip_all_tail WIDEP _ _ _ Hul HTw), E3. apply ChainProofs.lenN_updN.
    - intros i Hi. right. unfold fat3p_of in Hi. rewrite (strip_all_tail WIDEP _ _ _ Hul HTw), E3 in Hi.
      destruct (N.eq_dec i f) as [->|Hne]; [exact Hf|].
      exfalso. apply Hi. apply ChainProofs.nthN_updN_other. congruence. }
  split; [|split; [exact Hp|]].
  - rewrite Hb'. apply (fat_sector_strict h _ _ st g sec' _ Ha Hg Hrd). right.
    assert (E3s : fat3_of (nsof h (lenN b)) (updN (fat st) f v ++ T) = updN (fat st) f v).
    { unfold fat3_of at 1. rewrite (strip_all_tail FREEP _ _ _ Hul HT).
      rewrite Hul, N.sub_diag. cbn. apply app_nil_r. }
    rewrite E3s. split; [apply ChainProofs.lenN_updN|]. split.
    + intros i Hi. rewrite ChainProofs.nthN_updN_other; [apply M1; exact Hi|].
      intro E. subst i. specialize (M2 f Hf). rewrite (M1 f Hi) in M2. exact (markers_differ M2).
    + exists f. split; [exact Hf|].
      rewrite ChainProofs.nthN_updN_same; [congruence|].
      eapply WalkProofs.nthN_Some_lt. apply M2. exact Hf.
  - unfold abs_open. rewrite Hp, Hopen, fsi_abs. reflexivity.
Qed.
End FatSectorImage.

(* ================================================================== *)
(* 13. deviations 3, 4 (and 5) by evaluation and through the theorems     *)
(* ================================================================== *)
Module FatExamples.
  Import HeaderExamples.
  Definition st_of (b : list byte) : cstate :=
    match open_model true b with Ok st => st | _ => mkState V3 [] 0 [] [] [] [] [] 0 [] 0 [] end.
  Definition st3 := st_of b3.
  Definition st4 := st_of b4.
  Example open3 : open_model true b3 = Ok st3. Proof. vm_compute. reflexivity. Qed.
  Example open4 : open_model true b4 = Ok st4. Proof. vm_compute. reflexivity. Qed.
  (* both files: 1 FAT sector (sector 0), no DIFAT sector; 16 resp. 6 sectors; MiniFAT in sector 2
     with 30 entries in use and a mini stream of 30 mini sectors *)
  Example layout : (nsect st3, difat st3, difat_ids st3, lenN (minifat st3)) = (16, [0], [], 30) /\
                   (nsect st4, difat st4, difat_ids st4, lenN (minifat st4)) = (6, [0], [], 30).
  Proof. vm_compute. split; reflexivity. Qed.

  (* 3. zero-padded FAT: every FAT entry beyond the last sector of the file is 0 *)
  Definition pad3 := spliceN b3 (512 + 4 * 16) (repeatN 0 (4 * (128 - 16))).
  Definition pad4 := spliceN b4 (4096 + 4 * 6) (repeatN 0 (4 * (1024 - 6))).
  Example zero_padded_fat_v3 : tolerated b3 pad3. Proof. vm_compute. repeat split; discriminate. Qed.
  Example zero_padded_fat_v4 : tolerated b4 pad4. Proof. vm_compute. repeat split; discriminate. Qed.
  (* one entry only *)
  Example one_zero_entry_v3 : tolerated b3 (p32 (512 + 4 * 20) 0 b3). Proof. vm_compute. repeat split; discriminate. Qed.

  (* 4. the FAT sector's own entry is END_OF_CHAIN / FREE_SECTOR instead of FAT_SECTOR *)
  Example fat_sector_unmarked_eoc_v3 : tolerated b3 (p32 512 END_OF_CHAIN b3).
  Proof. vm_compute. repeat split; discriminate. Qed.
  Example fat_sector_unmarked_free_v3 : tolerated b3 (p32 512 FREE_SECTOR b3).
  Proof. vm_compute. repeat split; discriminate. Qed.
  Example fat_sector_unmarked_eoc_v4 : tolerated b4 (p32 4096 END_OF_CHAIN b4).
  Proof. vm_compute. repeat split; discriminate. Qed.
  Example fat_sector_unmarked_free_v4 : tolerated b4 (p32 4096 FREE_SECTOR b4).
  Proof. vm_compute. repeat split; discriminate. Qed.

  (* 5. over-long MiniFAT: an entry in use beyond the last mini sector of the mini stream
     (entry 30 of the MiniFAT in sector 2) *)
  Example overlong_minifat_v3 : tolerated b3 (p32 (512 * 3 + 4 * 30) END_OF_CHAIN b3).
  Proof. vm_compute. repeat split; discriminate. Qed.
  Example overlong_minifat_v4 : tolerated b4 (p32 (4096 * 3 + 4 * 30) END_OF_CHAIN b4).
  Proof. vm_compute. repeat split; discriminate. Qed.

  (* deviation 3 through the theorem: its hypotheses are checked by evaluation *)
  Definition sec3 := takeN 512 (dropN 512 pad3).
  Definition T3 : list N := repeatN 0 (128 - 16).
  Example zero_padded_fat_v3_thm :
    open_model true pad3 = Err EInvalidData /\ open_model false pad3 = Ok (swp 1 sec3 st3) /\
    abs_open false pad3 = abs_open true b3.
  Proof.
    apply (tolerated_fat_padding b3 pad3 st3 0 sec3 open3) with (T' := T3).
    - vm_compute. reflexivity.
    - vm_compute. reflexivity.
    - vm_compute. reflexivity.
    - vm_compute. reflexivity.
    - vm_compute. reflexivity.
    - apply Forall_forall. intros x Hx. assert (x = 0) as ->; [|reflexivity].
      revert x Hx. apply Forall_forall. vm_compute. repeat constructor.
    - exists 0. split; [vm_compute; left; reflexivity|discriminate].
  Qed.

  (* deviation 4 through the theorem *)
  Definition um3 := p32 512 END_OF_CHAIN b3.
  Definition secu3 := takeN 512 (dropN 512 um3).
  Example fat_sector_unmarked_v3_thm :
    open_model true um3 = Err EInvalidData /\ open_model false um3 = Ok (swp 1 secu3 st3) /\
    abs_open false um3 = abs_open true b3.
  Proof.
    apply (tolerated_fat_unmarked b3 um3 st3 0 secu3 open3) with (f := 0) (v := END_OF_CHAIN) (T := repeatN FREE_SECTOR (128 - 16)).
    - vm_compute. reflexivity.
    - vm_compute. reflexivity.
    - vm_compute. reflexivity.
    - vm_compute. reflexivity.
    - vm_compute. reflexivity.
    - apply Forall_forall. intros x Hx. assert (x = FREE_SECTOR) as ->; [|reflexivity].
      revert x Hx. apply Forall_forall. vm_compute. repeat constructor.
    - vm_compute. left. reflexivity.
    - discriminate.
  Qed.
End FatExamples.

(* ================================================================== *)
(* 14. the DIFAT chain ended by FREE_SECTOR (stage level): the last      *)
(*     DIFAT sector's next pointer is FREE_SECTOR instead of END_OF_CHAIN *)
(* ================================================================== *)
Theorem difat_chain_free_end : forall f strict im sl ns cur seen ids difat cells nx,
  cur <= MAX_REGULAR_SECTOR -> cur < ns -> memN cur seen = false ->
  read_difat_sector im sl cur = Ok cells ->
  check_difat_cells (takeN (sl / 4 - 1) cells) = Ok tt ->
  nthN cells (sl / 4 - 1) = Some nx ->
  (nx = END_OF_CHAIN ->
   difat_loop (S (S f)) strict im sl ns cur seen ids difat = Ok (ids ++ [cur], difat ++ takeN (sl / 4 - 1) cells)) /\
  (nx = FREE_SECTOR ->
   difat_loop (S (S f)) strict im sl ns cur seen ids difat =
   if strict then Err EInvalidData else Ok (ids ++ [cur], difat ++ takeN (sl / 4 - 1) cells)).
Proof.
  intros f strict im sl ns cur seen ids difat cells nx Hreg Hlt Hseen Hread Hchk Hnx.
  assert (E1 : (cur =? END_OF_CHAIN) || (cur =? FREE_SECTOR) = false).
  { apply orb_false_iff. split; apply N.eqb_neq; intro E; rewrite E in Hreg; vm_compute in Hreg; apply Hreg; reflexivity. }
  assert (E2 : (MAX_REGULAR_SECTOR <? cur) = false) by (apply N.ltb_ge; exact Hreg).
  assert (E3 : (ns <=? cur) = false) by (apply N.leb_gt; exact Hlt).
  split; intros ->; cbn [difat_loop]; rewrite E1, E2, E3, Hseen, Hread; cbn [rbind]; rewrite Hchk; cbn [rbind];
    rewrite Hnx.
  - change (END_OF_CHAIN =? FREE_SECTOR) with false. rewrite andb_false_r.
    change (END_OF_CHAIN =? END_OF_CHAIN) with true. cbn [orb]. reflexivity.
  - change (FREE_SECTOR =? FREE_SECTOR) with true. rewrite andb_true_r.
    destruct strict; [reflexivity|]. change (FREE_SECTOR =? END_OF_CHAIN) with false. cbn [orb]. reflexivity.
Qed.

(* ================================================================== *)
(* 15. deviations 3 and 4 for well-formed images: the logical content     *)
(* ================================================================== *)
Corollary wf_tolerated_fat_padding : forall b b' st g sec' T',
  wf_check b = 0 -> bytes_ok b = true -> open_model true b = Ok st ->
  lenN b' = lenN b -> takeN 512 b' = takeN 512 b -> chunks (slen st) b' = swi (g + 1) sec' (img st) ->
  nthN (fat st) g = Some FAT_SECTOR ->
  CoherenceProofs.read_fat_cells (chunks (slen st) b') (slen st) (nsect st) (difat st) = Ok (fat st ++ T') ->
  Forall (fun x => WIDEP x = true) T' -> (exists x, In x T' /\ x <> FREE_SECTOR) ->
  open_model true b' = Err EInvalidData /\ abs_open false b' = logical b /\ logical b <> None.
Proof.
  intros b b' st g sec' T' H Hb Ho Hl Hh Hc Hg Hrd HT Hnf.
  destruct (tolerated_fat_padding b b' st g sec' Ho Hl Hh Hc Hg T' Hrd HT Hnf) as (Hs & _ & Ha).
  destruct (abs_open_logical true b H Hb) as [E N0]. rewrite E in Ha. repeat split; assumption.
Qed.

Corollary wf_tolerated_fat_unmarked : forall b b' st g sec' f v T,
  wf_check b = 0 -> bytes_ok b = true -> open_model true b = Ok st ->
  lenN b' = lenN b -> takeN 512 b' = takeN 512 b -> chunks (slen st) b' = swi (g + 1) sec' (img st) ->
  nthN (fat st) g = Some FAT_SECTOR ->
  CoherenceProofs.read_fat_cells (chunks (slen st) b') (slen st) (nsect st) (difat st) = Ok (updN (fat st) f v ++ T) ->
  Forall (fun x => FREEP x = true) T -> In f (difat st) -> v <> FAT_SECTOR ->
  open_model true b' = Err EInvalidData /\ abs_open false b' = logical b /\ logical b <> None.
Proof.
  intros b b' st g sec' f v T H Hb Ho Hl Hh Hc Hg Hrd HT Hf Hv.
  destruct (tolerated_fat_unmarked b b' st g sec' Ho Hl Hh Hc Hg f v T Hrd HT Hf Hv) as (Hs & _ & Ha).
  destruct (abs_open_logical true b H Hb) as [E N0]. rewrite E in Ha. repeat split; assumption.
Qed.

(* ================================================================== *)
Check header_frame_perm.
Check header_frame_strict.
Check open_after_same_mode.
Check tolerated_header_count.
Check tolerated_v3_num_dir_image.
Check v4_num_dir_image.
Check first_difat_free_image.
Check abs_state_swp.
Check abs_state_hdr_swapped.
Check wf_tolerated_header_count.
Check wf_tolerated_v3_num_dir.
Check wf_v4_num_dir.
Check wf_first_difat_free.
Check alloc_validate_perm_repair.
Check fat_sector_perm.
Check fat_sector_strict.
Check tolerated_fat_padding.
Check tolerated_fat_unmarked.
Check difat_chain_free_end.
Print Assumptions tolerated_header_count.
Print Assumptions wf_tolerated_header_count.
Print Assumptions wf_tolerated_v3_num_dir.
Print Assumptions wf_v4_num_dir.
Print Assumptions wf_first_difat_free.
Print Assumptions abs_state_swp.
Print Assumptions tolerated_fat_padding.
Print Assumptions tolerated_fat_unmarked.
Print Assumptions difat_chain_free_end.
Print Assumptions wf_tolerated_fat_padding.
Print Assumptions wf_tolerated_fat_unmarked.
Print Assumptions FatExamples.zero_padded_fat_v3_thm.
Print Assumptions FatExamples.fat_sector_unmarked_v3_thm.
Print Assumptions FatExamples.overlong_minifat_v3.
Print Assumptions HeaderExamples.num_fat_v3_thm.
