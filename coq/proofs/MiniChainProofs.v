(* MiniChainProofs.v — a mini chain behaves as a byte array as long as no
   allocation is needed.  The mini stream is the content of the root entry's
   FAT chain; mini sector [ms] is the 64-byte window at [ms * 64] of it.
   mini_locate, mchain_read_exact, mchain_write_all (no extension),
   write-then-read, frame for disjoint mini chains, mchain_seek, EOF.
   Stdlib only; no axioms, no admits.  Reuses ChainProofs.v. *)
From Coq Require Import List NArith Lia Bool ZifyN ZifyBool.
From Cfb.model Require Import Base Names DirEnt State Alloc Dir Mini.
From Cfb.gen Require Import Consts.
From Cfb.proofs Require Import ChainProofs.
Import ListNotations.
Open Scope N_scope.

Ltac mred2 :=
  cbv beta iota zeta delta [bind get put modify ret fail panic lift out_of_fuel
                            c_off c_ids c_init chain_len
                            mc_ids mc_off mchain_len MINI_SECTOR_LEN].

(* ------------------------------------------------------------------ *)
(* definitions                                                         *)
(* ------------------------------------------------------------------ *)

Definition root_ids (s : cstate) (ids : list N) : Prop :=
  exists r, nthN (dirs s) ROOT_STREAM_ID = Some r /\
            chain_ids_of (fat s) (d_start r) = Ok ids.

Definition mini_stream (s : cstate) (ids : list N) : list byte := chain_content s ids.

Definition mini_bytes (s : cstate) (ids : list N) (ms : N) : list byte :=
  takeN 64 (dropN (ms * 64) (mini_stream s ids)).

Definition mchain_content (s : cstate) (ids mids : list N) : list byte :=
  concat (map (mini_bytes s ids) mids).

Definition good_mchain (s : cstate) (ids mids : list N) : Prop :=
  root_ids s ids /\ good_chain s ids /\ NoDup mids /\
  Forall (fun ms => (ms + 1) * 64 <= slen s * lenN ids) mids.

(* ------------------------------------------------------------------ *)
(* sector length                                                       *)
(* ------------------------------------------------------------------ *)

Lemma slen_cases : forall s, slen s = 512 \/ slen s = 4096.
Proof.
  intro s. unfold slen, sector_len. destruct (ver s); [left | right]; reflexivity.
Qed.

Lemma slen_per : forall s, exists per,
  0 < per /\ slen s = 64 * per /\ slen s / 64 = per.
Proof.
  intro s. destruct (slen_cases s) as [E|E]; rewrite E.
  - exists 8. repeat split.
  - exists 64. repeat split.
Qed.

(* ------------------------------------------------------------------ *)
(* list windows                                                        *)
(* ------------------------------------------------------------------ *)

Lemma takeN_dropN_takeN : forall A (l : list A) a k m,
  a + k <= m -> takeN k (dropN a (takeN m l)) = takeN k (dropN a l).
Proof.
  intros A l a k m H.
  destruct (N.le_gt_cases (lenN l) m) as [Hl|Hl].
  - rewrite (takeN_all _ l m) by lia. reflexivity.
  - rewrite <- (takeN_dropN_id _ l m) at 2.
    rewrite dropN_app_le by (rewrite lenN_takeN; lia).
    rewrite takeN_app_le by (rewrite lenN_dropN, lenN_takeN; lia).
    reflexivity.
Qed.

(* a splice inside the window [a, a+m) of L is a splice of the window *)
Lemma window_splice : forall (L : list byte) a m ow b,
  a + m <= lenN L -> ow + lenN b <= m ->
  takeN m (dropN a (spliceN L (a + ow) b)) = spliceN (takeN m (dropN a L)) ow b.
Proof.
  intros L a m ow b HL Hfit.
  assert (E : L = takeN a L ++ takeN m (dropN a L) ++ dropN m (dropN a L))
    by (rewrite !takeN_dropN_id; reflexivity).
  assert (Hpre : lenN (takeN a L) = a) by (rewrite lenN_takeN; blia).
  assert (Hmid : lenN (takeN m (dropN a L)) = m)
    by (rewrite lenN_takeN, lenN_dropN; blia).
  remember (takeN a L) as pre eqn:Epre.
  remember (takeN m (dropN a L)) as mid eqn:Emid.
  remember (dropN m (dropN a L)) as rest eqn:Erest.
  clear Epre Emid Erest. subst L.
  rewrite spliceN_app_ge by blia.
  rewrite dropN_app_ge by blia.
  replace (a - lenN pre) with 0 by blia. rewrite dropN_0.
  replace (a + ow - lenN pre) with ow by blia.
  rewrite spliceN_app_le by blia.
  assert (Hsp : lenN (spliceN mid ow b) = m) by (rewrite lenN_spliceN; blia).
  rewrite takeN_app_le by blia.
  apply takeN_all. blia.
Qed.

(* content_locate / content_update for an arbitrary block function *)
Lemma concat_locate : forall (f : N -> list byte) sl ids i x ow k,
  Forall (fun y => lenN (f y) = sl) ids ->
  nthN ids i = Some x -> ow + k <= sl ->
  takeN k (dropN (sl * i + ow) (concat (map f ids))) = takeN k (dropN ow (f x)).
Proof.
  intros f sl ids. induction ids as [|y t IH]; intros i x ow k HF Hn Hk.
  - discriminate.
  - pose proof (Forall_inv HF) as Hy. pose proof (Forall_inv_tail HF) as Ht.
    cbv beta in Hy. cbn [map concat].
    destruct (N.eq_dec i 0) as [E|E].
    + subst i. cbn [nthN N.eqb] in Hn. injection Hn as Hn. subst y.
      rewrite N.mul_0_r, N.add_0_l.
      rewrite dropN_app_le by blia.
      rewrite takeN_app_le by (rewrite lenN_dropN; blia). reflexivity.
    + rewrite nthN_cons_pos in Hn by lia.
      rewrite dropN_app_ge by (unfold byte in *; nia).
      replace (sl * i + ow - lenN (f y)) with (sl * N.pred i + ow)
        by (unfold byte in *; nia).
      apply IH; assumption.
Qed.

Lemma concat_update : forall (f f1 : N -> list byte) sl ids q x ow b,
  NoDup ids ->
  Forall (fun y => lenN (f y) = sl) ids ->
  nthN ids q = Some x ->
  ow + lenN b <= sl ->
  f1 x = spliceN (f x) ow b ->
  (forall y, y <> x -> f1 y = f y) ->
  concat (map f1 ids) = spliceN (concat (map f ids)) (sl * q + ow) b.
Proof.
  intros f f1 sl ids. induction ids as [|y t IH];
    intros q x ow b Hnd HF Hn Hfit Hsame Hoth.
  - discriminate.
  - pose proof (Forall_inv HF) as Hy. pose proof (Forall_inv_tail HF) as Ht.
    cbv beta in Hy. cbn [map concat].
    pose proof (NoDup_cons_iff y t) as [Hnd' _]. destruct (Hnd' Hnd) as [Hnotin Hndt].
    destruct (N.eq_dec q 0) as [E|E].
    + subst q. cbn [nthN N.eqb] in Hn. injection Hn as Hn. subst y.
      rewrite N.mul_0_r, N.add_0_l.
      rewrite spliceN_app_le by blia. rewrite Hsame. f_equal.
      f_equal. apply map_ext_in. intros a Ha.
      apply Hoth. intro Heq. subst a. contradiction.
    + rewrite nthN_cons_pos in Hn by lia.
      pose proof (nthN_In _ _ _ _ Hn) as Hin.
      assert (Hne : y <> x) by (intro Heq; subst y; contradiction).
      rewrite (Hoth y Hne).
      rewrite spliceN_app_ge by (unfold byte in *; nia). f_equal.
      replace (sl * q + ow - lenN (f y)) with (sl * N.pred q + ow)
        by (unfold byte in *; nia).
      apply (IH (N.pred q) x ow b); assumption.
Qed.

Lemma lenN_concat_map : forall (f : N -> list byte) sl ids,
  Forall (fun y => lenN (f y) = sl) ids ->
  lenN (concat (map f ids)) = sl * lenN ids.
Proof.
  intros f sl ids. induction ids as [|x t IH]; intro HF.
  - cbn. lia.
  - cbn [map concat]. rewrite lenN_app. cbn [lenN].
    rewrite (Forall_inv HF). rewrite IH by exact (Forall_inv_tail HF). lia.
Qed.

(* ------------------------------------------------------------------ *)
(* mini sectors                                                        *)
(* ------------------------------------------------------------------ *)

Lemma mini_bytes_len : forall s ids ms,
  good_chain s ids -> (ms + 1) * 64 <= slen s * lenN ids ->
  lenN (mini_bytes s ids ms) = 64.
Proof.
  intros s ids ms Hgood Hr. unfold mini_bytes, mini_stream.
  rewrite lenN_takeN, lenN_dropN, (good_chain_len _ _ Hgood). blia.
Qed.

Lemma good_mchain_lens : forall s ids mids, good_mchain s ids mids ->
  Forall (fun ms => lenN (mini_bytes s ids ms) = 64) mids.
Proof.
  intros s ids mids (_ & Hgood & _ & HF).
  eapply Forall_impl; [|exact HF]. cbv beta. intros ms H.
  apply mini_bytes_len; assumption.
Qed.

Lemma good_mchain_len : forall s ids mids, good_mchain s ids mids ->
  lenN (mchain_content s ids mids) = 64 * lenN mids.
Proof.
  intros. unfold mchain_content. apply lenN_concat_map.
  eapply good_mchain_lens. eassumption.
Qed.

Theorem mini_locate_spec : forall s ids ms off,
  root_ids s ids -> good_chain s ids ->
  (ms + 1) * 64 <= slen s * lenN ids -> off < 64 ->
  exists sid,
    nthN ids (ms / (slen s / 64)) = Some sid /\
    mini_locate ms off s = (s, Ok (sid, (ms mod (slen s / 64)) * 64 + off)) /\
    sid < nsect s /\ lenN (sector_bytes s sid) = slen s /\
    (ms mod (slen s / 64)) * 64 + 64 <= slen s /\
    forall k, off + k <= 64 ->
      takeN k (dropN ((ms mod (slen s / 64)) * 64 + off) (sector_bytes s sid))
      = takeN k (dropN (ms * 64 + off) (mini_stream s ids)).
Proof.
  intros s ids ms off (r & Hr & Hids) Hgood Hrange Hoff.
  destruct (slen_per s) as (per & Hper & Hsl & Hdiv). rewrite Hdiv.
  destruct (divmod_split per ms Hper) as [Ems Hrm].
  pose proof Hgood as (Hnd & HF & Himg & Hpos).
  assert (Hms : ms + 1 <= per * lenN ids) by nia.
  assert (Hq : ms / per < lenN ids) by (apply div_lt_len; lia).
  destruct (nthN ids (ms / per)) as [sid|] eqn:Hn;
    [| apply nthN_None_ge in Hn; lia].
  pose proof (nthN_In _ _ _ _ Hn) as Hin.
  rewrite Forall_forall in HF. destruct (HF _ Hin) as [Hsid Hlen].
  assert (Hfit : (ms mod per) * 64 + 64 <= slen s) by nia.
  exists sid. split; [reflexivity|].
  split; [|split; [exact Hsid|split; [exact Hlen|split; [exact Hfit|]]]].
  - unfold mini_locate. mred2.
    destruct (64 <=? off) eqn:E; [lia|].
    unfold root_entry, dir_entry. mred2. rewrite Hr. mred2.
    unfold chain_new. mred2. rewrite Hids. mred2.
    rewrite Hdiv, Hn. mred2.
    rewrite seek_sector_ok by lia. reflexivity.
  - intros k Hk. unfold mini_stream. symmetry.
    replace (ms * 64 + off) with (slen s * (ms / per) + ((ms mod per) * 64 + off)) by nia.
    apply content_locate; [apply good_chain_lens; exact Hgood | exact Hn | lia].
Qed.

(* ------------------------------------------------------------------ *)
(* reading                                                             *)
(* ------------------------------------------------------------------ *)

Lemma mchain_read_go_spec : forall s ids mids, good_mchain s ids mids ->
  forall fuel off n acc,
  off + n <= 64 * lenN mids ->
  (1 <= fuel)%nat ->
  (0 < n -> off + n <= 64 * (off / 64 + N.of_nat fuel - 1)) ->
  mchain_read_go fuel (mkMChain mids off) n acc s
  = (s, Ok (mkMChain mids (off + n),
            acc ++ takeN n (dropN off (mchain_content s ids mids)))).
Proof.
  intros s ids mids Hgm.
  pose proof (good_mchain_lens _ _ _ Hgm) as HL.
  destruct Hgm as (Hroot & Hgood & Hnd & HF).
  assert (Hpos : 0 < 64) by lia.
  induction fuel as [|f IH]; intros off n acc Hfit Hf1 Hfuel; [lia|].
  cbn [mchain_read_go].
  destruct (n =? 0) eqn:En.
  - assert (n = 0) by lia. subst n. mred2.
    rewrite N.add_0_r, takeN_0, app_nil_r. reflexivity.
  - mred2.
    destruct (divmod_split 64 off Hpos) as [Eoff Hr].
    destruct (64 * lenN mids <? off) eqn:E1; [lia|].
    replace (N.min n (64 * lenN mids - off)) with n by lia.
    rewrite En.
    assert (Hq : off / 64 < lenN mids) by (apply div_lt_len; lia).
    destruct (nthN mids (off / 64)) as [ms|] eqn:Hn;
      [| apply nthN_None_ge in Hn; lia].
    pose proof (nthN_In _ _ _ _ Hn) as Hin.
    rewrite Forall_forall in HF. pose proof (HF _ Hin) as Hrange. cbv beta in Hrange.
    remember (N.min n (64 - off mod 64)) as k eqn:Ek.
    destruct (mini_locate_spec s ids ms (off mod 64) Hroot Hgood Hrange Hr)
      as (sid & _ & Hloc & Hsid & Hlen & Hfit2 & Hwin).
    rewrite Hloc. mred2.
    rewrite sector_read_spec by lia.
    rewrite IH.
    + assert (Hloc2 : takeN k (dropN off (mchain_content s ids mids))
                     = takeN k (dropN (ms * 64 + off mod 64) (mini_stream s ids))).
      { rewrite Eoff at 1. unfold mchain_content.
        rewrite (concat_locate (mini_bytes s ids) 64 mids (off / 64) ms (off mod 64) k HL Hn)
          by lia.
        unfold mini_bytes. rewrite takeN_dropN_takeN by lia.
        rewrite dropN_dropN. reflexivity. }
      rewrite (Hwin k) by lia. rewrite <- Hloc2. rewrite <- app_assoc.
      replace (off + k + (n - k)) with (off + n) by lia.
      do 4 f_equal.
      assert (Hsplit : forall l : list byte,
                takeN n l = takeN k l ++ takeN (n - k) (dropN k l)).
      { intro l. rewrite <- takeN_add. f_equal. lia. }
      rewrite (Hsplit (dropN off (mchain_content s ids mids))), dropN_dropN. reflexivity.
    + lia.
    + assert (off + n > 64 * (off / 64)) by lia.
      assert (0 < n) as Hn0 by lia. specialize (Hfuel Hn0). nia.
    + intro Hrem.
      assert (Hk : k = 64 - off mod 64) by lia.
      rewrite Hk, div_next by exact Hpos.
      assert (0 < n) as Hn0 by lia. specialize (Hfuel Hn0).
      replace (off + (64 - off mod 64) + (n - (64 - off mod 64)))
        with (off + n) by lia.
      replace (off / 64 + 1 + N.of_nat f - 1) with (off / 64 + N.of_nat (S f) - 1) by lia.
      exact Hfuel.
Qed.

Theorem mchain_read_spec : forall s ids c n,
  good_mchain s ids (mc_ids c) ->
  mc_off c + n <= mchain_len c ->
  mchain_read_exact c n s
  = (s, Ok (mkMChain (mc_ids c) (mc_off c + n),
            takeN n (dropN (mc_off c) (mchain_content s ids (mc_ids c))))).
Proof.
  intros s ids [mids off] n Hgood Hfit. cbn [mc_ids mc_off] in *.
  unfold mchain_len in Hfit. cbn [mc_ids] in Hfit. unfold MINI_SECTOR_LEN in Hfit.
  unfold mchain_read_exact. mred2.
  rewrite (mchain_read_go_spec s ids mids Hgood).
  - reflexivity.
  - exact Hfit.
  - apply le_n_S, Nat.le_0_l.
  - intro Hn. apply fuel_enough; [lia | exact Hn].
Qed.

(* ------------------------------------------------------------------ *)
(* reading past the end                                                *)
(* ------------------------------------------------------------------ *)

Lemma mchain_read_go_eof : forall s ids mids, good_mchain s ids mids ->
  forall fuel off n acc,
  off <= 64 * lenN mids ->
  64 * lenN mids < off + n ->
  lenN mids - off / 64 + 1 <= N.of_nat fuel ->
  mchain_read_go fuel (mkMChain mids off) n acc s = (s, Err EUnexpectedEof).
Proof.
  intros s ids mids Hgm.
  destruct Hgm as (Hroot & Hgood & Hnd & HF).
  assert (Hpos : 0 < 64) by lia.
  induction fuel as [|f IH]; intros off n acc Hle Hgt Hfuel; [lia|].
  cbn [mchain_read_go].
  destruct (n =? 0) eqn:En; [lia|]. mred2.
  destruct (divmod_split 64 off Hpos) as [Eoff Hr].
  destruct (64 * lenN mids <? off) eqn:E1; [lia|].
  replace (N.min n (64 * lenN mids - off)) with (64 * lenN mids - off) by lia.
  destruct (64 * lenN mids - off =? 0) eqn:E2; [reflexivity|].
  assert (Hq : off / 64 < lenN mids) by (apply div_lt_len; lia).
  destruct (nthN mids (off / 64)) as [ms|] eqn:Hn;
    [| apply nthN_None_ge in Hn; lia].
  pose proof (nthN_In _ _ _ _ Hn) as Hin.
  rewrite Forall_forall in HF. pose proof (HF _ Hin) as Hrange. cbv beta in Hrange.
  assert (Hk : N.min (64 * lenN mids - off) (64 - off mod 64) = 64 - off mod 64) by nia.
  rewrite Hk.
  destruct (mini_locate_spec s ids ms (off mod 64) Hroot Hgood Hrange Hr)
    as (sid & _ & Hloc & Hsid & Hlen & Hfit2 & Hwin).
  rewrite Hloc. mred2.
  rewrite sector_read_spec by lia.
  apply IH.
  - nia.
  - lia.
  - rewrite div_next by exact Hpos. lia.
Qed.

Theorem mchain_read_eof : forall s ids c n,
  good_mchain s ids (mc_ids c) ->
  mc_off c <= mchain_len c ->
  mchain_len c < mc_off c + n ->
  mchain_read_exact c n s = (s, Err EUnexpectedEof).
Proof.
  intros s ids [mids off] n Hgood Hle Hgt. cbn [mc_ids mc_off] in *.
  unfold mchain_len, MINI_SECTOR_LEN in *. cbn [mc_ids] in *.
  unfold mchain_read_exact. mred2.
  apply (mchain_read_go_eof s ids mids Hgood); [exact Hle | exact Hgt |].
  assert (Hpos : 0 < 64) by lia.
  destruct (divmod_split 64 off Hpos) as [Eo Ho].
  destruct (divmod_split 64 n Hpos) as [En Hn'].
  replace (N.of_nat (S (S (S (N.to_nat (n / 64)))))) with (n / 64 + 3) by lia.
  nia.
Qed.

(* ------------------------------------------------------------------ *)
(* writing without extension                                           *)
(* ------------------------------------------------------------------ *)

Lemma root_ids_transfer : forall s s1 ids,
  root_ids s ids -> same_meta s s1 -> root_ids s1 ids.
Proof.
  intros s s1 ids (r & Hr & Hids) Hmeta.
  destruct (same_meta_fields _ _ Hmeta) as (_ & _ & _ & _ & Hfat & _ & Hdirs & _).
  exists r. rewrite Hfat, Hdirs. split; assumption.
Qed.

Lemma good_mchain_transfer : forall s s1 ids mids,
  good_mchain s ids mids -> same_meta s s1 -> good_chain s1 ids ->
  good_mchain s1 ids mids.
Proof.
  intros s s1 ids mids (Hroot & _ & Hnd & HF) Hmeta Hgood1.
  destruct (same_meta_fields _ _ Hmeta) as (_ & _ & _ & _ & _ & _ & _ & _ & _ & _ & _ & Hsl).
  split; [eapply root_ids_transfer; eassumption|].
  split; [exact Hgood1|]. split; [exact Hnd|].
  rewrite Hsl. exact HF.
Qed.

(* one round of the write loop: locate mini sector [ms], write [b] at [ow] *)
Lemma mini_write_step : forall s ids ms ow b,
  root_ids s ids -> good_chain s ids ->
  (ms + 1) * 64 <= slen s * lenN ids -> ow < 64 -> ow + lenN b <= 64 ->
  exists sid s1,
    mini_locate ms ow s = (s, Ok (sid, (ms mod (slen s / 64)) * 64 + ow)) /\
    sector_write sid ((ms mod (slen s / 64)) * 64 + ow) b s = (s1, Ok tt) /\
    same_meta s s1 /\ lenN (img s1) = lenN (img s) /\
    (forall x, lenN (sector_bytes s1 x) = lenN (sector_bytes s x)) /\
    (forall x, ~ In x ids -> sector_bytes s1 x = sector_bytes s x) /\
    good_chain s1 ids /\
    mini_stream s1 ids = spliceN (mini_stream s ids) (ms * 64 + ow) b.
Proof.
  intros s ids ms ow b Hroot Hgood Hrange How Hfit.
  destruct (mini_locate_spec s ids ms ow Hroot Hgood Hrange How)
    as (sid & Hn & Hloc & Hsid & Hlen & Hfit2 & _).
  destruct (slen_per s) as (per & Hper & Hsl & Hdiv). rewrite Hdiv in *.
  destruct (divmod_split per ms Hper) as [Ems Hrm].
  pose proof (nthN_In _ _ _ _ Hn) as Hin.
  destruct (sector_write_read s sid ((ms mod per) * 64 + ow) b Hsid Hlen)
    as (s1 & Hw & Hs1 & Hb & _ & Hoth); [lia|].
  assert (Hmeta1 : same_meta s s1) by (unfold same_meta; rewrite Hs1; reflexivity).
  assert (Himg1 : lenN (img s1) = lenN (img s))
    by (rewrite Hs1; cbn [img w_img]; apply lenN_updN).
  assert (Hlen1 : forall x, lenN (sector_bytes s1 x) = lenN (sector_bytes s x)).
  { intro x. destruct (N.eq_dec x sid) as [->|Hne].
    - rewrite Hb, lenN_spliceN. blia.
    - rewrite (Hoth x Hne). reflexivity. }
  assert (Hgood1 : good_chain s1 ids).
  { apply (good_chain_transfer s s1 ids Hgood Hmeta1 Himg1). intros x _. apply Hlen1. }
  exists sid, s1.
  split; [exact Hloc|]. split; [exact Hw|]. split; [exact Hmeta1|].
  split; [exact Himg1|]. split; [exact Hlen1|].
  split; [| split; [exact Hgood1|]].
  - intros x Hx. apply Hoth. intro Heq. subst x. contradiction.
  - unfold mini_stream.
    replace (ms * 64 + ow) with (slen s * (ms / per) + ((ms mod per) * 64 + ow)) by nia.
    destruct Hgood as (Hnd & HF & _).
    apply (content_update s s1 (slen s) ids (ms / per) sid); try assumption.
    + eapply Forall_impl; [|exact HF]. cbv beta. tauto.
    + lia.
Qed.

(* effect of a splice of the mini stream inside mini sector [ms] on mini_bytes *)
Lemma mini_bytes_splice : forall s s1 ids ms ow b,
  (ms + 1) * 64 <= lenN (mini_stream s ids) ->
  ow + lenN b <= 64 ->
  mini_stream s1 ids = spliceN (mini_stream s ids) (ms * 64 + ow) b ->
  mini_bytes s1 ids ms = spliceN (mini_bytes s ids ms) ow b /\
  (forall ms', ms' <> ms -> mini_bytes s1 ids ms' = mini_bytes s ids ms').
Proof.
  intros s s1 ids ms ow b HL Hfit Hst. unfold mini_bytes. rewrite Hst. split.
  - apply window_splice; blia.
  - intros ms' Hne.
    destruct (N.lt_gt_cases ms' ms) as [Hc _]. destruct (Hc Hne) as [Hlt|Hgt].
    + apply spliceN_read_before; blia.
    + apply spliceN_read_after; blia.
Qed.

Lemma mchain_write_go_spec : forall ids mids fuel s off bs,
  good_mchain s ids mids ->
  off + lenN bs <= 64 * lenN mids ->
  (1 <= fuel)%nat ->
  (0 < lenN bs -> off + lenN bs <= 64 * (off / 64 + N.of_nat fuel - 1)) ->
  exists s',
    mchain_write_go fuel (mkMChain mids off) bs s
      = (s', Ok (mkMChain mids (off + lenN bs))) /\
    same_meta s s' /\
    lenN (img s') = lenN (img s) /\
    mchain_content s' ids mids = spliceN (mchain_content s ids mids) off bs /\
    good_mchain s' ids mids /\
    (forall ms, ~ In ms mids -> mini_bytes s' ids ms = mini_bytes s ids ms) /\
    (forall x, ~ In x ids -> sector_bytes s' x = sector_bytes s x) /\
    (forall x, lenN (sector_bytes s' x) = lenN (sector_bytes s x)).
Proof.
  intros ids mids. induction fuel as [|f IH]; intros s off bs Hgm Hfit Hf1 Hfuel; [lia|].
  pose proof (good_mchain_lens _ _ _ Hgm) as HL.
  pose proof (good_mchain_len _ _ _ Hgm) as HCL.
  assert (Hpos : 0 < 64) by lia.
  cbn [mchain_write_go].
  destruct bs as [|b0 bt] eqn:Ebs.
  - exists s. mred2. cbn [lenN]. rewrite N.add_0_r.
    cbn [lenN] in Hfit.
    split; [reflexivity|]. split; [apply same_meta_refl|]. split; [reflexivity|].
    split; [symmetry; apply spliceN_nil; blia|]. split; [exact Hgm|].
    split; [|split]; intros; reflexivity.
  - assert (Hbs : 0 < lenN (b0 :: bt)) by (cbn [lenN]; lia).
    rewrite <- Ebs in *. clear Ebs b0 bt. specialize (Hfuel Hbs).
    pose proof Hgm as (Hroot & Hgood & Hnd & HF).
    mred2.
    destruct (divmod_split 64 off Hpos) as [Eoff Hr].
    destruct (off =? 64 * lenN mids) eqn:E1; [lia|]. mred2.
    assert (Hq : off / 64 < lenN mids) by (apply div_lt_len; lia).
    destruct (nthN mids (off / 64)) as [ms|] eqn:Hn;
      [| apply nthN_None_ge in Hn; lia].
    pose proof (nthN_In _ _ _ _ Hn) as Hin.
    pose proof HF as HF'. rewrite Forall_forall in HF'.
    pose proof (HF' _ Hin) as Hrange. cbv beta in Hrange.
    remember (N.min (lenN bs) (64 - off mod 64)) as k eqn:Ek.
    assert (Hlk : lenN (takeN k bs) = k) by (rewrite lenN_takeN; lia).
    destruct (mini_write_step s ids ms (off mod 64) (takeN k bs) Hroot Hgood Hrange Hr)
      as (sid & s1 & Hloc & Hw & Hmeta1 & Himg1 & Hlen1 & Hfr1 & Hgood1 & Hst1); [lia|].
    rewrite Hloc. mred2. rewrite Hw. mred2.
    assert (Hgm1 : good_mchain s1 ids mids)
      by (apply (good_mchain_transfer s s1 ids mids Hgm Hmeta1 Hgood1)).
    destruct (mini_bytes_splice s s1 ids ms (off mod 64) (takeN k bs)) as [Hmb Hmo];
      [unfold mini_stream; rewrite (good_chain_len _ _ Hgood); lia | lia | exact Hst1 |].
    assert (Hc1 : mchain_content s1 ids mids
                  = spliceN (mchain_content s ids mids) off (takeN k bs)).
    { rewrite Eoff at 1. unfold mchain_content.
      apply (concat_update (mini_bytes s ids) (mini_bytes s1 ids) 64 mids (off / 64) ms);
        try assumption. lia. }
    destruct (IH s1 (off + k) (dropN k bs) Hgm1)
      as (s' & Hgo & Hmeta & Himg' & Hc & Hgm' & Hfrm & Hfr & Hlen').
    + rewrite lenN_dropN. lia.
    + assert (off + lenN bs > 64 * (off / 64)) by lia. nia.
    + rewrite lenN_dropN. intro Hrem.
      assert (Hk : k = 64 - off mod 64) by lia.
      rewrite Hk, div_next by exact Hpos.
      replace (off + (64 - off mod 64) + (lenN bs - (64 - off mod 64)))
        with (off + lenN bs) by lia.
      replace (off / 64 + 1 + N.of_nat f - 1)
        with (off / 64 + N.of_nat (S f) - 1) by lia.
      exact Hfuel.
    + exists s'. rewrite Hgo. rewrite lenN_dropN.
      replace (off + k + (lenN bs - k)) with (off + lenN bs) by lia.
      split; [reflexivity|].
      split; [eapply same_meta_trans; eassumption|].
      split; [congruence|].
      split.
      { rewrite Hc, Hc1.
        replace (off + k) with (off + lenN (takeN k bs)) by (rewrite Hlk; reflexivity).
        rewrite spliceN_spliceN.
        rewrite takeN_dropN_id. reflexivity. }
      split; [exact Hgm'|].
      split; [|split].
      { intros x Hx. rewrite (Hfrm x Hx). apply Hmo. intro Heq. subst x. contradiction. }
      { intros x Hx. rewrite (Hfr x Hx). apply Hfr1. exact Hx. }
      { intro x. rewrite Hlen'. apply Hlen1. }
Qed.

Theorem mchain_write_spec : forall s ids c bs,
  good_mchain s ids (mc_ids c) ->
  mc_off c + lenN bs <= mchain_len c ->
  exists s',
    mchain_write_all c bs s
      = (s', Ok (mkMChain (mc_ids c) (mc_off c + lenN bs))) /\
    mchain_content s' ids (mc_ids c)
      = spliceN (mchain_content s ids (mc_ids c)) (mc_off c) bs /\
    spliceN (mchain_content s ids (mc_ids c)) (mc_off c) bs
      = takeN (mc_off c) (mchain_content s ids (mc_ids c)) ++ bs ++
        dropN (mc_off c + lenN bs) (mchain_content s ids (mc_ids c)) /\
    good_mchain s' ids (mc_ids c) /\
    (forall ms, ~ In ms (mc_ids c) -> mini_bytes s' ids ms = mini_bytes s ids ms) /\
    (forall sid, ~ In sid ids -> sector_bytes s' sid = sector_bytes s sid) /\
    (forall sid, lenN (sector_bytes s' sid) = lenN (sector_bytes s sid)) /\
    lenN (img s') = lenN (img s) /\
    s' = w_img s (img s').
Proof.
  intros s ids [mids off] bs Hgm Hfit. cbn [mc_ids mc_off] in *.
  unfold mchain_len, MINI_SECTOR_LEN in Hfit. cbn [mc_ids] in Hfit.
  unfold mchain_write_all. mred2.
  destruct (mchain_write_go_spec ids mids (S (S (S (N.to_nat (lenN bs / 64))))) s off bs Hgm Hfit)
    as (s' & Hgo & Hmeta & Himg & Hc & Hgm' & Hfrm & Hfr & Hlen).
  - apply le_n_S, Nat.le_0_l.
  - intro Hn. apply fuel_enough; [lia | exact Hn].
  - exists s'. split; [exact Hgo|]. split; [exact Hc|].
    split; [apply spliceN_inside; rewrite (good_mchain_len _ _ _ Hgm); lia|].
    split; [exact Hgm'|]. split; [exact Hfrm|]. split; [exact Hfr|].
    split; [exact Hlen|]. split; [exact Himg|]. exact Hmeta.
Qed.

(* the unchanged components, spelled out *)
Corollary mchain_write_meta : forall s ids c bs s' r,
  good_mchain s ids (mc_ids c) ->
  mc_off c + lenN bs <= mchain_len c ->
  mchain_write_all c bs s = (s', r) ->
  ver s' = ver s /\ nsect s' = nsect s /\ difat_ids s' = difat_ids s /\
  difat s' = difat s /\ fat s' = fat s /\ free s' = free s /\ dirs s' = dirs s /\
  dir_start s' = dir_start s /\ minifat s' = minifat s /\
  minifat_start s' = minifat_start s /\ mfree s' = mfree s /\ slen s' = slen s.
Proof.
  intros s ids c bs s' r Hgm Hfit Hrun.
  destruct (mchain_write_spec s ids c bs Hgm Hfit) as (s2 & Hw & _ & _ & _ & _ & _ & _ & _ & Hmeta).
  rewrite Hw in Hrun. injection Hrun as <- _.
  apply same_meta_fields. exact Hmeta.
Qed.

Theorem mchain_write_then_read : forall s ids c bs,
  good_mchain s ids (mc_ids c) ->
  mc_off c + lenN bs <= mchain_len c ->
  exists s',
    mchain_write_all c bs s
      = (s', Ok (mkMChain (mc_ids c) (mc_off c + lenN bs))) /\
    mchain_read_exact (mkMChain (mc_ids c) (mc_off c)) (lenN bs) s'
      = (s', Ok (mkMChain (mc_ids c) (mc_off c + lenN bs), bs)) /\
    (forall o n,
      o + n <= mchain_len c ->
      o + n <= mc_off c \/ mc_off c + lenN bs <= o ->
      exists r,
        mchain_read_exact (mkMChain (mc_ids c) o) n s
          = (s, Ok (mkMChain (mc_ids c) (o + n), r)) /\
        mchain_read_exact (mkMChain (mc_ids c) o) n s'
          = (s', Ok (mkMChain (mc_ids c) (o + n), r))).
Proof.
  intros s ids c bs Hgm Hfit.
  destruct (mchain_write_spec s ids c bs Hgm Hfit)
    as (s' & Hw & Hc & _ & Hgm' & _ & _ & _ & _ & Hmeta).
  pose proof (good_mchain_len _ _ _ Hgm) as HCL.
  unfold mchain_len, MINI_SECTOR_LEN in *.
  exists s'. split; [exact Hw|]. split.
  - rewrite (mchain_read_spec s' ids); cbn [mc_ids mc_off].
    + rewrite Hc. rewrite spliceN_read_same by (rewrite HCL; lia). reflexivity.
    + exact Hgm'.
    + unfold mchain_len, MINI_SECTOR_LEN. cbn [mc_ids]. exact Hfit.
  - intros o n Hon Hdisj.
    exists (takeN n (dropN o (mchain_content s ids (mc_ids c)))). split.
    + rewrite (mchain_read_spec s ids); cbn [mc_ids mc_off]; [reflexivity | exact Hgm |].
      unfold mchain_len, MINI_SECTOR_LEN. cbn [mc_ids]. exact Hon.
    + rewrite (mchain_read_spec s' ids); cbn [mc_ids mc_off].
      * rewrite Hc. destruct Hdisj as [Hb|Ha].
        -- rewrite spliceN_read_before by (rewrite ?HCL; lia). reflexivity.
        -- rewrite spliceN_read_after by (rewrite ?HCL; lia). reflexivity.
      * exact Hgm'.
      * unfold mchain_len, MINI_SECTOR_LEN. cbn [mc_ids]. exact Hon.
Qed.

Theorem mchain_write_frame_other : forall s ids c bs mids2,
  good_mchain s ids (mc_ids c) ->
  good_mchain s ids mids2 ->
  (forall x, In x (mc_ids c) -> ~ In x mids2) ->
  mc_off c + lenN bs <= mchain_len c ->
  exists s',
    mchain_write_all c bs s
      = (s', Ok (mkMChain (mc_ids c) (mc_off c + lenN bs))) /\
    mchain_content s' ids mids2 = mchain_content s ids mids2 /\
    good_mchain s' ids mids2 /\
    good_mchain s' ids (mc_ids c).
Proof.
  intros s ids c bs mids2 Hgm Hgm2 Hdisj Hfit.
  destruct (mchain_write_spec s ids c bs Hgm Hfit)
    as (s' & Hw & _ & _ & Hgm' & Hfrm & _ & _ & _ & Hmeta).
  exists s'. split; [exact Hw|]. split; [|split; [|exact Hgm']].
  - unfold mchain_content. f_equal. apply map_ext_in. intros x Hx.
    apply Hfrm. intro Hin. exact (Hdisj x Hin Hx).
  - apply (good_mchain_transfer s s' ids mids2 Hgm2 Hmeta).
    destruct Hgm' as (_ & Hg & _). exact Hg.
Qed.

Theorem mchain_seek_spec : forall s c pos,
  (pos <= mchain_len c ->
     mchain_seek c pos s = (s, Ok (mkMChain (mc_ids c) pos))) /\
  (mchain_len c < pos ->
     mchain_seek c pos s = (s, Err EInvalidInput)).
Proof.
  intros s c pos. unfold mchain_seek.
  split; intro H.
  - destruct (mchain_len c <? pos) eqn:E; [lia | reflexivity].
  - destruct (mchain_len c <? pos) eqn:E; [reflexivity | lia].
Qed.

(* ------------------------------------------------------------------ *)
Check slen_cases.
Check mini_locate_spec.
Check mchain_read_spec.
Check mchain_write_spec.
Check mchain_write_meta.
Check mchain_write_then_read.
Check mchain_write_frame_other.
Check mchain_seek_spec.
Check mchain_read_eof.
Print Assumptions mini_locate_spec.
Print Assumptions mchain_read_spec.
Print Assumptions mchain_write_spec.
Print Assumptions mchain_write_then_read.
Print Assumptions mchain_write_frame_other.
Print Assumptions mchain_seek_spec.
Print Assumptions mchain_read_eof.
