(* WfOpen.v -- property C04, layout-independent direction: every image accepted by
   the independent MS-CFB checker [wf_check] (spec/WfImage.v, 50 rules) is opened by
   the model of CompoundFile::open_strict, and the state it returns carries exactly the
   tables the checker computed.

   Main results (no hypothesis other than the two premises shown)
     wf_open_opened   wf_check bytes = 0 -> bytes_ok bytes = true ->
                      exists c, wf_cert_ok bytes c /\
                        open_model true bytes = Ok (opened bytes c (ck_dirents bytes c))
     wf_open_ok       wf_check bytes = 0 -> bytes_ok bytes = true ->
                      exists st, open_model true bytes = Ok st
     wf_open_opened_permissive, wf_open_ok_permissive   the same for open (permissive)
   [bytes_ok bytes] says that every element of the list is a byte (< 256).  The model's
   type [byte] is N, and the theorem is false without it ([Gaps.bytes_ok_needed]: a name
   unit "byte" of 70000 passes every rule of the checker and decodes to a scalar value
   that the decoder re-encodes as two UTF-16 units, making the name too long).

   Sections
     0      inversion of the checker stage by stage ([wf_cert], [wf_certificate])
     1-3    geometry, DIFAT walk, header (stage 1)
     4-7    FAT load, ownership => Allocator::validate (stages 2, 3), composition
     8-9    MiniFAT load and MiniAllocator::validate (stage 5), composition
     10-12  stage 4: reading the directory chain, decoding one slot from [entry_ok]
     13     stage 4: [sib_walk] / [tree_walk] inverted into a tree certificate [NT]
     14     stage 4: Directory::validate (the explicit-stack DFS) on that certificate
     15     stage 4: [entry_ok] for the root, every reached node and every blank slot
     16     the converse theorem
     17     the six gaps of the 44-rule checker, now closed by rules 45-50; bytes_ok;
            non-vacuity
   Stdlib only; no axioms; every proof is complete. *)
From Coq Require Import List NArith Lia Bool ZifyN ZifyBool Permutation.
From Cfb.model Require Import Base Names Time DirEnt State Alloc Dir Mini Store Handle Open Cfb.
From Cfb.gen Require Import Consts.
From Cfb.spec Require Import WfImage.
From Cfb.proofs Require Import DirProofs ChainProofs.
From Cfb.proofs Require CodecProofs WalkProofs OpenTotal StrictProofs ReuseProofs
                        CoherenceProofs DirCoherence ReopenProofs WfPersist.
Import ListNotations.
Open Scope N_scope.

Ltac Zify.zify_post_hook ::= Z.div_mod_to_equations.

Import ReopenProofs WfPersist.

Lemma INVALID_val : INVALID_SECTOR = 4294967291. Proof. vm_compute. reflexivity. Qed.
Ltac mk := markers; pose proof INVALID_val.

(* ================================================================== *)
(* 0. inversion of the checker, stage by stage                         *)
(* ================================================================== *)

Definition vnum_of (bytes : list byte) : N := u16_at bytes 26.
Definition ver_of (bytes : list byte) : version := if vnum_of bytes =? 3 then V3 else V4.
Definition shift_of (bytes : list byte) : N := if vnum_of bytes =? 3 then 9 else 12.

Lemma wf_inv_header : forall bytes, wf_check bytes = 0 ->
  HEADER_LEN <= lenN bytes /\
  takeN 8 bytes = MAGIC_NUMBER /\
  u16_at bytes 28 = BYTE_ORDER_MARK /\
  (vnum_of bytes = 3 \/ vnum_of bytes = 4) /\
  u16_at bytes 30 = shift_of bytes /\
  u16_at bytes 32 = MINI_SECTOR_SHIFT /\
  u32_at bytes 56 = MINI_STREAM_CUTOFF /\
  stage_body bytes (vnum_of bytes) (shift_of bytes) = 0.
Proof.
  intros bytes H. rewrite wf_check_staged in H. unfold wf_staged in H.
  fold (vnum_of bytes) in H. fold (shift_of bytes) in H.
  destruct (lenN bytes <? HEADER_LEN) eqn:E1; [discriminate|].
  destruct (list_eqb N.eqb (takeN 8 bytes) MAGIC_NUMBER) eqn:E2; cbn [negb] in H; [|discriminate].
  destruct (u16_at bytes 28 =? BYTE_ORDER_MARK) eqn:E3; cbn [negb] in H; [|discriminate].
  destruct ((vnum_of bytes =? 3) || (vnum_of bytes =? 4)) eqn:E4; cbn [negb] in H; [|discriminate].
  destruct (u16_at bytes 30 =? shift_of bytes) eqn:E5; cbn [negb] in H; [|discriminate].
  destruct (u16_at bytes 32 =? MINI_SECTOR_SHIFT) eqn:E6; cbn [negb] in H; [|discriminate].
  destruct (u32_at bytes 56 =? MINI_STREAM_CUTOFF) eqn:E7; cbn [negb] in H; [|discriminate].
  apply StrictProofs.list_eqb_eq in E2.
  repeat split; try lia; assumption.
Qed.

(* the quantities the checker computes from the bytes *)
Definition ck_sl (bytes : list byte) : N := 2 ^ shift_of bytes.
Definition ck_ns (bytes : list byte) : N := lenN bytes / ck_sl bytes - 1.
Definition ck_secs (bytes : list byte) : list (list byte) :=
  split_chunks (S (N.to_nat (lenN bytes / ck_sl bytes))) (ck_sl bytes) bytes.
Definition ck_sec (bytes : list byte) : N -> list byte :=
  fun i => match nthN (ck_secs bytes) (i + 1) with Some s => s | None => [] end.
Definition ck_per (bytes : list byte) : N := ck_sl bytes / 4.
Definition ck_difat (bytes : list byte) : option (list N * list N) :=
  difat_walk_f (ck_ns bytes) (ck_per bytes) (ck_sec bytes) (S (N.to_nat (ck_ns bytes)))
               (u32_at bytes 68) [] (words 109 (dropN 76 bytes)).
Definition fat_ids_of (difat_all : list N) : list N := filter (fun x => negb (x =? FREE_SECTOR)) difat_all.
Definition fat_full_of (bytes : list byte) (fat_ids : list N) : list N :=
  flat_map (fun i => words (N.to_nat (ck_per bytes)) (ck_sec bytes i)) fat_ids.
Definition ck_fat (bytes : list byte) (difat_all : list N) : list N :=
  takeN (ck_ns bytes) (fat_full_of bytes (fat_ids_of difat_all)).

Lemma wf_inv_body : forall bytes, wf_check bytes = 0 ->
  lenN bytes mod ck_sl bytes = 0 /\ 2 * ck_sl bytes <= lenN bytes /\
  ck_ns bytes <= MAX_REGULAR_SECTOR /\
  exists difat_ids difat_all, ck_difat bytes = Some (difat_ids, difat_all) /\
    stage_fat (ck_sl bytes) (ck_ns bytes) (ck_per bytes) (vnum_of bytes) (ck_sec bytes)
              (u32_at bytes 40) (u32_at bytes 44) (u32_at bytes 48)
              (u32_at bytes 60) (u32_at bytes 64) (u32_at bytes 72) difat_ids difat_all = 0.
Proof.
  intros bytes H. apply wf_inv_header in H.
  destruct H as (_ & _ & _ & _ & _ & _ & _ & H).
  unfold stage_body in H. cbv zeta in H.
  unfold ck_difat, ck_sec, ck_secs, ck_ns, ck_per, ck_sl.
  destruct (lenN bytes mod 2 ^ shift_of bytes =? 0) eqn:E8; cbn [negb] in H; [|discriminate].
  destruct (lenN bytes <? 2 * 2 ^ shift_of bytes) eqn:E9; [discriminate|].
  destruct (MAX_REGULAR_SECTOR <? lenN bytes / 2 ^ shift_of bytes - 1) eqn:E45; [discriminate|].
  match type of H with match ?d with _ => _ end = 0 => destruct d as [[ids all]|] eqn:E10; [|discriminate] end.
  split; [lia|]. split; [lia|]. split; [apply N.ltb_ge; exact E45|]. exists ids, all. split; [reflexivity|exact H].
Qed.

Record fat_facts (bytes : list byte) (difat_ids difat_all own1 : list N) : Prop := mkFatFacts {
  ff_num_difat : u32_at bytes 72 = lenN difat_ids;
  ff_prefix : takeN (lenN (fat_ids_of difat_all)) difat_all = fat_ids_of difat_all;
  ff_num_fat : u32_at bytes 44 = lenN (fat_ids_of difat_all);
  ff_range : forall x, In x (fat_ids_of difat_all) -> x < ck_ns bytes;
  ff_enough : ck_ns bytes <= lenN (fat_full_of bytes (fat_ids_of difat_all));
  ff_tail : forall x, In x (dropN (ck_ns bytes) (fat_full_of bytes (fat_ids_of difat_all))) -> x = FREE_SECTOR;
  ff_fat_marked : forall i, In i (fat_ids_of difat_all) -> nthN (ck_fat bytes difat_all) i = Some FAT_SECTOR;
  ff_difat_marked : forall i, In i difat_ids -> nthN (ck_fat bytes difat_all) i = Some DIFAT_SECTOR;
  ff_marks : forall i v, nthN (ck_fat bytes difat_all) i = Some v ->
      (v = FAT_SECTOR -> In i (fat_ids_of difat_all)) /\
      (v = DIFAT_SECTOR -> In i difat_ids) /\ v <> INVALID_SECTOR;
  ff_own : exists own0, disjoint_add (fat_ids_of difat_all) [] = Some own0 /\
                        disjoint_add difat_ids own0 = Some own1
}.

Lemma forallb_nth_index : forall A (f : N * A -> bool) (l : list A) k,
  forallb f (index_from l k) = true -> forall i v, nthN l i = Some v -> f (k + i, v) = true.
Proof.
  intros A f l. induction l as [|x t IH]; intros k H i v Hi; [discriminate|].
  cbn [index_from forallb] in H. apply andb_true_iff in H. destruct H as [H0 H1].
  destruct (N.eq_dec i 0) as [->|Hi0].
  - cbn [nthN] in Hi. rewrite N.eqb_refl in Hi. injection Hi as <-. rewrite N.add_0_r. exact H0.
  - rewrite StrictProofs.nthN_cons_pos in Hi by lia.
    replace (k + i) with (k + 1 + (i - 1)) by lia. apply IH; assumption.
Qed.

Lemma wf_inv_fat : forall bytes difat_ids difat_all,
  stage_fat (ck_sl bytes) (ck_ns bytes) (ck_per bytes) (vnum_of bytes) (ck_sec bytes)
            (u32_at bytes 40) (u32_at bytes 44) (u32_at bytes 48)
            (u32_at bytes 60) (u32_at bytes 64) (u32_at bytes 72) difat_ids difat_all = 0 ->
  exists own1, fat_facts bytes difat_ids difat_all own1 /\
    stage_dir (ck_sl bytes) (ck_per bytes) (vnum_of bytes) (ck_sec bytes) (ck_fat bytes difat_all)
              (u32_at bytes 40) (u32_at bytes 48) (u32_at bytes 60) (u32_at bytes 64) own1 = 0.
Proof.
  intros bytes difat_ids difat_all H. unfold stage_fat in H. cbv zeta in H.
  fold (fat_ids_of difat_all) in H. fold (fat_full_of bytes (fat_ids_of difat_all)) in H.
  fold (ck_fat bytes difat_all) in H.
  destruct (u32_at bytes 72 =? lenN difat_ids) eqn:E11; cbn [negb] in H; [|discriminate].
  destruct (list_eqb N.eqb (takeN (lenN (fat_ids_of difat_all)) difat_all) (fat_ids_of difat_all)) eqn:E12;
    cbn [negb] in H; [|discriminate].
  destruct (u32_at bytes 44 =? lenN (fat_ids_of difat_all)) eqn:E13; cbn [negb] in H; [|discriminate].
  destruct (forallb (fun x => x <? ck_ns bytes) (fat_ids_of difat_all)) eqn:E14; cbn [negb] in H; [|discriminate].
  destruct (lenN (fat_full_of bytes (fat_ids_of difat_all)) <? ck_ns bytes) eqn:E15; [discriminate|].
  destruct (forallb (fun x => x =? FREE_SECTOR) (dropN (ck_ns bytes) (fat_full_of bytes (fat_ids_of difat_all)))) eqn:E16;
    cbn [negb] in H; [|discriminate].
  match type of H with (if negb ?c then _ else _) = 0 => destruct c eqn:E17; cbn [negb] in H; [|discriminate] end.
  match type of H with (if negb ?c then _ else _) = 0 => destruct c eqn:E18; cbn [negb] in H; [|discriminate] end.
  match type of H with (if negb ?c then _ else _) = 0 => destruct c eqn:E19; cbn [negb] in H; [|discriminate] end.
  destruct (disjoint_add (fat_ids_of difat_all) []) as [own0|] eqn:E20; [|discriminate].
  destruct (disjoint_add difat_ids own0) as [own1|] eqn:E21; [|discriminate].
  exists own1. split; [|exact H]. constructor.
  - lia.
  - apply StrictProofs.list_eqb_eq. exact E12.
  - lia.
  - rewrite forallb_forall in E14. intros x Hx. specialize (E14 x Hx). lia.
  - lia.
  - rewrite forallb_forall in E16. intros x Hx. specialize (E16 x Hx). lia.
  - rewrite forallb_forall in E17. intros i Hi. specialize (E17 i Hi).
    destruct (nthN (ck_fat bytes difat_all) i); [|discriminate]. f_equal. lia.
  - rewrite forallb_forall in E18. intros i Hi. specialize (E18 i Hi).
    destruct (nthN (ck_fat bytes difat_all) i); [|discriminate]. f_equal. lia.
  - intros i v Hv. pose proof (forallb_nth_index _ _ _ _ E19 i v Hv) as Hm. cbv beta iota in Hm.
    rewrite N.add_0_l in Hm. mk.
    destruct (N.eqb_spec v FAT_SECTOR) as [Ef|Ef].
    { apply WalkProofs.memN_In in Hm. repeat split; [intros _; exact Hm|intros; lia|lia]. }
    destruct (N.eqb_spec v DIFAT_SECTOR) as [Ed|Ed].
    { apply WalkProofs.memN_In in Hm. repeat split; [intros; lia|intros _; exact Hm|lia]. }
    destruct (N.eqb_spec v INVALID_SECTOR) as [Ei|Ei]; [discriminate|].
    repeat split; [intros; lia|intros; lia|exact Ei].
  - exists own0. split; assumption.
Qed.

Definition ck_mask (bytes : list byte) : N :=
  if vnum_of bytes =? 3 then 4294967295 else 18446744073709551615.
Definition raw_entries_of (bytes : list byte) (dir_ids : list N) : list (list byte) :=
  flat_map (fun i => split_chunks (N.to_nat (ck_sl bytes / DIR_ENTRY_LEN)) DIR_ENTRY_LEN (ck_sec bytes i)) dir_ids.
Definition es_of_ids (bytes : list byte) (dir_ids : list N) : list wentry :=
  map (parse_entry (ck_mask bytes)) (raw_entries_of bytes dir_ids).

Lemma stage_dir_unfold : forall bytes fat own1,
  stage_dir (ck_sl bytes) (ck_per bytes) (vnum_of bytes) (ck_sec bytes) fat
            (u32_at bytes 40) (u32_at bytes 48) (u32_at bytes 60) (u32_at bytes 64) own1 =
  match chain_of fat (u32_at bytes 48) with None => 22 | Some dir_ids =>
  if lenN dir_ids =? 0 then 23 else
  if negb (if vnum_of bytes =? 3 then u32_at bytes 40 =? 0 else u32_at bytes 40 =? lenN dir_ids) then 24 else
  match disjoint_add dir_ids own1 with None => 25 | Some own2 =>
  match es_of_ids bytes dir_ids with [] => 26 | root :: _ =>
  stage_tree (ck_sl bytes) (ck_per bytes) (ck_sec bytes) fat (es_of_ids bytes dir_ids) root own2
             (u32_at bytes 60) (u32_at bytes 64)
  end end end.
Proof. reflexivity. Qed.

Lemma wf_inv_dir : forall bytes fat own1,
  stage_dir (ck_sl bytes) (ck_per bytes) (vnum_of bytes) (ck_sec bytes) fat
            (u32_at bytes 40) (u32_at bytes 48) (u32_at bytes 60) (u32_at bytes 64) own1 = 0 ->
  exists dir_ids own2 root rest,
    chain_of fat (u32_at bytes 48) = Some dir_ids /\ dir_ids <> [] /\
    (if vnum_of bytes =? 3 then u32_at bytes 40 = 0 else u32_at bytes 40 = lenN dir_ids) /\
    disjoint_add dir_ids own1 = Some own2 /\
    es_of_ids bytes dir_ids = root :: rest /\
    stage_tree (ck_sl bytes) (ck_per bytes) (ck_sec bytes) fat (es_of_ids bytes dir_ids) root own2
               (u32_at bytes 60) (u32_at bytes 64) = 0.
Proof.
  intros bytes fat own1 H. rewrite stage_dir_unfold in H.
  destruct (chain_of fat (u32_at bytes 48)) as [dir_ids|] eqn:E22; [|discriminate].
  destruct (lenN dir_ids =? 0) eqn:E23; [discriminate|].
  match type of H with (if negb ?c then _ else _) = 0 => destruct c eqn:E24; cbn [negb] in H; [|discriminate] end.
  destruct (disjoint_add dir_ids own1) as [own2|] eqn:E25; [|discriminate].
  destruct (es_of_ids bytes dir_ids) as [|root rest] eqn:E26; [discriminate|].
  exists dir_ids, own2, root, rest.
  split; [reflexivity|]. split; [intros ->; cbn [lenN] in E23; discriminate|].
  split; [destruct (vnum_of bytes =? 3); lia|].
  split; [exact E25|]. split; [first [exact E26|reflexivity]|].
  first [exact H|rewrite E26; exact H].
Qed.

(* ================================================================== *)
(* 1. geometry: the sectors the checker and the model cut are the same *)
(* ================================================================== *)

Definition SizeOk (bytes : list byte) : Prop :=
  lenN bytes <= (MAX_REGULAR_SECTOR + 1) * ck_sl bytes.

Lemma ck_sl_ver : forall bytes, ck_sl bytes = sector_len (ver_of bytes).
Proof. intro bytes. unfold ck_sl, shift_of, ver_of. destruct (vnum_of bytes =? 3); reflexivity. Qed.

Lemma ck_sl_cases : forall bytes, ck_sl bytes = 512 \/ ck_sl bytes = 4096.
Proof. intro bytes. unfold ck_sl, shift_of. destruct (vnum_of bytes =? 3); [left|right]; reflexivity. Qed.

Lemma ck_secs_chunks : forall bytes, ck_secs bytes = chunks (ck_sl bytes) bytes.
Proof. intro bytes. unfold ck_secs, chunks. apply split_chunks_chunks_go. Qed.

Lemma lenN_words : forall n bs, lenN (words n bs) = N.of_nat n.
Proof. induction n as [|n IH]; intro bs; [reflexivity|]. cbn [words lenN]. rewrite IH. lia. Qed.

Section Geometry.
Variable bytes : list byte.
Hypothesis Hmod : lenN bytes mod ck_sl bytes = 0.
Hypothesis Hlen : 2 * ck_sl bytes <= lenN bytes.

Lemma len_eq : lenN bytes = ck_sl bytes * (ck_ns bytes + 1).
Proof.
  unfold ck_ns. pose proof Hmod as H1. pose proof Hlen as H2.
  destruct (ck_sl_cases bytes) as [E|E]; rewrite E in H1, H2 |- *.
  all: clear Hmod Hlen E; lia.
Qed.

Lemma ck_secs_nth : forall j, j <= ck_ns bytes ->
  nthN (ck_secs bytes) j = Some (takeN (ck_sl bytes) (dropN (ck_sl bytes * j) bytes)).
Proof.
  intros j Hj. unfold ck_secs. pose proof len_eq as HL.
  apply split_chunks_nth.
  - destruct (ck_sl_cases bytes) as [E|E]; rewrite E; lia.
  - unfold ck_ns in Hj. clear HL Hmod Hlen. set (q := lenN bytes / ck_sl bytes) in *. lia.
  - rewrite HL. clear HL Hmod Hlen. nia.
Qed.

Lemma ck_sec_len : forall i, i < ck_ns bytes -> lenN (ck_sec bytes i) = ck_sl bytes.
Proof.
  intros i Hi. unfold ck_sec. rewrite ck_secs_nth by lia.
  rewrite StrictProofs.lenN_takeN, StrictProofs.lenN_dropN. pose proof len_eq as HL. nia.
Qed.

Lemma img_read_sec : forall i n, i < ck_ns bytes ->
  img_read (ck_secs bytes) (i + 1) 0 n = takeN n (ck_sec bytes i).
Proof.
  intros i n Hi. unfold img_read, ck_sec. rewrite ck_secs_nth by lia.
  rewrite StrictProofs.dropN_0. reflexivity.
Qed.

Lemma per_words : 4 * N.of_nat (N.to_nat (ck_per bytes)) = ck_sl bytes.
Proof. unfold ck_per. rewrite N2Nat.id. destruct (ck_sl_cases bytes) as [E|E]; rewrite E; reflexivity. Qed.

Lemma read_sector_words : forall i, i < ck_ns bytes ->
  read_sector_u32s (ck_secs bytes) (ck_sl bytes) i (ck_sl bytes / 4)
  = Ok (words (N.to_nat (ck_per bytes)) (ck_sec bytes i)).
Proof.
  intros i Hi. unfold read_sector_u32s. rewrite img_read_sec by exact Hi.
  assert (E4 : 4 * (ck_sl bytes / 4) = ck_sl bytes)
    by (destruct (ck_sl_cases bytes) as [E|E]; rewrite E; reflexivity).
  rewrite E4. rewrite StrictProofs.takeN_all by (rewrite ck_sec_len by exact Hi; lia).
  rewrite ck_sec_len by exact Hi. rewrite N.ltb_irrefl.
  rewrite words_u32s; [reflexivity|]. rewrite per_words. apply ck_sec_len. exact Hi.
Qed.

Lemma read_difat_words : forall i, i < ck_ns bytes ->
  read_difat_sector (ck_secs bytes) (ck_sl bytes) i
  = Ok (words (N.to_nat (ck_per bytes)) (ck_sec bytes i)).
Proof.
  intros i Hi. unfold read_difat_sector. rewrite img_read_sec by exact Hi.
  rewrite StrictProofs.takeN_all by (rewrite ck_sec_len by exact Hi; lia).
  rewrite ck_sec_len by exact Hi. rewrite N.ltb_irrefl. apply read_sector_words. exact Hi.
Qed.
End Geometry.

(* ================================================================== *)
(* 2. the DIFAT walk of the checker is the DIFAT loop of the model      *)
(* ================================================================== *)

Lemma difat_walk_S : forall ns per sec f cur ids acc,
  difat_walk_f ns per sec (S f) cur ids acc =
  if cur =? END_OF_CHAIN then Some (rev ids, acc) else
  if ns <=? cur then None else
  if memN cur ids then None else
  match lastN (words (N.to_nat per) (sec cur)) with
  | None => None
  | Some nx => difat_walk_f ns per sec f nx (cur :: ids) (acc ++ pop_last (words (N.to_nat per) (sec cur)))
  end.
Proof. reflexivity. Qed.

Lemma difat_walk_prefix : forall ns per sec f cur ids acc rids all,
  difat_walk_f ns per sec f cur ids acc = Some (rids, all) -> exists ext, all = acc ++ ext.
Proof.
  intros ns per sec. induction f as [|f IH]; intros cur ids acc rids all H; [discriminate|].
  rewrite difat_walk_S in H.
  destruct (cur =? END_OF_CHAIN); [injection H as _ <-; exists []; rewrite app_nil_r; reflexivity|].
  destruct (ns <=? cur); [discriminate|]. destruct (memN cur ids); [discriminate|].
  destruct (lastN (words (N.to_nat per) (sec cur))) as [nx|]; [|discriminate].
  apply IH in H. destruct H as [ext ->]. rewrite <- app_assoc. eexists. reflexivity.
Qed.

Lemma takeN_pop_last : forall A (l : list A) x, lastN l = Some x ->
  takeN (lenN l - 1) l = pop_last l /\ nthN l (lenN l - 1) = Some x.
Proof.
  intros A l x H. apply ReuseProofs.lastN_Some_snoc in H.
  set (p := pop_last l) in *. rewrite H. rewrite CodecProofs.lenN_app. cbn [lenN].
  replace (lenN p + N.succ 0 - 1) with (lenN p) by lia. split.
  - apply CodecProofs.takeN_app_exact.
  - apply CodecProofs.nthN_app_exact.
Qed.

Lemma check_difat_cells_ok : forall cells,
  (forall x, In x cells -> x = FREE_SECTOR \/ x <= MAX_REGULAR_SECTOR) -> check_difat_cells cells = Ok tt.
Proof.
  induction cells as [|c t IH]; intro H; [reflexivity|]. cbn [check_difat_cells].
  destruct (H c (or_introl eq_refl)) as [->|Hc].
  - rewrite N.eqb_refl. cbn [negb andb]. apply IH. intros x Hx. apply H. right. exact Hx.
  - replace (MAX_REGULAR_SECTOR <? c) with false by lia. rewrite andb_false_r.
    apply IH. intros x Hx. apply H. right. exact Hx.
Qed.

Lemma difat_loop_of_walk : forall bytes,
  lenN bytes mod ck_sl bytes = 0 -> 2 * ck_sl bytes <= lenN bytes ->
  ck_ns bytes <= MAX_REGULAR_SECTOR ->
  forall f cur ids acc rids all,
  difat_walk_f (ck_ns bytes) (ck_per bytes) (ck_sec bytes) f cur ids acc = Some (rids, all) ->
  (forall x, In x all -> x = FREE_SECTOR \/ x <= MAX_REGULAR_SECTOR) ->
  forall f', (f <= f')%nat ->
  difat_loop f' true (ck_secs bytes) (ck_sl bytes) (ck_ns bytes) cur ids (rev ids) acc = Ok (rids, all).
Proof.
  intros bytes Hmod Hlen Hns. induction f as [|f IH]; intros cur ids acc rids all H Hall f' Hf; [discriminate|].
  destruct f' as [|f']; [lia|]. rewrite difat_walk_S in H. cbn [difat_loop]. mk.
  destruct (N.eqb_spec cur END_OF_CHAIN) as [Ec|Ec].
  { injection H as <- <-. cbn [orb]. reflexivity. }
  destruct (N.leb_spec (ck_ns bytes) cur) as [Hge|Hlt]; [discriminate|].
  destruct (memN cur ids) eqn:Em; [discriminate|].
  destruct (lastN (words (N.to_nat (ck_per bytes)) (ck_sec bytes cur))) as [nx|] eqn:El; [|discriminate].
  replace (cur =? FREE_SECTOR) with false by lia. cbn [orb].
  replace (MAX_REGULAR_SECTOR <? cur) with false by lia.
  rewrite (read_difat_words bytes Hmod Hlen cur Hlt). cbn [rbind].
  destruct (takeN_pop_last _ _ _ El) as [Et En]. rewrite lenN_words in Et, En.
  assert (Eper : N.of_nat (N.to_nat (ck_per bytes)) = ck_sl bytes / 4) by (unfold ck_per; apply N2Nat.id).
  rewrite Eper in Et, En. rewrite Et, En.
  destruct (difat_walk_prefix _ _ _ _ _ _ _ _ _ H) as [ext Hext].
  rewrite check_difat_cells_ok.
  2:{ intros x Hx. apply Hall. rewrite Hext. apply in_or_app. left. apply in_or_app. right. exact Hx. }
  cbn [rbind andb].
  assert (Hnx : nx <> FREE_SECTOR).
  { destruct f as [|f0]; [discriminate|]. rewrite difat_walk_S in H.
    destruct (N.eqb_spec nx END_OF_CHAIN) as [E1|E1]; [lia|].
    destruct (N.leb_spec (ck_ns bytes) nx); [discriminate|]. lia. }
  replace (nx =? FREE_SECTOR) with false by lia.
  change (rev ids ++ [cur]) with (rev (cur :: ids)). apply IH; [exact H|exact Hall|lia].
Qed.

Lemma filter_prefix_shape : forall (p : N -> bool) l,
  takeN (lenN (filter p l)) l = filter p l ->
  l = filter p l ++ dropN (lenN (filter p l)) l /\
  Forall (fun x => p x = false) (dropN (lenN (filter p l)) l).
Proof.
  intros p l H. set (k := lenN (filter p l)) in *.
  pose proof (ChainProofs.takeN_dropN_id _ l k) as Hs. rewrite H in Hs. split; [symmetry; exact Hs|].
  assert (Hf : filter p l = filter p (filter p l) ++ filter p (dropN k l)).
  { rewrite <- filter_app. rewrite Hs. reflexivity. }
  rewrite (filter_all _ p (filter p l)) in Hf by (intros x Hx; apply filter_In in Hx; tauto).
  rewrite <- (app_nil_r (filter p l)) in Hf at 1. apply app_inv_head in Hf.
  apply Forall_forall. intros x Hx. destruct (p x) eqn:E; [|reflexivity].
  assert (Hin : In x (filter p (dropN k l))) by (apply filter_In; tauto).
  rewrite <- Hf in Hin. destruct Hin.
Qed.

Lemma difat_ok_split : forall hdr ext F R, hdr ++ ext = F ++ R ->
  Forall (fun c => c <= MAX_REGULAR_SECTOR) F -> Forall (eq FREE_SECTOR) R -> CodecProofs.difat_ok hdr.
Proof.
  induction hdr as [|c t IH]; intros ext F R H HF HR; [exact I|].
  destruct F as [|c' F'].
  - cbn [app] in H. left. rewrite <- H in HR. cbn [app] in HR. inversion HR as [|? ? Hc Ht]; subst.
    split; [reflexivity|]. apply Forall_app in Ht. apply Ht.
  - cbn [app] in H. injection H as <- H. inversion HF; subst. right. split; [assumption|].
    eapply IH; eauto.
Qed.

Lemma strip_free_tail : forall F R, Forall (fun c => c <= MAX_REGULAR_SECTOR) F -> Forall (eq FREE_SECTOR) R ->
  strip_last_while (fun x => x =? FREE_SECTOR) 0 (F ++ R) = F.
Proof.
  intros F R HF HR. rewrite <- (CodecProofs.repeatN_lenN _ FREE_SECTOR R HR).
  rewrite strip_app_repeat by (try apply N.eqb_refl; lia).
  apply strip_keep. intros x Hx. apply CoherenceProofs.lastN_In in Hx.
  rewrite Forall_forall in HF. specialize (HF x Hx). mk. lia.
Qed.

(* ---- the facts of rules 10-21 in the form the model needs ---- *)
Section FatStage.
Variable bytes : list byte.
Variables difat_ids difat_all own1 : list N.
Hypothesis Hmod : lenN bytes mod ck_sl bytes = 0.
Hypothesis Hlen : 2 * ck_sl bytes <= lenN bytes.
Hypothesis Hsize : SizeOk bytes.
Hypothesis Hdw : ck_difat bytes = Some (difat_ids, difat_all).
Hypothesis HF : fat_facts bytes difat_ids difat_all own1.

Lemma ns_le_maxreg : ck_ns bytes <= MAX_REGULAR_SECTOR.
Proof.
  unfold SizeOk in Hsize. pose proof (len_eq bytes Hmod Hlen) as HL. rewrite HL in Hsize. mk.
  destruct (ck_sl_cases bytes) as [E|E]; rewrite E in Hsize; clear Hmod Hlen HL; lia.
Qed.

Lemma fat_ids_regular : Forall (fun c => c <= MAX_REGULAR_SECTOR) (fat_ids_of difat_all).
Proof.
  apply Forall_forall. intros x Hx. pose proof (ff_range _ _ _ _ HF x Hx). pose proof ns_le_maxreg. lia.
Qed.

Lemma difat_all_shape : exists R, difat_all = fat_ids_of difat_all ++ R /\ Forall (eq FREE_SECTOR) R.
Proof.
  destruct (filter_prefix_shape _ _ (ff_prefix _ _ _ _ HF)) as [Hs Hr].
  eexists. split; [exact Hs|]. eapply Forall_impl; [|exact Hr]. cbv beta. intros a Ha.
  apply negb_false_iff in Ha. lia.
Qed.

Lemma difat_all_cells : forall x, In x difat_all -> x = FREE_SECTOR \/ x <= MAX_REGULAR_SECTOR.
Proof.
  intros x Hx. destruct difat_all_shape as (R & Hs & HR). rewrite Hs in Hx. apply in_app_or in Hx.
  destruct Hx as [Hx|Hx].
  - right. pose proof fat_ids_regular as Hreg. rewrite Forall_forall in Hreg. apply Hreg. exact Hx.
  - left. rewrite Forall_forall in HR. symmetry. apply HR. exact Hx.
Qed.

Lemma hdr_difat_ok : CodecProofs.difat_ok (words 109 (dropN 76 bytes)).
Proof.
  unfold ck_difat in Hdw. destruct (difat_walk_prefix _ _ _ _ _ _ _ _ _ Hdw) as [ext Hext].
  destruct difat_all_shape as (R & Hs & HR). rewrite Hs in Hext.
  eapply difat_ok_split; [symmetry; exact Hext|exact fat_ids_regular|exact HR].
Qed.

Lemma first_difat_not_free : u32_at bytes 68 <> FREE_SECTOR.
Proof.
  unfold ck_difat in Hdw. rewrite difat_walk_S in Hdw. intro E. rewrite E in Hdw. mk.
  pose proof ns_le_maxreg.
  replace (FREE_SECTOR =? END_OF_CHAIN) with false in Hdw by lia.
  replace (ck_ns bytes <=? FREE_SECTOR) with true in Hdw by lia. discriminate.
Qed.

Lemma difat_loop_ok : forall f', (S (N.to_nat (ck_ns bytes)) <= f')%nat ->
  difat_loop f' true (ck_secs bytes) (ck_sl bytes) (ck_ns bytes) (u32_at bytes 68) [] []
             (words 109 (dropN 76 bytes)) = Ok (difat_ids, difat_all).
Proof.
  intros f' Hf. change (@nil N) with (rev (@nil N)) at 2.
  eapply difat_loop_of_walk; [exact Hmod|exact Hlen|exact ns_le_maxreg|exact Hdw|exact difat_all_cells|exact Hf].
Qed.

Lemma strip_difat_all : strip_last_while (fun x => x =? FREE_SECTOR) 0 difat_all = fat_ids_of difat_all.
Proof.
  destruct difat_all_shape as (R & Hs & HR). rewrite Hs at 1. apply strip_free_tail; [exact fat_ids_regular|exact HR].
Qed.
End FatStage.

(* ================================================================== *)
(* 3. stage 1: the header                                               *)
(* ================================================================== *)

Definition ck_header (bytes : list byte) : header :=
  mkHeader (ver_of bytes) (if vnum_of bytes =? 3 then 0 else u32_at bytes 40)
           (u32_at bytes 44) (u32_at bytes 48) (u32_at bytes 60) (u32_at bytes 64)
           (u32_at bytes 68) (u32_at bytes 72) (words 109 (dropN 76 bytes)).

Lemma wf_facts : forall bytes, wf_check bytes = 0 ->
  exists difat_ids difat_all own1,
    lenN bytes mod ck_sl bytes = 0 /\ 2 * ck_sl bytes <= lenN bytes /\
    ck_difat bytes = Some (difat_ids, difat_all) /\
    fat_facts bytes difat_ids difat_all own1 /\
    stage_dir (ck_sl bytes) (ck_per bytes) (vnum_of bytes) (ck_sec bytes) (ck_fat bytes difat_all)
              (u32_at bytes 40) (u32_at bytes 48) (u32_at bytes 60) (u32_at bytes 64) own1 = 0.
Proof.
  intros bytes H. destruct (wf_inv_body bytes H) as (Hmod & Hlen & _ & ids & all & Hd & Hf).
  destruct (wf_inv_fat _ _ _ Hf) as (own1 & HF & Hdir).
  exists ids, all, own1. split; [exact Hmod|]. split; [exact Hlen|]. split; [exact Hd|].
  split; [exact HF|exact Hdir].
Qed.

Lemma win_take : forall A (l : list A) off k n, off + k <= n ->
  takeN k (dropN off (takeN n l)) = takeN k (dropN off l).
Proof.
  intros A l off k n H. apply StrictProofs.win_ext. intros i Hi.
  rewrite StrictProofs.nthN_takeN. replace (off + i <? n) with true by lia. reflexivity.
Qed.

Lemma takeN_takeN_le : forall A (l : list A) a b, a <= b -> takeN a (takeN b l) = takeN a l.
Proof.
  intros A l a b H. apply StrictProofs.list_ext. intro i. rewrite !StrictProofs.nthN_takeN.
  destruct (i <? a) eqn:E; [|reflexivity]. replace (i <? b) with true by lia. reflexivity.
Qed.

Theorem wf_header_ok : forall bytes, wf_check bytes = 0 -> SizeOk bytes ->
  header_decode true (takeN HEADER_LEN bytes) = Ok (ck_header bytes).
Proof.
  intros bytes H Hsize.
  destruct (wf_inv_header bytes H) as (H1 & H2 & H3 & H4 & H5 & H6 & H7 & _).
  destruct (wf_facts bytes H) as (ids & all & own1 & Hmod & Hlen & Hd & HF & Hdir).
  destruct (wf_inv_dir _ _ _ Hdir) as (dir_ids & own2 & root & rest & _ & _ & H24 & _).
  pose proof (hdr_difat_ok bytes ids all own1 Hmod Hlen Hsize Hd HF) as Hok.
  pose proof (first_difat_not_free bytes ids all Hmod Hlen Hsize Hd) as Hfd.
  unfold header_decode.
  rewrite StrictProofs.lenN_takeN. replace (N.min HEADER_LEN (lenN bytes) <? HEADER_LEN) with false by lia.
  rewrite takeN_takeN_le by (unfold HEADER_LEN; lia).
  rewrite H2, CodecProofs.list_eqb_refl. cbn [negb].
  rewrite !win_take by (unfold HEADER_LEN, NUM_DIFAT_HDR; lia).
  change (le_val (takeN 2 (dropN 26 bytes))) with (vnum_of bytes).
  change (le_val (takeN 2 (dropN 28 bytes))) with (u16_at bytes 28).
  change (le_val (takeN 2 (dropN 30 bytes))) with (u16_at bytes 30).
  change (le_val (takeN 2 (dropN 32 bytes))) with (u16_at bytes 32).
  change (le_val (takeN 4 (dropN 40 bytes))) with (u32_at bytes 40).
  change (le_val (takeN 4 (dropN 44 bytes))) with (u32_at bytes 44).
  change (le_val (takeN 4 (dropN 48 bytes))) with (u32_at bytes 48).
  change (le_val (takeN 4 (dropN 56 bytes))) with (u32_at bytes 56).
  change (le_val (takeN 4 (dropN 60 bytes))) with (u32_at bytes 60).
  change (le_val (takeN 4 (dropN 64 bytes))) with (u32_at bytes 64).
  change (le_val (takeN 4 (dropN 68 bytes))) with (u32_at bytes 68).
  change (le_val (takeN 4 (dropN 72 bytes))) with (u32_at bytes 72).
  rewrite H3, N.eqb_refl. cbn [negb].
  assert (Hw : u32s (takeN (4 * NUM_DIFAT_HDR) (dropN 76 bytes)) = words 109 (dropN 76 bytes)).
  { rewrite <- (ChainProofs.takeN_dropN_id _ (dropN 76 bytes) (4 * NUM_DIFAT_HDR)) at 2.
    symmetry. apply words_app_u32s. rewrite StrictProofs.lenN_takeN, StrictProofs.lenN_dropN.
    unfold NUM_DIFAT_HDR, HEADER_LEN in *. lia. }
  rewrite Hw, (CodecProofs.hdr_difat_go_ok _ Hok). cbn [rbind].
  replace (u32_at bytes 68 =? FREE_SECTOR) with false by lia.
  rewrite H5, H6, H7. unfold ck_header, ver_of, shift_of in *.
  destruct H4 as [E|E]; rewrite E in *; cbn [version_of_number N.eqb Pos.eqb V3_NUMBER V4_NUMBER sector_shift
      V3_SECTOR_SHIFT V4_SECTOR_SHIFT negb andb version_eqb].
  - rewrite H24. cbn [N.eqb negb andb]. reflexivity.
  - reflexivity.
Qed.

(* ================================================================== *)
(* 4. inversion of the remaining stages of the checker                  *)
(* ================================================================== *)

Record tree_facts (es : list wentry) (root : wentry) (reach : list N) : Prop := mkTreeFacts {
  tf_root_type : w_type root = OBJ_TYPE_ROOT;
  tf_root_name : exists n, scalars (w_name root) = Some n /\ n = ROOT_DIR_NAME;
  tf_root_left : w_left root = NO_STREAM;
  tf_root_right : w_right root = NO_STREAM;
  tf_root_color : w_color root = COLOR_RED \/ w_color root = COLOR_BLACK;
  tf_root_nameok : exists n, name_ok root = Some n;
  tf_walk : tree_walk (S (length es)) es [w_child root] [0] = Some reach;
  tf_blank : forall i e, nthN es i = Some e -> memN i reach = false -> blank_entry e = true;
  tf_blank_even : forall i e, nthN es i = Some e -> memN i reach = false -> w_namelen e mod 2 = 0;
  tf_storage : forall i e, nthN es i = Some e -> w_type e = OBJ_TYPE_STORAGE -> memN i reach = true ->
     w_start e = 0 /\ w_len e = 0;
  tf_stream : forall i e, nthN es i = Some e -> w_type e = OBJ_TYPE_STREAM -> memN i reach = true ->
     w_clsid_zero e = true /\ w_ctime e = 0 /\ w_mtime e = 0 /\ w_child e = NO_STREAM
}.

Lemma wf_inv_tree : forall sl per sec fat es root own2 fm nm,
  stage_tree sl per sec fat es root own2 fm nm = 0 ->
  exists reach, tree_facts es root reach /\
    stage_mini sl per sec fat es root reach own2 fm nm = 0.
Proof.
  intros sl per sec fat es root own2 fm nm H. unfold stage_tree in H.
  destruct (w_type root =? OBJ_TYPE_ROOT) eqn:E27; cbn [negb] in H; [|discriminate].
  destruct (scalars (w_name root)) as [n|] eqn:E28s; cbn [negb] in H; [|discriminate].
  destruct (list_eqb N.eqb n ROOT_DIR_NAME) eqn:E28; cbn [negb] in H; [|discriminate].
  destruct ((w_left root =? NO_STREAM) && (w_right root =? NO_STREAM)) eqn:E29; cbn [negb] in H; [|discriminate].
  destruct ((w_color root =? COLOR_RED) || (w_color root =? COLOR_BLACK)) eqn:E46; cbn [negb] in H; [|discriminate].
  destruct (name_ok root) as [rn|] eqn:E47; cbn [negb] in H; [|discriminate].
  destruct (tree_walk (S (length es)) es [w_child root] [0]) as [reach|] eqn:E30; [|discriminate].
  match type of H with (if negb ?c then _ else _) = 0 => destruct c eqn:E31; cbn [negb] in H; [|discriminate] end.
  match type of H with (if negb ?c then _ else _) = 0 => destruct c eqn:E48; cbn [negb] in H; [|discriminate] end.
  match type of H with (if negb ?c then _ else _) = 0 => destruct c eqn:E32; cbn [negb] in H; [|discriminate] end.
  match type of H with (if negb ?c then _ else _) = 0 => destruct c eqn:E49; cbn [negb] in H; [|discriminate] end.
  match type of H with (if negb ?c then _ else _) = 0 => destruct c eqn:E50; cbn [negb] in H; [|discriminate] end.
  exists reach. split; [|exact H].
  apply andb_true_iff in E29. destruct E29 as [E29a E29b].
  constructor.
  - lia.
  - exists n. split; [first [exact E28s|reflexivity]|]. apply StrictProofs.list_eqb_eq. exact E28.
  - lia.
  - lia.
  - apply orb_true_iff in E46. destruct E46 as [E|E]; [left|right]; lia.
  - exists rn. exact E47.
  - first [exact E30|reflexivity].
  - intros i e Hi Hm. pose proof (forallb_nth_index _ _ _ _ E31 i e Hi) as Hb. cbv beta iota in Hb.
    rewrite N.add_0_l, Hm in Hb. exact Hb.
  - intros i e Hi Hm. pose proof (forallb_nth_index _ _ _ _ E48 i e Hi) as Hb. cbv beta iota in Hb.
    rewrite N.add_0_l, Hm in Hb. lia.
  - intros i e Hi Ht Hm. pose proof (forallb_nth_index _ _ _ _ E49 i e Hi) as Hb.
    pose proof (forallb_nth_index _ _ _ _ E50 i e Hi) as Hb2. cbv beta iota in Hb, Hb2.
    rewrite N.add_0_l, Hm, Ht, N.eqb_refl in Hb, Hb2. cbn [andb] in Hb, Hb2. lia.
  - intros i e Hi Ht Hm. pose proof (forallb_nth_index _ _ _ _ E32 i e Hi) as Hb. cbv beta iota in Hb.
    rewrite N.add_0_l, Hm, Ht, N.eqb_refl in Hb. cbn [andb] in Hb.
    apply andb_true_iff in Hb. destruct Hb as [Hb H4]. apply andb_true_iff in Hb. destruct Hb as [Hb H3].
    apply andb_true_iff in Hb. destruct Hb as [H1 H2]. repeat split; try lia. exact H1.
Qed.

Definition mf_full_of (bytes : list byte) (mf_ids : list N) : list N :=
  flat_map (fun i => words (N.to_nat (ck_per bytes)) (ck_sec bytes i)) mf_ids.

Record mini_facts (bytes : list byte) (fat : list N) (root : wentry) (own2 : list N)
       (mf_ids ms_ids own4 : list N) : Prop := mkMiniFacts {
  mn_chain : chain_of fat (u32_at bytes 60) = Some mf_ids;
  mn_num : u32_at bytes 64 = lenN mf_ids;
  mn_len64 : w_len root mod MINI_SECTOR_LEN = 0;
  mn_ms : chain_of fat (w_start root) = Some ms_ids;
  mn_ms_cap : w_len root <= lenN ms_ids * ck_sl bytes;
  mn_own : exists own3, disjoint_add mf_ids own2 = Some own3 /\ disjoint_add ms_ids own3 = Some own4;
  mn_enough : w_len root / MINI_SECTOR_LEN <= lenN (mf_full_of bytes mf_ids);
  mn_tail : forall x, In x (dropN (w_len root / MINI_SECTOR_LEN) (mf_full_of bytes mf_ids)) -> x = FREE_SECTOR
}.

Lemma wf_inv_mini : forall bytes fat es root reach own2,
  stage_mini (ck_sl bytes) (ck_per bytes) (ck_sec bytes) fat es root reach own2 (u32_at bytes 60) (u32_at bytes 64) = 0 ->
  exists mf_ids ms_ids own4, mini_facts bytes fat root own2 mf_ids ms_ids own4 /\
    stage_own (ck_sl bytes) fat (takeN (w_len root / MINI_SECTOR_LEN) (mf_full_of bytes mf_ids)) es reach own4 = 0.
Proof.
  intros bytes fat es root reach own2 H. unfold stage_mini in H. cbv zeta in H.
  destruct (chain_of fat (u32_at bytes 60)) as [mf_ids|] eqn:E33; [|discriminate].
  fold (mf_full_of bytes mf_ids) in H.
  destruct (u32_at bytes 64 =? lenN mf_ids) eqn:E34; cbn [negb] in H; [|discriminate].
  destruct (disjoint_add mf_ids own2) as [own3|] eqn:E35; [|discriminate].
  destruct (w_len root mod MINI_SECTOR_LEN =? 0) eqn:E36; cbn [negb] in H; [|discriminate].
  destruct (chain_of fat (w_start root)) as [ms_ids|] eqn:E37; [|discriminate].
  destruct (lenN ms_ids * ck_sl bytes <? w_len root) eqn:E38; [discriminate|].
  destruct (disjoint_add ms_ids own3) as [own4|] eqn:E39; [|discriminate].
  destruct (lenN (mf_full_of bytes mf_ids) <? w_len root / MINI_SECTOR_LEN) eqn:E40; [discriminate|].
  match type of H with (if negb ?c then _ else _) = 0 => destruct c eqn:E41; cbn [negb] in H; [|discriminate] end.
  exists mf_ids, ms_ids, own4. split; [|exact H]. constructor; try lia; try reflexivity; try assumption.
  - exists own3. split; assumption.
  - rewrite forallb_forall in E41. intros x Hx. specialize (E41 x Hx). lia.
Qed.

Lemma wf_inv_own : forall sl fat mf es reach own4,
  stage_own sl fat mf es reach own4 = 0 ->
  exists own5 mown,
    fold_left (streams_step sl fat mf)
      (filter (fun '(i, e) => (w_type e =? OBJ_TYPE_STREAM) && memN i reach) (index_from es 0))
      (Some (own4, [])) = Some (own5, mown) /\
    (forall i v, nthN fat i = Some v -> if v =? FREE_SECTOR then memN i own5 = false else memN i own5 = true) /\
    (forall i v, nthN mf i = Some v -> if v =? FREE_SECTOR then memN i mown = false else memN i mown = true).
Proof.
  intros sl fat mf es reach own4 H. unfold stage_own in H. cbv zeta in H.
  match type of H with match ?d with _ => _ end = 0 => destruct d as [[own5 mown]|] eqn:E42; [|discriminate] end.
  match type of H with (if negb ?c then _ else _) = 0 => destruct c eqn:E43; cbn [negb] in H; [|discriminate] end.
  match type of H with (if negb ?c then _ else _) = 0 => destruct c eqn:E44; cbn [negb] in H; [|discriminate] end.
  exists own5, mown. split; [reflexivity|]. split.
  - intros i v Hv. pose proof (forallb_nth_index _ _ _ _ E43 i v Hv) as Hb. cbv beta iota in Hb.
    rewrite N.add_0_l in Hb. destruct (v =? FREE_SECTOR); [apply negb_true_iff in Hb|]; exact Hb.
  - intros i v Hv. pose proof (forallb_nth_index _ _ _ _ E44 i v Hv) as Hb. cbv beta iota in Hb.
    rewrite N.add_0_l in Hb. destruct (v =? FREE_SECTOR); [apply negb_true_iff in Hb|]; exact Hb.
Qed.

(* ================================================================== *)
(* 5. ownership: disjoint chains covering the table make it a valid     *)
(*    allocation table for the model's check_pointees                    *)
(* ================================================================== *)

Lemma In_nthN : forall A (l : list A) x, In x l -> exists i, nthN l i = Some x.
Proof.
  intros A l x. induction l as [|a t IH]; intro H; [destruct H|].
  destruct H as [->|H].
  - exists 0. reflexivity.
  - destruct (IH H) as [i Hi]. exists (N.succ i). rewrite StrictProofs.nthN_cons_succ. exact Hi.
Qed.

Lemma inj_nodup_regs : forall l,
  (forall i j c, nthN l i = Some c -> nthN l j = Some c -> c <= MAX_REGULAR_SECTOR -> i = j) ->
  NoDup (WalkProofs.regs l).
Proof.
  induction l as [|a t IH]; intro H; [constructor|].
  assert (Ht : NoDup (WalkProofs.regs t)).
  { apply IH. intros i j c Hi Hj Hc.
    assert (N.succ i = N.succ j); [|lia].
    apply (H _ _ c); [rewrite StrictProofs.nthN_cons_succ; exact Hi|rewrite StrictProofs.nthN_cons_succ; exact Hj|exact Hc]. }
  unfold WalkProofs.regs. cbn [filter]. fold (WalkProofs.regs t).
  destruct (WalkProofs.regular a) eqn:Ea; [|exact Ht].
  constructor; [|exact Ht]. intro Hin. unfold WalkProofs.regs in Hin. apply filter_In in Hin.
  destruct Hin as [Hin _]. destruct (In_nthN _ _ _ Hin) as [j Hj].
  assert (0 = N.succ j); [|lia].
  apply (H _ _ a); [reflexivity|rewrite StrictProofs.nthN_cons_succ; exact Hj|].
  unfold WalkProofs.regular in Ea. lia.
Qed.

Section Own.
Variable tbl : list N.

Definition Closed (own : list N) : Prop :=
  forall x c, In x own -> nthN tbl x = Some c -> c <= MAX_REGULAR_SECTOR -> In c own /\ c < lenN tbl.
Definition Inj (own : list N) : Prop :=
  forall x y c, In x own -> In y own -> nthN tbl x = Some c -> nthN tbl y = Some c ->
    c <= MAX_REGULAR_SECTOR -> x = y.

Lemma walk_conv : forall fuel cur acc l, walk fuel tbl cur acc = Some l ->
  exists l', l = rev acc ++ l' /\ WalkProofs.path tbl cur l' /\ NoDup l' /\
    (forall x, In x l' -> ~ In x acc) /\ Forall (fun x => x <= MAX_REGULAR_SECTOR) l'.
Proof.
  induction fuel as [|f IH]; intros cur acc l H; [discriminate|]. cbn [walk] in H.
  destruct (N.eqb_spec cur END_OF_CHAIN) as [Ec|Ec].
  { injection H as <-. exists []. rewrite app_nil_r. subst cur.
    repeat split; try constructor. intros x []. }
  destruct (N.ltb_spec MAX_REGULAR_SECTOR cur) as [Hm|Hm]; [discriminate|].
  destruct (memN cur acc) eqn:Em; [discriminate|].
  destruct (nthN tbl cur) as [nx|] eqn:En; [|discriminate].
  apply IH in H. destruct H as (l2 & -> & Hp & Hnd & Hdis & Hreg).
  exists (cur :: l2). split; [cbn [rev]; rewrite <- app_assoc; reflexivity|].
  split; [|split; [|split]].
  - econstructor; [exact Ec| |exact Hp]. apply WalkProofs.next_of_Ok. split; [exact En|].
    inversion Hp as [|c nx' l' Hc Hn Hp' E1 E2]; subst; [left; reflexivity|right].
    inversion Hreg; subst. split; [assumption|]. eapply WalkProofs.next_of_lt; eauto.
  - constructor; [|exact Hnd]. intro Hin. apply (Hdis cur Hin). left. reflexivity.
  - intros x [<-|Hx]; [apply WalkProofs.memN_false; exact Em|].
    intro Hin. apply (Hdis x Hx). right. exact Hin.
  - constructor; assumption.
Qed.

Lemma path_succ_tl : forall st l, WalkProofs.path tbl st l ->
  forall x c, In x l -> nthN tbl x = Some c -> c <= MAX_REGULAR_SECTOR -> In c (tl l) /\ c < lenN tbl.
Proof.
  intros st l Hp. induction Hp as [|cur nx l Hc Hn Hp IH]; intros x c Hx Hv Hreg; [destruct Hx|].
  cbn [tl]. destruct Hx as [<-|Hx].
  - apply WalkProofs.next_of_Ok in Hn. destruct Hn as [Hn Hr]. rewrite Hn in Hv. injection Hv as <-.
    mk. destruct Hr as [Hr|[_ Hr]]; [lia|]. split; [|exact Hr].
    inversion Hp; subst; [lia|]. left. reflexivity.
  - destruct (IH x c Hx Hv Hreg) as [Hin Hlt]. split; [|exact Hlt].
    destruct l; [destruct Hin|]. right. exact Hin.
Qed.

Lemma path_closed : forall st l, WalkProofs.path tbl st l -> Closed l.
Proof.
  intros st l Hp x c Hx Hv Hreg. destruct (path_succ_tl st l Hp x c Hx Hv Hreg) as [Hin Hlt].
  split; [|exact Hlt]. destruct l; [destruct Hin|]. right. exact Hin.
Qed.

Lemma path_inj : forall st l, WalkProofs.path tbl st l -> NoDup l -> Inj l.
Proof.
  intros st l Hp. induction Hp as [|cur nx l Hc Hn Hp IH]; intros Hnd x y c Hx Hy Hvx Hvy Hreg; [destruct Hx|].
  inversion Hnd as [|? ? Hni Hnd']; subst.
  assert (Hhead : forall z, In z l -> nthN tbl z = Some c -> nthN tbl cur = Some c -> False).
  { intros z Hz Hvz Hvc. apply WalkProofs.next_of_Ok in Hn. destruct Hn as [Hn _].
    rewrite Hn in Hvc. injection Hvc as ->.
    destruct (path_succ_tl _ _ Hp z c Hz Hvz Hreg) as [Hin _].
    inversion Hp; subst; [destruct Hz|]. cbn [tl] in Hin.
    inversion Hnd'; subst. contradiction. }
  destruct Hx as [<-|Hx]; destruct Hy as [<-|Hy].
  - reflexivity.
  - exfalso. eapply Hhead; eauto.
  - exfalso. eapply Hhead; eauto.
  - eapply IH; eauto.
Qed.

Lemma chain_of_J : forall st l, chain_of tbl st = Some l ->
  Closed l /\ Inj l /\ NoDup l /\ Forall (fun x => x <= MAX_REGULAR_SECTOR) l /\ WalkProofs.path tbl st l.
Proof.
  intros st l H. unfold chain_of in H. apply walk_conv in H.
  destruct H as (l' & -> & Hp & Hnd & _ & Hreg). cbn [rev app].
  split; [eapply path_closed; eauto|]. split; [eapply path_inj; eauto|]. repeat split; assumption.
Qed.

Lemma J_union : forall a b o, Closed a -> Inj a -> Closed b -> Inj b ->
  (forall x, In x a -> ~ In x b) -> (forall z, In z o <-> In z a \/ In z b) -> Closed o /\ Inj o.
Proof.
  intros a b o Ca Ia Cb Ib Hdis Ho. split.
  - intros x c Hx Hv Hreg. apply Ho in Hx. destruct Hx as [Hx|Hx].
    + destruct (Ca x c Hx Hv Hreg) as [H1 H2]. split; [apply Ho; left; exact H1|exact H2].
    + destruct (Cb x c Hx Hv Hreg) as [H1 H2]. split; [apply Ho; right; exact H1|exact H2].
  - intros x y c Hx Hy Hvx Hvy Hreg. apply Ho in Hx. apply Ho in Hy.
    destruct Hx as [Hx|Hx]; destruct Hy as [Hy|Hy].
    + eapply Ia; eauto.
    + exfalso. destruct (Ca x c Hx Hvx Hreg) as [H1 _]. destruct (Cb y c Hy Hvy Hreg) as [H2 _].
      exact (Hdis c H1 H2).
    + exfalso. destruct (Cb x c Hx Hvx Hreg) as [H1 _]. destruct (Ca y c Hy Hvy Hreg) as [H2 _].
      exact (Hdis c H2 H1).
    + eapply Ib; eauto.
Qed.

Lemma J_irregular : forall a, (forall x c, In x a -> nthN tbl x = Some c -> MAX_REGULAR_SECTOR < c) ->
  Closed a /\ Inj a.
Proof.
  intros a H. split.
  - intros x c Hx Hv Hreg. specialize (H x c Hx Hv). lia.
  - intros x y c Hx _ Hv _ Hreg. specialize (H x c Hx Hv). lia.
Qed.

Lemma check_pointees_of_J : forall b own, Closed own -> Inj own ->
  (forall i c, nthN tbl i = Some c -> c <= MAX_REGULAR_SECTOR -> In i own) ->
  (b = false -> ~ In INVALID_SECTOR tbl) ->
  check_pointees b tbl (lenN tbl) [] = Ok tt.
Proof.
  intros b own Hc Hi Hcov Hinv. apply WalkProofs.check_pointees_spec. split; [|split; [|split]].
  - apply Forall_forall. intros c Hin. unfold WalkProofs.regs in Hin. apply filter_In in Hin.
    destruct Hin as [Hin Hr]. unfold WalkProofs.regular in Hr.
    destruct (In_nthN _ _ _ Hin) as [i Hv]. assert (Hreg : c <= MAX_REGULAR_SECTOR) by lia.
    apply (Hc i c (Hcov i c Hv Hreg) Hv Hreg).
  - apply inj_nodup_regs. intros i j c Hvi Hvj Hreg.
    apply (Hi i j c (Hcov i c Hvi Hreg) (Hcov j c Hvj Hreg) Hvi Hvj Hreg).
  - intros c _ [].
  - exact Hinv.
Qed.
End Own.

Lemma disjoint_add_inv : forall xs owned o, disjoint_add xs owned = Some o ->
  (forall z, In z o <-> In z xs \/ In z owned) /\ NoDup xs /\ (forall x, In x xs -> ~ In x owned).
Proof.
  induction xs as [|x t IH]; intros owned o H.
  - injection H as <-. split; [intro z; cbn [In]; tauto|]. split; [constructor|intros x []].
  - cbn [disjoint_add] in H. destruct (memN x owned) eqn:Em; [discriminate|].
    apply WalkProofs.memN_false in Em. apply IH in H. destruct H as (Ho & Hnd & Hdis).
    split; [|split].
    + intro z. rewrite Ho. cbn [In]. tauto.
    + constructor; [|exact Hnd]. intro Hin. apply (Hdis x Hin). left. reflexivity.
    + intros y [<-|Hy]; [exact Em|]. intro Hin. apply (Hdis y Hy). right. exact Hin.
Qed.

Lemma J_add_chain : forall tbl own st l own', Closed tbl own -> Inj tbl own ->
  chain_of tbl st = Some l -> disjoint_add l own = Some own' -> Closed tbl own' /\ Inj tbl own'.
Proof.
  intros tbl own st l own' Hc Hi Hch Hd.
  destruct (chain_of_J tbl st l Hch) as (Cl & Il & _ & _ & _).
  destruct (disjoint_add_inv _ _ _ Hd) as (Ho & _ & Hdis).
  eapply (J_union tbl l own own'); eauto.
Qed.

Lemma J_add_irr : forall tbl own l own', Closed tbl own -> Inj tbl own ->
  (forall x c, In x l -> nthN tbl x = Some c -> MAX_REGULAR_SECTOR < c) ->
  disjoint_add l own = Some own' -> Closed tbl own' /\ Inj tbl own'.
Proof.
  intros tbl own l own' Hc Hi Hirr Hd.
  destruct (J_irregular tbl l Hirr) as [Cl Il].
  destruct (disjoint_add_inv _ _ _ Hd) as (Ho & _ & Hdis).
  eapply (J_union tbl l own own'); eauto.
Qed.

Lemma fold_streams_None : forall sl fat mf l, fold_left (streams_step sl fat mf) l None = None.
Proof. intros sl fat mf l. induction l as [|a t IH]; [reflexivity|exact IH]. Qed.

Lemma fold_streams_J : forall sl fat mf l own mown own5 mown5,
  fold_left (streams_step sl fat mf) l (Some (own, mown)) = Some (own5, mown5) ->
  Closed fat own -> Inj fat own -> Closed mf mown -> Inj mf mown ->
  (Closed fat own5 /\ Inj fat own5) /\ (Closed mf mown5 /\ Inj mf mown5).
Proof.
  intros sl fat mf l. induction l as [|ie t IH]; intros own mown own5 mown5 H C1 I1 C2 I2.
  - injection H as <- <-. tauto.
  - cbn [fold_left] in H.
    destruct (streams_step sl fat mf (Some (own, mown)) ie) as [[o' m']|] eqn:E;
      [|rewrite fold_streams_None in H; discriminate].
    assert (HJ : (Closed fat o' /\ Inj fat o') /\ (Closed mf m' /\ Inj mf m')).
    { unfold streams_step in E. cbv zeta in E.
      destruct (w_len (snd ie) =? 0).
      - destruct (w_start (snd ie) =? END_OF_CHAIN); [|discriminate]. injection E as <- <-. tauto.
      - destruct (w_len (snd ie) <? MINI_STREAM_CUTOFF).
        + destruct (chain_of mf (w_start (snd ie))) as [ids|] eqn:Ec; [|discriminate].
          destruct (negb (lenN ids =? ceil_div (w_len (snd ie)) MINI_SECTOR_LEN)); [discriminate|].
          destruct (disjoint_add ids mown) as [m2|] eqn:Ed; [|discriminate]. injection E as <- <-.
          split; [tauto|]. eapply J_add_chain; eauto.
        + destruct (chain_of fat (w_start (snd ie))) as [ids|] eqn:Ec; [|discriminate].
          destruct (negb (lenN ids =? ceil_div (w_len (snd ie)) sl)); [discriminate|].
          destruct (disjoint_add ids own) as [o2|] eqn:Ed; [|discriminate]. injection E as <- <-.
          split; [|tauto]. eapply J_add_chain; eauto. }
    destruct HJ as [[C1' I1'] [C2' I2']]. eapply IH; eauto.
Qed.

(* ---- everything the checker establishes, in one statement ---- *)
Record wf_cert : Type := mkCert {
  wc_difat_ids : list N; wc_difat_all : list N; wc_own1 : list N;
  wc_dir_ids : list N; wc_own2 : list N; wc_root : wentry; wc_rest : list wentry;
  wc_reach : list N; wc_mf_ids : list N; wc_ms_ids : list N; wc_own4 : list N;
  wc_own5 : list N; wc_mown : list N
}.
Definition wc_fat (bytes : list byte) (c : wf_cert) : list N := ck_fat bytes (wc_difat_all c).
Definition wc_es (bytes : list byte) (c : wf_cert) : list wentry := es_of_ids bytes (wc_dir_ids c).
Definition wc_mf (bytes : list byte) (c : wf_cert) : list N :=
  takeN (w_len (wc_root c) / MINI_SECTOR_LEN) (mf_full_of bytes (wc_mf_ids c)).

Record wf_cert_ok (bytes : list byte) (c : wf_cert) : Prop := mkCertOk {
  co_mod : lenN bytes mod ck_sl bytes = 0;
  co_len : 2 * ck_sl bytes <= lenN bytes;
  co_difat : ck_difat bytes = Some (wc_difat_ids c, wc_difat_all c);
  co_fat : fat_facts bytes (wc_difat_ids c) (wc_difat_all c) (wc_own1 c);
  co_dir_chain : chain_of (wc_fat bytes c) (u32_at bytes 48) = Some (wc_dir_ids c);
  co_dir_ne : wc_dir_ids c <> [];
  co_num_dir : if vnum_of bytes =? 3 then u32_at bytes 40 = 0 else u32_at bytes 40 = lenN (wc_dir_ids c);
  co_own2 : disjoint_add (wc_dir_ids c) (wc_own1 c) = Some (wc_own2 c);
  co_es : wc_es bytes c = wc_root c :: wc_rest c;
  co_tree : tree_facts (wc_es bytes c) (wc_root c) (wc_reach c);
  co_mini : mini_facts bytes (wc_fat bytes c) (wc_root c) (wc_own2 c) (wc_mf_ids c) (wc_ms_ids c) (wc_own4 c);
  co_fold : fold_left (streams_step (ck_sl bytes) (wc_fat bytes c) (wc_mf bytes c))
      (filter (fun '(i, e) => (w_type e =? OBJ_TYPE_STREAM) && memN i (wc_reach c)) (index_from (wc_es bytes c) 0))
      (Some (wc_own4 c, [])) = Some (wc_own5 c, wc_mown c);
  co_cover : forall i v, nthN (wc_fat bytes c) i = Some v ->
      if v =? FREE_SECTOR then memN i (wc_own5 c) = false else memN i (wc_own5 c) = true;
  co_mcover : forall i v, nthN (wc_mf bytes c) i = Some v ->
      if v =? FREE_SECTOR then memN i (wc_mown c) = false else memN i (wc_mown c) = true
}.

Theorem wf_certificate : forall bytes, wf_check bytes = 0 -> exists c, wf_cert_ok bytes c.
Proof.
  intros bytes H.
  destruct (wf_facts bytes H) as (ids & all & own1 & Hmod & Hlen & Hd & HF & Hdir).
  destruct (wf_inv_dir _ _ _ Hdir) as (dir_ids & own2 & root & rest & H22 & H23 & H24 & H25 & H26 & Htree).
  destruct (wf_inv_tree _ _ _ _ _ _ _ _ _ Htree) as (reach & HT & Hmini).
  destruct (wf_inv_mini _ _ _ _ _ _ Hmini) as (mf_ids & ms_ids & own4 & HM & Hown).
  destruct (wf_inv_own _ _ _ _ _ _ Hown) as (own5 & mown & Hfold & Hc & Hmc).
  exists (mkCert ids all own1 dir_ids own2 root rest reach mf_ids ms_ids own4 own5 mown).
  constructor; assumption.
Qed.

(* ================================================================== *)
(* 6. stages 2 and 3: FAT load, trim, Allocator::validate               *)
(* ================================================================== *)

Lemma strip_to_take : forall ns l, ns <= lenN l ->
  (forall x, In x (dropN ns l) -> x = FREE_SECTOR) ->
  strip_last_while (fun x => x =? FREE_SECTOR) ns l = takeN ns l.
Proof.
  intros ns l Hn Ht. rewrite <- (ChainProofs.takeN_dropN_id _ l ns) at 1.
  assert (HR : Forall (eq FREE_SECTOR) (dropN ns l)).
  { apply Forall_forall. intros x Hx. symmetry. apply Ht. exact Hx. }
  rewrite <- (CodecProofs.repeatN_lenN _ FREE_SECTOR _ HR).
  rewrite strip_app_repeat by (try apply N.eqb_refl; rewrite StrictProofs.lenN_takeN; lia).
  apply StrictProofs.strip_short. rewrite StrictProofs.lenN_takeN. lia.
Qed.

Section Stage23.
Variable bytes : list byte.
Variable c : wf_cert.
Hypothesis Hok : wf_cert_ok bytes c.
Hypothesis Hsize : SizeOk bytes.

Let fat_ids := fat_ids_of (wc_difat_all c).
Let fat := wc_fat bytes c.

Lemma read_fat_ok : forall l, (forall x, In x l -> x < ck_ns bytes) ->
  CoherenceProofs.read_fat_cells (ck_secs bytes) (ck_sl bytes) (ck_ns bytes) l = Ok (fat_full_of bytes l).
Proof.
  induction l as [|x t IH]; intro H; [reflexivity|]. cbn [CoherenceProofs.read_fat_cells].
  pose proof (H x (or_introl eq_refl)) as Hx. replace (ck_ns bytes <=? x) with false by lia.
  rewrite (read_sector_words bytes (co_mod _ _ Hok) (co_len _ _ Hok) x Hx). cbn [rbind].
  rewrite IH by (intros y Hy; apply H; right; exact Hy). reflexivity.
Qed.

Lemma fat_trim : strip_last_while (fun x => x =? FREE_SECTOR) (ck_ns bytes) (fat_full_of bytes fat_ids) = fat.
Proof.
  apply strip_to_take; [exact (ff_enough _ _ _ _ (co_fat _ _ Hok))|exact (ff_tail _ _ _ _ (co_fat _ _ Hok))].
Qed.

Lemma fat_len : lenN fat = ck_ns bytes.
Proof.
  unfold fat, wc_fat, ck_fat. rewrite StrictProofs.lenN_takeN.
  pose proof (ff_enough _ _ _ _ (co_fat _ _ Hok)). lia.
Qed.

Lemma own1_J : Closed fat (wc_own1 c) /\ Inj fat (wc_own1 c).
Proof.
  destruct (ff_own _ _ _ _ (co_fat _ _ Hok)) as (own0 & H0 & H1). mk.
  assert (J0 : Closed fat own0 /\ Inj fat own0).
  { eapply (J_add_irr fat [] (fat_ids_of (wc_difat_all c))); [intros x v []|intros x y v []| |exact H0].
    intros x v Hx Hv. pose proof (ff_fat_marked _ _ _ _ (co_fat _ _ Hok) x Hx) as Hm.
    fold (wc_fat bytes c) in Hm. fold fat in Hm. rewrite Hm in Hv. injection Hv as <-. lia. }
  destruct J0 as [C0 I0].
  eapply (J_add_irr fat own0 (wc_difat_ids c)); [exact C0|exact I0| |exact H1].
  intros x v Hx Hv. pose proof (ff_difat_marked _ _ _ _ (co_fat _ _ Hok) x Hx) as Hm.
  fold (wc_fat bytes c) in Hm. fold fat in Hm. rewrite Hm in Hv. injection Hv as <-. lia.
Qed.

Lemma own4_J : Closed fat (wc_own4 c) /\ Inj fat (wc_own4 c).
Proof.
  destruct own1_J as [C1 I1].
  destruct (J_add_chain fat _ _ _ _ C1 I1 (co_dir_chain _ _ Hok) (co_own2 _ _ Hok)) as [C2 I2].
  pose proof (co_mini _ _ Hok) as HM. destruct (mn_own _ _ _ _ _ _ _ HM) as (own3 & H3 & H4).
  destruct (J_add_chain fat _ _ _ _ C2 I2 (mn_chain _ _ _ _ _ _ _ HM) H3) as [C3 I3].
  exact (J_add_chain fat _ _ _ _ C3 I3 (mn_ms _ _ _ _ _ _ _ HM) H4).
Qed.

Lemma own5_J : (Closed fat (wc_own5 c) /\ Inj fat (wc_own5 c)) /\
               (Closed (wc_mf bytes c) (wc_mown c) /\ Inj (wc_mf bytes c) (wc_mown c)).
Proof.
  destruct own4_J as [C4 I4].
  eapply (fold_streams_J _ _ _ _ _ _ _ _ (co_fold _ _ Hok)); try assumption.
  - intros x v [].
  - intros x y v [].
Qed.

Theorem fat_check_pointees : check_pointees false fat (lenN fat) [] = Ok tt.
Proof.
  destruct own5_J as [[C5 I5] _]. mk.
  apply (check_pointees_of_J fat false (wc_own5 c) C5 I5).
  - intros i v Hv Hreg. pose proof (co_cover _ _ Hok i v Hv) as Hc.
    replace (v =? FREE_SECTOR) with false in Hc by lia. apply WalkProofs.memN_In. exact Hc.
  - intros _ Hin. destruct (In_nthN _ _ _ Hin) as [i Hi].
    destruct (ff_marks _ _ _ _ (co_fat _ _ Hok) i _ Hi) as (_ & _ & Hne). apply Hne. reflexivity.
Qed.

Theorem wf_alloc_validate_ok :
  alloc_validate true (ck_ns bytes) (wc_difat_ids c) fat_ids fat = Ok (fat, free_indices fat 0).
Proof.
  unfold alloc_validate. rewrite fat_len, N.ltb_irrefl.
  rewrite (mark_sectors_id true DIFAT_SECTOR (wc_difat_ids c) fat (ff_difat_marked _ _ _ _ (co_fat _ _ Hok))).
  cbn [rbind].
  rewrite (mark_sectors_id true FAT_SECTOR fat_ids fat (ff_fat_marked _ _ _ _ (co_fat _ _ Hok))).
  cbn [rbind]. rewrite fat_check_pointees. reflexivity.
Qed.
End Stage23.

(* ================================================================== *)
(* 7. composition of stages 1-3: open reaches the directory phase        *)
(* ================================================================== *)

(* the part of open_model (strict) that follows Allocator::validate *)
Definition open_dir_phase (h : header) (im : list (list byte)) (ns : N)
           (ids difat2 fat4 free : list N) : res cstate :=
  let v := h_ver h in
  let sl := sector_len v in
  rbind (dir_loop (S (S (N.to_nat ns))) true v (h_num_dir h) im ns fat4 (h_first_dir h) 1 [] []) (fun ds =>
  rbind (dir_validate true ds) (fun _ =>
  let s0 := mkState v im ns ids difat2 fat4 free ds (h_first_dir h) [] (h_first_minifat h) [] in
  rbind (run (chain_new (h_first_minifat h) IFat) s0) (fun '(c, _) =>
  if true && negb (h_num_minifat h =? lenN (c_ids c)) then Err EInvalidData else
  let nent := chain_len sl c / 4 in
  rbind (run (chain_read_exact c (4 * nent)) s0) (fun '((_, mbytes), _) =>
  let mf0 := strip_last_while (fun x => x =? FREE_SECTOR) 0 (u32s mbytes) in
  match ds with
  | [] => Err EInvalidData
  | root :: _ =>
    rbind (mini_validate true (d_len root) mf0) (fun '(mf, mfree) =>
    Ok (mkState v im ns ids difat2 fat4 free ds (h_first_dir h) mf (h_first_minifat h) mfree))
  end)))).

Theorem wf_open_upto_alloc : forall bytes c, wf_check bytes = 0 -> wf_cert_ok bytes c -> SizeOk bytes ->
  open_model true bytes =
  open_dir_phase (ck_header bytes) (ck_secs bytes) (ck_ns bytes) (wc_difat_ids c)
                 (fat_ids_of (wc_difat_all c)) (wc_fat bytes c) (free_indices (wc_fat bytes c) 0).
Proof.
  intros bytes c H Hok Hsize.
  destruct (wf_inv_header bytes H) as (H1 & _).
  pose proof (co_mod _ _ Hok) as Hmod. pose proof (co_len _ _ Hok) as Hlen.
  pose proof (len_eq bytes Hmod Hlen) as HL.
  pose proof (co_fat _ _ Hok) as HF.
  assert (Hsl : sector_len (h_ver (ck_header bytes)) = ck_sl bytes) by (symmetry; apply ck_sl_ver).
  unfold open_model. cbv zeta.
  replace (lenN bytes <? HEADER_LEN) with false by lia.
  rewrite (wf_header_ok bytes H Hsize). cbn [rbind]. rewrite Hsl.
  replace ((MAX_REGULAR_SECTOR + 1) * ck_sl bytes <? lenN bytes) with false by (unfold SizeOk in Hsize; lia).
  replace (lenN bytes <? ck_sl bytes) with false by lia.
  assert (Hns : (lenN bytes + ck_sl bytes - 1) / ck_sl bytes - 1 = ck_ns bytes).
  { rewrite HL. destruct (ck_sl_cases bytes) as [E|E]; rewrite E; clear; lia. }
  rewrite Hns. rewrite <- ck_secs_chunks.
  change (h_first_difat (ck_header bytes)) with (u32_at bytes 68).
  change (h_difat (ck_header bytes)) with (words 109 (dropN 76 bytes)).
  rewrite (difat_loop_ok bytes _ _ _ Hmod Hlen Hsize (co_difat _ _ Hok) HF) by lia.
  cbn [rbind]. cbv beta iota.
  change (h_num_difat (ck_header bytes)) with (u32_at bytes 72).
  rewrite (ff_num_difat _ _ _ _ HF), N.eqb_refl. cbn [andb negb].
  rewrite (strip_difat_all bytes _ _ _ Hmod Hlen Hsize HF).
  change (h_num_fat (ck_header bytes)) with (u32_at bytes 44).
  rewrite (ff_num_fat _ _ _ _ HF), N.eqb_refl. cbn [andb negb].
  rewrite rd_eq, (read_fat_ok bytes c Hok _ (ff_range _ _ _ _ HF)). cbn [rbind].
  rewrite (fat_trim bytes c Hok), (fat_len bytes c Hok), N.sub_diag.
  change (repeatN FREE_SECTOR 0) with (@nil N). rewrite app_nil_r.
  rewrite (wf_alloc_validate_ok bytes c Hok). cbn [rbind]. cbv beta iota.
  unfold open_dir_phase. cbv zeta. rewrite Hsl. reflexivity.
Qed.

(* ================================================================== *)
(* 8. stage 5: MiniFAT load and MiniAllocator::validate                 *)
(* ================================================================== *)

Lemma popw_shape : forall p m r, exists R, r = R ++ StrictProofs.popw p m r /\ Forall (fun x => p x = true) R.
Proof.
  intros p m. induction r as [|x t IH]; [exists []; split; [reflexivity|constructor]|].
  cbn [StrictProofs.popw]. destruct ((m <? lenN (x :: t)) && p x) eqn:E.
  - destruct IH as (R & HR & HF). exists (x :: R). split; [cbn [app]; f_equal; exact HR|].
    constructor; [|exact HF]. apply andb_true_iff in E. tauto.
  - exists []. split; [reflexivity|constructor].
Qed.

Lemma strip_shape : forall p m l, exists R, l = strip_last_while p m l ++ R /\ Forall (fun x => p x = true) R.
Proof.
  intros p m l. rewrite StrictProofs.strip_popw. destruct (popw_shape p m (rev l)) as (R & HR & HF).
  exists (rev R). split.
  - rewrite <- rev_app_distr, <- HR, rev_involutive. reflexivity.
  - apply Forall_forall. intros x Hx. apply in_rev in Hx. rewrite Forall_forall in HF. apply HF. exact Hx.
Qed.

Lemma split_chunks_nil : forall n sl, split_chunks n sl [] = [].
Proof. intros [|n] sl; reflexivity. Qed.

Lemma split_chunks_surplus : forall n m sl (bs : list byte), 0 < sl -> lenN bs = sl * N.of_nat n ->
  split_chunks (n + m) sl bs = split_chunks n sl bs.
Proof.
  intros n m sl bs Hsl H. rewrite <- (app_nil_r bs) at 1. rewrite split_chunks_app by assumption.
  rewrite split_chunks_nil, app_nil_r. reflexivity.
Qed.

Lemma regs_app : forall a b, WalkProofs.regs (a ++ b) = WalkProofs.regs a ++ WalkProofs.regs b.
Proof. intros. unfold WalkProofs.regs. apply filter_app. Qed.

Lemma regs_free : forall R, Forall (fun x => (x =? FREE_SECTOR) = true) R -> WalkProofs.regs R = [].
Proof.
  induction R as [|x t IH]; intro H; [reflexivity|]. inversion H; subst.
  unfold WalkProofs.regs. cbn [filter]. unfold WalkProofs.regular at 1. mk.
  replace (x <=? MAX_REGULAR_SECTOR) with false by lia. apply IH. assumption.
Qed.

Section Stage5.
Variable bytes : list byte.
Variable c : wf_cert.
Hypothesis Hok : wf_cert_ok bytes c.
Hypothesis Hsize : SizeOk bytes.

Let fat := wc_fat bytes c.
Let mf_ids := wc_mf_ids c.
Let mf := wc_mf bytes c.
Let mf_full := mf_full_of bytes mf_ids.
Let mf0 := strip_last_while (fun x => x =? FREE_SECTOR) 0 mf_full.

Lemma ck_secs_len : lenN (ck_secs bytes) = ck_ns bytes + 1.
Proof.
  pose proof (co_mod _ _ Hok) as Hmod. pose proof (co_len _ _ Hok) as Hlen.
  pose proof (len_eq bytes Hmod Hlen) as HL. unfold ck_secs.
  assert (Hq : lenN bytes / ck_sl bytes = ck_ns bytes + 1).
  { rewrite HL. destruct (ck_sl_cases bytes) as [E|E]; rewrite E; clear; lia. }
  rewrite Hq. replace (S (N.to_nat (ck_ns bytes + 1))) with (N.to_nat (ck_ns bytes + 1) + 1)%nat by lia.
  assert (Hpos : 0 < ck_sl bytes) by (destruct (ck_sl_cases bytes) as [E|E]; rewrite E; lia).
  rewrite split_chunks_surplus; [|exact Hpos|rewrite N2Nat.id; exact HL].
  rewrite lenN_split_chunks; [lia|exact Hpos|rewrite N2Nat.id; exact HL].
Qed.

Lemma mf_chain : chain_ids_of fat (u32_at bytes 60) = Ok mf_ids /\ NoDup mf_ids /\
  (forall x, In x mf_ids -> x < ck_ns bytes).
Proof.
  pose proof (mn_chain _ _ _ _ _ _ _ (co_mini _ _ Hok)) as Hc.
  destruct (chain_of_J _ _ _ Hc) as (_ & _ & Hnd & _ & Hp).
  split; [apply WalkProofs.chain_ids_of_path; assumption|]. split; [exact Hnd|].
  intros x Hx. pose proof (WalkProofs.path_lt _ _ _ Hp) as Hlt. rewrite Forall_forall in Hlt.
  specialize (Hlt x Hx). fold (wc_fat bytes c) in Hlt. rewrite (fat_len bytes c Hok) in Hlt. exact Hlt.
Qed.

Lemma mf_read : forall s0, img s0 = ck_secs bytes -> nsect s0 = ck_ns bytes -> ver s0 = ver_of bytes ->
  exists c' mbytes,
  chain_read_exact (mkChain IFat mf_ids 0) (4 * (chain_len (sector_len (ver_of bytes)) (mkChain IFat mf_ids 0) / 4)) s0
    = (s0, Ok (c', mbytes)) /\ u32s mbytes = mf_full.
Proof.
  intros s0 Hi Hn Hv. destruct mf_chain as (_ & Hnd & Hlt).
  pose proof (co_mod _ _ Hok) as Hmod. pose proof (co_len _ _ Hok) as Hlen.
  assert (Hsl : slen s0 = ck_sl bytes) by (unfold slen; rewrite Hv; symmetry; apply ck_sl_ver).
  assert (Hsb : forall x, sector_bytes s0 x = ck_sec bytes x)
    by (intro x; unfold sector_bytes, ck_sec; rewrite Hi; reflexivity).
  assert (Hg : good_chain s0 mf_ids).
  { split; [exact Hnd|]. split; [|split].
    - apply Forall_forall. intros x Hx. rewrite Hn, Hsb, Hsl. split; [apply Hlt; exact Hx|].
      apply ck_sec_len; [exact Hmod|exact Hlen|apply Hlt; exact Hx].
    - rewrite Hi, Hn. apply ck_secs_len.
    - rewrite Hsl. destruct (ck_sl_cases bytes) as [E|E]; rewrite E; lia. }
  unfold chain_len. cbn [c_ids]. rewrite <- ck_sl_ver, <- Hsl.
  eexists. eexists. split; [apply minifat_chain_read; exact Hg|].
  rewrite <- flat_map_words_content.
  - unfold mf_full, mf_full_of, ck_per. rewrite Hsl. apply flat_map_ext. intro x. rewrite Hsb. reflexivity.
  - intros x Hx. destruct Hg as (_ & HF & _). rewrite Forall_forall in HF. apply HF. exact Hx.
Qed.

Lemma mf_split : exists R, mf_full = mf ++ R /\ Forall (fun x => (x =? FREE_SECTOR) = true) R.
Proof.
  pose proof (co_mini _ _ Hok) as HM.
  exists (dropN (w_len (wc_root c) / MINI_SECTOR_LEN) mf_full). split.
  - symmetry. apply ChainProofs.takeN_dropN_id.
  - apply Forall_forall. intros x Hx. apply N.eqb_eq. exact (mn_tail _ _ _ _ _ _ _ HM x Hx).
Qed.

Lemma mf0_split : exists R, mf = mf0 ++ R /\ Forall (fun x => (x =? FREE_SECTOR) = true) R.
Proof.
  destruct mf_split as (R1 & H1 & HR1).
  assert (E : mf0 = strip_last_while (fun x => x =? FREE_SECTOR) 0 mf).
  { unfold mf0. rewrite H1.
    assert (HR : Forall (eq FREE_SECTOR) R1).
    { eapply Forall_impl; [|exact HR1]. cbv beta. intros a Ha. lia. }
    rewrite <- (CodecProofs.repeatN_lenN _ FREE_SECTOR _ HR).
    apply strip_app_repeat; [apply N.eqb_refl|lia]. }
  rewrite E. apply strip_shape.
Qed.

Theorem wf_mini_validate_ok :
  mini_validate true (w_len (wc_root c)) mf0 = Ok (mf0, free_indices mf0 0).
Proof.
  destruct mf0_split as (R & HR & HFR). mk.
  pose proof (co_mini _ _ Hok) as HM.
  assert (Hlen_mf : lenN mf = w_len (wc_root c) / MINI_SECTOR_LEN).
  { unfold mf, wc_mf. rewrite StrictProofs.lenN_takeN. pose proof (mn_enough _ _ _ _ _ _ _ HM). lia. }
  apply mini_validate_id.
  { rewrite <- Hlen_mf, HR, CodecProofs.lenN_app. lia. }
  destruct (own5_J bytes c Hok) as [_ [CM IM]].
  assert (Hcov : forall i v, nthN mf i = Some v -> v <= MAX_REGULAR_SECTOR -> In i (wc_mown c)).
  { intros i v Hv Hreg. pose proof (co_mcover _ _ Hok i v Hv) as Hc.
    replace (v =? FREE_SECTOR) with false in Hc by lia. apply WalkProofs.memN_In. exact Hc. }
  pose proof (check_pointees_of_J mf true (wc_mown c) CM IM Hcov ltac:(discriminate)) as Hcp.
  apply WalkProofs.check_pointees_spec in Hcp. destruct Hcp as (_ & Hnd & _).
  assert (Hregs : WalkProofs.regs mf = WalkProofs.regs mf0).
  { rewrite HR, regs_app, (regs_free R HFR), app_nil_r. reflexivity. }
  apply WalkProofs.check_pointees_spec. split; [|split; [|split]].
  - apply Forall_forall. intros v Hin. unfold WalkProofs.regs in Hin. apply filter_In in Hin.
    destruct Hin as [Hin Hr]. unfold WalkProofs.regular in Hr.
    destruct (In_nthN _ _ _ Hin) as [i Hv]. assert (Hreg : v <= MAX_REGULAR_SECTOR) by lia.
    assert (Hv' : nthN mf i = Some v).
    { rewrite HR. rewrite ReuseProofs.nthN_app_l; [exact Hv|]. eapply WalkProofs.nthN_Some_lt; eauto. }
    destruct (CM i v (Hcov i v Hv' Hreg) Hv' Hreg) as [Hvin Hvlt].
    destruct (N.lt_ge_cases v (lenN mf0)) as [Hlt|Hge]; [exact Hlt|exfalso].
    destruct (WalkProofs.nthN_lt_Some mf v Hvlt) as [w Hw].
    assert (Hwf : w = FREE_SECTOR).
    { rewrite HR in Hw. rewrite ReuseProofs.nthN_app_r in Hw by exact Hge.
      apply WalkProofs.nthN_In in Hw. rewrite Forall_forall in HFR. specialize (HFR w Hw). lia. }
    pose proof (co_mcover _ _ Hok v w Hw) as Hc. rewrite Hwf, N.eqb_refl in Hc.
    apply WalkProofs.memN_false in Hc. contradiction.
  - rewrite <- Hregs. exact Hnd.
  - intros v _ [].
  - discriminate.
Qed.
End Stage5.

(* ================================================================== *)
(* 9. composition: open_model on a checker-accepted image, given the    *)
(*    result of the directory phase (stage 4)                            *)
(* ================================================================== *)

Definition ck_mf0 (bytes : list byte) (c : wf_cert) : list N :=
  strip_last_while (fun x => x =? FREE_SECTOR) 0 (mf_full_of bytes (wc_mf_ids c)).

(* what stage 4 has to deliver: the directory chain is read and decoded in strict mode,
   Directory::validate accepts it, and the root entry carries the mini-stream length the
   checker read *)
Definition DirPhase (bytes : list byte) (c : wf_cert) (ds : list dirent) : Prop :=
  dir_loop (S (S (N.to_nat (ck_ns bytes)))) true (ver_of bytes) (h_num_dir (ck_header bytes))
           (ck_secs bytes) (ck_ns bytes) (wc_fat bytes c) (u32_at bytes 48) 1 [] [] = Ok ds /\
  dir_validate true ds = Ok tt /\
  exists root rest, ds = root :: rest /\ d_len root = w_len (wc_root c).

Definition opened (bytes : list byte) (c : wf_cert) (ds : list dirent) : cstate :=
  mkState (ver_of bytes) (ck_secs bytes) (ck_ns bytes) (wc_difat_ids c)
          (fat_ids_of (wc_difat_all c)) (wc_fat bytes c) (free_indices (wc_fat bytes c) 0)
          ds (u32_at bytes 48) (ck_mf0 bytes c) (u32_at bytes 60) (free_indices (ck_mf0 bytes c) 0).

Theorem wf_open_given_dir : forall bytes c ds,
  wf_check bytes = 0 -> wf_cert_ok bytes c -> SizeOk bytes -> DirPhase bytes c ds ->
  open_model true bytes = Ok (opened bytes c ds).
Proof.
  intros bytes c ds H Hok Hsize (Hloop & Hval & root & rest & Hds & Hrl).
  rewrite (wf_open_upto_alloc bytes c H Hok Hsize). unfold open_dir_phase. cbv zeta.
  change (h_ver (ck_header bytes)) with (ver_of bytes).
  change (h_first_dir (ck_header bytes)) with (u32_at bytes 48).
  change (h_first_minifat (ck_header bytes)) with (u32_at bytes 60).
  change (h_num_minifat (ck_header bytes)) with (u32_at bytes 64).
  rewrite Hloop. cbn [rbind]. rewrite Hval. cbn [rbind].
  match goal with |- context [run (chain_new _ _) ?S] => set (s0 := S) in * end.
  destruct (mf_chain bytes c Hok) as (Hch & _ & _).
  unfold run at 1.
  rewrite (ReuseProofs.chain_new_exec s0 (u32_at bytes 60) IFat (wc_mf_ids c) Hch).
  cbn [rbind]. cbv beta iota. cbn [c_ids].
  rewrite (mn_num _ _ _ _ _ _ _ (co_mini _ _ Hok)), N.eqb_refl. cbn [andb negb].
  destruct (mf_read bytes c Hok s0 eq_refl eq_refl eq_refl) as (c' & mbytes & Hrd & Hu).
  unfold run. rewrite Hrd. cbn [rbind]. cbv beta iota. rewrite Hu.
  rewrite Hds. rewrite Hrl.
  fold (ck_mf0 bytes c). unfold ck_mf0 at 1.
  rewrite (wf_mini_validate_ok bytes c Hok). cbn [rbind]. cbv beta iota.
  unfold opened. rewrite <- Hds. reflexivity.
Qed.

(* ================================================================== *)
(* 10. stage 4, reading part: the directory chain and its 128-byte slots *)
(* ================================================================== *)

Lemma read_dirents_chunks : forall v (dec : list byte -> dirent) n bs,
  lenN bs = 128 * N.of_nat n ->
  (forall ch, In ch (split_chunks n 128 bs) -> dirent_decode v true ch = Ok (dec ch)) ->
  read_dirents v true n bs = Ok (map dec (split_chunks n 128 bs)).
Proof.
  intros v dec. induction n as [|n IH]; intros bs Hl H; [reflexivity|].
  destruct bs as [|b t]; [cbn [lenN] in Hl; lia|].
  cbn [read_dirents split_chunks map]. change DIR_ENTRY_LEN with 128.
  rewrite (H (takeN 128 (b :: t))) by (cbn [split_chunks]; left; reflexivity). cbn [rbind].
  rewrite IH.
  - reflexivity.
  - rewrite StrictProofs.lenN_dropN, Hl. lia.
  - intros ch Hch. apply H. cbn [split_chunks]. right. exact Hch.
Qed.

Lemma dir_loop_ok : forall v nd im ns fat (D : N -> list dirent) cur l,
  WalkProofs.path fat cur l -> forall f count seen acc,
  (length l < f)%nat -> NoDup l -> (forall x, In x l -> ~ In x seen) ->
  Forall (fun x => x <= MAX_REGULAR_SECTOR /\ x < ns /\
     read_dirents v true (N.to_nat (dir_per_sector v)) (img_read im (x + 1) 0 (sector_len v)) = Ok (D x)) l ->
  (v = V4 -> count + lenN l <= nd + 1) ->
  dir_loop f true v nd im ns fat cur count seen acc = Ok (acc ++ flat_map D l).
Proof.
  intros v nd im ns fat D cur l Hp. induction Hp as [|cur nx l Hc Hn Hp IH];
    intros f count seen acc Hf Hnd Hdis HF Hcnt.
  - destruct f as [|f]; [cbn [length] in Hf; lia|]. cbn [dir_loop flat_map]. rewrite N.eqb_refl, app_nil_r. reflexivity.
  - destruct f as [|f]; [cbn [length] in Hf; lia|]. cbn [length] in Hf. cbn [dir_loop].
    replace (cur =? END_OF_CHAIN) with false by lia.
    inversion HF as [|? ? (Hreg & Hlt & Hrd) HF']; subst. inversion Hnd as [|? ? Hni Hnd']; subst.
    assert (Hv4 : (true && version_eqb v V4 && (nd <? count)) = false).
    { destruct v; [reflexivity|]. cbn [andb version_eqb]. specialize (Hcnt eq_refl). cbn [lenN] in Hcnt. lia. }
    rewrite Hv4. replace (MAX_REGULAR_SECTOR <? cur) with false by lia.
    replace (ns <=? cur) with false by lia.
    assert (Hm : memN cur seen = false) by (apply WalkProofs.memN_false; apply Hdis; left; reflexivity).
    rewrite Hm. cbv zeta. rewrite Hrd. cbn [rbind]. rewrite Hn. cbn [rbind].
    rewrite IH; [cbn [flat_map]; rewrite <- app_assoc; reflexivity|lia|exact Hnd'| |exact HF'|].
    + intros x Hx [<-|Hin]; [contradiction|]. apply (Hdis x); [right; exact Hx|exact Hin].
    + intro Ev. specialize (Hcnt Ev). cbn [lenN] in Hcnt. lia.
Qed.

Lemma flat_map_map : forall A B C (g : A -> list B) (f : B -> C) l,
  flat_map (fun x => map f (g x)) l = map f (flat_map g l).
Proof.
  intros A B C g f l. induction l as [|x t IH]; [reflexivity|]. cbn [flat_map]. rewrite map_app, IH. reflexivity.
Qed.

Theorem wf_dir_loop_ok : forall bytes c (dec : list byte -> dirent),
  wf_cert_ok bytes c ->
  (forall ch, In ch (raw_entries_of bytes (wc_dir_ids c)) -> dirent_decode (ver_of bytes) true ch = Ok (dec ch)) ->
  dir_loop (S (S (N.to_nat (ck_ns bytes)))) true (ver_of bytes) (h_num_dir (ck_header bytes))
           (ck_secs bytes) (ck_ns bytes) (wc_fat bytes c) (u32_at bytes 48) 1 [] []
  = Ok (map dec (raw_entries_of bytes (wc_dir_ids c))).
Proof.
  intros bytes c dec Hok Hdec.
  pose proof (co_mod _ _ Hok) as Hmod. pose proof (co_len _ _ Hok) as Hlen.
  destruct (chain_of_J _ _ _ (co_dir_chain _ _ Hok)) as (_ & _ & Hnd & Hreg & Hp).
  pose proof (WalkProofs.path_lt _ _ _ Hp) as Hlt. rewrite (fat_len bytes c Hok) in Hlt.
  set (g := fun i => split_chunks (N.to_nat (ck_sl bytes / DIR_ENTRY_LEN)) DIR_ENTRY_LEN (ck_sec bytes i)).
  change (raw_entries_of bytes (wc_dir_ids c)) with (flat_map g (wc_dir_ids c)) in *.
  rewrite <- flat_map_map.
  rewrite (dir_loop_ok (ver_of bytes) _ (ck_secs bytes) (ck_ns bytes) (wc_fat bytes c)
             (fun x => map dec (g x)) _ _ Hp); [reflexivity| |exact Hnd|intros x _ []| |].
  - pose proof (WalkProofs.bounded_nodup_length _ _ Hnd Hlt) as Hb. lia.
  - apply Forall_forall. intros x Hx. rewrite Forall_forall in Hreg, Hlt.
    split; [apply Hreg; exact Hx|]. split; [apply Hlt; exact Hx|].
    rewrite <- ck_sl_ver. rewrite (img_read_sec bytes Hmod Hlen x _ (Hlt x Hx)).
    rewrite StrictProofs.takeN_all by (rewrite (ck_sec_len bytes Hmod Hlen x (Hlt x Hx)); lia).
    assert (Ed : N.to_nat (dir_per_sector (ver_of bytes)) = N.to_nat (ck_sl bytes / DIR_ENTRY_LEN))
      by (unfold dir_per_sector; rewrite <- ck_sl_ver; reflexivity).
    rewrite Ed. unfold g. change DIR_ENTRY_LEN with 128.
    apply read_dirents_chunks.
    + rewrite (ck_sec_len bytes Hmod Hlen x (Hlt x Hx)). rewrite N2Nat.id.
      destruct (ck_sl_cases bytes) as [E|E]; rewrite E; reflexivity.
    + intros ch Hch. apply Hdec. apply in_flat_map. exists x. split; [exact Hx|exact Hch].
  - intro Ev. pose proof (co_num_dir _ _ Hok) as Hn. unfold ver_of in Ev.
    destruct (vnum_of bytes =? 3) eqn:E3; [discriminate|].
    unfold ck_header. cbn [h_num_dir]. rewrite E3. lia.
Qed.

(* ================================================================== *)
(* 11. stage 4, decoding part: the strict decoder on one 128-byte slot,  *)
(*     in terms of the entry the checker parses                           *)
(* ================================================================== *)

Lemma nthN_le_val1 : forall (ch : list byte) i, i < lenN ch ->
  nthN ch i = Some (le_val (takeN 1 (dropN i ch))).
Proof.
  induction ch as [|x t IH]; intros i Hi; [cbn [lenN] in Hi; lia|].
  destruct (N.eq_dec i 0) as [->|Hi0].
  - cbn [nthN]. rewrite N.eqb_refl, StrictProofs.dropN_0. change 1 with (N.succ 0).
    rewrite CodecProofs.takeN_succ_cons, CodecProofs.takeN_0. cbn [le_val]. f_equal. lia.
  - rewrite StrictProofs.nthN_cons_pos by lia. cbn [lenN] in Hi. rewrite IH by lia.
    replace i with (N.succ (i - 1)) at 2 by lia. rewrite CodecProofs.dropN_succ_cons. reflexivity.
Qed.

Lemma u16s_nth : forall j (bs : list byte), 2 * j + 2 <= lenN bs ->
  nthN (u16s bs) j = Some (le_val (takeN 2 (dropN (2 * j) bs))).
Proof.
  induction j as [|j IH] using N.peano_ind; intros bs H.
  - destruct bs as [|a [|b t]]; cbn [lenN] in H; try lia. cbn [u16s nthN]. rewrite N.eqb_refl.
    rewrite N.mul_0_r, StrictProofs.dropN_0, takeN2_cons. cbn [le_val]. f_equal. lia.
  - destruct bs as [|a [|b t]]; cbn [lenN] in H; try lia. cbn [u16s].
    rewrite StrictProofs.nthN_cons_succ. rewrite IH by lia.
    replace (2 * N.succ j) with (N.succ (N.succ (2 * j))) by lia.
    rewrite !CodecProofs.dropN_succ_cons. reflexivity.
Qed.

Lemma units_of_u16s : forall k (bs : list byte), 2 * N.of_nat k <= lenN bs ->
  units_of bs k = takeN (N.of_nat k) (u16s bs).
Proof.
  induction k as [|k IH]; intros bs H.
  - cbn [units_of N.of_nat]. rewrite CodecProofs.takeN_0. reflexivity.
  - destruct bs as [|a [|b t]]; cbn [lenN] in H; try lia.
    rewrite Nat2N.inj_succ. cbn [u16s]. rewrite CodecProofs.takeN_succ_cons.
    change (units_of (a :: b :: t) (S k)) with (le_val (takeN 2 (a :: b :: t)) :: units_of (dropN 2 (a :: b :: t)) k).
    rewrite takeN2_cons, dropN2_cons. rewrite IH by lia. f_equal. cbn [le_val]. lia.
Qed.

Lemma units_of_take : forall k n (bs : list byte), 2 * N.of_nat k <= n ->
  units_of (takeN n bs) k = units_of bs k.
Proof.
  induction k as [|k IH]; intros n bs H; [reflexivity|].
  change (units_of (takeN n bs) (S k)) with (le_val (takeN 2 (takeN n bs)) :: units_of (dropN 2 (takeN n bs)) k).
  change (units_of bs (S k)) with (le_val (takeN 2 bs) :: units_of (dropN 2 bs) k).
  rewrite takeN_takeN_le by lia. f_equal.
  assert (E : dropN 2 (takeN n bs) = takeN (n - 2) (dropN 2 bs)).
  { apply StrictProofs.list_ext. intro i.
    rewrite StrictProofs.nthN_dropN, !StrictProofs.nthN_takeN, StrictProofs.nthN_dropN.
    destruct (N.ltb_spec (2 + i) n); destruct (N.ltb_spec i (n - 2)); try lia; reflexivity. }
  rewrite E. apply IH. lia.
Qed.

Lemma all_zero_le_val : forall l, all_zero l = true -> le_val l = 0.
Proof.
  induction l as [|x t IH]; intro H; [reflexivity|]. cbn [all_zero forallb] in H.
  apply andb_true_iff in H. destruct H as [Hx Ht]. cbn [le_val]. rewrite (IH Ht). lia.
Qed.

Lemma all_zero_sub : forall l, all_zero l = true ->
  forall a b, all_zero (takeN a (dropN b l)) = true.
Proof.
  intros l H a b. unfold all_zero in *. rewrite forallb_forall in *. intros x Hx. apply H.
  destruct (In_nthN _ _ _ Hx) as [i Hi]. rewrite StrictProofs.nthN_takeN in Hi.
  destruct (i <? a); [|discriminate]. rewrite StrictProofs.nthN_dropN in Hi. eapply WalkProofs.nthN_In; eauto.
Qed.

Lemma all_zero_rev : forall l, all_zero l = true -> all_zero (rev l) = true.
Proof.
  intros l H. unfold all_zero in *. rewrite forallb_forall in *. intros x Hx. apply H. apply in_rev. exact Hx.
Qed.

Lemma clsid_zero : forall l, all_zero l = true -> clsid_decode l = 0.
Proof.
  intros l H. unfold clsid_decode. cbv zeta.
  rewrite (all_zero_le_val (takeN 4 l)) by (rewrite <- (StrictProofs.dropN_0 l); apply all_zero_sub; exact H).
  rewrite (all_zero_le_val (takeN 2 (dropN 4 l))) by (apply all_zero_sub; exact H).
  rewrite (all_zero_le_val (takeN 2 (dropN 6 l))) by (apply all_zero_sub; exact H).
  rewrite (all_zero_le_val (rev (takeN 8 (dropN 8 l)))) by (apply all_zero_rev; apply all_zero_sub; exact H).
  reflexivity.
Qed.

Definition nlc (e : wentry) : N := if 0 <? w_namelen e then w_namelen e / 2 - 1 else 0.

Record entry_ok (e : wentry) (nm : list N) (ty : objtype) (col : color) : Prop := mkEntryOk {
  eo_nl64 : w_namelen e <= 64;
  eo_even : w_namelen e mod 2 = 0;
  eo_term : u16_at (w_raw e) (2 * nlc e) = 0;
  eo_name : scalars (w_name e) = Some nm;
  eo_type : objtype_of_byte (w_type e) = Some ty;
  eo_nameok : if objtype_eqb ty TRoot then nm = ROOT_DIR_NAME
              else lenN (utf16 nm) <= MAX_NAME_LEN /\ existsb (fun f => memN f nm) FORBIDDEN_CHARS = false;
  eo_color : color_of_byte (w_color e) = Some col;
  eo_left : CodecProofs.link_ok (w_left e);
  eo_right : CodecProofs.link_ok (w_right e);
  eo_child : w_child e = NO_STREAM \/ (ty <> TStream /\ w_child e <= MAX_REGULAR_STREAM_ID);
  eo_stream : ty = TStream -> w_clsid_zero e = true /\ w_ctime e = 0 /\ w_mtime e = 0;
  eo_storage : ty = TStorage -> w_start e = 0 /\ w_len e = 0
}.

Definition decoded (e : wentry) (nm : list N) (ty : objtype) (col : color) : dirent :=
  mkDirent nm ty col (w_left e) (w_right e) (w_child e)
    (if objtype_eqb ty TStream then 0 else clsid_decode (takeN 16 (dropN 80 (w_raw e))))
    (w_state e)
    (if objtype_eqb ty TStream then 0 else w_ctime e)
    (if objtype_eqb ty TStream then 0 else w_mtime e)
    (if objtype_eqb ty TStorage then 0 else w_start e)
    (if objtype_eqb ty TStorage then 0 else w_len e).

Local Transparent validate_name.

Theorem decode_entry : forall v ch nm ty col, lenN ch = 128 ->
  entry_ok (parse_entry (stream_len_mask v) ch) nm ty col ->
  dirent_decode v true ch = Ok (decoded (parse_entry (stream_len_mask v) ch) nm ty col).
Proof.
  intros v ch nm ty col Hl He. set (e := parse_entry (stream_len_mask v) ch) in *.
  destruct He as [H64 Hev Hterm Hname Hty Hnok Hcol Hleft Hright Hchild Hstream Hstorage].
  unfold dirent_decode. change DIR_ENTRY_LEN with 128. rewrite Hl, N.ltb_irrefl.
  change (le_val (takeN 2 (dropN 64 ch))) with (w_namelen e).
  replace (64 <? w_namelen e) with false by lia.
  replace (w_namelen e mod 2 =? 0) with true by lia. cbn [negb].
  fold (nlc e).
  assert (Hn32 : nlc e < 32) by (unfold nlc; destruct (0 <? w_namelen e); lia).
  rewrite u16s_nth by (rewrite StrictProofs.lenN_takeN; lia).
  rewrite <- (StrictProofs.dropN_0 (takeN 64 ch)) at 1.
  replace (dropN (2 * nlc e) (dropN 0 (takeN 64 ch))) with (dropN (2 * nlc e) (takeN 64 ch))
    by (rewrite StrictProofs.dropN_0; reflexivity).
  rewrite win_take by lia. change (w_raw e) with ch in Hterm. unfold u16_at in Hterm. rewrite Hterm.
  cbn [N.eqb negb andb].
  assert (Hnm : from_utf16 (takeN (nlc e) (u16s (takeN 64 ch))) = Some nm).
  { rewrite <- scalars_from_utf16. rewrite <- Hname.
    change (w_name e) with (units_of ch (N.to_nat (if (2 <=? w_namelen e) && (w_namelen e <=? 64)
                                                    then w_namelen e / 2 - 1 else 0))).
    assert (Ek : (if (2 <=? w_namelen e) && (w_namelen e <=? 64) then w_namelen e / 2 - 1 else 0) = nlc e).
    { unfold nlc. destruct (N.leb_spec 2 (w_namelen e)); destruct (N.ltb_spec 0 (w_namelen e));
        cbn [andb]; try lia. replace (w_namelen e <=? 64) with true by lia. reflexivity. }
    rewrite Ek. rewrite <- (units_of_take (N.to_nat (nlc e)) 64 ch) by lia.
    rewrite units_of_u16s by (rewrite StrictProofs.lenN_takeN; lia). rewrite N2Nat.id. reflexivity. }
  rewrite Hnm.
  rewrite (nthN_le_val1 ch 66) by lia. change (le_val (takeN 1 (dropN 66 ch))) with (w_type e). rewrite Hty.
  cbv iota.
  match goal with |- rbind ?X _ = _ => assert (Hnb : X = Ok nm) end.
  { destruct (objtype_eqb ty TRoot).
    - subst nm. rewrite CodecProofs.list_eqb_refl. reflexivity.
    - destruct Hnok as [Hlen Hforb]. unfold validate_name.
      replace (MAX_NAME_LEN <? lenN (utf16 nm)) with false by lia. rewrite Hforb. reflexivity. }
  rewrite Hnb. cbn [rbind].
  rewrite (nthN_le_val1 ch 67) by lia. change (le_val (takeN 1 (dropN 67 ch))) with (w_color e). rewrite Hcol.
  change (le_val (takeN 4 (dropN 68 ch))) with (w_left e).
  change (le_val (takeN 4 (dropN 72 ch))) with (w_right e).
  change (le_val (takeN 4 (dropN 76 ch))) with (w_child e).
  rewrite (CodecProofs.link_check _ Hleft), (CodecProofs.link_check _ Hright).
  assert (Hcc : negb (w_child e =? NO_STREAM) && (objtype_eqb ty TStream || (MAX_REGULAR_STREAM_ID <? w_child e)) = false).
  { destruct Hchild as [Hc|[Hns Hc]].
    - rewrite Hc, N.eqb_refl. reflexivity.
    - replace (MAX_REGULAR_STREAM_ID <? w_child e) with false by lia.
      destruct ty; try contradiction; cbn [objtype_eqb orb]; apply andb_false_r. }
  rewrite Hcc.
  change (le_val (takeN 4 (dropN 96 ch))) with (w_state e).
  change (le_val (takeN 8 (dropN 100 ch))) with (w_ctime e).
  change (le_val (takeN 8 (dropN 108 ch))) with (w_mtime e).
  change (le_val (takeN 4 (dropN 116 ch))) with (w_start e).
  change (N.land (le_val (takeN 8 (dropN 120 ch))) (stream_len_mask v)) with (w_len e).
  unfold decoded. change (w_raw e) with ch.
  destruct (objtype_eqb ty TStream) eqn:Es.
  - assert (ty = TStream) by (destruct ty; try discriminate; reflexivity). subst ty.
    destruct (Hstream eq_refl) as (Hz & Hc0 & Hm0).
    change (w_clsid_zero e) with (all_zero (takeN 16 (dropN 80 ch))) in Hz.
    rewrite (clsid_zero _ Hz), Hc0, Hm0. cbn [N.eqb negb andb objtype_eqb]. reflexivity.
  - cbn [andb]. destruct (objtype_eqb ty TStorage) eqn:Eg; cbn [andb]; [|reflexivity].
    assert (ty = TStorage) by (destruct ty; try discriminate; reflexivity). subst ty.
    destruct (Hstorage eq_refl) as (Hs0 & Hl0). rewrite Hs0, Hl0. cbn [N.eqb negb]. reflexivity.
Qed.

(* an unallocated slot: the checker's blank_entry plus "the name-length field is even"
   (the one thing blank_entry does not ask) is what the strict decoder needs *)
Lemma blank_entry_ok : forall m ch,
  blank_entry (parse_entry m ch) = true -> u16_at ch 64 mod 2 = 0 ->
  entry_ok (parse_entry m ch) [] TUnalloc Red.
Proof.
  intros m ch Hb Hev. set (e := parse_entry m ch) in *. unfold blank_entry in Hb.
  repeat (apply andb_true_iff in Hb; let H := fresh "B" in destruct Hb as [Hb H]).
  change (w_namelen e) with (u16_at ch 64) in *.
  assert (Hnl : u16_at ch 64 = 0 \/ u16_at ch 64 = 2) by lia.
  assert (Hnlc : nlc e = 0).
  { unfold nlc. change (w_namelen e) with (u16_at ch 64). destruct Hnl as [E|E]; rewrite E; reflexivity. }
  constructor.
  - change (w_namelen e) with (u16_at ch 64). lia.
  - exact Hev.
  - rewrite Hnlc, N.mul_0_r. change (w_raw e) with ch. unfold u16_at. apply all_zero_le_val.
    rewrite <- (win_take _ ch 0 2 64) by lia. apply all_zero_sub. exact B9.
  - change (w_name e) with (units_of ch (N.to_nat (if (2 <=? u16_at ch 64) && (u16_at ch 64 <=? 64)
                                                    then u16_at ch 64 / 2 - 1 else 0))).
    destruct Hnl as [E|E]; rewrite E; reflexivity.
  - replace (w_type e) with OBJ_TYPE_UNALLOCATED by lia. reflexivity.
  - cbn [objtype_eqb]. split; [vm_compute; discriminate|reflexivity].
  - replace (w_color e) with 0 by lia. reflexivity.
  - left. lia.
  - left. lia.
  - left. lia.
  - discriminate.
  - discriminate.
Qed.

(* ================================================================== *)
(* 12. the converse theorem, with stage 4 reduced to per-entry conditions *)
(*     and Directory::validate                                            *)
(* ================================================================== *)

Lemma split_chunks_len : forall n (bs ch : list byte), lenN bs = 128 * N.of_nat n ->
  In ch (split_chunks n 128 bs) -> lenN ch = 128.
Proof.
  induction n as [|n IH]; intros bs ch Hl Hin; [destruct Hin|].
  destruct bs as [|b t]; [cbn [lenN] in Hl; lia|]. cbn [split_chunks] in Hin. destruct Hin as [<-|Hin].
  - rewrite StrictProofs.lenN_takeN. lia.
  - eapply IH; [|exact Hin]. rewrite StrictProofs.lenN_dropN. lia.
Qed.

Lemma ck_mask_ver : forall bytes, ck_mask bytes = stream_len_mask (ver_of bytes).
Proof. intro bytes. unfold ck_mask, ver_of. destruct (vnum_of bytes =? 3); reflexivity. Qed.

Definition dirents_of (bytes : list byte) (c : wf_cert) (lab : list byte -> list N * objtype * color) : list dirent :=
  map (fun ch => decoded (parse_entry (ck_mask bytes) ch) (fst (fst (lab ch))) (snd (fst (lab ch))) (snd (lab ch)))
      (raw_entries_of bytes (wc_dir_ids c)).

Theorem wf_open_given_entries : forall bytes c (lab : list byte -> list N * objtype * color),
  wf_check bytes = 0 -> wf_cert_ok bytes c -> SizeOk bytes ->
  (forall ch, In ch (raw_entries_of bytes (wc_dir_ids c)) ->
     entry_ok (parse_entry (ck_mask bytes) ch) (fst (fst (lab ch))) (snd (fst (lab ch))) (snd (lab ch))) ->
  dir_validate true (dirents_of bytes c lab) = Ok tt ->
  open_model true bytes = Ok (opened bytes c (dirents_of bytes c lab)).
Proof.
  intros bytes c lab H Hok Hsize Hent Hval.
  pose proof (co_mod _ _ Hok) as Hmod. pose proof (co_len _ _ Hok) as Hlen.
  apply (wf_open_given_dir bytes c _ H Hok Hsize). split; [|split; [exact Hval|]].
  - unfold dirents_of. apply wf_dir_loop_ok; [exact Hok|]. intros ch Hch. cbv beta.
    rewrite ck_mask_ver. apply decode_entry; [|rewrite <- ck_mask_ver; apply Hent; exact Hch].
    unfold raw_entries_of in Hch. apply in_flat_map in Hch. destruct Hch as (x & Hx & Hch).
    destruct (chain_of_J _ _ _ (co_dir_chain _ _ Hok)) as (_ & _ & _ & _ & Hp).
    pose proof (WalkProofs.path_lt _ _ _ Hp) as Hlt. rewrite (fat_len bytes c Hok) in Hlt.
    rewrite Forall_forall in Hlt. change DIR_ENTRY_LEN with 128 in Hch.
    eapply split_chunks_len; [|exact Hch].
    rewrite (ck_sec_len bytes Hmod Hlen x (Hlt x Hx)), N2Nat.id.
    destruct (ck_sl_cases bytes) as [E|E]; rewrite E; reflexivity.
  - pose proof (co_es _ _ Hok) as Hes. unfold wc_es, es_of_ids in Hes. unfold dirents_of.
    destruct (raw_entries_of bytes (wc_dir_ids c)) as [|r0 raw'] eqn:Er; [discriminate|].
    cbn [map] in Hes. injection Hes as Hr0 _. cbn [map].
    eexists. eexists. split; [reflexivity|]. unfold decoded. cbn [d_len]. rewrite Hr0.
    pose proof (Hent r0 (or_introl eq_refl)) as He0. rewrite Hr0 in He0.
    pose proof (eo_type _ _ _ _ He0) as Ht. rewrite (tf_root_type _ _ _ (co_tree _ _ Hok)) in Ht.
    injection Ht as <-. reflexivity.
Qed.

(* permissive mode follows *)
Corollary wf_open_given_entries_permissive : forall bytes c lab,
  wf_check bytes = 0 -> wf_cert_ok bytes c -> SizeOk bytes ->
  (forall ch, In ch (raw_entries_of bytes (wc_dir_ids c)) ->
     entry_ok (parse_entry (ck_mask bytes) ch) (fst (fst (lab ch))) (snd (fst (lab ch))) (snd (lab ch))) ->
  dir_validate true (dirents_of bytes c lab) = Ok tt ->
  open_model false bytes = Ok (opened bytes c (dirents_of bytes c lab)).
Proof.
  intros. apply StrictProofs.strict_implies_permissive. apply wf_open_given_entries; assumption.
Qed.

(* ================================================================== *)
(* 13. stage 4: the checker's tree walk, inverted                       *)
(* ================================================================== *)

(* the shape the walk has traversed: a sibling tree whose storage nodes carry the
   sibling tree of their children *)
Inductive ntree := NL | NN (id : N) (l r c : ntree).
Fixpoint nids (t : ntree) : list N :=
  match t with NL => [] | NN id l r c => id :: nids l ++ nids r ++ nids c end.

Definition opt_lo (lo : option (list N)) (nm : list N) : Prop :=
  match lo with Some l => lt_name l nm = true | None => True end.
Definition opt_hi (hi : option (list N)) (nm : list N) : Prop :=
  match hi with Some h => lt_name nm h = true | None => True end.

Lemma NoDup_app_intro : forall A (a b : list A), NoDup a -> NoDup b ->
  (forall x, In x a -> ~ In x b) -> NoDup (a ++ b).
Proof.
  intros A a b Ha Hb Hd. induction Ha as [|x t Hx Ht IH]; [exact Hb|].
  cbn [app]. constructor.
  - intro Hin. apply in_app_or in Hin. destruct Hin as [Hin|Hin]; [contradiction|].
    apply (Hd x); [left; reflexivity|exact Hin].
  - apply IH. intros y Hy. apply Hd. right. exact Hy.
Qed.

Lemma NoDup_app_inv : forall A (a b : list A), NoDup (a ++ b) ->
  NoDup a /\ NoDup b /\ (forall x, In x a -> ~ In x b).
Proof.
  intros A a b. induction a as [|x t IH]; intro H.
  - split; [constructor|]. split; [exact H|intros x []].
  - cbn [app] in H. inversion H as [|? ? Hx Ht]; subst. destruct (IH Ht) as (Na & Nb & D).
    split; [|split; [exact Nb|]].
    + constructor; [|exact Na]. intro Hc. apply Hx. apply in_or_app. left. exact Hc.
    + intros y [<-|Hy]; [|exact (D y Hy)]. intro Hc. apply Hx. apply in_or_app. right. exact Hc.
Qed.

Section Walks.
Variable es : list wentry.

Definition is_sto (i : N) : bool :=
  match nthN es i with Some e => w_type e =? OBJ_TYPE_STORAGE | None => false end.
Definition kid_of (i : N) : N :=
  match nthN es i with Some e => w_child e | None => NO_STREAM end.
Definition kids_of (ids : list N) : list N := map kid_of (filter is_sto ids).

Lemma kids_of_app : forall a b, kids_of (a ++ b) = kids_of a ++ kids_of b.
Proof. intros a b. unfold kids_of. rewrite filter_app, map_app. reflexivity. Qed.

Inductive NT : N -> option (list N) -> option (list N) -> bool -> ntree -> Prop :=
| NT_leaf : forall lo hi pr, NT NO_STREAM lo hi pr NL
| NT_node : forall id lo hi pr e nm l r c,
    id <> NO_STREAM -> id <= MAX_REGULAR_STREAM_ID -> nthN es id = Some e ->
    (w_type e = OBJ_TYPE_STORAGE \/ w_type e = OBJ_TYPE_STREAM) ->
    (w_color e = COLOR_RED \/ w_color e = COLOR_BLACK) ->
    pr && (w_color e =? COLOR_RED) = false ->
    name_ok e = Some nm -> opt_lo lo nm -> opt_hi hi nm ->
    NT (w_left e) lo (Some nm) (w_color e =? COLOR_RED) l ->
    NT (w_right e) (Some nm) hi (w_color e =? COLOR_RED) r ->
    (w_type e = OBJ_TYPE_STORAGE -> NT (w_child e) None None false c) ->
    (w_type e <> OBJ_TYPE_STORAGE -> c = NL) ->
    NT id lo hi pr (NN id l r c).

Definition KT (k : N) (t : ntree) : Prop := NT k None None false t.

Lemma sib_walk_S : forall f id lo hi pr seen,
  sib_walk (S f) es id lo hi pr seen =
    if id =? NO_STREAM then Some ([], seen) else
    if MAX_REGULAR_STREAM_ID <? id then None else
    if memN id seen then None else
    match nthN es id with
    | None => None
    | Some e =>
      if negb ((w_type e =? OBJ_TYPE_STORAGE) || (w_type e =? OBJ_TYPE_STREAM)) then None else
      if negb ((w_color e =? COLOR_RED) || (w_color e =? COLOR_BLACK)) then None else
      let red := w_color e =? COLOR_RED in
      if pr && red then None else
      match name_ok e with
      | None => None
      | Some nm =>
        if negb (match lo with Some l => lt_name l nm | None => true end) then None else
        if negb (match hi with Some h => lt_name nm h | None => true end) then None else
        match sib_walk f es (w_left e) lo (Some nm) red (id :: seen) with
        | None => None
        | Some (lids, seen1) =>
          match sib_walk f es (w_right e) (Some nm) hi red seen1 with
          | None => None
          | Some (rids, seen2) => Some (lids ++ id :: rids, seen2)
          end
        end
      end
    end.
Proof. reflexivity. Qed.

(* the ids a sibling walk returns are new, distinct, and exactly what it adds to [seen];
   given the trees below its storages' children, the walked sibling tree can be completed *)
Lemma sib_walk_inv : forall f id lo hi pr seen ids seen1,
  sib_walk f es id lo hi pr seen = Some (ids, seen1) ->
  NoDup ids /\ (forall x, In x ids -> ~ In x seen) /\
  (forall x, In x seen1 <-> In x ids \/ In x seen) /\
  forall ts, Forall2 KT (kids_of ids) ts ->
    exists t, NT id lo hi pr t /\
      (forall x, In x (nids t) <-> In x ids \/ In x (concat (map nids ts))) /\
      length (nids t) = (length ids + length (concat (map nids ts)))%nat.
Proof.
  induction f as [|f IH]; intros id lo hi pr seen ids seen1 H; [discriminate|].
  rewrite sib_walk_S in H.
  destruct (N.eqb_spec id NO_STREAM) as [En|En].
  { injection H as <- <-. split; [constructor|]. split; [intros x []|]. split; [intro x; cbn [In]; tauto|].
    intros ts Hts. inversion Hts; subst. exists NL. split; [constructor|].
    split; [intro x; cbn; tauto|reflexivity]. }
  destruct (N.ltb_spec MAX_REGULAR_STREAM_ID id) as [Hm|Hm]; [discriminate|].
  destruct (memN id seen) eqn:Em; [discriminate|]. apply WalkProofs.memN_false in Em.
  destruct (nthN es id) as [e|] eqn:Ee; [|discriminate].
  destruct ((w_type e =? OBJ_TYPE_STORAGE) || (w_type e =? OBJ_TYPE_STREAM)) eqn:Ety; cbn [negb] in H; [|discriminate].
  destruct ((w_color e =? COLOR_RED) || (w_color e =? COLOR_BLACK)) eqn:Ecol; cbn [negb] in H; [|discriminate].
  cbv zeta in H.
  destruct (pr && (w_color e =? COLOR_RED)) eqn:Err; [discriminate|].
  destruct (name_ok e) as [nm|] eqn:Enm; [|discriminate].
  destruct (match lo with Some l => lt_name l nm | None => true end) eqn:Elo; cbn [negb] in H; [|discriminate].
  destruct (match hi with Some h => lt_name nm h | None => true end) eqn:Ehi; cbn [negb] in H; [|discriminate].
  destruct (sib_walk f es (w_left e) lo (Some nm) (w_color e =? COLOR_RED) (id :: seen)) as [[lids s1]|] eqn:EL; [|discriminate].
  destruct (sib_walk f es (w_right e) (Some nm) hi (w_color e =? COLOR_RED) s1) as [[rids s2]|] eqn:ER; [|discriminate].
  injection H as <- <-.
  destruct (IH _ _ _ _ _ _ _ EL) as (NDl & Dl & Sl & Gl).
  destruct (IH _ _ _ _ _ _ _ ER) as (NDr & Dr & Sr & Gr).
  assert (Hidl : ~ In id lids) by (intro Hc; apply (Dl id Hc); left; reflexivity).
  assert (Hidr : ~ In id rids) by (intro Hc; apply (Dr id Hc); apply Sl; right; left; reflexivity).
  assert (Hlr : forall x, In x lids -> ~ In x rids)
    by (intros x Hx Hc; apply (Dr x Hc); apply Sl; left; exact Hx).
  split; [|split; [|split]].
  - apply NoDup_app_intro; [exact NDl| |].
    + constructor; assumption.
    + intros x Hx [<-|Hc]; [contradiction|exact (Hlr x Hx Hc)].
  - intros x Hx Hc. apply in_app_or in Hx. destruct Hx as [Hx|[<-|Hx]].
    + apply (Dl x Hx). right. exact Hc.
    + contradiction.
    + apply (Dr x Hx). apply Sl. right. right. exact Hc.
  - intro x. rewrite Sr, Sl, in_app_iff. cbn [In]. tauto.
  - intros ts Hts. rewrite kids_of_app in Hts.
    change (id :: rids) with ([id] ++ rids) in Hts. rewrite kids_of_app in Hts.
    apply Forall2_app_inv_l in Hts. destruct Hts as (tl & ts' & Htl & Hts' & ->).
    apply Forall2_app_inv_l in Hts'. destruct Hts' as (tm & tr & Htm & Htr & ->).
    destruct (Gl tl Htl) as (l & NTl & Il & Ll).
    destruct (Gr tr Htr) as (r & NTr & Ir & Lr).
    assert (Hc : exists c, (w_type e = OBJ_TYPE_STORAGE -> NT (w_child e) None None false c) /\
                           (w_type e <> OBJ_TYPE_STORAGE -> c = NL) /\
                           concat (map nids tm) = nids c).
    { unfold kids_of in Htm. cbn [filter] in Htm. unfold is_sto at 1 in Htm. rewrite Ee in Htm.
      destruct (N.eqb_spec (w_type e) OBJ_TYPE_STORAGE) as [Es|Es].
      - cbn [map] in Htm. inversion Htm as [|k c ? ? Hk Hnil]; subst. inversion Hnil; subst.
        unfold kid_of in Hk. rewrite Ee in Hk. exists c. split; [intros _; exact Hk|].
        split; [intro Hc; contradiction|]. cbn [map concat]. apply app_nil_r.
      - cbn [map] in Htm. inversion Htm; subst. exists NL. split; [intro Hc; contradiction|].
        split; reflexivity. }
    destruct Hc as (c & Hc1 & Hc2 & Hc3).
    exists (NN id l r c). split; [|split].
    + eapply NT_node; eauto; try lia.
      * destruct lo; [exact Elo|exact I].
      * destruct hi; [exact Ehi|exact I].
    + intro x. cbn [nids In]. rewrite !map_app, !concat_app, !in_app_iff, Il, Ir, Hc3. cbn [In]. tauto.
    + cbn [nids length]. rewrite !map_app, !concat_app, !app_length, Ll, Lr, Hc3. cbn [length]. lia.
Qed.

Lemma tree_walk_S : forall f work seen,
  tree_walk (S f) es work seen =
    match work with
    | [] => Some seen
    | child :: rest =>
      match sib_walk (S (length es)) es child None None false seen with
      | None => None
      | Some (ids, seen1) => tree_walk f es (kids_of ids ++ rest) seen1
      end
    end.
Proof. reflexivity. Qed.

Lemma tree_walk_inv : forall f work seen reach,
  tree_walk f es work seen = Some reach ->
  exists ts, Forall2 KT work ts /\ NoDup (concat (map nids ts)) /\
    (forall x, In x (concat (map nids ts)) -> ~ In x seen) /\
    (forall x, In x reach <-> In x (concat (map nids ts)) \/ In x seen).
Proof.
  induction f as [|f IH]; intros work seen reach H; [discriminate|].
  rewrite tree_walk_S in H. destruct work as [|child rest].
  { injection H as <-. exists []. split; [constructor|]. split; [constructor|].
    split; [intros x []|]. intro x. cbn. tauto. }
  destruct (sib_walk (S (length es)) es child None None false seen) as [[ids seen1]|] eqn:ES; [|discriminate].
  destruct (sib_walk_inv _ _ _ _ _ _ _ _ ES) as (NDi & Di & Si & G).
  destruct (IH _ _ _ H) as (ts' & Hts' & NDt & Dt & Rt).
  apply Forall2_app_inv_l in Hts'. destruct Hts' as (tk & tr & Htk & Htr & ->).
  destruct (G tk Htk) as (t & HNT & It & Lt).
  rewrite map_app, concat_app in NDt, Dt, Rt.
  exists (t :: tr). split; [constructor; [exact HNT|exact Htr]|].
  cbn [map concat].
  assert (Hdis : forall x, In x ids -> ~ In x (concat (map nids tk) ++ concat (map nids tr))).
  { intros x Hx Hc. apply (Dt x Hc). apply Si. left. exact Hx. }
  split; [|split].
  - apply (NoDup_incl_NoDup (l := ids ++ concat (map nids tk) ++ concat (map nids tr))).
    + apply NoDup_app_intro; assumption.
    + rewrite !app_length, Lt. rewrite ?app_length. lia.
    + intros x Hx. rewrite !in_app_iff in Hx. rewrite in_app_iff, It. tauto.
  - intros x Hx Hc. rewrite in_app_iff, It in Hx. destruct Hx as [[Hx|Hx]|Hx].
    + exact (Di x Hx Hc).
    + apply (Dt x); [apply in_or_app; left; exact Hx|apply Si; right; exact Hc].
    + apply (Dt x); [apply in_or_app; right; exact Hx|apply Si; right; exact Hc].
  - intro x. rewrite Rt, Si, !in_app_iff, It. tauto.
Qed.

(* per-node consequences *)
Lemma NT_link : forall id lo hi pr t, NT id lo hi pr t -> CodecProofs.link_ok id.
Proof. intros id lo hi pr t H. inversion H; subst; [left; reflexivity|right; assumption]. Qed.

Lemma NT_nodes : forall t id lo hi pr, NT id lo hi pr t ->
  forall x, In x (nids t) -> exists e nm, nthN es x = Some e /\
    (w_type e = OBJ_TYPE_STORAGE \/ w_type e = OBJ_TYPE_STREAM) /\
    (w_color e = COLOR_RED \/ w_color e = COLOR_BLACK) /\
    name_ok e = Some nm /\ CodecProofs.link_ok (w_left e) /\ CodecProofs.link_ok (w_right e) /\
    (w_type e = OBJ_TYPE_STORAGE -> CodecProofs.link_ok (w_child e)).
Proof.
  induction t as [|i l IHl r IHr c IHc]; intros id lo hi pr H x Hx; [destruct Hx|].
  inversion H as [|? ? ? ? e nm ? ? ? Hn Hm He Hty Hcol Hrr Hnm Hlo Hhi HL HR HC HC']; subst.
  cbn [nids In] in Hx. rewrite !in_app_iff in Hx. destruct Hx as [<-|[Hx|[Hx|Hx]]].
  - exists e, nm. repeat split; try assumption.
    + eapply NT_link; exact HL.
    + eapply NT_link; exact HR.
    + intro Hs. eapply NT_link; exact (HC Hs).
  - eapply IHl; eauto.
  - eapply IHr; eauto.
  - destruct (N.eq_dec (w_type e) OBJ_TYPE_STORAGE) as [Es|Es].
    + eapply IHc; [exact (HC Es)|exact Hx].
    + rewrite (HC' Es) in Hx. destruct Hx.
Qed.
End Walks.

(* ================================================================== *)
(* 14. stage 4: Directory::validate on the decoded table                *)
(* ================================================================== *)

Lemma name_ok_facts : forall e nm, name_ok e = Some nm ->
  2 <= w_namelen e /\ w_namelen e <= 64 /\ w_namelen e mod 2 = 0 /\
  u16_at (w_raw e) (w_namelen e - 2) = 0 /\
  scalars (w_name e) = Some nm /\ existsb (fun f => memN f nm) FORBIDDEN_CHARS = false.
Proof.
  intros e nm H. unfold name_ok in H.
  destruct ((2 <=? w_namelen e) && (w_namelen e <=? 64) && (w_namelen e mod 2 =? 0)) eqn:E1; cbn [negb] in H; [|discriminate].
  destruct (u16_at (w_raw e) (w_namelen e - 2) =? 0) eqn:E2; cbn [negb] in H; [|discriminate].
  destruct (all_zero (takeN (64 - w_namelen e) (dropN (w_namelen e) (w_raw e)))); cbn [negb] in H; [|discriminate].
  destruct (scalars (w_name e)) as [n|] eqn:E3; [|discriminate].
  destruct (existsb (fun f => memN f n) FORBIDDEN_CHARS) eqn:E4; [discriminate|]. injection H as <-.
  repeat split; try lia; assumption.
Qed.

Definition lab_name (e : wentry) : list N := match scalars (w_name e) with Some n => n | None => [] end.
Definition lab_type (e : wentry) : objtype :=
  match objtype_of_byte (w_type e) with Some t => t | None => TUnalloc end.
Definition lab_color (e : wentry) : color :=
  match color_of_byte (w_color e) with Some c => c | None => Red end.
Definition dec (e : wentry) : dirent := decoded e (lab_name e) (lab_type e) (lab_color e).

Lemma lab_name_ok : forall e nm, name_ok e = Some nm -> lab_name e = nm.
Proof.
  intros e nm H. destruct (name_ok_facts e nm H) as (_ & _ & _ & _ & Hs & _).
  unfold lab_name. rewrite Hs. reflexivity.
Qed.

Lemma lab_type_node : forall e, w_type e = OBJ_TYPE_STORAGE \/ w_type e = OBJ_TYPE_STREAM ->
  (lab_type e = TStorage /\ w_type e = OBJ_TYPE_STORAGE) \/ (lab_type e = TStream /\ w_type e = OBJ_TYPE_STREAM).
Proof. intros e [H|H]; [left|right]; unfold lab_type; rewrite H; split; reflexivity. Qed.

Lemma lab_color_red : forall e, w_color e = COLOR_RED \/ w_color e = COLOR_BLACK ->
  color_eqb (lab_color e) Red = (w_color e =? COLOR_RED).
Proof. intros e [H|H]; unfold lab_color; rewrite H; reflexivity. Qed.

Definition push (id : N) (pr : bool) (st : list (N * bool)) : list (N * bool) :=
  if id =? NO_STREAM then st else (id, pr) :: st.

Lemma lt_name_cmp : forall a b, lt_name a b = true -> cmp_names a b = Lt.
Proof. intros a b H. unfold lt_name in H. destruct (cmp_names a b); try discriminate; reflexivity. Qed.

Section Dfs.
Variable es : list wentry.
Let ds := map dec es.

Lemma ds_nth : forall i e, nthN es i = Some e -> nthN ds i = Some (dec e).
Proof. intros i e H. unfold ds. rewrite nthN_map, H. reflexivity. Qed.

Lemma ds_len : lenN ds = lenN es.
Proof. unfold ds. apply lenN_map. Qed.

Lemma link_l : forall k lo nm pr' t (st : list (N * bool)), NT es k lo (Some nm) pr' t ->
  (if k =? NO_STREAM then Ok st else
   if lenN ds <=? k then Err EInvalidData else
   rbind (dir_entry_of ds k) (fun le =>
     match cmp_names (d_name le) nm with Lt => Ok ((k, pr') :: st) | _ => Err EInvalidData end))
  = Ok (push k pr' st).
Proof.
  intros k lo nm pr' t st H. unfold push.
  inversion H as [|? ? ? ? e nm0 ? ? ? Hn Hm He Hty Hcol Hrr Hnm Hlo Hhi HL HR HC HC']; subst.
  - rewrite N.eqb_refl. reflexivity.
  - replace (k =? NO_STREAM) with false by lia.
    pose proof (WalkProofs.nthN_Some_lt _ _ _ He) as Hlt. rewrite <- ds_len in Hlt.
    replace (lenN ds <=? k) with false by lia.
    unfold dir_entry_of. rewrite (ds_nth _ _ He). cbn [rbind].
    change (d_name (dec e)) with (lab_name e). rewrite (lab_name_ok _ _ Hnm).
    cbn [opt_hi] in Hhi. rewrite (lt_name_cmp _ _ Hhi). reflexivity.
Qed.

Lemma link_r : forall k nm hi pr' t (st : list (N * bool)), NT es k (Some nm) hi pr' t ->
  (if k =? NO_STREAM then Ok st else
   if lenN ds <=? k then Err EInvalidData else
   rbind (dir_entry_of ds k) (fun re =>
     match cmp_names nm (d_name re) with Lt => Ok ((k, pr') :: st) | _ => Err EInvalidData end))
  = Ok (push k pr' st).
Proof.
  intros k nm hi pr' t st H. unfold push.
  inversion H as [|? ? ? ? e nm0 ? ? ? Hn Hm He Hty Hcol Hrr Hnm Hlo Hhi HL HR HC HC']; subst.
  - rewrite N.eqb_refl. reflexivity.
  - replace (k =? NO_STREAM) with false by lia.
    pose proof (WalkProofs.nthN_Some_lt _ _ _ He) as Hlt. rewrite <- ds_len in Hlt.
    replace (lenN ds <=? k) with false by lia.
    unfold dir_entry_of. rewrite (ds_nth _ _ He). cbn [rbind].
    change (d_name (dec e)) with (lab_name e). rewrite (lab_name_ok _ _ Hnm).
    cbn [opt_lo] in Hlo. rewrite (lt_name_cmp _ _ Hlo). reflexivity.
Qed.

Lemma link_c : forall k t (st : list (N * bool)), KT es k t ->
  (if k =? NO_STREAM then Ok st else
   if lenN ds <=? k then Err EInvalidData else Ok ((k, false) :: st)) = Ok (push k false st).
Proof.
  intros k t st H. unfold push.
  inversion H as [|? ? ? ? e nm0 ? ? ? Hn Hm He Hty Hcol Hrr Hnm Hlo Hhi HL HR HC HC']; subst.
  - rewrite N.eqb_refl. reflexivity.
  - replace (k =? NO_STREAM) with false by lia.
    pose proof (WalkProofs.nthN_Some_lt _ _ _ He) as Hlt. rewrite <- ds_len in Hlt.
    replace (lenN ds <=? k) with false by lia. reflexivity.
Qed.

Lemma dir_dfs_S : forall f strict (dl : list dirent) id parent_red rest visited,
  dir_dfs (S f) strict dl ((id, parent_red) :: rest) visited =
      if memN id visited then Err EInvalidData else
      rbind (dir_entry_of dl id) (fun e =>
      if (if id =? ROOT_STREAM_ID then negb (objtype_eqb (d_type e) TRoot)
          else negb (objtype_eqb (d_type e) TStorage) && negb (objtype_eqb (d_type e) TStream))
      then Err EInvalidData else
      let red := color_eqb (d_color e) Red in
      if parent_red && red && strict then Err EInvalidData else
      let n := lenN dl in
      rbind (if d_left e =? NO_STREAM then Ok rest else
             if n <=? d_left e then Err EInvalidData else
             rbind (dir_entry_of dl (d_left e)) (fun le =>
             match cmp_names (d_name le) (d_name e) with
             | Lt => Ok ((d_left e, red) :: rest)
             | _ => Err EInvalidData
             end)) (fun st1 =>
      rbind (if d_right e =? NO_STREAM then Ok st1 else
             if n <=? d_right e then Err EInvalidData else
             rbind (dir_entry_of dl (d_right e)) (fun re =>
             match cmp_names (d_name e) (d_name re) with
             | Lt => Ok ((d_right e, red) :: st1)
             | _ => Err EInvalidData
             end)) (fun st2 =>
      rbind (if d_child e =? NO_STREAM then Ok st2 else
             if n <=? d_child e then Err EInvalidData else Ok ((d_child e, false) :: st2)) (fun st3 =>
      dir_dfs f strict dl st3 (id :: visited))))).
Proof. reflexivity. Qed.

(* one step of the search on a node the checker has walked *)
Lemma dfs_node_step : forall f id pr rest V e nm lo hi l r c,
  nthN es id = Some e -> id <> ROOT_STREAM_ID -> ~ In id V ->
  (w_type e = OBJ_TYPE_STORAGE \/ w_type e = OBJ_TYPE_STREAM) ->
  (w_color e = COLOR_RED \/ w_color e = COLOR_BLACK) ->
  pr && (w_color e =? COLOR_RED) = false -> name_ok e = Some nm ->
  NT es (w_left e) lo (Some nm) (w_color e =? COLOR_RED) l ->
  NT es (w_right e) (Some nm) hi (w_color e =? COLOR_RED) r ->
  KT es (w_child e) c ->
  dir_dfs (S f) true ds ((id, pr) :: rest) V =
  dir_dfs f true ds (push (w_child e) false (push (w_right e) (w_color e =? COLOR_RED)
                      (push (w_left e) (w_color e =? COLOR_RED) rest))) (id :: V).
Proof.
  intros f id pr rest V e nm lo hi l r c He Hid HV Hty Hcol Hrr Hnm HL HR HC.
  rewrite dir_dfs_S. apply WalkProofs.memN_false in HV. rewrite HV.
  unfold dir_entry_of at 1. rewrite (ds_nth _ _ He). cbn [rbind].
  replace (id =? ROOT_STREAM_ID) with false by lia.
  change (d_type (dec e)) with (lab_type e). change (d_color (dec e)) with (lab_color e).
  change (d_left (dec e)) with (w_left e). change (d_right (dec e)) with (w_right e).
  change (d_child (dec e)) with (w_child e). change (d_name (dec e)) with (lab_name e).
  rewrite (lab_name_ok _ _ Hnm), (lab_color_red _ Hcol).
  assert (Hty' : negb (objtype_eqb (lab_type e) TStorage) && negb (objtype_eqb (lab_type e) TStream) = false).
  { destruct (lab_type_node e Hty) as [[-> _]|[-> _]]; reflexivity. }
  rewrite Hty'. cbv zeta. rewrite Hrr. cbn [andb].
  rewrite (link_l _ _ _ _ _ rest HL). cbn [rbind].
  rewrite (link_r _ _ _ _ _ _ HR). cbn [rbind].
  rewrite (link_c _ _ _ HC). cbn [rbind]. reflexivity.
Qed.

Lemma dfs_sub : forall t id lo hi pr, NT es id lo hi pr t ->
  (forall x e, In x (nids t) -> nthN es x = Some e -> w_type e = OBJ_TYPE_STREAM -> w_child e = NO_STREAM) ->
  NoDup (nids t) ->
  forall f rest V, (forall x, In x (nids t) -> ~ In x V /\ x <> ROOT_STREAM_ID) ->
  exists V', (forall x, In x V' <-> In x (nids t) \/ In x V) /\
    dir_dfs (length (nids t) + f) true ds (push id pr rest) V = dir_dfs f true ds rest V'.
Proof.
  induction t as [|i l IHl r IHr c IHc]; intros id lo hi pr H Hst ND f rest V HV.
  { inversion H; subst. exists V. split; [intro x; cbn; tauto|]. unfold push. rewrite N.eqb_refl. reflexivity. }
  inversion H as [|? ? ? ? e nm ? ? ? Hn Hm He Hty Hcol Hrr Hnm Hlo Hhi HL HR HC HC']; subst.
  cbn [nids] in ND, HV. inversion ND as [|? ? Hni ND']; subst.
  destruct (NoDup_app_inv _ _ _ ND') as (NDl & NDrc & Hlr).
  destruct (NoDup_app_inv _ _ _ NDrc) as (NDr & NDc & Hrc).
  assert (HKc : KT es (w_child e) c /\ (w_type e = OBJ_TYPE_STREAM -> w_child e = NO_STREAM)).
  { split.
    - destruct (N.eq_dec (w_type e) OBJ_TYPE_STORAGE) as [Es|Es]; [exact (HC Es)|].
      rewrite (HC' Es). assert (Ht : w_type e = OBJ_TYPE_STREAM) by (destruct Hty; [contradiction|assumption]).
      rewrite (Hst i e (or_introl eq_refl) He Ht). constructor.
    - intro Ht. exact (Hst i e (or_introl eq_refl) He Ht). }
  destruct HKc as [HKc _].
  unfold push at 1. replace (i =? NO_STREAM) with false by lia.
  destruct (HV i (or_introl eq_refl)) as [HiV Hi0].
  assert (HVa : forall x, In x (i :: nids l ++ nids r ++ nids c) -> ~ In x V) by (intros x Hx; apply (HV x Hx)).
  assert (HVb : forall x, In x (i :: nids l ++ nids r ++ nids c) -> x <> ROOT_STREAM_ID) by (intros x Hx; apply (HV x Hx)).
  cbn [nids length]. cbn [plus].
  rewrite (dfs_node_step _ _ _ _ _ _ _ _ _ _ _ _ He Hi0 HiV Hty Hcol Hrr Hnm HL HR HKc).
  replace (length (nids l ++ nids r ++ nids c) + f)%nat
    with (length (nids c) + (length (nids r) + (length (nids l) + f)))%nat by (rewrite !app_length; lia).
  destruct (IHc _ _ _ _ HKc) with (f := (length (nids r) + (length (nids l) + f))%nat)
      (rest := push (w_right e) (w_color e =? COLOR_RED) (push (w_left e) (w_color e =? COLOR_RED) rest))
      (V := i :: V) as (V1 & HV1 & E1).
  { intros x e0 Hx. apply Hst. right. apply in_or_app. right. apply in_or_app. right. exact Hx. }
  { exact NDc. }
  { intros x Hx. split.
    - intros [<-|Hc].
      + apply Hni. apply in_or_app. right. apply in_or_app. right. exact Hx.
      + apply (HVa x); [right; apply in_or_app; right; apply in_or_app; right; exact Hx|exact Hc].
    - apply (HVb x). right. apply in_or_app. right. apply in_or_app. right. exact Hx. }
  rewrite E1.
  destruct (IHr _ _ _ _ HR) with (f := (length (nids l) + f)%nat)
      (rest := push (w_left e) (w_color e =? COLOR_RED) rest) (V := V1) as (V2 & HV2 & E2).
  { intros x e0 Hx. apply Hst. right. apply in_or_app. right. apply in_or_app. left. exact Hx. }
  { exact NDr. }
  { intros x Hx. split.
    - intro Hc. apply HV1 in Hc. destruct Hc as [Hc|[<-|Hc]].
      + exact (Hrc x Hx Hc).
      + apply Hni. apply in_or_app. right. apply in_or_app. left. exact Hx.
      + apply (HVa x); [right; apply in_or_app; right; apply in_or_app; left; exact Hx|exact Hc].
    - apply (HVb x). right. apply in_or_app. right. apply in_or_app. left. exact Hx. }
  rewrite E2.
  destruct (IHl _ _ _ _ HL) with (f := f) (rest := rest) (V := V2) as (V3 & HV3 & E3).
  { intros x e0 Hx. apply Hst. right. apply in_or_app. left. exact Hx. }
  { exact NDl. }
  { intros x Hx. split.
    - intro Hc. apply HV2 in Hc. destruct Hc as [Hc|Hc]; [apply (Hlr x Hx); apply in_or_app; left; exact Hc|].
      apply HV1 in Hc. destruct Hc as [Hc|[<-|Hc]].
      + apply (Hlr x Hx). apply in_or_app. right. exact Hc.
      + apply Hni. apply in_or_app. left. exact Hx.
      + apply (HVa x); [right; apply in_or_app; left; exact Hx|exact Hc].
    - apply (HVb x). right. apply in_or_app. left. exact Hx. }
  rewrite E3. exists V3. split; [|reflexivity].
  intro x. rewrite HV3, HV2, HV1. cbn [In]. rewrite !in_app_iff. tauto.
Qed.
End Dfs.

Lemma dir_dfs_nil : forall f strict dl V, dir_dfs (S f) strict dl [] V = Ok tt.
Proof. reflexivity. Qed.

(* Directory::validate accepts the decoded table *)
Theorem wf_dir_validate_ok : forall es root rest reach,
  es = root :: rest -> tree_facts es root reach -> w_len root mod MINI_SECTOR_LEN = 0 ->
  dir_validate true (map dec es) = Ok tt.
Proof.
  intros es root rest reach Hes TF H64.
  destruct (tree_walk_inv es _ _ _ _ (tf_walk _ _ _ TF)) as (ts & Hts & ND & Dis & Hreach).
  inversion Hts as [|k t ? ts0 HK Hnil]; subst ts. inversion Hnil; subst. clear Hts Hnil.
  cbn [map concat] in ND, Dis, Hreach. rewrite app_nil_r in ND, Dis, Hreach.
  assert (Hroot0 : nthN (root :: rest) ROOT_STREAM_ID = Some root) by reflexivity.
  assert (Hrt : lab_type root = TRoot) by (unfold lab_type; rewrite (tf_root_type _ _ _ TF); reflexivity).
  unfold dir_validate. cbn [map].
  change (d_len (dec root)) with (if objtype_eqb (lab_type root) TStorage then 0 else w_len root).
  rewrite Hrt. cbn [objtype_eqb]. rewrite H64. cbn [N.eqb negb].
  change (dec root :: map dec rest) with (map dec (root :: rest)).
  rewrite dir_dfs_S. cbn [memN].
  unfold dir_entry_of at 1. rewrite (ds_nth _ _ _ Hroot0). cbn [rbind].
  change (ROOT_STREAM_ID =? ROOT_STREAM_ID) with true. cbv iota.
  change (d_type (dec root)) with (lab_type root). rewrite Hrt. cbn [objtype_eqb negb andb]. cbv zeta.
  change (d_left (dec root)) with (w_left root). change (d_right (dec root)) with (w_right root).
  change (d_child (dec root)) with (w_child root).
  rewrite (tf_root_left _ _ _ TF), (tf_root_right _ _ _ TF), N.eqb_refl. cbn [rbind].
  rewrite (link_c _ _ _ [] HK). cbn [rbind].
  assert (Hlen : (length (nids t) <= length (root :: rest))%nat).
  { assert (HF : Forall (fun x => x < lenN (root :: rest)) (nids t)).
    { apply Forall_forall. intros x Hx.
      destruct (NT_nodes _ _ _ _ _ _ HK x Hx) as (e & nm & He & _). eapply WalkProofs.nthN_Some_lt; exact He. }
    pose proof (WalkProofs.bounded_nodup_length _ _ ND HF) as Hb.
    rewrite CodecProofs.lenN_length in Hb. lia. }
  rewrite map_length.
  replace (S (length (root :: rest))) with (length (nids t) + S (length (root :: rest) - length (nids t)))%nat by lia.
  destruct (dfs_sub _ _ _ _ _ _ HK) with (f := S (length (root :: rest) - length (nids t)))
      (rest := @nil (N * bool)) (V := [ROOT_STREAM_ID]) as (V' & _ & E).
  - intros x e Hx He Hty. apply (tf_stream _ _ _ TF x e He Hty).
    apply WalkProofs.memN_In. apply Hreach. left. exact Hx.
  - exact ND.
  - intros x Hx. pose proof (Dis x Hx) as Hd. split; [exact Hd|]. intro Hc. apply Hd. left. symmetry. exact Hc.
  - rewrite E. apply dir_dfs_nil.
Qed.

(* ================================================================== *)
(* 15. stage 4: every slot satisfies the strict decoder's conditions     *)
(* ================================================================== *)

Definition bytes_ok (bytes : list byte) : bool := forallb (fun b => b <? 256) bytes.

Lemma In_takeN : forall A (l : list A) n x, In x (takeN n l) -> In x l.
Proof.
  intros A l n x H. destruct (In_nthN _ _ _ H) as [i Hi]. rewrite StrictProofs.nthN_takeN in Hi.
  destruct (i <? n); [|discriminate]. eapply WalkProofs.nthN_In; exact Hi.
Qed.
Lemma In_dropN : forall A (l : list A) n x, In x (dropN n l) -> In x l.
Proof.
  intros A l n x H. destruct (In_nthN _ _ _ H) as [i Hi]. rewrite StrictProofs.nthN_dropN in Hi.
  eapply WalkProofs.nthN_In; exact Hi.
Qed.

Lemma split_chunks_In : forall fuel sl (bs ch : list byte) x,
  In ch (split_chunks fuel sl bs) -> In x ch -> In x bs.
Proof.
  induction fuel as [|f IH]; intros sl bs ch x Hch Hx; [destruct Hch|].
  destruct bs as [|b t]; [destruct Hch|]. cbn [split_chunks] in Hch. destruct Hch as [<-|Hch].
  - eapply In_takeN; exact Hx.
  - eapply In_dropN. eapply IH; eauto.
Qed.

Lemma raw_entry_bytes : forall bytes ids ch x, In ch (raw_entries_of bytes ids) -> In x ch -> In x bytes.
Proof.
  intros bytes ids ch x Hch Hx. unfold raw_entries_of in Hch. apply in_flat_map in Hch.
  destruct Hch as (i & _ & Hch). pose proof (split_chunks_In _ _ _ _ _ Hch Hx) as Hs.
  unfold ck_sec in Hs. destruct (nthN (ck_secs bytes) (i + 1)) as [sc|] eqn:E; [|destruct Hs].
  apply WalkProofs.nthN_In in E. unfold ck_secs in E. eapply split_chunks_In; eauto.
Qed.

Lemma le_val2_lt : forall (l : list byte), (forall x, In x l -> x < 256) -> lenN l <= 2 -> le_val l < 65536.
Proof.
  intros l H Hl. destruct l as [|a [|b [|c t]]]; cbn [le_val].
  - lia.
  - pose proof (H a (or_introl eq_refl)). lia.
  - pose proof (H a (or_introl eq_refl)). pose proof (H b (or_intror (or_introl eq_refl))). lia.
  - cbn [lenN] in Hl. lia.
Qed.

Lemma units_of_lt : forall k (bs : list byte), (forall x, In x bs -> x < 256) ->
  Forall (fun u => u < 65536) (units_of bs k).
Proof.
  induction k as [|k IH]; intros bs H; [constructor|].
  change (units_of bs (S k)) with (le_val (takeN 2 bs) :: units_of (dropN 2 bs) k).
  constructor.
  - apply le_val2_lt; [intros x Hx; apply H; eapply In_takeN; exact Hx|rewrite StrictProofs.lenN_takeN; lia].
  - apply IH. intros x Hx. apply H. eapply In_dropN; exact Hx.
Qed.

Lemma lenN_units_of : forall k (bs : list byte), lenN (units_of bs k) = N.of_nat k.
Proof.
  induction k as [|k IH]; intro bs; [reflexivity|].
  change (units_of bs (S k)) with (le_val (takeN 2 bs) :: units_of (dropN 2 bs) k).
  cbn [lenN]. rewrite IH. lia.
Qed.

Lemma lenN_cons : forall A (x : A) l, lenN (x :: l) = 1 + lenN l.
Proof. intros. cbn [lenN]. lia. Qed.
Lemma lenN_nil : forall A, lenN (@nil A) = 0.
Proof. reflexivity. Qed.

Lemma scalars_cons : forall a t, scalars (a :: t) =
    if (55296 <=? a) && (a <=? 56319) then
      match t with
      | b :: t' =>
        if (56320 <=? b) && (b <=? 57343) then
          match scalars t' with
          | Some r => Some ((65536 + (a - 55296) * 1024 + (b - 56320)) :: r)
          | None => None
          end
        else None
      | [] => None
      end
    else if (56320 <=? a) && (a <=? 57343) then None
    else match scalars t with Some r => Some (a :: r) | None => None end.
Proof. reflexivity. Qed.

Lemma utf16_cons : forall c r, utf16 (c :: r) = utf16_char c ++ utf16 r.
Proof. reflexivity. Qed.

Lemma utf16_len_scalars : forall n u nm, (length u <= n)%nat -> Forall (fun x => x < 65536) u ->
  scalars u = Some nm -> lenN (utf16 nm) = lenN u.
Proof.
  induction n as [|n IH]; intros u nm Hn HF H.
  { destruct u; [|cbn [length] in Hn; lia]. injection H as <-. reflexivity. }
  destruct u as [|a t]; [injection H as <-; reflexivity|].
  rewrite scalars_cons in H. inversion HF as [|? ? Ha Ht]; subst.
  destruct ((55296 <=? a) && (a <=? 56319)) eqn:Eh.
  - destruct t as [|b t']; [discriminate|].
    destruct ((56320 <=? b) && (b <=? 57343)) eqn:El; [|discriminate].
    destruct (scalars t') as [r|] eqn:Er; [|discriminate].
    assert (Hc : exists c, 65536 <= c /\ Some (c :: r) = Some nm) by (eexists; split; [|exact H]; lia).
    clear H. destruct Hc as (c & Hc & H). injection H as <-.
    inversion Ht; subst.
    rewrite utf16_cons, CodecProofs.lenN_app.
    rewrite (IH t' r); [|cbn [length] in Hn; lia|assumption|exact Er].
    unfold utf16_char. replace (c <? 65536) with false by lia.
    cbv zeta. rewrite !lenN_cons, ?lenN_nil. lia.
  - destruct ((56320 <=? a) && (a <=? 57343)); [discriminate|].
    destruct (scalars t) as [r|] eqn:Er; [|discriminate]. injection H as <-.
    rewrite utf16_cons, CodecProofs.lenN_app.
    rewrite (IH t r); [|cbn [length] in Hn; lia|assumption|exact Er].
    unfold utf16_char. replace (a <? 65536) with true by lia. rewrite !lenN_cons, ?lenN_nil. lia.
Qed.

Lemma name_ok_entry : forall m ch nm, (forall x, In x ch -> x < 256) ->
  name_ok (parse_entry m ch) = Some nm ->
  w_namelen (parse_entry m ch) <= 64 /\ w_namelen (parse_entry m ch) mod 2 = 0 /\
  u16_at (w_raw (parse_entry m ch)) (2 * nlc (parse_entry m ch)) = 0 /\
  scalars (w_name (parse_entry m ch)) = Some nm /\
  lenN (utf16 nm) <= MAX_NAME_LEN /\ existsb (fun f => memN f nm) FORBIDDEN_CHARS = false.
Proof.
  intros m ch nm Hb H. set (e := parse_entry m ch) in *.
  destruct (name_ok_facts e nm H) as (H2 & H64 & Hev & Hterm & Hsc & Hforb).
  assert (Hnlc : 2 * nlc e = w_namelen e - 2).
  { unfold nlc. replace (0 <? w_namelen e) with true by lia. lia. }
  split; [exact H64|]. split; [exact Hev|]. split; [rewrite Hnlc; exact Hterm|]. split; [exact Hsc|].
  split; [|exact Hforb].
  rewrite (utf16_len_scalars (length (w_name e)) (w_name e) nm (le_n _)); [| |exact Hsc].
  - change (w_name e) with (units_of ch (N.to_nat (if (2 <=? u16_at ch 64) && (u16_at ch 64 <=? 64)
                                                    then u16_at ch 64 / 2 - 1 else 0))).
    rewrite lenN_units_of, N2Nat.id. change (u16_at ch 64) with (w_namelen e).
    unfold MAX_NAME_LEN. destruct ((2 <=? w_namelen e) && (w_namelen e <=? 64)); lia.
  - apply units_of_lt. exact Hb.
Qed.

Section Entries.
Variable bytes : list byte.
Variable c : wf_cert.
Hypothesis Hok : wf_cert_ok bytes c.
Hypothesis Hbytes : bytes_ok bytes = true.

Lemma bytes_lt : forall x, In x bytes -> x < 256.
Proof. intros x Hx. unfold bytes_ok in Hbytes. rewrite forallb_forall in Hbytes. specialize (Hbytes x Hx). lia. Qed.

Theorem wf_entries_ok : forall ch, In ch (raw_entries_of bytes (wc_dir_ids c)) ->
  entry_ok (parse_entry (ck_mask bytes) ch) (lab_name (parse_entry (ck_mask bytes) ch))
           (lab_type (parse_entry (ck_mask bytes) ch)) (lab_color (parse_entry (ck_mask bytes) ch)).
Proof.
  intros ch Hch. set (e := parse_entry (ck_mask bytes) ch).
  pose proof (co_tree _ _ Hok) as TF. pose proof (co_es _ _ Hok) as Hes.
  assert (Hchb : forall x, In x ch -> x < 256)
    by (intros x Hx; apply bytes_lt; eapply raw_entry_bytes; eauto).
  destruct (In_nthN _ _ _ Hch) as [i Hi].
  assert (Hei : nthN (wc_es bytes c) i = Some e).
  { unfold wc_es, es_of_ids. rewrite nthN_map, Hi. reflexivity. }
  destruct (tree_walk_inv _ _ _ _ _ (tf_walk _ _ _ TF)) as (ts & Hts & ND & Dis & Hreach).
  inversion Hts as [|k t ? ts0 HK Hnil]; subst ts. inversion Hnil; subst. clear Hts Hnil.
  cbn [map concat] in ND, Dis, Hreach. rewrite app_nil_r in ND, Dis, Hreach.
  destruct (memN i (wc_reach c)) eqn:Em.
  - apply WalkProofs.memN_In in Em. apply Hreach in Em. destruct Em as [Hin|[<-|[]]].
    + (* a node of the tree *)
      destruct (NT_nodes _ _ _ _ _ _ HK i Hin) as (e' & nm & He' & Hty & Hcol & Hnm & Hl & Hr & Hc).
      rewrite Hei in He'. injection He' as <-.
      destruct (name_ok_entry _ _ _ Hchb Hnm) as (H64 & Hev & Hterm & Hsc & Hlen & Hforb).
      assert (Hreachi : memN i (wc_reach c) = true) by (apply WalkProofs.memN_In; apply Hreach; left; exact Hin).
      assert (Hln : lab_name e = nm) by (apply lab_name_ok; exact Hnm).
      assert (Hcolv : color_of_byte (w_color e) = Some (lab_color e)).
      { unfold lab_color. destruct Hcol as [E|E]; rewrite E; reflexivity. }
      rewrite Hln.
      destruct (lab_type_node e Hty) as [[Hlt Hwt]|[Hlt Hwt]]; rewrite Hlt.
      * constructor; try assumption.
        -- rewrite Hwt. reflexivity.
        -- cbn [objtype_eqb]. split; assumption.
        -- destruct (Hc Hwt) as [Hn|Hn]; [left; exact Hn|right; split; [discriminate|exact Hn]].
        -- discriminate.
        -- intros _. exact (tf_storage _ _ _ TF i e Hei Hwt Hreachi).
      * destruct (tf_stream _ _ _ TF i e Hei Hwt Hreachi) as (Hz & Hct & Hmt & Hch0).
        constructor; try assumption.
        -- rewrite Hwt. reflexivity.
        -- cbn [objtype_eqb]. split; assumption.
        -- left. exact Hch0.
        -- intros _. repeat split; assumption.
        -- discriminate.
    + (* the root entry *)
      rewrite Hes in Hei. cbn [nthN N.eqb] in Hei. injection Hei as Hre.
      destruct (tf_root_nameok _ _ _ TF) as (rn & Hrn). destruct (tf_root_name _ _ _ TF) as (n & Hsn & Hn).
      rewrite Hre in *.
      destruct (name_ok_entry _ _ _ Hchb Hrn) as (H64 & Hev & Hterm & Hsc & _ & _).
      assert (Hln : lab_name e = ROOT_DIR_NAME) by (unfold lab_name; rewrite Hsn; exact Hn).
      assert (Hlt : lab_type e = TRoot) by (unfold lab_type; rewrite (tf_root_type _ _ _ TF); reflexivity).
      rewrite Hln, Hlt. constructor; try assumption.
      * rewrite Hsn, Hn. reflexivity.
      * rewrite (tf_root_type _ _ _ TF). reflexivity.
      * reflexivity.
      * unfold lab_color. destruct (tf_root_color _ _ _ TF) as [E|E]; rewrite E; reflexivity.
      * left. exact (tf_root_left _ _ _ TF).
      * left. exact (tf_root_right _ _ _ TF).
      * destruct (NT_link _ _ _ _ _ _ HK) as [Hn0|Hn0]; [left; exact Hn0|right; split; [discriminate|exact Hn0]].
      * discriminate.
      * discriminate.
    - (* an unallocated slot *)
      pose proof (tf_blank _ _ _ TF i e Hei Em) as Hb. pose proof (tf_blank_even _ _ _ TF i e Hei Em) as Hev.
      pose proof (blank_entry_ok _ _ Hb Hev) as Hbe. fold e in Hbe.
      assert (Hln : lab_name e = []) by (unfold lab_name; rewrite (eo_name _ _ _ _ Hbe); reflexivity).
      assert (Hlt : lab_type e = TUnalloc) by (unfold lab_type; rewrite (eo_type _ _ _ _ Hbe); reflexivity).
      assert (Hlc : lab_color e = Red) by (unfold lab_color; rewrite (eo_color _ _ _ _ Hbe); reflexivity).
      rewrite Hln, Hlt, Hlc. exact Hbe.
Qed.
End Entries.


(* ================================================================== *)
(* 16. the converse theorem                                             *)
(* ================================================================== *)

Lemma wf_size_ok : forall bytes, wf_check bytes = 0 -> SizeOk bytes.
Proof.
  intros bytes H. destruct (wf_inv_body bytes H) as (Hmod & Hlen & Hns & _).
  unfold SizeOk. rewrite (len_eq bytes Hmod Hlen).
  destruct (ck_sl_cases bytes) as [E|E]; rewrite E; lia.
Qed.

(* the labels the strict decoder computes, read off the entry the checker parses *)
Definition ck_lab (m : N) (ch : list byte) : list N * objtype * color :=
  (lab_name (parse_entry m ch), lab_type (parse_entry m ch), lab_color (parse_entry m ch)).

(* the directory table open_strict builds *)
Definition ck_dirents (bytes : list byte) (c : wf_cert) : list dirent :=
  dirents_of bytes c (ck_lab (ck_mask bytes)).

Lemma ck_dirents_map : forall bytes c, ck_dirents bytes c = map dec (wc_es bytes c).
Proof. intros bytes c. unfold ck_dirents, dirents_of, wc_es, es_of_ids. rewrite map_map. reflexivity. Qed.

(* main theorem, with the state identified: its tables are the checker's *)
Theorem wf_open_cert : forall bytes c,
  wf_check bytes = 0 -> bytes_ok bytes = true -> wf_cert_ok bytes c ->
  open_model true bytes = Ok (opened bytes c (ck_dirents bytes c)).
Proof.
  intros bytes c H Hb Hok. unfold ck_dirents.
  apply (wf_open_given_entries bytes c _ H Hok (wf_size_ok bytes H)).
  - intros ch Hch. exact (wf_entries_ok bytes c Hok Hb ch Hch).
  - fold (ck_dirents bytes c). rewrite ck_dirents_map.
    eapply wf_dir_validate_ok; [exact (co_es _ _ Hok)|exact (co_tree _ _ Hok)|].
    exact (mn_len64 _ _ _ _ _ _ _ (co_mini _ _ Hok)).
Qed.

Theorem wf_open_opened : forall bytes, wf_check bytes = 0 -> bytes_ok bytes = true ->
  exists c, wf_cert_ok bytes c /\ open_model true bytes = Ok (opened bytes c (ck_dirents bytes c)).
Proof.
  intros bytes H Hb. destruct (wf_certificate bytes H) as [c Hok].
  exists c. split; [exact Hok|exact (wf_open_cert bytes c H Hb Hok)].
Qed.

Theorem wf_open_ok : forall bytes, wf_check bytes = 0 -> bytes_ok bytes = true ->
  exists st, open_model true bytes = Ok st.
Proof. intros bytes H Hb. destruct (wf_open_opened bytes H Hb) as (c & _ & E). eexists. exact E. Qed.

(* permissive mode follows *)
Corollary wf_open_opened_permissive : forall bytes, wf_check bytes = 0 -> bytes_ok bytes = true ->
  exists c, wf_cert_ok bytes c /\ open_model false bytes = Ok (opened bytes c (ck_dirents bytes c)).
Proof.
  intros bytes H Hb. destruct (wf_open_opened bytes H Hb) as (c & Hok & E).
  exists c. split; [exact Hok|]. apply StrictProofs.strict_implies_permissive. exact E.
Qed.

Corollary wf_open_ok_permissive : forall bytes, wf_check bytes = 0 -> bytes_ok bytes = true ->
  exists st, open_model false bytes = Ok st.
Proof. intros bytes H Hb. destruct (wf_open_opened_permissive bytes H Hb) as (c & _ & E). eexists. exact E. Qed.

(* ================================================================== *)
(* 17. the six places where the 44-rule checker asked less than MS-CFB   *)
(*     2.6 (and less than open_strict): each is now refused by the        *)
(*     checker too, by the new rule named                                  *)
(* ================================================================== *)
From Cfb.proofs Require WfProofs.

Module Gaps.
  Definition img0 := concat_img (create_image V3).
  Definition img1 := concat_img (img (cs (WfProofs.run_hist V3 [OCreateStorage [WfProofs.SL; 100]]))).
  Definition patch (off : N) (b : byte) (l : list byte) : list byte := spliceN l off [b].
  Definition both_refuse (rule : N) (b : list byte) : Prop :=
    wf_check b = rule /\ open_model true b = Err EInvalidData.

  (* the unpatched images are accepted by both *)
  Example base_ok : wf_check img0 = 0 /\ wf_check img1 = 0 /\
                    is_ok (open_model true img0) = true /\ is_ok (open_model true img1) = true.
  Proof. vm_compute. repeat split; reflexivity. Qed.
  (* an unallocated slot whose name-length field is 1 (blank_entry only asks for <= 2) *)
  Example blank_odd_name_length : both_refuse 48 (patch (1024 + 128 + 64) 1 img0).
  Proof. vm_compute. split; reflexivity. Qed.
  (* root entry with colour byte 7 *)
  Example root_bad_colour : both_refuse 46 (patch (1024 + 67) 7 img0).
  Proof. vm_compute. split; reflexivity. Qed.
  (* root entry whose name is not NUL-terminated *)
  Example root_unterminated_name : both_refuse 47 (patch (1024 + 20) 65 img0).
  Proof. vm_compute. split; reflexivity. Qed.
  (* root entry with name-length field 23 *)
  Example root_odd_name_length : both_refuse 47 (patch (1024 + 64) 23 img0).
  Proof. vm_compute. split; reflexivity. Qed.
  (* a storage entry with a non-zero start sector / a non-zero length *)
  Example storage_start_nonzero : both_refuse 49 (patch (1024 + 128 + 116) 5 img1).
  Proof. vm_compute. split; reflexivity. Qed.
  Example storage_length_nonzero : both_refuse 50 (patch (1024 + 128 + 120) 1 img1).
  Proof. vm_compute. split; reflexivity. Qed.
  (* [bytes_ok] is needed: the storage's name field is overwritten with 31 units whose
     low "byte" is 70000; every rule of the checker passes, open_strict refuses *)
  Definition img_wide : list byte :=
    spliceN (spliceN img1 (1024 + 128) (concat (repeat [70000; 0] 31))) (1024 + 128 + 64) [64].
  Example bytes_ok_needed :
    wf_check img_wide = 0 /\ bytes_ok img_wide = false /\ is_ok (open_model true img_wide) = false.
  Proof. vm_compute. repeat split; reflexivity. Qed.
End Gaps.

(* non-vacuity: images written by the model, with storages, mini and regular streams,
   removals and a second directory sector, of both versions *)
Module WfOpenExample.
  Definition imgs (v : version) : list byte := concat_img (img (cs (WfProofs.run_hist v WfProofs.hist1))).
  Example premises_v3 : wf_check (imgs V3) = 0 /\ bytes_ok (imgs V3) = true.
  Proof. vm_compute. split; reflexivity. Qed.
  Example premises_v4 : wf_check (imgs V4) = 0 /\ bytes_ok (imgs V4) = true.
  Proof. vm_compute. split; reflexivity. Qed.
  Example opened_by_computation : is_ok (open_model true (imgs V3)) = true /\ is_ok (open_model true (imgs V4)) = true.
  Proof. vm_compute. split; reflexivity. Qed.
  Theorem opened_by_theorem : forall v, exists st, open_model true (imgs v) = Ok st.
  Proof.
    intros [|].
    - exact (wf_open_ok (imgs V3) (proj1 premises_v3) (proj2 premises_v3)).
    - exact (wf_open_ok (imgs V4) (proj1 premises_v4) (proj2 premises_v4)).
  Qed.
  (* the directory table has storages and streams *)
  Example has_storages_and_streams :
    existsb (fun e => objtype_eqb (d_type e) TStorage)
            (match open_model true (imgs V3) with Ok st => dirs st | _ => [] end) = true /\
    existsb (fun e => objtype_eqb (d_type e) TStream)
            (match open_model true (imgs V3) with Ok st => dirs st | _ => [] end) = true.
  Proof. vm_compute. split; reflexivity. Qed.
End WfOpenExample.

Check wf_certificate.
Check wf_header_ok.
Check wf_alloc_validate_ok.
Check wf_open_upto_alloc.
Check wf_mini_validate_ok.
Check wf_open_given_dir.
Check wf_dir_loop_ok.
Check decode_entry.
Check blank_entry_ok.
Check wf_open_given_entries.
Check tree_walk_inv.
Check wf_dir_validate_ok.
Check wf_entries_ok.
Check wf_size_ok.
Check wf_open_cert.
Check wf_open_opened.
Check wf_open_ok.
Check wf_open_opened_permissive.
Check wf_open_ok_permissive.
Print Assumptions wf_certificate.
Print Assumptions wf_open_given_entries.
Print Assumptions wf_dir_validate_ok.
Print Assumptions wf_entries_ok.
Print Assumptions wf_open_cert.
Print Assumptions wf_open_opened.
Print Assumptions wf_open_ok.
Print Assumptions wf_open_opened_permissive.
Print Assumptions wf_open_ok_permissive.
Print Assumptions Gaps.storage_start_nonzero.
Print Assumptions Gaps.bytes_ok_needed.
Print Assumptions WfOpenExample.opened_by_theorem.
