(* RefuseProofs.v — property C10: an API call that is REFUSED by one of its
   precondition checks (missing parent, wrong object type, existing name,
   non-empty storage, removing the root, invalid path or name, out-of-range
   seek) has no effect at all: the whole state (cached tables, byte image, table
   of open handles) is identical, hence so is every later result.

   [precheck f o] computes, from the path, the directory table, the handle
   table and the operation alone, the refusal the API-level checks produce.
   [precheck_sound]: precheck f o = Some k -> step f now o = (f, Err k). *)
From Cfb.model Require Import Base Names Time DirEnt State Alloc Dir Mini Store Handle Open Cfb.
From Cfb.gen Require Import Consts.
Open Scope N_scope.

(* ------------------------------------------------------------------ *)
(* 0. run lemmas for the monad                                         *)
(* ------------------------------------------------------------------ *)
Lemma bind_ok : forall A B (m : M A) (f : A -> M B) s s1 a,
  m s = (s1, Ok a) -> bind m f s = f a s1.
Proof. intros A B m f s s1 a H. unfold bind. rewrite H. reflexivity. Qed.

Lemma bind_err : forall A B (m : M A) (f : A -> M B) s s1 k,
  m s = (s1, Err k) -> bind m f s = (s1, Err k).
Proof. intros A B m f s s1 k H. unfold bind. rewrite H. reflexivity. Qed.

Lemma bind_ret : forall A B (a : A) (f : A -> M B) s, bind (ret a) f s = f a s.
Proof. reflexivity. Qed.
Lemma bind_lift_ok : forall A B (a : A) (f : A -> M B) s, bind (lift (Ok a)) f s = f a s.
Proof. reflexivity. Qed.
Lemma bind_lift_err : forall A B k (f : A -> M B) s, bind (lift (Err k)) f s = (s, Err k).
Proof. reflexivity. Qed.
Lemma bind_get : forall B (f : cstate -> M B) s, bind get f s = f s s.
Proof. reflexivity. Qed.

Lemma lookup_run : forall names s,
  lookup names s = (s, lookup_chain (dirs s) names ROOT_STREAM_ID).
Proof. reflexivity. Qed.

Lemma dir_entry_run : forall id s, dir_entry id s = (s, dir_entry_of (dirs s) id).
Proof.
  intros id s. unfold dir_entry, dir_entry_of, bind, get.
  destruct (nthN (dirs s) id); reflexivity.
Qed.

Lemma names_of_run : forall p s, names_of p s = (s, name_chain_from_path p).
Proof. reflexivity. Qed.

(* the only error of path normalisation and of name validation is InvalidInput *)
Lemma name_chain_go_err : forall cs names k,
  name_chain_go cs names = Err k -> k = EInvalidInput.
Proof.
  induction cs as [|c t IH]; intros names k H.
  - discriminate H.
  - destruct c; cbn [name_chain_go] in H.
    + eapply IH; eassumption.
    + eapply IH; eassumption.
    + destruct names.
      * injection H as H; symmetry; exact H.
      * eapply IH; eassumption.
    + eapply IH; eassumption.
Qed.

Lemma name_chain_err : forall p k, name_chain_from_path p = Err k -> k = EInvalidInput.
Proof. intros p k H. eapply name_chain_go_err; exact H. Qed.

Lemma validate_name_err : forall n k, validate_name n = Err k -> k = EInvalidInput.
Proof.
  intros n k H. unfold validate_name in H.
  destruct (MAX_NAME_LEN <? lenN (utf16 n)).
  - injection H as H; symmetry; exact H.
  - destruct (existsb (fun f => memN f n) FORBIDDEN_CHARS).
    + injection H as H; symmetry; exact H.
    + discriminate H.
Qed.

Lemma validate_all_err : forall names k, validate_all names = Err k -> k = EInvalidInput.
Proof.
  induction names as [|n t IH]; intros k H.
  - discriminate H.
  - cbn [validate_all] in H. destruct (validate_name n) eqn:Hv; cbn [rbind] in H.
    + eapply IH; exact H.
    + injection H as H; subst. eapply validate_name_err; exact Hv.
    + discriminate H.
    + discriminate H.
Qed.

(* the directory walks never return an io::Error: only Ok, Panic (unchecked
   index) or OutOfFuel *)
Definition noerr {A} (r : res A) : Prop := match r with Err _ => False | _ => True end.

Lemma rbind_noerr : forall A B (m : res A) (f : A -> res B),
  noerr m -> (forall a, noerr (f a)) -> noerr (rbind m f).
Proof. intros A B m f Hm Hf. destruct m; cbn [rbind]; [apply Hf|exact Hm|exact I|exact I]. Qed.

Lemma dir_entry_of_noerr : forall ds id, noerr (dir_entry_of ds id).
Proof. intros ds id. unfold dir_entry_of. destruct (nthN ds id); exact I. Qed.

Lemma find_in_siblings_noerr : forall fuel ds nm id, noerr (find_in_siblings fuel ds nm id).
Proof.
  induction fuel as [|f IH]; intros ds nm id; cbn [find_in_siblings].
  - exact I.
  - destruct (id =? NO_STREAM); [exact I|].
    apply rbind_noerr; [apply dir_entry_of_noerr|]. intro e.
    destruct (cmp_names nm (d_name e)); [exact I|apply IH|apply IH].
Qed.

Lemma lookup_chain_noerr : forall ds names id, noerr (lookup_chain ds names id).
Proof.
  intros ds names. induction names as [|nm t IH]; intro id; cbn [lookup_chain].
  - exact I.
  - apply rbind_noerr; [apply dir_entry_of_noerr|]. intro e.
    apply rbind_noerr; [apply find_in_siblings_noerr|]. intros [cid|]; [apply IH|exact I].
Qed.

Lemma left_spine_noerr : forall fuel ds parent id stack, noerr (left_spine fuel ds parent id stack).
Proof.
  induction fuel as [|f IH]; intros ds parent id stack; cbn [left_spine].
  - exact I.
  - destruct (id =? NO_STREAM); [exact I|].
    apply rbind_noerr; [apply dir_entry_of_noerr|]. intro e. apply IH.
Qed.

Lemma entries_go_noerr : forall fuel ds ord stack acc, noerr (entries_go fuel ds ord stack acc).
Proof.
  induction fuel as [|f IH]; intros ds ord stack acc; cbn [entries_go].
  - exact I.
  - destruct stack as [|[[parent id] vis] rest]; [exact I|].
    apply rbind_noerr; [apply dir_entry_of_noerr|]. intro e.
    apply rbind_noerr.
    { destruct vis; [apply left_spine_noerr|exact I]. }
    intro st1. apply rbind_noerr.
    { destruct ord; [exact I|].
      destruct (negb (objtype_eqb (d_type e) TStream) && negb (d_child e =? NO_STREAM));
        [apply left_spine_noerr|exact I]. }
    intro st2. apply IH.
Qed.

Lemma entries_collect_noerr : forall ds ord parent start, noerr (entries_collect ds ord parent start).
Proof.
  intros ds ord parent start. unfold entries_collect. destruct ord.
  - apply rbind_noerr; [apply left_spine_noerr|]. intro st. apply entries_go_noerr.
  - apply entries_go_noerr.
Qed.

Global Opaque cmp_names validate_name name_chain_from_path lookup_chain.

(* ------------------------------------------------------------------ *)
(* 1. precheck                                                         *)
(* ------------------------------------------------------------------ *)
(* what a name chain resolves to in the directory table *)
Inductive tgt := TBad | TNone | TSome (id : N) (e : dirent).

Definition resolve (ds : list dirent) (names : list name) : tgt :=
  match lookup_chain ds names ROOT_STREAM_ID with
  | Ok None => TNone
  | Ok (Some id) => match dir_entry_of ds id with Ok e => TSome id e | _ => TBad end
  | _ => TBad
  end.

(* lookup only (the operations that do not read the entry before refusing) *)
Definition pre_missing (ds : list dirent) (names : list name) : option ekind :=
  match lookup_chain ds names ROOT_STREAM_ID with
  | Ok None => Some ENotFound
  | _ => None
  end.

Definition with_names (p : list N) (g : list name -> option ekind) : option ekind :=
  match name_chain_from_path p with
  | Ok names => g names
  | Err _ => Some EInvalidInput
  | _ => None
  end.

(* the checks on the new name and on the parent, shared by create_storage and
   create_stream *)
Definition pre_parent (ds : list dirent) (names : list name) : option ekind :=
  match lastN names with
  | None => None
  | Some nm =>
    match validate_name nm with
    | Err _ => Some EInvalidInput
    | Ok _ =>
      match resolve ds (pop_last names) with
      | TNone => Some ENotFound
      | TSome _ pe => if objtype_eqb (d_type pe) TStream then Some EInvalidInput else None
      | TBad => None
      end
    | _ => None
    end
  end.

Definition pre_create_storage (ds : list dirent) (names : list name) : option ekind :=
  match resolve ds names with
  | TSome _ _ => Some EAlreadyExists
  | TNone => pre_parent ds names
  | TBad => None
  end.

(* the first prefix that is not an existing storage decides *)
Fixpoint pre_all (ds : list dirent) (prefixes : list (list name)) : option ekind :=
  match prefixes with
  | [] => None
  | pre :: t =>
    match resolve ds pre with
    | TSome _ e =>
      if objtype_eqb (d_type e) TStream then Some EAlreadyExists else pre_all ds t
    | TNone => pre_create_storage ds pre
    | TBad => None
    end
  end.

Definition pre_create_storage_all (ds : list dirent) (names : list name) : option ekind :=
  match validate_all names with
  | Err _ => Some EInvalidInput
  | Ok _ => pre_all ds (prefixes_of names [])
  | _ => None
  end.

Definition pre_remove_storage (ds : list dirent) (names : list name) : option ekind :=
  match resolve ds names with
  | TNone => Some ENotFound
  | TSome _ e =>
    if objtype_eqb (d_type e) TRoot then Some EInvalidInput else
    if objtype_eqb (d_type e) TStream then Some EInvalidInput else
    if negb (objtype_eqb (d_type e) TStorage) then None else
    if negb (d_child e =? NO_STREAM) then Some EInvalidInput else None
  | TBad => None
  end.

(* remove_stream, open_stream, cat *)
Definition pre_want_stream (ds : list dirent) (names : list name) : option ekind :=
  match resolve ds names with
  | TNone => Some ENotFound
  | TSome _ e => if negb (objtype_eqb (d_type e) TStream) then Some EInvalidInput else None
  | TBad => None
  end.

(* set_clsid, read_storage *)
Definition pre_want_storage (ds : list dirent) (names : list name) : option ekind :=
  match resolve ds names with
  | TNone => Some ENotFound
  | TSome _ e => if objtype_eqb (d_type e) TStream then Some EInvalidInput else None
  | TBad => None
  end.

Definition pre_create_stream (overwrite : bool) (ds : list dirent) (names : list name) : option ekind :=
  match resolve ds names with
  | TSome _ e =>
    if negb (objtype_eqb (d_type e) TStream) then Some EAlreadyExists
    else if negb overwrite then Some EAlreadyExists else None
  | TNone => pre_parent ds names
  | TBad => None
  end.

Definition pre_seek (hs : list (option handle)) (i : N) (w : whence) (z : Z) : option ekind :=
  match nthN hs i with
  | Some (Some h) => match seek_target h w z with Err k => Some k | _ => None end
  | _ => None
  end.

Definition precheck (f : fstate) (o : op) : option ekind :=
  let ds := dirs (cs f) in
  match o with
  | OCreateStorage p => with_names p (pre_create_storage ds)
  | OCreateStorageAll p => with_names p (pre_create_storage_all ds)
  | ORemoveStorage p => with_names p (pre_remove_storage ds)
  | ORemoveStorageAll p => with_names p (pre_missing ds)
  | OCreateStream _ p => with_names p (pre_create_stream true ds)
  | OCreateNewStream _ p => with_names p (pre_create_stream false ds)
  | OOpenStream _ p => with_names p (pre_want_stream ds)
  | ORemoveStream p => with_names p (pre_want_stream ds)
  | OCat p => with_names p (pre_want_stream ds)
  | OSetClsid p _ => with_names p (pre_want_storage ds)
  | OReadStorage p => with_names p (pre_want_storage ds)
  | OSetState p _ => with_names p (pre_missing ds)
  | OSetCreated p _ _ _ => with_names p (pre_missing ds)
  | OSetModified p _ _ _ => with_names p (pre_missing ds)
  | OEntry p => with_names p (pre_missing ds)
  | OWalkStorage p => with_names p (pre_missing ds)
  | OHSeek i w z => pre_seek (hs f) i w z
  | _ => None
  end.

(* ------------------------------------------------------------------ *)
(* 2. soundness                                                        *)
(* ------------------------------------------------------------------ *)
Lemma with_names_sound : forall A (p : list N) g (body : list name -> M A) s k,
  (forall names, g names = Some k -> body names s = (s, Err k)) ->
  with_names p g = Some k ->
  bind (names_of p) body s = (s, Err k).
Proof.
  intros A p g body s k Hb H. unfold with_names in H.
  unfold bind. rewrite names_of_run.
  destruct (name_chain_from_path p) as [names|k'| |] eqn:Hn.
  - apply Hb; exact H.
  - injection H as H; subst k. rewrite (name_chain_err _ _ Hn). reflexivity.
  - discriminate H.
  - discriminate H.
Qed.

(* case analysis on [resolve] *)
Lemma resolve_none : forall ds names,
  resolve ds names = TNone -> lookup_chain ds names ROOT_STREAM_ID = Ok None.
Proof.
  intros ds names H. unfold resolve in H.
  destruct (lookup_chain ds names ROOT_STREAM_ID) as [[id|]|k| |]; try discriminate H.
  - destruct (dir_entry_of ds id); discriminate H.
  - reflexivity.
Qed.

Lemma resolve_some : forall ds names id e,
  resolve ds names = TSome id e ->
  lookup_chain ds names ROOT_STREAM_ID = Ok (Some id) /\ dir_entry_of ds id = Ok e.
Proof.
  intros ds names id e H. unfold resolve in H.
  destruct (lookup_chain ds names ROOT_STREAM_ID) as [[id'|]|k| |]; try discriminate H.
  destruct (dir_entry_of ds id') as [e'|k| |] eqn:He; try discriminate H.
  injection H as H1 H2; subst. split; [reflexivity|exact He].
Qed.

(* stepping through the monadic code: expose the next bind, replace lookups by
   their values *)
Lemma bind_eq : forall A B (m : M A) (f : A -> M B) s,
  bind m f s = (let '(s1, r) := m s in
                match r with
                | Ok a => f a s1
                | Err k => (s1, Err k)
                | Panic n => (s1, Panic n)
                | OutOfFuel => (s1, OutOfFuel)
                end).
Proof. reflexivity. Qed.

Ltac step_m :=
  first
  [ progress cbn [lift ret fail panic get names_of negb]
  | rewrite bind_eq
  | rewrite lookup_run
  | rewrite dir_entry_run
  | match goal with
    | H : lookup_chain _ _ _ = _ |- _ => rewrite H
    | H : dir_entry_of _ _ = _ |- _ => rewrite H
    | H : validate_name _ = _ |- _ => rewrite H
    | H : lastN _ = _ |- _ => rewrite H
    | H : objtype_eqb _ _ = _ |- _ => rewrite H
    | H : N.eqb _ _ = _ |- _ => rewrite H
    end ].
Ltac run_m := repeat step_m.

(* destructing [resolve] in a precheck hypothesis *)
Ltac case_resolve H ds names id e Hl He :=
  let Hr := fresh "Hr" in
  destruct (resolve ds names) as [| |id e] eqn:Hr;
  [ try discriminate H
  | apply resolve_none in Hr; rename Hr into Hl
  | apply resolve_some in Hr; destruct Hr as [Hl He] ].

Lemma pre_missing_lookup : forall ds names k,
  pre_missing ds names = Some k ->
  lookup_chain ds names ROOT_STREAM_ID = Ok None /\ k = ENotFound.
Proof.
  intros ds names k H. unfold pre_missing in H.
  destruct (lookup_chain ds names ROOT_STREAM_ID) as [[id|]|k'| |]; try discriminate H.
  injection H as H; subst. split; reflexivity.
Qed.

Lemma api_entry_sound : forall p s k,
  with_names p (pre_missing (dirs s)) = Some k -> api_entry p s = (s, Err k).
Proof.
  intros p s k H. unfold api_entry. eapply with_names_sound; [|exact H].
  intros names Hm. apply pre_missing_lookup in Hm. destruct Hm as [Hl ->].
  run_m. reflexivity.
Qed.

Lemma api_walk_storage_sound : forall p s k,
  with_names p (pre_missing (dirs s)) = Some k -> api_walk_storage p s = (s, Err k).
Proof.
  intros p s k H. unfold api_walk_storage. eapply with_names_sound; [|exact H].
  intros names Hm. apply pre_missing_lookup in Hm. destruct Hm as [Hl ->].
  run_m. reflexivity.
Qed.

Lemma api_remove_storage_all_sound : forall p s k,
  with_names p (pre_missing (dirs s)) = Some k -> api_remove_storage_all p s = (s, Err k).
Proof.
  intros p s k H. unfold api_remove_storage_all.
  apply bind_err. apply api_walk_storage_sound. exact H.
Qed.

Lemma set_entry_with_path_sound : forall p g s k,
  with_names p (pre_missing (dirs s)) = Some k -> set_entry_with_path p g s = (s, Err k).
Proof.
  intros p g s k H. unfold set_entry_with_path. eapply with_names_sound; [|exact H].
  intros names Hm. apply pre_missing_lookup in Hm. destruct Hm as [Hl ->].
  run_m. reflexivity.
Qed.

Lemma api_read_storage_sound : forall p s k,
  with_names p (pre_want_storage (dirs s)) = Some k -> api_read_storage p s = (s, Err k).
Proof.
  intros p s k H. unfold api_read_storage. eapply with_names_sound; [|exact H].
  intros names Hm. unfold pre_want_storage in Hm.
  case_resolve Hm (dirs s) names tid e Hl He.
  - injection Hm as <-. run_m. reflexivity.
  - destruct (objtype_eqb (d_type e) TStream) eqn:Ht; [|discriminate Hm].
    injection Hm as <-. run_m. reflexivity.
Qed.

Lemma api_set_clsid_sound : forall p g s k,
  with_names p (pre_want_storage (dirs s)) = Some k -> api_set_clsid p g s = (s, Err k).
Proof.
  intros p g s k H. unfold api_set_clsid. eapply with_names_sound; [|exact H].
  intros names Hm. unfold pre_want_storage in Hm.
  case_resolve Hm (dirs s) names tid e Hl He.
  - injection Hm as <-. run_m. reflexivity.
  - destruct (objtype_eqb (d_type e) TStream) eqn:Ht; [|discriminate Hm].
    injection Hm as <-. run_m. reflexivity.
Qed.

Lemma api_open_stream_sound : forall p mb s k,
  with_names p (pre_want_stream (dirs s)) = Some k -> api_open_stream p mb s = (s, Err k).
Proof.
  intros p mb s k H. unfold api_open_stream. eapply with_names_sound; [|exact H].
  intros names Hm. unfold pre_want_stream in Hm.
  case_resolve Hm (dirs s) names tid e Hl He.
  - injection Hm as <-. run_m. reflexivity.
  - destruct (objtype_eqb (d_type e) TStream) eqn:Ht; [discriminate Hm|].
    injection Hm as <-. run_m. reflexivity.
Qed.

Lemma api_cat_sound : forall p mb s k,
  with_names p (pre_want_stream (dirs s)) = Some k -> api_cat p mb s = (s, Err k).
Proof.
  intros p mb s k H. unfold api_cat. apply bind_err. apply api_open_stream_sound. exact H.
Qed.

Lemma api_remove_stream_sound : forall p s k,
  with_names p (pre_want_stream (dirs s)) = Some k -> api_remove_stream p s = (s, Err k).
Proof.
  intros p s k H. unfold api_remove_stream. eapply with_names_sound; [|exact H].
  intros names Hm. unfold pre_want_stream in Hm. unfold remove_stream_names.
  case_resolve Hm (dirs s) names tid e Hl He.
  - injection Hm as <-. run_m. reflexivity.
  - destruct (objtype_eqb (d_type e) TStream) eqn:Ht; [discriminate Hm|].
    injection Hm as <-. run_m. reflexivity.
Qed.

Lemma api_remove_storage_sound : forall p s k,
  with_names p (pre_remove_storage (dirs s)) = Some k -> api_remove_storage p s = (s, Err k).
Proof.
  intros p s k H. unfold api_remove_storage. eapply with_names_sound; [|exact H].
  intros names Hm. unfold pre_remove_storage in Hm. unfold remove_storage_names.
  case_resolve Hm (dirs s) names tid e Hl He.
  - injection Hm as <-. run_m. reflexivity.
  - destruct (objtype_eqb (d_type e) TRoot) eqn:Ht1.
    { injection Hm as <-. run_m. reflexivity. }
    destruct (objtype_eqb (d_type e) TStream) eqn:Ht2.
    { injection Hm as <-. run_m. reflexivity. }
    destruct (objtype_eqb (d_type e) TStorage) eqn:Ht3; [|discriminate Hm].
    cbn [negb] in Hm.
    destruct (d_child e =? NO_STREAM) eqn:Hc; [discriminate Hm|].
    injection Hm as <-. run_m. reflexivity.
Qed.

(* the shared tail: new name invalid / parent missing / parent is a stream *)
Lemma pre_parent_cases : forall ds names k,
  pre_parent ds names = Some k ->
  exists nm, lastN names = Some nm /\
    ((exists k', validate_name nm = Err k' /\ k = EInvalidInput) \/
     (exists u, validate_name nm = Ok u /\
        ((lookup_chain ds (pop_last names) ROOT_STREAM_ID = Ok None /\ k = ENotFound) \/
         (exists pid pe, lookup_chain ds (pop_last names) ROOT_STREAM_ID = Ok (Some pid) /\
                         dir_entry_of ds pid = Ok pe /\
                         objtype_eqb (d_type pe) TStream = true /\ k = EInvalidInput)))).
Proof.
  intros ds names k H. unfold pre_parent in H.
  destruct (lastN names) as [nm|]; [|discriminate H].
  exists nm. split; [reflexivity|].
  destruct (validate_name nm) as [u|k'| |] eqn:Hv; try discriminate H.
  - right. exists u. split; [reflexivity|].
    case_resolve H ds (pop_last names) pid pe Hl He.
    + injection H as <-. left. split; [exact Hl|reflexivity].
    + destruct (objtype_eqb (d_type pe) TStream) eqn:Ht; [|discriminate H].
      injection H as <-. right. exists pid, pe. repeat split; assumption.
  - injection H as <-. left. exists k'. split; reflexivity.
Qed.

Lemma create_storage_names_sound : forall names now s k,
  pre_create_storage (dirs s) names = Some k ->
  create_storage_names names now s = (s, Err k).
Proof.
  intros names now s k H. unfold pre_create_storage in H. unfold create_storage_names.
  case_resolve H (dirs s) names tid e Hl He.
  - apply pre_parent_cases in H. destruct H as [nm [Hlast H]].
    destruct H as [[k' [Hv ->]] | [u [Hv [[Hpl ->] | [pid [pe [Hpl [Hpe [Ht ->]]]]]]]]].
    + run_m. rewrite (validate_name_err _ _ Hv). reflexivity.
    + run_m. reflexivity.
    + run_m. reflexivity.
  - injection H as <-. run_m. reflexivity.
Qed.

Lemma api_create_storage_sound : forall p now s k,
  with_names p (pre_create_storage (dirs s)) = Some k -> api_create_storage p now s = (s, Err k).
Proof.
  intros p now s k H. unfold api_create_storage. eapply with_names_sound; [|exact H].
  intros names Hm. apply create_storage_names_sound. exact Hm.
Qed.

Lemma create_all_go_sound : forall prefixes now s k,
  pre_all (dirs s) prefixes = Some k -> create_all_go prefixes now s = (s, Err k).
Proof.
  induction prefixes as [|pre t IH]; intros now s k H.
  - discriminate H.
  - cbn [pre_all] in H. cbn [create_all_go].
    destruct (resolve (dirs s) pre) as [| |tid e] eqn:Hr.
    + discriminate H.
    + pose proof (resolve_none _ _ Hr) as Hl.
      run_m. rewrite (create_storage_names_sound pre now s k); [reflexivity|exact H].
    + pose proof (resolve_some _ _ _ _ Hr) as [Hl He].
      destruct (objtype_eqb (d_type e) TStream) eqn:Ht.
      * injection H as <-. run_m.
        rewrite (create_storage_names_sound pre now s EAlreadyExists).
        -- reflexivity.
        -- unfold pre_create_storage. rewrite Hr. reflexivity.
      * run_m. apply IH. exact H.
Qed.

Lemma api_create_storage_all_sound : forall p now s k,
  with_names p (pre_create_storage_all (dirs s)) = Some k ->
  api_create_storage_all p now s = (s, Err k).
Proof.
  intros p now s k H. unfold api_create_storage_all. eapply with_names_sound; [|exact H].
  intros names Hm. unfold pre_create_storage_all in Hm.
  destruct (validate_all names) as [u|k'| |] eqn:Hv; try discriminate Hm.
  - run_m. apply create_all_go_sound. exact Hm.
  - injection Hm as <-. rewrite (validate_all_err _ _ Hv). reflexivity.
Qed.

Lemma api_create_stream_sound : forall p ow mb now s k,
  with_names p (pre_create_stream ow (dirs s)) = Some k ->
  api_create_stream p ow mb now s = (s, Err k).
Proof.
  intros p ow mb now s k H. unfold api_create_stream. eapply with_names_sound; [|exact H].
  intros names Hm. unfold pre_create_stream in Hm.
  case_resolve Hm (dirs s) names tid e Hl He.
  - apply pre_parent_cases in Hm. destruct Hm as [nm [Hlast Hm]].
    destruct Hm as [[k' [Hv ->]] | [u [Hv [[Hpl ->] | [pid [pe [Hpl [Hpe [Ht ->]]]]]]]]].
    + run_m. rewrite (validate_name_err _ _ Hv). reflexivity.
    + run_m. reflexivity.
    + run_m. reflexivity.
  - destruct (objtype_eqb (d_type e) TStream) eqn:Ht; cbn [negb] in Hm.
    + destruct ow; [discriminate Hm|]. injection Hm as <-. run_m. reflexivity.
    + injection Hm as <-. run_m. reflexivity.
Qed.

(* ---- the handle slot ---- *)
Lemma updN_same : forall A (l : list A) i x, nthN l i = Some x -> updN l i x = l.
Proof.
  induction l as [|y t IH]; intros i x H.
  - reflexivity.
  - cbn [nthN] in H. cbn [updN]. destruct (i =? 0).
    + injection H as ->. reflexivity.
    + f_equal. apply IH. exact H.
Qed.

Lemma pre_seek_cases : forall hs i w z k,
  pre_seek hs i w z = Some k ->
  exists h, nthN hs i = Some (Some h) /\ seek_target h w z = Err k.
Proof.
  intros hs0 i w z k H. unfold pre_seek in H.
  destruct (nthN hs0 i) as [[h|]|]; try discriminate H.
  exists h. split; [reflexivity|].
  destruct (seek_target h w z) as [n|k'| |]; try discriminate H.
  injection H as ->. reflexivity.
Qed.

(* ---- lifting to [step] ---- *)
Lemma with_cs_refuse : forall A (m : M A) kf s hs0 mb k,
  m s = (s, Err k) -> with_cs (mkF s hs0 mb) m kf = (mkF s hs0 mb, Err k).
Proof.
  intros A m kf s hs0 mb k H. unfold with_cs. cbn [cs hs maxbuf]. rewrite H. reflexivity.
Qed.

Lemma with_new_handle_refuse : forall (m : M handle) i s hs0 mb k,
  m s = (s, Err k) -> with_new_handle (mkF s hs0 mb) i m = (mkF s hs0 mb, Err k).
Proof.
  intros m i s hs0 mb k H. unfold with_new_handle. cbn [cs hs maxbuf]. rewrite H. reflexivity.
Qed.

Theorem precheck_sound : forall f now o k,
  precheck f o = Some k -> step f now o = (f, Err k).
Proof.
  intros [s hs0 mb] now o k H.
  destruct o; cbn [precheck cs hs] in H; try discriminate H; cbn [step].
  - apply with_cs_refuse. apply api_create_storage_sound. exact H.
  - apply with_cs_refuse. apply api_create_storage_all_sound. exact H.
  - apply with_cs_refuse. apply api_remove_storage_sound. exact H.
  - apply with_cs_refuse. apply api_remove_storage_all_sound. exact H.
  - cbn [cs hs maxbuf].
    rewrite (with_new_handle_refuse _ h s hs0 mb k); [reflexivity|].
    apply api_create_stream_sound. exact H.
  - apply with_new_handle_refuse. apply api_create_stream_sound. exact H.
  - apply with_new_handle_refuse. apply api_open_stream_sound. exact H.
  - apply with_cs_refuse. apply api_remove_stream_sound. exact H.
  - apply with_cs_refuse. apply api_set_clsid_sound. exact H.
  - apply with_cs_refuse. apply set_entry_with_path_sound. exact H.
  - apply with_cs_refuse. apply set_entry_with_path_sound. exact H.
  - apply with_cs_refuse. apply set_entry_with_path_sound. exact H.
  - apply with_cs_refuse. apply api_entry_sound. exact H.
  - apply with_cs_refuse. apply api_read_storage_sound. exact H.
  - apply with_cs_refuse. apply api_walk_storage_sound. exact H.
  - apply pre_seek_cases in H. destruct H as [h0 [Hn Hs]].
    unfold with_handle. cbn [cs hs maxbuf]. rewrite Hn.
    unfold h_seek', h_seek. rewrite Hs. cbn [rmap rbind].
    rewrite (updN_same _ _ _ _ Hn). reflexivity.
  - apply with_cs_refuse. apply api_cat_sound. exact H.
Qed.

(* ------------------------------------------------------------------ *)
(* 3. the refusals are exactly the three kinds of the property         *)
(* ------------------------------------------------------------------ *)
Definition three (k : ekind) : Prop :=
  k = ENotFound \/ k = EAlreadyExists \/ k = EInvalidInput.

Ltac three_tac H :=
  repeat match type of H with
         | context [match ?X with _ => _ end] => destruct X
         end;
  try discriminate H;
  try (injection H as <-; unfold three; auto).

Lemma with_names_kinds : forall p g k,
  (forall names, g names = Some k -> three k) -> with_names p g = Some k -> three k.
Proof.
  intros p g k Hg H. unfold with_names in H.
  destruct (name_chain_from_path p) as [names|k'| |].
  - eapply Hg; exact H.
  - injection H as <-. unfold three; auto.
  - discriminate H.
  - discriminate H.
Qed.

Lemma pre_missing_kinds : forall ds names k, pre_missing ds names = Some k -> three k.
Proof. intros ds names k H. unfold pre_missing in H. three_tac H. Qed.

Lemma pre_parent_kinds : forall ds names k, pre_parent ds names = Some k -> three k.
Proof. intros ds names k H. unfold pre_parent in H. three_tac H. Qed.

Lemma pre_create_storage_kinds : forall ds names k, pre_create_storage ds names = Some k -> three k.
Proof.
  intros ds names k H. unfold pre_create_storage in H.
  destruct (resolve ds names).
  - discriminate H.
  - eapply pre_parent_kinds; exact H.
  - injection H as <-. unfold three; auto.
Qed.

Lemma pre_all_kinds : forall ds prefixes k, pre_all ds prefixes = Some k -> three k.
Proof.
  intros ds prefixes. induction prefixes as [|pre t IH]; intros k H; cbn [pre_all] in H.
  - discriminate H.
  - destruct (resolve ds pre) as [| |tid e].
    + discriminate H.
    + eapply pre_create_storage_kinds; exact H.
    + destruct (objtype_eqb (d_type e) TStream).
      * injection H as <-. unfold three; auto.
      * apply IH; exact H.
Qed.

Lemma pre_create_storage_all_kinds : forall ds names k,
  pre_create_storage_all ds names = Some k -> three k.
Proof.
  intros ds names k H. unfold pre_create_storage_all in H.
  destruct (validate_all names).
  - eapply pre_all_kinds; exact H.
  - injection H as <-. unfold three; auto.
  - discriminate H.
  - discriminate H.
Qed.

Lemma pre_remove_storage_kinds : forall ds names k, pre_remove_storage ds names = Some k -> three k.
Proof. intros ds names k H. unfold pre_remove_storage in H. three_tac H. Qed.

Lemma pre_want_stream_kinds : forall ds names k, pre_want_stream ds names = Some k -> three k.
Proof. intros ds names k H. unfold pre_want_stream in H. three_tac H. Qed.

Lemma pre_want_storage_kinds : forall ds names k, pre_want_storage ds names = Some k -> three k.
Proof. intros ds names k H. unfold pre_want_storage in H. three_tac H. Qed.

Lemma pre_create_stream_kinds : forall ow ds names k,
  pre_create_stream ow ds names = Some k -> three k.
Proof.
  intros ow ds names k H. unfold pre_create_stream in H.
  destruct (resolve ds names) as [| |tid e].
  - discriminate H.
  - eapply pre_parent_kinds; exact H.
  - three_tac H.
Qed.

Lemma seek_target_err : forall h w z k, seek_target h w z = Err k -> k = EInvalidInput.
Proof.
  intros h w z k H. unfold seek_target in H.
  repeat match type of H with
         | context [match ?X with _ => _ end] => destruct X
         end;
  try discriminate H; injection H as <-; reflexivity.
Qed.

Lemma pre_seek_kinds : forall hs0 i w z k, pre_seek hs0 i w z = Some k -> three k.
Proof.
  intros hs0 i w z k H. apply pre_seek_cases in H. destruct H as [h [_ Hs]].
  apply seek_target_err in Hs. subst. unfold three; auto.
Qed.

Theorem precheck_kinds : forall f o k,
  precheck f o = Some k -> k = ENotFound \/ k = EAlreadyExists \/ k = EInvalidInput.
Proof.
  intros f o k H. change (three k).
  destruct o; cbn [precheck] in H; try discriminate H;
    first
    [ eapply pre_seek_kinds; exact H
    | eapply with_names_kinds; [|exact H]; intros names Hn;
      first [ eapply pre_missing_kinds; exact Hn
            | eapply pre_create_storage_kinds; exact Hn
            | eapply pre_create_storage_all_kinds; exact Hn
            | eapply pre_remove_storage_kinds; exact Hn
            | eapply pre_want_stream_kinds; exact Hn
            | eapply pre_want_storage_kinds; exact Hn
            | eapply pre_create_stream_kinds; exact Hn ] ].
Qed.

(* ------------------------------------------------------------------ *)
(* 4. ... hence every later result is the same                         *)
(* ------------------------------------------------------------------ *)
(* a history: (now, op) pairs; the run collects every result *)
Definition run_ops (f : fstate) (ops : list (N * op)) : fstate * list (res value) :=
  fold_left (fun (acc : fstate * list (res value)) (no : N * op) =>
               let '(f1, out) := acc in
               let '(f2, r) := step f1 (fst no) (snd no) in
               (f2, out ++ [r]))
            ops (f, []).

Theorem refused_no_effect : forall f now o k,
  precheck f o = Some k ->
  fst (step f now o) = f /\
  snd (step f now o) = Err k /\
  concat_img (img (cs (fst (step f now o)))) = concat_img (img (cs f)) /\
  hs (fst (step f now o)) = hs f.
Proof.
  intros f now o k H. rewrite (precheck_sound f now o k H). cbn [fst snd].
  repeat split; reflexivity.
Qed.

Theorem refused_then_same_future : forall f now o k,
  precheck f o = Some k ->
  forall ops, run_ops (fst (step f now o)) ops = run_ops f ops.
Proof.
  intros f now o k H ops. rewrite (precheck_sound f now o k H). reflexivity.
Qed.

(* the same with the refused call inside a history: dropping it changes
   nothing but its own result *)
Theorem refused_call_can_be_dropped : forall f now o k,
  precheck f o = Some k ->
  forall ops,
    fst (run_ops f ((now, o) :: ops)) = fst (run_ops f ops) /\
    snd (run_ops f ((now, o) :: ops)) = Err k :: snd (run_ops f ops).
Proof.
  intros f now o k H ops. unfold run_ops. cbn [fold_left fst snd].
  rewrite (precheck_sound f now o k H). cbn [app].
  set (g := fun (acc : fstate * list (res value)) (no : N * op) =>
              let '(f1, out) := acc in
              let '(f2, r) := step f1 (fst no) (snd no) in (f2, out ++ [r])).
  assert (Hgen : forall ops f0 pre,
            fst (fold_left g ops (f0, pre)) = fst (fold_left g ops (f0, [])) /\
            snd (fold_left g ops (f0, pre)) = pre ++ snd (fold_left g ops (f0, []))).
  { clear. induction ops as [|[n o] t IH]; intros f0 pre.
    - cbn [fold_left fst snd]. rewrite app_nil_r. split; reflexivity.
    - cbn [fold_left]. unfold g at 2 4 6 8. cbn [fst snd].
      destruct (step f0 n o) as [f2 r]. cbn [app].
      destruct (IH f2 (pre ++ [r])) as [IH1 IH2].
      destruct (IH f2 [r]) as [IH3 IH4].
      split.
      + rewrite IH1, IH3. reflexivity.
      + rewrite IH2, IH4. rewrite <- app_assoc. reflexivity. }
  destruct (Hgen ops f [Err k]) as [H1 H2]. split; [exact H1|exact H2].
Qed.

(* ------------------------------------------------------------------ *)
(* 6. the theorem is not vacuous: every refusal class is hit            *)
(* ------------------------------------------------------------------ *)
Module Examples.
  (* "/a" "/a/s" "/x/y" "/a/s/t" "/.." "/a/b:c" "/" *)
  Definition p_a : list N := [47; 97].
  Definition p_a_s : list N := [47; 97; 47; 115].
  Definition p_x_y : list N := [47; 120; 47; 121].
  Definition p_a_s_t : list N := [47; 97; 47; 115; 47; 116].
  Definition p_up : list N := [47; 46; 46].
  Definition p_a_up_up : list N := [97; 47; 46; 46; 47; 46; 46].
  Definition p_bad : list N := [47; 97; 47; 98; 58; 99].
  Definition p_root : list N := [47].
  Definition p_b_c : list N := [47; 98; 47; 99].
  Definition p_a_s_c : list N := [47; 97; 47; 115; 47; 99].

  Definition st0 := init_fstate V3 1024 4.
  Definition st1 := fst (step st0 1 (OCreateStorage p_a)).
  Definition st2 := fst (step st1 2 (OCreateStream 0 p_a_s)).
  Definition st3 := fst (step st2 3 (OHWrite 0 [1; 2; 3; 4; 5])).
  Definition st := fst (step st3 4 (OHFlush 0)).

  (* the set-up steps succeed *)
  Example setup_ok :
    snd (step st0 1 (OCreateStorage p_a)) = Ok VUnit /\
    snd (step st1 2 (OCreateStream 0 p_a_s)) = Ok VUnit /\
    snd (step st2 3 (OHWrite 0 [1; 2; 3; 4; 5])) = Ok (VNum 5) /\
    snd (step st3 4 (OHFlush 0)) = Ok VUnit /\
    snd (step st 5 (OHLen 0)) = Ok (VNum 5).
  Proof. vm_compute. repeat split; reflexivity. Qed.

  (* [hit o k]: precheck predicts k, and (independently, by evaluation) the
     model answers Err k and leaves the state alone *)
  Definition hit (o : op) (k : ekind) : Prop :=
    precheck st o = Some k /\ step st 9 o = (st, Err k).
  Ltac hit_tac := split; vm_compute; reflexivity.

  (* missing parent *)
  Example missing_parent_storage : hit (OCreateStorage p_x_y) ENotFound. Proof. hit_tac. Qed.
  Example missing_parent_stream : hit (OCreateStream 1 p_x_y) ENotFound. Proof. hit_tac. Qed.
  Example missing_parent_new_stream : hit (OCreateNewStream 1 p_x_y) ENotFound. Proof. hit_tac. Qed.
  (* missing object *)
  Example missing_open : hit (OOpenStream 1 p_x_y) ENotFound. Proof. hit_tac. Qed.
  Example missing_cat : hit (OCat p_x_y) ENotFound. Proof. hit_tac. Qed.
  Example missing_remove_stream : hit (ORemoveStream p_x_y) ENotFound. Proof. hit_tac. Qed.
  Example missing_remove_storage : hit (ORemoveStorage p_x_y) ENotFound. Proof. hit_tac. Qed.
  Example missing_remove_storage_all : hit (ORemoveStorageAll p_x_y) ENotFound. Proof. hit_tac. Qed.
  Example missing_entry : hit (OEntry p_x_y) ENotFound. Proof. hit_tac. Qed.
  Example missing_read_storage : hit (OReadStorage p_x_y) ENotFound. Proof. hit_tac. Qed.
  Example missing_walk_storage : hit (OWalkStorage p_x_y) ENotFound. Proof. hit_tac. Qed.
  Example missing_set_clsid : hit (OSetClsid p_x_y 7) ENotFound. Proof. hit_tac. Qed.
  Example missing_set_state : hit (OSetState p_x_y 7) ENotFound. Proof. hit_tac. Qed.
  Example missing_set_created : hit (OSetCreated p_x_y false 1 0) ENotFound. Proof. hit_tac. Qed.
  Example missing_set_modified : hit (OSetModified p_x_y false 1 0) ENotFound. Proof. hit_tac. Qed.
  (* wrong type: a stream where a storage is wanted *)
  Example parent_is_stream_storage : hit (OCreateStorage p_a_s_t) EInvalidInput. Proof. hit_tac. Qed.
  Example parent_is_stream_stream : hit (OCreateStream 1 p_a_s_t) EInvalidInput. Proof. hit_tac. Qed.
  Example remove_storage_on_stream : hit (ORemoveStorage p_a_s) EInvalidInput. Proof. hit_tac. Qed.
  Example read_storage_on_stream : hit (OReadStorage p_a_s) EInvalidInput. Proof. hit_tac. Qed.
  Example set_clsid_on_stream : hit (OSetClsid p_a_s 7) EInvalidInput. Proof. hit_tac. Qed.
  Example create_all_through_stream : hit (OCreateStorageAll p_a_s_c) EAlreadyExists. Proof. hit_tac. Qed.
  (* wrong type: a storage where a stream is wanted *)
  Example open_storage : hit (OOpenStream 1 p_a) EInvalidInput. Proof. hit_tac. Qed.
  Example cat_storage : hit (OCat p_a) EInvalidInput. Proof. hit_tac. Qed.
  Example remove_stream_on_storage : hit (ORemoveStream p_a) EInvalidInput. Proof. hit_tac. Qed.
  Example create_stream_over_storage : hit (OCreateStream 1 p_a) EAlreadyExists. Proof. hit_tac. Qed.
  (* existing name *)
  Example existing_storage : hit (OCreateStorage p_a) EAlreadyExists. Proof. hit_tac. Qed.
  Example existing_storage_over_stream : hit (OCreateStorage p_a_s) EAlreadyExists. Proof. hit_tac. Qed.
  Example existing_new_stream : hit (OCreateNewStream 1 p_a_s) EAlreadyExists. Proof. hit_tac. Qed.
  Example existing_root : hit (OCreateStorage p_root) EAlreadyExists. Proof. hit_tac. Qed.
  (* non-empty storage *)
  Example remove_nonempty : hit (ORemoveStorage p_a) EInvalidInput. Proof. hit_tac. Qed.
  (* removing the root *)
  Example remove_root : hit (ORemoveStorage p_root) EInvalidInput. Proof. hit_tac. Qed.
  (* path escaping the root *)
  Example escape_create : hit (OCreateStorage p_up) EInvalidInput. Proof. hit_tac. Qed.
  Example escape_create_all : hit (OCreateStorageAll p_a_up_up) EInvalidInput. Proof. hit_tac. Qed.
  Example escape_open : hit (OOpenStream 1 p_up) EInvalidInput. Proof. hit_tac. Qed.
  Example escape_entry : hit (OEntry p_a_up_up) EInvalidInput. Proof. hit_tac. Qed.
  Example escape_remove_all : hit (ORemoveStorageAll p_up) EInvalidInput. Proof. hit_tac. Qed.
  (* invalid name *)
  Example bad_name_storage : hit (OCreateStorage p_bad) EInvalidInput. Proof. hit_tac. Qed.
  Example bad_name_stream : hit (OCreateStream 1 p_bad) EInvalidInput. Proof. hit_tac. Qed.
  Example bad_name_all : hit (OCreateStorageAll [47; 110; 47; 98; 58; 99]) EInvalidInput.
  Proof. hit_tac. Qed.
  (* out-of-range seek, on the open handle 0 of length 5 *)
  Example seek_past_end : hit (OHSeek 0 WStart 6) EInvalidInput. Proof. hit_tac. Qed.
  Example seek_end_positive : hit (OHSeek 0 WEnd 1) EInvalidInput. Proof. hit_tac. Qed.
  Example seek_end_before_start : hit (OHSeek 0 WEnd (-6)) EInvalidInput. Proof. hit_tac. Qed.
  Example seek_cur_before_start : hit (OHSeek 0 WCur (-6)) EInvalidInput. Proof. hit_tac. Qed.
  Example seek_cur_past_end : hit (OHSeek 0 WCur 1) EInvalidInput. Proof. hit_tac. Qed.

  (* and precheck is silent on calls that are accepted *)
  Example accepted :
    precheck st (OCreateStorage p_b_c) = Some ENotFound /\
    precheck st (OCreateStorageAll p_b_c) = None /\
    precheck st (OCreateStream 1 p_a_s) = None /\
    precheck st (OOpenStream 1 p_a_s) = None /\
    precheck st (ORemoveStorageAll p_a) = None /\
    precheck st (OHSeek 0 WStart 5) = None /\
    precheck st (OHSeek 3 WStart 99) = None /\
    precheck st (OExists p_up) = None /\
    snd (step st 9 (OExists p_up)) = Ok (VBool false) /\
    snd (step st 9 (OCreateStorageAll p_b_c)) = Ok VUnit /\
    snd (step st 9 (ORemoveStorageAll p_a)) = Ok VUnit /\
    snd (step st 9 (OHSeek 0 WStart 5)) = Ok (VNum 5).
  Proof. vm_compute. repeat split; reflexivity. Qed.
End Examples.

(* ------------------------------------------------------------------ *)
(* 5. partial converse: for the queries, every error IS a refusal       *)
(* ------------------------------------------------------------------ *)
(* For the operations below the body after the checks consists of directory
   walks only, which never return an io::Error (lemmas *_noerr): so ANY error
   they return (whatever its kind) is the refusal computed by precheck, and
   the state is unchanged.

   For the mutating operations the converse needs table consistency, because
   after the checks these inner primitives can in principle return one of the
   three kinds:
     - Alloc.chain_seek:   EInvalidInput when seeking past the end of a chain
       (write_dir_entry -> chain_seek (128*id) on a directory chain shorter
       than the table; Store.read_data/write_data/resize on a FAT chain
       shorter than the recorded stream length);
     - Mini.mchain_seek:   EInvalidInput, the same for mini chains;
     - Alloc.free_sector:  EInvalidInput "freed twice" when the FAT cell is
       already FREE (remove_stream -> free_chain, resize shrinking,
       create_stream overwrite -> set_len 0);
     - Mini.free_mini_sector: EInvalidInput, the same for the MiniFAT;
     - remove_all_go (remove_storage_all): the nested api_remove_stream /
       api_remove_storage re-parse the walked paths and run their own checks
       (ENotFound / EInvalidInput) after earlier removals; on a table whose
       stored names contain '/', or are "." / ".." (foreign files only: such
       names cannot be created through the API) the re-parsed path differs;
     - h_seek: flush_changes -> write_data (the primitives above) when the
       target leaves the buffered window — after seek_target succeeded.
   None of them yields ENotFound or EAlreadyExists except through the nested
   API calls of remove_all_go.  EInvalidData / EUnexpectedEof / EWriteZero are
   outside the property. *)

Lemma pair_err_inv : forall A (s s' : cstate) (r : res A) k,
  (s, r) = (s', Err k) -> s' = s /\ r = Err k.
Proof. intros A s s' r k H. injection H as <- ->. split; reflexivity. Qed.

Lemma with_names_complete : forall A (p : list N) g (body : list name -> M A) s s' k,
  (forall names, body names s = (s', Err k) -> s' = s /\ g names = Some k) ->
  bind (names_of p) body s = (s', Err k) ->
  s' = s /\ with_names p g = Some k.
Proof.
  intros A p g body s s' k Hb H. rewrite bind_eq, names_of_run in H. unfold with_names.
  destruct (name_chain_from_path p) as [names|k'| |] eqn:Hn.
  - apply Hb; exact H.
  - apply pair_err_inv in H. destruct H as [-> H]. injection H as <-.
    rewrite (name_chain_err _ _ Hn). split; reflexivity.
  - discriminate H.
  - discriminate H.
Qed.

(* the common prefix of the queries: lookup, then (optionally) the entry *)
Ltac noerr_contra :=
  match goal with
  | H : lookup_chain ?ds ?n ?i = Err _ |- _ =>
    pose proof (lookup_chain_noerr ds n i) as Hne; rewrite H in Hne; destruct Hne
  | H : dir_entry_of ?ds ?i = Err _ |- _ =>
    pose proof (dir_entry_of_noerr ds i) as Hne; rewrite H in Hne; destruct Hne
  | H : entries_collect ?ds ?o ?p ?i = Err _ |- _ =>
    pose proof (entries_collect_noerr ds o p i) as Hne; rewrite H in Hne; destruct Hne
  end.

Lemma api_entry_complete : forall p s s' k,
  api_entry p s = (s', Err k) -> s' = s /\ with_names p (pre_missing (dirs s)) = Some k.
Proof.
  intros p s s' k H. unfold api_entry in H. eapply with_names_complete; [|exact H].
  clear H. intros names H. cbv beta in H. unfold pre_missing.
  rewrite bind_eq, lookup_run in H.
  destruct (lookup_chain (dirs s) names ROOT_STREAM_ID) as [[id|]|k'| |] eqn:Hl.
  - rewrite bind_eq, dir_entry_run in H.
    destruct (dir_entry_of (dirs s) id) as [e|k'| |] eqn:He; try discriminate H.
    apply pair_err_inv in H. destruct H as [_ H]. injection H as ->. noerr_contra.
  - apply pair_err_inv in H. destruct H as [-> H]. injection H as <-. split; reflexivity.
  - noerr_contra.
  - discriminate H.
  - discriminate H.
Qed.

Lemma api_walk_storage_complete : forall p s s' k,
  api_walk_storage p s = (s', Err k) -> s' = s /\ with_names p (pre_missing (dirs s)) = Some k.
Proof.
  intros p s s' k H. unfold api_walk_storage in H. eapply with_names_complete; [|exact H].
  clear H. intros names H. cbv beta in H. unfold pre_missing.
  rewrite bind_eq, lookup_run in H.
  destruct (lookup_chain (dirs s) names ROOT_STREAM_ID) as [[id|]|k'| |] eqn:Hl.
  - rewrite bind_eq in H. cbn [get lift] in H.
    apply pair_err_inv in H. destruct H as [_ H]. noerr_contra.
  - apply pair_err_inv in H. destruct H as [-> H]. injection H as <-. split; reflexivity.
  - noerr_contra.
  - discriminate H.
  - discriminate H.
Qed.

Lemma api_read_storage_complete : forall p s s' k,
  api_read_storage p s = (s', Err k) -> s' = s /\ with_names p (pre_want_storage (dirs s)) = Some k.
Proof.
  intros p s s' k H. unfold api_read_storage in H. eapply with_names_complete; [|exact H].
  clear H. intros names H. cbv beta in H. unfold pre_want_storage, resolve.
  rewrite bind_eq, lookup_run in H.
  destruct (lookup_chain (dirs s) names ROOT_STREAM_ID) as [[id|]|k'| |] eqn:Hl.
  - rewrite bind_eq, dir_entry_run in H.
    destruct (dir_entry_of (dirs s) id) as [e|k'| |] eqn:He; try discriminate H.
    + destruct (objtype_eqb (d_type e) TStream).
      * apply pair_err_inv in H. destruct H as [-> H]. injection H as <-. split; reflexivity.
      * destruct (negb (objtype_eqb (d_type e) TStorage) && negb (objtype_eqb (d_type e) TRoot));
          [discriminate H|].
        rewrite bind_eq in H. cbn [get lift] in H.
        apply pair_err_inv in H. destruct H as [_ H]. noerr_contra.
    + apply pair_err_inv in H. destruct H as [_ H]. injection H as ->. noerr_contra.
  - apply pair_err_inv in H. destruct H as [-> H]. injection H as <-. split; reflexivity.
  - noerr_contra.
  - discriminate H.
  - discriminate H.
Qed.

Lemma handle_new_ok : forall id mb s e,
  dir_entry_of (dirs s) id = Ok e ->
  handle_new' id mb s = (s, Ok (mkHandle id (d_len e) (buf_new mb) 0 false)).
Proof.
  intros id mb s e He. unfold handle_new', handle_new, stream_len_of.
  rewrite bind_eq, dir_entry_run, He. reflexivity.
Qed.

Lemma api_open_stream_complete : forall p mb s s' k,
  api_open_stream p mb s = (s', Err k) -> s' = s /\ with_names p (pre_want_stream (dirs s)) = Some k.
Proof.
  intros p mb s s' k H. unfold api_open_stream in H. eapply with_names_complete; [|exact H].
  clear H. intros names H. cbv beta in H. unfold pre_want_stream, resolve.
  rewrite bind_eq, lookup_run in H.
  destruct (lookup_chain (dirs s) names ROOT_STREAM_ID) as [[id|]|k'| |] eqn:Hl.
  - rewrite bind_eq, dir_entry_run in H.
    destruct (dir_entry_of (dirs s) id) as [e|k'| |] eqn:He; try discriminate H.
    + destruct (negb (objtype_eqb (d_type e) TStream)).
      * apply pair_err_inv in H. destruct H as [-> H]. injection H as <-. split; reflexivity.
      * rewrite (handle_new_ok _ _ _ _ He) in H. discriminate H.
    + apply pair_err_inv in H. destruct H as [_ H]. injection H as ->. noerr_contra.
  - apply pair_err_inv in H. destruct H as [-> H]. injection H as <-. split; reflexivity.
  - noerr_contra.
  - discriminate H.
  - discriminate H.
Qed.

(* exists / is_stream / is_storage never fail *)
Lemma lookup_path_noerr : forall p s s' k, lookup_path p s <> (s', Err k).
Proof.
  intros p s s' k H. unfold lookup_path in H.
  destruct (name_chain_from_path p) as [names|k'| |]; try discriminate H.
  rewrite lookup_run in H.
  destruct (lookup_chain (dirs s) names ROOT_STREAM_ID) as [[id|]|k'| |] eqn:Hl;
    try discriminate H.
  - rewrite dir_entry_run in H.
    destruct (dir_entry_of (dirs s) id) as [e|k'| |] eqn:He; try discriminate H.
    noerr_contra.
  - noerr_contra.
Qed.

Lemma bind_ret_noerr : forall A B (m : M A) (g : A -> B) s s' k,
  (forall s' k, m s <> (s', Err k)) -> bind m (fun a => ret (g a)) s <> (s', Err k).
Proof.
  intros A B m g s s' k Hm H. rewrite bind_eq in H.
  destruct (m s) as [s1 [a|k'| |]] eqn:Hms; cbn [ret] in H; try discriminate H.
  eapply Hm. reflexivity.
Qed.

Lemma dir_entry_run_noerr : forall id s s' k, dir_entry id s <> (s', Err k).
Proof.
  intros id s s' k H. rewrite dir_entry_run in H.
  apply pair_err_inv in H. destruct H as [_ H]. noerr_contra.
Qed.

Lemma with_cs_err_inv : forall A (m : M A) kf f f' k,
  with_cs f m kf = (f', Err k) ->
  exists s', m (cs f) = (s', Err k) /\ f' = mkF s' (hs f) (maxbuf f).
Proof.
  intros A m kf f f' k H. unfold with_cs in H.
  destruct (m (cs f)) as [s' r]. injection H as <- H.
  destruct r; cbn [rmap rbind] in H; try discriminate H.
  injection H as ->. exists s'. split; reflexivity.
Qed.

Lemma with_new_handle_err_inv : forall (m : M handle) i f f' k,
  with_new_handle f i m = (f', Err k) ->
  exists s', m (cs f) = (s', Err k) /\ f' = mkF s' (hs f) (maxbuf f).
Proof.
  intros m i f f' k H. unfold with_new_handle in H.
  destruct (m (cs f)) as [s' r].
  destruct r; try discriminate H.
  injection H as <- ->. exists s'. split; reflexivity.
Qed.

Definition query (o : op) : bool :=
  match o with
  | OExists _ | OIsStream _ | OIsStorage _ | OEntry _ | ORootEntry
  | OReadStorage _ | OReadRoot | OWalk | OWalkStorage _ | OOpenStream _ _
  | OFlushFile | OVersion | OHLen _ | OHPos _ | OHConsume _ _ => true
  | _ => false
  end.

Theorem precheck_complete_partial : forall f now o f' k,
  query o = true ->
  step f now o = (f', Err k) ->
  f' = f /\ precheck f o = Some k.
Proof.
  intros [s hs0 mb] now o f' k Hq H.
  destruct o; try discriminate Hq; clear Hq; cbn [step] in H; cbn [precheck cs hs].
  - (* OOpenStream *)
    apply with_new_handle_err_inv in H. destruct H as [s' [H ->]]. cbn [cs hs maxbuf] in *.
    apply api_open_stream_complete in H. destruct H as [-> H]. split; [reflexivity|exact H].
  - (* OExists *)
    apply with_cs_err_inv in H. destruct H as [s' [H _]]. exfalso.
    unfold api_exists in H. revert H. apply bind_ret_noerr. intros; apply lookup_path_noerr.
  - (* OIsStream *)
    apply with_cs_err_inv in H. destruct H as [s' [H _]]. exfalso.
    unfold api_is_stream in H. revert H. apply bind_ret_noerr. intros; apply lookup_path_noerr.
  - (* OIsStorage *)
    apply with_cs_err_inv in H. destruct H as [s' [H _]]. exfalso.
    unfold api_is_storage in H. revert H. apply bind_ret_noerr. intros; apply lookup_path_noerr.
  - (* OEntry *)
    apply with_cs_err_inv in H. destruct H as [s' [H ->]]. cbn [cs hs maxbuf] in *.
    apply api_entry_complete in H. destruct H as [-> H]. split; [reflexivity|exact H].
  - (* ORootEntry *)
    apply with_cs_err_inv in H. destruct H as [s' [H _]]. exfalso.
    unfold api_root_entry in H. revert H. apply bind_ret_noerr. intros; apply dir_entry_run_noerr.
  - (* OReadStorage *)
    apply with_cs_err_inv in H. destruct H as [s' [H ->]]. cbn [cs hs maxbuf] in *.
    apply api_read_storage_complete in H. destruct H as [-> H]. split; [reflexivity|exact H].
  - (* OReadRoot *)
    apply with_cs_err_inv in H. destruct H as [s' [H _]]. exfalso. cbn [cs] in H.
    unfold api_read_root in H. rewrite bind_eq, dir_entry_run in H.
    destruct (dir_entry_of (dirs s) ROOT_STREAM_ID) as [e|k'| |] eqn:He; try discriminate H.
    + rewrite bind_eq in H. cbn [get lift] in H.
      apply pair_err_inv in H. destruct H as [_ H]. noerr_contra.
    + noerr_contra.
  - (* OWalk *)
    apply with_cs_err_inv in H. destruct H as [s' [H _]]. exfalso. cbn [cs] in H.
    unfold api_walk in H. rewrite bind_eq in H. cbn [get lift] in H.
    apply pair_err_inv in H. destruct H as [_ H]. noerr_contra.
  - (* OWalkStorage *)
    apply with_cs_err_inv in H. destruct H as [s' [H ->]]. cbn [cs hs maxbuf] in *.
    apply api_walk_storage_complete in H. destruct H as [-> H]. split; [reflexivity|exact H].
  - (* OFlushFile *) discriminate H.
  - (* OVersion *) discriminate H.
  - (* OHConsume *)
    exfalso. unfold with_handle in H. cbn [cs hs maxbuf] in H.
    destruct (nthN hs0 h) as [[h0|]|]; try discriminate H.
    unfold h_consume in H.
    destruct (b_cap (h_buf h0) <? b_pos (h_buf h0) + k0); discriminate H.
  - (* OHLen *)
    exfalso. unfold with_handle in H. cbn [cs hs maxbuf] in H.
    destruct (nthN hs0 h) as [[h0|]|]; discriminate H.
  - (* OHPos *)
    exfalso. unfold with_handle in H. cbn [cs hs maxbuf] in H.
    destruct (nthN hs0 h) as [[h0|]|]; discriminate H.
Qed.

(* for OHSeek the refusal is decided by seek_target alone: an accepted target
   can only fail later in flush_changes (an I/O error of the store) *)
Theorem seek_refusal_exact : forall f i w z h,
  nthN (hs f) i = Some (Some h) ->
  forall k, seek_target h w z = Err k <-> precheck f (OHSeek i w z) = Some k.
Proof.
  intros f i w z h Hn k. cbn [precheck]. unfold pre_seek. rewrite Hn. split.
  - intros ->. reflexivity.
  - destruct (seek_target h w z); intro H; try discriminate H. injection H as ->. reflexivity.
Qed.

(* ------------------------------------------------------------------ *)
(* 7. a refusal AFTER a mutation: remove_storage_all on a foreign file  *)
(* ------------------------------------------------------------------ *)
(* The converse of precheck_sound ("an Err of the three kinds leaves the state
   alone") is FALSE for remove_storage_all without an invariant on stored names.
   validate_name (used by open, strict or not) accepts the names "." and "..";
   the API can never create them (the path parser consumes them) but a foreign
   file can hold them.  remove_all_go re-parses every walked path: "/a/.." is
   the root, so the nested remove_stream is refused (InvalidInput: not a
   stream) — after "/a/zzz", later in the walk, has already been removed.
   Witness: a byte string accepted by STRICT open. *)
Module ForeignDotDot.
  Definition p_a : list N := [47; 97].
  Definition p_a_yy : list N := [47; 97; 47; 121; 121].
  Definition p_a_zzz : list N := [47; 97; 47; 122; 122; 122].
  Definition g0 := init_fstate V3 1024 4.
  Definition g1 := fst (step g0 1 (OCreateStorage p_a)).
  Definition g2 := fst (step g1 2 (OCreateStream 0 p_a_yy)).
  Definition g3 := fst (step g2 3 (OCreateStream 1 p_a_zzz)).
  Definition g4 := fst (step (fst (step g3 4 (OHDrop 0))) 4 (OHDrop 1)).
  Definition rename (e : dirent) (n : name) : dirent :=
    mkDirent n (d_type e) (d_color e) (d_left e) (d_right e) (d_child e) (d_clsid e)
             (d_state e) (d_ctime e) (d_mtime e) (d_start e) (d_len e).
  (* rename slot 2 ("yy", same length and same place in the order) to ".."
     and write the entry through to the image *)
  Definition patched : cstate * res unit :=
    let s := cs g4 in
    match nthN (dirs s) 2 with
    | Some e => write_dir_entry 2 (w_dirs s (updN (dirs s) 2 (rename e [DOT; DOT])))
    | None => (s, Panic 0)
    end.
  Definition bytes : list byte := concat_img (img (fst patched)).
  Definition foreign : fstate :=
    match open_model true bytes with
    | Ok s => mkF s (repeatN None 4) 1024
    | _ => g0
    end.

  Theorem remove_storage_all_refused_after_mutation :
    is_ok (open_model true bytes) = true /\
    map d_name (dirs (cs foreign)) = [ROOT_DIR_NAME; [97]; [DOT; DOT]; [122; 122; 122]] /\
    precheck foreign (ORemoveStorageAll p_a) = None /\
    snd (step foreign 9 (OExists p_a_zzz)) = Ok (VBool true) /\
    snd (step foreign 9 (ORemoveStorageAll p_a)) = Err EInvalidInput /\
    snd (step (fst (step foreign 9 (ORemoveStorageAll p_a))) 9 (OExists p_a_zzz)) = Ok (VBool false).
  Proof. vm_compute. repeat split; reflexivity. Qed.
End ForeignDotDot.

Print Assumptions precheck_sound.
Print Assumptions precheck_kinds.
Print Assumptions refused_then_same_future.
Print Assumptions precheck_complete_partial.
