(* RefuseProofs.v — property C10: an API call that is REFUSED by one of its
   precondition checks (missing parent, wrong object type, existing name,
   non-empty storage, removing the root, invalid path or name, out-of-range
   seek) has no effect at all: the whole state (cached tables, byte image, table
   of open handles) is identical, hence so is every later result.

   [precheck f o] computes, from the path, the directory table, the handle
   table and the operation alone, the refusal the API-level checks produce.
   [precheck_sound]: precheck f o = Some k -> step f now o = (f, Err k). *)
From Cfb.model Require Import Base Names Time DirEnt State Alloc Dir Mini Store Handle Open Cfb.
From Cfb.gen Require Import Consts.
Open Scope N_scope.

(* ------------------------------------------------------------------ *)
(* 0. run lemmas for the monad                                         *)
(* ------------------------------------------------------------------ *)
Lemma bind_ok : forall A B (m : M A) (f : A -> M B) s s1 a,
  m s = (s1, Ok a) -> bind m f s = f a s1.
Proof. intros A B m f s s1 a H. unfold bind. rewrite H. reflexivity. Qed.

Lemma bind_err : forall A B (m : M A) (f : A -> M B) s s1 k,
  m s = (s1, Err k) -> bind m f s = (s1, Err k).
Proof. intros A B m f s s1 k H. unfold bind. rewrite H. reflexivity. Qed.

Lemma bind_ret : forall A B (a : A) (f : A -> M B) s, bind (ret a) f s = f a s.
Proof. reflexivity. Qed.
Lemma bind_lift_ok : forall A B (a : A) (f : A -> M B) s, bind (lift (Ok a)) f s = f a s.
Proof. reflexivity. Qed.
Lemma bind_lift_err : forall A B k (f : A -> M B) s, bind (lift (Err k)) f s = (s, Err k).
Proof. reflexivity. Qed.
Lemma bind_get : forall B (f : cstate -> M B) s, bind get f s = f s s.
Proof. reflexivity. Qed.

Lemma lookup_run : forall names s,
  lookup names s = (s, lookup_chain (dirs s) names ROOT_STREAM_ID).
Proof. reflexivity. Qed.

Lemma dir_entry_run : forall id s, dir_entry id s = (s, dir_entry_of (dirs s) id).
Proof.
  intros id s. unfold dir_entry, dir_entry_of, bind, get.
  destruct (nthN (dirs s) id); reflexivity.
Qed.

Lemma names_of_run : forall p s, names_of p s = (s, name_chain_from_path p).
Proof. reflexivity. Qed.

(* the only error of path normalisation and of name validation is InvalidInput *)
Lemma name_chain_go_err : forall cs names k,
  name_chain_go cs names = Err k -> k = EInvalidInput.
Proof.
  induction cs as [|c t IH]; intros names k H.
  - discriminate H.
  - destruct c; cbn [name_chain_go] in H.
    + eapply IH; eassumption.
    + eapply IH; eassumption.
    + destruct names.
      * injection H as H; symmetry; exact H.
      * eapply IH; eassumption.
    + eapply IH; eassumption.
Qed.

Lemma name_chain_err : forall p k, name_chain_from_path p = Err k -> k = EInvalidInput.
Proof. intros p k H. eapply name_chain_go_err; exact H. Qed.

Lemma validate_name_err : forall n k, validate_name n = Err k -> k = EInvalidInput.
Proof.
  intros n k H. unfold validate_name in H.
  destruct (MAX_NAME_LEN <? lenN (utf16 n)).
  - injection H as H; symmetry; exact H.
  - destruct (existsb (fun f => memN f n) FORBIDDEN_CHARS).
    + injection H as H; symmetry; exact H.
    + discriminate H.
Qed.

Lemma validate_all_err : forall names k, validate_all names = Err k -> k = EInvalidInput.
Proof.
  induction names as [|n t IH]; intros k H.
  - discriminate H.
  - cbn [validate_all] in H. destruct (validate_name n) eqn:Hv; cbn [rbind] in H.
    + eapply IH; exact H.
    + injection H as H; subst. eapply validate_name_err; exact Hv.
    + discriminate H.
    + discriminate H.
Qed.

Global Opaque cmp_names validate_name name_chain_from_path lookup_chain.

(* ------------------------------------------------------------------ *)
(* 1. precheck                                                         *)
(* ------------------------------------------------------------------ *)
(* what a name chain resolves to in the directory table *)
Inductive tgt := TBad | TNone | TSome (id : N) (e : dirent).

Definition resolve (ds : list dirent) (names : list name) : tgt :=
  match lookup_chain ds names ROOT_STREAM_ID with
  | Ok None => TNone
  | Ok (Some id) => match dir_entry_of ds id with Ok e => TSome id e | _ => TBad end
  | _ => TBad
  end.

(* lookup only (the operations that do not read the entry before refusing) *)
Definition pre_missing (ds : list dirent) (names : list name) : option ekind :=
  match lookup_chain ds names ROOT_STREAM_ID with
  | Ok None => Some ENotFound
  | _ => None
  end.

Definition with_names (p : list N) (g : list name -> option ekind) : option ekind :=
  match name_chain_from_path p with
  | Ok names => g names
  | Err _ => Some EInvalidInput
  | _ => None
  end.

(* the checks on the new name and on the parent, shared by create_storage and
   create_stream *)
Definition pre_parent (ds : list dirent) (names : list name) : option ekind :=
  match lastN names with
  | None => None
  | Some nm =>
    match validate_name nm with
    | Err _ => Some EInvalidInput
    | Ok _ =>
      match resolve ds (pop_last names) with
      | TNone => Some ENotFound
      | TSome _ pe => if objtype_eqb (d_type pe) TStream then Some EInvalidInput else None
      | TBad => None
      end
    | _ => None
    end
  end.

Definition pre_create_storage (ds : list dirent) (names : list name) : option ekind :=
  match resolve ds names with
  | TSome _ _ => Some EAlreadyExists
  | TNone => pre_parent ds names
  | TBad => None
  end.

(* the first prefix that is not an existing storage decides *)
Fixpoint pre_all (ds : list dirent) (prefixes : list (list name)) : option ekind :=
  match prefixes with
  | [] => None
  | pre :: t =>
    match resolve ds pre with
    | TSome _ e =>
      if objtype_eqb (d_type e) TStream then Some EAlreadyExists else pre_all ds t
    | TNone => pre_create_storage ds pre
    | TBad => None
    end
  end.

Definition pre_create_storage_all (ds : list dirent) (names : list name) : option ekind :=
  match validate_all names with
  | Err _ => Some EInvalidInput
  | Ok _ => pre_all ds (prefixes_of names [])
  | _ => None
  end.

Definition pre_remove_storage (ds : list dirent) (names : list name) : option ekind :=
  match resolve ds names with
  | TNone => Some ENotFound
  | TSome _ e =>
    if objtype_eqb (d_type e) TRoot then Some EInvalidInput else
    if objtype_eqb (d_type e) TStream then Some EInvalidInput else
    if negb (objtype_eqb (d_type e) TStorage) then None else
    if negb (d_child e =? NO_STREAM) then Some EInvalidInput else None
  | TBad => None
  end.

(* remove_stream, open_stream, cat *)
Definition pre_want_stream (ds : list dirent) (names : list name) : option ekind :=
  match resolve ds names with
  | TNone => Some ENotFound
  | TSome _ e => if negb (objtype_eqb (d_type e) TStream) then Some EInvalidInput else None
  | TBad => None
  end.

(* set_clsid, read_storage *)
Definition pre_want_storage (ds : list dirent) (names : list name) : option ekind :=
  match resolve ds names with
  | TNone => Some ENotFound
  | TSome _ e => if objtype_eqb (d_type e) TStream then Some EInvalidInput else None
  | TBad => None
  end.

Definition pre_create_stream (overwrite : bool) (ds : list dirent) (names : list name) : option ekind :=
  match resolve ds names with
  | TSome _ e =>
    if negb (objtype_eqb (d_type e) TStream) then Some EAlreadyExists
    else if negb overwrite then Some EAlreadyExists else None
  | TNone => pre_parent ds names
  | TBad => None
  end.

Definition pre_seek (hs : list (option handle)) (i : N) (w : whence) (z : Z) : option ekind :=
  match nthN hs i with
  | Some (Some h) => match seek_target h w z with Err k => Some k | _ => None end
  | _ => None
  end.

Definition precheck (f : fstate) (o : op) : option ekind :=
  let ds := dirs (cs f) in
  match o with
  | OCreateStorage p => with_names p (pre_create_storage ds)
  | OCreateStorageAll p => with_names p (pre_create_storage_all ds)
  | ORemoveStorage p => with_names p (pre_remove_storage ds)
  | ORemoveStorageAll p => with_names p (pre_missing ds)
  | OCreateStream _ p => with_names p (pre_create_stream true ds)
  | OCreateNewStream _ p => with_names p (pre_create_stream false ds)
  | OOpenStream _ p => with_names p (pre_want_stream ds)
  | ORemoveStream p => with_names p (pre_want_stream ds)
  | OCat p => with_names p (pre_want_stream ds)
  | OSetClsid p _ => with_names p (pre_want_storage ds)
  | OReadStorage p => with_names p (pre_want_storage ds)
  | OSetState p _ => with_names p (pre_missing ds)
  | OSetCreated p _ _ _ => with_names p (pre_missing ds)
  | OSetModified p _ _ _ => with_names p (pre_missing ds)
  | OEntry p => with_names p (pre_missing ds)
  | OWalkStorage p => with_names p (pre_missing ds)
  | OHSeek i w z => pre_seek (hs f) i w z
  | _ => None
  end.

(* ------------------------------------------------------------------ *)
(* 2. soundness                                                        *)
(* ------------------------------------------------------------------ *)
Lemma with_names_sound : forall A (p : list N) g (body : list name -> M A) s k,
  (forall names, g names = Some k -> body names s = (s, Err k)) ->
  with_names p g = Some k ->
  bind (names_of p) body s = (s, Err k).
Proof.
  intros A p g body s k Hb H. unfold with_names in H.
  unfold bind. rewrite names_of_run.
  destruct (name_chain_from_path p) as [names|k'| |] eqn:Hn.
  - apply Hb; exact H.
  - injection H as H; subst k. rewrite (name_chain_err _ _ Hn). reflexivity.
  - discriminate H.
  - discriminate H.
Qed.

(* case analysis on [resolve] *)
Lemma resolve_none : forall ds names,
  resolve ds names = TNone -> lookup_chain ds names ROOT_STREAM_ID = Ok None.
Proof.
  intros ds names H. unfold resolve in H.
  destruct (lookup_chain ds names ROOT_STREAM_ID) as [[id|]|k| |]; try discriminate H.
  - destruct (dir_entry_of ds id); discriminate H.
  - reflexivity.
Qed.

Lemma resolve_some : forall ds names id e,
  resolve ds names = TSome id e ->
  lookup_chain ds names ROOT_STREAM_ID = Ok (Some id) /\ dir_entry_of ds id = Ok e.
Proof.
  intros ds names id e H. unfold resolve in H.
  destruct (lookup_chain ds names ROOT_STREAM_ID) as [[id'|]|k| |]; try discriminate H.
  destruct (dir_entry_of ds id') as [e'|k| |] eqn:He; try discriminate H.
  injection H as H1 H2; subst. split; [reflexivity|exact He].
Qed.

(* stepping through the monadic code: expose the next bind, replace lookups by
   their values *)
Lemma bind_eq : forall A B (m : M A) (f : A -> M B) s,
  bind m f s = (let '(s1, r) := m s in
                match r with
                | Ok a => f a s1
                | Err k => (s1, Err k)
                | Panic n => (s1, Panic n)
                | OutOfFuel => (s1, OutOfFuel)
                end).
Proof. reflexivity. Qed.

Ltac step_m :=
  first
  [ progress cbn [lift ret fail panic get names_of negb]
  | rewrite bind_eq
  | rewrite lookup_run
  | rewrite dir_entry_run
  | match goal with
    | H : lookup_chain _ _ _ = _ |- _ => rewrite H
    | H : dir_entry_of _ _ = _ |- _ => rewrite H
    | H : validate_name _ = _ |- _ => rewrite H
    | H : lastN _ = _ |- _ => rewrite H
    | H : objtype_eqb _ _ = _ |- _ => rewrite H
    | H : N.eqb _ _ = _ |- _ => rewrite H
    end ].
Ltac run_m := repeat step_m.

(* destructing [resolve] in a precheck hypothesis *)
Ltac case_resolve H ds names id e Hl He :=
  let Hr := fresh "Hr" in
  destruct (resolve ds names) as [| |id e] eqn:Hr;
  [ try discriminate H
  | apply resolve_none in Hr; rename Hr into Hl
  | apply resolve_some in Hr; destruct Hr as [Hl He] ].

Lemma pre_missing_lookup : forall ds names k,
  pre_missing ds names = Some k ->
  lookup_chain ds names ROOT_STREAM_ID = Ok None /\ k = ENotFound.
Proof.
  intros ds names k H. unfold pre_missing in H.
  destruct (lookup_chain ds names ROOT_STREAM_ID) as [[id|]|k'| |]; try discriminate H.
  injection H as H; subst. split; reflexivity.
Qed.

Lemma api_entry_sound : forall p s k,
  with_names p (pre_missing (dirs s)) = Some k -> api_entry p s = (s, Err k).
Proof.
  intros p s k H. unfold api_entry. eapply with_names_sound; [|exact H].
  intros names Hm. apply pre_missing_lookup in Hm. destruct Hm as [Hl ->].
  run_m. reflexivity.
Qed.

Lemma api_walk_storage_sound : forall p s k,
  with_names p (pre_missing (dirs s)) = Some k -> api_walk_storage p s = (s, Err k).
Proof.
  intros p s k H. unfold api_walk_storage. eapply with_names_sound; [|exact H].
  intros names Hm. apply pre_missing_lookup in Hm. destruct Hm as [Hl ->].
  run_m. reflexivity.
Qed.

Lemma api_remove_storage_all_sound : forall p s k,
  with_names p (pre_missing (dirs s)) = Some k -> api_remove_storage_all p s = (s, Err k).
Proof.
  intros p s k H. unfold api_remove_storage_all.
  apply bind_err. apply api_walk_storage_sound. exact H.
Qed.

Lemma set_entry_with_path_sound : forall p g s k,
  with_names p (pre_missing (dirs s)) = Some k -> set_entry_with_path p g s = (s, Err k).
Proof.
  intros p g s k H. unfold set_entry_with_path. eapply with_names_sound; [|exact H].
  intros names Hm. apply pre_missing_lookup in Hm. destruct Hm as [Hl ->].
  run_m. reflexivity.
Qed.

Lemma api_read_storage_sound : forall p s k,
  with_names p (pre_want_storage (dirs s)) = Some k -> api_read_storage p s = (s, Err k).
Proof.
  intros p s k H. unfold api_read_storage. eapply with_names_sound; [|exact H].
  intros names Hm. unfold pre_want_storage in Hm.
  case_resolve Hm (dirs s) names tid e Hl He.
  - injection Hm as <-. run_m. reflexivity.
  - destruct (objtype_eqb (d_type e) TStream) eqn:Ht; [|discriminate Hm].
    injection Hm as <-. run_m. reflexivity.
Qed.

Lemma api_set_clsid_sound : forall p g s k,
  with_names p (pre_want_storage (dirs s)) = Some k -> api_set_clsid p g s = (s, Err k).
Proof.
  intros p g s k H. unfold api_set_clsid. eapply with_names_sound; [|exact H].
  intros names Hm. unfold pre_want_storage in Hm.
  case_resolve Hm (dirs s) names tid e Hl He.
  - injection Hm as <-. run_m. reflexivity.
  - destruct (objtype_eqb (d_type e) TStream) eqn:Ht; [|discriminate Hm].
    injection Hm as <-. run_m. reflexivity.
Qed.

Lemma api_open_stream_sound : forall p mb s k,
  with_names p (pre_want_stream (dirs s)) = Some k -> api_open_stream p mb s = (s, Err k).
Proof.
  intros p mb s k H. unfold api_open_stream. eapply with_names_sound; [|exact H].
  intros names Hm. unfold pre_want_stream in Hm.
  case_resolve Hm (dirs s) names tid e Hl He.
  - injection Hm as <-. run_m. reflexivity.
  - destruct (objtype_eqb (d_type e) TStream) eqn:Ht; [discriminate Hm|].
    injection Hm as <-. run_m. reflexivity.
Qed.

Lemma api_cat_sound : forall p mb s k,
  with_names p (pre_want_stream (dirs s)) = Some k -> api_cat p mb s = (s, Err k).
Proof.
  intros p mb s k H. unfold api_cat. apply bind_err. apply api_open_stream_sound. exact H.
Qed.

Lemma api_remove_stream_sound : forall p s k,
  with_names p (pre_want_stream (dirs s)) = Some k -> api_remove_stream p s = (s, Err k).
Proof.
  intros p s k H. unfold api_remove_stream. eapply with_names_sound; [|exact H].
  intros names Hm. unfold pre_want_stream in Hm. unfold remove_stream_names.
  case_resolve Hm (dirs s) names tid e Hl He.
  - injection Hm as <-. run_m. reflexivity.
  - destruct (objtype_eqb (d_type e) TStream) eqn:Ht; [discriminate Hm|].
    injection Hm as <-. run_m. reflexivity.
Qed.

Lemma api_remove_storage_sound : forall p s k,
  with_names p (pre_remove_storage (dirs s)) = Some k -> api_remove_storage p s = (s, Err k).
Proof.
  intros p s k H. unfold api_remove_storage. eapply with_names_sound; [|exact H].
  intros names Hm. unfold pre_remove_storage in Hm. unfold remove_storage_names.
  case_resolve Hm (dirs s) names tid e Hl He.
  - injection Hm as <-. run_m. reflexivity.
  - destruct (objtype_eqb (d_type e) TRoot) eqn:Ht1.
    { injection Hm as <-. run_m. reflexivity. }
    destruct (objtype_eqb (d_type e) TStream) eqn:Ht2.
    { injection Hm as <-. run_m. reflexivity. }
    destruct (objtype_eqb (d_type e) TStorage) eqn:Ht3; [|discriminate Hm].
    cbn [negb] in Hm.
    destruct (d_child e =? NO_STREAM) eqn:Hc; [discriminate Hm|].
    injection Hm as <-. run_m. reflexivity.
Qed.

(* the shared tail: new name invalid / parent missing / parent is a stream *)
Lemma pre_parent_cases : forall ds names k,
  pre_parent ds names = Some k ->
  exists nm, lastN names = Some nm /\
    ((exists k', validate_name nm = Err k' /\ k = EInvalidInput) \/
     (exists u, validate_name nm = Ok u /\
        ((lookup_chain ds (pop_last names) ROOT_STREAM_ID = Ok None /\ k = ENotFound) \/
         (exists pid pe, lookup_chain ds (pop_last names) ROOT_STREAM_ID = Ok (Some pid) /\
                         dir_entry_of ds pid = Ok pe /\
                         objtype_eqb (d_type pe) TStream = true /\ k = EInvalidInput)))).
Proof.
  intros ds names k H. unfold pre_parent in H.
  destruct (lastN names) as [nm|]; [|discriminate H].
  exists nm. split; [reflexivity|].
  destruct (validate_name nm) as [u|k'| |] eqn:Hv; try discriminate H.
  - right. exists u. split; [reflexivity|].
    case_resolve H ds (pop_last names) pid pe Hl He.
    + injection H as <-. left. split; [exact Hl|reflexivity].
    + destruct (objtype_eqb (d_type pe) TStream) eqn:Ht; [|discriminate H].
      injection H as <-. right. exists pid, pe. repeat split; assumption.
  - injection H as <-. left. exists k'. split; reflexivity.
Qed.

Lemma create_storage_names_sound : forall names now s k,
  pre_create_storage (dirs s) names = Some k ->
  create_storage_names names now s = (s, Err k).
Proof.
  intros names now s k H. unfold pre_create_storage in H. unfold create_storage_names.
  case_resolve H (dirs s) names tid e Hl He.
  - apply pre_parent_cases in H. destruct H as [nm [Hlast H]].
    destruct H as [[k' [Hv ->]] | [u [Hv [[Hpl ->] | [pid [pe [Hpl [Hpe [Ht ->]]]]]]]]].
    + run_m. rewrite (validate_name_err _ _ Hv). reflexivity.
    + run_m. reflexivity.
    + run_m. reflexivity.
  - injection H as <-. run_m. reflexivity.
Qed.

Lemma api_create_storage_sound : forall p now s k,
  with_names p (pre_create_storage (dirs s)) = Some k -> api_create_storage p now s = (s, Err k).
Proof.
  intros p now s k H. unfold api_create_storage. eapply with_names_sound; [|exact H].
  intros names Hm. apply create_storage_names_sound. exact Hm.
Qed.

Lemma create_all_go_sound : forall prefixes now s k,
  pre_all (dirs s) prefixes = Some k -> create_all_go prefixes now s = (s, Err k).
Proof.
  induction prefixes as [|pre t IH]; intros now s k H.
  - discriminate H.
  - cbn [pre_all] in H. cbn [create_all_go].
    destruct (resolve (dirs s) pre) as [| |tid e] eqn:Hr.
    + discriminate H.
    + pose proof (resolve_none _ _ Hr) as Hl.
      run_m. rewrite bind_eq.
      rewrite (create_storage_names_sound pre now s k).
      * reflexivity.
      * unfold pre_create_storage. rewrite Hr. unfold pre_create_storage in H.
        rewrite Hr in H. exact H.
    + pose proof (resolve_some _ _ _ _ Hr) as [Hl He].
      destruct (objtype_eqb (d_type e) TStream) eqn:Ht.
      * injection H as <-. run_m. rewrite bind_eq.
        rewrite (create_storage_names_sound pre now s EAlreadyExists).
        -- reflexivity.
        -- unfold pre_create_storage. rewrite Hr. reflexivity.
      * run_m. apply IH. exact H.
Qed.

Lemma api_create_storage_all_sound : forall p now s k,
  with_names p (pre_create_storage_all (dirs s)) = Some k ->
  api_create_storage_all p now s = (s, Err k).
Proof.
  intros p now s k H. unfold api_create_storage_all. eapply with_names_sound; [|exact H].
  intros names Hm. unfold pre_create_storage_all in Hm.
  destruct (validate_all names) as [u|k'| |] eqn:Hv; try discriminate Hm.
  - run_m. apply create_all_go_sound. exact Hm.
  - injection Hm as <-. rewrite (validate_all_err _ _ Hv). reflexivity.
Qed.

Lemma api_create_stream_sound : forall p ow mb now s k,
  with_names p (pre_create_stream ow (dirs s)) = Some k ->
  api_create_stream p ow mb now s = (s, Err k).
Proof.
  intros p ow mb now s k H. unfold api_create_stream. eapply with_names_sound; [|exact H].
  intros names Hm. unfold pre_create_stream in Hm.
  case_resolve Hm (dirs s) names tid e Hl He.
  - apply pre_parent_cases in Hm. destruct Hm as [nm [Hlast Hm]].
    destruct Hm as [[k' [Hv ->]] | [u [Hv [[Hpl ->] | [pid [pe [Hpl [Hpe [Ht ->]]]]]]]]].
    + run_m. rewrite (validate_name_err _ _ Hv). reflexivity.
    + run_m. reflexivity.
    + run_m. reflexivity.
  - destruct (objtype_eqb (d_type e) TStream) eqn:Ht; cbn [negb] in Hm.
    + destruct ow; [discriminate Hm|]. injection Hm as <-. run_m. reflexivity.
    + injection Hm as <-. run_m. reflexivity.
Qed.

(* ---- the handle slot ---- *)
Lemma updN_same : forall A (l : list A) i x, nthN l i = Some x -> updN l i x = l.
Proof.
  induction l as [|y t IH]; intros i x H.
  - reflexivity.
  - cbn [nthN] in H. cbn [updN]. destruct (i =? 0).
    + injection H as ->. reflexivity.
    + f_equal. apply IH. exact H.
Qed.

Lemma pre_seek_cases : forall hs i w z k,
  pre_seek hs i w z = Some k ->
  exists h, nthN hs i = Some (Some h) /\ seek_target h w z = Err k.
Proof.
  intros hs0 i w z k H. unfold pre_seek in H.
  destruct (nthN hs0 i) as [[h|]|]; try discriminate H.
  exists h. split; [reflexivity|].
  destruct (seek_target h w z) as [n|k'| |]; try discriminate H.
  injection H as ->. reflexivity.
Qed.

(* ---- lifting to [step] ---- *)
Lemma with_cs_refuse : forall A (m : M A) kf s hs0 mb k,
  m s = (s, Err k) -> with_cs (mkF s hs0 mb) m kf = (mkF s hs0 mb, Err k).
Proof.
  intros A m kf s hs0 mb k H. unfold with_cs. cbn [cs hs maxbuf]. rewrite H. reflexivity.
Qed.

Lemma with_new_handle_refuse : forall (m : M handle) i s hs0 mb k,
  m s = (s, Err k) -> with_new_handle (mkF s hs0 mb) i m = (mkF s hs0 mb, Err k).
Proof.
  intros m i s hs0 mb k H. unfold with_new_handle. cbn [cs hs maxbuf]. rewrite H. reflexivity.
Qed.

Theorem precheck_sound : forall f now o k,
  precheck f o = Some k -> step f now o = (f, Err k).
Proof.
  intros [s hs0 mb] now o k H.
  destruct o; cbn [precheck cs hs] in H; try discriminate H; cbn [step].
  - apply with_cs_refuse. apply api_create_storage_sound. exact H.
  - apply with_cs_refuse. apply api_create_storage_all_sound. exact H.
  - apply with_cs_refuse. apply api_remove_storage_sound. exact H.
  - apply with_cs_refuse. apply api_remove_storage_all_sound. exact H.
  - cbn [cs hs maxbuf].
    rewrite (with_new_handle_refuse _ h s hs0 mb k); [reflexivity|].
    apply api_create_stream_sound. exact H.
  - apply with_new_handle_refuse. apply api_create_stream_sound. exact H.
  - apply with_new_handle_refuse. apply api_open_stream_sound. exact H.
  - apply with_cs_refuse. apply api_remove_stream_sound. exact H.
  - apply with_cs_refuse. apply api_set_clsid_sound. exact H.
  - apply with_cs_refuse. apply set_entry_with_path_sound. exact H.
  - apply with_cs_refuse. apply set_entry_with_path_sound. exact H.
  - apply with_cs_refuse. apply set_entry_with_path_sound. exact H.
  - apply with_cs_refuse. apply api_entry_sound. exact H.
  - apply with_cs_refuse. apply api_read_storage_sound. exact H.
  - apply with_cs_refuse. apply api_walk_storage_sound. exact H.
  - apply pre_seek_cases in H. destruct H as [h0 [Hn Hs]].
    unfold with_handle. cbn [cs hs maxbuf]. rewrite Hn.
    unfold h_seek', h_seek. rewrite Hs. cbn [rmap rbind].
    rewrite (updN_same _ _ _ _ Hn). reflexivity.
  - apply with_cs_refuse. apply api_cat_sound. exact H.
Qed.
